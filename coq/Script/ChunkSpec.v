(* Script/ChunkSpec.v — what is assumed of a script-group machine (H1–H3 of
   DESIGN.md §6 C05) and the uninterrupted meaning of a transaction.
   Definitions only; the proofs are in Script/ChunkProofs.v. *)
From Coq Require Import List NArith Bool.
From CKB Require Import Script.Chunk.
Import ListNotations.
Local Open Scope N_scope.

(* the Section variables of Script/Chunk.v, bundled *)
Record machine := mkMachine {
  G : Type;                                            (* script groups *)
  vstate : Type;                                       (* FullSuspendedState *)
  uerr : Type;                                         (* failures of a script *)
  chunk_run : G -> option vstate -> N -> outcome vstate uerr;
  is_type_id : G -> bool;
  type_id_check : G -> option uerr
}.

Definition verify_m (M : machine) := verify (G M) (vstate M) (uerr M) (chunk_run M) (is_type_id M) (type_id_check M).
Definition resumable_verify_m (M : machine) := resumable_verify (G M) (vstate M) (uerr M) (chunk_run M) (is_type_id M) (type_id_check M).
Definition resume_from_state_m (M : machine) := resume_from_state (G M) (vstate M) (uerr M) (chunk_run M) (is_type_id M) (type_id_check M).
Definition complete_m (M : machine) := complete (G M) (vstate M) (uerr M) (chunk_run M) (is_type_id M) (type_id_check M).
Definition run_chunks_m (M : machine) := run_chunks (G M) (vstate M) (uerr M) (chunk_run M) (is_type_id M) (type_id_check M).
Definition resume_chain_m (M : machine) := resume_chain (G M) (vstate M) (uerr M) (chunk_run M) (is_type_id M) (type_id_check M).
Definition run_chunks_complete_m (M : machine) := run_chunks_complete (G M) (vstate M) (uerr M) (chunk_run M) (is_type_id M) (type_id_check M).
Definition signal_m (M : machine) := resumable_verify_with_signal (G M) (vstate M) (uerr M) (chunk_run M) (is_type_id M) (type_id_check M).

(* the intrinsic behaviour of the (non TYPE_ID) groups of a machine *)
Record mspec (M : machine) := mkSpec {
  cost : G M -> N;                 (* cycles of the group run alone, to success or to its failure *)
  verdict : G M -> option (uerr M);(* None = exit code 0 *)
  prog : vstate M -> N;            (* total_cycles held by a captured scheduler state *)
  valid : G M -> vstate M -> Prop; (* the state was captured from a run of this group *)
  atom : G M -> N                  (* a limit that always lets the group advance *)
}.
Arguments cost {M}. Arguments verdict {M}. Arguments prog {M}. Arguments valid {M}. Arguments atom {M}.

Section Spec.
  Variable M : machine.
  Variable S : mspec M.

  Definition sprog (st : option (vstate M)) : N := match st with None => 0 | Some s => prog S s end.
  Definition svalid (g : G M) (st : option (vstate M)) : Prop :=
    match st with None => True | Some s => valid S g s /\ prog S s <= cost S g end.

  (* H1 (determinism) is the fact that [chunk_run] is a function of the group,
     the captured state and the limit.
     H2 (chunk additivity): from a state that has consumed p cycles, a limit
     that covers the remaining cost c - p finishes the group with total c and
     c - p consumed in this call; a smaller limit suspends in a valid state
     that has consumed between p and c cycles (the real scheduler may stop
     short of the limit, and may overshoot it by unchecked charges).
     H3 (failure is schedule independent): whether and how the group fails
     depends on the group only, and shows exactly when the remaining cost is
     covered. *)
  Definition Behaved : Prop :=
    forall g st L, is_type_id M g = false -> svalid g st ->
      (cost S g - sprog st <= L ->
         chunk_run M g st L = match verdict S g with
                              | None => Completed (cost S g) (cost S g - sprog st)
                              | Some e => Failed e
                              end) /\
      (L < cost S g - sprog st ->
         exists s', chunk_run M g st L = Suspended s' /\ valid S g s' /\ sprog st <= prog S s' <= cost S g).

  (* a limit of at least [atom g] makes strict progress *)
  Definition Progressive : Prop :=
    forall g st L s', is_type_id M g = false -> svalid g st -> atom S g <= L ->
      chunk_run M g st L = Suspended s' -> sprog st < prog S s'.

  (* ---- groups including the built-in TYPE_ID script ----------------------- *)
  Definition gcost (g : G M) : N := if is_type_id M g then TYPE_ID_CYCLES else cost S g.
  Definition gverdict (g : G M) : option (uerr M) := if is_type_id M g then type_id_check M g else verdict S g.
  Definition gatom (g : G M) : N := if is_type_id M g then TYPE_ID_CYCLES else atom S g.

  (* ---- the uninterrupted meaning of a transaction --------------------------- *)
  (* cycles up to and including the first failing group, and that failure *)
  Fixpoint tx_walk (gs : list (G M)) (idx : nat) (acc : N) : N * option (nat * uerr M) :=
    match gs with
    | [] => (acc, None)
    | g :: gs' =>
        match gverdict g with
        | Some e => (acc + gcost g, Some (idx, e))
        | None => tx_walk gs' (Datatypes.S idx) (acc + gcost g)
        end
    end.
  Definition tx_cost (tx : list (G M)) : N := fst (tx_walk tx 0 0).
  Definition tx_result (tx : list (G M)) : res (uerr M) N :=
    match tx_walk tx 0 0 with
    | (c, None) => ROk c
    | (_, Some (i, e)) => RErr (Some i) (ScriptFailure e)
    end.
  (* sum over all groups: the no-overflow side condition of the theorems *)
  Definition tx_total (tx : list (G M)) : N := fold_right (fun g a => gcost g + a) 0 tx.
  Definition tx_atom (tx : list (G M)) : N := fold_right (fun g a => N.max (gatom g) a) 1 tx.

  (* a captured TransactionState that a chunked run of [tx] can be in *)
  Definition Good (tx : list (G M)) (ts : tstate (vstate M)) : Prop :=
    exists pre g post,
      tx = pre ++ g :: post /\
      ts_current ts = length pre /\
      Forall (fun h => gverdict h = None) pre /\
      ts_current_cycles ts = tx_total pre /\
      (is_type_id M g = true \/ svalid g (ts_state ts)).

  (* cycles the suspended group has already consumed *)
  Definition ts_progress (tx : list (G M)) (ts : tstate (vstate M)) : N :=
    match nth_error tx (ts_current ts) with
    | Some g => if is_type_id M g then 0 else sprog (ts_state ts)
    | None => 0
    end.

  (* the answer of a (possibly unfinished) chunked run agrees with the
     uninterrupted run *)
  Definition lift_result (r : res (uerr M) N) : res (uerr M) (vresult (vstate M)) :=
    match r with
    | ROk c => ROk (VCompleted c)
    | RErr s c => RErr s c
    | RPanic => RPanic
    end.
  Definition ChunkOK (tx : list (G M)) (r : res (uerr M) (vresult (vstate M))) : Prop :=
    match r with
    | ROk (VSuspended ts) => Good tx ts
    | _ => r = lift_result (tx_result tx)
    end.
End Spec.
