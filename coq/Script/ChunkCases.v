(* Script/ChunkCases.v — evaluation of harness cases (hx-script) by the model.

   A case holds what was measured on the real TransactionScriptsVerifier:
   the groups of the transaction (TYPE_ID or not, cycles of the group run
   alone and uninterrupted, failure class if it fails), one run (a budget, a
   list of chunk limits, a complete() call) and everything the implementation
   answered: every TransactionState (current group, current_cycles,
   limit_cycles, total_cycles of the captured scheduler) and the final
   result.  The accounting of Script/Chunk.v is instantiated with a "replay"
   machine: a group completes (or fails) as soon as the limit covers its
   remaining cost, otherwise it suspends at the NEXT cycle count the real
   scheduler was observed to suspend at.  The checker recomputes every
   TransactionState field, every total and every error (group, class,
   reported limit) and compares. Model only; no proofs in this file. *)
From Coq Require Import List NArith Bool.
From CKB Require Import Script.Chunk.
Import ListNotations.
Local Open Scope N_scope.

Record gdesc := mkG { gd_tid : bool; gd_cost : N; gd_fail : option N }.

(* observed errors: (source group, cause) *)
Inductive ocause := OExceeded (n : N) | OOverflow | OOther | OScript (code : N).
Definition oerr : Type := option nat * ocause.
Inductive ores := OOk (n : N) | OErr (e : oerr) | OPanic.
Record osusp := mkS { os_current : nat; os_cycles : N; os_limit : N; os_progress : option N }.
Inductive oend := EDone (n : N) | EErr (e : oerr) | EOpen | EPanic.

Inductive run :=
| RVerify (max : N) (r : ores)
| RChunks (limits : list N) (susp : list osusp) (e : oend)
| RComplete (limits : list N) (susp : list osusp) (max : N) (r : ores).

Record case := mkCase { c_groups : list gdesc; c_run : run }.

(* ---- the replay machine --------------------------------------------------- *)
(* a group with the cycle counts at which it will suspend, in order *)
Record rgroup := mkR { rg_desc : gdesc; rg_stops : list N }.
(* (cycles consumed so far, number of stops used) *)
Definition rstate : Type := N * nat.

Definition replay_run (g : rgroup) (st : option rstate) (limit : N) : outcome rstate N :=
  let '(p, k) := match st with Some s => s | None => (0, 0%nat) end in
  let c := gd_cost (rg_desc g) in
  if c - p <=? limit then
    match gd_fail (rg_desc g) with
    | Some e => Failed e
    | None => Completed c (c - p)
    end
  else
    match nth_error (rg_stops g) k with
    | Some q => Suspended (q, S k)
    | None => Suspended (p, k)
    end.

Definition r_is_type_id (g : rgroup) : bool := gd_tid (rg_desc g).
Definition r_type_id_check (g : rgroup) : option N := gd_fail (rg_desc g).

Definition m_verify := verify rgroup rstate N replay_run r_is_type_id r_type_id_check.
Definition m_resumable_verify := resumable_verify rgroup rstate N replay_run r_is_type_id r_type_id_check.
Definition m_resume_from_state := resume_from_state rgroup rstate N replay_run r_is_type_id r_type_id_check.
Definition m_complete := complete rgroup rstate N replay_run r_is_type_id r_type_id_check.

(* ---- comparison ------------------------------------------------------------ *)
Definition eq_optN (a b : option N) : bool :=
  match a, b with Some x, Some y => x =? y | None, None => true | _, _ => false end.
Definition eq_optnat (a b : option nat) : bool :=
  match a, b with Some x, Some y => Nat.eqb x y | None, None => true | _, _ => false end.

Definition cause_matches (c : cause N) (o : ocause) : bool :=
  match c, o with
  | ExceededMaximumCycles n, OExceeded m => n =? m
  | CyclesOverflow, OOverflow => true
  | OtherError, OOther => true
  | ScriptFailure e, OScript f => e =? f
  | _, _ => false
  end.

Definition res_matches (r : res N N) (o : ores) : bool :=
  match r, o with
  | ROk a, OOk b => a =? b
  | RErr s c, OErr (s', c') => eq_optnat s s' && cause_matches c c'
  | RPanic, OPanic => true
  | _, _ => false
  end.

Definition susp_matches (ts : tstate rstate) (o : osusp) : bool :=
  Nat.eqb (ts_current ts) (os_current o)
  && (ts_current_cycles ts =? os_cycles o)
  && (ts_limit_cycles ts =? os_limit o)
  && eq_optN (option_map fst (ts_state ts)) (os_progress o).

(* the stops of group [k]: the scheduler totals observed while it was current *)
Definition stops_of (susp : list osusp) (k : nat) : list N :=
  flat_map (fun o => if Nat.eqb (os_current o) k
                     then match os_progress o with Some p => [p] | None => [] end
                     else []) susp.

Fixpoint attach (gs : list gdesc) (k : nat) (susp : list osusp) : list rgroup :=
  match gs with
  | [] => []
  | g :: gs' => mkR g (stops_of susp k) :: attach gs' (S k) susp
  end.

(* observed stops must be sound for the replay: increasing and not above the cost *)
Fixpoint increasing_below (lo : N) (c : N) (l : list N) : bool :=
  match l with
  | [] => true
  | q :: l' => (lo <=? q) && (q <=? c) && increasing_below q c l'
  end.
Definition stops_ok (tx : list rgroup) : bool :=
  forallb (fun g => increasing_below 0 (gd_cost (rg_desc g)) (rg_stops g)) tx.

(* walk a chain of chunks: limits, expected suspensions, and the end *)
Fixpoint walk (tx : list rgroup) (st : option (tstate rstate)) (limits : list N) (susp : list osusp)
  : option (res N (vresult rstate)) * bool :=
  (* returns (final result if the chain ended, all intermediate states matched) *)
  match limits with
  | [] => (None, match susp with [] => true | _ => false end)
  | l :: ls =>
      let r := match st with
               | None => m_resumable_verify tx l
               | Some ts => m_resume_from_state tx ts l
               end in
      match r with
      | ROk (VSuspended ts') =>
          match susp with
          | o :: susp' =>
              if susp_matches ts' o then
                match ls with
                | [] => (Some r, match susp' with [] => true | _ => false end)
                | _ => walk tx (Some ts') ls susp'
                end
              else (Some r, false)
          | [] => (Some r, false)
          end
      | _ => (Some r, match ls, susp with [], [] => true | _, _ => false end)
      end
  end.

Definition end_matches (r : option (res N (vresult rstate))) (e : oend) : bool :=
  match r, e with
  | Some (ROk (VCompleted c)), EDone d => c =? d
  | Some (RErr s c), EErr (s', c') => eq_optnat s s' && cause_matches c c'
  | Some (ROk (VSuspended _)), EOpen => true
  | Some RPanic, EPanic => true
  | _, _ => false
  end.

Definition check_case (c : case) : bool :=
  match c_run c with
  | RVerify max r =>
      res_matches (m_verify (attach (c_groups c) 0 []) max) r
  | RChunks limits susp e =>
      let tx := attach (c_groups c) 0 susp in
      let '(r, ok) := walk tx None limits susp in
      stops_ok tx && ok && end_matches r e
  | RComplete limits susp max r =>
      let tx := attach (c_groups c) 0 susp in
      match walk tx None limits susp with
      | (Some (ROk (VSuspended ts)), true) => stops_ok tx && res_matches (m_complete tx ts max) r
      | _ => false
      end
  end.
