(* Script/Chunk.v — the cycle accounting of TransactionScriptsVerifier
   (script/src/verify.rs): verify, resumable_verify, resume_from_state,
   complete, resumable_verify_with_signal, with TransactionState, ChunkState,
   wrapping_cycles_add (a checked add) and the TYPE_ID special case.

   A script group is an abstract deterministic machine (Section variable
   [chunk_run]): one call = Scheduler::resume/new + Scheduler::run
   (RunMode::LimitCycles limit) + suspend.  CKB-VM, the scheduler's VM
   bookkeeping, pipes and snapshots are NOT modelled here; what the proofs
   need from them is stated as hypotheses in Script/ChunkProofs.v and a
   concrete scheduler-shaped machine meeting them is in Script/Toy.v.

   Model only; no proofs in this file. *)
From Coq Require Import List NArith Bool.
Import ListNotations.
Local Open Scope N_scope.

Definition U64_MAX : N := 18446744073709551615.
(* script/src/type_id.rs: TYPE_ID_CYCLES *)
Definition TYPE_ID_CYCLES : N := 1000000.

(* u64::checked_add / checked_sub *)
Definition checked_add (a b : N) : option N := if a + b <=? U64_MAX then Some (a + b) else None.
Definition checked_sub (a b : N) : option N := if b <=? a then Some (a - b) else None.

(* ScriptError, as far as the accounting distinguishes causes *)
Inductive cause (uerr : Type) :=
| ExceededMaximumCycles (max : N)
| CyclesOverflow
| OtherError                       (* ScriptError::Other("expect invalid cycles ...") / "snapshot group missing" *)
| ScriptFailure (e : uerr).        (* ValidationFailure / VMInternalError of the script itself *)
Arguments ExceededMaximumCycles {uerr}.
Arguments CyclesOverflow {uerr}.
Arguments OtherError {uerr}.
Arguments ScriptFailure {uerr}.

(* Result<_, Error>; the source is the index of the group (None = unknown_source);
   RPanic = arithmetic panic of the Rust code (overflow-checks are on) *)
Inductive res (uerr A : Type) :=
| ROk (a : A)
| RErr (src : option nat) (c : cause uerr)
| RPanic.
Arguments ROk {uerr A}.
Arguments RErr {uerr A}.
Arguments RPanic {uerr A}.

Section Chunk.
  Variables (G vstate uerr : Type).

  (* one scheduler run of a group: chunk_run's three cases *)
  Inductive outcome :=
  | Completed (used consumed : N)   (* exit code 0: (scheduler total, cycles of this call) *)
  | Suspended (s : vstate)          (* CyclesExceeded | Pause -> scheduler.suspend() *)
  | Failed (e : uerr).              (* non-zero exit code or any other VM error *)

  Variable chunk_run : G -> option vstate -> N -> outcome.
  (* group.script.code_hash == TYPE_ID_CODE_HASH && hash_type == Type *)
  Variable is_type_id : G -> bool.
  (* the argument / cell-count / input-hash checks of TypeIdSystemScript::verify *)
  Variable type_id_check : G -> option uerr.

  (* ChunkState, with the error case of Result<ChunkState, ScriptError> *)
  Inductive chunk_state :=
  | CCompleted (used consumed : N)
  | CSuspended (s : option vstate)      (* None = ChunkState::suspended_type_id() *)
  | CErr (c : cause uerr).

  Record tstate := mkTS {
    ts_current : nat;
    ts_state : option vstate;
    ts_current_cycles : N;
    ts_limit_cycles : N
  }.

  Inductive vresult :=
  | VCompleted (cycles : N)
  | VSuspended (s : tstate).

  (* TypeIdSystemScript::verify *)
  Definition type_id_verify (g : G) (max : N) : N + cause uerr :=
    if max <? TYPE_ID_CYCLES then inr (ExceededMaximumCycles max)
    else match type_id_check g with
         | Some e => inr (ScriptFailure e)
         | None => inl TYPE_ID_CYCLES
         end.

  (* verify_script_group -> run -> detailed_run: a fresh scheduler,
     RunMode::LimitCycles(max), CyclesExceeded mapped to ExceededMaximumCycles(max) *)
  Definition verify_script_group (g : G) (max : N) : N + cause uerr :=
    if is_type_id g then type_id_verify g max
    else match chunk_run g None max with
         | Completed used _ => inl used
         | Suspended _ => inr (ExceededMaximumCycles max)
         | Failed e => inr (ScriptFailure e)
         end.

  (* verify_group_with_chunk *)
  Definition verify_group_with_chunk (g : G) (max : N) (st : option vstate) : chunk_state :=
    if is_type_id g then
      match type_id_verify g max with
      | inl c => CCompleted c c
      | inr (ExceededMaximumCycles _) => CSuspended None
      | inr c => CErr c
      end
    else match chunk_run g st max with
         | Completed used consumed => CCompleted used consumed
         | Suspended s => CSuspended (Some s)
         | Failed e => CErr (ScriptFailure e)
         end.

  (* ---- verify ------------------------------------------------------------ *)
  Fixpoint verify_loop (gs : list G) (idx : nat) (max cycles : N) : res uerr N :=
    match gs with
    | [] => ROk cycles
    | g :: gs' =>
        match checked_sub max cycles with          (* `max_cycles - cycles`, unchecked in Rust *)
        | None => RPanic
        | Some rem =>
            match verify_script_group g rem with
            | inr c => RErr (Some idx) c
            | inl used =>
                match checked_add cycles used with
                | None => RErr (Some idx) CyclesOverflow
                | Some cycles' => verify_loop gs' (S idx) max cycles'
                end
            end
        end
    end.
  Definition verify (tx : list G) (max : N) : res uerr N := verify_loop tx 0 max 0.

  (* ---- resumable_verify -------------------------------------------------- *)
  Fixpoint rv_loop (gs : list G) (idx : nat) (limit cycles consumed : N) : res uerr vresult :=
    match gs with
    | [] => ROk (VCompleted cycles)
    | g :: gs' =>
        match checked_sub limit consumed with
        | None => RErr (Some idx) OtherError
        | Some remain =>
            match verify_group_with_chunk g remain None with
            | CCompleted used csm =>
                match checked_add consumed csm with
                | None => RErr (Some idx) CyclesOverflow
                | Some consumed' =>
                    match checked_add cycles used with
                    | None => RErr (Some idx) CyclesOverflow
                    | Some cycles' => rv_loop gs' (S idx) limit cycles' consumed'
                    end
                end
            | CSuspended st => ROk (VSuspended (mkTS idx st cycles remain))
            | CErr c => RErr (Some idx) c
            end
        end
    end.
  Definition resumable_verify (tx : list G) (limit : N) : res uerr vresult := rv_loop tx 0 limit 0 0.

  (* ---- resume_from_state ------------------------------------------------- *)
  (* the loop over the groups after the resumed one: note that it adds the
     cycles consumed in this call (not `used`) to the running total *)
  Fixpoint rs_loop (gs : list G) (idx : nat) (limit cycles used : N) : res uerr vresult :=
    match gs with
    | [] => ROk (VCompleted cycles)
    | g :: gs' =>
        match checked_sub limit used with
        | None => RErr (Some idx) OtherError
        | Some remain =>
            match verify_group_with_chunk g remain None with
            | CCompleted _ csm =>
                match checked_add used csm with
                | None => RErr (Some idx) CyclesOverflow
                | Some used' =>
                    match checked_add cycles csm with
                    | None => RErr (Some idx) CyclesOverflow
                    | Some cycles' => rs_loop gs' (S idx) limit cycles' used'
                    end
                end
            | CSuspended st => ROk (VSuspended (mkTS idx st cycles remain))
            | CErr c => RErr (Some idx) c
            end
        end
    end.

  Definition resume_from_state (tx : list G) (ts : tstate) (limit : N) : res uerr vresult :=
    let cur := ts_current ts in
    match nth_error tx cur with
    | None => RErr None OtherError
    | Some g =>
        match verify_group_with_chunk g limit (ts_state ts) with
        | CCompleted used csm =>
            match checked_add 0 csm with
            | None => RErr (Some cur) CyclesOverflow
            | Some used0 =>
                match checked_add (ts_current_cycles ts) used with
                | None => RErr (Some cur) CyclesOverflow
                | Some cycles => rs_loop (skipn (S cur) tx) (S cur) limit cycles used0
                end
            end
        | CSuspended st => ROk (VSuspended (mkTS cur st (ts_current_cycles ts) limit))
        | CErr c => RErr (Some cur) c
        end
    end.

  (* ---- complete ----------------------------------------------------------- *)
  (* the loop over the later groups; an overflow there is attributed to the
     resumed group [cur] (wrapping_cycles_add(cycles, used_cycles, current_group)) *)
  Fixpoint cp_loop (gs : list G) (idx cur : nat) (max cycles : N) : res uerr N :=
    match gs with
    | [] => ROk cycles
    | g :: gs' =>
        match checked_sub max cycles with
        | None => RErr (Some idx) OtherError
        | Some remain =>
            match verify_group_with_chunk g remain None with
            | CCompleted used _ =>
                match checked_add cycles used with
                | None => RErr (Some cur) CyclesOverflow
                | Some cycles' => cp_loop gs' (S idx) cur max cycles'
                end
            | CSuspended _ => RErr (Some idx) (ExceededMaximumCycles max)
            | CErr c => RErr (Some idx) c
            end
        end
    end.

  Definition complete (tx : list G) (ts : tstate) (max : N) : res uerr N :=
    let cur := ts_current ts in
    let cycles := ts_current_cycles ts in
    match nth_error tx cur with
    | None => RErr None OtherError
    | Some g =>
        if max <? cycles then RErr (Some cur) (ExceededMaximumCycles max)
        else match verify_group_with_chunk g (max - cycles) (ts_state ts) with
             | CCompleted used _ =>
                 match checked_add cycles used with
                 | None => RErr (Some cur) CyclesOverflow
                 | Some cycles' => cp_loop (skipn (S cur) tx) (S cur) cur max cycles'
                 end
             | CSuspended _ => RErr (Some cur) (ExceededMaximumCycles max)
             | CErr c => RErr (Some cur) c
             end
    end.

  (* ---- chains of chunks ---------------------------------------------------- *)
  Fixpoint resume_chain (tx : list G) (ts : tstate) (limits : list N) : res uerr vresult :=
    match limits with
    | [] => ROk (VSuspended ts)
    | l :: ls =>
        match resume_from_state tx ts l with
        | ROk (VSuspended ts') => resume_chain tx ts' ls
        | r => r
        end
    end.

  (* resumable_verify(l0), then resume_from_state with the limits [ls] while suspended *)
  Definition run_chunks (tx : list G) (l0 : N) (ls : list N) : res uerr vresult :=
    match resumable_verify tx l0 with
    | ROk (VSuspended ts) => resume_chain tx ts ls
    | r => r
    end.

  (* chunks, then complete(state, max) if still suspended *)
  Definition run_chunks_complete (tx : list G) (l0 : N) (ls : list N) (max : N) : res uerr N :=
    match run_chunks tx l0 ls with
    | ROk (VSuspended ts) => complete tx ts max
    | ROk (VCompleted c) => ROk c
    | RErr s c => RErr s c
    | RPanic => RPanic
    end.

  (* ---- resumable_verify_with_signal ---------------------------------------- *)
  (* chunk_run_with_signal: one scheduler per group; every Resume calls
     scheduler.run(RunMode::Pause(pause, max_cycles)) again with the SAME
     max_cycles (Scheduler::run counts its limit from the call, not from the
     group's start).  A pause that takes effect [q] cycles into a run is
     modelled as that run being cut at q cycles (q < max, otherwise the limit
     hits first); [pauses] lists those q for the successive runs of the group. *)
  Fixpoint signal_group (g : G) (max : N) (st : option vstate) (pauses : list N) : N + cause uerr :=
    match pauses with
    | q :: ps =>
        if q <? max then
          match chunk_run g st q with
          | Completed used _ => inl used
          | Failed e => inr (ScriptFailure e)
          | Suspended s => signal_group g max (Some s) ps
          end
        else
          match chunk_run g st max with
          | Completed used _ => inl used
          | Failed e => inr (ScriptFailure e)
          | Suspended _ => inr (ExceededMaximumCycles max)
          end
    | [] =>
        match chunk_run g st max with
        | Completed used _ => inl used
        | Failed e => inr (ScriptFailure e)
        | Suspended _ => inr (ExceededMaximumCycles max)
        end
    end.

  Definition verify_group_with_signal (g : G) (max : N) (pauses : list N) : N + cause uerr :=
    if is_type_id g then type_id_verify g max else signal_group g max None pauses.

  Fixpoint signal_loop (gs : list G) (idx : nat) (limit cycles : N) (pauses : list (list N)) : res uerr N :=
    match gs with
    | [] => ROk cycles
    | g :: gs' =>
        match checked_sub limit cycles with
        | None => RErr (Some idx) OtherError
        | Some remain =>
            match verify_group_with_signal g remain (hd [] pauses) with
            | inr c => RErr (Some idx) c
            | inl used =>
                match checked_add cycles used with
                | None => RErr (Some idx) CyclesOverflow
                | Some cycles' => signal_loop gs' (S idx) limit cycles' (tl pauses)
                end
            end
        end
    end.
  Definition resumable_verify_with_signal (tx : list G) (limit : N) (pauses : list (list N)) : res uerr N :=
    signal_loop tx 0 limit 0 pauses.

End Chunk.

Arguments Completed {vstate uerr}.
Arguments Suspended {vstate uerr}.
Arguments Failed {vstate uerr}.
Arguments CCompleted {vstate uerr}.
Arguments CSuspended {vstate uerr}.
Arguments CErr {vstate uerr}.
Arguments mkTS {vstate}.
Arguments ts_current {vstate}.
Arguments ts_state {vstate}.
Arguments ts_current_cycles {vstate}.
Arguments ts_limit_cycles {vstate}.
Arguments VCompleted {vstate}.
Arguments VSuspended {vstate}.
