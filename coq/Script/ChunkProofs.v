(* Script/ChunkProofs.v — proofs about the accounting model Script/Chunk.v
   under the machine hypotheses of Script/ChunkSpec.v. *)
From Coq Require Import List NArith Bool Lia Arith.
From CKB Require Import Script.Chunk Script.ChunkSpec.
Import ListNotations.
Local Open Scope N_scope.
Arguments N.add : simpl never.
Arguments N.sub : simpl never.
Arguments N.mul : simpl never.
Arguments N.leb : simpl never.
Arguments N.ltb : simpl never.

Lemma checked_add_some a b : a + b <= U64_MAX -> checked_add a b = Some (a + b).
Proof. intros H. unfold checked_add. apply N.leb_le in H. now rewrite H. Qed.
Lemma checked_sub_some a b : b <= a -> checked_sub a b = Some (a - b).
Proof. intros H. unfold checked_sub. apply N.leb_le in H. now rewrite H. Qed.
Lemma checked_sub_none a b : a < b -> checked_sub a b = None.
Proof. intros H. unfold checked_sub. apply N.leb_gt in H. now rewrite H. Qed.

Section Proofs.
  Variable M : machine.
  Variable Sp : mspec M.
  Hypothesis HB : Behaved M Sp.

  Local Notation gcost := (gcost M Sp).
  Local Notation gverdict := (gverdict M Sp).
  Local Notation tx_walk := (tx_walk M Sp).
  Local Notation tx_total := (tx_total M Sp).
  Local Notation tx_result := (tx_result M Sp).
  Local Notation tx_cost := (tx_cost M Sp).
  Local Notation Good := (Good M Sp).
  Local Notation ChunkOK := (ChunkOK M Sp).
  Local Notation vsg := (verify_script_group (G M) (vstate M) (uerr M) (chunk_run M) (is_type_id M) (type_id_check M)).
  Local Notation vgwc := (verify_group_with_chunk (G M) (vstate M) (uerr M) (chunk_run M) (is_type_id M) (type_id_check M)).

  (* progress of a group's state as the accounting sees it *)
  Definition gprog (g : G M) (st : option (vstate M)) : N :=
    if is_type_id M g then 0 else sprog M Sp st.
  Definition gvalid (g : G M) (st : option (vstate M)) : Prop :=
    is_type_id M g = true \/ svalid M Sp g st.

  Lemma gvalid_none g : gvalid g None.
  Proof. right. exact I. Qed.
  Lemma gprog_none g : gprog g None = 0.
  Proof. unfold gprog. now destruct (is_type_id M g). Qed.

  Lemma gprog_le g st : gvalid g st -> gprog g st <= gcost g.
  Proof.
    unfold gvalid, gprog, ChunkSpec.gcost. intros [H|H].
    - rewrite H. lia.
    - destruct (is_type_id M g); [lia|]. destruct st as [s|]; simpl in *; [tauto|lia].
  Qed.

  (* ---- one group ---------------------------------------------------------- *)
  Lemma vsg_spec g rem :
    vsg g rem =
    if gcost g <=? rem
    then match gverdict g with None => inl (gcost g) | Some e => inr (ScriptFailure e) end
    else inr (ExceededMaximumCycles rem).
  Proof.
    unfold verify_script_group, ChunkSpec.gcost, ChunkSpec.gverdict.
    destruct (is_type_id M g) eqn:T.
    - unfold type_id_verify. destruct (N.ltb_spec rem TYPE_ID_CYCLES), (N.leb_spec TYPE_ID_CYCLES rem); try lia; auto.
    - destruct (HB g None rem T I) as [H1 H2]. simpl in H1, H2. rewrite N.sub_0_r in H1, H2.
      destruct (N.leb_spec (cost Sp g) rem) as [L|L].
      + rewrite (H1 L). destruct (verdict Sp g); auto.
      + destruct (H2 L) as (s' & E & _). now rewrite E.
  Qed.

  Lemma vgwc_spec g L st : gvalid g st ->
    (gcost g - gprog g st <= L ->
       vgwc g L st = match gverdict g with
                     | None => CCompleted (gcost g) (gcost g - gprog g st)
                     | Some e => CErr (ScriptFailure e)
                     end) /\
    (L < gcost g - gprog g st ->
       exists st', vgwc g L st = CSuspended st' /\ gvalid g st' /\
                   gprog g st <= gprog g st' <= gcost g).
  Proof.
    intros V. unfold verify_group_with_chunk, ChunkSpec.gcost, ChunkSpec.gverdict, gprog, gvalid in *.
    destruct (is_type_id M g) eqn:T.
    - rewrite N.sub_0_r. unfold type_id_verify. split; intros H.
      + destruct (N.ltb_spec L TYPE_ID_CYCLES); [lia|]. destruct (type_id_check M g); auto.
      + destruct (N.ltb_spec L TYPE_ID_CYCLES); [|lia]. exists None. split; auto. split; [now left|]. unfold TYPE_ID_CYCLES. lia.
    - destruct V as [V|V]; [discriminate|]. destruct (HB g st L T V) as [H1 H2]. split; intros H.
      + rewrite (H1 H). destruct (verdict Sp g); auto.
      + destruct (H2 H) as (s' & E & V' & P). rewrite E. exists (Some s'). split; auto. split.
        * right. simpl. split; [auto|lia].
        * simpl. lia.
  Qed.

  (* ---- the uninterrupted walk ----------------------------------------------- *)
  Lemma tx_total_app a b : tx_total (a ++ b) = tx_total a + tx_total b.
  Proof. induction a; simpl; [lia|]. rewrite IHa. lia. Qed.

  Lemma walk_fst_le gs : forall idx acc, acc <= fst (tx_walk gs idx acc) <= acc + tx_total gs.
  Proof.
    induction gs as [|g gs IH]; intros idx acc; simpl; [lia|].
    destruct (gverdict g); simpl; [lia|]. specialize (IH (Datatypes.S idx) (acc + gcost g)). lia.
  Qed.

  Lemma walk_ok_prefix pre : Forall (fun h => gverdict h = None) pre ->
    forall rest idx acc, tx_walk (pre ++ rest) idx acc = tx_walk rest (idx + length pre)%nat (acc + tx_total pre).
  Proof.
    induction 1 as [|g pre Hg _ IH]; intros rest idx acc; simpl.
    - now rewrite Nat.add_0_r, N.add_0_r.
    - rewrite Hg, IH. f_equal; [lia|lia].
  Qed.

  (* ---- verify ------------------------------------------------------------------ *)
  Local Notation vloop := (verify_loop (G M) (vstate M) (uerr M) (chunk_run M) (is_type_id M) (type_id_check M)).

  Definition final_of (w : N * option (nat * uerr M)) : res (uerr M) N :=
    match w with
    | (c, None) => ROk c
    | (_, Some (i, e)) => RErr (Some i) (ScriptFailure e)
    end.

  Lemma verify_loop_spec gs : forall idx max acc,
    acc <= max -> acc + tx_total gs <= U64_MAX ->
    (fst (tx_walk gs idx acc) <= max -> vloop gs idx max acc = final_of (tx_walk gs idx acc)) /\
    (max < fst (tx_walk gs idx acc) ->
       exists k n, vloop gs idx max acc = RErr (Some k) (ExceededMaximumCycles n) /\ n <= max).
  Proof.
    induction gs as [|g gs IH]; intros idx max acc Hacc Hov; simpl.
    - split; [reflexivity|lia].
    - rewrite (checked_sub_some max acc Hacc), vsg_spec.
      assert (Ht : tx_total (g :: gs) = gcost g + tx_total gs) by reflexivity. rewrite Ht in Hov.
      pose proof (walk_fst_le gs (Datatypes.S idx) (acc + gcost g)) as Hw.
      destruct (N.leb_spec (gcost g) (max - acc)) as [L|L].
      + destruct (gverdict g) as [e|] eqn:V; simpl.
        * split; [reflexivity|lia].
        * rewrite checked_add_some by lia.
          apply IH; lia.
      + destruct (gverdict g) as [e|] eqn:V; simpl.
        * split; [lia|]. intros _. exists idx, (max - acc). split; [reflexivity|lia].
        * split; [lia|]. intros _. exists idx, (max - acc). split; [reflexivity|lia].
  Qed.

  Theorem verify_at_least_cost tx max :
    tx_total tx <= U64_MAX -> tx_cost tx <= max -> verify_m M tx max = tx_result tx.
  Proof.
    intros Hov Hc. unfold verify_m, verify, ChunkSpec.tx_result.
    destruct (verify_loop_spec tx 0%nat max 0) as [H _]; [lia|lia|]. apply H. exact Hc.
  Qed.

  Theorem verify_below_cost tx max :
    tx_total tx <= U64_MAX -> max < tx_cost tx ->
    exists k n, verify_m M tx max = RErr (Some k) (ExceededMaximumCycles n) /\ n <= max.
  Proof.
    intros Hov Hc. unfold verify_m, verify.
    destruct (verify_loop_spec tx 0%nat max 0) as [_ H]; [lia|lia|]. apply H. exact Hc.
  Qed.

  Lemma tx_cost_le_total tx : tx_cost tx <= tx_total tx.
  Proof. unfold ChunkSpec.tx_cost. pose proof (walk_fst_le tx 0%nat 0). lia. Qed.

  Theorem verify_unlimited tx : tx_total tx <= U64_MAX -> verify_m M tx U64_MAX = tx_result tx.
  Proof. intros H. apply verify_at_least_cost; auto. pose proof (tx_cost_le_total tx). lia. Qed.

  Theorem verify_budget_eq_unlimited tx max :
    tx_total tx <= U64_MAX -> tx_cost tx <= max -> verify_m M tx max = verify_m M tx U64_MAX.
  Proof. intros H C. now rewrite (verify_at_least_cost tx max H C), (verify_unlimited tx H). Qed.

  (* ---- chunked runs ---------------------------------------------------------- *)
  Local Notation rvloop := (rv_loop (G M) (vstate M) (uerr M) (chunk_run M) (is_type_id M) (type_id_check M)).
  Local Notation rsloop := (rs_loop (G M) (vstate M) (uerr M) (chunk_run M) (is_type_id M) (type_id_check M)).

  Lemma tx_result_at pre g post : Forall (fun h => gverdict h = None) pre ->
    tx_result (pre ++ g :: post) = final_of (tx_walk (g :: post) (length pre) (tx_total pre)).
  Proof.
    intros H. unfold ChunkSpec.tx_result. rewrite (walk_ok_prefix pre H). simpl (0 + _)%nat. rewrite N.add_0_l.
    unfold final_of. reflexivity.
  Qed.

  Lemma tx_result_end pre : Forall (fun h => gverdict h = None) pre -> tx_result pre = ROk (tx_total pre).
  Proof.
    intros H. unfold ChunkSpec.tx_result. rewrite <- (app_nil_r pre) at 1. rewrite (walk_ok_prefix pre H). simpl.
    now rewrite N.add_0_l.
  Qed.

  Lemma snoc_ok pre g : Forall (fun h => gverdict h = None) pre -> gverdict g = None ->
    Forall (fun h => gverdict h = None) (pre ++ [g]).
  Proof. intros. apply Forall_app. split; auto. Qed.

  Lemma total_snoc pre g : tx_total (pre ++ [g]) = tx_total pre + gcost g.
  Proof. rewrite tx_total_app. simpl. lia. Qed.

  Lemma total_mid pre g post : tx_total (pre ++ g :: post) = tx_total pre + gcost g + tx_total post.
  Proof. rewrite tx_total_app. simpl. lia. Qed.

  (* the loop of resumable_verify over fresh groups *)
  Lemma rv_loop_spec gs : forall pre limit u,
    Forall (fun h => gverdict h = None) pre -> u <= limit -> limit <= U64_MAX ->
    tx_total (pre ++ gs) <= U64_MAX ->
    ChunkOK (pre ++ gs) (rvloop gs (length pre) limit (tx_total pre) u).
  Proof.
    induction gs as [|g gs IH]; intros pre limit u Hpre Hu Hl Hov; simpl.
    - rewrite app_nil_r. now rewrite (tx_result_end pre Hpre).
    - rewrite (checked_sub_some limit u Hu).
      destruct (vgwc_spec g (limit - u) None (gvalid_none g)) as [H1 H2]. rewrite gprog_none, N.sub_0_r in H1, H2.
      rewrite total_mid in Hov.
      destruct (N.le_gt_cases (gcost g) (limit - u)) as [L|L].
      + rewrite (H1 L). destruct (gverdict g) as [e|] eqn:V.
        * simpl. rewrite (tx_result_at pre g gs Hpre). simpl. now rewrite V.
        * rewrite checked_add_some by lia. rewrite checked_add_some by lia.
          specialize (IH (pre ++ [g]) limit (u + gcost g)).
          rewrite app_length in IH. simpl in IH. rewrite Nat.add_1_r in IH. rewrite total_snoc in IH.
          rewrite <- app_assoc in IH. simpl in IH. apply IH; auto using snoc_ok; try lia.
          rewrite total_mid. lia.
      + destruct (H2 L) as (st' & E & V' & P). rewrite E. simpl.
        exists pre, g, gs. simpl. auto.
  Qed.

  (* the loop of resume_from_state over the groups after the resumed one *)
  Lemma rs_loop_spec gs : forall pre limit u,
    Forall (fun h => gverdict h = None) pre -> u <= limit -> limit <= U64_MAX ->
    tx_total (pre ++ gs) <= U64_MAX ->
    ChunkOK (pre ++ gs) (rsloop gs (length pre) limit (tx_total pre) u).
  Proof.
    induction gs as [|g gs IH]; intros pre limit u Hpre Hu Hl Hov; simpl.
    - rewrite app_nil_r. now rewrite (tx_result_end pre Hpre).
    - rewrite (checked_sub_some limit u Hu).
      destruct (vgwc_spec g (limit - u) None (gvalid_none g)) as [H1 H2]. rewrite gprog_none, N.sub_0_r in H1, H2.
      rewrite total_mid in Hov.
      destruct (N.le_gt_cases (gcost g) (limit - u)) as [L|L].
      + rewrite (H1 L). destruct (gverdict g) as [e|] eqn:V.
        * simpl. rewrite (tx_result_at pre g gs Hpre). simpl. now rewrite V.
        * rewrite checked_add_some by lia. rewrite checked_add_some by lia.
          specialize (IH (pre ++ [g]) limit (u + gcost g)).
          rewrite app_length in IH. simpl in IH. rewrite Nat.add_1_r in IH. rewrite total_snoc in IH.
          rewrite <- app_assoc in IH. simpl in IH. apply IH; auto using snoc_ok; try lia.
          rewrite total_mid. lia.
      + destruct (H2 L) as (st' & E & V' & P). rewrite E. simpl.
        exists pre, g, gs. simpl. auto.
  Qed.

  Lemma nth_error_mid {A} (pre : list A) g post : nth_error (pre ++ g :: post) (length pre) = Some g.
  Proof. rewrite nth_error_app2 by lia. now rewrite Nat.sub_diag. Qed.

  Lemma skipn_mid {A} (pre : list A) g post : skipn (Datatypes.S (length pre)) (pre ++ g :: post) = post.
  Proof.
    induction pre; simpl; auto.
  Qed.

  Theorem resumable_verify_ok tx limit :
    limit <= U64_MAX -> tx_total tx <= U64_MAX -> ChunkOK tx (resumable_verify_m M tx limit).
  Proof.
    intros Hl Hov. unfold resumable_verify_m, resumable_verify.
    apply (rv_loop_spec tx [] limit 0); auto; lia.
  Qed.

  Theorem resume_from_state_ok tx ts limit :
    limit <= U64_MAX -> tx_total tx <= U64_MAX -> Good tx ts ->
    ChunkOK tx (resume_from_state_m M tx ts limit).
  Proof.
    intros Hl Hov (pre & g & post & -> & Hc & Hpre & Hcy & Hv).
    unfold resume_from_state_m, resume_from_state. rewrite Hc, nth_error_mid, skipn_mid, Hcy.
    fold (gvalid g (ts_state ts)) in Hv.
    destruct (vgwc_spec g limit (ts_state ts) Hv) as [H1 H2].
    pose proof (gprog_le g _ Hv) as Hp. rewrite total_mid in Hov.
    destruct (N.le_gt_cases (gcost g - gprog g (ts_state ts)) limit) as [L|L].
    - rewrite (H1 L). destruct (gverdict g) as [e|] eqn:V.
      + simpl. rewrite (tx_result_at pre g post Hpre). simpl. now rewrite V.
      + rewrite checked_add_some by lia. rewrite checked_add_some by lia. rewrite N.add_0_l.
        pose proof (rs_loop_spec post (pre ++ [g]) limit (gcost g - gprog g (ts_state ts))) as R.
        rewrite app_length in R. simpl in R. rewrite Nat.add_1_r in R. rewrite total_snoc in R.
        rewrite <- app_assoc in R. simpl in R. apply R; auto using snoc_ok. rewrite total_mid. lia.
    - destruct (H2 L) as (st' & E & V' & P). rewrite E. simpl.
      exists pre, g, post. simpl. auto.
  Qed.

  Lemma resume_chain_ok tx ls : Forall (fun l => l <= U64_MAX) ls -> tx_total tx <= U64_MAX ->
    forall ts, Good tx ts -> ChunkOK tx (resume_chain_m M tx ts ls).
  Proof.
    intros Hls Hov. induction Hls as [|l ls Hl _ IH]; intros ts Hg; simpl.
    - exact Hg.
    - pose proof (resume_from_state_ok tx ts l Hl Hov Hg) as R.
      unfold resume_chain_m in *. simpl. unfold resume_from_state_m in R.
      destruct (resume_from_state _ _ _ _ _ _ tx ts l) as [[c|ts']|s c|]; auto.
  Qed.

  Theorem run_chunks_ok tx l0 ls :
    l0 <= U64_MAX -> Forall (fun l => l <= U64_MAX) ls -> tx_total tx <= U64_MAX ->
    ChunkOK tx (run_chunks_m M tx l0 ls).
  Proof.
    intros H0 Hls Hov. pose proof (resumable_verify_ok tx l0 H0 Hov) as R.
    unfold run_chunks_m, run_chunks. unfold resumable_verify_m in R.
    destruct (resumable_verify _ _ _ _ _ _ tx l0) as [[c|ts]|s c|]; auto.
    apply (resume_chain_ok tx ls Hls Hov ts R).
  Qed.

  (* every chunked run that comes to an end answers what the uninterrupted run
     answers under any budget that covers the cost *)
  Theorem chunked_eq_whole tx l0 ls max :
    l0 <= U64_MAX -> Forall (fun l => l <= U64_MAX) ls -> tx_total tx <= U64_MAX -> tx_cost tx <= max ->
    match run_chunks_m M tx l0 ls with
    | ROk (VSuspended ts) => Good tx ts
    | r => r = lift_result M (verify_m M tx max)
    end.
  Proof.
    intros H0 Hls Hov Hmax. pose proof (run_chunks_ok tx l0 ls H0 Hls Hov) as R.
    rewrite (verify_at_least_cost tx max Hov Hmax).
    destruct (run_chunks_m M tx l0 ls) as [[c|ts]|s c|]; auto.
  Qed.

  (* ---- complete ------------------------------------------------------------------ *)
  Local Notation cploop := (cp_loop (G M) (vstate M) (uerr M) (chunk_run M) (is_type_id M) (type_id_check M)).

  Lemma cp_loop_spec gs : forall idx cur max acc,
    acc <= max -> acc + tx_total gs <= U64_MAX ->
    (fst (tx_walk gs idx acc) <= max -> cploop gs idx cur max acc = final_of (tx_walk gs idx acc)) /\
    (max < fst (tx_walk gs idx acc) ->
       exists k, cploop gs idx cur max acc = RErr (Some k) (ExceededMaximumCycles max)).
  Proof.
    induction gs as [|g gs IH]; intros idx cur max acc Hacc Hov; simpl.
    - split; [reflexivity|lia].
    - rewrite (checked_sub_some max acc Hacc).
      assert (Ht : tx_total (g :: gs) = gcost g + tx_total gs) by reflexivity. rewrite Ht in Hov.
      destruct (vgwc_spec g (max - acc) None (gvalid_none g)) as [H1 H2]. rewrite gprog_none, N.sub_0_r in H1, H2.
      pose proof (walk_fst_le gs (Datatypes.S idx) (acc + gcost g)) as Hw.
      destruct (N.le_gt_cases (gcost g) (max - acc)) as [L|L].
      + rewrite (H1 L). destruct (gverdict g) as [e|] eqn:V; simpl.
        * split; [reflexivity|lia].
        * rewrite checked_add_some by lia. apply IH; lia.
      + destruct (H2 L) as (st' & E & _). rewrite E.
        destruct (gverdict g) as [e|] eqn:V; simpl; (split; [lia|]); intros _; now exists idx.
  Qed.

  Lemma walk_at_least pre g post : 
    tx_total pre + gcost g <= fst (tx_walk (g :: post) (length pre) (tx_total pre)).
  Proof.
    simpl. destruct (gverdict g); simpl; [lia|].
    pose proof (walk_fst_le post (Datatypes.S (length pre)) (tx_total pre + gcost g)). lia.
  Qed.

  Lemma tx_cost_at pre g post : Forall (fun h => gverdict h = None) pre ->
    tx_cost (pre ++ g :: post) = fst (tx_walk (g :: post) (length pre) (tx_total pre)).
  Proof.
    intros H. unfold ChunkSpec.tx_cost. rewrite (walk_ok_prefix pre H). simpl (0 + _)%nat. now rewrite N.add_0_l.
  Qed.

  (* a budget that covers the uninterrupted cost: complete answers like the unlimited run *)
  Theorem complete_at_least_cost tx ts max :
    max <= U64_MAX -> tx_total tx <= U64_MAX -> Good tx ts -> tx_cost tx <= max ->
    complete_m M tx ts max = tx_result tx.
  Proof.
    intros Hm Hov (pre & g & post & -> & Hc & Hpre & Hcy & Hv) Hcost.
    unfold complete_m, complete. rewrite Hc, nth_error_mid, skipn_mid, Hcy.
    fold (gvalid g (ts_state ts)) in Hv.
    rewrite (tx_cost_at pre g post Hpre) in Hcost. pose proof (walk_at_least pre g post) as Hal.
    destruct (N.ltb_spec max (tx_total pre)) as [X|_]; [lia|].
    destruct (vgwc_spec g (max - tx_total pre) (ts_state ts) Hv) as [H1 _].
    pose proof (gprog_le g _ Hv) as Hp. rewrite total_mid in Hov.
    rewrite H1 by lia. rewrite (tx_result_at pre g post Hpre). simpl tx_walk in *.
    destruct (gverdict g) as [e|] eqn:V; [reflexivity|].
    rewrite checked_add_some by lia.
    destruct (cp_loop_spec post (Datatypes.S (length pre)) (length pre) max (tx_total pre + gcost g)) as [R _]; try lia.
    apply R. exact Hcost.
  Qed.

  (* below the cost: if the suspended group has consumed nothing yet, complete reports the limit *)
  Theorem complete_below_cost_fresh tx ts max :
    max <= U64_MAX -> tx_total tx <= U64_MAX -> Good tx ts -> ts_progress M Sp tx ts = 0 -> max < tx_cost tx ->
    exists k, complete_m M tx ts max = RErr (Some k) (ExceededMaximumCycles max).
  Proof.
    intros Hm Hov (pre & g & post & -> & Hc & Hpre & Hcy & Hv) Hp0 Hcost.
    unfold ts_progress in Hp0. rewrite Hc, nth_error_mid in Hp0. fold (gprog g (ts_state ts)) in Hp0.
    unfold complete_m, complete. rewrite Hc, nth_error_mid, skipn_mid, Hcy.
    fold (gvalid g (ts_state ts)) in Hv.
    rewrite (tx_cost_at pre g post Hpre) in Hcost.
    destruct (N.ltb_spec max (tx_total pre)) as [X|X]; [now exists (length pre)|].
    destruct (vgwc_spec g (max - tx_total pre) (ts_state ts) Hv) as [H1 H2]. rewrite Hp0, N.sub_0_r in H1, H2.
    rewrite total_mid in Hov. simpl tx_walk in Hcost.
    destruct (N.le_gt_cases (gcost g) (max - tx_total pre)) as [L|L].
    - rewrite (H1 L). destruct (gverdict g) as [e|] eqn:V; [simpl in Hcost; lia|].
      rewrite checked_add_some by lia.
      destruct (cp_loop_spec post (Datatypes.S (length pre)) (length pre) max (tx_total pre + gcost g)) as [_ R]; try lia.
      apply R. exact Hcost.
    - destruct (H2 L) as (st' & E & _). rewrite E. now exists (length pre).
  Qed.

  Lemma cp_loop_ok gs : forall idx cur max acc c,
    acc + tx_total gs <= U64_MAX -> cploop gs idx cur max acc = ROk c ->
    final_of (tx_walk gs idx acc) = ROk c /\ (gs <> [] -> c <= max) /\ (gs = [] -> c = acc).
  Proof.
    induction gs as [|g gs IH]; intros idx cur max acc c Hov; simpl.
    - intros [= <-]. repeat split; auto. congruence.
    - assert (Ht : tx_total (g :: gs) = gcost g + tx_total gs) by reflexivity. rewrite Ht in Hov.
      destruct (N.le_gt_cases acc max) as [A|A]; [|rewrite checked_sub_none by lia; discriminate].
      rewrite (checked_sub_some max acc A).
      destruct (vgwc_spec g (max - acc) None (gvalid_none g)) as [H1 H2]. rewrite gprog_none, N.sub_0_r in H1, H2.
      destruct (N.le_gt_cases (gcost g) (max - acc)) as [L|L].
      + rewrite (H1 L). destruct (gverdict g) as [e|] eqn:V; [discriminate|].
        rewrite checked_add_some by lia. intros R.
        destruct (IH (Datatypes.S idx) cur max (acc + gcost g) c) as (F & B1 & B2); auto; try lia.
        split; [exact F|]. split; [|discriminate]. intros _.
        destruct gs as [|h gs']; [rewrite (B2 eq_refl); lia|apply B1; discriminate].
      + destruct (H2 L) as (st' & E & _). rewrite E. discriminate.
  Qed.

  (* complete never reports a wrong total, and succeeds only when the budget
     plus the cycles the suspended group had already consumed covers the cost *)
  Theorem complete_ok_bound tx ts max c :
    tx_total tx <= U64_MAX -> Good tx ts -> complete_m M tx ts max = ROk c ->
    tx_result tx = ROk c /\ c = tx_cost tx /\ c <= max + ts_progress M Sp tx ts.
  Proof.
    intros Hov (pre & g & post & -> & Hc & Hpre & Hcy & Hv).
    unfold ts_progress. rewrite Hc, nth_error_mid. fold (gprog g (ts_state ts)).
    unfold complete_m, complete. rewrite Hc, nth_error_mid, skipn_mid, Hcy.
    fold (gvalid g (ts_state ts)) in Hv.
    destruct (N.ltb_spec max (tx_total pre)) as [X|X]; [discriminate|].
    destruct (vgwc_spec g (max - tx_total pre) (ts_state ts) Hv) as [H1 H2].
    pose proof (gprog_le g _ Hv) as Hp. rewrite total_mid in Hov.
    rewrite (tx_result_at pre g post Hpre), (tx_cost_at pre g post Hpre). simpl tx_walk.
    destruct (N.le_gt_cases (gcost g - gprog g (ts_state ts)) (max - tx_total pre)) as [L|L].
    - rewrite (H1 L). destruct (gverdict g) as [e|] eqn:V; [discriminate|].
      rewrite checked_add_some by lia. intros R.
      destruct (cp_loop_ok post (Datatypes.S (length pre)) (length pre) max (tx_total pre + gcost g) c) as (F & B1 & B2); [lia|exact R|].
      split; [exact F|]. split.
      + destruct (tx_walk post (Datatypes.S (length pre)) (tx_total pre + gcost g)) as [w [[i e]|]]; simpl in *; congruence.
      + destruct post as [|h post']; [rewrite (B2 eq_refl); lia|]. assert (c <= max) by (apply B1; discriminate). lia.
    - destruct (H2 L) as (st' & E & _). rewrite E. discriminate.
  Qed.

  (* ---- pause / resume signals ------------------------------------------------------ *)
  Local Notation sgroup := (signal_group (G M) (vstate M) (uerr M) (chunk_run M)).

  Lemma signal_group_spec g max pauses : is_type_id M g = false -> forall st,
    svalid M Sp g st -> cost Sp g - sprog M Sp st <= max ->
    sgroup g max st pauses = match verdict Sp g with None => inl (cost Sp g) | Some e => inr (ScriptFailure e) end.
  Proof.
    intros T. induction pauses as [|q ps IH]; intros st V L; simpl.
    - destruct (HB g st max T V) as [H1 _]. rewrite (H1 L). now destruct (verdict Sp g).
    - destruct (N.ltb_spec q max) as [Q|Q].
      + destruct (HB g st q T V) as [H1 H2].
        destruct (N.le_gt_cases (cost Sp g - sprog M Sp st) q) as [A|A].
        * rewrite (H1 A). now destruct (verdict Sp g).
        * destruct (H2 A) as (s' & E & V' & P). rewrite E. apply IH; simpl; [split; [auto|lia]|lia].
      + destruct (HB g st max T V) as [H1 _]. rewrite (H1 L). now destruct (verdict Sp g).
  Qed.

  Lemma vgws_spec g rem pauses : gcost g <= rem ->
    verify_group_with_signal (G M) (vstate M) (uerr M) (chunk_run M) (is_type_id M) (type_id_check M) g rem pauses =
    match gverdict g with None => inl (gcost g) | Some e => inr (ScriptFailure e) end.
  Proof.
    unfold verify_group_with_signal, ChunkSpec.gcost, ChunkSpec.gverdict. intros L.
    destruct (is_type_id M g) eqn:T.
    - unfold type_id_verify. destruct (N.ltb_spec rem TYPE_ID_CYCLES); [lia|]. now destruct (type_id_check M g).
    - apply signal_group_spec; simpl; auto. lia.
  Qed.

  Lemma signal_loop_spec gs : forall idx limit acc pauses,
    acc <= limit -> acc + tx_total gs <= U64_MAX -> fst (tx_walk gs idx acc) <= limit ->
    signal_loop (G M) (vstate M) (uerr M) (chunk_run M) (is_type_id M) (type_id_check M) gs idx limit acc pauses
    = final_of (tx_walk gs idx acc).
  Proof.
    induction gs as [|g gs IH]; intros idx limit acc pauses Hacc Hov Hc; simpl.
    - reflexivity.
    - rewrite (checked_sub_some limit acc Hacc).
      assert (Ht : tx_total (g :: gs) = gcost g + tx_total gs) by reflexivity. rewrite Ht in Hov.
      pose proof (walk_fst_le gs (Datatypes.S idx) (acc + gcost g)) as Hw. simpl in Hc.
      assert (L : gcost g <= limit - acc) by (destruct (gverdict g); simpl in Hc; lia).
      rewrite (vgws_spec g _ _ L). destruct (gverdict g) as [e|] eqn:V; simpl; [reflexivity|].
      rewrite checked_add_some by lia. apply IH; simpl in *; lia.
  Qed.

  (* any timing of pause/resume: with a budget that covers the cost the answer is the unlimited one *)
  Theorem signal_at_least_cost tx limit pauses :
    tx_total tx <= U64_MAX -> tx_cost tx <= limit ->
    signal_m M tx limit pauses = tx_result tx.
  Proof.
    intros Hov Hc. unfold signal_m, resumable_verify_with_signal, ChunkSpec.tx_result.
    apply signal_loop_spec; auto; lia.
  Qed.

  (* ---- progress --------------------------------------------------------------------- *)
  Hypothesis HP : Progressive M Sp.
  Local Notation gatom := (gatom M Sp).
  Local Notation tx_atom := (tx_atom M Sp).

  Lemma rs_loop_after gs : forall idx limit acc u ts,
    rsloop gs idx limit acc u = ROk (VSuspended ts) -> (idx <= ts_current ts)%nat.
  Proof.
    induction gs as [|g gs IH]; intros idx limit acc u ts; simpl; [discriminate|].
    destruct (checked_sub limit u); [|discriminate].
    destruct (vgwc g n None) as [used csm|st|c]; [| |discriminate].
    - destruct (checked_add u csm); [|discriminate]. destruct (checked_add acc csm); [|discriminate].
      intros H. apply IH in H. lia.
    - intros [= <-]. simpl. lia.
  Qed.

  Lemma rv_loop_after gs : forall idx limit acc u ts,
    rvloop gs idx limit acc u = ROk (VSuspended ts) -> (idx <= ts_current ts)%nat.
  Proof.
    induction gs as [|g gs IH]; intros idx limit acc u ts; simpl; [discriminate|].
    destruct (checked_sub limit u); [|discriminate].
    destruct (vgwc g n None) as [used csm|st|c]; [| |discriminate].
    - destruct (checked_add u csm); [|discriminate]. destruct (checked_add acc used); [|discriminate].
      intros H. apply IH in H. lia.
    - intros [= <-]. simpl. lia.
  Qed.

  Lemma tx_atom_ge tx g : In g tx -> gatom g <= tx_atom tx.
  Proof. induction tx; simpl; [tauto|]. intros [->|H]; [lia|]. specialize (IHtx H). lia. Qed.

  Lemma vgwc_progress g L st st' : gvalid g st -> gatom g <= L ->
    vgwc g L st = CSuspended st' -> gprog g st < gprog g st'.
  Proof.
    unfold verify_group_with_chunk, gvalid, gprog, ChunkSpec.gatom. intros V A.
    destruct (is_type_id M g) eqn:T.
    - unfold type_id_verify. destruct (N.ltb_spec L TYPE_ID_CYCLES); [lia|].
      destruct (type_id_check M g); discriminate.
    - destruct V as [V|V]; [discriminate|].
      destruct (chunk_run M g st L) as [a b|s|e] eqn:E; try discriminate.
      intros [= <-]. simpl. apply (HP g st L s T V A E).
  Qed.

  (* what is left to do in a captured state: remaining groups (each counted
     once more than its cycles) minus the cycles already consumed *)
  Definition mu_of (g : G M) (post : list (G M)) (st : option (vstate M)) : N :=
    tx_total (g :: post) + N.of_nat (length (g :: post)) - gprog g st.

  Lemma split_later {A} (pre : list A) : forall g post pre' g' post',
    pre ++ g :: post = pre' ++ g' :: post' -> (Datatypes.S (length pre) <= length pre')%nat ->
    exists mid, post = mid ++ g' :: post'.
  Proof.
    induction pre as [|a pre IH]; intros g post pre' g' post' E L; destruct pre' as [|b pre']; simpl in *; try lia.
    - injection E as _ E. now exists pre'.
    - injection E as _ E. apply (IH _ _ _ _ _ E). lia.
  Qed.

  Lemma split_same {A} (pre : list A) : forall g post pre' g' post',
    pre ++ g :: post = pre' ++ g' :: post' -> length pre = length pre' ->
    pre = pre' /\ g = g' /\ post = post'.
  Proof.
    induction pre as [|a pre IH]; intros g post pre' g' post' E L; destruct pre' as [|b pre']; simpl in *; try lia.
    - injection E as -> ->. auto.
    - injection E as -> E. destruct (IH _ _ _ _ _ E) as (-> & -> & ->); auto.
  Qed.

  Lemma resume_decreases pre g post ts limit ts' :
    limit <= U64_MAX -> tx_total (pre ++ g :: post) <= U64_MAX -> tx_atom (pre ++ g :: post) <= limit ->
    ts_current ts = length pre -> Forall (fun h => gverdict h = None) pre ->
    ts_current_cycles ts = tx_total pre -> gvalid g (ts_state ts) ->
    resume_from_state_m M (pre ++ g :: post) ts limit = ROk (VSuspended ts') ->
    exists pre' g' post', pre ++ g :: post = pre' ++ g' :: post' /\ ts_current ts' = length pre' /\
       Forall (fun h => gverdict h = None) pre' /\ ts_current_cycles ts' = tx_total pre' /\
       gvalid g' (ts_state ts') /\
       mu_of g' post' (ts_state ts') < mu_of g post (ts_state ts).
  Proof.
    intros Hl Hov Ha Hc Hpre Hcy Hv R.
    assert (Gd : Good (pre ++ g :: post) ts) by (exists pre, g, post; auto).
    pose proof (resume_from_state_ok _ ts limit Hl Hov Gd) as OK. rewrite R in OK. simpl in OK.
    destruct OK as (pre' & g' & post' & E & Hc' & Hpre' & Hcy' & Hv').
    exists pre', g', post'. repeat split; auto.
    pose proof (gprog_le g _ Hv) as Hp. fold (gvalid g' (ts_state ts')) in Hv'. pose proof (gprog_le g' _ Hv') as Hp'.
    unfold resume_from_state_m, resume_from_state in R. rewrite Hc, nth_error_mid, skipn_mid in R.
    destruct (vgwc g limit (ts_state ts)) as [used csm|st'|c] eqn:V; [| |discriminate].
    - (* the resumed group finished: the new state is in a later group *)
      destruct (checked_add 0 csm); [|discriminate]. destruct (checked_add (ts_current_cycles ts) used); [|discriminate].
      apply rs_loop_after in R. rewrite Hc' in R.
      destruct (split_later pre g post pre' g' post' E R) as (mid & ->).
      unfold mu_of. simpl tx_total. rewrite tx_total_app. simpl tx_total.
      simpl length. rewrite app_length. simpl length. lia.
    - (* suspended again in the same group: strict progress *)
      injection R as <-. simpl in *.
      destruct (split_same pre g post pre' g' post' E Hc') as (<- & <- & <-).
      assert (A : gatom g <= limit).
      { assert (I : In g (pre ++ g :: post)) by (apply in_or_app; right; left; reflexivity).
        pose proof (tx_atom_ge (pre ++ g :: post) g I). lia. }
      pose proof (vgwc_progress g limit _ _ Hv A V) as P.
      unfold mu_of. simpl tx_total. simpl in Hp'. lia.
  Qed.

  Lemma mu_pos g post st : gvalid g st -> 1 <= mu_of g post st.
  Proof. intros V. pose proof (gprog_le g st V). unfold mu_of. simpl. lia. Qed.

  Lemma mu_le_total pre g post st : mu_of g post st <= tx_total (pre ++ g :: post) + N.of_nat (length (pre ++ g :: post)).
  Proof. unfold mu_of. rewrite tx_total_app, app_length. lia. Qed.

  Lemma progress_chain tx ls : Forall (fun l => tx_atom tx <= l <= U64_MAX) ls -> tx_total tx <= U64_MAX ->
    forall pre g post ts, tx = pre ++ g :: post ->
      ts_current ts = length pre -> Forall (fun h => gverdict h = None) pre ->
      ts_current_cycles ts = tx_total pre -> gvalid g (ts_state ts) ->
      mu_of g post (ts_state ts) <= N.of_nat (length ls) ->
      forall ts', resume_chain_m M tx ts ls <> ROk (VSuspended ts').
  Proof.
    intros Hls Hov. induction Hls as [|l ls [Hl1 Hl2] _ IH]; intros pre g post ts -> Hc Hpre Hcy Hv Hmu ts'.
    - simpl in Hmu. pose proof (mu_pos g post _ Hv). lia.
    - unfold resume_chain_m. simpl.
      destruct (resume_from_state (G M) (vstate M) (uerr M) (chunk_run M) (is_type_id M) (type_id_check M) (pre ++ g :: post) ts l)
        as [[c|ts1]|s c|] eqn:R; try discriminate.
      destruct (resume_decreases pre g post ts l ts1 Hl2 Hov Hl1 Hc Hpre Hcy Hv R)
        as (pre' & g' & post' & E & Hc' & Hpre' & Hcy' & Hv' & D).
      apply (IH pre' g' post' ts1 E Hc' Hpre' Hcy' Hv').
      simpl length in Hmu. lia.
  Qed.

  (* enough chunks, each at least the largest atomic step of the transaction:
     the chunked run comes to an end (and then agrees with the uninterrupted run) *)
  Theorem progress tx l0 ls :
    l0 <= U64_MAX -> Forall (fun l => tx_atom tx <= l <= U64_MAX) ls -> tx_total tx <= U64_MAX ->
    tx_total tx + N.of_nat (length tx) <= N.of_nat (length ls) ->
    run_chunks_m M tx l0 ls = lift_result M (tx_result tx).
  Proof.
    intros H0 Hls Hov Hn.
    assert (Hls' : Forall (fun l => l <= U64_MAX) ls) by (eapply Forall_impl; [|exact Hls]; simpl; intros; lia).
    pose proof (run_chunks_ok tx l0 ls H0 Hls' Hov) as OK.
    destruct (run_chunks_m M tx l0 ls) as [[c|ts']|s c|] eqn:R; auto.
    exfalso. unfold run_chunks_m, run_chunks in R.
    pose proof (resumable_verify_ok tx l0 H0 Hov) as OK0. unfold resumable_verify_m in OK0.
    destruct (resumable_verify (G M) (vstate M) (uerr M) (chunk_run M) (is_type_id M) (type_id_check M) tx l0)
      as [[c|ts0]|s c|]; try discriminate.
    simpl in OK0. destruct OK0 as (pre & g & post & E & Hc & Hpre & Hcy & Hv).
    refine (progress_chain tx ls Hls Hov pre g post ts0 E Hc Hpre Hcy Hv _ ts' R).
    pose proof (mu_le_total pre g post (ts_state ts0)). rewrite <- E in H. lia.
  Qed.

End Proofs.
