(* Script/Toy.v — a concrete machine for the accounting model: a script group
   is a list of atomic steps (instruction / syscall costs, each positive) and
   a verdict; a run executes whole steps greedily while they fit the limit
   (so it may stop short of the limit, like the VM at instruction
   granularity) and suspends with the steps left.  Script/ToyProofs.v shows it
   meets the hypotheses of Script/ChunkSpec.v, so they are satisfiable, and
   evaluates the concrete witnesses.  Model only; no proofs in this file. *)
From Coq Require Import List NArith PArith Bool.
From CKB Require Import Script.Chunk Script.ChunkSpec.
Import ListNotations.
Local Open Scope N_scope.

Record tgroup := mkT { tg_atoms : list positive; tg_fail : option N; tg_tid : bool }.
(* (cycles consumed so far, steps left) *)
Definition tvm : Type := N * list positive.

Definition psum (l : list positive) : N := fold_right (fun a s => Npos a + s) 0 l.

(* execute whole steps while they fit the budget *)
Fixpoint exec (atoms : list positive) (budget done : N) : tvm :=
  match atoms with
  | [] => (done, [])
  | a :: r => if Npos a <=? budget then exec r (budget - Npos a) (done + Npos a) else (done, atoms)
  end.

Definition toy_run (g : tgroup) (st : option tvm) (limit : N) : outcome tvm N :=
  let '(p, rest) := match st with None => (0, tg_atoms g) | Some s => s end in
  let '(p', rest') := exec rest limit p in
  match rest' with
  | [] => match tg_fail g with Some e => Failed e | None => Completed p' (p' - p) end
  | _ => Suspended (p', rest')
  end.

Definition toy : machine := mkMachine tgroup tvm N toy_run tg_tid tg_fail.

Definition toy_spec : mspec toy :=
  mkSpec toy
    (fun g => psum (tg_atoms g))
    (fun g => tg_fail g)
    (fun s => fst s)
    (fun g s => exists done, tg_atoms g = done ++ snd s /\ fst s = psum done)
    (fun g => fold_right (fun a m => N.max (Npos a) m) 1 (tg_atoms g)).

(* concrete groups used as witnesses *)
Definition g34 : tgroup := mkT [3; 4]%positive None false.        (* cost 7 *)
Definition g25 : tgroup := mkT [2; 5; 1]%positive None false.     (* cost 8 *)
Definition gbad : tgroup := mkT [6]%positive (Some 9) false.      (* fails after 6 cycles *)
Definition gtid : tgroup := mkT [] None true.                     (* TYPE_ID, 1 000 000 cycles *)
