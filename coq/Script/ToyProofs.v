(* Script/ToyProofs.v — the toy machine meets H1–H3; concrete witnesses. *)
From Coq Require Import List NArith PArith Bool Lia.
From CKB Require Import Script.Chunk Script.ChunkSpec Script.ChunkProofs Script.Toy.
Import ListNotations.
Local Open Scope N_scope.
Arguments N.add : simpl never.
Arguments N.sub : simpl never.
Arguments N.leb : simpl never.

Lemma psum_app a b : psum (a ++ b) = psum a + psum b.
Proof. induction a; simpl; [lia|]. rewrite IHa. lia. Qed.

Lemma exec_spec rest : forall budget done,
  exists d rest', exec rest budget done = (done + psum d, rest') /\ rest = d ++ rest' /\ psum d <= budget /\
                  (psum rest <= budget -> rest' = []) /\
                  (budget < psum rest -> rest' <> []) /\
                  (forall a r, rest = a :: r -> Npos a <= budget -> 0 < psum d).
Proof.
  induction rest as [|a r IH]; intros budget done; simpl.
  - exists [], []. simpl. split; [f_equal; lia|]. split; [reflexivity|]. split; [lia|]. split; [reflexivity|].
    split; [intros H; exfalso; lia|]. intros a r H; discriminate.
  - destruct (N.leb_spec (Npos a) budget) as [L|L].
    + destruct (IH (budget - Npos a) (done + Npos a)) as (d & rest' & E & R & B & F & S & _).
      exists (a :: d), rest'. simpl. rewrite E. repeat split; try (f_equal; lia); try lia.
      * now rewrite R.
      * intros H. apply F. lia.
      * intros H. apply S. lia.
    + exists [], (a :: r). simpl. repeat split; try lia; try discriminate.
      * f_equal. lia.
      * intros a0 r0 [= <- <-] H. lia.
Qed.

Theorem toy_behaved : Behaved toy toy_spec.
Proof.
  intros g st L _ V. simpl in *.
  assert (X : exists p rest done, (match st with None => (0, tg_atoms g) | Some s => s end) = (p, rest)
                              /\ tg_atoms g = done ++ rest /\ p = psum done /\ sprog toy toy_spec st = p).
  { destruct st as [[p rest]|]; simpl in *.
    - destruct V as [(done & A & B) _]. exists p, rest, done. auto.
    - exists 0, (tg_atoms g), []. auto. }
  destruct X as (p & rest & done & E & A & P & SP). rewrite SP.
  assert (C : psum (tg_atoms g) - p = psum rest) by (rewrite A, psum_app; lia).
  unfold toy_run. rewrite E.
  destruct (exec_spec rest L p) as (d & rest' & X & R & B & F & S & _). rewrite X.
  split; intros H.
  - rewrite C in H. rewrite (F H) in *. rewrite app_nil_r in R. subst d.
    replace (p + psum rest) with (psum (tg_atoms g)) by (rewrite A, psum_app; lia).
    destruct (tg_fail g); auto.
  - rewrite C in H. specialize (S H). destruct rest' as [|x y]; [congruence|].
    eexists. split; [reflexivity|]. simpl. split.
    + exists (done ++ d). rewrite psum_app, A, R, app_assoc. split; auto. lia.
    + rewrite A, R, !psum_app. lia.
Qed.

Lemma fold_max_ge (l : list positive) a : In a l -> Npos a <= fold_right (fun a m => N.max (Npos a) m) 1 l.
Proof. induction l; simpl; [tauto|]. intros [->|H]; [lia|]. specialize (IHl H). lia. Qed.

Theorem toy_progressive : Progressive toy toy_spec.
Proof.
  intros g st L s' _ V HA. simpl in *.
  assert (X : exists p rest done, (match st with None => (0, tg_atoms g) | Some s => s end) = (p, rest)
                              /\ tg_atoms g = done ++ rest /\ sprog toy toy_spec st = p).
  { destruct st as [[p rest]|]; simpl in *.
    - destruct V as [(done & A & B) _]. exists p, rest, done. auto.
    - exists 0, (tg_atoms g), []. auto. }
  destruct X as (p & rest & done & E & A & SP). rewrite SP.
  unfold toy_run. rewrite E.
  destruct (exec_spec rest L p) as (d & rest' & X & R & B & F & S & Q). rewrite X.
  destruct rest' as [|x y]; [destruct (tg_fail g); discriminate|].
  intros [= <-]. simpl.
  destruct rest as [|a r]; [destruct d; discriminate|].
  assert (0 < psum d); [|lia]. apply (Q a r eq_refl).
  assert (I : In a (tg_atoms g)) by (rewrite A; apply in_or_app; right; left; reflexivity).
  pose proof (fold_max_ge (tg_atoms g) a I). lia.
Qed.

(* ---- witnesses ------------------------------------------------------------------- *)
Definition tx3 : list tgroup := [g34; gtid; g25].      (* cost 7 + 1000000 + 8 *)

Example toy_whole : verify_m toy tx3 U64_MAX = ROk 1000015.
Proof. vm_compute. reflexivity. Qed.

Example toy_chunked :
  run_chunks_m toy tx3 5 [5; 999999; 1000000; 2; 100] = ROk (VCompleted 1000015).
Proof. vm_compute. reflexivity. Qed.

Example toy_chunked_suspended_somewhere :
  exists ts, run_chunks_m toy tx3 5 [5; 999999] = ROk (VSuspended ts) /\ ts_current ts = 1%nat /\ ts_current_cycles ts = 7.
Proof. eexists. vm_compute. repeat split. Qed.

Example toy_failure_same_under_chunks :
  verify_m toy [g34; gbad; g25] U64_MAX = RErr (Some 1%nat) (ScriptFailure 9) /\
  run_chunks_m toy [g34; gbad; g25] 4 [4; 6] = RErr (Some 1%nat) (ScriptFailure 9) /\
  verify_m toy [g34; gbad; g25] 12 = RErr (Some 1%nat) (ExceededMaximumCycles 5).
Proof. vm_compute. repeat split. Qed.

Example toy_total_small : tx_total toy toy_spec tx3 <= U64_MAX /\ tx_cost toy toy_spec tx3 = 1000015.
Proof. vm_compute. split; [discriminate|reflexivity]. Qed.

(* complete(): the budget is compared with the cycles of the finished groups
   only, so the cycles the suspended group has already consumed come on top:
   cost 7, state suspended after 3 cycles, complete(state, 4) succeeds with 7 *)
Theorem complete_budget_refuted :
  exists tx ts max,
    run_chunks_m toy tx 3 [] = ROk (VSuspended ts) /\
    max < tx_cost toy toy_spec tx /\
    complete_m toy tx ts max = ROk (tx_cost toy toy_spec tx).
Proof.
  exists [g34], (mkTS 0%nat (Some (3, [4%positive])) 0 3), 4.
  split; [vm_compute; reflexivity|]. split; vm_compute; reflexivity.
Qed.

(* resumable_verify_with_signal: every Resume runs the scheduler with the full
   max_cycles again: cost 7, limit 4, one pause after 3 cycles -> Ok(7) *)
Theorem signal_budget_refuted :
  exists tx limit pauses,
    limit < tx_cost toy toy_spec tx /\
    signal_m toy tx limit pauses = ROk (tx_cost toy toy_spec tx) /\
    verify_m toy tx limit = RErr (Some 0%nat) (ExceededMaximumCycles limit).
Proof.
  exists [g34], 4, [[3]].
  split; [vm_compute; reflexivity|]. split; vm_compute; reflexivity.
Qed.
