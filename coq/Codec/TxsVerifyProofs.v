(* Codec/TxsVerifyProofs.v — facts about Codec/TxsVerify.v *)
From Coq Require Import List NArith Arith Bool Lia.
From CKB Require Import Codec.TxsVerify.
Import ListNotations.

Lemma listN_eq_true : forall a b, listN_eq a b = true <-> a = b.
Proof.
  induction a as [|x a IH]; intros [|y b]; cbn [listN_eq]; split; intro H; try reflexivity; try discriminate.
  - apply andb_true_iff in H as [H1 H2]. apply N.eqb_eq in H1. apply IH in H2. congruence.
  - inversion H; subst. rewrite N.eqb_refl. cbn. apply IH. reflexivity.
Qed.

Lemma nthN_Some_lt {A} : forall (l : list A) i x, nthN l i = Some x -> (i < N.of_nat (length l))%N.
Proof.
  induction l as [|y l IH]; intros i x H; cbn [nthN] in H; [discriminate|].
  cbn [length]. destruct (N.eqb_spec i 0) as [->|Hn]; [lia|].
  apply IH in H. lia.
Qed.

Lemma nthN_None_ge {A} : forall (l : list A) i, nthN l i = None -> (N.of_nat (length l) <= i)%N.
Proof.
  induction l as [|y l IH]; intros i H.
  - cbn [length]. apply N.le_0_l.
  - cbn [nthN] in H. cbn [length].
    destruct (N.eqb_spec i 0) as [Hz|Hn]; [discriminate|].
    apply IH in H. lia.
Qed.

(* the verifier after the repair is total: whatever a peer sends, a status comes back *)
Theorem txs_verify_never_panics : forall b idx recv, txs_verify true b idx recv <> TPanic.
Proof.
  intros b idx recv. unfold txs_verify.
  destruct (expected b idx) as [e|]; [|discriminate].
  destruct (negb (Nat.eqb (length e) (length recv))); [discriminate|].
  destruct (listN_eq e recv); discriminate.
Qed.

(* what "expected" needs: every asked index inside the pending block *)
Theorem expected_some_iff_in_range : forall b idx,
  (exists e, expected b idx = Some e) <-> Forall (fun i => (i < N.of_nat (length b))%N) idx.
Proof.
  intros b idx. induction idx as [|i r IH]; cbn [expected].
  - split; intros _; [constructor | eexists; reflexivity].
  - split.
    + intros [e He]. destruct (nthN b i) as [o|] eqn:Hn; [|discriminate].
      destruct (expected b r) as [l|] eqn:Hr; [|discriminate].
      constructor; [eapply nthN_Some_lt; exact Hn | apply IH; eexists; reflexivity].
    + intro HF. inversion HF as [|? ? Hi Hr]; subst.
      apply IH in Hr as [l Hl]. rewrite Hl.
      destruct (nthN b i) as [o|] eqn:Hn.
      * eexists; reflexivity.
      * apply nthN_None_ge in Hn. lia.
Qed.

(* Ok exactly when the reply carries the slots' short ids, in the order asked *)
Theorem txs_verify_ok_iff : forall b idx recv,
  txs_verify true b idx recv = TOk <-> expected b idx = Some recv.
Proof.
  intros b idx recv. unfold txs_verify. destruct (expected b idx) as [e|]; [|split; discriminate].
  destruct (Nat.eqb_spec (length e) (length recv)) as [Hl|Hl]; cbn [negb].
  - destruct (listN_eq e recv) eqn:He.
    + apply listN_eq_true in He. subst. split; reflexivity.
    + split; [discriminate|]. intro H. inversion H; subst.
      assert (listN_eq recv recv = true) by (apply listN_eq_true; reflexivity). congruence.
  - split; [discriminate|]. intro H. inversion H; subst. contradiction.
Qed.

Corollary txs_verify_ok_in_range : forall b idx recv,
  txs_verify true b idx recv = TOk -> Forall (fun i => (i < N.of_nat (length b))%N) idx.
Proof.
  intros b idx recv H. apply txs_verify_ok_iff in H. apply expected_some_iff_in_range. eexists; exact H.
Qed.

(* the repair changes the answer only where the verifier used to panic *)
Theorem txs_verify_fix_conservative : forall b idx recv,
  txs_verify false b idx recv <> TPanic -> txs_verify true b idx recv = txs_verify false b idx recv.
Proof.
  intros b idx recv H. unfold txs_verify in *. destruct (expected b idx); [reflexivity|]. contradiction.
Qed.

Theorem txs_verify_old_panics_iff : forall b idx recv,
  txs_verify false b idx recv = TPanic <-> exists i, In i idx /\ (N.of_nat (length b) <= i)%N.
Proof.
  intros b idx recv. split.
  - intro H. unfold txs_verify in H. destruct (expected b idx) as [e|] eqn:He.
    + destruct (negb (Nat.eqb (length e) (length recv))); [discriminate|].
      destruct (listN_eq e recv); discriminate.
    + clear H. induction idx as [|i r IH]; cbn [expected] in He; [discriminate|].
      destruct (nthN b i) as [o|] eqn:Hn.
      * destruct (expected b r) as [l|]; [discriminate|].
        destruct (IH eq_refl) as [j [Hj Hge]]. exists j. split; [right; exact Hj | exact Hge].
      * exists i. split; [left; reflexivity | apply nthN_None_ge; exact Hn].
  - intros [i [Hi Hge]]. unfold txs_verify.
    destruct (expected b idx) as [e|] eqn:He; [|reflexivity].
    assert (HF : Forall (fun i => (i < N.of_nat (length b))%N) idx)
      by (apply expected_some_iff_in_range; eexists; exact He).
    rewrite Forall_forall in HF. specialize (HF i Hi). lia.
Qed.

(* F22: peer A announced the block as a compact block of one (prefilled) transaction; peer B's
   compact block for the same header lists two, the node asks B for index 1 and B answers: the
   verifier as it was indexes the PENDING block (A's) with B's index *)
Theorem txs_verify_old_refuted :
  txs_verify false (block_short_ids [0%N] []) [1%N] [7%N] = TPanic /\
  txs_verify true (block_short_ids [0%N] []) [1%N] [7%N] = TUnmatched.
Proof. split; reflexivity. Qed.

(* ---- block_short_ids -------------------------------------------------------- *)
Lemma bsids_length : forall f i pre sids, length (bsids f i pre sids) = f.
Proof.
  induction f as [|f IH]; intros i pre sids; cbn [bsids]; [reflexivity|].
  destruct (existsb (N.eqb i) pre); [cbn [length]; rewrite IH; reflexivity|].
  destruct sids; cbn [length]; rewrite IH; reflexivity.
Qed.

Theorem block_short_ids_length : forall pre sids,
  length (block_short_ids pre sids) = length pre + length sids.
Proof. intros. apply bsids_length. Qed.

Fixpoint somes (l : list (option N)) : list N :=
  match l with [] => [] | Some x :: r => x :: somes r | None :: r => somes r end.

(* the slots never invent a short id and keep the order of the list *)
Lemma bsids_somes_prefix : forall f i pre sids, exists k, somes (bsids f i pre sids) = firstn k sids.
Proof.
  induction f as [|f IH]; intros i pre sids; cbn [bsids].
  - exists 0. reflexivity.
  - destruct (existsb (N.eqb i) pre).
    + cbn [somes]. apply IH.
    + destruct sids as [|s r].
      * cbn [somes]. destruct (IH (N.succ i) pre []) as [k Hk]. exists 0. rewrite Hk. destruct k; reflexivity.
      * cbn [somes]. destruct (IH (N.succ i) pre r) as [k Hk]. exists (S k). rewrite Hk. reflexivity.
Qed.

Theorem block_short_ids_somes_prefix : forall pre sids,
  exists k, somes (block_short_ids pre sids) = firstn k sids.
Proof. intros. apply bsids_somes_prefix. Qed.

Example tv_example :
  block_short_ids [0%N; 2%N] [5%N; 6%N] = [None; Some 5%N; None; Some 6%N] /\
  txs_verify true (block_short_ids [0%N; 2%N] [5%N; 6%N]) [1%N; 2%N; 3%N] [5%N; 6%N] = TOk /\
  txs_verify true (block_short_ids [0%N; 2%N] [5%N; 6%N]) [1%N; 3%N] [5%N] = TLength /\
  txs_verify true (block_short_ids [0%N; 2%N] [5%N; 6%N]) [1%N; 3%N] [6%N; 5%N] = TUnmatched /\
  txs_verify true (block_short_ids [0%N; 2%N] [5%N; 6%N]) [4294967295%N] [] = TUnmatched.
Proof. repeat split. Qed.

(* every listed short id gets a slot, in the order of the list — whatever the prefilled indexes
   are (repeated, beyond the block): the block has |prefilled| + |short ids| slots and at most
   |prefilled| of them are prefilled *)
Fixpoint cnt (P : N -> bool) (f : nat) (i : N) : nat :=
  match f with O => 0 | S f' => (if P i then 1 else 0) + cnt P f' (N.succ i) end.

Lemma cnt_ext : forall P Q f i, (forall j, P j = Q j) -> cnt P f i = cnt Q f i.
Proof. intros P Q f. induction f as [|f IH]; intros i H; cbn [cnt]; [reflexivity|]. rewrite H, (IH _ H). reflexivity. Qed.

Lemma cnt_or : forall P Q f i, cnt (fun j => P j || Q j) f i <= cnt P f i + cnt Q f i.
Proof.
  intros P Q f. induction f as [|f IH]; intros i; cbn [cnt]; [lia|].
  specialize (IH (N.succ i)). destruct (P i), (Q i); cbn [orb]; lia.
Qed.

Lemma cnt_eq_above : forall p f i, (p < i)%N -> cnt (fun j => N.eqb j p) f i = 0.
Proof.
  intros p f. induction f as [|f IH]; intros i H; cbn [cnt]; [reflexivity|].
  destruct (N.eqb_spec i p); [lia|]. rewrite IH by lia. reflexivity.
Qed.

Lemma cnt_eq_le1 : forall p f i, cnt (fun j => N.eqb j p) f i <= 1.
Proof.
  intros p f. induction f as [|f IH]; intros i; cbn [cnt]; [lia|].
  destruct (N.eqb_spec i p) as [->|Hn].
  - rewrite cnt_eq_above by lia. lia.
  - specialize (IH (N.succ i)). lia.
Qed.

Lemma cnt_mem_le : forall pre f i, cnt (fun j => existsb (N.eqb j) pre) f i <= length pre.
Proof.
  induction pre as [|p pre IH]; intros f i.
  - cbn [existsb]. clear. revert i. induction f as [|f IHf]; intros i; cbn [cnt length]; [lia|]. specialize (IHf (N.succ i)). cbn [length] in IHf. lia.
  - cbn [existsb length].
    pose proof (cnt_or (fun j => N.eqb j p) (fun j => existsb (N.eqb j) pre) f i) as Ho.
    pose proof (cnt_eq_le1 p f i). specialize (IH f i). lia.
Qed.

Lemma cnt_compl : forall P f i, cnt P f i + cnt (fun j => negb (P j)) f i = f.
Proof.
  intros P f. induction f as [|f IH]; intros i; cbn [cnt]; [reflexivity|].
  specialize (IH (N.succ i)). destruct (P i); cbn [negb]; lia.
Qed.

Lemma bsids_somes_all : forall f i pre sids,
  length sids <= cnt (fun j => negb (existsb (N.eqb j) pre)) f i ->
  somes (bsids f i pre sids) = sids.
Proof.
  induction f as [|f IH]; intros i pre sids H; cbn [cnt] in H; cbn [bsids].
  - destruct sids; [reflexivity | cbn [length] in H; lia].
  - destruct (existsb (N.eqb i) pre) eqn:Hm; cbn [negb] in H.
    + cbn [somes]. apply IH. lia.
    + destruct sids as [|s r]; cbn [somes].
      * clear. revert i. induction f as [|f IHf]; intros i; cbn [bsids]; [reflexivity|].
        destruct (existsb (N.eqb (N.succ i)) pre); cbn [somes]; apply IHf.
      * f_equal. apply IH. cbn [length] in H. lia.
Qed.

Theorem block_short_ids_somes : forall pre sids, somes (block_short_ids pre sids) = sids.
Proof.
  intros pre sids. unfold block_short_ids. apply bsids_somes_all.
  pose proof (cnt_compl (fun j => existsb (N.eqb j) pre) (length pre + length sids) 0%N) as Hc.
  pose proof (cnt_mem_le pre (length pre + length sids) 0%N) as Hm.
  lia.
Qed.
