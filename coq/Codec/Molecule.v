(* Codec/Molecule.v — deep embedding of the molecule serialization format as
   it is implemented by the `molecule` 0.9.2 code generator used for
   util/gen-types (generated Reader::verify / Builder::write).  Model only; the
   proofs are in MoleculeProofs.v.

   Bytes are [N] (a byte string is [list N]; [bytes_ok] says every element is
   < 256).  [decode false] is Reader::from_slice (strict), [decode true] is
   Reader::from_compatible_slice (tables may carry extra fields, which the
   decoded value drops).  A header number is a little-endian u32; the builder
   writes [n as u32], so [le32] truncates and the theorems carry the bound
   "encoded size < 2^32". *)
From Coq Require Import String Ascii List NArith Bool Arith Lia.
Import ListNotations.
Local Open Scope N_scope.

Inductive ty : Type :=
| TByte
| TArray (n : nat) (t : ty)
| TStruct (fs : list ty)
| TFixVec (t : ty)
| TDynVec (t : ty)
| TTable (fs : list ty)
| TOption (t : ty)
| TUnion (arms : list (N * ty)).

Inductive val : Type :=
| VByte (b : N)
| VSeq (vs : list val)            (* array / struct / vector / table contents *)
| VOpt (o : option val)
| VUnion (id : N) (v : val).

(* ---- generic list helpers (the function argument is a parameter of the
   enclosing definition, not of the fix, so that they can be used in nested
   recursive definitions over [ty]) --------------------------------------- *)
Section Helpers.
  Context {A B C : Type}.
  Definition map2 (f : A -> B -> C) : list A -> list B -> list C :=
    fix go l1 l2 := match l1, l2 with
                    | a :: l1', b :: l2' => f a b :: go l1' l2'
                    | _, _ => []
                    end.
  Definition forall2b (f : A -> B -> bool) : list A -> list B -> bool :=
    fix go l1 l2 := match l1, l2 with
                    | [], [] => true
                    | a :: l1', b :: l2' => f a b && go l1' l2'
                    | _, _ => false
                    end.
  Definition mapM (f : A -> option B) : list A -> option (list B) :=
    fix go l := match l with
                | [] => Some []
                | a :: l' => match f a, go l' with
                             | Some b, Some r => Some (b :: r)
                             | _, _ => None
                             end
                end.
  Definition map2M (f : A -> B -> option C) : list A -> list B -> option (list C) :=
    fix go l1 l2 := match l1, l2 with
                    | [], [] => Some []
                    | a :: l1', b :: l2' => match f a b, go l1' l2' with
                                            | Some c, Some r => Some (c :: r)
                                            | _, _ => None
                                            end
                    | _, _ => None
                    end.
End Helpers.

(* first arm with identifier [id] *)
Definition find_arm {A} (id : N) (f : ty -> A) (d : A) : list (N * ty) -> A :=
  fix go arms := match arms with
                 | [] => d
                 | a :: r => if fst a =? id then f (snd a) else go r
                 end.

Definition isSome {A} (o : option A) : bool := match o with Some _ => true | None => false end.

Fixpoint sum_opt (l : list (option nat)) : option nat :=
  match l with
  | [] => Some 0%nat
  | Some a :: r => match sum_opt r with Some b => Some (a + b)%nat | None => None end
  | None :: _ => None
  end.
Fixpoint sumN (l : list N) : N := match l with [] => 0 | a :: r => a + sumN r end.
Fixpoint nodupb (l : list N) : bool :=
  match l with [] => true | a :: r => negb (existsb (N.eqb a) r) && nodupb r end.

(* ---- schema ------------------------------------------------------------ *)
Fixpoint fixed_size (t : ty) : option nat :=
  match t with
  | TByte => Some 1%nat
  | TArray n t' => match fixed_size t' with Some s => Some (n * s)%nat | None => None end
  | TStruct fs => sum_opt (map fixed_size fs)
  | _ => None
  end.

(* every encoding of a value of the type is non-empty (needed below Option:
   an empty slice *is* None) *)
Fixpoint nonempty (t : ty) : bool :=
  match t with
  | TByte => true
  | TArray n t' => negb (n =? 0)%nat && nonempty t'
  | TStruct fs => existsb nonempty fs
  | TOption _ => false
  | _ => true
  end.

Fixpoint wf (t : ty) : bool :=
  match t with
  | TByte => true
  | TArray _ t' => isSome (fixed_size t') && wf t'
  | TStruct fs => forallb (fun f => isSome (fixed_size f) && wf f) fs
  | TFixVec t' => match fixed_size t' with Some s => negb (s =? 0)%nat | None => false end && wf t'
  | TDynVec t' => wf t'
  | TTable fs => forallb wf fs
  | TOption t' => nonempty t' && wf t'
  | TUnion arms => nodupb (map fst arms) && forallb (fun a => (fst a <? 4294967296) && wf (snd a)) arms
  end.

Fixpoint has_type (t : ty) (v : val) : bool :=
  match t, v with
  | TByte, VByte b => b <? 256
  | TArray n t', VSeq vs => (length vs =? n)%nat && forallb (has_type t') vs
  | TStruct fs, VSeq vs => forall2b has_type fs vs
  | TFixVec t', VSeq vs => forallb (has_type t') vs
  | TDynVec t', VSeq vs => forallb (has_type t') vs
  | TTable fs, VSeq vs => forall2b has_type fs vs
  | TOption t', VOpt None => true
  | TOption t', VOpt (Some v') => has_type t' v'
  | TUnion arms, VUnion id v' => find_arm id (fun t' => has_type t' v') false arms
  | _, _ => false
  end.

(* ---- numbers ------------------------------------------------------------ *)
Definition le32 (n : N) : list N :=
  [n mod 256; (n / 256) mod 256; (n / 65536) mod 256; (n / 16777216) mod 256].
Definition rd32 (bs : list N) : N :=
  match bs with
  | b0 :: b1 :: b2 :: b3 :: _ => b0 + 256 * b1 + 65536 * b2 + 16777216 * b3
  | _ => 0
  end.
Definition bytes_ok (bs : list N) : bool := forallb (fun b => b <? 256) bs.
Definition len (bs : list N) : N := N.of_nat (length bs).

(* ---- encode (Builder::write) ------------------------------------------- *)
Fixpoint offsets_from (base : N) (items : list (list N)) : list N :=
  match items with
  | [] => []
  | x :: r => base :: offsets_from (base + len x) r
  end.

(* full size, offset of every item, items: table and dynvec layout; the empty
   item list gives [4;0;0;0] *)
Definition dyn_frame (items : list (list N)) : list N :=
  let hdr := 4 * (1 + N.of_nat (length items)) in
  le32 (hdr + len (concat items)) ++ flat_map le32 (offsets_from hdr items) ++ concat items.

Fixpoint encode (t : ty) (v : val) : list N :=
  match t, v with
  | TByte, VByte b => [b]
  | TArray _ t', VSeq vs => concat (map (encode t') vs)
  | TStruct fs, VSeq vs => concat (map2 encode fs vs)
  | TFixVec t', VSeq vs => le32 (N.of_nat (length vs)) ++ concat (map (encode t') vs)
  | TDynVec t', VSeq vs => dyn_frame (map (encode t') vs)
  | TTable fs, VSeq vs => dyn_frame (map2 encode fs vs)
  | TOption t', VOpt None => []
  | TOption t', VOpt (Some v') => encode t' v'
  | TUnion arms, VUnion id v' => find_arm id (fun t' => le32 id ++ encode t' v') [] arms
  | _, _ => []
  end.

Fixpoint size (t : ty) (v : val) : N :=
  match t, v with
  | TByte, VByte _ => 1
  | TArray _ t', VSeq vs => sumN (map (size t') vs)
  | TStruct fs, VSeq vs => sumN (map2 size fs vs)
  | TFixVec t', VSeq vs => 4 + sumN (map (size t') vs)
  | TDynVec t', VSeq vs => 4 + 4 * N.of_nat (length vs) + sumN (map (size t') vs)
  | TTable fs, VSeq vs => 4 + 4 * N.of_nat (length (map2 size fs vs)) + sumN (map2 size fs vs)
  | TOption t', VOpt None => 0
  | TOption t', VOpt (Some v') => size t' v'
  | TUnion arms, VUnion id v' => find_arm id (fun t' => 4 + size t' v') 0 arms
  | _, _ => 0
  end.

(* ---- decode (Reader::verify + accessors) ------------------------------- *)
Fixpoint chunks (s n : nat) (bs : list N) : list (list N) :=
  match n with
  | O => []
  | S n' => firstn s bs :: chunks s n' (skipn s bs)
  end.
Fixpoint split_sizes (ss : list nat) (bs : list N) : list (list N) :=
  match ss with
  | [] => []
  | s :: r => firstn s bs :: split_sizes r (skipn s bs)
  end.
Fixpoint rd_words (k : nat) (bs : list N) : list N :=
  match k with
  | O => []
  | S k' => rd32 bs :: rd_words k' (skipn 4 bs)
  end.
Fixpoint monotone (l : list N) : bool :=
  match l with
  | a :: ((b :: _) as r) => (a <=? b) && monotone r
  | _ => true
  end.
Fixpoint slices (offs : list nat) (bs : list N) : list (list N) :=
  match offs with
  | a :: ((b :: _) as r) => firstn (b - a) (skipn a bs) :: slices r bs
  | _ => []
  end.

(* header of a table / dynvec: the checks of the generated verify(), in its
   order; result: the item slices ([] exactly when the slice is the 4-byte
   empty frame) *)
Definition parse_dyn (bs : list N) : option (list (list N)) :=
  if len bs <? 4 then None else
  let total := rd32 bs in
  if negb (total =? len bs) then None else
  if len bs =? 4 then Some [] else
  if len bs <? 8 then None else
  let off1 := rd32 (skipn 4 bs) in
  if negb (off1 mod 4 =? 0) || (off1 <? 8) then None else
  if len bs <? off1 then None else
  let offs := rd_words (N.to_nat (off1 / 4 - 1)) (skipn 4 bs) ++ [total] in
  if monotone offs then Some (slices (map N.to_nat offs) bs) else None.

Fixpoint decode (c : bool) (t : ty) (bs : list N) : option val :=
  match t with
  | TByte => match bs with [b] => Some (VByte b) | _ => None end
  | TArray n t' =>
      match fixed_size t' with
      | Some s => if (length bs =? n * s)%nat
                  then option_map VSeq (mapM (decode c t') (chunks s n bs)) else None
      | None => None
      end
  | TStruct fs =>
      match mapM fixed_size fs with
      | Some ss => if (length bs =? fold_right Nat.add 0%nat ss)%nat
                   then option_map VSeq (map2M (decode c) fs (split_sizes ss bs)) else None
      | None => None
      end
  | TFixVec t' =>
      match fixed_size t' with
      | Some s => if len bs <? 4 then None else
                  let cnt := rd32 bs in
                  if len bs =? 4 + N.of_nat s * cnt
                  then option_map VSeq (mapM (decode c t') (chunks s (N.to_nat cnt) (skipn 4 bs)))
                  else None
      | None => None
      end
  | TDynVec t' =>
      match parse_dyn bs with
      | Some items => option_map VSeq (mapM (decode c t') items)
      | None => None
      end
  | TTable fs =>
      let k := length fs in
      if c && (k =? 0)%nat
      then (if (4 <=? len bs) && (rd32 bs =? len bs) then Some (VSeq []) else None)
      else match parse_dyn bs with
           | Some items =>
               if (k <=? length items)%nat && (c || (length items =? k)%nat)
               then option_map VSeq (map2M (decode c) fs (firstn k items)) else None
           | None => None
           end
  | TOption t' =>
      match bs with
      | [] => Some (VOpt None)
      | _ => option_map (fun v => VOpt (Some v)) (decode c t' bs)
      end
  | TUnion arms =>
      if len bs <? 4 then None else
      let id := rd32 bs in
      find_arm id (fun t' => option_map (VUnion id) (decode c t' (skipn 4 bs))) None arms
  end.

(* ---- decidable equality used by the correspondence checker -------------- *)
Fixpoint bytes_eqb (a b : list N) : bool :=
  match a, b with
  | [], [] => true
  | x :: a', y :: b' => (x =? y) && bytes_eqb a' b'
  | _, _ => false
  end.

(* byte strings are written by the harness as lower-case hex string literals *)
Definition hexval (a : ascii) : N :=
  let n := N_of_ascii a in if n <? 58 then n - 48 else n - 87.
Fixpoint hx (s : string) : list N :=
  match s with
  | String a (String b r) => (16 * hexval a + hexval b) :: hx r
  | _ => []
  end.

(* one case of the harness: type, input bytes, what the generated Rust reader
   said in strict and in compatible mode, and (when compatible mode accepted)
   the bytes obtained by rebuilding the value field by field through the
   generated accessors and builders *)
Inductive rebuilt := RNone | RSame | RBytes (bs : list N).
Record mol_case := mkMol {
  mc_ty : ty; mc_bytes : list N; mc_strict : bool; mc_compat : bool; mc_rebuilt : rebuilt }.

Definition check_mol (c : mol_case) : bool :=
  let t := mc_ty c in
  let ds := decode false t (mc_bytes c) in
  let dc := decode true t (mc_bytes c) in
  Bool.eqb (isSome ds) (mc_strict c) && Bool.eqb (isSome dc) (mc_compat c) &&
  match ds with Some v => bytes_eqb (encode t v) (mc_bytes c) | None => true end &&
  match dc, mc_rebuilt c with
  | Some v, RSame => bytes_eqb (encode t v) (mc_bytes c) && (len (mc_bytes c) =? size t v)
  | Some v, RBytes r => bytes_eqb (encode t v) r && (len r =? size t v)
  | None, RNone => true
  | _, _ => false
  end.
