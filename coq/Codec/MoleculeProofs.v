(* Codec/MoleculeProofs.v — proofs about the molecule model (Codec/Molecule.v) *)
From Coq Require Import List NArith ZArith Bool Arith Lia.
From CKB Require Import Codec.Molecule.
Import ListNotations.
Local Open Scope N_scope.
Arguments N.add : simpl never.
Arguments N.sub : simpl never.
Arguments N.mul : simpl never.
Arguments N.div : simpl never.
Arguments N.modulo : simpl never.
Arguments N.of_nat : simpl never.
Arguments N.to_nat : simpl never.
Arguments Nat.mul : simpl never.

(* ---- induction principle for the nested type --------------------------- *)
Section ty_ind'.
  Variable P : ty -> Prop.
  Hypothesis HB : P TByte.
  Hypothesis HA : forall n t, P t -> P (TArray n t).
  Hypothesis HS : forall fs, Forall P fs -> P (TStruct fs).
  Hypothesis HF : forall t, P t -> P (TFixVec t).
  Hypothesis HD : forall t, P t -> P (TDynVec t).
  Hypothesis HT : forall fs, Forall P fs -> P (TTable fs).
  Hypothesis HO : forall t, P t -> P (TOption t).
  Hypothesis HU : forall arms, Forall (fun a => P (snd a)) arms -> P (TUnion arms).
  Fixpoint ty_ind' (t : ty) : P t :=
    match t with
    | TByte => HB
    | TArray n t' => HA n t' (ty_ind' t')
    | TStruct fs => HS fs ((fix go l : Forall P l :=
                              match l with [] => Forall_nil _ | x :: r => Forall_cons x (ty_ind' x) (go r) end) fs)
    | TFixVec t' => HF t' (ty_ind' t')
    | TDynVec t' => HD t' (ty_ind' t')
    | TTable fs => HT fs ((fix go l : Forall P l :=
                              match l with [] => Forall_nil _ | x :: r => Forall_cons x (ty_ind' x) (go r) end) fs)
    | TOption t' => HO t' (ty_ind' t')
    | TUnion arms => HU arms ((fix go l : Forall (fun a => P (snd a)) l :=
                              match l with [] => Forall_nil _ | a :: r => Forall_cons a (ty_ind' (snd a)) (go r) end) arms)
    end.
End ty_ind'.

(* ---- numbers ------------------------------------------------------------ *)
Ltac Zify.zify_post_hook ::= Z.to_euclidean_division_equations.

Lemma rd32_le32 : forall n r, n < 4294967296 -> rd32 (le32 n ++ r) = n.
Proof. intros n r H. unfold le32, rd32. cbn [app]. lia. Qed.

Lemma le32_length : forall n, length (le32 n) = 4%nat.
Proof. reflexivity. Qed.

Lemma le32_rd32 : forall b0 b1 b2 b3 r,
  b0 < 256 -> b1 < 256 -> b2 < 256 -> b3 < 256 ->
  le32 (rd32 (b0 :: b1 :: b2 :: b3 :: r)) = [b0; b1; b2; b3].
Proof.
  intros. unfold le32, rd32.
  repeat f_equal; lia.
Qed.

Lemma rd32_bound : forall bs, bytes_ok bs = true -> rd32 bs < 4294967296.
Proof.
  intros bs H. unfold rd32.
  destruct bs as [|b0 [|b1 [|b2 [|b3 r]]]]; try lia.
  cbn in H. repeat rewrite andb_true_iff in H. repeat rewrite N.ltb_lt in H. lia.
Qed.

Lemma bytes_ok_app : forall a b, bytes_ok (a ++ b) = bytes_ok a && bytes_ok b.
Proof. intros. unfold bytes_ok. apply forallb_app. Qed.

Lemma bytes_ok_firstn : forall n bs, bytes_ok bs = true -> bytes_ok (firstn n bs) = true.
Proof.
  intros n bs H. rewrite <- (firstn_skipn n bs) in H. rewrite bytes_ok_app in H.
  apply andb_true_iff in H. tauto.
Qed.
Lemma bytes_ok_skipn : forall n bs, bytes_ok bs = true -> bytes_ok (skipn n bs) = true.
Proof.
  intros n bs H. rewrite <- (firstn_skipn n bs) in H. rewrite bytes_ok_app in H.
  apply andb_true_iff in H. tauto.
Qed.

(* a byte string of >= 4 bytes is its first word followed by the rest *)
Lemma le32_rd32_skipn : forall bs, bytes_ok bs = true -> (4 <= length bs)%nat ->
  le32 (rd32 bs) ++ skipn 4 bs = bs.
Proof.
  intros bs H L. destruct bs as [|b0 [|b1 [|b2 [|b3 r]]]]; cbn in L; try lia.
  cbn in H. repeat rewrite andb_true_iff in H. repeat rewrite N.ltb_lt in H.
  rewrite le32_rd32 by tauto. reflexivity.
Qed.

(* ---- find_arm as a lookup ---------------------------------------------- *)
Fixpoint lookup_arm (id : N) (arms : list (N * ty)) : option ty :=
  match arms with
  | [] => None
  | a :: r => if fst a =? id then Some (snd a) else lookup_arm id r
  end.
Lemma find_arm_lookup : forall A id (f : ty -> A) d arms,
  find_arm id f d arms = match lookup_arm id arms with Some t => f t | None => d end.
Proof. induction arms as [|a r IH]; cbn; [reflexivity|]. destruct (fst a =? id); auto. Qed.
Lemma lookup_arm_In : forall id arms t, lookup_arm id arms = Some t -> In (id, t) arms.
Proof.
  induction arms as [|a r IH]; cbn; intros t H; [discriminate|].
  destruct (fst a =? id) eqn:E.
  - apply N.eqb_eq in E. inversion H; subst. left. destruct a; reflexivity.
  - right. auto.
Qed.

(* ---- size --------------------------------------------------------------- *)
Lemma length_concat_sumN : forall (l : list (list N)),
  len (concat l) = sumN (map len l).
Proof.
  unfold len. induction l as [|x r IH]; cbn; [reflexivity|].
  rewrite app_length, Nat2N.inj_add, IH. reflexivity.
Qed.

Lemma offsets_from_length : forall items base, length (offsets_from base items) = length items.
Proof. induction items; cbn; intros; auto. Qed.

Lemma flat_map_le32_length : forall l, length (flat_map le32 l) = (4 * length l)%nat.
Proof. induction l; cbn [flat_map length]; [reflexivity|]. rewrite app_length, IHl, le32_length. lia. Qed.

Lemma dyn_frame_length : forall items,
  len (dyn_frame items) = 4 + 4 * N.of_nat (length items) + sumN (map len items).
Proof.
  intros. unfold dyn_frame, len. rewrite !app_length, le32_length, flat_map_le32_length, offsets_from_length.
  pose proof (length_concat_sumN items) as H. unfold len in H. lia.
Qed.

Lemma map2_length_le : forall A B C (f : A -> B -> C) l1 l2, (length (map2 f l1 l2) <= length l1)%nat.
Proof. induction l1; destruct l2; cbn; try lia. specialize (IHl1 l2). lia. Qed.
Lemma map2_nil_r : forall A B C (f : A -> B -> C) l1, map2 f l1 [] = [].
Proof. destruct l1; reflexivity. Qed.

Theorem mol_size : forall t v, len (encode t v) = size t v.
Proof.
  induction t using ty_ind'; intros v; destruct v as [b|vs|o|id v']; try reflexivity.
  - (* array *) cbn [encode size]. rewrite length_concat_sumN, map_map. f_equal.
    apply map_ext. auto.
  - (* struct *) cbn [encode size]. rewrite length_concat_sumN. f_equal.
    revert vs. induction H as [|f fs Hf Hfs IH]; intros vs; [reflexivity|].
    destruct vs as [|v vs]; [reflexivity|]. cbn. rewrite Hf, IH. reflexivity.
  - (* fixvec *) cbn [encode size]. unfold len. rewrite app_length, le32_length.
    pose proof (length_concat_sumN (map (encode t) vs)) as E. unfold len in E.
    rewrite Nat2N.inj_add, E, map_map. f_equal. f_equal. apply map_ext. auto.
  - (* dynvec *) cbn [encode size]. rewrite dyn_frame_length, map_length, map_map. f_equal.
    f_equal. apply map_ext. auto.
  - (* table *) cbn [encode size]. rewrite dyn_frame_length.
    assert (E : map len (map2 encode fs vs) = map2 size fs vs).
    { revert vs. induction H as [|f fs Hf Hfs IH]; intros vs; [reflexivity|].
      destruct vs as [|v vs]; [reflexivity|]. cbn. rewrite Hf, IH. reflexivity. }
    rewrite <- E, map_length. reflexivity.
  - (* option *) destruct o; cbn [encode size]; auto.
  - (* union *) cbn [encode size]. rewrite !find_arm_lookup.
    destruct (lookup_arm id arms) as [t|] eqn:E; [|reflexivity].
    apply lookup_arm_In in E. rewrite Forall_forall in H. specialize (H _ E). cbn in H.
    unfold len in *. rewrite app_length, le32_length, Nat2N.inj_add, H. reflexivity.
Qed.

(* ---- fixed-size fragment ------------------------------------------------ *)
Lemma sum_opt_cons : forall a r s, sum_opt (a :: r) = Some s ->
  exists x y, a = Some x /\ sum_opt r = Some y /\ s = (x + y)%nat.
Proof.
  intros a r s H. cbn in H. destruct a as [x|]; [|discriminate].
  destruct (sum_opt r) as [y|]; [|discriminate]. inversion H. eauto.
Qed.

Lemma forallb_Forall : forall A (f : A -> bool) l, forallb f l = true <-> Forall (fun x => f x = true) l.
Proof. intros. rewrite forallb_forall, Forall_forall. tauto. Qed.

Lemma fixed_length : forall t s v,
  fixed_size t = Some s -> has_type t v = true -> length (encode t v) = s.
Proof.
  induction t using ty_ind'; intros s v FS HT; try discriminate;
    destruct v as [b|vs|o|id v']; try discriminate.
  - cbn in *. inversion FS. reflexivity.
  - cbn [fixed_size] in FS. destruct (fixed_size t) as [s'|] eqn:E; [|discriminate]. inversion FS; subst.
    cbn [has_type encode] in *. apply andb_true_iff in HT. destruct HT as [L T].
    apply Nat.eqb_eq in L. subst n. clear FS. rewrite forallb_Forall in T.
    induction T as [|v vs Hv Hvs IH]; [reflexivity|]. cbn [map concat length].
    rewrite app_length, IH, (IHt s' v eq_refl Hv). lia.
  - cbn [fixed_size has_type encode] in *. revert s vs FS HT.
    induction H as [|f fs Hf Hfs IH]; intros s vs FS HT.
    + destruct vs; [|discriminate]. cbn in FS. inversion FS. reflexivity.
    + destruct vs as [|v vs]; [discriminate|]. cbn [map] in FS.
      apply sum_opt_cons in FS. destruct FS as (x & y & Ex & Ey & ->).
      cbn in HT. apply andb_true_iff in HT. destruct HT as [T1 T2].
      cbn [map2 concat]. rewrite app_length. rewrite (Hf x v Ex T1).
      f_equal. exact (IH y vs Ey T2).
Qed.

Lemma chunks_concat : forall s (xs : list (list N)) rest,
  Forall (fun x => length x = s) xs -> chunks s (length xs) (concat xs ++ rest) = xs.
Proof.
  intros s xs rest H. induction H as [|x xs Hx Hxs IH]; [reflexivity|].
  cbn [length chunks concat]. rewrite <- app_assoc.
  rewrite firstn_app, <- Hx, firstn_all, Nat.sub_diag. cbn [firstn]. rewrite app_nil_r.
  rewrite skipn_app, skipn_all, Nat.sub_diag. cbn [skipn app]. rewrite Hx, IH. reflexivity.
Qed.

Lemma split_sizes_concat : forall (xs : list (list N)),
  split_sizes (map (@length N) xs) (concat xs) = xs.
Proof.
  induction xs as [|x xs IH]; [reflexivity|]. cbn [map split_sizes concat].
  rewrite firstn_app, firstn_all, Nat.sub_diag. cbn [firstn]. rewrite app_nil_r.
  rewrite skipn_app, skipn_all, Nat.sub_diag. cbn [skipn app]. rewrite IH. reflexivity.
Qed.

Lemma mapM_map_roundtrip : forall A B (dec : list A -> option B) (enc : B -> list A) vs,
  Forall (fun v => dec (enc v) = Some v) vs -> mapM dec (map enc vs) = Some vs.
Proof.
  intros A B dec enc vs H. induction H as [|v vs Hv Hvs IH]; [reflexivity|].
  cbn. rewrite Hv, IH. reflexivity.
Qed.

(* ---- table / dynvec frame ----------------------------------------------- *)
Definition offs_ext (b : N) (items : list (list N)) : list N :=
  offsets_from b items ++ [b + len (concat items)].

Lemma len_app : forall a b, len (a ++ b) = len a + len b.
Proof. intros. unfold len. rewrite app_length. lia. Qed.

Lemma offs_ext_cons : forall b x r, offs_ext b (x :: r) = b :: offs_ext (b + len x) r.
Proof. intros. unfold offs_ext. cbn [offsets_from concat app]. rewrite len_app. f_equal. f_equal. f_equal. lia. Qed.
Lemma offs_ext_nil : forall b, offs_ext b [] = [b].
Proof. intros. unfold offs_ext, len. cbn. f_equal. lia. Qed.
Lemma offs_ext_hd : forall b items, exists tl, offs_ext b items = b :: tl.
Proof. intros. destruct items; [rewrite offs_ext_nil|rewrite offs_ext_cons]; eauto. Qed.

Lemma monotone_offs_ext : forall items b, monotone (offs_ext b items) = true.
Proof.
  induction items as [|x r IH]; intros b; [rewrite offs_ext_nil; reflexivity|].
  rewrite offs_ext_cons. destruct (offs_ext_hd (b + len x) r) as [tl E].
  specialize (IH (b + len x)). rewrite E in *.
  change (monotone (b :: b + len x :: tl)) with ((b <=? b + len x) && monotone (b + len x :: tl)).
  rewrite IH, andb_true_r.
  apply N.leb_le. lia.
Qed.

Lemma slices_cons2 : forall a b r bs,
  slices (a :: b :: r) bs = firstn (b - a) (skipn a bs) :: slices (b :: r) bs.
Proof. reflexivity. Qed.

Lemma slices_offs_ext : forall items pre post,
  slices (map N.to_nat (offs_ext (len pre) items)) (pre ++ concat items ++ post) = items.
Proof.
  induction items as [|x r IH]; intros pre post.
  - rewrite offs_ext_nil. reflexivity.
  - rewrite offs_ext_cons. destruct (offs_ext_hd (len pre + len x) r) as [tl E].
    specialize (IH (pre ++ x) post). rewrite len_app in IH. rewrite E in *.
    cbn [map]. cbn [map] in IH. rewrite slices_cons2. f_equal.
    + unfold len. replace (N.to_nat (N.of_nat (length pre) + N.of_nat (length x)) - N.to_nat (N.of_nat (length pre)))%nat
        with (length x) by lia.
      rewrite Nat2N.id. rewrite skipn_app, skipn_all, Nat.sub_diag. cbn [skipn app concat].
      rewrite <- app_assoc, firstn_app, firstn_all, Nat.sub_diag. cbn [firstn]. apply app_nil_r.
    + cbn [concat]. rewrite <- IH at 2. f_equal. rewrite <- !app_assoc. reflexivity.
Qed.

Lemma rd_words_flat_map : forall l r, Forall (fun n => n < 4294967296) l ->
  rd_words (length l) (flat_map le32 l ++ r) = l.
Proof.
  intros l r H. induction H as [|n l Hn Hl IH]; [reflexivity|].
  cbn [length rd_words flat_map]. rewrite <- app_assoc. rewrite rd32_le32 by exact Hn.
  f_equal. exact IH.
Qed.

Lemma offsets_from_bound : forall items b, 
  Forall (fun n => n <= b + len (concat items)) (offsets_from b items).
Proof.
  induction items as [|x r IH]; intros b; cbn [offsets_from]; constructor.
  - lia.
  - cbn [concat]. rewrite len_app. specialize (IH (b + len x)).
    eapply Forall_impl; [|exact IH]. cbn. intros. lia.
Qed.

Lemma parse_dyn_frame : forall items,
  len (dyn_frame items) < 4294967296 -> parse_dyn (dyn_frame items) = Some items.
Proof.
  intros items B. pose proof (dyn_frame_length items) as L.
  pose proof (length_concat_sumN items) as LC.
  set (n := N.of_nat (length items)) in *.
  set (hdr := 4 * (1 + n)).
  assert (ET : dyn_frame items = le32 (hdr + len (concat items)) ++ flat_map le32 (offsets_from hdr items) ++ concat items) by reflexivity.
  unfold parse_dyn.
  replace (len (dyn_frame items) <? 4) with false by (symmetry; apply N.ltb_ge; lia).
  assert (R0 : rd32 (dyn_frame items) = len (dyn_frame items)).
  { rewrite ET at 1. rewrite rd32_le32 by lia. lia. }
  rewrite R0, N.eqb_refl. cbn [negb].
  destruct items as [|x r].
  - reflexivity.
  - assert (n = N.of_nat (S (length r))) by reflexivity.
    replace (len (dyn_frame (x :: r)) =? 4) with false by (symmetry; apply N.eqb_neq; lia).
    replace (len (dyn_frame (x :: r)) <? 8) with false by (symmetry; apply N.ltb_ge; lia).
    assert (S4 : skipn 4 (dyn_frame (x :: r)) = flat_map le32 (offsets_from hdr (x :: r)) ++ concat (x :: r)).
    { rewrite ET. reflexivity. }
    rewrite S4.
    assert (R1 : rd32 (flat_map le32 (offsets_from hdr (x :: r)) ++ concat (x :: r)) = hdr).
    { cbn [offsets_from flat_map]. rewrite <- app_assoc. apply rd32_le32. lia. }
    rewrite R1.
    replace (hdr mod 4 =? 0) with true by (symmetry; apply N.eqb_eq; unfold hdr; lia).
    replace (hdr <? 8) with false by (symmetry; apply N.ltb_ge; lia).
    replace (len (dyn_frame (x :: r)) <? hdr) with false by (symmetry; apply N.ltb_ge; lia).
    cbn [negb orb].
    replace (N.to_nat (hdr / 4 - 1)) with (length (offsets_from hdr (x :: r)))
      by (rewrite offsets_from_length; cbn [length]; unfold hdr; lia).
    rewrite rd_words_flat_map.
    2:{ eapply Forall_impl; [|apply offsets_from_bound]. intros a Ha. cbv beta in Ha. unfold hdr in *. lia. }
    replace (offsets_from hdr (x :: r) ++ [len (dyn_frame (x :: r))]) with (offs_ext hdr (x :: r))
      by (unfold offs_ext; f_equal; f_equal; lia).
    rewrite monotone_offs_ext. f_equal.
    pose proof (slices_offs_ext (x :: r) (le32 (hdr + len (concat (x :: r))) ++ flat_map le32 (offsets_from hdr (x :: r))) []) as SL.
    rewrite app_nil_r in SL.
    assert (HP : len (le32 (hdr + len (concat (x :: r))) ++ flat_map le32 (offsets_from hdr (x :: r))) = hdr).
    { rewrite len_app. unfold len. rewrite le32_length, flat_map_le32_length, offsets_from_length.
      cbn [length]. unfold hdr. lia. }
    rewrite HP in SL. rewrite ET, app_assoc. exact SL.
Qed.

(* ---- round trip ---------------------------------------------------------- *)
Lemma dyn_frame_nonempty : forall items, (0 < length (dyn_frame items))%nat.
Proof. intros. unfold dyn_frame. rewrite app_length, le32_length. lia. Qed.

Lemma forall2b_length : forall A B (f : A -> B -> bool) l1 l2, forall2b f l1 l2 = true -> length l1 = length l2.
Proof.
  induction l1 as [|a l1 IH]; destruct l2 as [|b l2]; cbn; intros H; try discriminate; auto.
  apply andb_true_iff in H. f_equal. apply IH. tauto.
Qed.

Lemma nonempty_encode : forall t v, nonempty t = true -> has_type t v = true -> (0 < length (encode t v))%nat.
Proof.
  induction t using ty_ind'; intros v NE HT; destruct v as [b|vs|o|id v']; try discriminate.
  - cbn. lia.
  - cbn [nonempty has_type encode] in *. apply andb_true_iff in NE. destruct NE as [N0 NE].
    apply andb_true_iff in HT. destruct HT as [L T]. apply Nat.eqb_eq in L. subst n.
    destruct vs as [|v vs]; [discriminate|]. cbn in T. apply andb_true_iff in T.
    cbn [map concat]. rewrite app_length. specialize (IHt v NE (proj1 T)). lia.
  - cbn [nonempty has_type encode] in *. revert vs HT.
    induction H as [|f fs Hf Hfs IH]; intros vs HT; [discriminate|].
    destruct vs as [|v vs]; [discriminate|]. cbn in HT. apply andb_true_iff in HT. destruct HT as [T1 T2].
    cbn [map2 concat]. rewrite app_length. cbn in NE. apply orb_true_iff in NE. destruct NE as [NE|NE].
    + specialize (Hf v NE T1). lia.
    + specialize (IH NE vs T2). lia.
  - cbn [encode]. rewrite app_length, le32_length. lia.
  - cbn [encode]. apply dyn_frame_nonempty.
  - cbn [encode]. apply dyn_frame_nonempty.
  - cbn [has_type encode] in *. rewrite find_arm_lookup in *.
    destruct (lookup_arm id arms); [|discriminate]. rewrite app_length, le32_length. lia.
Qed.

Lemma length_concat_In : forall (l : list (list N)) x, In x l -> (length x <= length (concat l))%nat.
Proof.
  induction l as [|y l IH]; intros x H; [destruct H|]. cbn [concat]. rewrite app_length.
  destruct H as [->|H]; [lia|]. specialize (IH x H). lia.
Qed.

Lemma length_concat_fold : forall (l : list (list N)), length (concat l) = fold_right Nat.add 0%nat (map (@length N) l).
Proof. induction l; cbn; [reflexivity|]. rewrite app_length, IHl. reflexivity. Qed.

(* fields of a struct / table: decoding the encodings of the fields gives the
   fields back *)
Lemma map2M_roundtrip : forall c fs,
  Forall (fun t => wf t = true -> forall c v, has_type t v = true ->
            len (encode t v) < 4294967296 -> decode c t (encode t v) = Some v) fs ->
  forallb wf fs = true ->
  forall vs, forall2b has_type fs vs = true ->
  len (concat (map2 encode fs vs)) < 4294967296 ->
  map2M (decode c) fs (map2 encode fs vs) = Some vs /\ length (map2 encode fs vs) = length fs.
Proof.
  intros c fs H. induction H as [|f fs Hf Hfs IH]; intros W vs HT B.
  - destruct vs; [|discriminate]. split; reflexivity.
  - destruct vs as [|v vs]; [discriminate|]. cbn in W, HT. apply andb_true_iff in W, HT.
    destruct W as [W1 W2]. destruct HT as [T1 T2]. cbn [map2 concat] in B. rewrite len_app in B.
    destruct (IH W2 vs T2) as [E1 E2]; [lia|].
    cbn [map2 map2M length]. rewrite (Hf W1 c v T1) by lia. rewrite E1, E2. split; reflexivity.
Qed.

Lemma struct_sizes : forall fs,
  forallb (fun f => isSome (fixed_size f) && wf f) fs = true ->
  forall vs, forall2b has_type fs vs = true ->
  mapM fixed_size fs = Some (map (@length N) (map2 encode fs vs)) /\ forallb wf fs = true.
Proof.
  induction fs as [|f fs IH]; intros W vs HT.
  - destruct vs; [|discriminate]. split; reflexivity.
  - destruct vs as [|v vs]; [discriminate|]. cbn in W, HT. apply andb_true_iff in W, HT.
    destruct W as [W1 W2]. destruct HT as [T1 T2]. apply andb_true_iff in W1. destruct W1 as [F1 W1].
    destruct (IH W2 vs T2) as [E1 E2]. cbn [mapM map2 map forallb]. rewrite E1, W1, E2.
    destruct (fixed_size f) as [s|] eqn:E; [|discriminate].
    rewrite (fixed_length f s v E T1). split; reflexivity.
Qed.

Theorem mol_roundtrip : forall t, wf t = true -> forall c v,
  has_type t v = true -> len (encode t v) < 4294967296 -> decode c t (encode t v) = Some v.
Proof.
  induction t using ty_ind'; intros W c v HT B; destruct v as [b|vs|o|id v']; try discriminate.
  - reflexivity.
  - (* array *)
    cbn [wf] in W. apply andb_true_iff in W. destruct W as [F W].
    destruct (fixed_size t) as [s|] eqn:E; [|discriminate].
    pose proof (fixed_length (TArray n t) (n * s)%nat (VSeq vs)) as FL. cbn [fixed_size] in FL.
    rewrite E in FL. specialize (FL eq_refl HT).
    cbn [has_type] in HT. apply andb_true_iff in HT. destruct HT as [L T]. apply Nat.eqb_eq in L.
    cbn [encode decode] in *. rewrite E, FL, Nat.eqb_refl.
    rewrite forallb_Forall in T.
    rewrite <- (app_nil_r (concat _)). replace n with (length (map (encode t) vs)) by (rewrite map_length; exact L).
    rewrite chunks_concat.
    2:{ rewrite Forall_map. eapply Forall_impl; [|exact T]. intros v Hv. cbv beta. apply (fixed_length t s v E Hv). }
    rewrite mapM_map_roundtrip; [reflexivity|].
    rewrite Forall_forall. intros v Hv. rewrite Forall_forall in T. apply IHt; auto.
    pose proof (length_concat_In (map (encode t) vs) (encode t v) (in_map _ _ _ Hv)). unfold len in *. lia.
  - (* struct *)
    cbn [wf has_type encode decode] in *.
    destruct (struct_sizes fs W vs HT) as [E1 W'].
    destruct (map2M_roundtrip c fs H W' vs HT B) as [E2 _].
    rewrite E1, <- length_concat_fold, Nat.eqb_refl, split_sizes_concat, E2. reflexivity.
  - (* fixvec *)
    cbn [wf] in W. apply andb_true_iff in W. destruct W as [F W].
    destruct (fixed_size t) as [s|] eqn:E; [|discriminate].
    apply negb_true_iff, Nat.eqb_neq in F.
    cbn [has_type encode decode] in *. rewrite E. rewrite forallb_Forall in HT.
    assert (LC : length (concat (map (encode t) vs)) = (length vs * s)%nat).
    { clear B. induction HT as [|v vs Hv Hvs IH]; [reflexivity|]. cbn [map concat length].
      rewrite app_length, IH, (fixed_length t s v E Hv). lia. }
    rewrite len_app in *. unfold len in *. rewrite le32_length in *. rewrite LC in *.
    replace (N.of_nat 4 + N.of_nat (length vs * s) <? 4) with false by (symmetry; apply N.ltb_ge; lia).
    rewrite rd32_le32 by nia.
    replace (N.of_nat 4 + N.of_nat (length vs * s) =? 4 + N.of_nat s * N.of_nat (length vs)) with true
      by (symmetry; apply N.eqb_eq; lia).
    change (skipn 4 (le32 (N.of_nat (length vs)) ++ concat (map (encode t) vs))) with (concat (map (encode t) vs)).
    rewrite Nat2N.id. rewrite <- (app_nil_r (concat _)).
    replace (length vs) with (length (map (encode t) vs)) at 1 by apply map_length.
    rewrite chunks_concat.
    2:{ rewrite Forall_map. eapply Forall_impl; [|exact HT]. intros v Hv. cbv beta. apply (fixed_length t s v E Hv). }
    rewrite mapM_map_roundtrip; [reflexivity|].
    rewrite Forall_forall. intros v Hv. rewrite Forall_forall in HT. apply IHt; auto.
    pose proof (length_concat_In (map (encode t) vs) (encode t v) (in_map _ _ _ Hv)). unfold len. lia.
  - (* dynvec *)
    cbn [wf has_type encode decode] in *. rewrite parse_dyn_frame by exact B.
    rewrite mapM_map_roundtrip; [reflexivity|].
    rewrite forallb_Forall in HT. rewrite Forall_forall in *. intros v Hv. apply IHt; auto.
    pose proof (length_concat_In (map (encode t) vs) (encode t v) (in_map _ _ _ Hv)).
    pose proof (dyn_frame_length (map (encode t) vs)) as DL. rewrite <- length_concat_sumN in DL.
    unfold len in *. lia.
  - (* table *)
    cbn [wf has_type encode decode] in *.
    pose proof (dyn_frame_length (map2 encode fs vs)) as DL. rewrite <- length_concat_sumN in DL.
    destruct (map2M_roundtrip c fs H W vs HT) as [E1 E2]; [lia|].
    destruct (c && (length fs =? 0)%nat) eqn:C0.
    + apply andb_true_iff in C0. destruct C0 as [_ C0]. apply Nat.eqb_eq in C0.
      destruct fs; [|discriminate]. destruct vs; [|discriminate]. reflexivity.
    + rewrite parse_dyn_frame by exact B. rewrite E2, Nat.leb_refl, Nat.eqb_refl, orb_true_r. cbn [andb].
      rewrite <- E2 at 1. rewrite firstn_all, E1. reflexivity.
  - (* option *)
    destruct o as [v|]; [|reflexivity]. cbn [wf has_type encode decode] in *.
    apply andb_true_iff in W. destruct W as [NE W].
    pose proof (nonempty_encode t v NE HT) as L.
    destruct (encode t v) as [|b bs] eqn:E; [cbn in L; lia|]. rewrite <- E in *.
    rewrite IHt by auto. reflexivity.
  - (* union *)
    cbn [wf has_type encode decode] in *. rewrite find_arm_lookup in *.
    destruct (lookup_arm id arms) as [t|] eqn:E; [|discriminate].
    pose proof (lookup_arm_In _ _ _ E) as I.
    apply andb_true_iff in W. destruct W as [_ W]. rewrite forallb_forall in W.
    specialize (W _ I). cbn [fst snd] in W. apply andb_true_iff in W. destruct W as [Wi Wt].
    apply N.ltb_lt in Wi. rewrite len_app in *. unfold len in *. rewrite le32_length in *.
    replace (N.of_nat 4 + N.of_nat (length (encode t v')) <? 4) with false by (symmetry; apply N.ltb_ge; lia).
    rewrite rd32_le32 by exact Wi. rewrite find_arm_lookup, E.
    change (skipn 4 (le32 id ++ encode t v')) with (encode t v').
    rewrite Forall_forall in H. pose proof (H _ I Wt c v' HT) as R. cbn [snd] in R.
    rewrite R by (unfold len; lia). reflexivity.
Qed.

(* ---- canonicity of the strict decoder ------------------------------------ *)
Lemma mapM_canon : forall A B (dec : A -> option B) (enc : B -> A) xs vs,
  mapM dec xs = Some vs -> (forall x v, In x xs -> dec x = Some v -> enc v = x) -> map enc vs = xs.
Proof.
  induction xs as [|x xs IH]; intros vs H C; cbn in H.
  - inversion H. reflexivity.
  - destruct (dec x) as [v|] eqn:E; [|discriminate].
    destruct (mapM dec xs) as [r|] eqn:E2; [|discriminate]. inversion H; subst.
    cbn [map]. rewrite (C x v (or_introl eq_refl) E). f_equal. apply IH; auto.
    intros. apply C; auto. right. assumption.
Qed.

Lemma mapM_length : forall A B (dec : A -> option B) xs vs, mapM dec xs = Some vs -> length vs = length xs.
Proof.
  induction xs as [|x xs IH]; intros vs H; cbn in H.
  - inversion H. reflexivity.
  - destruct (dec x); [|discriminate]. destruct (mapM dec xs) eqn:E; [|discriminate].
    inversion H. cbn. f_equal. apply IH. reflexivity.
Qed.

Lemma map2M_canon : forall (P : list N -> Prop) (dec : ty -> list N -> option val) (enc : ty -> val -> list N) fs,
  Forall (fun f => forall x v, P x -> dec f x = Some v -> enc f v = x) fs ->
  forall xs vs, map2M dec fs xs = Some vs -> Forall P xs -> map2 enc fs vs = xs.
Proof.
  intros P dec enc fs H. induction H as [|f fs Hf Hfs IH]; intros xs vs M PX.
  - destruct xs; cbn in M; inversion M. reflexivity.
  - destruct xs as [|x xs]; [discriminate|]. cbn in M.
    destruct (dec f x) as [v|] eqn:E; [|discriminate].
    destruct (map2M dec fs xs) as [r|] eqn:E2; [|discriminate]. inversion M; subst.
    inversion PX; subst. cbn [map2]. rewrite (Hf x v H1 E). f_equal. apply IH; auto.
Qed.

Lemma concat_chunks : forall s n bs, concat (chunks s n bs) = firstn (n * s) bs.
Proof.
  induction n as [|n IH]; intros bs; [reflexivity|].
  cbn [chunks concat]. rewrite IH. replace (S n * s)%nat with (s + n * s)%nat by lia.
  rewrite <- (firstn_skipn s bs) at 3. rewrite firstn_app.
  destruct (Nat.le_gt_cases s (length bs)) as [L|L].
  - rewrite firstn_length_le by exact L. replace (s + n * s - s)%nat with (n * s)%nat by lia.
    rewrite (firstn_all2 (firstn s bs)); [reflexivity|]. rewrite firstn_length. lia.
  - rewrite (skipn_all2 bs) by lia. rewrite !firstn_nil, !app_nil_r.
    rewrite (firstn_all2 (firstn s bs)); [reflexivity|]. rewrite firstn_length. lia.
Qed.

Lemma concat_split_sizes : forall ss bs, concat (split_sizes ss bs) = firstn (fold_right Nat.add 0%nat ss) bs.
Proof.
  induction ss as [|s ss IH]; intros bs; [reflexivity|].
  cbn [split_sizes concat fold_right]. rewrite IH.
  rewrite <- (firstn_skipn s bs) at 3. rewrite firstn_app.
  destruct (Nat.le_gt_cases s (length bs)) as [L|L].
  - rewrite firstn_length_le by exact L.
    replace (s + fold_right Nat.add 0 ss - s)%nat with (fold_right Nat.add 0 ss)%nat by lia.
    rewrite (firstn_all2 (firstn s bs)); [reflexivity|]. rewrite firstn_length. lia.
  - rewrite (skipn_all2 bs) by lia. rewrite !firstn_nil, !app_nil_r.
    rewrite (firstn_all2 (firstn s bs)); [reflexivity|]. rewrite firstn_length. lia.
Qed.

Lemma chunks_ok : forall s n bs, bytes_ok bs = true -> Forall (fun x => bytes_ok x = true) (chunks s n bs).
Proof.
  induction n; intros bs H; cbn [chunks]; constructor.
  - apply bytes_ok_firstn; auto.
  - apply IHn. apply bytes_ok_skipn; auto.
Qed.
Lemma chunks_length : forall s n bs, length (chunks s n bs) = n.
Proof. induction n; intros; cbn; auto. Qed.
Lemma split_sizes_ok : forall ss bs, bytes_ok bs = true -> Forall (fun x => bytes_ok x = true) (split_sizes ss bs).
Proof.
  induction ss; intros bs H; cbn [split_sizes]; constructor.
  - apply bytes_ok_firstn; auto.
  - apply IHss. apply bytes_ok_skipn; auto.
Qed.
Lemma slices_ok : forall offs bs, bytes_ok bs = true -> Forall (fun x => bytes_ok x = true) (slices offs bs).
Proof.
  induction offs as [|a [|b r] IH]; intros bs H; try constructor.
  - apply bytes_ok_firstn, bytes_ok_skipn; auto.
  - apply IH; auto.
Qed.
Lemma slices_length : forall offs bs, length (slices offs bs) = (length offs - 1)%nat.
Proof.
  induction offs as [|a [|b r] IH]; intros bs; try reflexivity.
  rewrite slices_cons2. cbn [length]. rewrite IH. cbn [length]. lia.
Qed.

Lemma flat_map_rd_words : forall k bs, bytes_ok bs = true -> (4 * k <= length bs)%nat ->
  flat_map le32 (rd_words k bs) = firstn (4 * k) bs.
Proof.
  induction k as [|k IH]; intros bs OK L; [reflexivity|].
  cbn [rd_words flat_map]. rewrite IH; [|apply bytes_ok_skipn; auto|rewrite skipn_length; lia].
  replace (4 * S k)%nat with (4 + 4 * k)%nat by lia.
  destruct bs as [|b0 [|b1 [|b2 [|b3 r]]]]; cbn in L; try lia.
  cbn in OK. repeat rewrite andb_true_iff in OK. repeat rewrite N.ltb_lt in OK.
  rewrite le32_rd32 by tauto. reflexivity.
Qed.

Lemma firstn_add : forall A m k (xs : list A), firstn (m + k) xs = firstn m xs ++ firstn k (skipn m xs).
Proof.
  induction m as [|m IH]; intros k xs; [reflexivity|].
  destruct xs as [|x xs]; [cbn; rewrite firstn_nil; reflexivity|].
  cbn [Nat.add firstn skipn app]. f_equal. apply IH.
Qed.

Lemma skipn_skipn : forall A x y (l : list A), skipn x (skipn y l) = skipn (x + y) l.
Proof.
  intros A x y. induction y as [|y IH]; intros l.
  - rewrite Nat.add_0_r. reflexivity.
  - replace (x + S y)%nat with (S (x + y)) by lia. destruct l as [|a l]; [rewrite !skipn_nil; reflexivity|].
    cbn [skipn]. apply IH.
Qed.

Lemma monotone_cons : forall a b r, monotone (a :: b :: r) = (a <=? b) && monotone (b :: r).
Proof. reflexivity. Qed.

Lemma monotone_last : forall W a T, monotone (a :: W ++ [T]) = true -> a <= T.
Proof.
  induction W as [|b W IH]; intros a T H.
  - cbn [app] in H. rewrite monotone_cons in H. apply andb_true_iff in H. apply N.leb_le. tauto.
  - cbn [app] in H. rewrite monotone_cons in H. apply andb_true_iff in H. destruct H as [H1 H2].
    apply N.leb_le in H1. specialize (IH b T H2). lia.
Qed.

Lemma concat_slices_N : forall W a T bs, monotone (a :: W ++ [T]) = true -> T <= len bs ->
  concat (slices (map N.to_nat (a :: W ++ [T])) bs) = firstn (N.to_nat (T - a)) (skipn (N.to_nat a) bs).
Proof.
  induction W as [|b W IH]; intros a T bs M LT.
  - cbn [app map]. rewrite slices_cons2. cbn [slices concat]. rewrite app_nil_r.
    f_equal. apply monotone_last with (W := []) in M. lia.
  - pose proof (monotone_last _ _ _ M) as AT.
    cbn [app] in M. rewrite monotone_cons in M. apply andb_true_iff in M. destruct M as [M1 M2].
    apply N.leb_le in M1. pose proof (monotone_last _ _ _ M2) as BT.
    cbn [app map]. rewrite slices_cons2. cbn [concat].
    specialize (IH b T bs M2 LT). cbn [app map] in IH. rewrite IH.
    replace (N.to_nat (T - a)) with ((N.to_nat b - N.to_nat a) + N.to_nat (T - b))%nat by lia.
    rewrite firstn_add. f_equal. rewrite skipn_skipn. f_equal. f_equal. lia.
Qed.

Lemma offsets_from_slices_N : forall W a T bs, monotone (a :: W ++ [T]) = true -> T <= len bs ->
  offsets_from a (slices (map N.to_nat (a :: W ++ [T])) bs) = a :: W.
Proof.
  induction W as [|b W IH]; intros a T bs M LT.
  - reflexivity.
  - cbn [app] in M. rewrite monotone_cons in M. apply andb_true_iff in M. destruct M as [M1 M2].
    apply N.leb_le in M1. pose proof (monotone_last _ _ _ M2) as BT.
    cbn [app map]. rewrite slices_cons2. cbn [offsets_from]. f_equal.
    specialize (IH b T bs M2 LT). cbn [app map] in IH.
    replace (a + len (firstn (N.to_nat b - N.to_nat a) (skipn (N.to_nat a) bs))) with b; [exact IH|].
    unfold len in *. rewrite firstn_length, skipn_length. lia.
Qed.

Lemma parse_dyn_canon : forall bs items,
  parse_dyn bs = Some items -> bytes_ok bs = true -> dyn_frame items = bs.
Proof.
  intros bs items P OK. unfold parse_dyn in P.
  destruct (len bs <? 4) eqn:L4; [discriminate|]. apply N.ltb_ge in L4.
  destruct (rd32 bs =? len bs) eqn:ET; [|discriminate]. apply N.eqb_eq in ET. cbn [negb] in P.
  assert (L4' : (4 <= length bs)%nat) by (unfold len in L4; lia).
  pose proof (le32_rd32_skipn bs OK L4') as HD.
  destruct (len bs =? 4) eqn:E4.
  - apply N.eqb_eq in E4. inversion P; subst items.
    rewrite <- HD. rewrite (skipn_all2 bs) by (unfold len in E4; lia).
    rewrite ET, E4. reflexivity.
  - apply N.eqb_neq in E4.
    destruct (len bs <? 8) eqn:L8; [discriminate|]. apply N.ltb_ge in L8.
    set (off1 := rd32 (skipn 4 bs)) in *.
    destruct (off1 mod 4 =? 0) eqn:M4; [|discriminate]. apply N.eqb_eq in M4.
    destruct (off1 <? 8) eqn:O8; [discriminate|]. apply N.ltb_ge in O8. cbn [negb orb] in P.
    destruct (len bs <? off1) eqn:LO; [discriminate|]. apply N.ltb_ge in LO.
    set (n := N.to_nat (off1 / 4 - 1)) in *.
    assert (Hn : (4 + 4 * n)%nat = N.to_nat off1) by (unfold n; lia).
    destruct n as [|n'] eqn:En; [lia|].
    cbn [rd_words] in P. fold off1 in P.
    set (W := rd_words n' (skipn 4 (skipn 4 bs))) in *.
    destruct (monotone ((off1 :: W) ++ [rd32 bs])) eqn:MO; [|discriminate].
    assert (PI : items = slices (map N.to_nat (off1 :: W ++ [rd32 bs])) bs)
      by (injection P as PI; symmetry; exact PI).
    clear P. subst items.
    change ((off1 :: W) ++ [rd32 bs]) with (off1 :: W ++ [rd32 bs]) in *.
    assert (TL : rd32 bs <= len bs) by lia.
    pose proof (concat_slices_N W off1 (rd32 bs) bs MO TL) as CS.
    pose proof (offsets_from_slices_N W off1 (rd32 bs) bs MO TL) as OS.
    set (its := slices (map N.to_nat (off1 :: W ++ [rd32 bs])) bs) in *.
    assert (LI : length its = S n').
    { unfold its. rewrite slices_length, map_length. cbn [length]. rewrite app_length.
      unfold W. cbn [length].
      assert (forall k b, length (rd_words k b) = k) as RL by (induction k; intros; cbn; auto).
      rewrite RL. lia. }
    unfold dyn_frame. rewrite LI.
    replace (4 * (1 + N.of_nat (S n'))) with off1 by lia.
    rewrite OS, CS.
    rewrite (firstn_all2 (skipn (N.to_nat off1) bs)) by (rewrite skipn_length; unfold len in *; lia).
    replace (off1 + len (skipn (N.to_nat off1) bs)) with (rd32 bs)
      by (unfold len in *; rewrite skipn_length; lia).
    assert (FW : flat_map le32 (off1 :: W) = firstn (4 * S n') (skipn 4 bs)).
    { rewrite <- (flat_map_rd_words (S n') (skipn 4 bs)); [reflexivity|apply bytes_ok_skipn; auto|].
      rewrite skipn_length. unfold len in *. lia. }
    rewrite FW.
    rewrite <- HD at 4.
    f_equal.
    replace (skipn (N.to_nat off1) bs) with (skipn (4 * S n') (skipn 4 bs))
      by (rewrite skipn_skipn; f_equal; lia).
    apply firstn_skipn.
Qed.

Lemma firstn4_le32 : forall bs, bytes_ok bs = true -> (4 <= length bs)%nat -> firstn 4 bs = le32 (rd32 bs).
Proof.
  intros bs OK L. destruct bs as [|b0 [|b1 [|b2 [|b3 r]]]]; cbn in L; try lia.
  cbn in OK. repeat rewrite andb_true_iff in OK. repeat rewrite N.ltb_lt in OK.
  rewrite le32_rd32 by tauto. reflexivity.
Qed.

Theorem mol_canonical : forall t bs v,
  decode false t bs = Some v -> bytes_ok bs = true -> encode t v = bs.
Proof.
  induction t using ty_ind'; intros bs v D OK; cbn [decode] in D.
  - destruct bs as [|b [|? ?]]; try discriminate. inversion D. reflexivity.
  - (* array *)
    destruct (fixed_size t) as [s|]; [|discriminate].
    destruct (length bs =? n * s)%nat eqn:L; [|discriminate]. apply Nat.eqb_eq in L.
    destruct (mapM (decode false t) (chunks s n bs)) as [vs|] eqn:M; [|discriminate].
    inversion D; subst v. cbn [encode].
    rewrite (mapM_canon _ _ (decode false t) (encode t) _ _ M).
    + rewrite concat_chunks, <- L. apply firstn_all.
    + intros x v Hx Dx. apply IHt; auto.
      pose proof (chunks_ok s n bs OK) as CO. rewrite Forall_forall in CO. auto.
  - (* struct *)
    destruct (mapM fixed_size fs) as [ss|]; [|discriminate].
    destruct (length bs =? fold_right Nat.add 0 ss)%nat eqn:L; [|discriminate]. apply Nat.eqb_eq in L.
    destruct (map2M (decode false) fs (split_sizes ss bs)) as [vs|] eqn:M; [|discriminate].
    inversion D; subst v. cbn [encode].
    rewrite (map2M_canon (fun x => bytes_ok x = true) (decode false) encode fs) with (xs := split_sizes ss bs); auto.
    + rewrite concat_split_sizes, <- L. apply firstn_all.
    + eapply Forall_impl; [|exact H]. cbv beta. intros f Hf x v Px Dx. apply Hf; auto.
    + apply split_sizes_ok; auto.
  - (* fixvec *)
    destruct (fixed_size t) as [s|]; [|discriminate].
    destruct (len bs <? 4) eqn:L4; [discriminate|]. apply N.ltb_ge in L4.
    destruct (len bs =? 4 + N.of_nat s * rd32 bs) eqn:L; [|discriminate]. apply N.eqb_eq in L.
    destruct (mapM (decode false t) (chunks s (N.to_nat (rd32 bs)) (skipn 4 bs))) as [vs|] eqn:M; [|discriminate].
    inversion D; subst v. cbn [encode].
    pose proof (mapM_length _ _ _ _ _ M) as ML. rewrite chunks_length in ML.
    rewrite (mapM_canon _ _ (decode false t) (encode t) _ _ M).
    + rewrite concat_chunks, ML, N2Nat.id.
      rewrite firstn_all2 by (rewrite skipn_length; unfold len in *; lia).
      apply le32_rd32_skipn; auto. unfold len in L4. lia.
    + intros x v Hx Dx. apply IHt; auto.
      pose proof (chunks_ok s (N.to_nat (rd32 bs)) (skipn 4 bs) (bytes_ok_skipn 4 bs OK)) as CO.
      rewrite Forall_forall in CO. auto.
  - (* dynvec *)
    destruct (parse_dyn bs) as [items|] eqn:P; [|discriminate].
    destruct (mapM (decode false t) items) as [vs|] eqn:M; [|discriminate].
    inversion D; subst v. cbn [encode].
    rewrite (mapM_canon _ _ (decode false t) (encode t) _ _ M).
    + apply parse_dyn_canon; auto.
    + intros x v Hx Dx. apply IHt; auto.
      assert (IO : Forall (fun x => bytes_ok x = true) items).
      { unfold parse_dyn in P. repeat (match type of P with (if ?c then _ else _) = _ => destruct c end; try discriminate).
        - inversion P. constructor.
        - inversion P. apply slices_ok; auto. }
      rewrite Forall_forall in IO. auto.
  - (* table *)
    cbn [andb] in D.
    destruct (parse_dyn bs) as [items|] eqn:P; [|discriminate].
    destruct ((length fs <=? length items)%nat && (false || (length items =? length fs)%nat)) eqn:C; [|discriminate].
    apply andb_true_iff in C. destruct C as [_ C]. cbn [orb] in C. apply Nat.eqb_eq in C.
    rewrite <- C, firstn_all in D.
    destruct (map2M (decode false) fs items) as [vs|] eqn:M; [|discriminate].
    inversion D; subst v. cbn [encode].
    rewrite (map2M_canon (fun x => bytes_ok x = true) (decode false) encode fs) with (xs := items); auto.
    + apply parse_dyn_canon; auto.
    + eapply Forall_impl; [|exact H]. cbv beta. intros f Hf x v Px Dx. apply Hf; auto.
    + unfold parse_dyn in P. repeat (match type of P with (if ?c then _ else _) = _ => destruct c end; try discriminate).
      * inversion P. constructor.
      * inversion P. apply slices_ok; auto.
  - (* option *)
    destruct bs as [|b bs]; [inversion D; reflexivity|].
    destruct (decode false t (b :: bs)) as [v'|] eqn:E; [|discriminate].
    inversion D; subst v. cbn [encode]. apply IHt; auto.
  - (* union *)
    destruct (len bs <? 4) eqn:L4; [discriminate|]. apply N.ltb_ge in L4.
    rewrite find_arm_lookup in D.
    destruct (lookup_arm (rd32 bs) arms) as [t|] eqn:E; [|discriminate].
    destruct (decode false t (skipn 4 bs)) as [v'|] eqn:E2; [|discriminate].
    inversion D; subst v. cbn [encode]. rewrite find_arm_lookup, E.
    pose proof (lookup_arm_In _ _ _ E) as I. rewrite Forall_forall in H.
    pose proof (H _ I (skipn 4 bs) v' E2 (bytes_ok_skipn 4 bs OK)) as R. cbn [snd] in R. rewrite R.
    apply le32_rd32_skipn; auto. unfold len in L4. lia.
Qed.

(* ---- compatible mode ------------------------------------------------------ *)
Lemma mapM_mono : forall A B (d1 d2 : A -> option B) xs vs,
  (forall x v, d1 x = Some v -> d2 x = Some v) -> mapM d1 xs = Some vs -> mapM d2 xs = Some vs.
Proof.
  induction xs as [|x xs IH]; intros vs Hd M; cbn in *; [exact M|].
  destruct (d1 x) as [v|] eqn:E; [|discriminate]. rewrite (Hd x v E).
  destruct (mapM d1 xs) as [r|] eqn:E2; [|discriminate]. rewrite (IH r Hd eq_refl). exact M.
Qed.
Lemma map2M_mono : forall (d1 d2 : ty -> list N -> option val) fs,
  Forall (fun f => forall x v, d1 f x = Some v -> d2 f x = Some v) fs ->
  forall xs vs, map2M d1 fs xs = Some vs -> map2M d2 fs xs = Some vs.
Proof.
  intros d1 d2 fs H. induction H as [|f fs Hf Hfs IH]; intros xs vs M.
  - exact M.
  - destruct xs as [|x xs]; [discriminate|]. cbn in *.
    destruct (d1 f x) as [v|] eqn:E; [|discriminate]. rewrite (Hf x v E).
    destruct (map2M d1 fs xs) as [r|] eqn:E2; [|discriminate]. rewrite (IH xs r E2). exact M.
Qed.

Lemma parse_dyn_hdr : forall bs items, parse_dyn bs = Some items -> 4 <= len bs /\ rd32 bs = len bs.
Proof.
  intros bs items P. unfold parse_dyn in P.
  destruct (len bs <? 4) eqn:L4; [discriminate|]. apply N.ltb_ge in L4.
  destruct (rd32 bs =? len bs) eqn:ET; [|discriminate]. apply N.eqb_eq in ET. tauto.
Qed.

(* whatever the strict reader accepts, the compatible reader accepts with the same value *)
Theorem mol_strict_compat : forall t bs v, decode false t bs = Some v -> decode true t bs = Some v.
Proof.
  induction t using ty_ind'; intros bs v D; cbn [decode] in *.
  - exact D.
  - destruct (fixed_size t); [|discriminate]. destruct (length bs =? n * n0)%nat; [|discriminate].
    destruct (mapM (decode false t) _) as [vs|] eqn:M; [|discriminate].
    rewrite (mapM_mono _ _ _ _ _ _ IHt M). exact D.
  - destruct (mapM fixed_size fs) as [ss|]; [|discriminate].
    destruct (length bs =? _)%nat; [|discriminate].
    destruct (map2M (decode false) fs _) as [vs|] eqn:M; [|discriminate].
    rewrite (map2M_mono _ _ _ H _ _ M). exact D.
  - destruct (fixed_size t); [|discriminate]. destruct (len bs <? 4); [discriminate|].
    destruct (len bs =? _); [|discriminate].
    destruct (mapM (decode false t) _) as [vs|] eqn:M; [|discriminate].
    rewrite (mapM_mono _ _ _ _ _ _ IHt M). exact D.
  - destruct (parse_dyn bs) as [items|]; [|discriminate].
    destruct (mapM (decode false t) _) as [vs|] eqn:M; [|discriminate].
    rewrite (mapM_mono _ _ _ _ _ _ IHt M). exact D.
  - cbn [andb orb] in *.
    destruct (parse_dyn bs) as [items|] eqn:P; [|discriminate].
    destruct ((length fs <=? length items)%nat && (length items =? length fs)%nat) eqn:C; [|discriminate].
    apply andb_true_iff in C. destruct C as [C1 C2]. rewrite C1. cbn [andb].
    destruct (map2M (decode false) fs _) as [vs|] eqn:M; [|discriminate].
    destruct (length fs =? 0)%nat eqn:K0.
    + apply Nat.eqb_eq in K0. destruct fs; [|discriminate]. cbn in M.
      apply parse_dyn_hdr in P. destruct P as [P1 P2].
      apply N.leb_le in P1. apply N.eqb_eq in P2. rewrite P1, P2. cbn [andb].
      inversion M; subst vs. exact D.
    + rewrite (map2M_mono _ _ _ H _ _ M). exact D.
  - destruct bs; [exact D|]. destruct (decode false t _) as [v'|] eqn:E; [|discriminate].
    rewrite (IHt _ _ E). exact D.
  - destruct (len bs <? 4); [discriminate|]. rewrite find_arm_lookup in *.
    destruct (lookup_arm _ arms) as [t|] eqn:E; [|discriminate].
    destruct (decode false t _) as [v'|] eqn:E2; [|discriminate].
    pose proof (lookup_arm_In _ _ _ E) as I. rewrite Forall_forall in H.
    pose proof (H _ I _ _ E2) as R. cbn [snd] in R. rewrite R. exact D.
Qed.

(* a table followed by extra fields: the compatible reader returns exactly the
   declared fields, the strict reader rejects *)
Theorem mol_compat_table_prefix : forall fs vs extras,
  forallb wf fs = true -> forall2b has_type fs vs = true ->
  len (dyn_frame (map2 encode fs vs ++ extras)) < 4294967296 ->
  decode true (TTable fs) (dyn_frame (map2 encode fs vs ++ extras)) = Some (VSeq vs) /\
  (extras <> [] -> decode false (TTable fs) (dyn_frame (map2 encode fs vs ++ extras)) = None).
Proof.
  intros fs vs extras W HT B.
  pose proof (dyn_frame_length (map2 encode fs vs ++ extras)) as DL.
  rewrite <- length_concat_sumN, concat_app, len_app in DL.
  assert (FA : Forall (fun t => wf t = true -> forall c v, has_type t v = true ->
                 len (encode t v) < 4294967296 -> decode c t (encode t v) = Some v) fs).
  { rewrite Forall_forall. intros t _. apply mol_roundtrip. }
  destruct (map2M_roundtrip true fs FA W vs HT) as [E1 E2]; [lia|].
  cbn [decode]. rewrite (parse_dyn_frame _ B). split.
  - destruct (length fs =? 0)%nat eqn:K0.
    + apply Nat.eqb_eq in K0. destruct fs; [|discriminate]. destruct vs; [|discriminate].
      cbn [andb map2 app].
      assert (R0 : rd32 (dyn_frame extras) = len (dyn_frame extras)).
      { unfold dyn_frame at 1. rewrite rd32_le32.
        - rewrite dyn_frame_length, <- length_concat_sumN. lia.
        - cbn [map2 app] in B. rewrite dyn_frame_length, <- length_concat_sumN in B. lia. }
      rewrite R0, N.eqb_refl. cbn [map2 app] in DL.
      replace (4 <=? len (dyn_frame extras)) with true by (symmetry; apply N.leb_le; lia). reflexivity.
    + cbn [andb orb]. rewrite app_length, E2.
      replace (length fs <=? length fs + length extras)%nat with true by (symmetry; apply Nat.leb_le; lia).
      cbn [andb]. rewrite <- E2 at 1. rewrite firstn_app, firstn_all, Nat.sub_diag. cbn [firstn].
      rewrite app_nil_r, E1. reflexivity.
  - intros NE. cbn [andb orb]. rewrite app_length, E2.
    replace (length fs + length extras =? length fs)%nat with false; [rewrite andb_false_r; reflexivity|].
    symmetry. apply Nat.eqb_neq. destruct extras; [congruence|]. cbn [length]. lia.
Qed.

(* ---- decoding is bounded by its input (C16) ------------------------------- *)
Lemma parse_dyn_length : forall bs items, parse_dyn bs = Some items ->
  4 + 4 * N.of_nat (length items) + len (concat items) = len bs.
Proof.
  intros bs items P. unfold parse_dyn in P.
  destruct (len bs <? 4) eqn:L4; [discriminate|]. apply N.ltb_ge in L4.
  destruct (rd32 bs =? len bs) eqn:ET; [|discriminate]. apply N.eqb_eq in ET. cbn [negb] in P.
  destruct (len bs =? 4) eqn:E4.
  - apply N.eqb_eq in E4. inversion P; subst items. cbn. unfold len in *. cbn. lia.
  - apply N.eqb_neq in E4.
    destruct (len bs <? 8) eqn:L8; [discriminate|]. apply N.ltb_ge in L8.
    set (off1 := rd32 (skipn 4 bs)) in *.
    destruct (off1 mod 4 =? 0) eqn:M4; [|discriminate]. apply N.eqb_eq in M4.
    destruct (off1 <? 8) eqn:O8; [discriminate|]. apply N.ltb_ge in O8. cbn [negb orb] in P.
    destruct (len bs <? off1) eqn:LO; [discriminate|]. apply N.ltb_ge in LO.
    set (n := N.to_nat (off1 / 4 - 1)) in *.
    assert (Hn : (4 + 4 * n)%nat = N.to_nat off1) by (unfold n; lia).
    destruct n as [|n'] eqn:En; [lia|].
    cbn [rd_words] in P. fold off1 in P.
    set (W := rd_words n' (skipn 4 (skipn 4 bs))) in *.
    destruct (monotone ((off1 :: W) ++ [rd32 bs])) eqn:MO; [|discriminate].
    assert (PI : items = slices (map N.to_nat (off1 :: W ++ [rd32 bs])) bs)
      by (injection P as PI; symmetry; exact PI).
    clear P. subst items.
    change ((off1 :: W) ++ [rd32 bs]) with (off1 :: W ++ [rd32 bs]) in *.
    assert (TL : rd32 bs <= len bs) by lia.
    rewrite (concat_slices_N W off1 (rd32 bs) bs MO TL).
    rewrite slices_length, map_length. cbn [length]. rewrite app_length.
    assert (forall k b, length (rd_words k b) = k) as RL by (induction k; intros; cbn; auto).
    unfold W. rewrite RL. cbn [length].
    unfold len in *. rewrite firstn_length, skipn_length. lia.
Qed.

Lemma mapM_bounded : forall (dec : list N -> option val) (enc : val -> list N) xs vs,
  mapM dec xs = Some vs ->
  (forall x v, In x xs -> dec x = Some v -> len (enc v) <= len x) ->
  len (concat (map enc vs)) <= len (concat xs) /\ length vs = length xs.
Proof.
  induction xs as [|x xs IH]; intros vs M Hb; cbn in M.
  - inversion M. split; [cbn; lia|reflexivity].
  - destruct (dec x) as [v|] eqn:E; [|discriminate].
    destruct (mapM dec xs) as [r|] eqn:E2; [|discriminate]. inversion M; subst.
    destruct (IH r eq_refl) as [I1 I2]; [intros; apply Hb; auto; right; assumption|].
    cbn [map concat length]. rewrite !len_app. pose proof (Hb x v (or_introl eq_refl) E). split; lia.
Qed.

Lemma map2M_bounded : forall (dec : ty -> list N -> option val) (enc : ty -> val -> list N) fs,
  Forall (fun f => forall x v, dec f x = Some v -> len (enc f v) <= len x) fs ->
  forall xs vs, map2M dec fs xs = Some vs ->
  len (concat (map2 enc fs vs)) <= len (concat xs) /\ length (map2 enc fs vs) = length xs /\ length xs = length fs.
Proof.
  intros dec enc fs H. induction H as [|f fs Hf Hfs IH]; intros xs vs M.
  - destruct xs; cbn in M; inversion M. cbn. repeat split; lia.
  - destruct xs as [|x xs]; [discriminate|]. cbn in M.
    destruct (dec f x) as [v|] eqn:E; [|discriminate].
    destruct (map2M dec fs xs) as [r|] eqn:E2; [|discriminate]. inversion M; subst.
    destruct (IH xs r E2) as (I1 & I2 & I3). cbn [map2 concat length]. rewrite !len_app.
    pose proof (Hf x v E). repeat split; lia.
Qed.

Lemma len_firstn_le : forall n (bs : list N), len (firstn n bs) <= len bs.
Proof. intros. unfold len. rewrite firstn_length. lia. Qed.

Lemma len_concat_firstn : forall k (l : list (list N)), len (concat (firstn k l)) <= len (concat l).
Proof.
  induction k as [|k IH]; intros l; [cbn; unfold len; cbn; lia|].
  destruct l as [|x l]; [cbn; lia|]. cbn [firstn concat]. rewrite !len_app. specialize (IH l). lia.
Qed.

(* the value a reader accepts (strict or compatible) never encodes to more
   bytes than the input had: nothing is read beyond the declared sizes *)
Theorem mol_decode_bounded : forall t c bs v, decode c t bs = Some v -> len (encode t v) <= len bs.
Proof.
  induction t using ty_ind'; intros c bs v D; cbn [decode] in D.
  - destruct bs as [|b [|? ?]]; try discriminate. inversion D. cbn. lia.
  - destruct (fixed_size t) as [s|]; [|discriminate].
    destruct (length bs =? n * s)%nat; [|discriminate].
    destruct (mapM (decode c t) (chunks s n bs)) as [vs|] eqn:M; [|discriminate].
    inversion D; subst v. cbn [encode].
    destruct (mapM_bounded (decode c t) (encode t) _ _ M) as [B _]; [intros; eapply IHt; eauto|].
    rewrite concat_chunks in B. pose proof (len_firstn_le (n * s) bs). lia.
  - destruct (mapM fixed_size fs) as [ss|]; [|discriminate].
    destruct (length bs =? _)%nat; [|discriminate].
    destruct (map2M (decode c) fs (split_sizes ss bs)) as [vs|] eqn:M; [|discriminate].
    inversion D; subst v. cbn [encode].
    destruct (map2M_bounded (decode c) encode fs) with (xs := split_sizes ss bs) (vs := vs) as [B _]; auto.
    { eapply Forall_impl; [|exact H]. cbv beta. intros f Hf x v Dx. eapply Hf; eauto. }
    rewrite concat_split_sizes in B. pose proof (len_firstn_le (fold_right Nat.add 0%nat ss) bs). lia.
  - destruct (fixed_size t) as [s|]; [|discriminate].
    destruct (len bs <? 4) eqn:L4; [discriminate|]. apply N.ltb_ge in L4.
    destruct (len bs =? _); [|discriminate].
    destruct (mapM (decode c t) _) as [vs|] eqn:M; [|discriminate].
    inversion D; subst v. cbn [encode].
    destruct (mapM_bounded (decode c t) (encode t) _ _ M) as [B _]; [intros; eapply IHt; eauto|].
    rewrite concat_chunks in B.
    pose proof (len_firstn_le (N.to_nat (rd32 bs) * s) (skipn 4 bs)).
    rewrite len_app. unfold len in *. rewrite le32_length. rewrite skipn_length in *. lia.
  - destruct (parse_dyn bs) as [items|] eqn:P; [|discriminate].
    destruct (mapM (decode c t) items) as [vs|] eqn:M; [|discriminate].
    inversion D; subst v. cbn [encode].
    destruct (mapM_bounded (decode c t) (encode t) _ _ M) as [B BL]; [intros; eapply IHt; eauto|].
    rewrite dyn_frame_length, <- length_concat_sumN, map_length.
    pose proof (parse_dyn_length _ _ P). lia.
  - destruct (c && (length fs =? 0)%nat) eqn:C0.
    + destruct ((4 <=? len bs) && (rd32 bs =? len bs)) eqn:C1; [|discriminate].
      apply andb_true_iff in C1. destruct C1 as [C1 _]. apply N.leb_le in C1.
      inversion D; subst v. apply andb_true_iff in C0. destruct C0 as [_ C0]. apply Nat.eqb_eq in C0.
      destruct fs; [|discriminate]. cbn. unfold len in *. cbn. lia.
    + destruct (parse_dyn bs) as [items|] eqn:P; [|discriminate].
      destruct ((length fs <=? length items)%nat && _) eqn:C1; [|discriminate].
      apply andb_true_iff in C1. destruct C1 as [C1 _]. apply Nat.leb_le in C1.
      destruct (map2M (decode c) fs (firstn (length fs) items)) as [vs|] eqn:M; [|discriminate].
      inversion D; subst v. cbn [encode].
      destruct (map2M_bounded (decode c) encode fs) with (xs := firstn (length fs) items) (vs := vs) as (B & BL & BL2); auto.
      { eapply Forall_impl; [|exact H]. cbv beta. intros f Hf x v Dx. eapply Hf; eauto. }
      rewrite dyn_frame_length, <- length_concat_sumN, BL, BL2.
      pose proof (parse_dyn_length _ _ P). pose proof (len_concat_firstn (length fs) items). lia.
  - destruct bs as [|b bs]; [inversion D; cbn; lia|].
    destruct (decode c t (b :: bs)) as [v'|] eqn:E; [|discriminate].
    inversion D; subst v. cbn [encode]. eapply IHt; eauto.
  - destruct (len bs <? 4) eqn:L4; [discriminate|]. apply N.ltb_ge in L4.
    rewrite find_arm_lookup in D.
    destruct (lookup_arm (rd32 bs) arms) as [t|] eqn:E; [|discriminate].
    destruct (decode c t (skipn 4 bs)) as [v'|] eqn:E2; [|discriminate].
    inversion D; subst v. cbn [encode]. rewrite find_arm_lookup, E.
    pose proof (lookup_arm_In _ _ _ E) as I. rewrite Forall_forall in H.
    pose proof (H _ I c (skipn 4 bs) v' E2) as R. cbn [snd] in R.
    rewrite len_app. unfold len in *. rewrite le32_length. rewrite skipn_length in R. lia.
Qed.

(* every item slice the header parser hands to a field accessor lies inside the input *)
Theorem accepted_offsets_in_range : forall bs items, parse_dyn bs = Some items ->
  len (concat items) <= len bs /\ Forall (fun x => len x <= len bs) items.
Proof.
  intros bs items P. pose proof (parse_dyn_length _ _ P) as L. split; [lia|].
  rewrite Forall_forall. intros x Hx. pose proof (length_concat_In items x Hx). unfold len in *. lia.
Qed.
