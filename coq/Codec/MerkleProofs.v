(* Codec/MerkleProofs.v — binding theorems for the CBMT root and the content hashes *)
From Coq Require Import List NArith Bool Arith Lia.
From CKB Require Import Codec.Molecule Codec.MoleculeProofs Codec.Merkle.
Import ListNotations.

Section CBMT.
  Variable T : Type.
  Variable merge : T -> T -> T.
  Variable dflt : T.
  Hypothesis T_eq_dec : forall x y : T, {x = y} + {x <> y}.
  Notation collision := (merge_collision T merge).

  Lemma merge_inj : forall a b c d, merge a b = merge c d -> (a = c /\ b = d) \/ collision.
  Proof.
    intros a b c d E. destruct (T_eq_dec a c) as [->|N1]; [destruct (T_eq_dec b d) as [->|N2]|].
    - left. tauto.
    - right. exists c, b, c, d. tauto.
    - right. exists a, b, c, d. tauto.
  Qed.

  Lemma reduce_enough : forall fuel q, q <> [] -> (length q <= S fuel)%nat -> exists x, reduce T merge fuel q = Some x.
  Proof.
    induction fuel as [|f IH]; intros q NE L.
    - destruct q as [|x [|y r]]; [congruence|eexists; reflexivity|cbn in L; lia].
    - destruct q as [|x [|y r]]; [congruence|eexists; reflexivity|].
      cbn [reduce]. apply IH.
      + destruct r; discriminate.
      + rewrite app_length. cbn in *. lia.
  Qed.

  Lemma reduce_binds : forall fuel q1 q2 x,
    length q1 = length q2 -> reduce T merge fuel q1 = Some x -> reduce T merge fuel q2 = Some x ->
    q1 = q2 \/ collision.
  Proof.
    induction fuel as [|f IH]; intros q1 q2 x L R1 R2.
    - destruct q1 as [|a1 [|b1 r1]]; destruct q2 as [|a2 [|b2 r2]]; cbn in *; try discriminate.
      left. congruence.
    - destruct q1 as [|a1 [|b1 r1]]; destruct q2 as [|a2 [|b2 r2]]; cbn in L; try discriminate.
      + cbn in *. left. congruence.
      + cbn [reduce] in R1, R2.
        destruct (IH (r1 ++ [merge b1 a1]) (r2 ++ [merge b2 a2]) x) as [E|C]; auto.
        * rewrite !app_length. cbn. lia.
        * apply app_inj_tail in E. destruct E as [E1 E2].
          destruct (merge_inj _ _ _ _ E2) as [[-> ->]|C]; [left; congruence|right; exact C].
  Qed.

  Lemma pairs_rev_binds : forall n rl1 rl2, (length rl1 <= n)%nat -> length rl1 = length rl2 ->
    (fst (pairs_rev T merge rl1) = fst (pairs_rev T merge rl2) ->
     snd (pairs_rev T merge rl1) = snd (pairs_rev T merge rl2) -> rl1 = rl2 \/ collision) /\
    length (fst (pairs_rev T merge rl1)) = length (fst (pairs_rev T merge rl2)) /\
    (snd (pairs_rev T merge rl1) = None <-> snd (pairs_rev T merge rl2) = None).
  Proof.
    induction n as [|n IH]; intros rl1 rl2 B L.
    - destruct rl1; [|cbn in B; lia]. destruct rl2; [|discriminate]. cbn. tauto.
    - destruct rl1 as [|a1 [|b1 r1]]; destruct rl2 as [|a2 [|b2 r2]]; cbn in L; try discriminate.
      + cbn. tauto.
      + cbn. repeat split; try discriminate. intros _ E. left. congruence.
      + cbn [pairs_rev].
        destruct (IH r1 r2) as (I1 & I2 & I3); [cbn in B; lia|lia|].
        destruct (pairs_rev T merge r1) as [q1 o1]. destruct (pairs_rev T merge r2) as [q2 o2].
        cbn [fst snd] in *. repeat split.
        * intros E1 E2. inversion E1 as [[EM EQ]].
          destruct (I1 EQ E2) as [->|C]; [|right; exact C].
          destruct (merge_inj _ _ _ _ EM) as [[-> ->]|C]; [left; reflexivity|right; exact C].
        * cbn. lia.
        * apply I3.
        * apply I3.
  Qed.

  Lemma queue0_length_pos : forall l, l <> [] -> queue0 T merge l <> [] /\ (length (queue0 T merge l) <= length l)%nat.
  Proof.
    intros l NE. unfold queue0.
    assert (G : forall n rl, (length rl <= n)%nat ->
               (rl <> [] -> fst (pairs_rev T merge rl) <> [] \/ snd (pairs_rev T merge rl) <> None) /\
               (length (fst (pairs_rev T merge rl)) + (match snd (pairs_rev T merge rl) with Some _ => 1 | None => 0 end) <= length rl)%nat).
    { induction n as [|n IH]; intros rl B.
      - destruct rl; [|cbn in B; lia]. cbn. split; [congruence|lia].
      - destruct rl as [|a [|b r]].
        + cbn. split; [congruence|lia].
        + cbn. split; [right; discriminate|lia].
        + cbn [pairs_rev]. destruct (IH r) as [_ I2]; [cbn in B; lia|].
          destruct (pairs_rev T merge r) as [q o]. cbn [fst snd length] in *. split; [left; discriminate|lia]. }
    destruct (G (length (rev l)) (rev l) (le_n _)) as [G1 G2].
    rewrite rev_length in G2.
    destruct (pairs_rev T merge (rev l)) as [q o]. cbn [fst snd] in *.
    assert (rev l <> []) as NR by (intro E; apply NE; rewrite <- (rev_involutive l), E; reflexivity).
    specialize (G1 NR). destruct o; cbn [length]; split; try discriminate; try lia.
    destruct G1; congruence.
  Qed.

  (* two leaf lists of the same length with the same root are the same list,
     or the run exhibits two different pairs with the same merge *)
  Theorem cbmt_root_binds : forall l1 l2,
    length l1 = length l2 -> l1 <> [] ->
    cbmt_root T merge dflt l1 = cbmt_root T merge dflt l2 -> l1 = l2 \/ collision.
  Proof.
    intros l1 l2 L NE E.
    assert (NE2 : l2 <> []) by (destruct l2; [destruct l1; [congruence|discriminate]|discriminate]).
    destruct (queue0_length_pos l1 NE) as [Q1 B1]. destruct (queue0_length_pos l2 NE2) as [Q2 B2].
    destruct (reduce_enough (length l1) (queue0 T merge l1) Q1) as [x1 R1]; [lia|].
    destruct (reduce_enough (length l2) (queue0 T merge l2) Q2) as [x2 R2]; [lia|].
    unfold cbmt_root in E. destruct l1 as [|a1 r1]; [congruence|]. destruct l2 as [|a2 r2]; [congruence|].
    rewrite R1, R2 in E. subst x2. rewrite <- L in R2.
    destruct (pairs_rev_binds (length (rev (a1 :: r1))) (rev (a1 :: r1)) (rev (a2 :: r2))) as (P1 & P2 & P3);
      [lia|rewrite !rev_length; exact L|].
    assert (QL : length (queue0 T merge (a1 :: r1)) = length (queue0 T merge (a2 :: r2))).
    { unfold queue0. destruct (pairs_rev T merge (rev (a1 :: r1))) as [q1 [o1|]];
        destruct (pairs_rev T merge (rev (a2 :: r2))) as [q2 [o2|]]; cbn [fst snd length] in *; try lia.
      - destruct P3 as [_ P3]. specialize (P3 eq_refl). discriminate.
      - destruct P3 as [P3 _]. specialize (P3 eq_refl). discriminate. }
    destruct (reduce_binds _ _ _ _ QL R1 R2) as [EQ|C]; [|right; exact C].
    unfold queue0 in EQ.
    destruct (pairs_rev T merge (rev (a1 :: r1))) as [q1 [o1|]];
      destruct (pairs_rev T merge (rev (a2 :: r2))) as [q2 [o2|]]; cbn [fst snd] in *.
    - inversion EQ; subst. destruct (P1 eq_refl eq_refl) as [ER|C]; [|right; exact C].
      left. rewrite <- (rev_involutive (a1 :: r1)), ER. apply rev_involutive.
    - destruct P3 as [_ P3]. specialize (P3 eq_refl). discriminate.
    - destruct P3 as [P3 _]. specialize (P3 eq_refl). discriminate.
    - subst q2. destruct (P1 eq_refl eq_refl) as [ER|C]; [|right; exact C].
      left. rewrite <- (rev_involutive (a1 :: r1)), ER. apply rev_involutive.
  Qed.
End CBMT.

(* the length hypothesis cannot be dropped: CBMT has no leaf / inner-node
   domain separation, so with an injective (collision-free) merge a single
   leaf equal to an inner node value gives the root of a two-leaf list *)
Lemma cbmt_leaf_node_confusion :
  exists l1 l2 : list mtree, l1 <> l2 /\ cbmt_root mtree MNode MZero l1 = cbmt_root mtree MNode MZero l2 /\
    ~ merge_collision mtree MNode.
Proof.
  exists [MNode (MLeaf 1) (MLeaf 2)], [MLeaf 1; MLeaf 2]. split; [discriminate|]. split; [reflexivity|].
  intros (a & b & c & d & NE & E). inversion E. destruct NE; congruence.
Qed.


Definition encodable (t : ty) (v : val) : Prop :=
  has_type t v = true /\ (len (encode t v) < 4294967296)%N.

Section HashesH.
  Variable D : Type.
  Variable H : list N -> D.


  Lemma encode_inj : forall t v1 v2, wf t = true -> encodable t v1 -> encodable t v2 ->
    encode t v1 = encode t v2 -> v1 = v2.
  Proof.
    intros t v1 v2 W [T1 B1] [T2 B2] E.
    pose proof (mol_roundtrip t W false v1 T1 B1) as R1.
    pose proof (mol_roundtrip t W false v2 T2 B2) as R2.
    rewrite E in R1. congruence.
  Qed.

  (* a hash of the encoding commits to the value, up to an explicit collision *)
  Theorem hash_binds : forall t v1 v2, wf t = true -> encodable t v1 -> encodable t v2 ->
    hash_of D H t v1 = hash_of D H t v2 -> v1 = v2 \/ hash_collision D H.
  Proof.
    intros t v1 v2 W E1 E2 HE. unfold hash_of in HE.
    destruct (list_eq_dec N.eq_dec (encode t v1) (encode t v2)) as [E|NE].
    - left. eapply encode_inj; eauto.
    - right. exists (encode t v1), (encode t v2). tauto.
  Qed.

  (* the transaction hash covers the raw transaction and nothing else *)
  Theorem tx_hash_covers_raw : forall t_raw raw1 w1 raw2 w2, wf t_raw = true ->
    encodable t_raw raw1 -> encodable t_raw raw2 ->
    tx_hash D H t_raw (VSeq [raw1; w1]) = tx_hash D H t_raw (VSeq [raw2; w2]) ->
    raw1 = raw2 \/ hash_collision D H.
  Proof. intros. eapply hash_binds; eauto. Qed.

  Theorem tx_hash_ignores_witnesses : forall t_raw raw w1 w2,
    tx_hash D H t_raw (VSeq [raw; w1]) = tx_hash D H t_raw (VSeq [raw; w2]).
  Proof. reflexivity. Qed.

  Theorem witness_hash_covers_all : forall t_tx tx1 tx2, wf t_tx = true ->
    encodable t_tx tx1 -> encodable t_tx tx2 ->
    witness_hash D H t_tx tx1 = witness_hash D H t_tx tx2 -> tx1 = tx2 \/ hash_collision D H.
  Proof. intros. eapply hash_binds; eauto. Qed.

  Lemma map_hash_binds : forall t vs1 vs2, wf t = true ->
    Forall (encodable t) vs1 -> Forall (encodable t) vs2 ->
    map (hash_of D H t) vs1 = map (hash_of D H t) vs2 -> vs1 = vs2 \/ hash_collision D H.
  Proof.
    intros t vs1 vs2 W F1. revert vs2. induction F1 as [|v1 vs1 E1 F1 IH]; intros vs2 F2 M.
    - destruct vs2; [left; reflexivity|discriminate].
    - destruct vs2 as [|v2 vs2]; [discriminate|]. inversion F2 as [|? ? E2 F2']; subst. cbn [map] in M.
      injection M as M1 M2.
      destruct (hash_binds t v1 v2 W E1 E2 M1) as [->|C]; [|right; exact C].
      destruct (IH vs2 F2' M2) as [->|C]; [left; reflexivity|right; exact C].
  Qed.

End HashesH.

Section Hashes.
  Variable D : Type.
  Variable H : list N -> D.
  Variable mergeD : D -> D -> D.
  Variable zero : D.
  Hypothesis D_eq_dec : forall x y : D, {x = y} + {x <> y}.

  (* the transactions root binds order, content and witnesses of the block's
     transactions: same number of transactions and same root => same list, or
     an explicit hash / merge collision.  (Without the length hypothesis the
     leaf / inner-node confusion of cbmt_leaf_node_confusion applies.) *)
  Theorem txs_root_binds : forall t_raw t_tx txs1 txs2, wf t_tx = true ->
    length txs1 = length txs2 -> txs1 <> [] ->
    Forall (encodable t_tx) txs1 -> Forall (encodable t_tx) txs2 ->
    transactions_root D H mergeD zero t_raw t_tx txs1 = transactions_root D H mergeD zero t_raw t_tx txs2 ->
    txs1 = txs2 \/ hash_collision D H \/ merge_collision D mergeD.
  Proof.
    intros t_raw t_tx txs1 txs2 W L NE F1 F2 R. unfold transactions_root in R.
    assert (NE0 : forall a b : D, [a; b] <> []) by discriminate.
    destruct (cbmt_root_binds D mergeD zero D_eq_dec
                [cbmt_root D mergeD zero (map (tx_hash D H t_raw) txs1); cbmt_root D mergeD zero (map (witness_hash D H t_tx) txs1)]
                [cbmt_root D mergeD zero (map (tx_hash D H t_raw) txs2); cbmt_root D mergeD zero (map (witness_hash D H t_tx) txs2)]
                eq_refl (NE0 _ _) R) as [E|C]; [|tauto].
    inversion E as [[E1 E2]].
    assert (NE' : map (witness_hash D H t_tx) txs1 <> []) by (destruct txs1; [congruence|discriminate]).
    assert (LM : length (map (witness_hash D H t_tx) txs1) = length (map (witness_hash D H t_tx) txs2))
      by (rewrite !map_length; exact L).
    destruct (cbmt_root_binds D mergeD zero D_eq_dec _ _ LM NE' E2) as [EW|C]; [|tauto].
    destruct (map_hash_binds D H t_tx txs1 txs2 W F1 F2 EW) as [->|C]; tauto.
  Qed.
End Hashes.

(* proposals hash: concatenation of fixed-width ids is injective *)
Lemma concat_fixed_inj : forall k (l1 l2 : list (list N)), (0 < k)%nat ->
    Forall (fun x => length x = k) l1 -> Forall (fun x => length x = k) l2 ->
    concat l1 = concat l2 -> l1 = l2.
  Proof.
    intros k l1 l2 K F1. revert l2. induction F1 as [|x l1 Hx F1 IH]; intros l2 F2 E.
    - destruct l2 as [|y l2]; [reflexivity|]. inversion F2; subst. cbn in E.
      destruct y; [cbn in K; lia|discriminate].
    - destruct l2 as [|y l2].
      + cbn in E. destruct x; [cbn in Hx; lia|discriminate].
      + inversion F2; subst. cbn in E.
        assert (x = y /\ concat l1 = concat l2) as [-> E2].
        { assert (EL : length x = length y) by congruence. clear - E EL.
          revert y EL E. induction x as [|a x IHx]; intros [|b y] EL E; cbn in *; try discriminate.
          - tauto.
          - injection E as -> E. destruct (IHx y) as [-> ->]; auto. }
        f_equal. apply IH; auto.
  Qed.
