(* Codec/SchemaWf.v — the schema generated from util/gen-types/schemas/*.mol
   (gen/Schema.v, rewritten by tools/mol2v.py on every run) is well-formed, and
   agrees with the constants of the generated Rust readers.  Everything here is
   by computation, so an edit of a .mol file or of src/generated/*.rs re-checks
   the instantiation of the codec theorems. *)
From Coq Require Import List NArith Bool Arith String.
From CKB Require Import Codec.Molecule gen.Schema.
Import ListNotations.

Definition total_size_ok (p : ty * nat) : bool :=
  match fixed_size (fst p) with Some s => Nat.eqb s (snd p) | None => false end.
Definition field_count_ok (p : ty * nat) : bool :=
  match fst p with
  | TStruct fs | TTable fs => Nat.eqb (List.length fs) (snd p)
  | _ => false
  end.
Definition item_size_ok (p : ty * nat) : bool :=
  match fst p with
  | TFixVec t => match fixed_size t with Some s => Nat.eqb s (snd p) | None => false end
  | _ => false
  end.
Fixpoint listN_eqb (a b : list N) : bool :=
  match a, b with
  | [], [] => true
  | x :: a', y :: b' => N.eqb x y && listN_eqb a' b'
  | _, _ => false
  end.
Definition union_ids_ok (p : ty * list N) : bool :=
  match fst p with
  | TUnion arms => listN_eqb (map fst arms) (snd p)
  | _ => false
  end.

Lemma schema_wf : forallb (fun p => wf (snd p)) schema = true.
Proof. vm_compute. reflexivity. Qed.

Lemma schema_nonempty : (100 <=? List.length schema)%nat = true.
Proof. vm_compute. reflexivity. Qed.

Lemma schema_matches_generated_readers :
  forallb total_size_ok rust_total_sizes = true /\
  forallb field_count_ok rust_field_counts = true /\
  forallb item_size_ok rust_item_sizes = true /\
  forallb union_ids_ok rust_union_ids = true.
Proof. vm_compute. repeat split; reflexivity. Qed.

(* every schema type is well-formed: usable form *)
Lemma schema_wf_In : forall n t, In (n, t) schema -> wf t = true.
Proof.
  intros n t H. pose proof schema_wf as W. rewrite forallb_forall in W. exact (W (n, t) H).
Qed.

Lemma schema_has_block_types :
  In ("Block"%string, T_Block) schema /\ In ("Transaction"%string, T_Transaction) schema /\
  In ("Header"%string, T_Header) schema /\ In ("Script"%string, T_Script) schema /\
  In ("CellOutput"%string, T_CellOutput) schema /\ In ("RelayMessage"%string, T_RelayMessage) schema /\
  In ("SyncMessage"%string, T_SyncMessage) schema.
Proof. unfold schema. repeat split; cbn; tauto. Qed.
