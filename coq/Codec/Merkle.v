(* Codec/Merkle.v — model of the complete binary merkle tree root as computed
   by merkle-cbt 0.3.2 `CBMT::build_merkle_root` (the queue algorithm), and of
   the content hashes of util/gen-types/src/extension/calc_hash.rs over an
   abstract hash function.  Model only. *)
From Coq Require Import List NArith Bool.
From CKB Require Import Codec.Molecule.
Import ListNotations.

Section CBMT.
  Variable T : Type.
  Variable merge : T -> T -> T.
  Variable dflt : T.

  (* leaves.rchunks_exact(2): pairs taken from the right end; argument is the
     reversed leaf list; result: the queue in push_back order and the
     remainder (the first leaf when the count is odd) *)
  Fixpoint pairs_rev (rl : list T) : list T * option T :=
    match rl with
    | [] => ([], None)
    | [x] => ([], Some x)
    | r :: l :: rest => let '(q, o) := pairs_rev rest in (merge l r :: q, o)
    end.

  Definition queue0 (leaves : list T) : list T :=
    let '(q, o) := pairs_rev (rev leaves) in
    match o with Some x => x :: q | None => q end.

  (* while queue.len() > 1 { right = pop_front; left = pop_front; push_back(merge(left, right)) } *)
  Fixpoint reduce (fuel : nat) (q : list T) : option T :=
    match q with
    | [] => None
    | [x] => Some x
    | r :: l :: rest => match fuel with
                        | O => None
                        | S f => reduce f (rest ++ [merge l r])
                        end
    end.

  Definition cbmt_root (leaves : list T) : T :=
    match leaves with
    | [] => dflt
    | _ => match reduce (length leaves) (queue0 leaves) with Some x => x | None => dflt end
    end.

  Definition merge_collision : Prop :=
    exists a b c d, (a <> c \/ b <> d) /\ merge a b = merge c d.
End CBMT.

(* ---- content hashes over an abstract hash -------------------------------- *)
Section Hashes.
  Variable D : Type.                      (* digests *)
  Variable H : list N -> D.               (* blake2b_256 with the CKB personalisation *)
  Variable mergeD : D -> D -> D.          (* MergeByte32::merge *)
  Variable zero : D.

  Definition hash_collision : Prop := exists x y : list N, x <> y /\ H x = H y.

  (* RawTransactionReader::calc_tx_hash / TransactionReader::calc_witness_hash
     / HeaderReader::calc_header_hash: hash of the molecule encoding *)
  Definition hash_of (t : ty) (v : val) : D := H (encode t v).

  (* a transaction value is VSeq [raw; witnesses] *)
  Definition tx_raw (tx : val) : val := match tx with VSeq (raw :: _) => raw | _ => VSeq [] end.
  Definition tx_hash (t_raw : ty) (tx : val) : D := hash_of t_raw (tx_raw tx).
  Definition witness_hash (t_tx : ty) (tx : val) : D := hash_of t_tx tx.

  (* BlockView::calc_transactions_root *)
  Definition transactions_root (t_raw t_tx : ty) (txs : list val) : D :=
    cbmt_root D mergeD zero
      [cbmt_root D mergeD zero (map (tx_hash t_raw) txs);
       cbmt_root D mergeD zero (map (witness_hash t_tx) txs)].

  (* ProposalShortIdVecReader::calc_proposals_hash: zero when empty, else the
     hash of the concatenated ids *)
  Definition proposals_hash (ids : list (list N)) : D :=
    match ids with [] => zero | _ => H (concat ids) end.
End Hashes.

(* ---- symbolic instance used by the correspondence check ------------------ *)
Inductive mtree := MLeaf (n : N) | MNode (l r : mtree) | MZero.
Fixpoint mtree_eqb (a b : mtree) : bool :=
  match a, b with
  | MLeaf x, MLeaf y => N.eqb x y
  | MNode a1 a2, MNode b1 b2 => mtree_eqb a1 b1 && mtree_eqb a2 b2
  | MZero, MZero => true
  | _, _ => false
  end.
(* the harness runs merkle_cbt::CBMT with a symbolic merge and prints the
   resulting term *)
Definition check_cbmt (c : N * mtree) : bool :=
  mtree_eqb (cbmt_root mtree MNode MZero (map MLeaf (map N.of_nat (seq 0 (N.to_nat (fst c)))))) (snd c).
