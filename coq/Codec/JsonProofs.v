(* Codec/JsonProofs.v — round trip and canonical form of the JSON uint codecs *)
From Coq Require Import List NArith ZArith Bool Arith Lia.
From CKB Require Import Codec.Json.
Import ListNotations.
Local Open Scope N_scope.
Arguments N.mul : simpl never.
Arguments N.add : simpl never.
Arguments N.div : simpl never.
Arguments N.modulo : simpl never.
Arguments N.pow : simpl never.

Lemma digit_val_hex_digit : forall m, m < 16 -> digit_val (hex_digit m) = Some m.
Proof.
  intros m H. unfold hex_digit, digit_val.
  destruct (m <? 10) eqn:E; [apply N.ltb_lt in E|apply N.ltb_ge in E].
  - replace (48 <=? 48 + m) with true by (symmetry; apply N.leb_le; lia).
    replace (48 + m <=? 57) with true by (symmetry; apply N.leb_le; lia). cbn [andb]. f_equal. lia.
  - replace (87 + m <=? 57) with false by (symmetry; apply N.leb_gt; lia). rewrite andb_false_r.
    replace (97 <=? 87 + m) with true by (symmetry; apply N.leb_le; lia).
    replace (87 + m <=? 102) with true by (symmetry; apply N.leb_le; lia). cbn [andb]. f_equal. lia.
Qed.

Lemma hex_digit_lower : forall m, m < 16 -> lower_hex (hex_digit m) = true.
Proof.
  intros m H. unfold hex_digit, lower_hex.
  destruct (m <? 10) eqn:E; [apply N.ltb_lt in E|apply N.ltb_ge in E].
  - replace (48 <=? 48 + m) with true by (symmetry; apply N.leb_le; lia).
    replace (48 + m <=? 57) with true by (symmetry; apply N.leb_le; lia). reflexivity.
  - replace (97 <=? 87 + m) with true by (symmetry; apply N.leb_le; lia).
    replace (87 + m <=? 102) with true by (symmetry; apply N.leb_le; lia). apply orb_true_r.
Qed.

Lemma hex_digit_48 : forall m, m < 16 -> hex_digit m = 48 -> m = 0.
Proof. intros m H E. unfold hex_digit in E. destruct (m <? 10) eqn:L; [|apply N.ltb_ge in L]; lia. Qed.

Lemma hex_digit_not_sign : forall m, m < 16 -> (hex_digit m =? 43) || (hex_digit m =? 45) = false.
Proof.
  intros m H. unfold hex_digit. destruct (m <? 10) eqn:L; [apply N.ltb_lt in L|apply N.ltb_ge in L];
    apply orb_false_iff; split; apply N.eqb_neq; lia.
Qed.

Ltac Zify.zify_post_hook ::= Z.to_euclidean_division_equations.

Lemma hex_digits_spec : forall f n acc, n < 16 ^ N.of_nat f -> (0 < f)%nat ->
  exists k m rest,
    hex_digits f n acc = hex_digit m :: rest /\ m < 16 /\ (m = 0 -> n = 0 /\ rest = acc) /\
    n < 16 ^ k /\
    forall bound a, a * 16 ^ k + n < bound ->
      parse_digits bound a (hex_digits f n acc) = parse_digits bound (a * 16 ^ k + n) acc.
Proof.
  induction f as [|f IH]; intros n acc B F; [lia|].
  cbn [hex_digits]. destruct (n / 16 =? 0) eqn:Q; [apply N.eqb_eq in Q|apply N.eqb_neq in Q].
  - assert (n < 16) by lia. exists 1, n, acc. replace (n mod 16) with n by lia.
    repeat split; auto; try lia.
    intros bound a Hb. cbn [parse_digits]. rewrite digit_val_hex_digit by lia.
    replace (16 ^ 1) with 16 in * by reflexivity.
    replace (a * 16 + n <? bound) with true by (symmetry; apply N.ltb_lt; lia). reflexivity.
  - assert (F' : (0 < f)%nat).
    { destruct f; [|lia]. cbn in B. lia. }
    assert (B' : n / 16 < 16 ^ N.of_nat f).
    { rewrite Nat2N.inj_succ, N.pow_succ_r' in B. lia. }
    destruct (IH (n / 16) (hex_digit (n mod 16) :: acc) B' F') as (k & m & rest & E & M & Z & K & P).
    exists (N.succ k), m, rest. rewrite N.pow_succ_r'. repeat split; auto; try lia.
    intros bound a Hb. rewrite P by nia.
    cbn [parse_digits]. rewrite digit_val_hex_digit by lia.
    replace ((a * 16 ^ k + n / 16) * 16 + n mod 16) with (a * (16 * 16 ^ k) + n) by lia.
    replace (a * (16 * 16 ^ k) + n <? bound) with true by (symmetry; apply N.ltb_lt; lia). reflexivity.
Qed.

Theorem json_uint_roundtrip : forall bits n, bits <= 128 -> n < 2 ^ bits ->
  parse_uint bits (print_uint n) = Some n.
Proof.
  intros bits n HB Hn. unfold print_uint.
  assert (B : n < 16 ^ N.of_nat 40).
  { eapply N.lt_le_trans; [exact Hn|]. eapply N.le_trans; [apply (N.pow_le_mono_r 2 bits 128); lia|].
    vm_compute. discriminate. }
  destruct (hex_digits_spec 40 n [] B ltac:(lia)) as (k & m & rest & E & M & Z & K & P).
  specialize (P (2 ^ bits) 0). rewrite E in *. cbn [parse_uint].
  destruct ((hex_digit m =? 48) && negb (is_nil rest)) eqn:C.
  - apply andb_true_iff in C. destruct C as [C1 C2]. apply N.eqb_eq in C1.
    apply hex_digit_48 in C1; auto. destruct (Z C1) as [_ ->]. discriminate.
  - unfold from_str_radix16. rewrite hex_digit_not_sign by exact M.
    rewrite P by lia. unfold parse_digits. f_equal; lia.
Qed.

Lemma hex_digits_lower : forall f n acc, Forall (fun c => lower_hex c = true) acc ->
  Forall (fun c => lower_hex c = true) (hex_digits f n acc).
Proof.
  induction f as [|f IH]; intros n acc H; [exact H|]. cbn [hex_digits].
  assert (Forall (fun c => lower_hex c = true) (hex_digit (n mod 16) :: acc)).
  { constructor; [apply hex_digit_lower; lia|exact H]. }
  destruct (n / 16 =? 0); auto.
Qed.

(* the printed form is canonical: "0x", lower-case hex digits, and a leading
   zero digit only for the value 0 (printed "0x0") *)
Theorem json_uint_print_canonical : forall n, n < 2 ^ 128 ->
  exists d rest, print_uint n = 48 :: 120 :: d :: rest /\
    Forall (fun c => lower_hex c = true) (d :: rest) /\
    (d = 48 -> n = 0 /\ rest = []).
Proof.
  intros n Hn. unfold print_uint.
  assert (B : n < 16 ^ N.of_nat 40).
  { eapply N.lt_le_trans; [exact Hn|]. vm_compute. discriminate. }
  destruct (hex_digits_spec 40 n [] B ltac:(lia)) as (k & m & rest & E & M & Z & K & P).
  exists (hex_digit m), rest. split; [rewrite E; reflexivity|]. split.
  - rewrite <- E. apply hex_digits_lower. constructor.
  - intros C. apply hex_digit_48 in C; auto.
Qed.

(* what parse accepts: prefix 0x, at least one more character, no redundant
   leading zero, value in range *)
Theorem json_uint_parse_shape : forall bits s n, parse_uint bits s = Some n ->
  exists c r, s = 48 :: 120 :: c :: r /\ (c = 48 -> r = []).
Proof.
  intros bits s n H. unfold parse_uint in H.
  destruct s as [|a [|b [|c r]]]; try discriminate;
    try (destruct a as [|p]; [discriminate|]; repeat (destruct p; try discriminate)).
  all: try (destruct b as [|q]; [discriminate|]; repeat (destruct q; try discriminate)).
  exists c, r. split; [reflexivity|]. intros ->. cbn in H. destruct r; [reflexivity|discriminate].
Qed.

(* JSON strings are not canonical (the property does not claim it): through
   from_str_radix the parser accepts upper-case digits and a leading '+' *)
Lemma json_uint_parse_not_injective :
  parse_uint 64 [48; 120; 43; 49; 102] = Some 31 /\ parse_uint 64 [48; 120; 49; 70] = Some 31 /\
  parse_uint 64 [48; 120; 49; 102] = Some 31 /\
  parse_uint 64 [48; 120; 48; 49] = None /\ parse_uint 64 [49; 102] = None /\
  parse_uint 32 [48; 120; 49; 48; 48; 48; 48; 48; 48; 48; 48] = None.
Proof. vm_compute. repeat split; reflexivity. Qed.
