(* Codec/Compact.v — (a) the frame layer of network/src/compress.rs with snappy
   as an opaque codec; (b) CompactBlockVerifier and Relayer::reconstruct_block
   (sync/src/relayer/{compact_block_verifier.rs, mod.rs}) transcribed over
   lists and association lists.  A Rust panic (usize underflow with
   overflow-checks, `expect` on a missing received uncle) is [None].
   Model only; proofs in CompactProofs.v. *)
From Coq Require Import List NArith Bool Arith.
Import ListNotations.

(* ---- (a) frames ---------------------------------------------------------- *)
Definition MAX_UNCOMPRESSED_LEN : N := 8388608.          (* 1 << 23 *)
Definition COMPRESSION_SIZE_THRESHOLD : N := 1024.
Definition compress_flag (b : N) : bool := N.testbit b 7. (* b & 0b1000_0000 != 0 *)

Section Frame.
  Variable snap_len : list N -> option N.            (* snap::raw::decompress_len *)
  Variable snap_dec : list N -> option (list N).     (* Decoder::decompress into a buffer of the declared length *)
  Variable snap_enc : list N -> list N.              (* Encoder::compress_vec *)

  (* Message::decompress *)
  Definition decompress (frame : list N) : option (list N) :=
    match frame with
    | [] => None
    | flag :: rest =>
        if compress_flag flag then
          match snap_len rest with
          | Some n => if (MAX_UNCOMPRESSED_LEN <? n)%N then None else snap_dec rest
          | None => None
          end
        else Some rest
    end.

  (* compress(src) = Message::from_raw(src).compress() *)
  Definition compress (src : list N) : list N :=
    if (COMPRESSION_SIZE_THRESHOLD <? N.of_nat (S (length src)))%N
    then 128%N :: snap_enc src
    else 0%N :: src.
End Frame.

(* the same function with the two snappy answers supplied by the harness (it
   calls the snap crate directly): the guard logic is what is compared *)
Definition decompress_oracle (frame_len : N) (flag : N) (slen : option N) (sdec_len : option N) : option N :=
  if (frame_len =? 0)%N then None
  else if compress_flag flag then
    match slen with
    | Some n => if (MAX_UNCOMPRESSED_LEN <? n)%N then None else sdec_len
    | None => None
    end
  else Some (frame_len - 1)%N.
Definition optN_eqb (a b : option N) : bool :=
  match a, b with Some x, Some y => N.eqb x y | None, None => true | _, _ => false end.
(* (frame length, flag byte, decompress_len answer, length of the snappy output
   or None, length of what ckb_network::compress::decompress returned or None) *)
Definition check_frame (c : N * N * option N * option N * option N) : bool :=
  let '(fl, flag, slen, sdec, res) := c in optN_eqb (decompress_oracle fl flag slen sdec) res.

(* ---- (b) compact blocks --------------------------------------------------- *)
Section Compact.
  Variable tx : Type.            (* a transaction *)
  Variable SID : Type.           (* proposal short id *)
  Variable sid_eqb : SID -> SID -> bool.
  Variable sid_of : tx -> SID.   (* TransactionView::proposal_short_id *)
  Variable U : Type.             (* an uncle block *)
  Variable R : Type.             (* a transactions root *)
  Variable R_eqb : R -> R -> bool.
  Variable root : list tx -> R.  (* BlockView::calc_transactions_root of the list *)
  Variable pool : SID -> option tx.   (* tx_pool.fetch_txs: an arbitrary partial map *)

  (* how reconstruct_block finds uncle i *)
  Inductive uentry :=
  | UGiven                 (* i is in uncles_index: take the next received uncle *)
  | ULocal (u : U)         (* stored / orphan block found locally *)
  | UMiss                  (* unknown, header only, or not found *)
  | UInvalid.              (* BLOCK_INVALID *)

  Record cblock := mkCB {
    cb_root : R;                        (* header.raw.transactions_root *)
    cb_sids : list SID;                 (* short_ids *)
    cb_pre : list (nat * tx);           (* prefilled_transactions: (index, transaction) *)
    cb_uncles : list uentry;            (* one entry per uncle hash *)
    cb_hdr_commit_ok : list U -> bool   (* proposals_hash and extra_hash of the header equal their
                                           recomputation from the carried proposals / these uncles / extension *)
  }.

  Definition txs_len (cb : cblock) : nat := length (cb_pre cb) + length (cb_sids cb).

  (* -- CompactBlockVerifier ------------------------------------------------ *)
  Fixpoint strictly_increasing (l : list nat) : bool :=
    match l with
    | a :: ((b :: _) as r) => (a <? b) && strictly_increasing r
    | _ => true
    end.
  Definition prefilled_ok (cb : cblock) : bool :=
    match cb_pre cb with
    | [] => false
    | (i0, _) :: _ =>
        (i0 =? 0) && (last (map fst (cb_pre cb)) 0 <? txs_len cb) && strictly_increasing (map fst (cb_pre cb))
    end.
  Fixpoint mem (s : SID) (l : list SID) : bool :=
    match l with [] => false | x :: r => sid_eqb s x || mem s r end.
  Fixpoint nodupb_sid (l : list SID) : bool :=
    match l with [] => true | x :: r => negb (mem x r) && nodupb_sid r end.
  Definition shortids_ok (cb : cblock) : bool :=
    nodupb_sid (cb_sids cb) &&
    forallb (fun p => negb (mem (sid_of (snd p)) (cb_sids cb))) (tl (cb_pre cb)).
  Definition compact_verify (cb : cblock) : bool := prefilled_ok cb && shortids_ok cb.

  (* -- reconstruct_block --------------------------------------------------- *)
  Fixpoint remove_sid (s : SID) (l : list SID) : list SID :=
    match l with [] => [] | x :: r => if sid_eqb s x then remove_sid s r else x :: remove_sid s r end.
  Fixpoint dedup (l : list SID) : list SID :=
    match l with [] => [] | x :: r => x :: remove_sid x (dedup r) end.

  (* received transactions claim their short id from the set of listed ids (first come) *)
  Fixpoint take_recv (recv : list tx) (want : list SID) : list (SID * tx) * list SID :=
    match recv with
    | [] => ([], want)
    | t :: r => if mem (sid_of t) want
                then let '(m, w) := take_recv r (remove_sid (sid_of t) want) in ((sid_of t, t) :: m, w)
                else take_recv r want
    end.
  Definition from_pool (want : list SID) : list (SID * tx) :=
    flat_map (fun s => match pool s with Some t => [(s, t)] | None => [] end) want.

  (* HashMap::remove *)
  Fixpoint map_remove (s : SID) (m : list (SID * tx)) : option tx * list (SID * tx) :=
    match m with
    | [] => (None, [])
    | (k, t) :: r => if sid_eqb s k then (Some t, r)
                     else let '(o, r') := map_remove s r in (o, (k, t) :: r')
    end.

  (* positions: prefilled transactions at their indexes, short ids fill the
     gaps in order; [n] is block_transactions.len(); `index - len` underflows
     (panic) when index < len *)
  Fixpoint layout (n : nat) (pre : list (nat * tx)) (sids : list SID) : option (list (tx + SID)) :=
    match pre with
    | [] => Some (map inr sids)
    | (i, t) :: pre' =>
        if i <? n then None else
        let taken := firstn (i - n) sids in
        match layout (n + length taken + 1) pre' (skipn (i - n) sids) with
        | Some r => Some (map inr taken ++ inl t :: r)
        | None => None
        end
    end.

  Fixpoint resolve (slots : list (tx + SID)) (m : list (SID * tx)) : list (option tx) :=
    match slots with
    | [] => []
    | inl t :: r => Some t :: resolve r m
    | inr s :: r => let '(o, m') := map_remove s m in o :: resolve r m'
    end.

  Inductive ures := UPanic | UErr | UOk (us : list U) (missing : list nat).
  Fixpoint uncles_pass (es : list uentry) (i : nat) (recv : list U) : ures :=
    match es with
    | [] => UOk [] []
    | e :: es' =>
        match e with
        | UGiven => match recv with
                    | [] => UPanic
                    | u :: recv' => match uncles_pass es' (S i) recv' with
                                    | UOk us ms => UOk (u :: us) ms
                                    | x => x
                                    end
                    end
        | ULocal u => match uncles_pass es' (S i) recv with
                      | UOk us ms => UOk (u :: us) ms
                      | x => x
                      end
        | UMiss => match uncles_pass es' (S i) recv with
                   | UOk us ms => UOk us (i :: ms)
                   | x => x
                   end
        | UInvalid => UErr
        end
    end.
  (* the Rust loop returns Error at the first invalid uncle but panics first if
     an earlier given uncle is absent: order of effects *)

  Fixpoint none_positions (i : nat) (l : list (option tx)) : list nat :=
    match l with
    | [] => []
    | None :: r => i :: none_positions (S i) r
    | Some _ :: r => none_positions (S i) r
    end.
  Fixpoint somes (l : list (option tx)) : list tx :=
    match l with [] => [] | Some t :: r => t :: somes r | None :: r => somes r end.
  Definition is_nil {A} (l : list A) : bool := match l with [] => true | _ => false end.

  Inductive rerr := EInvalidUncle | ERootMismatch.
  Inductive result :=
  | RBlock (txs : list tx) (uncles : list U) (header_unchanged : bool)
  | RMissing (txs_missing uncles_missing : list nat)
  | RCollided
  | RError (e : rerr).

  Definition slots_of (cb : cblock) := layout 0 (cb_pre cb) (cb_sids cb).
  Definition avail_map (cb : cblock) (recv : list tx) : list (SID * tx) :=
    let '(m0, want) := take_recv recv (dedup (cb_sids cb)) in m0 ++ from_pool want.

  Definition reconstruct (cb : cblock) (recv : list tx) (recv_uncles : list U) : option result :=
    match slots_of cb with
    | None => None
    | Some slots =>
        let bt := resolve slots (avail_map cb recv) in
        match uncles_pass (cb_uncles cb) 0 recv_uncles with
        | UPanic => None
        | UErr => Some (RError EInvalidUncle)
        | UOk us mu =>
            if is_nil (none_positions 0 bt) && is_nil mu then
              let txs := somes bt in
              if R_eqb (root txs) (cb_root cb) then Some (RBlock txs us (cb_hdr_commit_ok cb us))
              else if is_nil (cb_sids cb) || (length (cb_sids cb) =? length recv)
                   then Some (RError ERootMismatch) else Some RCollided
            else Some (RMissing (none_positions 0 bt) mu)
        end
    end.
End Compact.

Arguments UGiven {U}.
Arguments ULocal {U} u.
Arguments UMiss {U}.
Arguments UInvalid {U}.
Arguments mkCB {tx SID U R}.
Arguments RBlock {tx U}.
Arguments RMissing {tx U}.
Arguments RCollided {tx U}.
Arguments RError {tx U}.

(* ---- instance for the correspondence harness ------------------------------
   transactions are (id, short id); the root of a list is the list of ids (an
   injective "hash"), the harness says which id list the header root commits to *)
Definition ctx := (N * N)%type.
Fixpoint listN_eqb (a b : list N) : bool :=
  match a, b with
  | [], [] => true
  | x :: a', y :: b' => N.eqb x y && listN_eqb a' b'
  | _, _ => false
  end.
Fixpoint lookupN (k : N) (m : list (N * ctx)) : option ctx :=
  match m with [] => None | (k', t) :: r => if N.eqb k k' then Some t else lookupN k r end.

Inductive robs :=
| OPanic
| OBlock (ids : list N) (uncles : list N) (header_unchanged : bool)
| OMissing (txs_missing uncles_missing : list N)
| OCollided
| OErrUncle
| OErrRoot.

Record recon_case := mkRecon {
  rc_committed : list N;              (* ids whose root is in the header *)
  rc_sids : list N;
  rc_pre : list (nat * ctx);
  rc_uncles : list (@uentry N);
  rc_hdr_ok : bool;                   (* proposals_hash / extra_hash of the header match the carried data *)
  rc_recv : list ctx;
  rc_pool : list (N * ctx);
  rc_recv_uncles : list N;
  rc_verify : bool;                   (* what CompactBlockVerifier answered *)
  rc_obs : robs }.

Definition robs_eqb (a b : robs) : bool :=
  match a, b with
  | OPanic, OPanic | OCollided, OCollided | OErrUncle, OErrUncle | OErrRoot, OErrRoot => true
  | OBlock i u h, OBlock i' u' h' => listN_eqb i i' && listN_eqb u u' && Bool.eqb h h'
  | OMissing a1 a2, OMissing b1 b2 => listN_eqb a1 b1 && listN_eqb a2 b2
  | _, _ => false
  end.

Definition check_recon (c : recon_case) : bool :=
  let cb := mkCB (rc_committed c) (rc_sids c) (rc_pre c) (rc_uncles c) (fun _ => rc_hdr_ok c) in
  let r := reconstruct ctx N N.eqb snd N (list N) listN_eqb (map fst) (fun s => lookupN s (rc_pool c))
             cb (rc_recv c) (rc_recv_uncles c) in
  Bool.eqb (compact_verify ctx N N.eqb snd N (list N) cb) (rc_verify c) &&
  robs_eqb
    match r with
    | None => OPanic
    | Some (RBlock txs us h) => OBlock (map fst txs) us h
    | Some (RMissing a b) => OMissing (map N.of_nat a) (map N.of_nat b)
    | Some RCollided => OCollided
    | Some (RError EInvalidUncle) => OErrUncle
    | Some (RError ERootMismatch) => OErrRoot
    end (rc_obs c).
