(* Codec/Examples.v — concrete values showing that the hypotheses of the codec
   theorems are satisfiable (non-vacuity) *)
From Coq Require Import List NArith Bool.
From CKB Require Import Codec.Molecule gen.Schema.
Import ListNotations.
Local Open Scope N_scope.

Definition ex_bytes (n : nat) (b : N) : val := VSeq (repeat (VByte b) n).
Definition ex_script : val := VSeq [ex_bytes 32 7; VByte 1; VSeq [VByte 1; VByte 2; VByte 255]].
Definition ex_outpoint : val := VSeq [ex_bytes 32 9; ex_bytes 4 0].
Definition ex_input : val := VSeq [ex_bytes 8 255; ex_outpoint].
Definition ex_output : val := VSeq [ex_bytes 8 3; ex_script; VOpt (Some ex_script)].
Definition ex_raw_tx : val :=
  VSeq [ex_bytes 4 0; VSeq [VSeq [ex_outpoint; VByte 1]]; VSeq [ex_bytes 32 5]; VSeq [ex_input; ex_input];
        VSeq [ex_output]; VSeq [VSeq [VByte 0; VByte 1]]].
Definition ex_tx : val := VSeq [ex_raw_tx; VSeq [VSeq [VByte 9]; VSeq []]].

Lemma ex_tx_ok :
  has_type T_Transaction ex_tx = true /\ len (encode T_Transaction ex_tx) < 4294967296 /\
  decode false T_Transaction (encode T_Transaction ex_tx) = Some ex_tx /\
  bytes_ok (encode T_Transaction ex_tx) = true /\
  has_type T_RawTransaction ex_raw_tx = true /\ len (encode T_RawTransaction ex_raw_tx) < 4294967296.
Proof. vm_compute. repeat split; reflexivity. Qed.
