(* Codec/CompactProofs.v — proofs about the frame layer and compact-block
   reconstruction model (Codec/Compact.v) *)
From Coq Require Import List NArith Bool Arith Lia.
From CKB Require Import Codec.Compact.
Import ListNotations.

(* ---- frames ---------------------------------------------------------------- *)
Section Frame.
  Variable snap_len : list N -> option N.
  Variable snap_dec : list N -> option (list N).
  Variable snap_enc : list N -> list N.
  (* the decoder fills a buffer of exactly the declared length *)
  Hypothesis snap_dec_len : forall x o, snap_dec x = Some o -> snap_len x = Some (N.of_nat (length o)).

  Theorem decompress_bounded : forall frame out,
    decompress snap_len snap_dec frame = Some out ->
    exists flag rest, frame = flag :: rest /\
      ((compress_flag flag = true /\ (N.of_nat (length out) <= MAX_UNCOMPRESSED_LEN)%N) \/
       (compress_flag flag = false /\ out = rest)).
  Proof.
    intros frame out D. destruct frame as [|flag rest]; [discriminate|]. exists flag, rest. split; [reflexivity|].
    cbn [decompress] in D. destruct (compress_flag flag) eqn:F.
    - left. split; [reflexivity|]. destruct (snap_len rest) as [n|] eqn:L; [|discriminate].
      destruct (MAX_UNCOMPRESSED_LEN <? n)%N eqn:G; [discriminate|]. apply N.ltb_ge in G.
      apply snap_dec_len in D. rewrite D in L. inversion L. lia.
    - right. split; [reflexivity|]. inversion D. reflexivity.
  Qed.

  Hypothesis snap_roundtrip : forall x, snap_dec (snap_enc x) = Some x.

  Theorem compress_decompress : forall src, (N.of_nat (length src) <= MAX_UNCOMPRESSED_LEN)%N ->
    decompress snap_len snap_dec (compress snap_enc src) = Some src.
  Proof.
    intros src B. unfold compress.
    destruct (COMPRESSION_SIZE_THRESHOLD <? N.of_nat (S (length src)))%N.
    - cbn [decompress]. change (compress_flag 128) with true. cbv iota.
      rewrite (snap_dec_len _ _ (snap_roundtrip src)).
      replace (MAX_UNCOMPRESSED_LEN <? N.of_nat (length src))%N with false by (symmetry; apply N.ltb_ge; exact B).
      apply snap_roundtrip.
    - reflexivity.
  Qed.
End Frame.

(* ---- compact blocks --------------------------------------------------------- *)
Section Compact.
  Variable tx : Type.
  Variable SID : Type.
  Variable sid_eqb : SID -> SID -> bool.
  Variable sid_of : tx -> SID.
  Variable U : Type.
  Variable R : Type.
  Variable R_eqb : R -> R -> bool.
  Variable root : list tx -> R.
  Variable pool : SID -> option tx.
  Hypothesis sid_eqb_spec : forall a b, sid_eqb a b = true <-> a = b.
  (* fetch_txs answers with transactions that have the requested short id *)
  Hypothesis pool_ok : forall s t, pool s = Some t -> sid_of t = s.

  Notation layout := (layout tx SID).
  Notation cblock := (cblock tx SID U R).
  Notation reconstruct := (reconstruct tx SID sid_eqb sid_of U R R_eqb root pool).
  Notation compact_verify := (compact_verify tx SID sid_eqb sid_of U R).
  Notation prefilled_ok := (prefilled_ok tx SID U R).
  Notation slots_of := (slots_of tx SID U R).
  Notation avail_map := (avail_map tx SID sid_eqb sid_of U R pool).
  Notation resolve := (resolve tx SID sid_eqb).

  Definition rights (L : list (tx + SID)) : list SID :=
    flat_map (fun x => match x with inr s => [s] | inl _ => [] end) L.
  Definition lefts (L : list (tx + SID)) : list tx :=
    flat_map (fun x => match x with inl t => [t] | inr _ => [] end) L.

  Lemma rights_app : forall a b, rights (a ++ b) = rights a ++ rights b.
  Proof. intros. unfold rights. apply flat_map_app. Qed.
  Lemma lefts_app : forall a b, lefts (a ++ b) = lefts a ++ lefts b.
  Proof. intros. unfold lefts. apply flat_map_app. Qed.
  Lemma rights_map_inr : forall l, rights (map inr l) = l.
  Proof. unfold rights. induction l as [|a l IH]; [reflexivity|]. cbn. f_equal. exact IH. Qed.
  Lemma lefts_map_inr : forall l : list SID, lefts (map inr l) = [].
  Proof. unfold lefts. induction l as [|a l IH]; [reflexivity|]. cbn. exact IH. Qed.

  Lemma si_head : forall a b l, strictly_increasing (a :: b :: l) = true ->
    a < b /\ strictly_increasing (b :: l) = true.
  Proof. intros a b l H. cbn in H. apply andb_true_iff in H. destruct H as [H1 H2]. apply Nat.ltb_lt in H1. tauto. Qed.

  Lemma si_all_gt : forall l a, strictly_increasing (a :: l) = true -> Forall (fun x => a < x) l.
  Proof.
    induction l as [|b l IH]; intros a H; constructor.
    - apply si_head in H. tauto.
    - apply si_head in H. destruct H as [H1 H2]. specialize (IH b H2).
      eapply Forall_impl; [|exact IH]. cbn. intros. lia.
  Qed.

  Lemma si_last : forall l a, strictly_increasing (a :: l) = true -> a + length l <= last (a :: l) 0.
  Proof.
    induction l as [|b l IH]; intros a H.
    - cbn. lia.
    - apply si_head in H. destruct H as [H1 H2]. specialize (IH b H2).
      change (last (a :: b :: l) 0) with (last (b :: l) 0). cbn [length]. lia.
  Qed.

  (* CompactBlockVerifier's order check alone excludes the usize underflow *)
  Lemma layout_total : forall pre n sids,
    strictly_increasing (map fst pre) = true ->
    match pre with [] => True | p :: _ => n <= fst p end ->
    exists L, layout n pre sids = Some L.
  Proof.
    induction pre as [|[i t] pre IH]; intros n sids SI HN.
    - eexists. reflexivity.
    - cbn [layout]. cbn [fst] in HN. replace (i <? n) with false by (symmetry; apply Nat.ltb_ge; lia).
      destruct (IH (n + length (firstn (i - n) sids) + 1) (skipn (i - n) sids)) as [L E].
      + cbn [map fst] in SI. destruct pre as [|[j u] pre']; [reflexivity|]. cbn [map fst] in SI.
        apply si_head in SI. tauto.
      + destruct pre as [|[j u] pre']; [exact I|]. cbn [map fst] in SI. apply si_head in SI. cbn [fst].
        rewrite firstn_length. lia.
      + rewrite E. eexists. reflexivity.
  Qed.

  Lemma layout_shape : forall pre n sids L, layout n pre sids = Some L ->
    length L = length pre + length sids /\ rights L = sids /\ lefts L = map snd pre.
  Proof.
    induction pre as [|[i t] pre IH]; intros n sids L E.
    - cbn in E. inversion E. rewrite map_length, rights_map_inr, lefts_map_inr. auto.
    - cbn [layout] in E. destruct (i <? n); [discriminate|].
      destruct (layout _ pre _) as [r|] eqn:E2; [|discriminate]. inversion E; subst L.
      destruct (IH _ _ _ E2) as (I1 & I2 & I3).
      rewrite app_length, map_length. cbn [length]. rewrite I1, skipn_length.
      rewrite rights_app, lefts_app, rights_map_inr, lefts_map_inr. cbn [rights lefts flat_map app map snd].
      fold (rights r). fold (lefts r). rewrite I2, I3, firstn_skipn. repeat split; auto.
      pose proof (firstn_length (i - n) sids). lia.
  Qed.

  (* with the verifier's conditions every prefilled transaction lands at its index *)
  Lemma layout_positions : forall pre n sids L, layout n pre sids = Some L ->
    strictly_increasing (map fst pre) = true ->
    last (map fst pre) 0 + 1 <= n + length pre + length sids ->
    forall i t, In (i, t) pre -> n <= i /\ nth_error L (i - n) = Some (inl t).
  Proof.
    induction pre as [|[i0 t0] pre IH]; intros n sids L E SI LB i t IN; [destruct IN|].
    cbn [layout] in E. destruct (i0 <? n) eqn:LT; [discriminate|]. apply Nat.ltb_ge in LT.
    destruct (layout _ pre _) as [r|] eqn:E2; [|discriminate]. inversion E; subst L. clear E.
    cbn [map fst] in SI, LB.
    pose proof (si_last _ _ SI) as SL. rewrite map_length in SL.
    assert (TK : length (firstn (i0 - n) sids) = i0 - n).
    { apply firstn_length_le. cbn [length] in LB. lia. }
    destruct IN as [EQ|IN].
    - inversion EQ; subst i t. split; [exact LT|].
      rewrite nth_error_app2 by (rewrite map_length; lia). rewrite map_length, TK, Nat.sub_diag. reflexivity.
    - pose proof (si_all_gt _ _ SI) as GT. rewrite Forall_forall in GT.
      assert (i0 < i) by (apply GT; apply (in_map fst) in IN; exact IN).
      destruct pre as [|p pre']; [destruct IN|].
      assert (SI' : strictly_increasing (map fst (p :: pre')) = true).
      { cbn [map] in SI |- *. apply si_head in SI. tauto. }
      destruct (IH _ _ _ E2 SI') with (i := i) (t := t) as [I1 I2]; auto.
      { change (last (i0 :: map fst (p :: pre')) 0) with (last (map fst (p :: pre')) 0) in LB.
        rewrite skipn_length, TK. cbn [length] in *. lia. }
      split; [lia|].
      rewrite nth_error_app2 by (rewrite map_length; lia). rewrite map_length, TK.
      replace (i - n - (i0 - n)) with (S (i - (n + (i0 - n) + 1))) by lia. cbn [nth_error].
      rewrite TK in I2. exact I2.
  Qed.

  (* -- the map of available transactions ----------------------------------- *)
  Definition map_ok (m : list (SID * tx)) : Prop := forall k t, In (k, t) m -> sid_of t = k.

  Lemma take_recv_ok : forall recv want, map_ok (fst (take_recv tx SID sid_eqb sid_of recv want)).
  Proof.
    induction recv as [|t r IH]; intros want; cbn [take_recv].
    - intros k u [].
    - destruct (mem SID sid_eqb (sid_of t) want).
      + specialize (IH (remove_sid SID sid_eqb (sid_of t) want)).
        destruct (take_recv tx SID sid_eqb sid_of r _) as [m w]. cbn [fst] in *.
        intros k u [E|I]; [inversion E; reflexivity|auto].
      + apply IH.
  Qed.

  Lemma from_pool_ok : forall want, map_ok (from_pool tx SID pool want).
  Proof.
    intros want k t I. unfold from_pool in I. apply in_flat_map in I. destruct I as (s & _ & I).
    destruct (pool s) as [u|] eqn:E; [|destruct I]. destruct I as [EQ|[]]. inversion EQ; subst. apply pool_ok. exact E.
  Qed.

  Lemma avail_map_ok : forall cb recv, map_ok (avail_map cb recv).
  Proof.
    intros cb recv. unfold Compact.avail_map.
    pose proof (take_recv_ok recv (dedup SID sid_eqb (cb_sids tx SID U R cb))) as T.
    destruct (take_recv tx SID sid_eqb sid_of recv _) as [m0 want]. cbn [fst] in T.
    intros k t I. apply in_app_or in I. destruct I as [I|I]; [apply T; exact I|eapply from_pool_ok; exact I].
  Qed.

  Lemma map_remove_ok : forall s m o m', map_remove tx SID sid_eqb s m = (o, m') -> map_ok m ->
    map_ok m' /\ (forall t, o = Some t -> sid_of t = s).
  Proof.
    induction m as [|[k u] m IH]; intros o m' E OK; cbn [map_remove] in E.
    - inversion E. split; [intros ? ? []|discriminate].
    - destruct (sid_eqb s k) eqn:Q.
      + inversion E; subst. split.
        * intros k' t' I. apply OK. right. exact I.
        * intros t Et. inversion Et; subst. apply sid_eqb_spec in Q. subst. apply OK. left. reflexivity.
      + destruct (map_remove tx SID sid_eqb s m) as [o2 r2] eqn:E2. injection E as <- <-.
        destruct (IH o2 r2 eq_refl) as [I1 I2]; [intros k' t' I; apply OK; right; exact I|] .
        split; [|exact I2]. intros k' t' [EQ|I]; [inversion EQ; subst; apply OK; left; reflexivity|apply I1; exact I].
  Qed.

  Definition slot_match (sl : tx + SID) (t : tx) : Prop :=
    match sl with inl t0 => t = t0 | inr s => sid_of t = s end.

  Lemma resolve_sound : forall slots m, map_ok m ->
    Forall2 (fun sl o => match o with Some t => slot_match sl t | None => True end) slots (resolve slots m).
  Proof.
    induction slots as [|[t|s] slots IH]; intros m OK; cbn [Compact.resolve].
    - constructor.
    - constructor; [reflexivity|apply IH; exact OK].
    - destruct (map_remove tx SID sid_eqb s m) as [o m'] eqn:E.
      destruct (map_remove_ok _ _ _ _ E OK) as [OK' HS]. constructor; [|apply IH; exact OK'].
      destruct o; [apply HS; reflexivity|exact I].
  Qed.

  Lemma none_positions_spec : forall l k i,
    In i (none_positions tx k l) <-> k <= i /\ nth_error l (i - k) = Some None.
  Proof.
    induction l as [|o l IH]; intros k i; cbn [none_positions].
    - split; [intros []|]. intros [_ H]. destruct (i - k); discriminate.
    - destruct o as [t|].
      + rewrite IH. split.
        * intros [H1 H2]. split; [lia|]. replace (i - k) with (S (i - S k)) by lia. exact H2.
        * intros [H1 H2]. destruct (i - k) as [|j] eqn:J; [discriminate|]. cbn in H2.
          split; [lia|]. replace (i - S k) with j by lia. exact H2.
      + cbn [In]. rewrite IH. split.
        * intros [->|[H1 H2]]; [rewrite Nat.sub_diag; split; [lia|reflexivity]|].
          split; [lia|]. replace (i - k) with (S (i - S k)) by lia. exact H2.
        * intros [H1 H2]. destruct (i - k) as [|j] eqn:J; [left; lia|right]. cbn in H2.
          split; [lia|]. replace (i - S k) with j by lia. exact H2.
  Qed.

  Lemma no_none_somes : forall l k, none_positions tx k l = [] -> l = map Some (somes tx l).
  Proof.
    induction l as [|[t|] l IH]; intros k H; cbn in *; [reflexivity| |discriminate].
    f_equal. eapply IH. exact H.
  Qed.

  Lemma uncles_pass_spec : forall es k recv us ms, uncles_pass U es k recv = UOk U us ms ->
    forall i, In i ms <-> k <= i /\ nth_error es (i - k) = Some UMiss.
  Proof.
    induction es as [|e es IH]; intros k recv us ms H i; cbn [uncles_pass] in H.
    - inversion H. split; [intros []|]. intros [_ X]. destruct (i - k); discriminate.
    - assert (STEP : forall recv' us' ms', uncles_pass U es (S k) recv' = UOk U us' ms' ->
                (In i ms' <-> k <= i /\ nth_error (e :: es) (i - k) = Some UMiss) \/ True) by (intros; right; exact I).
      clear STEP.
      destruct e as [|u| |].
      + destruct recv as [|u recv']; [discriminate|].
        destruct (uncles_pass U es (S k) recv') as [| |us' ms'] eqn:E; try discriminate. inversion H; subst.
        rewrite (IH _ _ _ _ E). split.
        * intros [H1 H2]. split; [lia|]. replace (i - k) with (S (i - S k)) by lia. exact H2.
        * intros [H1 H2]. destruct (i - k) as [|j] eqn:J; [discriminate|]. split; [lia|].
          replace (i - S k) with j by lia. exact H2.
      + destruct (uncles_pass U es (S k) recv) as [| |us' ms'] eqn:E; try discriminate. inversion H; subst.
        rewrite (IH _ _ _ _ E). split.
        * intros [H1 H2]. split; [lia|]. replace (i - k) with (S (i - S k)) by lia. exact H2.
        * intros [H1 H2]. destruct (i - k) as [|j] eqn:J; [discriminate|]. split; [lia|].
          replace (i - S k) with j by lia. exact H2.
      + destruct (uncles_pass U es (S k) recv) as [| |us' ms'] eqn:E; try discriminate. inversion H; subst.
        cbn [In]. rewrite (IH _ _ _ _ E). split.
        * intros [->|[H1 H2]]; [rewrite Nat.sub_diag; split; [lia|reflexivity]|].
          split; [lia|]. replace (i - k) with (S (i - S k)) by lia. exact H2.
        * intros [H1 H2]. destruct (i - k) as [|j] eqn:J; [left; lia|right]. split; [lia|].
          replace (i - S k) with j by lia. exact H2.
      + discriminate.
  Qed.

  (* -- the theorems --------------------------------------------------------- *)
  (* a compact block that passed CompactBlockVerifier never makes the index
     arithmetic of reconstruct_block underflow; the only remaining panic is the
     `expect` on received uncles, excluded when enough uncles were received *)
  Theorem verified_compact_no_underflow : forall cb,
    prefilled_ok cb = true -> exists slots, slots_of cb = Some slots.
  Proof.
    intros cb V. unfold Compact.prefilled_ok in V. unfold Compact.slots_of.
    destruct (cb_pre tx SID U R cb) as [|[i0 t0] pre] eqn:P; [discriminate|].
    apply andb_true_iff in V. destruct V as [V SI]. apply layout_total; [exact SI|cbn; lia].
  Qed.

  Theorem verified_positions : forall cb slots,
    prefilled_ok cb = true -> slots_of cb = Some slots ->
    length slots = txs_len tx SID U R cb /\ rights slots = cb_sids tx SID U R cb /\
    forall i t, In (i, t) (cb_pre tx SID U R cb) -> nth_error slots i = Some (inl t).
  Proof.
    intros cb slots V E. unfold Compact.prefilled_ok in V. unfold Compact.slots_of in E.
    destruct (layout_shape _ _ _ _ E) as (S1 & S2 & _). split; [exact S1|]. split; [exact S2|].
    intros i t IN.
    destruct (cb_pre tx SID U R cb) as [|[i0 t0] pre] eqn:P; [discriminate|].
    apply andb_true_iff in V. destruct V as [V SI]. apply andb_true_iff in V. destruct V as [_ LT].
    apply Nat.ltb_lt in LT. unfold Compact.txs_len in LT. rewrite P in LT.
    destruct (layout_positions _ _ _ _ E SI) with (i := i) (t := t) as [_ X]; auto; [lia|].
    rewrite Nat.sub_0_r in X. exact X.
  Qed.

  Theorem reconstruct_sound : forall cb recv ru txs us h,
    reconstruct cb recv ru = Some (RBlock txs us h) ->
    exists slots, slots_of cb = Some slots /\
      Forall2 slot_match slots txs /\
      R_eqb (root txs) (cb_root tx SID U R cb) = true /\
      h = cb_hdr_commit_ok tx SID U R cb us.
  Proof.
    intros cb recv ru txs us h H. unfold Compact.reconstruct in H.
    destruct (slots_of cb) as [slots|] eqn:S; [|discriminate]. exists slots. split; [reflexivity|].
    destruct (uncles_pass U _ 0 ru) as [| |us' mu]; try discriminate.
    set (bt := resolve slots (avail_map cb recv)) in *.
    destruct (is_nil (none_positions tx 0 bt) && is_nil mu) eqn:C.
    - destruct (R_eqb (root (somes tx bt)) _) eqn:RE.
      + inversion H; subst. split; [|split; [exact RE|reflexivity]].
        apply andb_true_iff in C. destruct C as [C _].
        destruct (none_positions tx 0 bt) eqn:NP; [|discriminate].
        pose proof (no_none_somes _ _ NP) as EQ.
        pose proof (resolve_sound slots _ (avail_map_ok cb recv)) as F. fold bt in F. rewrite EQ in F.
        clear - F. revert F. generalize (somes tx bt). induction slots as [|sl slots IH]; intros l F.
        * destruct l; [constructor|inversion F].
        * destruct l as [|t l]; [inversion F|]. cbn [map] in F. inversion F; subst. constructor; auto.
      + destruct (is_nil _ || _); discriminate.
    - discriminate.
  Qed.

  (* the missing report lists exactly the positions for which no transaction
     was available, and exactly the uncles that were not found *)
  Theorem missing_precise : forall cb recv ru is us,
    reconstruct cb recv ru = Some (RMissing is us) ->
    exists slots, slots_of cb = Some slots /\
      (forall i, In i is <-> nth_error (resolve slots (avail_map cb recv)) i = Some None) /\
      (forall i, In i us <-> nth_error (cb_uncles tx SID U R cb) i = Some UMiss) /\
      (is <> [] \/ us <> []).
  Proof.
    intros cb recv ru is us H. unfold Compact.reconstruct in H.
    destruct (slots_of cb) as [slots|] eqn:S; [|discriminate]. exists slots. split; [reflexivity|].
    destruct (uncles_pass U _ 0 ru) as [| |us' mu] eqn:UP; try discriminate.
    set (bt := resolve slots (avail_map cb recv)) in *.
    destruct (is_nil (none_positions tx 0 bt) && is_nil mu) eqn:C.
    - destruct (R_eqb _ _); [discriminate|]. destruct (is_nil _ || _); discriminate.
    - inversion H; subst. split; [|split].
      + intros i. rewrite none_positions_spec. rewrite Nat.sub_0_r. split; [tauto|]. intros; split; [lia|assumption].
      + intros i. rewrite (uncles_pass_spec _ _ _ _ _ UP). rewrite Nat.sub_0_r. split; [tauto|]. intros; split; [lia|assumption].
      + apply andb_false_iff in C. destruct C as [C|C].
        * left. destruct (none_positions tx 0 bt); [discriminate|discriminate].
        * right. destruct us; [discriminate|discriminate].
  Qed.

  (* whatever the peer and the pool supplied, a returned block has the
     transactions root of the compact block's header; so if [root] binds its
     argument up to a collision, the transactions are the committed ones *)
  Theorem never_other_block : forall (Collision : Prop) cb recv ru txs us h committed,
    (forall a b, R_eqb a b = true -> a = b) ->
    (forall a b, length a = length b -> root a = root b -> a = b \/ Collision) ->
    root committed = cb_root tx SID U R cb -> length committed = length txs ->
    reconstruct cb recv ru = Some (RBlock txs us h) -> txs = committed \/ Collision.
  Proof.
    intros Collision cb recv ru txs us h committed RE RB RC LC H.
    destruct (reconstruct_sound _ _ _ _ _ _ H) as (slots & _ & _ & E & _).
    apply RE in E. apply RB; [symmetry; exact LC|congruence].
  Qed.
End Compact.

(* ---- concrete instances ------------------------------------------------------ *)
Definition ex_cb (hdr_ok : bool) : cblock ctx N N (list N) :=
  mkCB [10; 11; 12; 13]%N [101; 103]%N [(0%nat, (10, 100)%N); (2%nat, (12, 102)%N)] [UMiss; ULocal 7%N] (fun _ => hdr_ok).
Definition ex_pool (s : N) : option ctx := lookupN s [(101, (11, 101)); (103, (13, 103))]%N.
Notation ex_reconstruct := (reconstruct ctx N N.eqb snd N (list N) listN_eqb (map fst) ex_pool).

(* non-vacuity: a verified compact block, everything available *)
Lemma ex_block : compact_verify ctx N N.eqb snd N (list N) (ex_cb true) = true /\
  ex_reconstruct (mkCB [10; 11; 12; 13]%N [101; 103]%N [(0%nat, (10, 100)%N); (2%nat, (12, 102)%N)] [ULocal 7%N] (fun _ => true)) [] [] =
    Some (RBlock [(10, 100); (11, 101); (12, 102); (13, 103)]%N [7%N] true) /\
  ex_reconstruct (ex_cb true) [] [] = Some (RMissing [] [0]) /\
  reconstruct ctx N N.eqb snd N (list N) listN_eqb (map fst) (fun _ => None) (ex_cb true) [(13, 103)]%N [] =
    Some (RMissing [1] [0]).
Proof. vm_compute. repeat split; reflexivity. Qed.

(* F6: reconstruct_block ends with BlockView::into_view(), which REWRITES the
   header (transactions_root, proposals_hash, extra_hash are recomputed) and
   only the transactions root is compared with the compact block's header: if
   the carried proposals / uncles / extension do not match the header's
   proposals_hash / extra_hash the result is still Block, but of a block whose
   header (hence hash) is not the compact block's *)
Lemma reconstruct_header_refuted :
  exists cb txs us, ex_reconstruct cb [] [] = Some (RBlock txs us false) /\
    compact_verify ctx N N.eqb snd N (list N) cb = true.
Proof.
  exists (mkCB [10; 11; 12; 13]%N [101; 103]%N [(0%nat, (10, 100)%N); (2%nat, (12, 102)%N)] [ULocal 7%N] (fun _ => false)).
  eexists. eexists. vm_compute. split; reflexivity.
Qed.

(* unverified compact blocks can make the index arithmetic underflow (a panic
   in the release profile, which has overflow-checks on): the verifier is what
   protects reconstruct_block *)
Lemma unverified_underflow :
  ex_reconstruct (mkCB []%N [101]%N [(1%nat, (10, 100)%N); (1%nat, (12, 102)%N)] [] (fun _ => true)) [] [] = None.
Proof. reflexivity. Qed.
