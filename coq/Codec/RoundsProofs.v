(* Codec/RoundsProofs.v — proofs about the bookkeeping between the rounds of a
   compact block exchange (Codec/Rounds.v) *)
From Coq Require Import List NArith Arith Bool Lia Sorted.
From CKB Require Import Codec.Compact Codec.UnclesVerify Codec.Rounds.
Import ListNotations.

Definition SI := StronglySorted lt.

Lemma si_spec l : strictly_increasing l = true <-> SI l.
Proof.
  induction l as [|a l IH]; [split; intros; [constructor|reflexivity]|].
  destruct l as [|b r].
  - split; intros; [constructor; constructor|reflexivity].
  - change (strictly_increasing (a :: b :: r)) with ((a <? b) && strictly_increasing (b :: r)).
    rewrite andb_true_iff, Nat.ltb_lt, IH. split.
    + intros [H1 H2]. constructor; [exact H2|]. constructor; [exact H1|].
      apply StronglySorted_inv in H2 as [_ H2]. eapply Forall_impl; [|exact H2]. intros; lia.
    + intros H. apply StronglySorted_inv in H as [H1 H2]. split; [|exact H1]. inversion H2; assumption.
Qed.

Lemma memb_spec i l : memb i l = true <-> In i l.
Proof.
  unfold memb. rewrite existsb_exists. split.
  - intros [x [Hx E]]. apply Nat.eqb_eq in E. subst. exact Hx.
  - intros H. exists i. split; [exact H|apply Nat.eqb_refl].
Qed.

Lemma memb_false i l : memb i l = false <-> ~ In i l.
Proof.
  rewrite <- memb_spec. destruct (memb i l); split; intros H.
  - discriminate.
  - exfalso. apply H. reflexivity.
  - discriminate.
  - reflexivity.
Qed.

(* ---- sort ------------------------------------------------------------------ *)
Lemma In_insert z x l : In z (insert x l) <-> z = x \/ In z l.
Proof.
  induction l as [|y r IH]; cbn [insert].
  - cbn. intuition.
  - destruct (x <=? y); cbn [In]; [intuition|]. rewrite IH. cbn [In]. intuition.
Qed.

Lemma In_sort z l : In z (sort l) <-> In z l.
Proof.
  induction l as [|x r IH]; cbn [sort]; [reflexivity|].
  rewrite In_insert, IH. cbn [In]. intuition.
Qed.

Lemma insert_SI x l : SI l -> ~ In x l -> SI (insert x l).
Proof.
  induction l as [|y r IH]; intros S NI; cbn [insert].
  - constructor; constructor.
  - apply StronglySorted_inv in S as [S1 S2].
    destruct (x <=? y) eqn:C.
    + apply Nat.leb_le in C. assert (x <> y) by (intros ->; apply NI; left; reflexivity).
      constructor; [constructor; assumption|].
      constructor; [lia|]. eapply Forall_impl; [|exact S2]. intros; lia.
    + apply Nat.leb_gt in C. constructor.
      * apply IH; [exact S1|]. intros I. apply NI. right. exact I.
      * apply Forall_forall. intros z Hz. apply In_insert in Hz as [->|Hz]; [exact C|].
        rewrite Forall_forall in S2. apply S2. exact Hz.
Qed.

Lemma sort_SI l : NoDup l -> SI (sort l).
Proof.
  induction l as [|x r IH]; intros ND; cbn [sort]; [constructor|].
  inversion ND as [|? ? NI ND']; subst. apply insert_SI; [apply IH; exact ND'|].
  rewrite In_sort. exact NI.
Qed.

Lemma SI_NoDup l : SI l -> NoDup l.
Proof.
  induction l as [|x r IH]; intros S; [constructor|].
  apply StronglySorted_inv in S as [S1 S2]. constructor; [|apply IH; exact S1].
  intros I. rewrite Forall_forall in S2. specialize (S2 _ I). lia.
Qed.

Lemma NoDup_app_disjoint (a b : list nat) :
  NoDup a -> NoDup b -> (forall x, In x a -> ~ In x b) -> NoDup (a ++ b).
Proof.
  induction a as [|x a IH]; intros Na Nb D; [exact Nb|].
  inversion Na as [|? ? NI Na']; subst. cbn [app]. constructor.
  - rewrite in_app_iff. intros [I|I]; [exact (NI I)|]. exact (D x (or_introl eq_refl) I).
  - apply IH; [exact Na'|exact Nb|]. intros y Hy. apply D. right. exact Hy.
Qed.

(* a sorted list is left alone: the first request "as reported" and the sorted one coincide *)
Lemma insert_below x l : SI (x :: l) -> insert x l = x :: l.
Proof.
  intros S. apply StronglySorted_inv in S as [_ F]. destruct l as [|y r]; [reflexivity|].
  cbn [insert]. inversion F; subst. replace (x <=? y) with true by (symmetry; apply Nat.leb_le; lia). reflexivity.
Qed.

Lemma sort_sorted l : SI l -> sort l = l.
Proof.
  induction l as [|x r IH]; intros S; [reflexivity|]. cbn [sort].
  rewrite IH by (apply StronglySorted_inv in S; tauto). apply insert_below. exact S.
Qed.

Theorem next_request_exact srt misses expected i :
  In i (next_request srt misses expected) <-> In i misses \/ In i expected.
Proof.
  unfold next_request. destruct srt; [rewrite In_sort|]; apply in_app_iff.
Qed.

Theorem next_request_strictly_increasing misses expected :
  strictly_increasing misses = true -> strictly_increasing expected = true ->
  (forall i, In i misses -> ~ In i expected) ->
  strictly_increasing (next_request true misses expected) = true /\
  (forall i, In i (next_request true misses expected) <-> In i misses \/ In i expected).
Proof.
  intros Hm He D. split; [|intros i; apply next_request_exact].
  apply si_spec. unfold next_request. apply sort_SI.
  apply NoDup_app_disjoint; [apply SI_NoDup, si_spec, Hm|apply SI_NoDup, si_spec, He|exact D].
Qed.

Lemma filter_SI f l : SI l -> SI (filter f l).
Proof.
  induction l as [|x r IH]; intros S; [constructor|].
  apply StronglySorted_inv in S as [S1 S2]. cbn [filter]. destruct (f x); [|apply IH; exact S1].
  constructor; [apply IH; exact S1|]. apply Forall_forall. intros z Hz. apply filter_In in Hz as [Hz _].
  rewrite Forall_forall in S2. apply S2. exact Hz.
Qed.

(* ---- positional consumption of the honest reply ----------------------------- *)
Lemma entries_from_drop {U} (local : list (option U)) : forall k n idx, n < k ->
  entries_from k local (n :: idx) = entries_from k local idx.
Proof.
  induction local as [|o r IH]; intros k n idx L; [reflexivity|].
  cbn [entries_from]. rewrite (IH (S k) n idx) by lia.
  unfold memb at 1. cbn [existsb]. replace (k =? n) with false by (symmetry; apply Nat.eqb_neq; lia).
  reflexivity.
Qed.

Lemma sorted_head_is n idx : SI idx -> (forall j, In j idx -> n <= j) -> In n idx ->
  exists idx', idx = n :: idx' /\ SI idx' /\ (forall j, In j idx' -> S n <= j).
Proof.
  intros S G I. destruct idx as [|h t]; [contradiction|].
  apply StronglySorted_inv in S as [S1 S2]. rewrite Forall_forall in S2.
  assert (h = n) as ->.
  { destruct I as [E|I]; [exact E|]. specialize (S2 _ I). specialize (G h (or_introl eq_refl)). lia. }
  exists t. split; [reflexivity|]. split; [exact S1|]. intros j Hj. specialize (S2 _ Hj). lia.
Qed.

Lemma consume_gen {U} : forall (full : list U) pre local idx,
  local_ok full local -> SI idx -> (forall j, In j idx -> length pre <= j) ->
  exists us ms,
    uncles_pass U (entries_from (length pre) local idx) (length pre) (honest_reply (pre ++ full) idx) = UOk U us ms /\
    SI ms /\ (forall j, In j ms -> ~ In j idx /\ length pre <= j < length pre + length full) /\
    (ms = [] -> us = full).
Proof.
  induction full as [|u full IH]; intros pre local idx L Hs G.
  - inversion L; subst. cbn [entries_from uncles_pass]. exists [], []. repeat split; try constructor; contradiction.
  - inversion L as [|? o ? local' Ho L']; subst.
    assert (E : pre ++ u :: full = (pre ++ [u]) ++ full) by (rewrite <- app_assoc; reflexivity).
    assert (Ln : length (pre ++ [u]) = S (length pre)) by (rewrite app_length; cbn; lia).
    cbn [entries_from]. destruct (memb (length pre) idx) eqn:M.
    + apply memb_spec in M. destruct (sorted_head_is _ _ Hs G M) as [idx' [-> [S' G']]].
      cbn [honest_reply]. rewrite nth_error_app2 by lia. rewrite Nat.sub_diag. cbn [nth_error].
      rewrite entries_from_drop by lia. rewrite E.
      destruct (IH (pre ++ [u]) local' idx' L' S') as [us [ms [P [Sm [Dm Fm]]]]].
      { intros j Hj. rewrite Ln. apply G'. exact Hj. }
      rewrite Ln in P, Dm.
      cbn [uncles_pass]. rewrite P. exists (u :: us), ms. split; [reflexivity|]. split; [exact Sm|]. split.
      * intros j Hj. destruct (Dm j Hj) as [NI R]. cbn [length]. split; [|lia].
        intros [Ej|Ij]; [lia|exact (NI Ij)].
      * intros Z. rewrite (Fm Z). reflexivity.
    + apply memb_false in M.
      assert (G' : forall j, In j idx -> length (pre ++ [u]) <= j).
      { intros j Hj. rewrite Ln. specialize (G j Hj). assert (j <> length pre) by (intros ->; exact (M Hj)). lia. }
      rewrite E.
      destruct (IH (pre ++ [u]) local' idx L' Hs G') as [us [ms [P [Sm [Dm Fm]]]]].
      rewrite Ln in P, Dm.
      destruct Ho as [->| ->]; cbn [uncles_pass]; rewrite P.
      * exists us, (length pre :: ms). split; [reflexivity|]. split.
        { constructor; [exact Sm|]. apply Forall_forall. intros j Hj. destruct (Dm j Hj) as [_ R]. lia. }
        split; [|discriminate].
        intros j [<-|Hj]; [split; [exact M|cbn [length]; lia]|].
        destruct (Dm j Hj) as [NI R]. cbn [length]. split; [exact NI|lia].
      * exists (u :: us), ms. split; [reflexivity|]. split; [exact Sm|]. split.
        { intros j Hj. destruct (Dm j Hj) as [NI R]. cbn [length]. split; [exact NI|lia]. }
        intros Z. rewrite (Fm Z). reflexivity.
Qed.

(* a strictly increasing request: the honest reply is consumed in place — no
   panic, the reported misses are strictly increasing, disjoint from the
   request and in range, and when nothing is missing the uncles are the
   committed ones in the committed order *)
Theorem sorted_request_consumed_in_place {U} (full : list U) local idx :
  local_ok full local -> strictly_increasing idx = true ->
  exists us ms,
    uncles_pass U (entries_from 0 local idx) 0 (honest_reply full idx) = UOk U us ms /\
    strictly_increasing ms = true /\ (forall j, In j ms -> ~ In j idx /\ j < length full) /\
    (ms = [] -> us = full).
Proof.
  intros L S. apply si_spec in S.
  destruct (consume_gen full [] local idx L S) as [us [ms [P [Sm [Dm Fm]]]]]; [intros; cbn; lia|].
  exists us, ms. cbn [length app] in *. split; [exact P|]. split; [apply si_spec; exact Sm|]. split; [|exact Fm].
  intros j Hj. destruct (Dm j Hj) as [NI R]. split; [exact NI|lia].
Qed.

(* the same through Relayer::reconstruct_block of Compact.v *)
Theorem reconstruct_committed_uncles
  (tx SID : Type) (sid_eqb : SID -> SID -> bool) (sid_of : tx -> SID) (U R : Type)
  (R_eqb : R -> R -> bool) (root : list tx -> R) (pool : SID -> option tx)
  (cb : cblock tx SID U R) recv (full : list U) local idx txs us h :
  cb_uncles tx SID U R cb = entries_from 0 local idx ->
  local_ok full local -> strictly_increasing idx = true ->
  reconstruct tx SID sid_eqb sid_of U R R_eqb root pool cb recv (honest_reply full idx) = Some (RBlock txs us h) ->
  us = full.
Proof.
  intros C L S H. destruct (sorted_request_consumed_in_place full local idx L S) as [us' [ms [P [_ [_ Fm]]]]].
  unfold reconstruct in H. destruct (slots_of tx SID U R cb); [|discriminate].
  rewrite C, P in H.
  destruct (is_nil (none_positions tx 0 _)); cbn [andb] in H; [|discriminate].
  destruct ms as [|m ms]; cbn [is_nil] in H; [|discriminate].
  destruct (R_eqb _ _); [|destruct (_ || _); discriminate].
  inversion H; subst. apply Fm. reflexivity.
Qed.

(* ---- any number of rounds ---------------------------------------------------- *)
Lemma rs_ok_spec st : rs_ok st = true <-> SI (rs_txs st) /\ SI (rs_uncles st).
Proof. unfold rs_ok. rewrite andb_true_iff, !si_spec. reflexivity. Qed.

Lemma is_nil_true {A} (l : list A) : is_nil l = true -> l = [].
Proof. destruct l; [reflexivity|discriminate]. Qed.

Lemma step_ok {U} (first : bool) (full : list U) ut local st :
  rs_ok st = true -> strictly_increasing ut = true -> local_ok full local ->
  match step true first full ut local st with
  | Done us => us = full
  | Ask st' => rs_ok st' = true
  | Panic => False
  | Invalid => False
  end.
Proof.
  intros Hs Hu L. apply rs_ok_spec in Hs as [St Su]. unfold step.
  destruct (sorted_request_consumed_in_place full local (rs_uncles st) L (proj2 (si_spec _) Su))
    as [us [ms [P [Sm [Dm Fm]]]]].
  rewrite P.
  set (mt := filter (fun i => negb (memb i (rs_txs st))) ut).
  assert (Smt : SI mt) by (apply filter_SI, si_spec, Hu).
  assert (Dmt : forall i, In i mt -> ~ In i (rs_txs st)).
  { intros i Hi. apply filter_In in Hi as [_ Hi]. apply negb_true_iff in Hi. apply memb_false. exact Hi. }
  destruct (is_nil mt && is_nil ms) eqn:Z.
  - apply andb_true_iff in Z as [_ Z]. apply Fm, is_nil_true, Z.
  - destruct first.
    + apply rs_ok_spec. cbn [rs_txs rs_uncles]. split; [exact Smt|apply si_spec; exact Sm].
    + unfold rs_ok. cbn [rs_txs rs_uncles]. apply andb_true_iff. split.
      * apply next_request_strictly_increasing; [apply si_spec; exact Smt|apply si_spec; exact St|exact Dmt].
      * apply next_request_strictly_increasing; [exact Sm|apply si_spec; exact Su|].
        intros i Hi. exact (proj1 (Dm i Hi)).
Qed.

(* every request of an exchange with an honest peer, whatever is locally
   available at each event, is strictly increasing; the exchange never panics,
   never ends in an invalid verdict, and a block it yields has the committed
   uncles in the committed order *)
Theorem rounds_sound {U} (full : list U) : forall events first st reqs fin,
  rs_ok st = true ->
  Forall (fun ev => strictly_increasing (fst ev) = true /\ local_ok full (snd ev)) events ->
  run true full events first st = (reqs, fin) ->
  Forall (fun r => rs_ok r = true) reqs /\ fin <> FPanic /\ fin <> FInvalid /\
  (forall us, fin = FBlock us -> us = full).
Proof.
  induction events as [|[ut local] rest IH]; intros first st reqs fin Hs Hev H.
  - cbn in H. inversion H; subst. repeat split; try constructor; try discriminate.
  - inversion Hev as [|? ? [Hu L] Hrest]; subst. cbn [fst snd] in *.
    cbn [run] in H. pose proof (step_ok first full ut local st Hs Hu L) as K.
    destruct (step true first full ut local st) as [us|st'| |].
    + inversion H; subst. repeat split; try constructor; try discriminate.
      intros us' E. inversion E; subst. reflexivity.
    + destruct (run true full rest false st') as [reqs' fin'] eqn:R. inversion H; subst.
      destruct (IH false st' reqs' fin K Hrest R) as [F [N1 [N2 B]]].
      repeat split; try assumption. constructor; assumption.
    + contradiction.
    + contradiction.
Qed.

(* ---- the variant without the sort --------------------------------------------
   two uncles; the compact block arrives while uncle 1 is found locally: uncle 0
   (and transaction 1) are asked.  Before the reply is processed uncle 1 is gone:
   the next request is [1] ++ [0].  The honest peer answers [uncle 1; uncle 0],
   BlockUnclesVerifier accepts (it compares per requested index), the uncles are
   consumed in compact order: the block carries [uncle 1; uncle 0]. *)
Definition ex_full : list N := [10; 11]%N.
Definition ex_events : list (list nat * list (option N)) :=
  [([1], [None; Some 11%N]); ([1], [None; None]); ([1], [None; None])].

Theorem unsorted_request_refuted :
  Forall (fun ev => strictly_increasing (fst ev) = true /\ local_ok ex_full (snd ev)) ex_events /\
  run false ex_full ex_events true rs_empty = ([mkRS [1] [0]; mkRS [1] [1; 0]], FBlock [11; 10]%N) /\
  uncles_verify true ex_full [1; 0] (honest_reply ex_full [1; 0]) = true /\
  run true ex_full ex_events true rs_empty = ([mkRS [1] [0]; mkRS [1] [0; 1]], FBlock ex_full).
Proof.
  split; [|split; [|split]]; try (vm_compute; reflexivity).
  unfold ex_events, ex_full, local_ok.
  repeat constructor; (right; reflexivity) || (left; reflexivity).
Qed.
