(* Codec/TxsVerify.v — sync/src/relayer/block_transactions_verifier.rs: the check that stands
   between a peer's BlockTransactions reply and Relayer::reconstruct_block.

     util/types/src/extension.rs  CompactBlock::block_short_ids: one slot per transaction of the
                                  block (txs_len = prefilled + short ids): None at a prefilled
                                  index (a HashSet of the carried indexes), else the next short id
                                  (`short_ids().get(index)`: None once the list is exhausted, which
                                  happens when a prefilled index lies beyond txs_len)
     BlockTransactionsVerifier::verify(pending compact block, indexes, transactions):
                                  the expected ids are the slots at the asked indexes (a None slot
                                  adds nothing); as many transactions, with these short ids in
                                  this order.  The indexes were computed from the compact block
                                  THIS peer sent; the pending compact block is the one announced
                                  first for the header, by any peer, and may list fewer
                                  transactions.  [fixd = false] is the verifier as it was:
                                  `block_short_ids.get(i).expect("should never outbound")`
                                  (F22, repaired by 9340551).
   Indexes are N (a peer may send u32::MAX).  No proofs in this file. *)
From Coq Require Export List NArith Arith Bool.
Export ListNotations.

Fixpoint bsids (fuel : nat) (i : N) (pre : list N) (sids : list N) : list (option N) :=
  match fuel with
  | O => []
  | S f =>
    if existsb (N.eqb i) pre then None :: bsids f (N.succ i) pre sids
    else match sids with
         | [] => None :: bsids f (N.succ i) pre []
         | s :: r => Some s :: bsids f (N.succ i) pre r
         end
  end.
Definition block_short_ids (pre sids : list N) : list (option N) :=
  bsids (length pre + length sids) 0%N pre sids.

Fixpoint nthN {A} (l : list A) (i : N) : option A :=
  match l with
  | [] => None
  | x :: r => if N.eqb i 0 then Some x else nthN r (N.pred i)
  end.

(* the short ids the reply must carry; None: an index beyond the pending block *)
Fixpoint expected (b : list (option N)) (idx : list N) : option (list N) :=
  match idx with
  | [] => Some []
  | i :: r =>
    match nthN b i with
    | None => None
    | Some o =>
      match expected b r with
      | None => None
      | Some l => Some (match o with Some s => s :: l | None => l end)
      end
    end
  end.

Fixpoint listN_eq (a b : list N) : bool :=
  match a, b with
  | [], [] => true
  | x :: a', y :: b' => N.eqb x y && listN_eq a' b'
  | _, _ => false
  end.

Inductive tverdict := TOk | TLength | TUnmatched | TPanic.
Definition tverdict_eqb (a b : tverdict) : bool :=
  match a, b with TOk, TOk | TLength, TLength | TUnmatched, TUnmatched | TPanic, TPanic => true | _, _ => false end.

Definition txs_verify (fixd : bool) (b : list (option N)) (idx : list N) (recv : list N) : tverdict :=
  match expected b idx with
  | None => if fixd then TUnmatched else TPanic
  | Some e =>
    if negb (Nat.eqb (length e) (length recv)) then TLength
    else if listN_eq e recv then TOk else TUnmatched
  end.

(* ---- cases from the harness ------------------------------------------------ *)
Fixpoint optlist_eqb (a b : list (option N)) : bool :=
  match a, b with
  | [], [] => true
  | None :: a', None :: b' => optlist_eqb a' b'
  | Some x :: a', Some y :: b' => N.eqb x y && optlist_eqb a' b'
  | _, _ => false
  end.
Record tvcase := mkTV {
  tv_pre : list N; tv_sids : list N;        (* the pending compact block *)
  tv_slots : list (option N);               (* its block_short_ids(), as the implementation computed them *)
  tv_idx : list N; tv_recv : list N;        (* asked indexes, short ids of the reply's transactions *)
  tv_verdict : tverdict }.
Definition check_tvcase (c : tvcase) : bool :=
  optlist_eqb (block_short_ids (tv_pre c) (tv_sids c)) (tv_slots c)
  && tverdict_eqb (txs_verify true (tv_slots c) (tv_idx c) (tv_recv c)) (tv_verdict c).
