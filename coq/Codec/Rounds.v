(* Codec/Rounds.v — the bookkeeping between the rounds of a compact block
   exchange (sync/src/relayer/{compact_block_process.rs,
   block_transactions_process.rs, get_block_transactions_process.rs} and the
   uncle loop of Relayer::reconstruct_block).

   State per (compact block, peer): the indexes asked last
   (expected_transaction_indexes, expected_uncle_indexes).
   * CompactBlockProcess: reconstruct with nothing received; on Missing(t, u)
     the request and the state are (t, u) as reported.
   * BlockTransactionsProcess: reconstruct with the reply and the state's
     uncle indexes; on Missing(t, u) the next request and state are
         sort_unstable (t ++ expected_t), sort_unstable (u ++ expected_u)
     (no dedup is performed by the code).
   * an honest peer (GetBlockTransactionsProcess) answers item by item in the
     order of the requested indexes, skipping indexes out of range.
   * reconstruct_block consumes the received uncles positionally:
     `received_uncles[position]`, position += 1, for every compact index
     contained in uncles_index, in increasing compact order ([uncles_pass] of
     Compact.v over [entries_from]).
   [srt = false] is the variant without the sort (misses ++ expected).
   Model only; proofs in RoundsProofs.v. *)
From Coq Require Import List NArith Arith Bool.
From CKB Require Import Codec.Compact Codec.UnclesVerify.
Import ListNotations.

(* sort_unstable on u32 indexes: the result of sorting is determined by the
   multiset, insertion sort computes it *)
Fixpoint insert (x : nat) (l : list nat) : list nat :=
  match l with
  | [] => [x]
  | y :: r => if x <=? y then x :: l else y :: insert x r
  end.
Fixpoint sort (l : list nat) : list nat :=
  match l with [] => [] | x :: r => insert x (sort r) end.

Definition next_request (srt : bool) (misses expected : list nat) : list nat :=
  if srt then sort (misses ++ expected) else misses ++ expected.

Definition memb (i : nat) (l : list nat) : bool := existsb (Nat.eqb i) l.

(* GetBlockTransactionsProcess: filter_map (block.uncles().get(i)) over the requested indexes *)
Fixpoint honest_reply {A} (full : list A) (req : list nat) : list A :=
  match req with
  | [] => []
  | i :: r => match nth_error full i with
              | Some x => x :: honest_reply full r
              | None => honest_reply full r
              end
  end.

(* what reconstruct_block does with uncle i: `uncles_index.contains(i)` -> next
   received uncle; otherwise the block found under the uncle's hash ([Some u]:
   status stored / received and the block is there) or a miss ([None]: unknown,
   header only, status without the block) *)
Fixpoint entries_from {U} (i : nat) (local : list (option U)) (idx : list nat) : list (uentry U) :=
  match local with
  | [] => []
  | o :: r => (if memb i idx then UGiven
               else match o with Some u => ULocal u | None => UMiss end) :: entries_from (S i) r idx
  end.

(* expected_transaction_indexes, expected_uncle_indexes *)
Record rstate := mkRS { rs_txs : list nat; rs_uncles : list nat }.
Definition rs_empty := mkRS [] [].

Inductive outcome (U : Type) :=
| Done (us : list U)          (* ReconstructionResult::Block with these uncles, in this order *)
| Ask (st : rstate)           (* the GetBlockTransactions sent = the new state *)
| Panic                       (* `expect("have checked the indexes")` *)
| Invalid.
Arguments Done {U}. Arguments Ask {U}. Arguments Panic {U}. Arguments Invalid {U}.

(* one event: [first] = the compact block itself (nothing received, request as
   reported); otherwise the honest reply to the state's request.
   [unavail_t]: transaction positions for which neither the pool nor the
   prefilled list has a transaction; the positions asked last are filled from
   the reply, so they are not reported missing *)
Definition step {U} (srt first : bool) (full : list U) (unavail_t : list nat) (local : list (option U))
    (st : rstate) : outcome U :=
  let mt := filter (fun i => negb (memb i (rs_txs st))) unavail_t in
  match uncles_pass U (entries_from 0 local (rs_uncles st)) 0 (honest_reply full (rs_uncles st)) with
  | UOk _ us mu =>
      if is_nil mt && is_nil mu then Done us
      else if first then Ask (mkRS mt mu)
      else Ask (mkRS (next_request srt mt (rs_txs st)) (next_request srt mu (rs_uncles st)))
  | UPanic _ => Panic
  | UErr _ => Invalid
  end.

Inductive final (U : Type) := FBlock (us : list U) | FOpen | FPanic | FInvalid.
Arguments FBlock {U}. Arguments FOpen {U}. Arguments FPanic {U}. Arguments FInvalid {U}.

(* a whole exchange: local availability is an arbitrary input of every event *)
Fixpoint run {U} (srt : bool) (full : list U) (events : list (list nat * list (option U))) (first : bool)
    (st : rstate) : list rstate * final U :=
  match events with
  | [] => ([], FOpen)
  | (ut, local) :: rest =>
      match step srt first full ut local st with
      | Done us => ([], FBlock us)
      | Ask st' => let '(reqs, fin) := run srt full rest false st' in (st' :: reqs, fin)
      | Panic => ([], FPanic)
      | Invalid => ([], FInvalid)
      end
  end.

(* what is found locally under the hash of uncle i is uncle i *)
Definition local_ok {U} (full : list U) (local : list (option U)) : Prop :=
  Forall2 (fun u o => o = None \/ o = Some u) full local.

Definition rs_ok (st : rstate) : bool := strictly_increasing (rs_txs st) && strictly_increasing (rs_uncles st).

(* ---- cases from the harness ------------------------------------------------ *)
Fixpoint locals (full : list N) (avail : list bool) : list (option N) :=
  match full, avail with
  | u :: f, a :: r => (if a then Some u else None) :: locals f r
  | _, _ => []
  end.

Fixpoint listnat_eqb (a b : list nat) : bool :=
  match a, b with
  | [], [] => true
  | x :: a', y :: b' => Nat.eqb x y && listnat_eqb a' b'
  | _, _ => false
  end.
Fixpoint reqs_eqb (a : list rstate) (b : list (list nat * list nat)) : bool :=
  match a, b with
  | [], [] => true
  | x :: a', (t, u) :: b' => listnat_eqb (rs_txs x) t && listnat_eqb (rs_uncles x) u && reqs_eqb a' b'
  | _, _ => false
  end.

Record rounds_case := mkRounds {
  rd_full : list N;                            (* committed uncles (ids), committed order *)
  rd_events : list (list nat * list bool);     (* per event: transaction positions without a local transaction;
                                                  per uncle: found locally *)
  rd_reqs : list (list nat * list nat);        (* every GetBlockTransactions the relayer sent: indexes, uncle_indexes *)
  rd_final : option (list N) }.                (* uncles of the block handed to the chain, None: no block *)

Definition check_rounds (c : rounds_case) : bool :=
  let '(reqs, fin) := run true (rd_full c) (map (fun e => (fst e, locals (rd_full c) (snd e))) (rd_events c)) true rs_empty in
  reqs_eqb reqs (rd_reqs c) &&
  match fin, rd_final c with
  | FBlock us, Some us' => listN_eqb us us'
  | FOpen, None => true
  | _, _ => false
  end.
