(* Codec/UnclesVerify.v — sync/src/relayer/block_uncles_verifier.rs and what
   Relayer::reconstruct_block relies on it for.
   BlockUnclesVerifier::verify(compact, indexes, uncles): the expected ids are
   the compact block's uncle hashes at the requested indexes (filter_map: an
   index beyond the list is skipped); the reply must carry as many uncles, with
   these hashes in this order.  [fixd = false] is the verifier as it was: the
   length-mismatch status was built and dropped (F13, repaired by 2db54f8).
   reconstruct_block then takes `received_uncles.get(position).expect(..)` for
   every uncle whose index is among the requested ones ([UGiven] in Compact.v). *)
From Coq Require Import List NArith Arith Bool Lia.
From CKB Require Import Codec.Compact.
Import ListNotations.

Fixpoint filter_map_nth (all : list N) (indexes : list nat) : list N :=
  match indexes with
  | [] => []
  | i :: r => match nth_error all i with
              | Some h => h :: filter_map_nth all r
              | None => filter_map_nth all r
              end
  end.

Fixpoint zip_all_eq (a b : list N) : bool :=
  match a, b with
  | x :: a', y :: b' => N.eqb x y && zip_all_eq a' b'
  | _, _ => true                       (* zip stops at the shorter list *)
  end.

Definition uncles_verify (fixd : bool) (all_hashes : list N) (indexes : list nat) (recv_hashes : list N) : bool :=
  let expected := filter_map_nth all_hashes indexes in
  (if fixd then Nat.eqb (length expected) (length recv_hashes) else true) && zip_all_eq expected recv_hashes.

(* how many received uncles reconstruct_block will take *)
Fixpoint count_given {U} (es : list (uentry U)) : nat :=
  match es with
  | [] => 0
  | UGiven :: r => S (count_given r)
  | _ :: r => count_given r
  end.

Lemma uncles_pass_no_panic {U} (es : list (uentry U)) : forall i recv,
  count_given es <= length recv -> uncles_pass U es i recv <> UPanic U.
Proof.
  induction es as [|e es IH]; intros i recv H; cbn [uncles_pass]; [discriminate|].
  destruct e as [|u| |]; cbn [count_given] in H.
  - destruct recv as [|r recv]; [cbn in H; lia|]. cbn [length] in H.
    specialize (IH (S i) recv ltac:(lia)). destruct (uncles_pass U es (S i) recv); congruence.
  - specialize (IH (S i) recv H). destruct (uncles_pass U es (S i) recv); congruence.
  - specialize (IH (S i) recv H). destruct (uncles_pass U es (S i) recv); congruence.
  - discriminate.
Qed.

(* the uncles reconstruct_block takes from the reply are those at the requested
   indexes: one entry per requested index that is in range *)
Definition given_matches {U} (es : list (uentry U)) (all_hashes : list N) (indexes : list nat) : Prop :=
  length all_hashes = length es /\ count_given es = length (filter_map_nth all_hashes indexes).

Theorem verified_uncles_never_panic {U} (es : list (uentry U)) all_hashes indexes (recv : list U) (hash : U -> N) :
  given_matches es all_hashes indexes ->
  uncles_verify true all_hashes indexes (map hash recv) = true ->
  uncles_pass U es 0 recv <> UPanic U.
Proof.
  intros [_ Hc] Hv. unfold uncles_verify in Hv. apply andb_true_iff in Hv as [Hl _].
  apply Nat.eqb_eq in Hl. rewrite map_length in Hl. apply uncles_pass_no_panic. lia.
Qed.

(* F13: the verifier as it was accepts an empty reply for one requested uncle,
   and reconstruct_block panics on it *)
Theorem uncles_verify_old_refuted :
  uncles_verify false [7%N] [0] [] = true /\
  given_matches [@UGiven N] [7%N] [0] /\
  uncles_pass N [@UGiven N] 0 [] = UPanic N /\
  uncles_verify true [7%N] [0] [] = false.
Proof. repeat split. Qed.

(* ---- cases from the harness ------------------------------------------------ *)
Record uvcase := mkUV { uv_all : list N; uv_idx : list nat; uv_recv : list N; uv_ok : bool }.
Definition check_uvcase (c : uvcase) : bool :=
  Bool.eqb (uncles_verify true (uv_all c) (uv_idx c) (uv_recv c)) (uv_ok c).
