(* Codec/Json.v — the JSON leaf codecs of util/jsonrpc-types/src/uints.rs as
   string functions (a string is the list of its byte values).  [print_uint]
   is `write!(f, "0x{:x}", v)`; [parse_uint] is JsonUintVisitor::visit_str
   followed by uN::from_str_radix(_, 16) as core implements it (optional
   leading '+', digits 0-9 a-f A-F, overflow is an error).  Model only. *)
From Coq Require Import List NArith Bool.
Import ListNotations.
Local Open Scope N_scope.

Definition hex_digit (d : N) : N := if d <? 10 then 48 + d else 87 + d.

Fixpoint hex_digits (fuel : nat) (n : N) (acc : list N) : list N :=
  match fuel with
  | O => acc
  | S f => let acc' := hex_digit (n mod 16) :: acc in
           if n / 16 =? 0 then acc' else hex_digits f (n / 16) acc'
  end.

(* "0x" ++ lower-case hex without leading zeros (u128 has at most 32 digits) *)
Definition print_uint (n : N) : list N := 48 :: 120 :: hex_digits 40 n [].

Definition digit_val (c : N) : option N :=
  if (48 <=? c) && (c <=? 57) then Some (c - 48)
  else if (97 <=? c) && (c <=? 102) then Some (c - 87)
  else if (65 <=? c) && (c <=? 70) then Some (c - 55)
  else None.

Fixpoint parse_digits (bound acc : N) (s : list N) : option N :=
  match s with
  | [] => Some acc
  | c :: r => match digit_val c with
              | None => None
              | Some d => let a := acc * 16 + d in
                          if a <? bound then parse_digits bound a r else None
              end
  end.

Definition is_nil {A} (l : list A) : bool := match l with [] => true | _ => false end.

(* uN::from_str_radix(s, 16) for an unsigned type of the given bound *)
Definition from_str_radix16 (bound : N) (s : list N) : option N :=
  match s with
  | [] => None
  | c :: r => if (c =? 43) || (c =? 45)
              then (if is_nil r then None else if c =? 43 then parse_digits bound 0 r else None)
              else parse_digits bound 0 s
  end.

Definition parse_uint (bits : N) (s : list N) : option N :=
  match s with
  | 48 :: 120 :: c :: r =>
      if (c =? 48) && negb (is_nil r) then None else from_str_radix16 (2 ^ bits) (c :: r)
  | _ => None
  end.

Definition lower_hex (c : N) : bool := ((48 <=? c) && (c <=? 57)) || ((97 <=? c) && (c <=? 102)).

(* ---- cases of the correspondence harness -------------------------------- *)
Fixpoint str_eqb (a b : list N) : bool :=
  match a, b with
  | [], [] => true
  | x :: a', y :: b' => (x =? y) && str_eqb a' b'
  | _, _ => false
  end.
(* (bits, n, what serde_json printed, without the quotes) *)
Definition check_print (c : N * N * list N) : bool :=
  let '(bits, n, s) := c in str_eqb (print_uint n) s.
(* (bits, string, what from_str answered) *)
Definition check_parse (c : N * list N * option N) : bool :=
  let '(bits, s, r) := c in
  match parse_uint bits s, r with
  | Some a, Some b => a =? b
  | None, None => true
  | _, _ => false
  end.
