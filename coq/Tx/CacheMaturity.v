(* Tx/CacheMaturity.v — the position-dependent check on the verification cache's
   hit path, taken apart (property C14).  No proofs in this file.

   verification/src/transaction_verifier.rs
     TimeRelativeTransactionVerifier::verify  =  self.maturity.verify()?; self.since.verify()?
     MaturityVerifier::verify
        cellbase_immature(meta) = block_number > 0 && is_cellbase &&
                                  epoch(commit block) < cellbase_maturity + epoch(block of the cell)
        first loop  : resolved_inputs     -> CellbaseImmaturity(Inputs, i)
        second loop : resolved_cell_deps  -> CellbaseImmaturity(CellDeps, i)
                      (resolved_cell_deps holds the members of expanded dep groups too)
   verification/contextual/src/contextual_block_verifier.rs  BlockTxsVerifier::verify
        hit : TimeRelativeTransactionVerifier, then the cached Completed

   [time_relative] of Tx/Cache.v Section VCache is instantiated with the
   conjunction of the three checks.  A hit path that evaluates them only for the
   transactions some syntactic test [has_constraint] selects is modelled beside
   it ([verify_hit_g] ...): it is the cache model exactly when the test is
   complete, and a test that looks at the inputs only is not. *)
From CKB Require Export Tx.Cache.

Section Maturity.
  Variable tx : Type.
  Variable ctx : Type.
  Variable wtx_hash : tx -> N.
  Variable content : tx -> option completed.           (* capacity, scripts, fee *)
  Variable since_ok : ctx -> tx -> bool.                (* SinceVerifier at a position *)
  Variable maturity_inputs : ctx -> tx -> bool.         (* MaturityVerifier over resolved_inputs *)
  Variable maturity_deps : ctx -> tx -> bool.           (* MaturityVerifier over resolved_cell_deps *)
  Variable max_block_cycles : N.

  Definition tr_mat (x : ctx) (t : tx) : bool :=
    maturity_inputs x t && maturity_deps x t && since_ok x t.

  (* "does the transaction carry anything the position-dependent checks look at" *)
  Variable has_constraint : tx -> bool.

  Definition verify_hit_g (x : ctx) (t : tx) (e : completed) : option completed :=
    if has_constraint t then verify_hit tx ctx tr_mat x t e else Some e.

  Definition verify_tx_g (c : fmap completed) (x : ctx) (lim : N) (skip : bool) (t : tx) : option completed :=
    match lookup c (wtx_hash t) with
    | Some e => verify_hit_g x t e
    | None => verify_full tx ctx content tr_mat x lim skip t
    end.

  Fixpoint verify_txs_g (c : fmap completed) (x : ctx) (skip : bool) (txs : list tx) : option (list completed) :=
    match txs with
    | [] => Some []
    | t :: txs' =>
      match verify_tx_g c x max_block_cycles skip t with
      | Some e => match verify_txs_g c x skip txs' with Some l => Some (e :: l) | None => None end
      | None => None
      end
    end.

  Definition verify_block_g (c : fmap completed) (x : ctx) (skip : bool) (txs : list tx) : option (list completed) * fmap completed :=
    match verify_txs_g c x skip txs with
    | Some es =>
      let c' := put_all tx wtx_hash txs es c in
      (if N.leb (sum_cycles es) max_block_cycles then Some es else None, c')
    | None => (None, c)
    end.

  (* histories on a node whose BLOCK path is the gated one (the pool's path is untouched) *)
  Definition gstep (c : fmap completed) (o : vop tx ctx) : vout * fmap completed :=
    match o with
    | VSubmit x d a t => let (r, c') := submit tx ctx wtx_hash content tr_mat max_block_cycles c x d a t in (OTx r, c')
    | VBlock x skip txs => let (r, c') := verify_block_g c x skip txs in (OBlock r, c')
    | VEvict keep => (ONone, restrict keep c)
    end.

  Fixpoint grun (c : fmap completed) (ops : list (vop tx ctx)) : list vout :=
    match ops with
    | [] => []
    | o :: ops' => let (r, c') := gstep c o in r :: grun c' ops'
    end.

  (* the test is complete: what it does not select passes at every position *)
  Definition constraint_complete : Prop :=
    forall t, has_constraint t = false -> forall x, tr_mat x t = true.
End Maturity.

(* ---- a concrete reading: positions are commit heights ------------------------ *)
(* one block per 1/len epoch and cellbase_maturity = k/len: the cellbase output of
   block c (c > 0) is mature in a block at height x iff c + k <= x *)
Record htx := mkH {
  h_wtx : N;
  h_content : option completed;
  h_since : N;               (* 0 = no since; otherwise an absolute block number on an input *)
  h_in_cb : list N;          (* heights of the blocks whose cellbase outputs the transaction spends *)
  h_dep_cb : list N          (* heights of the blocks whose cellbase outputs it lists as cell deps / reaches through a dep group *)
}.

Definition h_mature (k x c : N) : bool := N.eqb c 0 || N.leb (c + k) x.
Definition h_since_ok (x : N) (t : htx) : bool := N.leb (h_since t) x.
Definition h_mat_in (k x : N) (t : htx) : bool := forallb (h_mature k x) (h_in_cb t).
Definition h_mat_dep (k x : N) (t : htx) : bool := forallb (h_mature k x) (h_dep_cb t).
Definition h_tr (k : N) : N -> htx -> bool := tr_mat htx N h_since_ok (h_mat_in k) (h_mat_dep k).

Definition is_nil {A} (l : list A) : bool := match l with [] => true | _ => false end.
(* "a since on an input, or a cellbase output it spends" *)
Definition h_constraint_inputs (t : htx) : bool := negb (N.eqb (h_since t) 0) || negb (is_nil (h_in_cb t)).
(* ... or a cellbase output among its resolved cell deps *)
Definition h_constraint_all (t : htx) : bool := h_constraint_inputs t || negb (is_nil (h_dep_cb t)).

Definition h_run (k maxc : N) := vrun htx N h_wtx h_content (h_tr k) maxc.
Definition h_ref (k maxc : N) := vrun_ref htx N h_wtx h_content (h_tr k) maxc.
Definition h_grun (hc : htx -> bool) (k maxc : N) :=
  grun htx N h_wtx h_content h_since_ok (h_mat_in k) (h_mat_dep k) maxc hc.

(* ---- the maturity stream's instance ------------------------------------------ *)
(* a transaction at one position of a history: witness-hash id, content result, and
   the generator's own reading of the three checks at that position *)
Record motx := mkMO { mo_wtx : N; mo_content : option completed; mo_since : bool; mo_mat_in : bool; mo_mat_dep : bool }.

Definition m_tr : unit -> motx -> bool :=
  tr_mat motx unit (fun _ t => mo_since t) (fun _ t => mo_mat_in t) (fun _ t => mo_mat_dep t).
Definition m_verify_block (maxc : N) (c : fmap completed) (txs : list motx) :=
  verify_block motx unit mo_wtx mo_content m_tr maxc c tt false txs.

Inductive mitem :=
(* one delivery that makes the node verify these blocks in this order (a block on the
   tip: itself; a block that makes a side branch the heavier one: every unverified
   block of that branch, lowest first, stopping at the first failure); the node's
   verdict on the delivery and, when accepted, the BlockExt records of the blocks *)
| MVerify (blocks : list (list motx)) (accepted : bool) (recorded : list (list completed))
(* restart, or the cache is cleared *)
| MForget.

Record mcase := mkMCase { mc_maxc : N; mc_cap : option nat; mc_init : fmap completed; mc_items : list mitem }.

Fixpoint m_verify_path (maxc : N) (cap : option nat) (c : fmap completed) (blocks : list (list motx))
  : option (list (list completed)) * fmap completed :=
  match blocks with
  | [] => (Some [], c)
  | b :: bs =>
    let (r, c') := m_verify_block maxc c b in
    match r with
    | Some es =>
      let (r', c'') := m_verify_path maxc cap (trunc cap c') bs in
      (match r' with Some l => Some (es :: l) | None => None end, c'')
    | None => (None, trunc cap c')
    end
  end.

Fixpoint check_mitems (maxc : N) (cap : option nat) (c : fmap completed) (l : list mitem) : bool :=
  match l with
  | [] => true
  | MForget :: l' => check_mitems maxc cap [] l'
  | MVerify blocks acc rec :: l' =>
    let (r, c') := m_verify_path maxc cap c blocks in
    match r with
    | Some ess => acc && list_eqb (list_eqb completed_eqb) ess rec
    | None => negb acc
    end && check_mitems maxc cap c' l'
  end.

Definition check_mcase (v : mcase) : bool :=
  check_mitems (mc_maxc v) (mc_cap v) (trunc (mc_cap v) (mc_init v)) (mc_items v).
