(* Tx/Recheck.v — executable model of util/types/src/core/cell.rs
     ResolvedTransaction::check            (re-validation of a transaction resolved earlier)
     resolve_transaction with SYSTEM_CELL  (resolve_transaction_deps_with_system_cell_cache, cached branch)
   on the types of Tx/Resolve.v.

   SYSTEM_CELL is a HashMap CellDep -> ResolvedDep built once by
   setup_system_cell_cache: keys (out point, Code) hold ResolvedDep::Cell, keys
   (out point, DepGroup) hold ResolvedDep::Group(group cell, member cells).
   Here: the list of cached code out points and an association list
   group out point -> member out points.

   The [checked_cells] memo of check is modelled as it is written (the set of
   out points already found live; consulted AFTER seen_inputs); Tx/RecheckProofs.v
   shows it never changes an answer.  seen_inputs is a list (a set in the code;
   only membership is used).  No proofs in this file. *)
From CKB Require Export Tx.Resolve.
Local Open Scope N_scope.

Record syscache := mkSys {
  sys_codes : list outpoint;                       (* keys with DepType::Code *)
  sys_groups : list (outpoint * list outpoint)     (* keys with DepType::DepGroup -> members *)
}.
Definition sys_code (c : syscache) (o : outpoint) : bool := op_mem o (sys_codes c).
Fixpoint assoc_group (l : list (outpoint * list outpoint)) (o : outpoint) : option (list outpoint) :=
  match l with
  | [] => None
  | (g, subs) :: rest => if op_eqb g o then Some subs else assoc_group rest o
  end.
Definition sys_group (c : syscache) (o : outpoint) : option (list outpoint) := assoc_group (sys_groups c) o.
Definition sys_empty : syscache := mkSys [] [].

(* ---- resolve_transaction when SYSTEM_CELL is set ------------------------------ *)
(* a cached dep is pushed without asking the provider or seen_inputs; anything
   else goes through resolve_transaction_dep as in Tx/Resolve.v *)
Fixpoint resolve_deps_sys (c : syscache) (seen : list outpoint) (p : provider) (slots : N)
                          (deps : list (outpoint * bool)) : res (list outpoint * list outpoint) :=
  match deps with
  | [] => Ok ([], [])
  | (o, true) :: rest =>
      match sys_group c o with
      | Some subs =>
          let n := N.of_nat (length subs) in
          if slots <? n then Err EOverMaxDepExpansionLimit
          else r <-- resolve_deps_sys c seen p (slots - n) rest ;;
               Ok (subs ++ fst r, o :: snd r)
      | None =>
          d <-- resolve_cell seen p o ;;
          match parse_group d with
          | None => Err (EInvalidDepGroup o)
          | Some subs =>
              let n := N.of_nat (length subs) in
              if slots <? n then Err EOverMaxDepExpansionLimit
              else _ <-- resolve_cells seen p subs ;;
                   r <-- resolve_deps_sys c seen p (slots - n) rest ;;
                   Ok (subs ++ fst r, o :: snd r)
          end
      end
  | (o, false) :: rest =>
      if sys_code c o then
        if slots <? 1 then Err EOverMaxDepExpansionLimit
        else r <-- resolve_deps_sys c seen p (slots - 1) rest ;;
             Ok (o :: fst r, snd r)
      else
        if slots <? 1 then Err EOverMaxDepExpansionLimit
        else _ <-- resolve_cell seen p o ;;
             r <-- resolve_deps_sys c seen p (slots - 1) rest ;;
             Ok (o :: fst r, snd r)
  end.

Definition resolve_transaction_sys (c : syscache) (seen : list outpoint) (p : provider) (hc : N -> bool) (t : tx)
  : res (rtx * list outpoint) :=
  ins <-- (if is_cellbase t then Ok [] else resolve_inputs seen p [] (t_inputs t)) ;;
  ds <-- resolve_deps_sys c seen p MAX_DEP_EXPANSION_LIMIT (t_deps t) ;;
  _ <-- check_headers hc (t_hdeps t) ;;
  Ok (mkRtx ins (fst ds) (snd ds), ins ++ seen).

(* SYSTEM_CELL.get(): None = the OnceLock is not set *)
Definition resolve_transaction_with (sys : option syscache) (seen : list outpoint) (p : provider) (hc : N -> bool) (t : tx)
  : res (rtx * list outpoint) :=
  match sys with
  | None => resolve_transaction seen p hc t
  | Some c => resolve_transaction_sys c seen p hc t
  end.

(* ---- ResolvedTransaction::check ------------------------------------------------ *)
(* the closure check_cell; [memo] = checked_cells, returned updated *)
Definition check_cell (seen : list outpoint) (p : provider) (memo : list outpoint) (o : outpoint)
  : res (list outpoint) :=
  if op_mem o seen then Err (EDead o)
  else if op_mem o memo then Ok memo
  else match p o with                    (* CellChecker::is_live *)
       | Live _ => Ok (o :: memo)
       | Dead => Err (EDead o)
       | Unknown => Err (EUnknown o)
       end.

Fixpoint check_list (seen : list outpoint) (p : provider) (memo : list outpoint) (os : list outpoint)
  : res (list outpoint) :=
  match os with
  | [] => Ok memo
  | o :: rest => m <-- check_cell seen p memo o ;; check_list seen p m rest
  end.

(* SYSTEM_CELL set, first loop: over resolved_dep_groups.  A cached group is
   not checked, its members go to resolved_system_deps [sd]; any other group
   cell is checked *)
Fixpoint check_groups_sys (c : syscache) (seen : list outpoint) (p : provider) (memo sd : list outpoint)
                          (gs : list outpoint) : res (list outpoint * list outpoint) :=
  match gs with
  | [] => Ok (memo, sd)
  | g :: rest =>
      match sys_group c g with
      | Some subs => check_groups_sys c seen p memo (subs ++ sd) rest
      | None => m <-- check_cell seen p memo g ;; check_groups_sys c seen p m sd rest
      end
  end.

(* second loop: over resolved_cell_deps; cached code cells and members of the
   cached groups met in the first loop are not checked *)
Fixpoint check_deps_sys (c : syscache) (seen : list outpoint) (p : provider) (memo sd : list outpoint)
                        (os : list outpoint) : res (list outpoint) :=
  match os with
  | [] => Ok memo
  | o :: rest =>
      if sys_code c o || op_mem o sd then check_deps_sys c seen p memo sd rest
      else m <-- check_cell seen p memo o ;; check_deps_sys c seen p m sd rest
  end.

(* check: [Ok] carries the new seen_inputs.  The transaction is needed for its
   header deps only. *)
Definition recheck (sys : option syscache) (seen : list outpoint) (p : provider) (hc : N -> bool)
                   (t : tx) (r : rtx) : res (list outpoint) :=
  m <-- check_list seen p [] (r_inputs r) ;;
  _ <-- match sys with
        | Some c =>
            ms <-- check_groups_sys c seen p m [] (r_groups r) ;;
            check_deps_sys c seen p (fst ms) (snd ms) (r_deps r)
        | None => check_list seen p m (r_deps r ++ r_groups r)
        end ;;
  _ <-- check_headers hc (t_hdeps t) ;;
  Ok (r_inputs r ++ seen).
