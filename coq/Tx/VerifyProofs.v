(* Tx/VerifyProofs.v — theorems about the since / maturity / capacity models of
   Tx/Verify.v. *)
From CKB Require Import Arith.Since Arith.SinceProofs Tx.Verify.
From Coq Require Import ZArith.
Local Open Scope N_scope.

(* ---- checked arithmetic ------------------------------------------------------ *)
Lemma add64_some a b c : add64 a b = Some c <-> c = a + b /\ a + b < U64.
Proof.
  unfold add64. destruct (N.ltb_spec (a + b) U64); split; try discriminate.
  - intros [= <-]. tauto.
  - intros [-> _]. reflexivity.
  - intros [_ ?]. lia.
Qed.
Lemma add64_none a b : add64 a b = None <-> U64 <= a + b.
Proof. unfold add64. destruct (N.ltb_spec (a + b) U64); split; try discriminate; try lia. reflexivity. Qed.

(* ---- rationals ------------------------------------------------------------------ *)
Definition rat_le (a b : rat) : Prop := rnum a * rden b <= rnum b * rden a.
Lemma rat_lt_false a b : rat_lt a b = false <-> rat_le b a.
Proof. unfold rat_lt, rat_le. rewrite N.ltb_ge. reflexivity. Qed.

Lemma rat_le_trans a b c : rden b <> 0 -> rat_le a b -> rat_le b c -> rat_le a c.
Proof.
  unfold rat_le. destruct a as [an ad], b as [bn bd], c as [cn cd]. cbn [rnum rden]. intros Hb H1 H2.
  apply (N.mul_le_mono_pos_r _ _ bd); [lia|].
  apply N.le_trans with (bn * ad * cd).
  - replace (an * cd * bd) with (an * bd * cd) by lia. apply N.mul_le_mono_r. exact H1.
  - replace (bn * ad * cd) with (bn * cd * ad) by lia. replace (cn * ad * bd) with (cn * bd * ad) by lia.
    apply N.mul_le_mono_r. exact H2.
Qed.

(* ---- every step of the repaired since check is defined ----------------------- *)
Definition sview_defined (v : sview) : Prop :=
  (exists n, v_number v = Some n) /\ (exists a, v_epoch v = Some a) /\ (exists t, v_mtime v = Some t).
Definition iview_defined (i : option iview) : Prop :=
  match i with
  | None => True
  | Some iv => (exists a, iv_epoch iv = Some a) /\ (exists t, iv_base iv = Some t)
  end.

Theorem check_since_total : forall v s i,
  sview_defined v -> iview_defined i -> exists r, check_since v s i = Some r.
Proof.
  intros v s i ((n & Hn) & (a & Ha) & (t & Ht)) Hi.
  unfold check_since. destruct (s =? 0); [eauto|]. destruct (negb (flags_is_valid s)); [eauto|].
  assert (A : exists r, check_absolute v s = Some r).
  { unfold check_absolute. destruct (is_absolute s); [|eauto].
    destruct (extract_metric s) as [[x|e|ms]|]; [| | |eauto].
    - rewrite Hn. cbn [obind]. eauto.
    - destruct (negb (ep_is_well_formed_increment e)); [eauto|]. rewrite Ha. cbn [obind].
      destruct (ep_to_rational_normalize e) as (b & -> & _). cbn [obind]. eauto.
    - destruct (timestamp_overflows s); [eauto|]. rewrite Ht. cbn [obind]. eauto. }
  destruct A as (r & ->). cbn [obind]. destruct r; eauto.
  unfold check_relative. destruct (is_relative s); [|eauto]. destruct i as [iv|]; [|eauto].
  destruct Hi as ((b0 & Hb0) & (base & Hbase)).
  destruct (extract_metric s) as [[x|e|ms]|]; [| | |eauto].
  - destruct (add64 (iv_number iv) x); [|eauto]. rewrite Hn. cbn [obind]. eauto.
  - destruct (negb (ep_is_well_formed_increment e)); [eauto|]. rewrite Ha, Hb0. cbn [obind].
    destruct (ep_to_rational_normalize e) as (b & -> & _). cbn [obind]. eauto.
  - destruct (timestamp_overflows s); [eauto|]. rewrite Hbase, Ht. cbn [obind]. destruct (add64 base ms); eauto.
Qed.

(* the concrete context: clocks are defined when the commit number fits into
   u64, the epochs are the genesis value or have a non-zero length, and the
   headers the median time walks over are stored *)
Lemma ep_to_rational_defined e : e = 0 \/ ep_length e <> 0 -> exists a, ep_to_rational e = Some a.
Proof.
  unfold ep_to_rational. intros [->|H]; [cbn; eauto|].
  destruct (e =? 0); [eauto|]. destruct (N.eqb_spec (ep_length e) 0); [contradiction | eauto].
Qed.

(* ---- F2: the arithmetic as it was ------------------------------------------------ *)
Theorem check_since_old_refuted :
  exists v s i, sview_defined v /\ iview_defined i /\ s < U64 /\ flags_is_valid s = true /\
                check_since_old v s i = None /\ check_since v s i = Some SImmature.
Proof.
  exists (mkSview (Some 5) (Some (mkRat 1 1)) (Some 1000)), (since_encode false 2 18446744073709552), None.
  split. { repeat split; eexists; reflexivity. }
  split; [exact I|]. vm_compute. repeat split; reflexivity.
Qed.

(* the repair is conservative: wherever the old arithmetic did not panic, the
   verdict is unchanged *)
Theorem check_since_old_conservative : forall v s i r,
  check_since_old v s i = Some r -> check_since v s i = Some r.
Proof.
  intros v s i r. unfold check_since_old, check_since.
  destruct (s =? 0); [tauto|]. destruct (negb (flags_is_valid s)); [tauto|].
  pose proof (extract_metric_repaired s) as R.
  unfold check_absolute, check_relative.
  destruct (is_absolute s) eqn:ABS; unfold is_relative; rewrite ABS; cbn [negb].
  - (* absolute: the relative part is skipped *)
    destruct (extract_metric_old s) as [m|]; [|discriminate]. destruct R as [-> ->]. cbn [obind].
    destruct m as [[x|e|ms]|].
    + destruct (v_number v); cbn [obind]; [|discriminate]. destruct (_ <? _); intros [= <-]; reflexivity.
    + destruct (negb (ep_is_well_formed_increment e)); [intros [= <-]; reflexivity|].
      destruct (v_epoch v); cbn [obind]; [|discriminate].
      destruct (ep_to_rational (ep_normalize e)); cbn [obind]; [|discriminate].
      destruct (rat_lt _ _); intros [= <-]; reflexivity.
    + destruct (v_mtime v); cbn [obind]; [|discriminate]. destruct (_ <? _); intros [= <-]; reflexivity.
    + intros [= <-]. reflexivity.
  - cbn [obind]. destruct i as [iv|]; [|tauto].
    destruct (extract_metric_old s) as [m|]; [|discriminate]. destruct R as [-> ->]. cbn [obind].
    destruct m as [[x|e|ms]|].
    + destruct (v_number v) as [bn|]; cbn [obind]; [|discriminate].
      destruct (add64 (iv_number iv) x) as [lim|]; cbn [obind]; [|discriminate].
      intros [= <-]. f_equal. destruct (N.ltb_spec bn lim); destruct (N.leb_spec lim bn); try reflexivity; lia.
    + destruct (negb (ep_is_well_formed_increment e)); [tauto|].
      destruct (v_epoch v); cbn [obind]; [|discriminate].
      destruct (iv_epoch iv); cbn [obind]; [|discriminate].
      destruct (ep_to_rational (ep_normalize e)); cbn [obind]; [|discriminate]. tauto.
    + destruct (iv_base iv) as [base|]; cbn [obind]; [|discriminate].
      destruct (v_mtime v) as [mt|]; cbn [obind]; [|discriminate].
      destruct (add64 base ms) as [lim|]; cbn [obind]; [|discriminate].
      intros [= <-]. f_equal. destruct (N.ltb_spec mt lim); destruct (N.leb_spec lim mt); try reflexivity; lia.
    + tauto.
Qed.

(* ---- monotonicity ------------------------------------------------------------------- *)
(* the three clocks of a later commit position are not behind *)
Definition sview_le (v v' : sview) : Prop :=
  (forall n, v_number v = Some n -> exists n', v_number v' = Some n' /\ n <= n') /\
  (forall a, v_epoch v = Some a -> rden a <> 0 /\ exists a', v_epoch v' = Some a' /\ rat_le a a') /\
  (forall t, v_mtime v = Some t -> exists t', v_mtime v' = Some t' /\ t <= t').

Theorem since_monotone_thm : forall v v' s i,
  sview_le v v' -> check_since v s i = Some SOk -> check_since v' s i = Some SOk.
Proof.
  intros v v' s i (HN & HE & HT). unfold check_since.
  destruct (s =? 0); [tauto|]. destruct (negb (flags_is_valid s)); [tauto|].
  assert (A : check_absolute v s = Some SOk -> check_absolute v' s = Some SOk).
  { unfold check_absolute. destruct (is_absolute s); [|tauto].
    destruct (extract_metric s) as [[x|e|ms]|]; [| | |tauto].
    - destruct (v_number v) as [bn|] eqn:E; cbn [obind]; [|discriminate].
      destruct (HN bn eq_refl) as (bn' & -> & Hle). cbn [obind].
      destruct (N.ltb_spec bn x); [discriminate|]. intros _. destruct (N.ltb_spec bn' x); [lia|reflexivity].
    - destruct (negb (ep_is_well_formed_increment e)); [tauto|].
      destruct (v_epoch v) as [a|] eqn:E; cbn [obind]; [|discriminate].
      destruct (HE a eq_refl) as (Hd & a' & -> & Hle). cbn [obind].
      destruct (ep_to_rational (ep_normalize e)) as [b|]; cbn [obind]; [|discriminate].
      destruct (rat_lt a b) eqn:L; [discriminate|]. intros _. apply rat_lt_false in L.
      assert (L' : rat_lt a' b = false) by (apply rat_lt_false; apply (rat_le_trans b a a'); assumption).
      rewrite L'. reflexivity.
    - destruct (timestamp_overflows s); [tauto|].
      destruct (v_mtime v) as [mt|] eqn:E; cbn [obind]; [|discriminate].
      destruct (HT mt eq_refl) as (mt' & -> & Hle). cbn [obind].
      destruct (N.ltb_spec mt ms); [discriminate|]. intros _. destruct (N.ltb_spec mt' ms); [lia|reflexivity]. }
  destruct (check_absolute v s) as [[| |]|]; cbn [obind]; try discriminate.
  rewrite (A eq_refl). cbn [obind].
  unfold check_relative. destruct (is_relative s); [|tauto]. destruct i as [iv|]; [|tauto].
  destruct (extract_metric s) as [[x|e|ms]|]; [| | |tauto].
  - destruct (add64 (iv_number iv) x) as [lim|]; [|tauto].
    destruct (v_number v) as [bn|] eqn:E; cbn [obind]; [|discriminate].
    destruct (HN bn eq_refl) as (bn' & -> & Hle). cbn [obind].
    destruct (N.leb_spec lim bn); [|discriminate]. intros _. destruct (N.leb_spec lim bn'); [reflexivity|lia].
  - destruct (negb (ep_is_well_formed_increment e)); [tauto|].
    destruct (v_epoch v) as [a|] eqn:E; cbn [obind]; [|discriminate].
    destruct (HE a eq_refl) as (Hd & a' & -> & Hle). cbn [obind].
    destruct (iv_epoch iv) as [b0|]; cbn [obind]; [|discriminate].
    destruct (ep_to_rational (ep_normalize e)) as [b1|]; cbn [obind]; [|discriminate].
    destruct (rat_lt a (rat_add b0 b1)) eqn:L; [discriminate|]. intros _. apply rat_lt_false in L.
    assert (L' : rat_lt a' (rat_add b0 b1) = false) by (apply rat_lt_false; apply (rat_le_trans _ a a'); assumption).
    rewrite L'. reflexivity.
  - destruct (timestamp_overflows s); [tauto|].
    destruct (iv_base iv) as [base|]; cbn [obind]; [|discriminate].
    destruct (v_mtime v) as [mt|] eqn:E; cbn [obind]; [|discriminate].
    destruct (HT mt eq_refl) as (mt' & -> & Hle). cbn [obind].
    destruct (add64 base ms) as [lim|]; [|tauto].
    destruct (N.leb_spec lim mt); [|discriminate]. intros _. destruct (N.leb_spec lim mt'); [reflexivity|lia].
Qed.

(* non-vacuity of since_monotone: a relative epoch lock met exactly at the
   earlier position (1 + 1/2 after 7/10) *)
Example since_monotone_example :
  let v := mkSview (Some 100) (Some (mkRat 22 10)) (Some 5000) in
  let v' := mkSview (Some 101) (Some (mkRat 23 10)) (Some 5000) in
  let s := since_encode true 1 (ep_new 1 1 2) in
  let i := Some (mkIview 90 (Some (mkRat 7 10)) (Some 0)) in
  sview_le v v' /\ check_since v s i = Some SOk /\
  check_since (mkSview (Some 100) (Some (mkRat 21 10)) (Some 5000)) s i = Some SImmature.
Proof.
  cbv zeta. split; [|vm_compute; split; reflexivity].
  unfold sview_le, rat_le. cbn [v_number v_epoch v_mtime]. repeat split.
  - intros n [= <-]. exists 101. split; [reflexivity|lia].
  - injection H as <-. discriminate.
  - injection H as <-. eexists. split; [reflexivity|]. cbn. lia.
  - intros t [= <-]. exists 5000. split; [reflexivity|lia].
Qed.

(* ---- the since rules, declaratively ---------------------------------------------- *)
(* RFC-17 with exact arithmetic: value * 1000 and the sums are unbounded here *)
Definition since_rule (bn : N) (ep : rat) (mt : N) (s : N) (i : option (N * rat * N)) : Prop :=
  s = 0 \/
  (flags_is_valid s = true /\
   match extract_metric s with
   | Some (MBlock x) =>
       if is_absolute s then x <= bn
       else match i with Some (ibn, _, _) => ibn + x <= bn | None => False end
   | Some (MEpoch e) =>
       ep_is_well_formed_increment e = true /\
       exists b, ep_to_rational (ep_normalize e) = Some b /\
       (if is_absolute s then rat_le b ep
        else match i with Some (_, iep, _) => rat_le (rat_add iep b) ep | None => False end)
   | Some (MTime _) =>
       let ms := since_value s * 1000 in
       if is_absolute s then ms <= mt
       else match i with Some (_, _, base) => base + ms <= mt | None => False end
   | None => False
   end).

Lemma mtime_value s ms : extract_metric s = Some (MTime ms) ->
  timestamp_overflows s = (U64 <=? since_value s * 1000) /\ ms = N.min (since_value s * 1000) U64MAX.
Proof.
  rewrite extract_metric_fld, timestamp_overflows_fld, value_is_field. unfold metric_of_fields.
  destruct (fld s 61 2 =? 0); [discriminate|]. destruct (fld s 61 2 =? 1); [discriminate|].
  destruct (fld s 61 2 =? 2); [|discriminate]. intros [= <-]. split; reflexivity.
Qed.

Lemma leaf_neg (c : bool) (s : N) (P : Prop) : s <> 0 -> (c = false <-> P) ->
  (Some (if c then SImmature else SOk) = Some SOk <-> s = 0 \/ true = true /\ P).
Proof.
  intros Hs H. destruct c.
  - split; [discriminate | intros [?|[_ HP]]; [contradiction | apply H in HP; discriminate]].
  - split; [intros _; right; split; [reflexivity | apply H; reflexivity] | reflexivity].
Qed.
Lemma leaf_pos (c : bool) (s : N) (P : Prop) : s <> 0 -> (c = true <-> P) ->
  (Some (if c then SOk else SImmature) = Some SOk <-> s = 0 \/ true = true /\ P).
Proof.
  intros Hs H. destruct c.
  - split; [intros _; right; split; [reflexivity | apply H; reflexivity] | reflexivity].
  - split; [discriminate | intros [?|[_ HP]]; [contradiction | apply H in HP; discriminate]].
Qed.
Lemma leaf_no (r : sverdict) (s : N) (P : Prop) : s <> 0 -> r <> SOk -> ~ P ->
  (Some r = Some SOk <-> s = 0 \/ true = true /\ P).
Proof.
  intros Hs Hr HP. split; [intros [= ?]; contradiction | intros [?|[_ ?]]; contradiction].
Qed.

Theorem check_since_iff_rule : forall bn ep mt s i,
  mt < U64 -> bn < U64 ->
  check_since (mkSview (Some bn) (Some ep) (Some mt)) s
              (option_map (fun '(ibn, iep, base) => mkIview ibn (Some iep) (Some base)) i) = Some SOk
  <-> since_rule bn ep mt s i.
Proof.
  intros bn ep mt s i Hmt Hbn. unfold check_since, since_rule.
  destruct (N.eqb_spec s 0) as [->|Hs]; [split; [left; reflexivity | reflexivity]|].
  destruct (flags_is_valid s) eqn:FV; cbn [negb].
  2:{ split; [discriminate | intros [?|[? _]]; [contradiction | discriminate]]. }
  unfold check_absolute, check_relative, is_relative. cbn [v_number v_epoch v_mtime obind].
  assert (U : U64 = 18446744073709551616) by reflexivity.
  assert (UM : U64MAX = 18446744073709551615) by reflexivity.
  destruct (extract_metric s) as [[x|e|ms]|] eqn:EM.
  - (* block number *)
    destruct (is_absolute s); cbn [negb obind].
    + destruct (N.ltb_spec bn x) as [L|L]; cbn [obind].
      * apply leaf_no; [assumption | discriminate | lia].
      * apply (leaf_neg false); [assumption | split; [intros _; exact L | reflexivity]].
    + destruct i as [[[ibn iep] base]|]; cbn [option_map iv_number].
      * destruct (add64 ibn x) as [lim|] eqn:A.
        -- apply add64_some in A. destruct A as [-> _]. cbn [obind].
           apply leaf_pos; [assumption | apply N.leb_le].
        -- apply add64_none in A. apply leaf_no; [assumption | discriminate | lia].
      * apply leaf_no; [assumption | discriminate | tauto].
  - (* epoch *)
    destruct (ep_is_well_formed_increment e) eqn:WF; cbn [negb].
    2:{ destruct (is_absolute s); cbn [negb obind]; [|destruct i as [[[? ?] ?]|]; cbn [option_map]];
        (apply leaf_no; [assumption | discriminate | intros [? _]; discriminate]). }
    destruct (ep_to_rational_normalize e) as (b & Hb & _). rewrite Hb. cbn [obind].
    assert (X : forall (c : bool) (Q : rat -> Prop), (c = false <-> Q b) ->
              (Some (if c then SImmature else SOk) = Some SOk <->
               s = 0 \/ true = true /\ true = true /\ exists b0, Some b = Some b0 /\ Q b0)).
    { intros c Q H. rewrite (leaf_neg c s (Q b) Hs H). split.
      - intros [?|[_ HQ]]; [left; assumption | right; split; [reflexivity|]; split; [reflexivity|]; exists b; tauto].
      - intros [?|[_ [_ (b0 & [= <-] & HQ)]]]; [left; assumption | right; tauto]. }
    destruct (is_absolute s); cbn [negb obind].
    + destruct (rat_lt ep b) eqn:L; cbn [obind].
      * apply (X true (fun b0 => rat_le b0 ep)). rewrite <- L. apply rat_lt_false.
      * apply (X false (fun b0 => rat_le b0 ep)). rewrite <- L at 1. apply rat_lt_false.
    + destruct i as [[[ibn iep] base]|]; cbn [option_map iv_epoch obind].
      * apply (X (rat_lt ep (rat_add iep b)) (fun b0 => rat_le (rat_add iep b0) ep)). apply rat_lt_false.
      * apply leaf_no; [assumption | discriminate | intros [_ (? & _ & [])]].
  - (* timestamp *)
    destruct (mtime_value s ms EM) as [-> ->]. cbv zeta.
    set (m := since_value s * 1000).
    destruct (is_absolute s); cbn [negb].
    + destruct (N.leb_spec U64 m).
      * apply leaf_no; [assumption | discriminate | lia].
      * cbn [obind]. destruct (N.ltb_spec mt (N.min m U64MAX)) as [L|L]; cbn [obind].
        -- apply leaf_no; [assumption | discriminate | lia].
        -- apply (leaf_neg false); [assumption | split; [intros _; lia | reflexivity]].
    + destruct i as [[[ibn iep] base]|]; cbn [option_map iv_base obind].
      * destruct (N.leb_spec U64 m).
        -- apply leaf_no; [assumption | discriminate | lia].
        -- destruct (add64 base (N.min m U64MAX)) as [lim|] eqn:A.
           ++ apply add64_some in A. destruct A as [-> A].
              apply leaf_pos; [assumption | rewrite N.leb_le; lia].
           ++ apply add64_none in A. apply leaf_no; [assumption | discriminate | lia].
      * destruct (N.leb_spec U64 m); (apply leaf_no; [assumption | discriminate | tauto]).
  - destruct (is_absolute s); cbn [negb obind]; [|destruct i as [[[? ?] ?]|]; cbn [option_map]];
      (apply leaf_no; [assumption | discriminate | tauto]).
Qed.

(* ---- maturity ------------------------------------------------------------------------- *)
Definition immature_rule (cur maturity : rat) (bn : N) (index : N) (bep : rat) : Prop :=
  0 < bn /\ index = 0 /\ ~ rat_le (rat_add maturity bep) cur.

Lemma first_immature_none epoch maturity : forall l idx,
  first_immature epoch maturity idx l = Some None <->
  Forall (fun i => cellbase_immature epoch maturity i = Some false) l.
Proof.
  induction l as [|i rest IH]; intros idx; cbn [first_immature].
  - split; [constructor | reflexivity].
  - destruct (cellbase_immature epoch maturity i) as [[|]|] eqn:E; cbn [obind].
    + split; [discriminate | intros H; inversion H; congruence].
    + rewrite IH. split; [intros; constructor; [exact E | assumption] | intros H; inversion H; assumption].
    + split; [discriminate | intros H; inversion H; congruence].
Qed.

Theorem verify_maturity_ok_iff epoch maturity inputs deps :
  verify_maturity epoch maturity inputs deps = Some TOk <->
  Forall (fun i => cellbase_immature epoch maturity i = Some false) (inputs ++ deps).
Proof.
  unfold verify_maturity. rewrite Forall_app, <- !(first_immature_none epoch maturity _ 0).
  destruct (first_immature epoch maturity 0 inputs) as [[?|]|]; cbn [obind].
  - split; [discriminate | intros [? _]; discriminate].
  - destruct (first_immature epoch maturity 0 deps) as [[?|]|]; cbn [obind].
    + split; [discriminate | intros [_ ?]; discriminate].
    + tauto.
    + split; [discriminate | intros [_ ?]; discriminate].
  - split; [discriminate | intros [? _]; discriminate].
Qed.

Theorem cellbase_immature_rule epoch maturity info cur m b :
  ep_to_rational epoch = Some cur -> ep_to_rational maturity = Some m ->
  ep_to_rational (ci_epoch info) = Some b ->
  (cellbase_immature epoch maturity (Some info) = Some true <->
   immature_rule cur m (ci_number info) (ci_index info) b).
Proof.
  intros Hc Hm Hb. unfold cellbase_immature, immature_rule. rewrite Hc, Hm, Hb. cbn [obind].
  destruct (N.ltb_spec 0 (ci_number info)); destruct (N.eqb_spec (ci_index info) 0); cbn [andb];
    try (split; [discriminate | intros (? & ? & _); lia]).
  destruct (rat_lt cur (rat_add m b)) eqn:L.
  - split; [|reflexivity]. intros _. repeat split; try assumption. intros H'. apply rat_lt_false in H'. congruence.
  - split; [discriminate|]. intros (_ & _ & H'). apply rat_lt_false in L. contradiction.
Qed.

(* ---- capacity ---------------------------------------------------------------------------- *)
Definition script_bytes (s : script) : N := s_args_len s + 33.
Definition occupied_bytes (o : output) : N :=
  8 + o_data_len o + script_bytes (o_lock o) + match o_type o with Some t => script_bytes t | None => 0 end.
Definition occupied_shannons (o : output) : N := occupied_bytes o * BYTE_SHANNONS.
Definition total (l : list N) : N := fold_right N.add 0 l.

Lemma mul64_spec a c : mul64 a BYTE_SHANNONS = Some c <-> c = a * BYTE_SHANNONS /\ a * BYTE_SHANNONS < U64.
Proof.
  unfold mul64. destruct (N.ltb_spec (a * BYTE_SHANNONS) U64); split; try discriminate.
  - intros [= <-]. tauto.
  - intros [-> _]. reflexivity.
  - intros [_ ?]. lia.
Qed.

Lemma occupied_capacity_spec o :
  occupied_capacity o = if occupied_shannons o <? U64 then Some (occupied_shannons o) else None.
Proof.
  unfold occupied_capacity, occupied_shannons, occupied_bytes, script_occupied, cap_bytes, script_bytes, mul64, add64.
  assert (U : U64 = 18446744073709551616) by reflexivity.
  assert (B : BYTE_SHANNONS = 100000000) by reflexivity. rewrite U, B.
  destruct o as [c l t dl]. cbn [o_lock o_type o_data_len].
  change (8 * 100000000 <? 18446744073709551616) with true. cbn [obind].
  destruct (N.ltb_spec (dl * 100000000) 18446744073709551616); cbn [obind].
  2:{ destruct (N.ltb_spec ((8 + dl + (s_args_len l + 33) + match t with Some t0 => s_args_len t0 + 33 | None => 0 end) * 100000000) 18446744073709551616); [lia|reflexivity]. }
  destruct (N.ltb_spec (8 * 100000000 + dl * 100000000) 18446744073709551616); cbn [obind].
  2:{ destruct (N.ltb_spec ((8 + dl + (s_args_len l + 33) + match t with Some t0 => s_args_len t0 + 33 | None => 0 end) * 100000000) 18446744073709551616); [lia|reflexivity]. }
  destruct (N.ltb_spec ((s_args_len l + 32 + 1) * 100000000) 18446744073709551616); cbn [obind].
  2:{ destruct (N.ltb_spec ((8 + dl + (s_args_len l + 33) + match t with Some t0 => s_args_len t0 + 33 | None => 0 end) * 100000000) 18446744073709551616); [lia|reflexivity]. }
  destruct (N.ltb_spec ((s_args_len l + 32 + 1) * 100000000 + (8 * 100000000 + dl * 100000000)) 18446744073709551616); cbn [obind].
  2:{ destruct (N.ltb_spec ((8 + dl + (s_args_len l + 33) + match t with Some t0 => s_args_len t0 + 33 | None => 0 end) * 100000000) 18446744073709551616); [lia|reflexivity]. }
  destruct t as [t|]; cbn [obind].
  - destruct (N.ltb_spec ((s_args_len t + 32 + 1) * 100000000) 18446744073709551616); cbn [obind].
    2:{ destruct (N.ltb_spec ((8 + dl + (s_args_len l + 33) + (s_args_len t + 33)) * 100000000) 18446744073709551616); [lia|reflexivity]. }
    destruct (N.ltb_spec ((s_args_len t + 32 + 1) * 100000000 + ((s_args_len l + 32 + 1) * 100000000 + (8 * 100000000 + dl * 100000000))) 18446744073709551616);
      destruct (N.ltb_spec ((8 + dl + (s_args_len l + 33) + (s_args_len t + 33)) * 100000000) 18446744073709551616); try lia; try reflexivity.
    f_equal. lia.
  - destruct (N.ltb_spec (0 + ((s_args_len l + 32 + 1) * 100000000 + (8 * 100000000 + dl * 100000000))) 18446744073709551616);
      destruct (N.ltb_spec ((8 + dl + (s_args_len l + 33) + 0) * 100000000) 18446744073709551616); try lia; try reflexivity.
    f_equal. lia.
Qed.

Lemma sum64_spec : forall l acc, acc < U64 ->
  sum64 l acc = if acc + total l <? U64 then Some (acc + total l) else None.
Proof.
  induction l as [|x l IH]; intros acc Hacc; cbn [sum64 total fold_right].
  - rewrite N.add_0_r. destruct (N.ltb_spec acc U64); [reflexivity | lia].
  - unfold add64. fold (total l). destruct (N.ltb_spec (acc + x) U64) as [H|H]; cbn [obind].
    + rewrite (IH _ H). rewrite N.add_assoc. reflexivity.
    + destruct (N.ltb_spec (acc + (x + total l)) U64); [lia|reflexivity].
Qed.

Lemma outputs_check_ok : forall outs idx,
  outputs_check idx outs = COk <->
  Forall (fun o => occupied_shannons o < U64 /\ occupied_shannons o <= o_capacity o) outs.
Proof.
  induction outs as [|o rest IH]; intros idx; cbn [outputs_check].
  - split; [constructor | reflexivity].
  - rewrite occupied_capacity_spec.
    assert (D : occupied_shannons o < U64 -> exists c, cap_bytes (o_data_len o) = Some c).
    { intros H. unfold cap_bytes, mul64. destruct (N.ltb_spec (o_data_len o * BYTE_SHANNONS) U64); [eauto|].
      unfold occupied_shannons, occupied_bytes in H. lia. }
    destruct (N.ltb_spec (occupied_shannons o) U64) as [Hlt|Hge].
    + destruct (D Hlt) as (c & ->).
      destruct (N.ltb_spec (o_capacity o) (occupied_shannons o)).
      * split; [discriminate | intros H'; inversion H'; lia].
      * rewrite IH. split; [intros; constructor; [split; assumption | assumption] | intros H'; inversion H'; assumption].
    + destruct (cap_bytes (o_data_len o)); (split; [discriminate | intros H'; inversion H'; lia]).
Qed.

(* CapacityVerifier accepts exactly when: the transaction is exempt from the sum
   rule (no inputs = cellbase, or an input uses the DAO type script) or both
   sums fit into u64 and inputs cover outputs; and every output's capacity
   covers its occupied size (which then fits into u64) *)
Theorem verify_capacity_ok_iff dao inputs outs :
  verify_capacity dao inputs outs = COk <->
  (inputs = [] \/ existsb (uses_dao dao) inputs = true \/
   (total (map o_capacity inputs) < U64 /\ total (map o_capacity outs) < U64 /\
    total (map o_capacity outs) <= total (map o_capacity inputs))) /\
  Forall (fun o => occupied_shannons o < U64 /\ occupied_shannons o <= o_capacity o) outs.
Proof.
  unfold verify_capacity. rewrite <- (outputs_check_ok outs 0).
  destruct inputs as [|i rest].
  - split; [intros H; split; [left; reflexivity | exact H] | tauto].
  - set (ins := i :: rest).
    destruct (existsb (uses_dao dao) ins) eqn:E.
    + split; [intros H; split; [right; left; reflexivity | exact H] | tauto].
    + rewrite !sum64_spec by reflexivity. rewrite !N.add_0_l.
      destruct (N.ltb_spec (total (map o_capacity ins)) U64) as [H1|H1].
      * destruct (N.ltb_spec (total (map o_capacity outs)) U64) as [H2|H2].
        -- destruct (N.ltb_spec (total (map o_capacity ins)) (total (map o_capacity outs))); cbn [negb].
           ++ split; [discriminate|]. intros [[?|[?|(_ & _ & ?)]] _]; [discriminate | discriminate | lia].
           ++ split; [intros H'; split; [right; right; repeat split; assumption | exact H'] | tauto].
        -- split; [discriminate|]. intros [[?|[?|(_ & ? & _)]] _]; [discriminate | discriminate | lia].
      * split; [discriminate|]. intros [[?|[?|(? & _ & _)]] _]; [discriminate | discriminate | lia].
Qed.

(* non-vacuity: an output exactly at its occupied capacity passes, one shannon less fails *)
Example capacity_boundary :
  let o c := mkOutput c (mkScript 1 7 20) None 0 in
  occupied_shannons (o 0) = 6100000000 /\
  verify_capacity 99 [o 6100000000] [o 6100000000] = COk /\
  verify_capacity 99 [o 6100000000] [o 6099999999] = CInsufficient 0 /\
  verify_capacity 99 [o 6099999999] [o 6100000000] = COutputsSumOverflow.
Proof. vm_compute. repeat split; reflexivity. Qed.
