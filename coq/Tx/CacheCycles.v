(* Tx/CacheCycles.v — the block cycle limit under the verification cache (properties C03 "cycle limits"
   and C14): BlockTxsVerifier::verify sums the cycles of ALL transactions of the block, whether their
   Completed came from the cache or from a fresh verification, and compares the sum with
   max_block_cycles; the entries are written to the cache BEFORE that comparison.  The variant that sums
   only freshly verified transactions accepts, on its second delivery (or in a sibling), a block it
   refused the first time. *)
From CKB Require Import Tx.Cache Tx.CacheProofs.
Local Open Scope N_scope.

Section Variant.
  Variable tx ctx : Type.
  Variable wtx_hash : tx -> N.
  Variable content : tx -> option completed.
  Variable time_relative : ctx -> tx -> bool.
  Variable max_block_cycles : N.

  (* cycles of the transactions that were not found in the cache *)
  Fixpoint fresh_cycles (c : fmap completed) (txs : list tx) (es : list completed) : N :=
    match txs, es with
    | t :: txs', e :: es' =>
      (match lookup c (wtx_hash t) with Some _ => 0 | None => c_cycles e end) + fresh_cycles c txs' es'
    | _, _ => 0
    end.

  Definition verify_block_fresh_sum (c : fmap completed) (x : ctx) (skip : bool) (txs : list tx)
    : option (list completed) * fmap completed :=
    match verify_txs tx ctx wtx_hash content time_relative max_block_cycles c x skip txs with
    | Some es =>
      let c' := put_all tx wtx_hash txs es c in
      (if N.leb (fresh_cycles c txs es) max_block_cycles then Some es else None, c')
    | None => (None, c)
    end.
End Variant.

(* two transactions of 6 cycles each, max_block_cycles = 10 *)
Definition cy_content (t : N) : option completed := Some (mkC 6 1).
Definition cy_block : list N := [1; 2].
Definition cy_vb := verify_block N unit (fun t => t) cy_content (fun _ _ => true) 10.
Definition cy_vb_fresh := verify_block_fresh_sum N unit (fun t => t) cy_content (fun _ _ => true) 10.

(* the code: refused cold, refused again with its transactions cached *)
Lemma block_over_cycle_limit_refused_twice :
  let '(v1, c1) := cy_vb [] tt false cy_block in
  let '(v2, _) := cy_vb c1 tt false cy_block in
  v1 = None /\ v2 = None /\ lookup c1 1 = Some (mkC 6 1) /\ lookup c1 2 = Some (mkC 6 1).
Proof. vm_compute. repeat split. Qed.

(* the variant: refused cold, ACCEPTED once the first attempt has filled the cache *)
Lemma fresh_sum_refuted :
  let '(v1, c1) := cy_vb_fresh [] tt false cy_block in
  let '(v2, _) := cy_vb_fresh c1 tt false cy_block in
  v1 = None /\ v2 = Some [mkC 6 1; mkC 6 1] /\ sum_cycles [mkC 6 1; mkC 6 1] = 12.
Proof. vm_compute. repeat split. Qed.
