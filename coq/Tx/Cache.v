(* Tx/Cache.v — executable model of the caches a verdict or a query answer
   can pass through (property C14).  No proofs in this file.

   (a) the transaction verification cache
         verification/src/cache.rs            TxVerificationCache = LruCache<Byte32 (witness hash), Completed{cycles, fee}>
         verification/contextual/src/contextual_block_verifier.rs  BlockTxsVerifier::verify
              hit  : TimeRelativeTransactionVerifier, then the cached Completed
              miss : ContextualTransactionVerifier (time_relative, capacity, scripts, fee)
              both : .and_then(DaoScriptSizeVerifier) when rfc0044 is active for the parent's epoch
                     (a second context-dependent check, Section DaoSize below)
              every (witness hash, Completed) of a block whose transactions all passed is put
              into the cache (before the block's cycle sum is compared with the limit)
         tx-pool/src/util.rs verify_rtx, tx-pool/src/process.rs _process_tx
              same two paths; the entry is inserted after a miss when the pool admitted the tx;
              DaoScriptSizeVerifier is chained to the miss path ONLY (Section DaoSize: verify_tx_pool)
   (b) the store's read caches
         store/src/cache.rs StoreCache, store/src/store.rs getters, store/src/transaction.rs
         insert_block / delete_block, store/src/cell.rs attach/detach_block_cell
   (c) the SYSTEM_CELL map of util/types/src/core/cell.rs resolve_transaction

   Hashes are numbers; the only thing the model uses about a hash is what it
   is a key of.  An LRU of any capacity with any replacement order is a
   finite map on which an arbitrary eviction step (restriction to any set of
   keys) may happen at any time. *)
From Coq Require Export List NArith Bool Lia.
Export ListNotations.

Record completed := mkC { c_cycles : N; c_fee : N }.
Definition completed_eqb (a b : completed) : bool :=
  N.eqb (c_cycles a) (c_cycles b) && N.eqb (c_fee a) (c_fee b).

(* ---- finite maps with unique keys ----------------------------------------- *)
Definition fmap (V : Type) := list (N * V).
Fixpoint lookup {V} (c : fmap V) (k : N) : option V :=
  match c with [] => None | (k', v) :: c' => if N.eqb k k' then Some v else lookup c' k end.
Definition fremove {V} (k : N) (c : fmap V) : fmap V := filter (fun p => negb (N.eqb (fst p) k)) c.
(* LruCache::put : insert or replace *)
Definition put {V} (k : N) (v : V) (c : fmap V) : fmap V := (k, v) :: fremove k c.
(* any eviction: keep exactly the keys [keep] selects (capacity 0 = keep nothing) *)
Definition restrict {V} (keep : N -> bool) (c : fmap V) : fmap V := filter (fun p => keep (fst p)) c.

Definition sum_cycles (l : list completed) : N := fold_right (fun e a => N.add (c_cycles e) a) 0%N l.

(* =========================================================================== *)
(* (a) verification cache                                                      *)
(* =========================================================================== *)
Section VCache.
  (* a transaction with its witnesses and everything its hashes address
     (resolved inputs, dep cells' data, header deps) *)
  Variable tx : Type.
  (* where it is verified: commit position / pool tip (TxVerifyEnv + the headers since and maturity read) *)
  Variable ctx : Type.
  Variable wtx_hash : tx -> N.                      (* TransactionView::witness_hash *)
  (* CapacityVerifier, scripts (-> cycles), FeeCalculator: None = one of them fails.
     (DaoScriptSizeVerifier is NOT content: whether the rule is waived depends on the block the
     deposit cell was committed in, i.e. on the branch — Section DaoSize) *)
  Variable content : tx -> option completed.
  (* MaturityVerifier + SinceVerifier; in Section DaoSize's instance also the DAO lock-size rule *)
  Variable time_relative : ctx -> tx -> bool.
  Variable max_block_cycles : N.

  Definition vcache := fmap completed.

  (* miss path: ContextualTransactionVerifier::verify(max_cycles, skip_script_verify) *)
  Definition verify_full (x : ctx) (lim : N) (skip : bool) (t : tx) : option completed :=
    if time_relative x t then
      match content t with
      | Some e =>
        if skip then Some (mkC 0 (c_fee e))                    (* scripts not run: cycles 0 *)
        else if N.leb (c_cycles e) lim then Some e else None   (* the VM stops at the limit *)
      | None => None
      end
    else None.

  (* hit path *)
  Definition verify_hit (x : ctx) (t : tx) (e : completed) : option completed :=
    if time_relative x t then Some e else None.

  Definition verify_tx (c : vcache) (x : ctx) (lim : N) (skip : bool) (t : tx) : option completed :=
    match lookup c (wtx_hash t) with
    | Some e => verify_hit x t e
    | None => verify_full x lim skip t
    end.

  (* all transactions of a block (without the cellbase); stops at the first failure *)
  Fixpoint verify_txs (c : vcache) (x : ctx) (skip : bool) (txs : list tx) : option (list completed) :=
    match txs with
    | [] => Some []
    | t :: txs' =>
      match verify_tx c x max_block_cycles skip t with
      | Some e => match verify_txs c x skip txs' with Some l => Some (e :: l) | None => None end
      | None => None
      end
    end.

  Fixpoint put_all (txs : list tx) (es : list completed) (c : vcache) : vcache :=
    match txs, es with
    | t :: txs', e :: es' => put_all txs' es' (put (wtx_hash t) e c)
    | _, _ => c
    end.

  (* BlockTxsVerifier::verify: verdict (per-transaction Completed, recorded in
     BlockExt as txs_fees / cycles) and the cache afterwards *)
  Definition verify_block (c : vcache) (x : ctx) (skip : bool) (txs : list tx) : option (list completed) * vcache :=
    match verify_txs c x skip txs with
    | Some es =>
      let c' := put_all txs es c in
      (if N.leb (sum_cycles es) max_block_cycles then Some es else None, c')
    | None => (None, c)
    end.

  (* TxPoolService::_process_tx: [declared] = cycles announced by the relaying
     peer (the relayer refuses announcements above max_block_cycles), [pool_ok] =
     whatever the pool decides afterwards (fee rate, RBF, limits) *)
  Definition submit (c : vcache) (x : ctx) (declared : option N) (pool_ok : bool) (t : tx) : option completed * vcache :=
    let lim := match declared with Some d => d | None => max_block_cycles end in
    match verify_tx c x lim false t with
    | Some e =>
      if match declared with Some d => N.eqb d (c_cycles e) | None => true end then
        if pool_ok then
          (Some e, match lookup c (wtx_hash t) with Some _ => c | None => put (wtx_hash t) e c end)
        else (None, c)
      else (None, c)
    | None => (None, c)
    end.

  Inductive vop :=
  | VSubmit (x : ctx) (declared : option N) (pool_ok : bool) (t : tx)
  | VBlock (x : ctx) (skip : bool) (txs : list tx)
  | VEvict (keep : N -> bool).

  Inductive vout :=
  | OTx (r : option completed)
  | OBlock (r : option (list completed))
  | ONone.

  Definition vstep (c : vcache) (o : vop) : vout * vcache :=
    match o with
    | VSubmit x d a t => let (r, c') := submit c x d a t in (OTx r, c')
    | VBlock x skip txs => let (r, c') := verify_block c x skip txs in (OBlock r, c')
    | VEvict keep => (ONone, restrict keep c)
    end.

  Fixpoint vrun (c : vcache) (ops : list vop) : list vout :=
    match ops with
    | [] => []
    | o :: ops' => let (r, c') := vstep c o in r :: vrun c' ops'
    end.

  (* the reference: a node without a verification cache *)
  Definition vstep_ref (o : vop) : vout :=
    match o with
    | VSubmit x d a t => OTx (fst (submit [] x d a t))
    | VBlock x skip txs => OBlock (fst (verify_block [] x skip txs))
    | VEvict _ => ONone
    end.
  Definition vrun_ref (ops : list vop) : list vout := map vstep_ref ops.

  (* every entry is the content result of the transactions with that witness hash *)
  Definition vcache_ok (c : vcache) : Prop :=
    forall t e, lookup c (wtx_hash t) = Some e -> content t = Some e /\ N.le (c_cycles e) max_block_cycles.

  (* histories of a node that runs scripts (no assume-valid) and whose
     relayer bounds the announced cycles *)
  Definition vop_ok (o : vop) : Prop :=
    match o with
    | VSubmit _ (Some d) _ _ => N.le d max_block_cycles
    | VBlock _ skip _ => skip = false
    | _ => True
    end.
End VCache.

Arguments VSubmit {tx ctx}.
Arguments VBlock {tx ctx}.
Arguments VEvict {tx ctx}.

(* =========================================================================== *)
(* (a') the RFC0044 DAO lock-size rule: a second context-dependent check        *)
(* =========================================================================== *)
(* verification/src/transaction_verifier.rs DaoScriptSizeVerifier: for every
   (input i, output i) pair that both carry the DAO type script and whose input
   data is all zero (a deposit cell), the two lock scripts must have the same
   total_size — unless the input's CellMeta.transaction_info.block_number is
   below consensus.starting_block_limiting_dao_withdrawing_lock.  The block a
   cell was committed in is a property of the BRANCH, not of the transaction:
   the very same (transaction, witnesses) passes at one position and fails at
   another.  It is therefore modelled like since/maturity: a function of the
   position. *)
Section DaoSize.
  Variable tx : Type.
  Variable ctx : Type.
  Variable wtx_hash : tx -> N.
  Variable content : tx -> option completed.          (* capacity, scripts, fee *)
  Variable time_relative : ctx -> tx -> bool.         (* since, maturity *)
  (* DaoScriptSizeVerifier::verify at a position (the position fixes where each input was committed) *)
  Variable dao_size : ctx -> tx -> bool.
  (* consensus.rfc0044_active(parent.epoch().number()) *)
  Variable rfc0044 : ctx -> bool.
  Variable max_block_cycles : N.

  Definition dao_gate (x : ctx) (t : tx) : bool := negb (rfc0044 x) || dao_size x t.
  (* both position-dependent checks of the block path as one *)
  Definition tr_dao (x : ctx) (t : tx) : bool := time_relative x t && dao_gate x t.

  (* BlockTxsVerifier::verify, one transaction:
       if hit { TimeRelative } else { Contextual }.and_then(|r| { if rfc0044 { DaoScriptSize? } Ok(r) }) *)
  Definition verify_tx_blk (c : vcache) (x : ctx) (lim : N) (skip : bool) (t : tx) : option completed :=
    match verify_tx tx ctx wtx_hash content time_relative c x lim skip t with
    | Some e => if dao_gate x t then Some e else None
    | None => None
    end.

  Fixpoint verify_txs_blk (c : vcache) (x : ctx) (skip : bool) (txs : list tx) : option (list completed) :=
    match txs with
    | [] => Some []
    | t :: txs' =>
      match verify_tx_blk c x max_block_cycles skip t with
      | Some e => match verify_txs_blk c x skip txs' with Some l => Some (e :: l) | None => None end
      | None => None
      end
    end.

  Definition verify_block_d (c : vcache) (x : ctx) (skip : bool) (txs : list tx) : option (list completed) * vcache :=
    match verify_txs_blk c x skip txs with
    | Some es =>
      let c' := put_all tx wtx_hash txs es c in
      (if N.leb (sum_cycles es) max_block_cycles then Some es else None, c')
    | None => (None, c)
    end.

  (* tx-pool/src/util.rs verify_rtx:
       hit  : TimeRelativeTransactionVerifier only
       miss : ContextualTransactionVerifier.and_then(DaoScriptSizeVerifier)   (not gated by rfc0044) *)
  Definition verify_tx_pool (c : vcache) (x : ctx) (lim : N) (t : tx) : option completed :=
    match lookup c (wtx_hash t) with
    | Some e => verify_hit tx ctx time_relative x t e
    | None =>
      match verify_full tx ctx content time_relative x lim false t with
      | Some e => if dao_size x t then Some e else None
      | None => None
      end
    end.

  (* _process_tx with that verify_rtx *)
  Definition submit_d (c : vcache) (x : ctx) (declared : option N) (pool_ok : bool) (t : tx) : option completed * vcache :=
    let lim := match declared with Some d => d | None => max_block_cycles end in
    match verify_tx_pool c x lim t with
    | Some e =>
      if match declared with Some d => N.eqb d (c_cycles e) | None => true end then
        if pool_ok then
          (Some e, match lookup c (wtx_hash t) with Some _ => c | None => put (wtx_hash t) e c end)
        else (None, c)
      else (None, c)
    | None => (None, c)
    end.

  Inductive dop :=
  | DSubmit (x : ctx) (declared : option N) (pool_ok : bool) (t : tx)
  | DBlock (x : ctx) (skip : bool) (txs : list tx)
  | DEvict (keep : N -> bool).

  Definition dstep (c : vcache) (o : dop) : vout * vcache :=
    match o with
    | DSubmit x d a t => let (r, c') := submit_d c x d a t in (OTx r, c')
    | DBlock x skip txs => let (r, c') := verify_block_d c x skip txs in (OBlock r, c')
    | DEvict keep => (ONone, restrict keep c)
    end.

  Fixpoint drun (c : vcache) (ops : list dop) : list vout :=
    match ops with
    | [] => []
    | o :: ops' => let (r, c') := dstep c o in r :: drun c' ops'
    end.

  Definition dstep_ref (o : dop) : vout :=
    match o with
    | DSubmit x d a t => OTx (fst (submit_d [] x d a t))
    | DBlock x skip txs => OBlock (fst (verify_block_d [] x skip txs))
    | DEvict _ => ONone
    end.
  Definition drun_ref (ops : list dop) : list vout := map dstep_ref ops.

  (* block verifications at any position; pool submissions only at positions
     where the lock-size rule holds or is waived for the transaction *)
  Definition dop_ok (o : dop) : Prop :=
    match o with
    | DSubmit x d _ t => match d with Some d' => N.le d' max_block_cycles | None => True end /\ dao_size x t = true
    | DBlock _ skip _ => skip = false
    | DEvict _ => True
    end.
  (* ... or no pool submissions at all *)
  Definition dop_block_only (o : dop) : Prop :=
    match o with DSubmit _ _ _ _ => False | DBlock _ skip _ => skip = false | DEvict _ => True end.
End DaoSize.

Arguments DSubmit {tx ctx}.
Arguments DBlock {tx ctx}.
Arguments DEvict {tx ctx}.

(* ---- the instance the correspondence cases are evaluated with -------------- *)
(* A transaction as observed by the harness: ids of its witness hash and of
   its transaction hash, what the content checks give (independent of the
   position), and what since/maturity give at the position of this event. *)
Record otx := mkOT { ot_wtx : N; ot_txh : N; ot_content : option completed; ot_tr : bool }.

Definition o_verify_block (maxc : N) (c : fmap completed) (skip : bool) (txs : list otx) :=
  verify_block otx unit ot_wtx ot_content (fun _ t => ot_tr t) maxc c tt skip txs.

(* one block verification observed on a node: did resolution and all block
   level checks other than the transactions' pass (they do not involve the
   cache), the transactions, and what the node answered *)
Record vevent := mkVE {
  ve_pre_ok : bool;
  ve_skip : bool;
  ve_txs : list otx;
  ve_accepted : bool;
  ve_recorded : list completed      (* BlockExt txs_fees/cycles without the cellbase; [] when rejected *)
}.

(* [restart]: the cache of a restarted node is what [vc_init] says again
   (empty, or re-warmed); [vc_cap]: capacity of the node's cache (None = never
   full during the history).  Reads are LruCache::peek, so the recency order is
   the order of the puts: the list order. *)
Inductive vitem := VEv (e : vevent) | VRestart.

Record vcase := mkVCase {
  vc_maxc : N;
  vc_cap : option nat;
  vc_init : fmap completed;
  vc_items : list vitem }.

Definition list_eqb {A} (e : A -> A -> bool) := fix go (a b : list A) : bool :=
  match a, b with
  | [], [] => true
  | x :: a', y :: b' => e x y && go a' b'
  | _, _ => false
  end.

Definition check_event (maxc : N) (c : fmap completed) (e : vevent) : bool * fmap completed :=
  if ve_pre_ok e then
    let (r, c') := o_verify_block maxc c (ve_skip e) (ve_txs e) in
    (match r with
     | Some es => ve_accepted e && list_eqb completed_eqb es (ve_recorded e)
     | None => negb (ve_accepted e)
     end, c')
  else (negb (ve_accepted e), c).

Definition trunc {V} (cap : option nat) (c : fmap V) : fmap V :=
  match cap with Some n => firstn n c | None => c end.

Fixpoint check_items (maxc : N) (cap : option nat) (init c : fmap completed) (l : list vitem) : bool :=
  match l with
  | [] => true
  | VRestart :: l' => check_items maxc cap init (trunc cap init) l'
  | VEv e :: l' =>
    let (ok, c') := check_event maxc c e in
    ok && check_items maxc cap init (trunc cap c') l'
  end.

Definition check_vcase (v : vcase) : bool :=
  check_items (vc_maxc v) (vc_cap v) (vc_init v) (trunc (vc_cap v) (vc_init v)) (vc_items v).

(* ---- the DAO stream's instance ---------------------------------------------- *)
(* a transaction at one position of a history: witness-hash id, content result,
   since/maturity at that position, DaoScriptSizeVerifier at that position (the
   generator's own reading of the rule: equal sizes, or the deposit was committed
   below the limiting block number on the branch of that position) *)
Record dotx := mkDO { do_wtx : N; do_content : option completed; do_tr : bool; do_dao : bool }.

Definition d_verify_block (maxc : N) (c : fmap completed) (txs : list dotx) :=
  verify_block_d dotx unit do_wtx do_content (fun _ t => do_tr t) (fun _ t => do_dao t) (fun _ => true) maxc c tt false txs.
Definition d_submit (maxc : N) (c : fmap completed) (t : dotx) :=
  submit_d dotx unit do_wtx do_content (fun _ t => do_tr t) (fun _ t => do_dao t) maxc c tt None true t.

Inductive ditem :=
| DBlk (txs : list dotx) (accepted : bool) (recorded : list completed)   (* one block verification and the node's answer *)
| DPool (t : dotx) (accepted : bool)                                     (* test_accept / submit of a loose transaction *)
| DForget.                                                               (* restart, or the cache is cleared *)

Record dcase := mkDCase { dc_maxc : N; dc_cap : option nat; dc_items : list ditem }.

Fixpoint check_ditems (maxc : N) (cap : option nat) (c : fmap completed) (l : list ditem) : bool :=
  match l with
  | [] => true
  | DForget :: l' => check_ditems maxc cap [] l'
  | DBlk txs acc rec :: l' =>
    let (r, c') := d_verify_block maxc c txs in
    match r with
    | Some es => acc && list_eqb completed_eqb es rec
    | None => negb acc
    end && check_ditems maxc cap (trunc cap c') l'
  | DPool t acc :: l' =>
    let (r, c') := d_submit maxc c t in
    Bool.eqb (match r with Some _ => true | None => false end) acc && check_ditems maxc cap (trunc cap c') l'
  end.

Definition check_dcase (v : dcase) : bool := check_ditems (dc_maxc v) (dc_cap v) [] (dc_items v).

(* =========================================================================== *)
(* (b) the store's read caches                                                 *)
(* =========================================================================== *)
(* what a block hash commits to *)
Record blockdata := mkBD {
  bd_header : N;
  bd_uncles : list N;
  bd_proposals : list N;
  bd_ext : option N;
  bd_txs : list N }.

Section StoreCache.
  (* the block a hash is the hash of; the data an out-point designates
     (transaction hash + index commit to output and data) *)
  Variable block_of : N -> blockdata.
  Variable data_of : N -> N.

  Record sstate := mkSS {
    (* RocksDB: COLUMN_BLOCK_HEADER/UNCLE/PROPOSAL_IDS/EXTENSION/BODY of a block are written
       (insert_block) and removed (delete_block) together in one transaction *)
    db_block : N -> bool;
    (* COLUMN_CELL / CELL_DATA / CELL_DATA_HASH of a cell, written and removed together *)
    db_cell : N -> bool;
    ch : fmap N;                  (* headers *)
    cu : fmap (list N);           (* block_uncles *)
    cp : fmap (list N);           (* block_proposals *)
    ce : fmap (option N);         (* block_extensions: negative answers are cached too *)
    ct : fmap (list N);           (* block_tx_hashes: the empty answer for an absent block is cached too *)
    cd : fmap N                   (* cell_data / cell_data_hash *)
  }.

  (* the uncached getters: what the columns say *)
  Definition db_header (s : sstate) (h : N) : option N := if db_block s h then Some (bd_header (block_of h)) else None.
  Definition db_uncles (s : sstate) (h : N) : option (list N) := if db_block s h then Some (bd_uncles (block_of h)) else None.
  Definition db_proposals (s : sstate) (h : N) : option (list N) := if db_block s h then Some (bd_proposals (block_of h)) else None.
  Definition db_ext (s : sstate) (h : N) : option N := if db_block s h then bd_ext (block_of h) else None.
  Definition db_txs (s : sstate) (h : N) : list N := if db_block s h then bd_txs (block_of h) else [].
  Definition db_data (s : sstate) (k : N) : option N := if db_cell s k then Some (data_of k) else None.

  Definition set_ch s v := mkSS (db_block s) (db_cell s) v (cu s) (cp s) (ce s) (ct s) (cd s).
  Definition set_cu s v := mkSS (db_block s) (db_cell s) (ch s) v (cp s) (ce s) (ct s) (cd s).
  Definition set_cp s v := mkSS (db_block s) (db_cell s) (ch s) (cu s) v (ce s) (ct s) (cd s).
  Definition set_ce s v := mkSS (db_block s) (db_cell s) (ch s) (cu s) (cp s) v (ct s) (cd s).
  Definition set_ct s v := mkSS (db_block s) (db_cell s) (ch s) (cu s) (cp s) (ce s) v (cd s).
  Definition set_cd s v := mkSS (db_block s) (db_cell s) (ch s) (cu s) (cp s) (ce s) (ct s) v.

  (* ChainStore::get_block_header (also get_block_uncles, get_block_proposal_txs_ids,
     get_cell_data, get_cell_data_hash): a hit answers; a miss reads the column and
     caches a positive answer only *)
  Definition get_header (s : sstate) (h : N) : option N * sstate :=
    match lookup (ch s) h with
    | Some v => (Some v, s)
    | None => match db_header s h with
              | Some v => (Some v, set_ch s (put h v (ch s)))
              | None => (None, s) end
    end.
  Definition get_uncles (s : sstate) (h : N) : option (list N) * sstate :=
    match lookup (cu s) h with
    | Some v => (Some v, s)
    | None => match db_uncles s h with
              | Some v => (Some v, set_cu s (put h v (cu s)))
              | None => (None, s) end
    end.
  Definition get_proposals (s : sstate) (h : N) : option (list N) * sstate :=
    match lookup (cp s) h with
    | Some v => (Some v, s)
    | None => match db_proposals s h with
              | Some v => (Some v, set_cp s (put h v (cp s)))
              | None => (None, s) end
    end.
  Definition get_data (s : sstate) (k : N) : option N * sstate :=
    match lookup (cd s) k with
    | Some v => (Some v, s)
    | None => match db_data s k with
              | Some v => (Some v, set_cd s (put k v (cd s)))
              | None => (None, s) end
    end.
  (* get_block_extension / get_block_txs_hashes: whatever the column says is cached *)
  Definition get_ext (s : sstate) (h : N) : option N * sstate :=
    match lookup (ce s) h with
    | Some v => (v, s)
    | None => let v := db_ext s h in (v, set_ce s (put h v (ce s)))
    end.
  Definition get_txs (s : sstate) (h : N) : list N * sstate :=
    match lookup (ct s) h with
    | Some v => (v, s)
    | None => let v := db_txs s h in (v, set_ct s (put h v (ct s)))
    end.

  (* ChainStore::get_block: guarded by the (cached) header getter; the body is
     always read from the column *)
  Record blockans := mkBA { ba_header : N; ba_uncles : option (list N); ba_proposals : option (list N);
                            ba_ext : option N; ba_body : list N }.
  Definition get_block (s : sstate) (h : N) : option blockans * sstate :=
    let (hd, s1) := get_header s h in
    match hd with
    | None => (None, s1)
    | Some v =>
      let (u, s2) := get_uncles s1 h in
      let (p, s3) := get_proposals s2 h in
      let (e, s4) := get_ext s3 h in
      (Some (mkBA v u p e (db_txs s h)), s4)
    end.
  Definition db_get_block (s : sstate) (h : N) : option blockans :=
    match db_header s h with
    | None => None
    | Some v => Some (mkBA v (db_uncles s h) (db_proposals s h) (db_ext s h) (db_txs s h))
    end.

  Definition upd (f : N -> bool) (k : N) (b : bool) : N -> bool := fun x => if N.eqb x k then b else f x.

  Inductive sop :=
  | SInsertBlock (h : N)          (* StoreTransaction::insert_block + commit; no cache is touched *)
  | SDeleteBlock (h : N)          (* chain::delete_unverified_block: get_block, delete_block, commit *)
  | SInsertCell (k : N)           (* attach_block_cell: outputs / detach_block_cell: restored inputs *)
  | SDeleteCell (k : N)           (* attach_block_cell: inputs / detach_block_cell: outputs *)
  | SGetHeader (h : N) | SGetUncles (h : N) | SGetProposals (h : N) | SGetExt (h : N) | SGetTxs (h : N)
  | SGetBlock (h : N) | SGetData (k : N)
  | SEvict (kh ku kp ke kt kd : N -> bool).

  Definition sstep (s : sstate) (o : sop) : sstate :=
    match o with
    | SInsertBlock h => mkSS (upd (db_block s) h true) (db_cell s) (ch s) (cu s) (cp s) (ce s) (ct s) (cd s)
    | SDeleteBlock h =>
      let s1 := snd (get_block s h) in
      mkSS (upd (db_block s1) h false) (db_cell s1) (ch s1) (cu s1) (cp s1) (ce s1) (ct s1) (cd s1)
    | SInsertCell k => mkSS (db_block s) (upd (db_cell s) k true) (ch s) (cu s) (cp s) (ce s) (ct s) (cd s)
    | SDeleteCell k => mkSS (db_block s) (upd (db_cell s) k false) (ch s) (cu s) (cp s) (ce s) (ct s) (cd s)
    | SGetHeader h => snd (get_header s h)
    | SGetUncles h => snd (get_uncles s h)
    | SGetProposals h => snd (get_proposals s h)
    | SGetExt h => snd (get_ext s h)
    | SGetTxs h => snd (get_txs s h)
    | SGetBlock h => snd (get_block s h)
    | SGetData k => snd (get_data s k)
    | SEvict kh ku kp ke kt kd =>
      mkSS (db_block s) (db_cell s) (restrict kh (ch s)) (restrict ku (cu s)) (restrict kp (cp s))
           (restrict ke (ce s)) (restrict kt (ct s)) (restrict kd (cd s))
    end.
  Definition srun (s : sstate) (ops : list sop) : sstate := fold_left sstep ops s.

  (* every read in the history is on a block / cell that is in the columns at
     that moment (what the callers in the repository ensure: get_block after an
     uncached index lookup, cell data after get_cell, extensions of main-chain
     headers) *)
  Definition sop_guarded (s : sstate) (o : sop) : Prop :=
    match o with
    | SGetHeader h | SGetUncles h | SGetProposals h | SGetExt h | SGetTxs h | SGetBlock h
    | SDeleteBlock h => db_block s h = true
    | SGetData k => db_cell s k = true
    | _ => True
    end.
  Fixpoint guarded (s : sstate) (ops : list sop) : Prop :=
    match ops with
    | [] => True
    | o :: ops' => sop_guarded s o /\ guarded (sstep s o) ops'
    end.

  (* the invariant: an entry, if present, is the immutable content its key addresses *)
  Definition scache_ok (s : sstate) : Prop :=
    (forall h v, lookup (ch s) h = Some v -> v = bd_header (block_of h)) /\
    (forall h v, lookup (cu s) h = Some v -> v = bd_uncles (block_of h)) /\
    (forall h v, lookup (cp s) h = Some v -> v = bd_proposals (block_of h)) /\
    (forall h v, lookup (ce s) h = Some v -> v = bd_ext (block_of h)) /\
    (forall h v, lookup (ct s) h = Some v -> v = bd_txs (block_of h)) /\
    (forall k v, lookup (cd s) k = Some v -> v = data_of k).

  Definition empty_sstate : sstate := mkSS (fun _ => false) (fun _ => false) [] [] [] [] [] [].
End StoreCache.

(* =========================================================================== *)
(* (c) SYSTEM_CELL                                                             *)
(* =========================================================================== *)
Section SystemCell.
  Variable meta_of : N -> N.                 (* the cell an out-point designates *)
  (* the map built once from the genesis block by setup_system_cell_cache *)
  Variable system_cell : N -> option N.

  (* resolve_transaction, cell-dep part: a dep found in SYSTEM_CELL is taken
     from it and ResolvedTransaction::check skips its liveness check; any
     other dep is looked up in the live-cell set *)
  Definition resolve_dep_cached (live : N -> bool) (op : N) : option N :=
    match system_cell op with
    | Some m => Some m
    | None => if live op then Some (meta_of op) else None
    end.
  Definition resolve_dep (live : N -> bool) (op : N) : option N :=
    if live op then Some (meta_of op) else None.

  Fixpoint resolve_deps (r : N -> option N) (deps : list N) : option (list N) :=
    match deps with
    | [] => Some []
    | d :: deps' =>
      match r d with
      | Some m => match resolve_deps r deps' with Some l => Some (m :: l) | None => None end
      | None => None
      end
    end.

  Definition system_cell_ok : Prop := forall op m, system_cell op = Some m -> m = meta_of op.
  Definition system_cells_unspendable (live : N -> bool) : Prop :=
    forall op m, system_cell op = Some m -> live op = true.
End SystemCell.
