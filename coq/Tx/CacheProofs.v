(* Tx/CacheProofs.v — proofs about Tx/Cache.v (property C14). *)
From CKB Require Import Tx.Cache.
From Coq Require Import List NArith Bool Lia.
Import ListNotations.

(* ---- finite maps ---------------------------------------------------------- *)
Lemma lookup_filter_key : forall V (f : N -> bool) (c : fmap V) k,
  lookup (filter (fun p => f (fst p)) c) k = if f k then lookup c k else None.
Proof.
  induction c as [|[k' v] c IH]; intros k; simpl.
  - destruct (f k); reflexivity.
  - destruct (f k') eqn:Fk'; simpl.
    + destruct (N.eqb k k') eqn:E.
      * apply N.eqb_eq in E. subst. rewrite Fk'. reflexivity.
      * apply IH.
    + destruct (N.eqb k k') eqn:E.
      * apply N.eqb_eq in E. subst. rewrite IH, Fk'. reflexivity.
      * apply IH.
Qed.

Lemma lookup_restrict : forall V keep (c : fmap V) k,
  lookup (restrict keep c) k = if keep k then lookup c k else None.
Proof. intros. unfold restrict. apply lookup_filter_key. Qed.

Lemma lookup_remove : forall V (c : fmap V) k k',
  lookup (fremove k c) k' = if N.eqb k' k then None else lookup c k'.
Proof.
  intros. unfold fremove.
  rewrite (lookup_filter_key V (fun x => negb (N.eqb x k))).
  destruct (N.eqb k' k); reflexivity.
Qed.

Lemma lookup_put : forall V (c : fmap V) k v k',
  lookup (put k v c) k' = if N.eqb k' k then Some v else lookup c k'.
Proof.
  intros. unfold put. simpl. destruct (N.eqb k' k) eqn:E; [reflexivity|].
  rewrite lookup_remove, E. reflexivity.
Qed.

Lemma sum_cycles_ge : forall l e, In e l -> N.le (c_cycles e) (sum_cycles l).
Proof.
  induction l as [|a l IH]; intros e H; [destruct H|].
  simpl. destruct H as [->|H]; [lia|]. specialize (IH e H). lia.
Qed.

(* =========================================================================== *)
Section VCacheProofs.
  Variable tx : Type.
  Variable ctx : Type.
  Variable wtx_hash : tx -> N.
  Variable content : tx -> option completed.
  Variable time_relative : ctx -> tx -> bool.
  Variable maxc : N.

  (* every datum the content checks read is committed by the witness hash or
     addressed by a hash in the transaction; the hard-fork regime is constant *)
  Hypothesis content_by_hash : forall t1 t2, wtx_hash t1 = wtx_hash t2 -> content t1 = content t2.

  Notation vcache_ok := (vcache_ok tx wtx_hash content maxc).
  Notation verify_tx := (verify_tx tx ctx wtx_hash content time_relative).
  Notation verify_full := (verify_full tx ctx content time_relative).
  Notation verify_txs := (verify_txs tx ctx wtx_hash content time_relative maxc).
  Notation verify_block := (verify_block tx ctx wtx_hash content time_relative maxc).
  Notation submit := (submit tx ctx wtx_hash content time_relative maxc).
  Notation vstep := (vstep tx ctx wtx_hash content time_relative maxc).
  Notation vrun := (vrun tx ctx wtx_hash content time_relative maxc).
  Notation vrun_ref := (vrun_ref tx ctx wtx_hash content time_relative maxc).
  Notation vstep_ref := (vstep_ref tx ctx wtx_hash content time_relative maxc).
  Notation vop_ok := (vop_ok tx ctx maxc).
  Notation put_all := (put_all tx wtx_hash).

  Lemma vcache_ok_nil : vcache_ok [].
  Proof. intros t e H. discriminate. Qed.

  Lemma vcache_ok_restrict : forall keep c, vcache_ok c -> vcache_ok (restrict keep c).
  Proof.
    intros keep c H t e L. rewrite lookup_restrict in L.
    destruct (keep (wtx_hash t)); [auto | discriminate].
  Qed.

  Lemma vcache_ok_put : forall c t e,
    vcache_ok c -> content t = Some e -> N.le (c_cycles e) maxc -> vcache_ok (put (wtx_hash t) e c).
  Proof.
    intros c t e H Ct Le t' e' L. rewrite lookup_put in L.
    destruct (N.eqb (wtx_hash t') (wtx_hash t)) eqn:E.
    - inversion L; subst. apply N.eqb_eq in E.
      rewrite (content_by_hash t' t E). auto.
    - auto.
  Qed.

  (* with the block limit: hit path = miss path on an ok cache *)
  Lemma verify_tx_block_eq : forall c x t,
    vcache_ok c -> verify_tx c x maxc false t = verify_full x maxc false t.
  Proof.
    intros c x t H. unfold Cache.verify_tx.
    destruct (lookup c (wtx_hash t)) as [e|] eqn:L; [|reflexivity].
    destruct (H t e L) as [Ct Le]. unfold Cache.verify_hit, Cache.verify_full.
    rewrite Ct. destruct (time_relative x t); [|reflexivity].
    apply N.leb_le in Le. rewrite Le. reflexivity.
  Qed.

  Lemma verify_full_sound : forall x lim t e,
    verify_full x lim false t = Some e -> content t = Some e /\ N.le (c_cycles e) lim.
  Proof.
    intros x lim t e. unfold Cache.verify_full.
    destruct (time_relative x t); [|discriminate].
    destruct (content t) as [e'|]; [|discriminate].
    destruct (N.leb (c_cycles e') lim) eqn:Le; [|discriminate].
    intros H; inversion H; subst. split; [reflexivity | apply N.leb_le; exact Le].
  Qed.

  Lemma verify_txs_eq : forall c x txs,
    vcache_ok c -> verify_txs c x false txs = verify_txs [] x false txs.
  Proof.
    intros c x txs H. induction txs as [|t txs IH]; [reflexivity|].
    simpl. rewrite (verify_tx_block_eq c x t H), (verify_tx_block_eq [] x t vcache_ok_nil), IH.
    reflexivity.
  Qed.

  Lemma verify_txs_sound : forall x txs es,
    verify_txs [] x false txs = Some es ->
    Forall2 (fun t e => content t = Some e /\ N.le (c_cycles e) maxc) txs es.
  Proof.
    intros x. induction txs as [|t txs IH]; intros es H; simpl in H.
    - inversion H. constructor.
    - unfold Cache.verify_tx in H. simpl in H.
      destruct (verify_full x maxc false t) as [e|] eqn:F; [|discriminate].
      destruct (verify_txs [] x false txs) as [l|] eqn:R; [|discriminate].
      inversion H; subst. constructor; [eapply verify_full_sound; eauto | auto].
  Qed.

  Lemma vcache_ok_put_all : forall txs es c,
    vcache_ok c ->
    Forall2 (fun t e => content t = Some e /\ N.le (c_cycles e) maxc) txs es ->
    vcache_ok (put_all txs es c).
  Proof.
    induction txs as [|t txs IH]; intros es c H F; inversion F; subst; simpl; [exact H|].
    apply IH; [|assumption]. destruct H2. apply vcache_ok_put; assumption.
  Qed.

  Lemma verify_block_transparent : forall c x txs,
    vcache_ok c ->
    fst (verify_block c x false txs) = fst (verify_block [] x false txs) /\
    vcache_ok (snd (verify_block c x false txs)).
  Proof.
    intros c x txs H. unfold Cache.verify_block.
    rewrite (verify_txs_eq c x txs H).
    destruct (verify_txs [] x false txs) as [es|] eqn:R; simpl; [|auto].
    split; [reflexivity|]. apply vcache_ok_put_all; [exact H|].
    eapply verify_txs_sound; eauto.
  Qed.

  Lemma submit_transparent : forall c x d a t,
    vcache_ok c -> match d with Some d' => N.le d' maxc | None => True end ->
    fst (submit c x d a t) = fst (submit [] x d a t) /\ vcache_ok (snd (submit c x d a t)).
  Proof.
    intros c x d a t H Hd. unfold Cache.submit, Cache.verify_tx. simpl lookup.
    destruct (lookup c (wtx_hash t)) as [e|] eqn:L.
    - (* hit *)
      destruct (H t e L) as [Ct Le].
      unfold Cache.verify_hit, Cache.verify_full. rewrite Ct.
      destruct (time_relative x t); [|simpl; auto].
      destruct d as [d'|].
      + destruct (N.eqb d' (c_cycles e)) eqn:E.
        * apply N.eqb_eq in E. subst d'.
          rewrite N.leb_refl. rewrite N.eqb_refl.
          destruct a; simpl; auto.
        * destruct (N.leb (c_cycles e) d'); [rewrite E|]; simpl; auto.
      + apply N.leb_le in Le. rewrite Le. destruct a; simpl; auto.
    - (* miss: same computation; the new entry is sound *)
      destruct (verify_full x match d with Some d0 => d0 | None => maxc end false t) as [e|] eqn:F; [|simpl; auto].
      destruct (match d with Some d0 => N.eqb d0 (c_cycles e) | None => true end); [|simpl; auto].
      destruct a; simpl; [|auto]. split; [reflexivity|].
      destruct (verify_full_sound _ _ _ _ F) as [Ct Le].
      apply vcache_ok_put; [exact H | exact Ct |].
      destruct d as [d'|]; [lia | exact Le].
  Qed.

  Lemma vstep_transparent : forall c o,
    vcache_ok c -> vop_ok o -> fst (vstep c o) = vstep_ref o /\ vcache_ok (snd (vstep c o)).
  Proof.
    intros c o H Ho. destruct o as [x d a t | x skip txs | keep]; simpl.
    - destruct (submit_transparent c x d a t H) as [E K].
      { destruct d; simpl in Ho; auto. }
      destruct (submit c x d a t) as [r c'] eqn:S. simpl in *. rewrite E. auto.
    - simpl in Ho. subst skip.
      destruct (verify_block_transparent c x txs H) as [E K].
      destruct (verify_block c x false txs) as [r c'] eqn:S. simpl in *. rewrite E. auto.
    - split; [reflexivity | apply vcache_ok_restrict; exact H].
  Qed.

  (* C14, verdicts: for every history of pool submissions, block verifications
     and evictions (any capacity, any replacement order), from every sound
     cache (cold or warm): same verdicts, fees and cycles as without a cache *)
  Theorem vrun_transparent : forall ops c,
    vcache_ok c -> Forall vop_ok ops -> vrun c ops = vrun_ref ops.
  Proof.
    induction ops as [|o ops IH]; intros c H F; [reflexivity|].
    inversion F; subst. simpl.
    destruct (vstep_transparent c o H H2) as [E K].
    destruct (vstep c o) as [r c'] eqn:S. simpl in *. subst r.
    unfold Cache.vrun_ref in *. simpl. f_equal. apply IH; assumption.
  Qed.

  (* ---- a hit needs the same witness hash ---------------------------------- *)
  Definition vop_txs (o : vop tx ctx) : list tx :=
    match o with VSubmit _ _ _ t => [t] | VBlock _ _ txs => txs | VEvict _ => [] end.
  Definition vfinal (c : vcache) (ops : list (vop tx ctx)) : vcache :=
    fold_left (fun c o => snd (vstep c o)) ops c.

  Lemma put_all_keys : forall txs es c k e,
    lookup (put_all txs es c) k = Some e ->
    lookup c k = Some e \/ exists t, In t txs /\ wtx_hash t = k.
  Proof.
    induction txs as [|t txs IH]; intros es c k e L; simpl in L; [auto|].
    destruct es as [|e0 es]; [auto|].
    apply IH in L. destruct L as [L|[t' [I E]]].
    - rewrite lookup_put in L. destruct (N.eqb k (wtx_hash t)) eqn:E.
      + right. exists t. split; [left; reflexivity | symmetry; apply N.eqb_eq; exact E].
      + auto.
    - right. exists t'. split; [right; exact I | exact E].
  Qed.

  Lemma vstep_keys : forall c o k e,
    lookup (snd (vstep c o)) k = Some e ->
    lookup c k = Some e \/ exists t, In t (vop_txs o) /\ wtx_hash t = k.
  Proof.
    intros c o k e. destruct o as [x d a t | x skip txs | keep]; simpl.
    - unfold Cache.submit.
      destruct (verify_tx c x match d with Some d0 => d0 | None => maxc end false t) as [e0|]; [|simpl; auto].
      destruct (match d with Some d0 => N.eqb d0 (c_cycles e0) | None => true end); [|simpl; auto].
      destruct a; [|simpl; auto]. simpl.
      destruct (lookup c (wtx_hash t)); [auto|].
      rewrite lookup_put. destruct (N.eqb k (wtx_hash t)) eqn:E; [|auto].
      intros _. right. exists t. split; [left; reflexivity | symmetry; apply N.eqb_eq; exact E].
    - unfold Cache.verify_block. destruct (verify_txs c x skip txs) as [es|]; simpl; [|auto].
      apply put_all_keys.
    - rewrite lookup_restrict. destruct (keep k); [auto | discriminate].
  Qed.

  Theorem hit_requires_same_wtx : forall ops c t e,
    lookup (vfinal c ops) (wtx_hash t) = Some e ->
    lookup c (wtx_hash t) = Some e \/
    exists o t', In o ops /\ In t' (vop_txs o) /\ wtx_hash t' = wtx_hash t.
  Proof.
    induction ops as [|o ops IH]; intros c t e L; simpl in L; [auto|].
    apply IH in L. destruct L as [L|[o' [t' [I [I' E]]]]].
    - apply vstep_keys in L. destruct L as [L|[t' [I E]]]; [auto|].
      right. exists o, t'. split; [left; reflexivity | auto].
    - right. exists o', t'. split; [right; exact I | auto].
  Qed.

  (* with collision-free witness hashes: the very same transaction, witnesses included *)
  Corollary hit_requires_same_tx :
    (forall t1 t2, wtx_hash t1 = wtx_hash t2 -> t1 = t2) ->
    forall ops t e, lookup (vfinal [] ops) (wtx_hash t) = Some e ->
    exists o, In o ops /\ In t (vop_txs o).
  Proof.
    intros inj ops t e L. apply hit_requires_same_wtx in L.
    destruct L as [L|[o [t' [I [I' E]]]]]; [discriminate|].
    apply inj in E. subst t'. exists o. auto.
  Qed.

  (* and what it returns is that transaction's own result *)
  Lemma vfinal_ok : forall ops c, vcache_ok c -> Forall vop_ok ops -> vcache_ok (vfinal c ops).
  Proof.
    induction ops as [|o ops IH]; intros c H F; [exact H|].
    inversion F; subst. simpl. apply IH; [|assumption].
    apply vstep_transparent; assumption.
  Qed.

  (* ---- context-dependent checks are always re-run --------------------------- *)
  (* whatever the cache holds (sound or not), the result depends on the
     position through time_relative exactly as the miss path does *)
  Theorem contextual_always_rerun : forall c lim skip t,
    (forall x, time_relative x t = false -> verify_tx c x lim skip t = None) /\
    (forall x, time_relative x t = false -> verify_full x lim skip t = None) /\
    (forall x1 x2, time_relative x1 t = time_relative x2 t ->
       verify_tx c x1 lim skip t = verify_tx c x2 lim skip t) /\
    (forall x1 x2, time_relative x1 t = time_relative x2 t ->
       verify_full x1 lim skip t = verify_full x2 lim skip t).
  Proof.
    intros c lim skip t. unfold Cache.verify_tx, Cache.verify_hit, Cache.verify_full.
    repeat split.
    - intros x H. rewrite H. destruct (lookup c (wtx_hash t)); reflexivity.
    - intros x H. rewrite H. reflexivity.
    - intros x1 x2 H. rewrite H. reflexivity.
    - intros x1 x2 H. rewrite H. reflexivity.
  Qed.

  (* a block with a cached but immature transaction is rejected *)
  Corollary block_with_immature_rejected : forall c x skip txs t,
    In t txs -> time_relative x t = false -> fst (verify_block c x skip txs) = None.
  Proof.
    intros c x skip txs t I H. unfold Cache.verify_block.
    assert (R : verify_txs c x skip txs = None).
    { induction txs as [|t0 txs IH]; [destruct I|]. simpl.
      destruct I as [->|I].
      - destruct (contextual_always_rerun c maxc skip t) as [A _]. rewrite (A x H). reflexivity.
      - rewrite (IH I). destruct (verify_tx c x maxc skip t0); reflexivity. }
    rewrite R. reflexivity.
  Qed.
End VCacheProofs.

(* ---- non-vacuity and the assume-valid witness ------------------------------- *)
Definition ex_ok (t : otx) : Prop := True.
Definition ot1 := mkOT 1 101 (Some (mkC 500 30)) true.
Definition ot2 := mkOT 2 102 (Some (mkC 700 11)) true.
Definition ot2_immature := mkOT 2 102 (Some (mkC 700 11)) false.
Definition ot3_bad := mkOT 3 103 None true.

Definition o_run (maxc : N) := vrun otx unit ot_wtx ot_content (fun _ t => ot_tr t) maxc.
Definition o_ref (maxc : N) := vrun_ref otx unit ot_wtx ot_content (fun _ t => ot_tr t) maxc.

(* pool submission of 1 and 2, a block with both (two hits), eviction of 1,
   a block on another branch where 2 is immature (hit, rejected), a block with
   a transaction failing its scripts, the first block again (1 recomputed, 2 hit) *)
Definition ex_history : list (vop otx unit) :=
  [ VSubmit tt (Some 500%N) true ot1; VSubmit tt None true ot2;
    VBlock tt false [ot1; ot2];
    VEvict (fun k => negb (N.eqb k 1));
    VBlock tt false [ot1; ot2_immature];
    VBlock tt false [ot3_bad];
    VBlock tt false [ot1; ot2] ].

Lemma ex_history_ok : Forall (vop_ok otx unit 1000) ex_history.
Proof. unfold ex_history. repeat constructor; simpl; lia. Qed.

Lemma ex_history_outputs :
  o_run 10000 [] ex_history =
  [ OTx (Some (mkC 500 30)); OTx (Some (mkC 700 11));
    OBlock (Some [mkC 500 30; mkC 700 11]); ONone; OBlock None; OBlock None;
    OBlock (Some [mkC 500 30; mkC 700 11]) ] /\
  o_ref 10000 ex_history = o_run 10000 [] ex_history /\
  (* the cache really is consulted: after the two submissions both are present *)
  lookup (vfinal otx unit ot_wtx ot_content (fun _ t => ot_tr t) 10000 []
            [VSubmit tt (Some 500%N) true ot1; VSubmit tt None true ot2]) 2 = Some (mkC 700 11).
Proof. vm_compute. repeat split. Qed.

(* ot2 and ot2_immature are the same transaction at two positions *)
Lemma ex_content_by_hash : forall t1 t2, In t1 [ot1; ot2; ot2_immature; ot3_bad] -> In t2 [ot1; ot2; ot2_immature; ot3_bad] ->
  ot_wtx t1 = ot_wtx t2 -> ot_content t1 = ot_content t2.
Proof.
  intros t1 t2 H1 H2. simpl in H1, H2.
  repeat (destruct H1 as [<-|H1]; [repeat (destruct H2 as [<-|H2]; [vm_compute; intros; try reflexivity; discriminate|]); destruct H2|]).
  destruct H1.
Qed.

(* A block verified with Switch::DISABLE_SCRIPT (assume-valid) puts cycles = 0
   into the cache; the same transaction committed later on a fully verified
   block of a competing branch is answered from the cache: recorded cycles 0
   (and no script run) where a node without cache records 500. *)
Theorem skip_script_poisons_refuted :
  exists ops, o_run 10000 [] ops <> o_ref 10000 ops /\
              o_run 10000 [] ops = [OBlock (Some [mkC 0 30]); OBlock (Some [mkC 0 30])] /\
              o_ref 10000 ops = [OBlock (Some [mkC 0 30]); OBlock (Some [mkC 500 30])].
Proof.
  exists [VBlock tt true [ot1]; VBlock tt false [ot1]].
  vm_compute. repeat split. intros H. discriminate.
Qed.

(* =========================================================================== *)
Section StoreProofs.
  Variable block_of : N -> blockdata.
  Variable data_of : N -> N.

  Notation scache_ok := (scache_ok block_of data_of).
  Notation sstep := (sstep block_of data_of).
  Notation srun := (srun block_of data_of).
  Notation guarded := (guarded block_of data_of).
  Notation sop_guarded := (sop_guarded).

  Ltac ok_split H := destruct H as (Hh & Hu & Hp & He & Ht & Hd).

  Lemma ok_put_ch : forall s h v, scache_ok s -> v = bd_header (block_of h) -> scache_ok (set_ch s (put h v (ch s))).
  Proof.
    intros s h v H E. ok_split H. unfold Cache.scache_ok, set_ch, set_cu, set_cp, set_ce, set_ct, set_cd; cbn [ch cu cp ce ct cd]. repeat split; auto.
    intros h' v' L. rewrite lookup_put in L. destruct (N.eqb h' h) eqn:Q; [|auto].
    apply N.eqb_eq in Q. inversion L. subst. reflexivity.
  Qed.
  Lemma ok_put_cu : forall s h v, scache_ok s -> v = bd_uncles (block_of h) -> scache_ok (set_cu s (put h v (cu s))).
  Proof.
    intros s h v H E. ok_split H. unfold Cache.scache_ok, set_ch, set_cu, set_cp, set_ce, set_ct, set_cd; cbn [ch cu cp ce ct cd]. repeat split; auto.
    intros h' v' L. rewrite lookup_put in L. destruct (N.eqb h' h) eqn:Q; [|auto].
    apply N.eqb_eq in Q. inversion L. subst. reflexivity.
  Qed.
  Lemma ok_put_cp : forall s h v, scache_ok s -> v = bd_proposals (block_of h) -> scache_ok (set_cp s (put h v (cp s))).
  Proof.
    intros s h v H E. ok_split H. unfold Cache.scache_ok, set_ch, set_cu, set_cp, set_ce, set_ct, set_cd; cbn [ch cu cp ce ct cd]. repeat split; auto.
    intros h' v' L. rewrite lookup_put in L. destruct (N.eqb h' h) eqn:Q; [|auto].
    apply N.eqb_eq in Q. inversion L. subst. reflexivity.
  Qed.
  Lemma ok_put_ce : forall s h v, scache_ok s -> v = bd_ext (block_of h) -> scache_ok (set_ce s (put h v (ce s))).
  Proof.
    intros s h v H E. ok_split H. unfold Cache.scache_ok, set_ch, set_cu, set_cp, set_ce, set_ct, set_cd; cbn [ch cu cp ce ct cd]. repeat split; auto.
    intros h' v' L. rewrite lookup_put in L. destruct (N.eqb h' h) eqn:Q; [|auto].
    apply N.eqb_eq in Q. inversion L. subst. reflexivity.
  Qed.
  Lemma ok_put_ct : forall s h v, scache_ok s -> v = bd_txs (block_of h) -> scache_ok (set_ct s (put h v (ct s))).
  Proof.
    intros s h v H E. ok_split H. unfold Cache.scache_ok, set_ch, set_cu, set_cp, set_ce, set_ct, set_cd; cbn [ch cu cp ce ct cd]. repeat split; auto.
    intros h' v' L. rewrite lookup_put in L. destruct (N.eqb h' h) eqn:Q; [|auto].
    apply N.eqb_eq in Q. inversion L. subst. reflexivity.
  Qed.
  Lemma ok_put_cd : forall s k v, scache_ok s -> v = data_of k -> scache_ok (set_cd s (put k v (cd s))).
  Proof.
    intros s h v H E. ok_split H. unfold Cache.scache_ok, set_ch, set_cu, set_cp, set_ce, set_ct, set_cd; cbn [ch cu cp ce ct cd]. repeat split; auto.
    intros h' v' L. rewrite lookup_put in L. destruct (N.eqb h' h) eqn:Q; [|auto].
    apply N.eqb_eq in Q. inversion L. subst. reflexivity.
  Qed.

  (* a getter on a present key: answer = the column's, invariant kept, columns untouched *)
  Lemma get_header_ok : forall s h, scache_ok s -> db_block s h = true ->
    fst (get_header block_of s h) = db_header block_of s h /\ scache_ok (snd (get_header block_of s h)) /\
    db_block (snd (get_header block_of s h)) = db_block s /\ db_cell (snd (get_header block_of s h)) = db_cell s.
  Proof.
    intros s h H P. unfold get_header, db_header. rewrite P.
    destruct (lookup (ch s) h) as [v|] eqn:L; simpl.
    - pose proof H as H'. ok_split H'. rewrite (Hh h v L). exact (conj eq_refl (conj H (conj eq_refl eq_refl))).
    - refine (conj eq_refl (conj _ (conj eq_refl eq_refl))). apply ok_put_ch; auto.
  Qed.
  Lemma get_uncles_ok : forall s h, scache_ok s -> db_block s h = true ->
    fst (get_uncles block_of s h) = db_uncles block_of s h /\ scache_ok (snd (get_uncles block_of s h)) /\
    db_block (snd (get_uncles block_of s h)) = db_block s /\ db_cell (snd (get_uncles block_of s h)) = db_cell s.
  Proof.
    intros s h H P. unfold get_uncles, db_uncles. rewrite P.
    destruct (lookup (cu s) h) as [v|] eqn:L; simpl.
    - pose proof H as H'. ok_split H'. rewrite (Hu h v L). exact (conj eq_refl (conj H (conj eq_refl eq_refl))).
    - refine (conj eq_refl (conj _ (conj eq_refl eq_refl))). apply ok_put_cu; auto.
  Qed.
  Lemma get_proposals_ok : forall s h, scache_ok s -> db_block s h = true ->
    fst (get_proposals block_of s h) = db_proposals block_of s h /\ scache_ok (snd (get_proposals block_of s h)) /\
    db_block (snd (get_proposals block_of s h)) = db_block s /\ db_cell (snd (get_proposals block_of s h)) = db_cell s.
  Proof.
    intros s h H P. unfold get_proposals, db_proposals. rewrite P.
    destruct (lookup (cp s) h) as [v|] eqn:L; simpl.
    - pose proof H as H'. ok_split H'. rewrite (Hp h v L). exact (conj eq_refl (conj H (conj eq_refl eq_refl))).
    - refine (conj eq_refl (conj _ (conj eq_refl eq_refl))). apply ok_put_cp; auto.
  Qed.
  Lemma get_ext_ok : forall s h, scache_ok s -> db_block s h = true ->
    fst (get_ext block_of s h) = db_ext block_of s h /\ scache_ok (snd (get_ext block_of s h)) /\
    db_block (snd (get_ext block_of s h)) = db_block s /\ db_cell (snd (get_ext block_of s h)) = db_cell s.
  Proof.
    intros s h H P. unfold get_ext, db_ext. rewrite P.
    destruct (lookup (ce s) h) as [v|] eqn:L; simpl.
    - pose proof H as H'. ok_split H'. rewrite (He h v L). exact (conj eq_refl (conj H (conj eq_refl eq_refl))).
    - refine (conj eq_refl (conj _ (conj eq_refl eq_refl))). apply ok_put_ce; auto.
  Qed.
  Lemma get_txs_ok : forall s h, scache_ok s -> db_block s h = true ->
    fst (get_txs block_of s h) = db_txs block_of s h /\ scache_ok (snd (get_txs block_of s h)) /\
    db_block (snd (get_txs block_of s h)) = db_block s /\ db_cell (snd (get_txs block_of s h)) = db_cell s.
  Proof.
    intros s h H P. unfold get_txs, db_txs. rewrite P.
    destruct (lookup (ct s) h) as [v|] eqn:L; simpl.
    - pose proof H as H'. ok_split H'. rewrite (Ht h v L). exact (conj eq_refl (conj H (conj eq_refl eq_refl))).
    - refine (conj eq_refl (conj _ (conj eq_refl eq_refl))). apply ok_put_ct; auto.
  Qed.
  Lemma get_data_ok : forall s k, scache_ok s -> db_cell s k = true ->
    fst (get_data data_of s k) = db_data data_of s k /\ scache_ok (snd (get_data data_of s k)) /\
    db_block (snd (get_data data_of s k)) = db_block s /\ db_cell (snd (get_data data_of s k)) = db_cell s.
  Proof.
    intros s h H P. unfold get_data, db_data. rewrite P.
    destruct (lookup (cd s) h) as [v|] eqn:L; simpl.
    - pose proof H as H'. ok_split H'. rewrite (Hd h v L). exact (conj eq_refl (conj H (conj eq_refl eq_refl))).
    - refine (conj eq_refl (conj _ (conj eq_refl eq_refl))). apply ok_put_cd; auto.
  Qed.

  Lemma get_block_ok : forall s h, scache_ok s -> db_block s h = true ->
    fst (get_block block_of s h) = db_get_block block_of s h /\ scache_ok (snd (get_block block_of s h)) /\
    db_block (snd (get_block block_of s h)) = db_block s /\ db_cell (snd (get_block block_of s h)) = db_cell s.
  Proof.
    intros s h H P. unfold get_block, db_get_block.
    assert (Hdb : db_header block_of s h = Some (bd_header (block_of h))) by (unfold db_header; rewrite P; reflexivity).
    destruct (get_header_ok s h H P) as (A1 & K1 & B1 & C1).
    destruct (get_header block_of s h) as [hd s1]. cbn [fst snd] in A1, K1, B1, C1. subst hd. rewrite Hdb.
    assert (P1 : db_block s1 h = true) by (rewrite B1; exact P).
    destruct (get_uncles_ok s1 h K1 P1) as (A2 & K2 & B2 & C2).
    destruct (get_uncles block_of s1 h) as [u s2]. cbn [fst snd] in A2, K2, B2, C2.
    assert (P2 : db_block s2 h = true) by (rewrite B2; exact P1).
    destruct (get_proposals_ok s2 h K2 P2) as (A3 & K3 & B3 & C3).
    destruct (get_proposals block_of s2 h) as [p s3]. cbn [fst snd] in A3, K3, B3, C3.
    assert (P3 : db_block s3 h = true) by (rewrite B3; exact P2).
    destruct (get_ext_ok s3 h K3 P3) as (A4 & K4 & B4 & C4).
    destruct (get_ext block_of s3 h) as [e s4]. cbn [fst snd] in A4, K4, B4, C4.
    subst u p e. cbn [fst snd]. unfold db_uncles, db_proposals, db_ext. rewrite P, P1, P2, P3.
    refine (conj eq_refl (conj K4 (conj _ _))); congruence.
  Qed.

  Lemma sstep_ok : forall s o, scache_ok s -> sop_guarded s o -> scache_ok (sstep s o).
  Proof.
    intros s o H G. destruct o; simpl in *.
    - ok_split H. unfold Cache.scache_ok; simpl. repeat split; auto.
    - destruct (get_block_ok s h H G) as (_ & K & _ & _).
      destruct K as (Hh & Hu & Hp & He & Ht & Hd). unfold Cache.scache_ok; simpl. repeat split; auto.
    - ok_split H. unfold Cache.scache_ok; simpl. repeat split; auto.
    - ok_split H. unfold Cache.scache_ok; simpl. repeat split; auto.
    - apply get_header_ok; auto.
    - apply get_uncles_ok; auto.
    - apply get_proposals_ok; auto.
    - apply get_ext_ok; auto.
    - apply get_txs_ok; auto.
    - apply get_block_ok; auto.
    - apply get_data_ok; auto.
    - ok_split H. unfold Cache.scache_ok; simpl.
      repeat split; intros k v L; rewrite lookup_restrict in L;
        match type of L with (if ?b then _ else _) = _ => destruct b; [auto | discriminate] end.
  Qed.

  Lemma srun_ok : forall ops s, scache_ok s -> guarded s ops -> scache_ok (srun s ops).
  Proof.
    induction ops as [|o ops IH]; intros s H G; [exact H|].
    destruct G as [G1 G2]. simpl. apply IH; [apply sstep_ok; assumption | exact G2].
  Qed.

  Lemma empty_ok : scache_ok empty_sstate.
  Proof. unfold Cache.scache_ok; simpl. repeat split; intros; discriminate. Qed.

  (* C14, queries: after any guarded history of block/cell writes, deletions of
     unverified blocks, reads and evictions, every getter on a stored block /
     live cell answers what the columns say, whatever the caches hold *)
  Theorem store_cache_transparent : forall ops s,
    scache_ok s -> guarded s ops ->
    let s' := srun s ops in
    scache_ok s' /\
    (forall h, db_block s' h = true ->
       fst (get_header block_of s' h) = db_header block_of s' h /\
       fst (get_uncles block_of s' h) = db_uncles block_of s' h /\
       fst (get_proposals block_of s' h) = db_proposals block_of s' h /\
       fst (get_ext block_of s' h) = db_ext block_of s' h /\
       fst (get_txs block_of s' h) = db_txs block_of s' h /\
       fst (get_block block_of s' h) = db_get_block block_of s' h) /\
    (forall k, db_cell s' k = true -> fst (get_data data_of s' k) = db_data data_of s' k).
  Proof.
    intros ops s H G s'. assert (K : scache_ok s') by (apply srun_ok; assumption).
    split; [exact K|]. split.
    - intros h P. repeat split.
      + apply get_header_ok; auto.
      + apply get_uncles_ok; auto.
      + apply get_proposals_ok; auto.
      + apply get_ext_ok; auto.
      + apply get_txs_ok; auto.
      + apply get_block_ok; auto.
    - intros k P. apply get_data_ok; auto.
  Qed.

  (* a cached negative answer of a guarded history is right: the block has no extension *)
  Corollary negative_cache_guarded_ok : forall ops s h,
    scache_ok s -> guarded s ops ->
    lookup (ce (srun s ops)) h = Some None -> bd_ext (block_of h) = None.
  Proof.
    intros ops s h H G L. destruct (srun_ok ops s H G) as (_ & _ & _ & He & _).
    symmetry. exact (He h None L).
  Qed.
End StoreProofs.

(* ---- witnesses: what unguarded reads and deletions do ------------------------ *)
Local Open Scope N_scope.
Definition ex_block_of (h : N) : blockdata := mkBD (h * 10) [h + 1] [h + 2] (Some (h + 3)) [h + 4; h + 5].
Definition ex_data_of (k : N) : N := k * 7.
Definition all_keys : N -> bool := fun _ => true.
Definition no_keys : N -> bool := fun _ => false.

(* non-vacuity of the transparency theorem: a guarded history with hits,
   a deletion, an eviction and a re-insertion *)
Definition ex_shistory : list sop :=
  [ SInsertBlock 1; SInsertBlock 2; SGetBlock 1; SGetTxs 1; SGetExt 2; SInsertCell 9; SGetData 9;
    SDeleteBlock 2; SEvict all_keys all_keys all_keys no_keys all_keys all_keys; SGetBlock 1; SDeleteCell 9 ].
Lemma ex_shistory_guarded : guarded ex_block_of ex_data_of empty_sstate ex_shistory.
Proof. vm_compute. repeat split. Qed.
Lemma ex_shistory_hits :
  let s := srun ex_block_of ex_data_of empty_sstate ex_shistory in
  lookup (ch s) 1 = Some 10 /\ lookup (ce s) 1 = Some (Some 4) /\ lookup (ct s) 1 = Some [5; 6] /\ db_block s 1 = true.
Proof. vm_compute. repeat split. Qed.

(* the getter caches a negative answer: asked before the block is stored, it
   keeps saying "no extension" after the block (which has one) was stored *)
Theorem negative_cache_refuted :
  exists ops h, let s := srun ex_block_of ex_data_of empty_sstate ops in
    db_block s h = true /\
    fst (get_ext ex_block_of s h) = None /\ db_ext ex_block_of s h = Some 4 /\
    fst (get_txs ex_block_of s h) = [] /\ db_txs ex_block_of s h = [5; 6].
Proof. exists [SGetExt 1; SGetTxs 1; SInsertBlock 1], 1. vm_compute. repeat split. Qed.

(* delete_unverified_block loads the block (filling the caches) and deletes the
   columns: the header / uncles / proposals / extension of the deleted block
   keep being answered, and get_block returns a block without transactions *)
Theorem deleted_block_ghost_refuted :
  exists ops h, let s := srun ex_block_of ex_data_of empty_sstate ops in
    guarded ex_block_of ex_data_of empty_sstate ops /\
    db_block s h = false /\ db_header ex_block_of s h = None /\
    fst (get_header ex_block_of s h) = Some 10 /\
    db_get_block ex_block_of s h = None /\
    fst (get_block ex_block_of s h) = Some (mkBA 10 (Some [2]) (Some [3]) (Some 4) []).
Proof. exists [SInsertBlock 1; SDeleteBlock 1], 1. vm_compute. repeat split. Qed.

(* the same for the data of a spent cell *)
Theorem dead_cell_ghost_refuted :
  exists ops k, let s := srun ex_block_of ex_data_of empty_sstate ops in
    guarded ex_block_of ex_data_of empty_sstate ops /\
    db_data ex_data_of s k = None /\ fst (get_data ex_data_of s k) = Some 63.
Proof. exists [SInsertCell 9; SGetData 9; SDeleteCell 9], 9. vm_compute. repeat split. Qed.

(* the two combine: ghost header -> get_block of the deleted block reads the
   (evicted) extension column and caches "none" -> the block is stored again
   (a re-delivered orphan) -> get_block answers it without its extension *)
Theorem ghost_then_negative_refuted :
  exists ops h, let s := srun ex_block_of ex_data_of empty_sstate ops in
    db_block s h = true /\
    option_map ba_ext (fst (get_block ex_block_of s h)) = Some None /\
    option_map ba_ext (db_get_block ex_block_of s h) = Some (Some 4).
Proof.
  exists [SInsertBlock 1; SDeleteBlock 1; SEvict all_keys all_keys all_keys no_keys all_keys all_keys;
          SGetBlock 1; SInsertBlock 1], 1.
  vm_compute. repeat split.
Qed.

(* =========================================================================== *)
Section SystemCellProofs.
  Variable meta_of : N -> N.
  Variable system_cell : N -> option N.

  Theorem system_cell_transparent : forall live deps,
    system_cell_ok meta_of system_cell -> system_cells_unspendable system_cell live ->
    resolve_deps (resolve_dep_cached meta_of system_cell live) deps = resolve_deps (resolve_dep meta_of live) deps.
  Proof.
    intros live deps Hok Hun. induction deps as [|d deps IH]; [reflexivity|].
    simpl. rewrite IH. unfold resolve_dep_cached, resolve_dep.
    destruct (system_cell d) as [m|] eqn:S; [|reflexivity].
    rewrite (Hun d m S), (Hok d m S). reflexivity.
  Qed.
End SystemCellProofs.

(* without the hypothesis the answers differ: a spent system cell still resolves *)
Theorem system_cell_spent_refuted :
  exists sys live, system_cell_ok (fun x => x) sys /\
    resolve_deps (resolve_dep_cached (fun x => x) sys live) [5] = Some [5] /\
    resolve_deps (resolve_dep (fun x => x) live) [5] = None.
Proof.
  exists (fun op => if N.eqb op 5 then Some 5 else None), (fun _ => false).
  split; [|vm_compute; split; reflexivity].
  intros op m. destruct (N.eqb op 5) eqn:E; [|discriminate].
  apply N.eqb_eq in E. intros H; inversion H; subst; reflexivity.
Qed.

Lemma system_cell_example :
  system_cell_ok (fun x => x * 2) (fun op => if N.eqb op 5 then Some 10 else None) /\
  system_cells_unspendable (fun op => if N.eqb op 5 then Some 10 else None) (fun op => N.leb op 6).
Proof.
  split; intros op m; destruct (N.eqb op 5) eqn:E; try discriminate; apply N.eqb_eq in E; subst.
  - intros H; inversion H; reflexivity.
  - reflexivity.
Qed.
