(* Tx/FrozenCache.v — the store's read caches in front of a store whose old blocks
   move into the freezer (property C14, "every chain query answer is identical to that
   of a node running with all caches empty or disabled"; the freezer side is C10's).
   No proofs in this file.

   store/src/store.rs
     get_block_header            cache hit | COLUMN_BLOCK_HEADER, positive answers cached
     get_frozen_block            freezer()? ; get_block_header(h)? ; number < freezer.number() ; retrieve
     get_block_uncles            cache hit | COLUMN_BLOCK_UNCLE .or_else(get_frozen_block.uncles), positive cached
     get_block_proposal_txs_ids  cache hit | COLUMN_BLOCK_PROPOSAL_IDS .or_else(frozen), positive cached
     get_block_extension         cache hit | COLUMN_BLOCK_EXTENSION .or_else(frozen.extension), EVERY answer cached
     get_block_txs_hashes        cache hit | COLUMN_BLOCK_BODY, if empty the frozen block's, EVERY answer cached
     get_block_body              COLUMN_BLOCK_BODY, if empty the frozen block's (never cached)
     get_block                   get_block_header ; frozen => the freezer's block ; else the part getters
   shared/src/shared.rs freeze / wipe_out_frozen_data: a block is first appended to the freezer, then its
   part rows (body, uncles, proposals, extension) are deleted from the key-value store; the header row stays. *)
From CKB Require Export Tx.Cache.

Section Frozen.
  Variable block_of : N -> blockdata.

  Record fstate := mkFS {
    f_hdr : N -> bool;       (* COLUMN_BLOCK_HEADER row *)
    f_parts : N -> bool;     (* COLUMN_BLOCK_UNCLE / PROPOSAL_IDS / EXTENSION / BODY rows (written and wiped together) *)
    f_frozen : N -> bool;    (* the freezer holds the block at its number and number < freezer.number() *)
    fch : fmap N;
    fcu : fmap (list N);
    fcp : fmap (list N);
    fce : fmap (option N);
    fct : fmap (list N) }.

  Definition fset_ch s v := mkFS (f_hdr s) (f_parts s) (f_frozen s) v (fcu s) (fcp s) (fce s) (fct s).
  Definition fset_cu s v := mkFS (f_hdr s) (f_parts s) (f_frozen s) (fch s) v (fcp s) (fce s) (fct s).
  Definition fset_cp s v := mkFS (f_hdr s) (f_parts s) (f_frozen s) (fch s) (fcu s) v (fce s) (fct s).
  Definition fset_ce s v := mkFS (f_hdr s) (f_parts s) (f_frozen s) (fch s) (fcu s) (fcp s) v (fct s).
  Definition fset_ct s v := mkFS (f_hdr s) (f_parts s) (f_frozen s) (fch s) (fcu s) (fcp s) (fce s) v.

  (* a stored block that can be read: its header row is there and its parts are in the columns or in the freezer *)
  Definition avail (s : fstate) (h : N) : bool := f_hdr s h && (f_parts s h || f_frozen s h).

  Definition fget_header (s : fstate) (h : N) : option N * fstate :=
    match lookup (fch s) h with
    | Some v => (Some v, s)
    | None => if f_hdr s h then let v := bd_header (block_of h) in (Some v, fset_ch s (put h v (fch s)))
              else (None, s)
    end.

  Definition fget_frozen (s : fstate) (h : N) : option blockdata * fstate :=
    let (hd, s1) := fget_header s h in
    match hd with
    | None => (None, s1)
    | Some _ => (if f_frozen s1 h then Some (block_of h) else None, s1)
    end.

  Definition fget_uncles (s : fstate) (h : N) : option (list N) * fstate :=
    match lookup (fcu s) h with
    | Some v => (Some v, s)
    | None =>
      if f_parts s h then let v := bd_uncles (block_of h) in (Some v, fset_cu s (put h v (fcu s)))
      else let (fb, s1) := fget_frozen s h in
           match fb with
           | Some b => (Some (bd_uncles b), fset_cu s1 (put h (bd_uncles b) (fcu s1)))
           | None => (None, s1)
           end
    end.

  Definition fget_proposals (s : fstate) (h : N) : option (list N) * fstate :=
    match lookup (fcp s) h with
    | Some v => (Some v, s)
    | None =>
      if f_parts s h then let v := bd_proposals (block_of h) in (Some v, fset_cp s (put h v (fcp s)))
      else let (fb, s1) := fget_frozen s h in
           match fb with
           | Some b => (Some (bd_proposals b), fset_cp s1 (put h (bd_proposals b) (fcp s1)))
           | None => (None, s1)
           end
    end.

  Definition kv_ext (s : fstate) (h : N) : option N := if f_parts s h then bd_ext (block_of h) else None.
  Definition kv_txs (s : fstate) (h : N) : list N := if f_parts s h then bd_txs (block_of h) else [].

  Definition opt_ext (fb : option blockdata) : option N := match fb with Some b => bd_ext b | None => None end.

  (* the fallback is part of the answer that is cached *)
  Definition fget_ext (s : fstate) (h : N) : option N * fstate :=
    match lookup (fce s) h with
    | Some v => (v, s)
    | None =>
      match kv_ext s h with
      | Some e => (Some e, fset_ce s (put h (Some e) (fce s)))
      | None => let (fb, s1) := fget_frozen s h in
                let v := opt_ext fb in (v, fset_ce s1 (put h v (fce s1)))
      end
    end.

  (* the variant in which the column's answer is cached and the fallback applied afterwards *)
  Definition fget_ext_late (s : fstate) (h : N) : option N * fstate :=
    match lookup (fce s) h with
    | Some v => (v, s)
    | None =>
      let kv := kv_ext s h in
      let s0 := fset_ce s (put h kv (fce s)) in
      match kv with
      | Some e => (Some e, s0)
      | None => let (fb, s1) := fget_frozen s0 h in (opt_ext fb, s1)
      end
    end.

  Definition fget_txs (s : fstate) (h : N) : list N * fstate :=
    match lookup (fct s) h with
    | Some v => (v, s)
    | None =>
      match kv_txs s h with
      | [] => let (fb, s1) := fget_frozen s h in
              let v := match fb with Some b => bd_txs b | None => [] end in
              (v, fset_ct s1 (put h v (fct s1)))
      | v => (v, fset_ct s (put h v (fct s)))
      end
    end.

  Definition fget_body (s : fstate) (h : N) : list N * fstate :=
    match kv_txs s h with
    | [] => let (fb, s1) := fget_frozen s h in
            (match fb with Some b => bd_txs b | None => [] end, s1)
    | v => (v, s)
    end.

  Definition whole (h : N) : blockans :=
    let b := block_of h in
    mkBA (bd_header b) (Some (bd_uncles b)) (Some (bd_proposals b)) (bd_ext b) (bd_txs b).

  Definition fget_block (s : fstate) (h : N) : option blockans * fstate :=
    let (hd, s1) := fget_header s h in
    match hd with
    | None => (None, s1)
    | Some v =>
      if f_frozen s1 h then (Some (whole h), s1)
      else
        let (body, s2) := fget_body s1 h in
        let (u, s3) := fget_uncles s2 h in
        let (p, s4) := fget_proposals s3 h in
        let (e, s5) := fget_ext s4 h in
        (Some (mkBA v u p e body), s5)
    end.

  Inductive fop :=
  | FInsert (h : N)     (* insert_block + commit *)
  | FFreeze (h : N)     (* Freezer::freeze appended the block and advanced number() past it *)
  | FWipe (h : N)       (* wipe_out_frozen_data: delete_block_body *)
  | FGetHeader (h : N) | FGetUncles (h : N) | FGetProposals (h : N) | FGetExt (h : N) | FGetTxs (h : N)
  | FGetBody (h : N) | FGetBlock (h : N)
  | FEvict (kh ku kp ke kt : N -> bool).

  Definition fstep (s : fstate) (o : fop) : fstate :=
    match o with
    | FInsert h => mkFS (upd (f_hdr s) h true) (upd (f_parts s) h true) (f_frozen s) (fch s) (fcu s) (fcp s) (fce s) (fct s)
    | FFreeze h => mkFS (f_hdr s) (f_parts s) (upd (f_frozen s) h true) (fch s) (fcu s) (fcp s) (fce s) (fct s)
    | FWipe h => mkFS (f_hdr s) (upd (f_parts s) h false) (f_frozen s) (fch s) (fcu s) (fcp s) (fce s) (fct s)
    | FGetHeader h => snd (fget_header s h)
    | FGetUncles h => snd (fget_uncles s h)
    | FGetProposals h => snd (fget_proposals s h)
    | FGetExt h => snd (fget_ext s h)
    | FGetTxs h => snd (fget_txs s h)
    | FGetBody h => snd (fget_body s h)
    | FGetBlock h => snd (fget_block s h)
    | FEvict kh ku kp ke kt =>
      mkFS (f_hdr s) (f_parts s) (f_frozen s) (restrict kh (fch s)) (restrict ku (fcu s)) (restrict kp (fcp s))
           (restrict ke (fce s)) (restrict kt (fct s))
    end.
  Definition frun (s : fstate) (ops : list fop) : fstate := fold_left fstep ops s.

  (* what the node does: only a stored block is frozen, only a frozen block is wiped, reads are on
     readable blocks (asked-before-stored is the separate known finding of Tx/Cache.v) *)
  Definition fop_guarded (s : fstate) (o : fop) : Prop :=
    match o with
    | FFreeze h => f_hdr s h = true /\ f_parts s h = true
    | FWipe h => f_frozen s h = true
    | FGetHeader h | FGetUncles h | FGetProposals h | FGetExt h | FGetTxs h | FGetBody h | FGetBlock h =>
      avail s h = true
    | _ => True
    end.
  Fixpoint fguarded (s : fstate) (ops : list fop) : Prop :=
    match ops with
    | [] => True
    | o :: ops' => fop_guarded s o /\ fguarded (fstep s o) ops'
    end.

  Definition fcache_ok (s : fstate) : Prop :=
    (forall h v, lookup (fch s) h = Some v -> v = bd_header (block_of h)) /\
    (forall h v, lookup (fcu s) h = Some v -> v = bd_uncles (block_of h)) /\
    (forall h v, lookup (fcp s) h = Some v -> v = bd_proposals (block_of h)) /\
    (forall h v, lookup (fce s) h = Some v -> v = bd_ext (block_of h)) /\
    (forall h v, lookup (fct s) h = Some v -> v = bd_txs (block_of h)).

  Definition empty_fstate : fstate := mkFS (fun _ => false) (fun _ => false) (fun _ => false) [] [] [] [] [].
End Frozen.

(* ---- cases of the correspondence harness ------------------------------------ *)
(* an operation with the answer the implementation gave (the node with default read caches, the node
   with caches of one entry and the node with all read caches disabled are three cases on one history) *)
Inductive fzop :=
| ZInsert (h : N) | ZFreeze (h : N) | ZWipe (h : N)
| ZHeader (h : N) (a : option N)
| ZUncles (h : N) (a : option (list N))
| ZProposals (h : N) (a : option (list N))
| ZExt (h : N) (a : option N)
| ZTxs (h : N) (a : list N)
| ZBody (h : N) (a : list N)
| ZBlock (h : N) (a : option blockans).

Record fzcase := mkFZ { fz_blocks : list (N * blockdata); fz_ops : list fzop }.

Definition fz_block_of (bs : list (N * blockdata)) (h : N) : blockdata :=
  match lookup bs h with Some b => b | None => mkBD 0 [] [] None [] end.

Definition opt_eqb {A} (e : A -> A -> bool) (a b : option A) : bool :=
  match a, b with Some x, Some y => e x y | None, None => true | _, _ => false end.
Definition ba_eqb (a b : blockans) : bool :=
  N.eqb (ba_header a) (ba_header b) && opt_eqb (list_eqb N.eqb) (ba_uncles a) (ba_uncles b) &&
  opt_eqb (list_eqb N.eqb) (ba_proposals a) (ba_proposals b) && opt_eqb N.eqb (ba_ext a) (ba_ext b) &&
  list_eqb N.eqb (ba_body a) (ba_body b).

(* the model evaluated with an empty cache that is never evicted; the answers of every configuration
   of the implementation must be the model's (frozen_cache_transparent: they are the stored content
   whatever the caches hold) *)
Fixpoint check_fzops (block_of : N -> blockdata) (s : fstate) (l : list fzop) : bool :=
  match l with
  | [] => true
  | o :: l' =>
    match o with
    | ZInsert h => check_fzops block_of (fstep block_of s (FInsert h)) l'
    | ZFreeze h => f_hdr s h && f_parts s h && check_fzops block_of (fstep block_of s (FFreeze h)) l'
    | ZWipe h => f_frozen s h && check_fzops block_of (fstep block_of s (FWipe h)) l'
    | ZHeader h a => let (m, s1) := fget_header block_of s h in
                     avail s h && opt_eqb N.eqb a m && check_fzops block_of s1 l'
    | ZUncles h a => let (m, s1) := fget_uncles block_of s h in
                     avail s h && opt_eqb (list_eqb N.eqb) a m && check_fzops block_of s1 l'
    | ZProposals h a => let (m, s1) := fget_proposals block_of s h in
                        avail s h && opt_eqb (list_eqb N.eqb) a m && check_fzops block_of s1 l'
    | ZExt h a => let (m, s1) := fget_ext block_of s h in
                  avail s h && opt_eqb N.eqb a m && check_fzops block_of s1 l'
    | ZTxs h a => let (m, s1) := fget_txs block_of s h in
                  avail s h && list_eqb N.eqb a m && check_fzops block_of s1 l'
    | ZBody h a => let (m, s1) := fget_body block_of s h in
                   avail s h && list_eqb N.eqb a m && check_fzops block_of s1 l'
    | ZBlock h a => let (m, s1) := fget_block block_of s h in
                    avail s h && opt_eqb ba_eqb a m && check_fzops block_of s1 l'
    end
  end.

Definition check_fzcase (c : fzcase) : bool :=
  check_fzops (fz_block_of (fz_blocks c)) empty_fstate (fz_ops c).
