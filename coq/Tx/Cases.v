(* Tx/Cases.v — the case records the correspondence harness (hx-tx) writes and
   the checker functions that recompute the implementation's answers with the
   models.  An implementation answer [None] is a caught panic; it never equals
   a model answer unless the model says [None] (panic) too. *)
From CKB Require Export Tx.Verify Tx.Resolve Tx.Recheck.
Local Open Scope N_scope.

Definition opt_eqb {A} (eqb : A -> A -> bool) (a b : option A) : bool :=
  match a, b with
  | None, None => true
  | Some x, Some y => eqb x y
  | _, _ => false
  end.
Fixpoint list_eqb {A} (eqb : A -> A -> bool) (a b : list A) : bool :=
  match a, b with
  | [], [] => true
  | x :: a', y :: b' => eqb x y && list_eqb eqb a' b'
  | _, _ => false
  end.

Definition tverdict_eqb (a b : tverdict) : bool :=
  match a, b with
  | TOk, TOk => true
  | TImmature i, TImmature j => i =? j
  | TInvalidSince i, TInvalidSince j => i =? j
  | TCellbaseImmaturity s i, TCellbaseImmaturity t j => Bool.eqb s t && (i =? j)
  | _, _ => false
  end.

(* SinceVerifier, MaturityVerifier and TimeRelativeTransactionVerifier on (ctx, tx)
   pairs that share one header store *)
Record time_tx := mkTimeTx {
  tt_params : params;
  tt_env : txenv;
  tt_inputs : list (N * option cinfo);     (* since, TransactionInfo of the resolved input *)
  tt_deps : list (option cinfo);           (* TransactionInfo of the resolved cell deps *)
  tt_since : option tverdict;              (* what SinceVerifier::verify answered *)
  tt_maturity : option tverdict;           (* MaturityVerifier::verify *)
  tt_both : option tverdict                (* TimeRelativeTransactionVerifier::verify *)
}.
Record time_case := mkTimeCase { tc_store : hstore; tc_txs : list time_tx }.
Definition check_time_tx (st : hstore) (t : time_tx) : bool :=
  let c := mkSctx (tt_params t) (tt_env t) st in
  opt_eqb tverdict_eqb (verify_since c (tt_inputs t)) (tt_since t) &&
  opt_eqb tverdict_eqb
    (verify_maturity (te_epoch (tt_env t)) (p_maturity (tt_params t))
                     (map snd (tt_inputs t)) (tt_deps t)) (tt_maturity t) &&
  opt_eqb tverdict_eqb (verify_time_relative c (tt_inputs t) (tt_deps t)) (tt_both t).
Definition check_time (c : time_case) : bool := forallb (check_time_tx (tc_store c)) (tc_txs c).

(* the decoders of Since on one u64: is_absolute, flags_is_valid, timestamp_overflows,
   metric tag (0 block, 1 epoch, 2 time, 3 none) and metric payload *)
Record since_case := mkSinceCase {
  sn_since : N; sn_abs : bool; sn_valid : bool; sn_ovf : bool; sn_tag : N; sn_payload : N }.
Definition check_since_decode (c : since_case) : bool :=
  Bool.eqb (is_absolute (sn_since c)) (sn_abs c) &&
  Bool.eqb (flags_is_valid (sn_since c)) (sn_valid c) &&
  Bool.eqb (timestamp_overflows (sn_since c)) (sn_ovf c) &&
  match extract_metric (sn_since c) with
  | Some (MBlock v) => (sn_tag c =? 0) && (sn_payload c =? v)
  | Some (MEpoch v) => (sn_tag c =? 1) && (sn_payload c =? v)
  | Some (MTime v) => (sn_tag c =? 2) && (sn_payload c =? v)
  | None => sn_tag c =? 3
  end.

Definition cverdict_eqb (a b : cverdict) : bool :=
  match a, b with
  | COk, COk => true
  | COutputsSumOverflow, COutputsSumOverflow => true
  | CInsufficient i, CInsufficient j => i =? j
  | COverflow, COverflow => true
  | _, _ => false
  end.
Record cap_case := mkCapCase {
  cc_dao : N; cc_inputs : list output; cc_outputs : list output; cc_verdict : option cverdict }.
Definition check_cap (c : cap_case) : bool :=
  opt_eqb cverdict_eqb (Some (verify_capacity (cc_dao c) (cc_inputs c) (cc_outputs c))) (cc_verdict c).

Definition rerr_eqb (a b : rerr) : bool :=
  match a, b with
  | EDead o, EDead p => op_eqb o p
  | EUnknown o, EUnknown p => op_eqb o p
  | EInvalidDepGroup o, EInvalidDepGroup p => op_eqb o p
  | EOverMaxDepExpansionLimit, EOverMaxDepExpansionLimit => true
  | EInvalidHeader h, EInvalidHeader k => h =? k
  | EOutOfOrder o, EOutOfOrder p => op_eqb o p
  | _, _ => false
  end.
Definition rtx_eqb (a b : rtx) : bool :=
  list_eqb op_eqb (r_inputs a) (r_inputs b) &&
  list_eqb op_eqb (r_deps a) (r_deps b) &&
  list_eqb op_eqb (r_groups a) (r_groups b).
Definition res_eqb {A} (eqb : A -> A -> bool) (a b : res A) : bool :=
  match a, b with
  | Ok x, Ok y => eqb x y
  | Err e, Err f => rerr_eqb e f
  | _, _ => false
  end.

Definition hdr_checker (valid : list N) : N -> bool := fun h => existsb (N.eqb h) valid.

(* a sequence of transactions resolved one after the other with one
   seen_inputs set against one provider *)
Record seq_case := mkSeqCase {
  qc_seen : list outpoint;
  qc_over : list (outpoint * status);      (* OverlayCellProvider: these cells shadow qc_cells *)
  qc_cells : list (outpoint * status);
  qc_headers : list N;
  qc_txs : list tx;
  qc_results : list (option (res rtx))
}.
Definition check_seq (c : seq_case) : bool :=
  list_eqb (opt_eqb (res_eqb rtx_eqb))
    (map Some (resolve_seq (qc_seen c) (overlay (assoc_provider (qc_over c)) (assoc_provider (qc_cells c)))
                           (hdr_checker (qc_headers c)) (qc_txs c)))
    (qc_results c).

(* a block resolved like resolve_block_transactions *)
Record block_case := mkBlockCase {
  bc_cells : list (outpoint * status);
  bc_headers : list N;
  bc_block : block;
  bc_result : option (res (list rtx))
}.
Definition check_block (c : block_case) : bool :=
  opt_eqb (res_eqb (list_eqb rtx_eqb))
    (Some (resolve_block (assoc_provider (bc_cells c)) (hdr_checker (bc_headers c)) (bc_block c)))
    (bc_result c).

(* re-validation: a transaction resolved in context A (seen_inputs, cells),
   then ResolvedTransaction::check and a fresh resolve_transaction in context B,
   with SYSTEM_CELL unset ([None]) or holding the given entries.  Context A's
   provider is restricted to the out points involved (anything else is
   unknown); context B's is A's with the listed out points changed (consumed:
   dead or unknown); every header is valid.  seen_inputs are sets: compared as
   such. *)
Definition patch_provider (d : list (outpoint * status)) (p : provider) : provider :=
  fun o => match find (fun kv => op_eqb (fst kv) o) d with
           | Some kv => snd kv
           | None => p o
           end.
Definition set_eqb (a b : list outpoint) : bool :=
  forallb (fun o => op_mem o b) a && forallb (fun o => op_mem o a) b.
Record recheck_case := mkRecheckCase {
  kc_sys : option syscache;
  kc_tx : tx;
  kc_seenA : list outpoint;
  kc_cellsA : list (outpoint * status);
  kc_seenB : list outpoint;
  kc_changedB : list (outpoint * status);           (* what differs in B *)
  kc_rtxA : rtx;                                    (* what resolve_transaction returned in A *)
  kc_check : option (res (list outpoint));          (* check in B: the new seen_inputs, or the error *)
  kc_fresh : option (res (rtx * list outpoint))     (* resolve_transaction in B: result and new seen_inputs *)
}.
Definition check_recheck_case (c : recheck_case) : bool :=
  let pA := assoc_provider (kc_cellsA c) in
  let pB := patch_provider (kc_changedB c) pA in
  let hc := fun _ : N => true in
  match resolve_transaction_with (kc_sys c) (kc_seenA c) pA hc (kc_tx c) with
  | Ok (r, _) =>
      rtx_eqb r (kc_rtxA c) &&
      opt_eqb (res_eqb set_eqb) (Some (recheck (kc_sys c) (kc_seenB c) pB hc (kc_tx c) r)) (kc_check c) &&
      opt_eqb (res_eqb (fun x y => rtx_eqb (fst x) (fst y) && set_eqb (snd x) (snd y)))
        (Some (resolve_transaction_with (kc_sys c) (kc_seenB c) pB hc (kc_tx c))) (kc_fresh c)
  | Err _ => false
  end.
