(* Tx/AcceptProofs.v — acceptance is the conjunction of the rules; the verdict
   is a function of the transaction and of what the context answers about the
   cells and headers (nothing else). *)
From CKB Require Import Tx.Verify Tx.Resolve Tx.ResolveProofs Tx.Accept.
Local Open Scope N_scope.

Theorem accept_iff_rules_thm script_ok c w :
  accept script_ok c w = Some AOk <->
  tx_ok (a_seen c) (a_cells c) (a_headers c) (w_tx w) /\
  exists r seen',
    resolve_transaction (a_seen c) (a_cells c) (a_headers c) (w_tx w) = Ok (r, seen') /\
    r_inputs r = spent (w_tx w) /\
    verify_time_relative (a_sctx c) (combine (w_sinces w) (map (a_info c) (r_inputs r)))
                         (map (a_info c) (r_deps r)) = Some TOk /\
    verify_capacity (a_dao c) (map (a_out c) (r_inputs r)) (w_outputs w) = COk /\
    script_ok (w_tx w) r = true.
Proof.
  unfold accept.
  destruct (resolve_transaction (a_seen c) (a_cells c) (a_headers c) (w_tx w)) as [[r seen']|e] eqn:RT.
  - assert (TO : tx_ok (a_seen c) (a_cells c) (a_headers c) (w_tx w)) by (apply resolve_tx_iff; eauto).
    destruct (resolve_tx_result _ _ _ _ _ _ RT) as [RI _].
    split.
    + intros H. split; [exact TO|]. exists r, seen'. split; [reflexivity|]. split; [exact RI|].
      destruct (verify_time_relative _ _ _) as [[| | |]|]; cbn [obind] in H; try discriminate.
      split; [reflexivity|].
      destruct (verify_capacity _ _ _); try discriminate. split; [reflexivity|].
      destruct (script_ok (w_tx w) r); [reflexivity | discriminate].
    + intros (_ & r0 & s0 & [= <- <-] & _ & -> & -> & ->). reflexivity.
  - split; [discriminate|]. intros (_ & r0 & s0 & H & _). discriminate.
Qed.

(* resolve_transaction reads the provider and the header checker only as functions *)
Lemma resolve_cell_ext seen p1 p2 o : (forall x, p1 x = p2 x) -> resolve_cell seen p1 o = resolve_cell seen p2 o.
Proof. intros H. unfold resolve_cell. rewrite H. reflexivity. Qed.

Lemma resolve_inputs_ext seen p1 p2 : (forall x, p1 x = p2 x) ->
  forall ins cur, resolve_inputs seen p1 cur ins = resolve_inputs seen p2 cur ins.
Proof.
  intros H. induction ins as [|o rest IH]; intros cur; cbn [resolve_inputs]; [reflexivity|].
  rewrite (resolve_cell_ext seen p1 p2 o H), IH. reflexivity.
Qed.
Lemma resolve_cells_ext seen p1 p2 : (forall x, p1 x = p2 x) ->
  forall os, resolve_cells seen p1 os = resolve_cells seen p2 os.
Proof.
  intros H. induction os as [|o rest IH]; cbn [resolve_cells]; [reflexivity|].
  rewrite (resolve_cell_ext seen p1 p2 o H), IH. reflexivity.
Qed.
Lemma resolve_deps_ext seen p1 p2 : (forall x, p1 x = p2 x) ->
  forall deps slots, resolve_deps seen p1 slots deps = resolve_deps seen p2 slots deps.
Proof.
  intros H. induction deps as [|[o g] rest IH]; intros slots; cbn [resolve_deps]; [reflexivity|].
  rewrite (resolve_cell_ext seen p1 p2 o H). destruct g.
  - destruct (resolve_cell seen p2 o); cbn [rbind]; [|reflexivity].
    destruct (parse_group a); [|reflexivity]. destruct (_ <? _); [reflexivity|].
    rewrite (resolve_cells_ext seen p1 p2 H), IH. reflexivity.
  - rewrite IH. reflexivity.
Qed.
Lemma check_headers_ext h1 h2 : (forall x, h1 x = h2 x) -> forall hs, check_headers h1 hs = check_headers h2 hs.
Proof. intros H. induction hs as [|h rest IH]; cbn [check_headers]; [reflexivity|]. rewrite H, IH. reflexivity. Qed.

Theorem resolve_transaction_ext seen p1 p2 h1 h2 t :
  (forall x, p1 x = p2 x) -> (forall x, h1 x = h2 x) ->
  resolve_transaction seen p1 h1 t = resolve_transaction seen p2 h2 t.
Proof.
  intros Hp Hh. unfold resolve_transaction.
  rewrite (resolve_inputs_ext seen p1 p2 Hp), (resolve_deps_ext seen p1 p2 Hp), (check_headers_ext h1 h2 Hh).
  reflexivity.
Qed.

(* the verdict depends only on the transaction and on what the context
   answers: two contexts (however they were reached) that answer alike give the
   same verdict *)
Theorem accept_context_only_thm script_ok c1 c2 w :
  a_seen c1 = a_seen c2 -> (forall o, a_cells c1 o = a_cells c2 o) -> (forall h, a_headers c1 h = a_headers c2 h) ->
  (forall o, a_info c1 o = a_info c2 o) -> (forall o, a_out c1 o = a_out c2 o) ->
  a_sctx c1 = a_sctx c2 -> a_dao c1 = a_dao c2 ->
  accept script_ok c1 w = accept script_ok c2 w.
Proof.
  intros Hs Hc Hh Hi Ho Hx Hd. unfold accept.
  rewrite Hs, (resolve_transaction_ext (a_seen c2) _ _ _ _ (w_tx w) Hc Hh), Hx, Hd.
  destruct (resolve_transaction _ _ _ _) as [[r s]|e]; [|reflexivity].
  rewrite (map_ext _ _ Hi (r_inputs r)), (map_ext _ _ Hi (r_deps r)), (map_ext _ _ Ho (r_inputs r)). reflexivity.
Qed.

(* the same set of spent cells in another order (another history of the block
   or pool) gives the same resolve verdict *)
Lemma op_mem_perm o s1 s2 : (forall x, In x s1 <-> In x s2) -> op_mem o s1 = op_mem o s2.
Proof.
  intros H. destruct (op_mem o s1) eqn:A, (op_mem o s2) eqn:B; try reflexivity.
  - apply op_mem_In in A. apply H in A. apply op_mem_In in A. congruence.
  - apply op_mem_In in B. apply H in B. apply op_mem_In in B. congruence.
Qed.
Theorem resolve_seen_order_irrelevant s1 s2 p hc t :
  (forall x, In x s1 <-> In x s2) ->
  match resolve_transaction s1 p hc t, resolve_transaction s2 p hc t with
  | Ok (r1, _), Ok (r2, _) => r1 = r2
  | Err e1, Err e2 => e1 = e2
  | _, _ => False
  end.
Proof.
  intros H.
  assert (RC : forall o, resolve_cell s1 p o = resolve_cell s2 p o).
  { intros o. unfold resolve_cell. rewrite (op_mem_perm o s1 s2 H). reflexivity. }
  assert (RI : forall ins cur, resolve_inputs s1 p cur ins = resolve_inputs s2 p cur ins).
  { induction ins as [|o rest IH]; intros cur; cbn [resolve_inputs]; [reflexivity|]. rewrite RC, IH. reflexivity. }
  assert (RS : forall os, resolve_cells s1 p os = resolve_cells s2 p os).
  { induction os as [|o rest IH]; cbn [resolve_cells]; [reflexivity|]. rewrite RC, IH. reflexivity. }
  assert (RD : forall deps slots, resolve_deps s1 p slots deps = resolve_deps s2 p slots deps).
  { induction deps as [|[o g] rest IH]; intros slots; cbn [resolve_deps]; [reflexivity|]. rewrite RC. destruct g.
    - destruct (resolve_cell s2 p o); cbn [rbind]; [|reflexivity]. destruct (parse_group a); [|reflexivity].
      destruct (_ <? _); [reflexivity|]. rewrite RS, IH. reflexivity.
    - rewrite IH. reflexivity. }
  unfold resolve_transaction. rewrite RI, RD.
  destruct (if is_cellbase t then Ok [] else resolve_inputs s2 p [] (t_inputs t)); cbn [rbind]; [|reflexivity].
  destruct (resolve_deps s2 p MAX_DEP_EXPANSION_LIMIT (t_deps t)); cbn [rbind]; [|reflexivity].
  destruct (check_headers hc (t_hdeps t)); cbn [rbind]; reflexivity.
Qed.
