(* Tx/CacheDaoProofs.v — proofs about Section DaoSize of Tx/Cache.v: the RFC0044
   DAO lock-size rule as a second context-dependent check (property C14). *)
From CKB Require Import Tx.Cache Tx.CacheProofs.

Section DaoProofs.
  Variable tx : Type.
  Variable ctx : Type.
  Variable wtx_hash : tx -> N.
  Variable content : tx -> option completed.
  Variable time_relative : ctx -> tx -> bool.
  Variable dao_size : ctx -> tx -> bool.
  Variable rfc0044 : ctx -> bool.
  Variable maxc : N.

  Hypothesis content_by_hash : forall t1 t2, wtx_hash t1 = wtx_hash t2 -> content t1 = content t2.

  Notation tr_dao := (tr_dao tx ctx time_relative dao_size rfc0044).
  Notation vcache_ok := (vcache_ok tx wtx_hash content maxc).
  Notation verify_tx_blk := (verify_tx_blk tx ctx wtx_hash content time_relative dao_size rfc0044).
  Notation verify_txs_blk := (verify_txs_blk tx ctx wtx_hash content time_relative dao_size rfc0044 maxc).
  Notation verify_block_d := (verify_block_d tx ctx wtx_hash content time_relative dao_size rfc0044 maxc).
  Notation verify_tx_pool := (verify_tx_pool tx ctx wtx_hash content time_relative dao_size).
  Notation submit_d := (submit_d tx ctx wtx_hash content time_relative dao_size maxc).
  Notation dstep := (dstep tx ctx wtx_hash content time_relative dao_size rfc0044 maxc).
  Notation drun := (drun tx ctx wtx_hash content time_relative dao_size rfc0044 maxc).
  Notation dstep_ref := (dstep_ref tx ctx wtx_hash content time_relative dao_size rfc0044 maxc).
  Notation drun_ref := (drun_ref tx ctx wtx_hash content time_relative dao_size rfc0044 maxc).
  Notation dop_ok := (dop_ok tx ctx dao_size maxc).
  Notation dop_block_only := (dop_block_only tx ctx).
  Notation dao_gate := (dao_gate tx ctx dao_size rfc0044).

  (* the block path runs the size rule after EITHER arm: it is the cache model
     of Section VCache with the conjunction as its position-dependent check *)
  Lemma verify_tx_blk_conj : forall c x lim skip t,
    verify_tx_blk c x lim skip t = verify_tx tx ctx wtx_hash content tr_dao c x lim skip t.
  Proof.
    intros c x lim skip t.
    unfold Cache.verify_tx_blk, Cache.verify_tx, Cache.verify_hit, Cache.verify_full, Cache.tr_dao.
    destruct (lookup c (wtx_hash t)) as [e|];
      destruct (time_relative x t); destruct (dao_gate x t); simpl; try reflexivity;
      destruct (content t) as [e'|]; try reflexivity;
      destruct skip; try reflexivity;
      destruct (N.leb (c_cycles e') lim); reflexivity.
  Qed.

  Lemma verify_txs_blk_conj : forall c x skip txs,
    verify_txs_blk c x skip txs = verify_txs tx ctx wtx_hash content tr_dao maxc c x skip txs.
  Proof.
    intros c x skip txs. induction txs as [|t txs IH]; [reflexivity|].
    simpl. rewrite verify_tx_blk_conj, IH. reflexivity.
  Qed.

  Lemma verify_block_d_conj : forall c x skip txs,
    verify_block_d c x skip txs = verify_block tx ctx wtx_hash content tr_dao maxc c x skip txs.
  Proof.
    intros c x skip txs. unfold Cache.verify_block_d, Cache.verify_block.
    rewrite verify_txs_blk_conj. reflexivity.
  Qed.

  (* the pool's path coincides with it only where the size rule holds *)
  Lemma verify_tx_pool_conj : forall c x lim t,
    dao_size x t = true ->
    verify_tx_pool c x lim t = verify_tx tx ctx wtx_hash content tr_dao c x lim false t.
  Proof.
    intros c x lim t H.
    unfold Cache.verify_tx_pool, Cache.verify_tx, Cache.verify_hit, Cache.verify_full, Cache.tr_dao, Cache.dao_gate.
    rewrite H. rewrite Bool.orb_true_r, Bool.andb_true_r.
    destruct (lookup c (wtx_hash t)) as [e|]; [reflexivity|].
    destruct (time_relative x t); [|reflexivity].
    destruct (content t) as [e'|]; [|reflexivity].
    destruct (N.leb (c_cycles e') lim); reflexivity.
  Qed.

  Lemma submit_d_conj : forall c x d a t,
    dao_size x t = true ->
    submit_d c x d a t = submit tx ctx wtx_hash content tr_dao maxc c x d a t.
  Proof.
    intros c x d a t H. unfold Cache.submit_d, Cache.submit.
    rewrite (verify_tx_pool_conj c x _ t H). reflexivity.
  Qed.

  Definition conv (o : dop tx ctx) : vop tx ctx :=
    match o with
    | DSubmit x d a t => VSubmit x d a t
    | DBlock x skip txs => VBlock x skip txs
    | DEvict keep => VEvict keep
    end.

  Lemma dstep_conj : forall c o, dop_ok o ->
    dstep c o = vstep tx ctx wtx_hash content tr_dao maxc c (conv o).
  Proof.
    intros c o H. destruct o as [x d a t | x skip txs | keep]; simpl.
    - destruct H as [_ H]. rewrite (submit_d_conj c x d a t H). reflexivity.
    - rewrite verify_block_d_conj. reflexivity.
    - reflexivity.
  Qed.

  Lemma dstep_ref_conj : forall o, dop_ok o ->
    dstep_ref o = vstep_ref tx ctx wtx_hash content tr_dao maxc (conv o).
  Proof.
    intros o H. destruct o as [x d a t | x skip txs | keep]; simpl.
    - destruct H as [_ H]. rewrite (submit_d_conj [] x d a t H). reflexivity.
    - rewrite verify_block_d_conj. reflexivity.
    - reflexivity.
  Qed.

  Lemma drun_conj : forall ops c, Forall dop_ok ops ->
    drun c ops = vrun tx ctx wtx_hash content tr_dao maxc c (map conv ops).
  Proof.
    induction ops as [|o ops IH]; intros c F; [reflexivity|].
    inversion F; subst. simpl. rewrite (dstep_conj c o H1).
    destruct (vstep tx ctx wtx_hash content tr_dao maxc c (conv o)) as [r c'].
    rewrite (IH c' H2). reflexivity.
  Qed.

  Lemma drun_ref_conj : forall ops, Forall dop_ok ops ->
    drun_ref ops = vrun_ref tx ctx wtx_hash content tr_dao maxc (map conv ops).
  Proof.
    induction ops as [|o ops IH]; intros F; [reflexivity|].
    inversion F; subst. unfold Cache.drun_ref, Cache.vrun_ref in *. simpl.
    rewrite (dstep_ref_conj o H1), (IH H2). reflexivity.
  Qed.

  Lemma conv_ok : forall ops, Forall dop_ok ops -> Forall (vop_ok tx ctx maxc) (map conv ops).
  Proof.
    induction ops as [|o ops IH]; intros F; [constructor|].
    inversion F; subst. simpl. constructor; [|auto].
    destruct o as [x d a t | x skip txs | keep]; simpl in *; [|assumption|exact I].
    destruct H1 as [H _]. destruct d; [exact H | exact I].
  Qed.

  (* C14 for the lock-size rule, histories: block verifications at ANY positions
     (the rule waived at some and applying at others), evictions of any kind, a
     cold or warm sound cache, pool submissions at positions where the rule
     holds: every verdict, fee and cycle count is that of a node without cache *)
  Theorem dao_history_transparent : forall ops c,
    vcache_ok c -> Forall dop_ok ops -> drun c ops = drun_ref ops.
  Proof.
    intros ops c H F. rewrite (drun_conj ops c F), (drun_ref_conj ops F).
    apply (vrun_transparent tx ctx wtx_hash content tr_dao maxc content_by_hash); [exact H | apply conv_ok; exact F].
  Qed.

  Lemma block_only_ok : forall ops, Forall dop_block_only ops -> Forall dop_ok ops.
  Proof.
    intros ops F. induction F as [|o ops H F IH]; constructor; [|exact IH].
    destruct o; simpl in *; [destruct H | exact H | exact I].
  Qed.

  Corollary dao_block_history_transparent : forall ops c,
    vcache_ok c -> Forall dop_block_only ops -> drun c ops = drun_ref ops.
  Proof. intros ops c H F. apply dao_history_transparent; [exact H | apply block_only_ok; exact F]. Qed.

  (* one transaction, any position: with a sound cache the block path answers as without *)
  Theorem dao_blk_tx_transparent : forall c x t,
    vcache_ok c -> verify_tx_blk c x maxc false t = verify_tx_blk [] x maxc false t.
  Proof.
    intros c x t H. rewrite !verify_tx_blk_conj.
    rewrite (verify_tx_block_eq tx ctx wtx_hash content tr_dao maxc c x t H).
    rewrite (verify_tx_block_eq tx ctx wtx_hash content tr_dao maxc [] x t).
    - reflexivity.
    - intros t' e' L. discriminate.
  Qed.

  (* WHATEVER the cache holds (sound or not, hit or miss): where the rule applies
     and is violated the block path rejects *)
  Theorem dao_size_always_rerun : forall c x lim skip t,
    rfc0044 x = true -> dao_size x t = false -> verify_tx_blk c x lim skip t = None.
  Proof.
    intros c x lim skip t R D. unfold Cache.verify_tx_blk, Cache.dao_gate. rewrite R, D. simpl.
    destruct (verify_tx tx ctx wtx_hash content time_relative c x lim skip t); reflexivity.
  Qed.

  Corollary block_with_dao_mismatch_rejected : forall c x skip txs t,
    In t txs -> rfc0044 x = true -> dao_size x t = false -> fst (verify_block_d c x skip txs) = None.
  Proof.
    intros c x skip txs t I R D. unfold Cache.verify_block_d.
    assert (E : verify_txs_blk c x skip txs = None).
    { induction txs as [|t0 txs IH]; [destruct I|]. simpl.
      destruct I as [->|I].
      - rewrite (dao_size_always_rerun c x maxc skip t R D). reflexivity.
      - rewrite (IH I). destruct (verify_tx_blk c x maxc skip t0); reflexivity. }
    rewrite E. reflexivity.
  Qed.

  (* the two-branch scenario: the transaction is verified in a block at a position
     where the rule is waived, which puts it into the cache; a block committing it at a
     position where the rule applies is rejected with that cache exactly as with none *)
  Theorem dao_waived_then_applies : forall x1 x2 t e,
    time_relative x1 t = true -> dao_size x1 t = true ->
    rfc0044 x2 = true -> dao_size x2 t = false ->
    content t = Some e -> N.le (c_cycles e) maxc ->
    let c1 := snd (verify_block_d [] x1 false [t]) in
    fst (verify_block_d [] x1 false [t]) = Some [e] /\
    lookup c1 (wtx_hash t) = Some e /\
    fst (verify_block_d c1 x2 false [t]) = None /\
    fst (verify_block_d [] x2 false [t]) = None.
  Proof.
    intros x1 x2 t e T1 D1 R2 D2 Ct Le.
    assert (V : verify_tx_blk [] x1 maxc false t = Some e).
    { unfold Cache.verify_tx_blk, Cache.verify_tx, Cache.verify_full, Cache.dao_gate. simpl.
      rewrite T1, Ct, D1. apply N.leb_le in Le. rewrite Le. rewrite Bool.orb_true_r. reflexivity. }
    assert (S : N.leb (sum_cycles [e]) maxc = true).
    { simpl. apply N.leb_le. lia. }
    unfold Cache.verify_block_d at 1 2. simpl verify_txs_blk. rewrite V. cbv zeta. rewrite S. simpl fst. simpl snd.
    split; [reflexivity|]. split.
    - simpl. rewrite N.eqb_refl. reflexivity.
    - split; apply (block_with_dao_mismatch_rejected _ x2 false [t] t); auto; left; reflexivity.
  Qed.
End DaoProofs.

(* ---- the concrete instance: non-vacuity and the pool witness ---------------- *)
Definition d_run (maxc : N) := drun dotx unit do_wtx do_content (fun _ t => do_tr t) (fun _ t => do_dao t) (fun _ => true) maxc.
Definition d_ref (maxc : N) := drun_ref dotx unit do_wtx do_content (fun _ t => do_tr t) (fun _ t => do_dao t) (fun _ => true) maxc.

(* the withdrawing transaction 7 on the branch where its deposit was committed
   below the limiting block number (rule waived), and the same (transaction,
   witnesses) on the branch where it was committed at/after it; 8 is the deposit *)
Definition w_waived := mkDO 7 (Some (mkC 1074 3000)) true true.
Definition w_applies := mkDO 7 (Some (mkC 1074 3000)) true false.
Definition dep := mkDO 8 (Some (mkC 537 2000)) true true.

(* branch A commits deposit and withdraw (cached); branch B commits the deposit
   and then the withdraw where the rule applies: rejected, cache or not; after
   an eviction of everything too *)
Definition ex_dao_history : list (dop dotx unit) :=
  [ DBlock tt false [dep]; DBlock tt false [w_waived];
    DBlock tt false [dep]; DBlock tt false [w_applies];
    DEvict (fun _ => false); DBlock tt false [w_applies]; DBlock tt false [dep; w_waived] ].

Lemma ex_dao_history_ok : Forall (dop_block_only dotx unit) ex_dao_history.
Proof. unfold ex_dao_history. repeat constructor. Qed.

Lemma ex_dao_history_outputs :
  d_run 10000 [] ex_dao_history =
  [ OBlock (Some [mkC 537 2000]); OBlock (Some [mkC 1074 3000]);
    OBlock (Some [mkC 537 2000]); OBlock None; ONone; OBlock None;
    OBlock (Some [mkC 537 2000; mkC 1074 3000]) ] /\
  d_ref 10000 ex_dao_history = d_run 10000 [] ex_dao_history.
Proof. vm_compute. split; reflexivity. Qed.

(* tx-pool: verify_rtx does not run DaoScriptSizeVerifier on its hit path.  The
   withdraw is verified in a block where the rule is waived (entry cached); after a
   switch to the branch where the rule applies the loose transaction is offered to
   the pool: admitted from the cache, rejected by a node without the entry. *)
Theorem pool_hit_skips_dao_size_refuted :
  exists ops, d_run 10000 [] ops <> d_ref 10000 ops /\
              d_run 10000 [] ops = [OBlock (Some [mkC 1074 3000]); OTx (Some (mkC 1074 3000))] /\
              d_ref 10000 ops = [OBlock (Some [mkC 1074 3000]); OTx None].
Proof.
  exists [DBlock tt false [w_waived]; DSubmit tt None true w_applies].
  vm_compute. repeat split. intros H. discriminate.
Qed.

(* the checker of the correspondence cases on that history, on a node with a
   cache and on one whose cache has capacity 0 *)
Lemma ex_dcase_checks :
  check_dcase (mkDCase 10000 None
    [DBlk [dep] true [mkC 537 2000]; DBlk [w_waived] true [mkC 1074 3000]; DBlk [dep] true [mkC 537 2000];
     DBlk [w_applies] false []; DPool w_applies true]) = true /\
  check_dcase (mkDCase 10000 (Some 0%nat)
    [DBlk [dep] true [mkC 537 2000]; DBlk [w_waived] true [mkC 1074 3000]; DBlk [dep] true [mkC 537 2000];
     DBlk [w_applies] false []; DPool w_applies false]) = true /\
  check_dcase (mkDCase 10000 None
    [DBlk [w_waived] true [mkC 1074 3000]; DBlk [w_applies] true [mkC 1074 3000]]) = false.
Proof. vm_compute. repeat split. Qed.
