(* Tx/Verify.v — executable models of the contextual transaction verifiers of
   verification/src/transaction_verifier.rs that do not run scripts:

     TxVerifyEnv (script/src/verify_env.rs)     commit position assumed
     HeaderFieldsProvider::block_median_time    (traits/src/header_provider.rs)
     SinceVerifier                              3 metrics x absolute/relative
     MaturityVerifier                           cellbase maturity
     CapacityVerifier                           sum and per-output occupied capacity
     TimeRelativeTransactionVerifier            maturity, then since

   Hashes never reach the model: the harness numbers headers, the header
   store is an association list  id -> header fields.
   [None] = the Rust code panics (overflow with overflow-checks = true,
   `expect` on a missing header, division by a zero epoch length).
   No proofs in this file (Tx/VerifyProofs.v). *)
From CKB Require Export Arith.Since.
Local Open Scope N_scope.

Definition obind {A B} (o : option A) (f : A -> option B) : option B :=
  match o with Some x => f x | None => None end.
Notation "x <- o ;; k" := (obind o (fun x => k)) (at level 61, o at next level, right associativity).

(* ---- TxVerifyEnv ---------------------------------------------------------- *)
Inductive phase := Submitted | Proposed (n : N) | Committed.

Record txenv := mkEnv {
  te_phase : phase;
  te_number : N;        (* tip number (Committed: number of the block being verified) *)
  te_epoch : N;         (* epoch of that header, full value *)
  te_hash : N;          (* id of that header *)
  te_parent : N         (* id of its parent *)
}.

(* TxVerifyEnv::block_number(proposal_window) *)
Definition env_block_number (e : txenv) (closest : N) : option N :=
  match te_phase e with
  | Submitted => x <- add64 (te_number e) 1 ;; add64 x closest
  | Proposed p => add64 (sat_sub64 (te_number e) p) closest
  | Committed => Some (te_number e)
  end.

(* TxVerifyEnv::epoch_number(proposal_window) *)
Definition env_epoch_number (e : txenv) (closest : N) : N :=
  let n := match te_phase e with
           | Submitted => 1 + closest
           | Proposed p => sat_sub64 closest p
           | Committed => 0
           end in
  ep_min_number_after (te_epoch e) n.

(* TxVerifyEnv::parent_hash() *)
Definition env_parent_hash (e : txenv) : N :=
  match te_phase e with Committed => te_parent e | _ => te_hash e end.

(* ---- header store, median time ------------------------------------------ *)
Record hdr := mkHdr { h_number : N; h_epoch : N; h_ts : N; h_parent : N }.
Definition hstore := list (N * hdr).

Fixpoint hlookup (st : hstore) (h : N) : option hdr :=
  match st with
  | [] => None
  | (k, v) :: st' => if k =? h then Some v else hlookup st' h
  end.

(* the loop of block_median_time: at most [count] timestamps walking parents,
   stops after the genesis header; a missing header panics *)
Fixpoint collect_ts (st : hstore) (count : nat) (h : N) : option (list N) :=
  match count with
  | O => Some []
  | S c => hd <- hlookup st h ;;
           if h_number hd =? 0 then Some [h_ts hd]
           else option_map (cons (h_ts hd)) (collect_ts st c (h_parent hd))
  end.

Fixpoint insert_sorted (x : N) (l : list N) : list N :=
  match l with
  | [] => [x]
  | y :: l' => if x <=? y then x :: l else y :: insert_sorted x l'
  end.
Definition sort_n (l : list N) : list N := fold_right insert_sorted [] l.

(* timestamps[len >> 1] of the sorted timestamps; indexing an empty vector panics *)
Definition block_median_time (st : hstore) (count : nat) (h : N) : option N :=
  l <- collect_ts st count h ;;
  nth_error (sort_n l) (Nat.div2 (length l)).

(* SinceVerifier::parent_median_time *)
Definition parent_median_time (st : hstore) (count : nat) (h : N) : option N :=
  hd <- hlookup st h ;; block_median_time st count (h_parent hd).

(* ---- consensus parameters the verifiers read ---------------------------- *)
Record params := mkParams {
  p_closest : N;            (* tx_proposal_window().closest() *)
  p_median_count : nat;     (* median_time_block_count() *)
  p_rfc0028 : N;            (* hardfork ckb2021.rfc_0028 activation epoch (u64::MAX = never) *)
  p_maturity : N            (* cellbase_maturity(), full value *)
}.
Definition block_ts_as_relative_start (p : params) (epoch_number : N) : bool :=
  p_rfc0028 p <=? epoch_number.

(* ---- what the verifiers see of a resolved input / dep ------------------- *)
(* TransactionInfo of the cell (None for a cell without it, e.g. a pooled parent) *)
Record cinfo := mkCinfo { ci_number : N; ci_epoch : N; ci_hash : N; ci_index : N }.

(* ---- SinceVerifier ----------------------------------------------------- *)
Inductive sverdict := SOk | SImmature | SInvalid.

(* the three clocks of the commit position *)
Record sview := mkSview {
  v_number : option N;      (* tx_env.block_number(window) *)
  v_epoch : option rat;     (* tx_env.epoch().to_rational() *)
  v_mtime : option N        (* block_median_time(tx_env.parent_hash()) *)
}.
(* the three clocks of the block that created the input cell *)
Record iview := mkIview {
  iv_number : N;
  iv_epoch : option rat;
  iv_base : option N        (* header timestamp (RFC 0028) or parent median time *)
}.

Definition check_absolute (v : sview) (s : N) : option sverdict :=
  if is_absolute s then
    match extract_metric s with
    | Some (MBlock n) =>
        bn <- v_number v ;; Some (if bn <? n then SImmature else SOk)
    | Some (MEpoch e) =>
        if negb (ep_is_well_formed_increment e) then Some SInvalid
        else a <- v_epoch v ;; b <- ep_to_rational (ep_normalize e) ;;
             Some (if rat_lt a b then SImmature else SOk)
    | Some (MTime ms) =>
        if timestamp_overflows s then Some SImmature
        else mt <- v_mtime v ;; Some (if mt <? ms then SImmature else SOk)
    | None => Some SInvalid
    end
  else Some SOk.

Definition check_relative (v : sview) (s : N) (i : option iview) : option sverdict :=
  if is_relative s then
    match i with
    | None => Some SImmature
    | Some iv =>
      match extract_metric s with
      | Some (MBlock n) =>
          match add64 (iv_number iv) n with
          | None => Some SImmature
          | Some lim => bn <- v_number v ;; Some (if lim <=? bn then SOk else SImmature)
          end
      | Some (MEpoch e) =>
          if negb (ep_is_well_formed_increment e) then Some SInvalid
          else a <- v_epoch v ;; b0 <- iv_epoch iv ;; b1 <- ep_to_rational (ep_normalize e) ;;
               Some (if rat_lt a (rat_add b0 b1) then SImmature else SOk)
      | Some (MTime ms) =>
          if timestamp_overflows s then Some SImmature
          else base <- iv_base iv ;; mt <- v_mtime v ;;
               match add64 base ms with
               | None => Some SImmature
               | Some lim => Some (if lim <=? mt then SOk else SImmature)
               end
      | None => Some SInvalid
      end
    end
  else Some SOk.

(* one input of SinceVerifier::verify *)
Definition check_since (v : sview) (s : N) (i : option iview) : option sverdict :=
  if s =? 0 then Some SOk
  else if negb (flags_is_valid s) then Some SInvalid
  else r <- check_absolute v s ;;
       match r with
       | SOk => check_relative v s i
       | _ => Some r
       end.

(* the pre-fix arithmetic, kept for the F2 witness: extract_metric panics on
   value * 1000, base + ms and number + n are unchecked additions *)
Definition check_since_old (v : sview) (s : N) (i : option iview) : option sverdict :=
  if s =? 0 then Some SOk
  else if negb (flags_is_valid s) then Some SInvalid
  else
    r <- (if is_absolute s then
            m <- extract_metric_old s ;;
            match m with
            | Some (MBlock n) => bn <- v_number v ;; Some (if bn <? n then SImmature else SOk)
            | Some (MEpoch e) =>
                if negb (ep_is_well_formed_increment e) then Some SInvalid
                else a <- v_epoch v ;; b <- ep_to_rational (ep_normalize e) ;;
                     Some (if rat_lt a b then SImmature else SOk)
            | Some (MTime ms) => mt <- v_mtime v ;; Some (if mt <? ms then SImmature else SOk)
            | None => Some SInvalid
            end
          else Some SOk) ;;
    match r with
    | SOk =>
      if is_relative s then
        match i with
        | None => Some SImmature
        | Some iv =>
          m <- extract_metric_old s ;;
          match m with
          | Some (MBlock n) =>
              bn <- v_number v ;; lim <- add64 (iv_number iv) n ;;
              Some (if bn <? lim then SImmature else SOk)
          | Some (MEpoch e) =>
              if negb (ep_is_well_formed_increment e) then Some SInvalid
              else a <- v_epoch v ;; b0 <- iv_epoch iv ;; b1 <- ep_to_rational (ep_normalize e) ;;
                   Some (if rat_lt a (rat_add b0 b1) then SImmature else SOk)
          | Some (MTime ms) =>
              base <- iv_base iv ;; mt <- v_mtime v ;; lim <- add64 base ms ;;
              Some (if mt <? lim then SImmature else SOk)
          | None => Some SInvalid
          end
        end
      else Some SOk
    | _ => Some r
    end.

(* the context SinceVerifier is constructed with *)
Record sctx := mkSctx { sc_params : params; sc_env : txenv; sc_store : hstore }.

Definition mk_sview (c : sctx) : sview :=
  mkSview (env_block_number (sc_env c) (p_closest (sc_params c)))
          (ep_to_rational (te_epoch (sc_env c)))
          (block_median_time (sc_store c) (p_median_count (sc_params c)) (env_parent_hash (sc_env c))).

Definition mk_iview (c : sctx) (i : cinfo) : iview :=
  mkIview (ci_number i) (ep_to_rational (ci_epoch i))
          (if block_ts_as_relative_start (sc_params c) (env_epoch_number (sc_env c) (p_closest (sc_params c)))
           then option_map h_ts (hlookup (sc_store c) (ci_hash i))
           else parent_median_time (sc_store c) (p_median_count (sc_params c)) (ci_hash i)).

(* verdict of a whole transaction: first failing input with its index *)
Inductive tverdict :=
| TOk
| TImmature (index : N)
| TInvalidSince (index : N)
| TCellbaseImmaturity (in_deps : bool) (index : N).

Fixpoint since_inputs (c : sctx) (idx : N) (ins : list (N * option cinfo)) : option tverdict :=
  match ins with
  | [] => Some TOk
  | (s, i) :: rest =>
      r <- check_since (mk_sview c) s (option_map (mk_iview c) i) ;;
      match r with
      | SOk => since_inputs c (N.succ idx) rest
      | SImmature => Some (TImmature idx)
      | SInvalid => Some (TInvalidSince idx)
      end
  end.
Definition verify_since (c : sctx) (ins : list (N * option cinfo)) : option tverdict :=
  since_inputs c 0 ins.

Fixpoint since_inputs_old (c : sctx) (idx : N) (ins : list (N * option cinfo)) : option tverdict :=
  match ins with
  | [] => Some TOk
  | (s, i) :: rest =>
      r <- check_since_old (mk_sview c) s (option_map (mk_iview c) i) ;;
      match r with
      | SOk => since_inputs_old c (N.succ idx) rest
      | SImmature => Some (TImmature idx)
      | SInvalid => Some (TInvalidSince idx)
      end
  end.

(* ---- MaturityVerifier ---------------------------------------------------- *)
Definition cellbase_immature (epoch maturity : N) (i : option cinfo) : option bool :=
  match i with
  | None => Some false
  | Some info =>
      if (0 <? ci_number info) && (ci_index info =? 0) then
        m <- ep_to_rational maturity ;; b <- ep_to_rational (ci_epoch info) ;;
        cur <- ep_to_rational epoch ;;
        Some (rat_lt cur (rat_add m b))
      else Some false
  end.

Fixpoint first_immature (epoch maturity : N) (idx : N) (l : list (option cinfo)) : option (option N) :=
  match l with
  | [] => Some None
  | i :: rest =>
      b <- cellbase_immature epoch maturity i ;;
      if b then Some (Some idx) else first_immature epoch maturity (N.succ idx) rest
  end.

Definition verify_maturity (epoch maturity : N) (inputs deps : list (option cinfo)) : option tverdict :=
  r <- first_immature epoch maturity 0 inputs ;;
  match r with
  | Some idx => Some (TCellbaseImmaturity false idx)
  | None =>
      r2 <- first_immature epoch maturity 0 deps ;;
      match r2 with
      | Some idx => Some (TCellbaseImmaturity true idx)
      | None => Some TOk
      end
  end.

(* TimeRelativeTransactionVerifier::verify *)
Definition verify_time_relative (c : sctx) (ins : list (N * option cinfo)) (deps : list (option cinfo))
  : option tverdict :=
  r <- verify_maturity (te_epoch (sc_env c)) (p_maturity (sc_params c)) (map snd ins) deps ;;
  match r with
  | TOk => verify_since c ins
  | _ => Some r
  end.

(* ---- CapacityVerifier ---------------------------------------------------- *)
Definition BYTE_SHANNONS : N := 100000000.

(* a script as far as capacity rules see it: hash_type byte, code hash id, args length *)
Record script := mkScript { s_hash_type : N; s_code : N; s_args_len : N }.
Record output := mkOutput { o_capacity : N; o_lock : script; o_type : option script; o_data_len : N }.

Inductive cverdict :=
| COk
| COutputsSumOverflow                    (* inputs_sum < outputs_sum *)
| CInsufficient (index : N)              (* output capacity below its occupied capacity *)
| COverflow.                             (* CapacityError::Overflow of a checked operation *)

(* Capacity::bytes / safe_add: Err(Overflow) is the inner None *)
Definition cap_bytes (n : N) : option N := mul64 n BYTE_SHANNONS.
Definition script_occupied (s : script) : option N := cap_bytes (s_args_len s + 32 + 1).
Definition occupied_capacity (o : output) : option N :=
  a <- cap_bytes 8 ;; d <- cap_bytes (o_data_len o) ;; x <- add64 a d ;;
  l <- script_occupied (o_lock o) ;; x2 <- add64 l x ;;
  t <- match o_type o with Some t => script_occupied t | None => Some 0 end ;;
  add64 t x2.

Fixpoint sum64 (l : list N) (acc : N) : option N :=
  match l with
  | [] => Some acc
  | x :: l' => a <- add64 acc x ;; sum64 l' a
  end.

Definition HASH_TYPE_TYPE : N := 1.
Definition uses_dao (dao : N) (o : output) : bool :=
  match o_type o with
  | Some t => (s_hash_type t =? HASH_TYPE_TYPE) && (s_code t =? dao)
  | None => false
  end.

Fixpoint outputs_check (idx : N) (outs : list output) : cverdict :=
  match outs with
  | [] => COk
  | o :: rest =>
      match cap_bytes (o_data_len o) with
      | None => COverflow
      | Some _ =>
        match occupied_capacity o with
        | None => COverflow
        | Some occ => if o_capacity o <? occ then CInsufficient idx else outputs_check (N.succ idx) rest
        end
      end
  end.

(* [inputs]: the resolved input cells; [dao]: id of consensus.dao_type_hash() *)
Definition verify_capacity (dao : N) (inputs : list output) (outs : list output) : cverdict :=
  let skip := match inputs with [] => true | _ => existsb (uses_dao dao) inputs end in
  let sum_ok :=
    if skip then Some true
    else match sum64 (map o_capacity inputs) 0, sum64 (map o_capacity outs) 0 with
         | Some i, Some o => Some (negb (i <? o))
         | _, _ => None
         end in
  match sum_ok with
  | None => COverflow
  | Some false => COutputsSumOverflow
  | Some true => outputs_check 0 outs
  end.
