(* Tx/FrozenCacheProofs.v — the read caches stay transparent while blocks move into the freezer *)
From CKB Require Import Tx.Cache Tx.CacheProofs Tx.FrozenCache.
From Coq Require Import List NArith Bool Lia.
Import ListNotations.

Section FrozenProofs.
  Variable block_of : N -> blockdata.
  Notation fstate := fstate.
  Notation fcache_ok := (fcache_ok block_of).

  Definition same_db (s s' : fstate) : Prop :=
    f_hdr s' = f_hdr s /\ f_parts s' = f_parts s /\ f_frozen s' = f_frozen s.
  Lemma same_db_refl : forall s, same_db s s.
  Proof. intros s; repeat split. Qed.
  Lemma same_db_trans : forall a b c, same_db a b -> same_db b c -> same_db a c.
  Proof. intros a b c (A1 & A2 & A3) (B1 & B2 & B3); repeat split; congruence. Qed.
  Lemma same_db_avail : forall s s' h, same_db s s' -> avail s' h = avail s h.
  Proof. intros s s' h (A1 & A2 & A3). unfold avail. rewrite A1, A2, A3. reflexivity. Qed.

  Ltac oks H := destruct H as (Hh & Hu & Hp & He & Ht).

  Lemma fok_put_ch : forall s h v, fcache_ok s -> v = bd_header (block_of h) -> fcache_ok (fset_ch s (put h v (fch s))).
  Proof.
    intros s h v H E. oks H. unfold FrozenCache.fcache_ok, fset_ch, fset_cu, fset_cp, fset_ce, fset_ct;
      cbn [fch fcu fcp fce fct]. repeat split; auto.
    intros k w L. rewrite lookup_put in L. destruct (N.eqb k h) eqn:K; [|auto].
    apply N.eqb_eq in K. inversion L. subst. reflexivity.
  Qed.
  Lemma fok_put_cu : forall s h v, fcache_ok s -> v = bd_uncles (block_of h) -> fcache_ok (fset_cu s (put h v (fcu s))).
  Proof.
    intros s h v H E. oks H. unfold FrozenCache.fcache_ok, fset_ch, fset_cu, fset_cp, fset_ce, fset_ct;
      cbn [fch fcu fcp fce fct]. repeat split; auto.
    intros k w L. rewrite lookup_put in L. destruct (N.eqb k h) eqn:K; [|auto].
    apply N.eqb_eq in K. inversion L. subst. reflexivity.
  Qed.
  Lemma fok_put_cp : forall s h v, fcache_ok s -> v = bd_proposals (block_of h) -> fcache_ok (fset_cp s (put h v (fcp s))).
  Proof.
    intros s h v H E. oks H. unfold FrozenCache.fcache_ok, fset_ch, fset_cu, fset_cp, fset_ce, fset_ct;
      cbn [fch fcu fcp fce fct]. repeat split; auto.
    intros k w L. rewrite lookup_put in L. destruct (N.eqb k h) eqn:K; [|auto].
    apply N.eqb_eq in K. inversion L. subst. reflexivity.
  Qed.
  Lemma fok_put_ce : forall s h v, fcache_ok s -> v = bd_ext (block_of h) -> fcache_ok (fset_ce s (put h v (fce s))).
  Proof.
    intros s h v H E. oks H. unfold FrozenCache.fcache_ok, fset_ch, fset_cu, fset_cp, fset_ce, fset_ct;
      cbn [fch fcu fcp fce fct]. repeat split; auto.
    intros k w L. rewrite lookup_put in L. destruct (N.eqb k h) eqn:K; [|auto].
    apply N.eqb_eq in K. inversion L. subst. reflexivity.
  Qed.
  Lemma fok_put_ct : forall s h v, fcache_ok s -> v = bd_txs (block_of h) -> fcache_ok (fset_ct s (put h v (fct s))).
  Proof.
    intros s h v H E. oks H. unfold FrozenCache.fcache_ok, fset_ch, fset_cu, fset_cp, fset_ce, fset_ct;
      cbn [fch fcu fcp fce fct]. repeat split; auto.
    intros k w L. rewrite lookup_put in L. destruct (N.eqb k h) eqn:K; [|auto].
    apply N.eqb_eq in K. inversion L. subst. reflexivity.
  Qed.

  Definition good {A} (s : fstate) (r : A * fstate) (want : A) : Prop :=
    fst r = want /\ fcache_ok (snd r) /\ same_db s (snd r).
  Lemma good_intro : forall A s (a : A) s' want, a = want -> fcache_ok s' -> same_db s s' -> good s (a, s') want.
  Proof. intros A s a s' want E K D. unfold good; simpl. auto. Qed.
  Lemma same_db_ch : forall s v, same_db s (fset_ch s v). Proof. intros; repeat split. Qed.
  Lemma same_db_cu : forall s v, same_db s (fset_cu s v). Proof. intros; repeat split. Qed.
  Lemma same_db_cp : forall s v, same_db s (fset_cp s v). Proof. intros; repeat split. Qed.
  Lemma same_db_ce : forall s v, same_db s (fset_ce s v). Proof. intros; repeat split. Qed.
  Lemma same_db_ct : forall s v, same_db s (fset_ct s v). Proof. intros; repeat split. Qed.
  Hint Resolve same_db_refl same_db_ch same_db_cu same_db_cp same_db_ce same_db_ct : fz.

  Lemma fget_header_ok : forall s h, fcache_ok s -> f_hdr s h = true ->
    good s (fget_header block_of s h) (Some (bd_header (block_of h))).
  Proof.
    intros s h H P. unfold fget_header. destruct (lookup (fch s) h) as [v|] eqn:L.
    - pose proof H as H'. oks H'. rewrite (Hh h v L). apply good_intro; auto with fz.
    - rewrite P. apply good_intro; auto with fz. apply fok_put_ch; auto.
  Qed.

  Lemma fget_frozen_ok : forall s h, fcache_ok s -> f_hdr s h = true ->
    good s (fget_frozen block_of s h) (if f_frozen s h then Some (block_of h) else None).
  Proof.
    intros s h H P. unfold fget_frozen.
    destruct (fget_header_ok s h H P) as (A & B & C). destruct (fget_header block_of s h) as [hd s1]. simpl in *.
    subst hd. destruct C as (C1 & C2 & C3). rewrite C3. apply good_intro; auto. repeat split; auto.
  Qed.

  Lemma avail_split : forall s h, avail s h = true ->
    f_hdr s h = true /\ (f_parts s h = true \/ (f_parts s h = false /\ f_frozen s h = true)).
  Proof.
    intros s h A. unfold avail in A. apply andb_true_iff in A. destruct A as [A B]. split; [exact A|].
    destruct (f_parts s h); [left; reflexivity | right; split; [reflexivity | exact B]].
  Qed.

  Lemma fget_uncles_ok : forall s h, fcache_ok s -> avail s h = true ->
    good s (fget_uncles block_of s h) (Some (bd_uncles (block_of h))).
  Proof.
    intros s h H A. destruct (avail_split s h A) as [P [Q | [Q F]]]; unfold fget_uncles;
      destruct (lookup (fcu s) h) as [v|] eqn:L.
    - pose proof H as H'. oks H'. rewrite (Hu h v L). apply good_intro; auto with fz.
    - rewrite Q. apply good_intro; auto with fz. apply fok_put_cu; auto.
    - pose proof H as H'. oks H'. rewrite (Hu h v L). apply good_intro; auto with fz.
    - rewrite Q. destruct (fget_frozen_ok s h H P) as (A1 & B1 & C1). rewrite F in A1.
      destruct (fget_frozen block_of s h) as [fb s1]. cbn [fst snd] in *. subst fb.
      apply good_intro; [reflexivity | apply fok_put_cu; auto |].
      eapply same_db_trans; [exact C1 | auto with fz].
  Qed.

  Lemma fget_proposals_ok : forall s h, fcache_ok s -> avail s h = true ->
    good s (fget_proposals block_of s h) (Some (bd_proposals (block_of h))).
  Proof.
    intros s h H A. destruct (avail_split s h A) as [P [Q | [Q F]]]; unfold fget_proposals;
      destruct (lookup (fcp s) h) as [v|] eqn:L.
    - pose proof H as H'. oks H'. rewrite (Hp h v L). apply good_intro; auto with fz.
    - rewrite Q. apply good_intro; auto with fz. apply fok_put_cp; auto.
    - pose proof H as H'. oks H'. rewrite (Hp h v L). apply good_intro; auto with fz.
    - rewrite Q. destruct (fget_frozen_ok s h H P) as (A1 & B1 & C1). rewrite F in A1.
      destruct (fget_frozen block_of s h) as [fb s1]. cbn [fst snd] in *. subst fb.
      apply good_intro; [reflexivity | apply fok_put_cp; auto |].
      eapply same_db_trans; [exact C1 | auto with fz].
  Qed.

  Lemma fget_ext_ok : forall s h, fcache_ok s -> avail s h = true ->
    good s (fget_ext block_of s h) (bd_ext (block_of h)).
  Proof.
    intros s h H A. destruct (avail_split s h A) as [P Q]. unfold fget_ext.
    destruct (lookup (fce s) h) as [v|] eqn:L.
    - pose proof H as H'. oks H'. rewrite (He h v L). apply good_intro; auto with fz.
    - unfold kv_ext. destruct Q as [Q | [Q F]]; rewrite Q.
      + destruct (bd_ext (block_of h)) as [e|] eqn:E.
        * apply good_intro; auto with fz. apply fok_put_ce; auto.
        * destruct (fget_frozen_ok s h H P) as (A1 & B1 & C1).
          destruct (fget_frozen block_of s h) as [fb s1]. cbn [fst snd] in *.
          assert (X : opt_ext fb = None) by (subst fb; destruct (f_frozen s h); simpl; auto).
          rewrite X. apply good_intro; [reflexivity | apply fok_put_ce; auto |].
          eapply same_db_trans; [exact C1 | auto with fz].
      + destruct (fget_frozen_ok s h H P) as (A1 & B1 & C1). rewrite F in A1.
        destruct (fget_frozen block_of s h) as [fb s1]. cbn [fst snd] in *. subst fb. cbn [opt_ext].
        apply good_intro; [reflexivity | apply fok_put_ce; auto |].
        eapply same_db_trans; [exact C1 | auto with fz].
  Qed.

  Lemma frozen_txs : forall s h, fcache_ok s -> f_hdr s h = true ->
    (f_parts s h = true \/ f_frozen s h = true) -> kv_txs block_of s h = [] ->
    forall fb s1, fget_frozen block_of s h = (fb, s1) ->
    match fb with Some b => bd_txs b | None => [] end = bd_txs (block_of h) /\ fcache_ok s1 /\ same_db s s1.
  Proof.
    intros s h H P Q K fb s1 E. destruct (fget_frozen_ok s h H P) as (A1 & B1 & C1). rewrite E in *. cbn [fst snd] in *.
    split; [|split; assumption]. subst fb. destruct (f_frozen s h) eqn:F; [reflexivity|].
    destruct Q as [Q | Q]; [|discriminate]. unfold kv_txs in K. rewrite Q in K. symmetry; exact K.
  Qed.

  Lemma avail_or : forall s h, avail s h = true -> f_parts s h = true \/ f_frozen s h = true.
  Proof. intros s h A. destruct (avail_split s h A) as [_ [Q | [_ F]]]; auto. Qed.

  Lemma kv_txs_nonempty : forall s h x l, kv_txs block_of s h = x :: l -> kv_txs block_of s h = bd_txs (block_of h).
  Proof. intros s h x l E. unfold kv_txs in *. destruct (f_parts s h); [reflexivity | discriminate]. Qed.

  Lemma fget_txs_ok : forall s h, fcache_ok s -> avail s h = true ->
    good s (fget_txs block_of s h) (bd_txs (block_of h)).
  Proof.
    intros s h H A. destruct (avail_split s h A) as [P _]. pose proof (avail_or s h A) as Q. unfold fget_txs.
    destruct (lookup (fct s) h) as [v|] eqn:L.
    - pose proof H as H'. oks H'. rewrite (Ht h v L). apply good_intro; auto with fz.
    - destruct (kv_txs block_of s h) as [|x l] eqn:K.
      + destruct (fget_frozen block_of s h) as [fb s1] eqn:E.
        destruct (frozen_txs s h H P Q K fb s1 E) as (X & Y & Z). rewrite X.
        apply good_intro; [reflexivity | apply fok_put_ct; auto |].
        eapply same_db_trans; [exact Z | auto with fz].
      + pose proof (kv_txs_nonempty s h x l K) as K'. rewrite K in K'. rewrite K'.
        apply good_intro; auto with fz. apply fok_put_ct; auto.
  Qed.

  Lemma fget_body_ok : forall s h, fcache_ok s -> avail s h = true ->
    good s (fget_body block_of s h) (bd_txs (block_of h)).
  Proof.
    intros s h H A. destruct (avail_split s h A) as [P _]. pose proof (avail_or s h A) as Q. unfold fget_body.
    destruct (kv_txs block_of s h) as [|x l] eqn:K.
    - destruct (fget_frozen block_of s h) as [fb s1] eqn:E.
      destruct (frozen_txs s h H P Q K fb s1 E) as (X & Y & Z). rewrite X. apply good_intro; auto.
    - pose proof (kv_txs_nonempty s h x l K) as K'. rewrite K in K'. rewrite K'.
      apply good_intro; auto with fz.
  Qed.

  Lemma fget_block_ok : forall s h, fcache_ok s -> avail s h = true ->
    good s (fget_block block_of s h) (Some (whole block_of h)).
  Proof.
    intros s h H A. destruct (avail_split s h A) as [P _]. unfold fget_block.
    destruct (fget_header_ok s h H P) as (A1 & B1 & C1). destruct (fget_header block_of s h) as [hd s1]. simpl in *.
    subst hd. destruct (f_frozen s1 h) eqn:F.
    - unfold good; simpl. auto.
    - assert (A2 : avail s1 h = true) by (rewrite (same_db_avail s s1 h C1); exact A).
      destruct (fget_body_ok s1 h B1 A2) as (X1 & Y1 & Z1). destruct (fget_body block_of s1 h) as [body s2]. simpl in *.
      assert (A3 : avail s2 h = true) by (rewrite (same_db_avail s1 s2 h Z1); exact A2).
      destruct (fget_uncles_ok s2 h Y1 A3) as (X2 & Y2 & Z2). destruct (fget_uncles block_of s2 h) as [u s3]. simpl in *.
      assert (A4 : avail s3 h = true) by (rewrite (same_db_avail s2 s3 h Z2); exact A3).
      destruct (fget_proposals_ok s3 h Y2 A4) as (X3 & Y3 & Z3). destruct (fget_proposals block_of s3 h) as [p s4]. simpl in *.
      assert (A5 : avail s4 h = true) by (rewrite (same_db_avail s3 s4 h Z3); exact A4).
      destruct (fget_ext_ok s4 h Y3 A5) as (X4 & Y4 & Z4). destruct (fget_ext block_of s4 h) as [e s5]. simpl in *.
      subst. unfold good; simpl. split; [reflexivity|]. split; [exact Y4|].
      eapply same_db_trans; [exact C1|]. eapply same_db_trans; [exact Z1|]. eapply same_db_trans; [exact Z2|].
      eapply same_db_trans; [exact Z3|]. exact Z4.
  Qed.

  Lemma fstep_ok : forall s o, fcache_ok s -> fop_guarded s o -> fcache_ok (fstep block_of s o).
  Proof.
    intros s o H G. destruct o; simpl in *.
    - oks H. unfold FrozenCache.fcache_ok; simpl. repeat split; auto.
    - oks H. unfold FrozenCache.fcache_ok; simpl. repeat split; auto.
    - oks H. unfold FrozenCache.fcache_ok; simpl. repeat split; auto.
    - destruct (avail_split s h G) as [P _]. apply (fget_header_ok s h H P).
    - apply (fget_uncles_ok s h H G).
    - apply (fget_proposals_ok s h H G).
    - apply (fget_ext_ok s h H G).
    - apply (fget_txs_ok s h H G).
    - apply (fget_body_ok s h H G).
    - apply (fget_block_ok s h H G).
    - oks H. unfold FrozenCache.fcache_ok; simpl.
      repeat split; intros k v L; rewrite lookup_restrict in L;
        match type of L with (if ?b then _ else _) = _ => destruct b; [auto | discriminate] end.
  Qed.

  Lemma frun_ok : forall ops s, fcache_ok s -> fguarded block_of s ops -> fcache_ok (frun block_of s ops).
  Proof.
    induction ops as [|o ops IH]; intros s H G; [exact H|].
    destruct G as [G1 G2]. simpl. apply IH; [apply fstep_ok; assumption | exact G2].
  Qed.

  Lemma empty_fok : fcache_ok empty_fstate.
  Proof. unfold FrozenCache.fcache_ok; simpl. repeat split; intros; discriminate. Qed.

  (* C14, queries on a node with a freezer: after any guarded history of block writes, freezing,
     wiping of frozen blocks' rows, reads and evictions, every getter on a readable block answers the
     block's content, whatever the caches hold and wherever the block's parts are now *)
  Theorem frozen_cache_transparent : forall ops s,
    fcache_ok s -> fguarded block_of s ops ->
    let s' := frun block_of s ops in
    fcache_ok s' /\
    forall h, avail s' h = true ->
      fst (fget_header block_of s' h) = Some (bd_header (block_of h)) /\
      fst (fget_uncles block_of s' h) = Some (bd_uncles (block_of h)) /\
      fst (fget_proposals block_of s' h) = Some (bd_proposals (block_of h)) /\
      fst (fget_ext block_of s' h) = bd_ext (block_of h) /\
      fst (fget_txs block_of s' h) = bd_txs (block_of h) /\
      fst (fget_body block_of s' h) = bd_txs (block_of h) /\
      fst (fget_block block_of s' h) = Some (whole block_of h).
  Proof.
    intros ops s H G s'. assert (K : fcache_ok s') by (apply frun_ok; assumption).
    split; [exact K|]. intros h A. destruct (avail_split s' h A) as [P _]. repeat split.
    - exact (proj1 (fget_header_ok s' h K P)).
    - exact (proj1 (fget_uncles_ok s' h K A)).
    - exact (proj1 (fget_proposals_ok s' h K A)).
    - exact (proj1 (fget_ext_ok s' h K A)).
    - exact (proj1 (fget_txs_ok s' h K A)).
    - exact (proj1 (fget_body_ok s' h K A)).
    - exact (proj1 (fget_block_ok s' h K A)).
  Qed.

  (* moving a block into the freezer and wiping its rows changes no answer: two states that differ
     only in where the readable block's parts are (and in their caches) answer alike *)
  Corollary freeze_changes_no_answer : forall s1 s2 h,
    fcache_ok s1 -> fcache_ok s2 -> avail s1 h = true -> avail s2 h = true ->
    fst (fget_uncles block_of s1 h) = fst (fget_uncles block_of s2 h) /\
    fst (fget_proposals block_of s1 h) = fst (fget_proposals block_of s2 h) /\
    fst (fget_ext block_of s1 h) = fst (fget_ext block_of s2 h) /\
    fst (fget_txs block_of s1 h) = fst (fget_txs block_of s2 h) /\
    fst (fget_block block_of s1 h) = fst (fget_block block_of s2 h).
  Proof.
    intros s1 s2 h H1 H2 A1 A2. repeat split.
    - rewrite (proj1 (fget_uncles_ok s1 h H1 A1)), (proj1 (fget_uncles_ok s2 h H2 A2)); reflexivity.
    - rewrite (proj1 (fget_proposals_ok s1 h H1 A1)), (proj1 (fget_proposals_ok s2 h H2 A2)); reflexivity.
    - rewrite (proj1 (fget_ext_ok s1 h H1 A1)), (proj1 (fget_ext_ok s2 h H2 A2)); reflexivity.
    - rewrite (proj1 (fget_txs_ok s1 h H1 A1)), (proj1 (fget_txs_ok s2 h H2 A2)); reflexivity.
    - rewrite (proj1 (fget_block_ok s1 h H1 A1)), (proj1 (fget_block_ok s2 h H2 A2)); reflexivity.
  Qed.
End FrozenProofs.

(* ---- witnesses ---------------------------------------------------------------- *)
Local Open Scope N_scope.
(* a frozen and wiped block with an extension *)
Definition ex_fz_history : list fop := [FInsert 5; FFreeze 5; FWipe 5].
Lemma ex_fz_guarded : fguarded ex_block_of empty_fstate (ex_fz_history ++ [FGetExt 5; FGetExt 5; FGetBlock 5]).
Proof. vm_compute. repeat split. Qed.
Lemma ex_fz_answers :
  let s := frun ex_block_of empty_fstate ex_fz_history in
  let (a1, s1) := fget_ext ex_block_of s 5 in
  let (a2, _) := fget_ext ex_block_of s1 5 in
  a1 = Some 8 /\ a2 = Some 8 /\ avail s 5 = true.
Proof. vm_compute. repeat split. Qed.

(* caching the column's answer before the freezer fallback: the first read is right, the second is
   served the negative entry *)
Lemma late_fallback_refuted :
  let s := frun ex_block_of empty_fstate ex_fz_history in
  let (a1, s1) := fget_ext_late ex_block_of s 5 in
  let (a2, _) := fget_ext_late ex_block_of s1 5 in
  avail s 5 = true /\ a1 = bd_ext (ex_block_of 5) /\ a2 = None /\ a2 <> bd_ext (ex_block_of 5).
Proof. vm_compute. repeat split. discriminate. Qed.

(* the harness's checker accepts exactly the content answers on a sample history *)
Example ex_fzcase_ok :
  check_fzcase (mkFZ [(5, ex_block_of 5)]
    [ZInsert 5; ZExt 5 (Some 8); ZFreeze 5; ZUncles 5 (Some [6]); ZWipe 5; ZExt 5 (Some 8); ZTxs 5 [9; 10];
     ZBlock 5 (Some (mkBA 50 (Some [6]) (Some [7]) (Some 8) [9; 10]))]) = true.
Proof. vm_compute. reflexivity. Qed.
Example ex_fzcase_bad :
  check_fzcase (mkFZ [(5, ex_block_of 5)] [ZInsert 5; ZFreeze 5; ZWipe 5; ZExt 5 (Some 8); ZExt 5 None]) = false.
Proof. vm_compute. reflexivity. Qed.
