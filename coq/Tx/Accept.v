(* Tx/Accept.v — the verdict on a transaction at a commit position: resolve,
   then (ContextualTransactionVerifier order) maturity, since, capacity,
   scripts.  Script execution is an oracle (Section variable): C05 is about it.
   The fee calculation (DAO withdraw) is not modelled.
   No proofs in this file (Tx/AcceptProofs.v). *)
From CKB Require Export Tx.Verify Tx.Resolve.
Local Open Scope N_scope.

Section Accept.
  (* all lock and type scripts of the resolved transaction succeed within the cycle limit *)
  Variable script_ok : tx -> rtx -> bool.

  Record wtx := mkWtx {
    w_tx : tx;
    w_sinces : list N;          (* the since field of every input *)
    w_outputs : list output
  }.

  (* the chain context at the commit position: nothing else is read *)
  Record actx := mkActx {
    a_seen : list outpoint;             (* spent earlier in the same block / by pooled ancestors *)
    a_cells : provider;                 (* liveness and dep-group data of cells *)
    a_headers : N -> bool;              (* header on the main chain *)
    a_info : outpoint -> option cinfo;  (* TransactionInfo of a live cell *)
    a_out : outpoint -> output;         (* capacity, scripts and data size of a live cell *)
    a_sctx : sctx;                      (* consensus parameters, TxVerifyEnv, headers *)
    a_dao : N
  }.

  Inductive averdict :=
  | AOk
  | AResolve (e : rerr)
  | ATime (t : tverdict)
  | ACapacity (c : cverdict)
  | AScript.

  (* None = a verifier panics *)
  Definition accept (c : actx) (w : wtx) : option averdict :=
    match resolve_transaction (a_seen c) (a_cells c) (a_headers c) (w_tx w) with
    | Err e => Some (AResolve e)
    | Ok (r, _) =>
        tv <- verify_time_relative (a_sctx c)
                (combine (w_sinces w) (map (a_info c) (r_inputs r)))
                (map (a_info c) (r_deps r)) ;;
        match tv with
        | TOk =>
            match verify_capacity (a_dao c) (map (a_out c) (r_inputs r)) (w_outputs w) with
            | COk => Some (if script_ok (w_tx w) r then AOk else AScript)
            | cv => Some (ACapacity cv)
            end
        | _ => Some (ATime tv)
        end
    end.
End Accept.
