(* Tx/SysCache.v — the dep-resolution loop of util/types/src/core/cell.rs with
   and without the SYSTEM_CELL cache:
     resolve_transaction_deps_with_system_cell_cache   (the loop, MAX_DEP_EXPANSION_LIMIT accounting)
     resolve_transaction_dep                            (one dep: code cell, or dep group expanded through its data)
     setup_system_cell_cache                            (the map CellDep -> ResolvedDep built once from genesis)
   Out points are numbers; a provider answers live (with the cell data parsed
   as an OutPointVec, or not parsing) / dead / unknown.  Tx/Cache.v has the
   coarser model (liveness only); this one has dep groups and the slot
   accounting.  No proofs in this file. *)
From Coq Require Export List NArith Arith Bool Lia.
Export ListNotations.

Inductive cstat :=
| SLive (group_data : option (list N))   (* live; [Some ids]: its data parses as the out points [ids] *)
| SDead
| SUnknown.
Definition provider := N -> cstat.

Record dep := mkDep { d_op : N; d_group : bool }.     (* CellDep: out point, dep_type = DepGroup? *)

Inductive rerr := EDead (op : N) | EUnknown (op : N) | EInvalidGroup (op : N) | EOverLimit.

Definition max_dep_expansion : nat := 2048.

(* the resolve_cell closure on a dependency *)
Definition resolve_cell (p : provider) (op : N) : option rerr :=
  match p op with SLive _ => None | SDead => Some (EDead op) | SUnknown => Some (EUnknown op) end.

Fixpoint resolve_all (p : provider) (ops : list N) : option rerr :=
  match ops with
  | [] => None
  | o :: r => match resolve_cell p o with Some e => Some e | None => resolve_all p r end
  end.

(* state of the loop: remaining slots, resolved_cell_deps, resolved_dep_groups *)
Definition lstate := (nat * list N * list N)%type.

(* resolve_transaction_dep *)
Definition resolve_dep (p : provider) (d : dep) (st : lstate) : rerr + lstate :=
  let '(slots, cells, groups) := st in
  if d_group d then
    match p (d_op d) with
    | SDead => inl (EDead (d_op d))
    | SUnknown => inl (EUnknown (d_op d))
    | SLive None => inl (EInvalidGroup (d_op d))
    | SLive (Some subs) =>
      if Nat.ltb slots (length subs) then inl EOverLimit
      else match resolve_all p subs with
           | Some e => inl e
           | None => inr (slots - length subs, cells ++ subs, groups ++ [d_op d])
           end
    end
  else if Nat.ltb slots 1 then inl EOverLimit
  else match resolve_cell p (d_op d) with
       | Some e => inl e
       | None => inr (slots - 1, cells ++ [d_op d], groups)
       end.

Fixpoint resolve_cold_from (p : provider) (deps : list dep) (st : lstate) : rerr + lstate :=
  match deps with
  | [] => inr st
  | d :: r => match resolve_dep p d st with inl e => inl e | inr st' => resolve_cold_from p r st' end
  end.
Definition resolve_cold (p : provider) (deps : list dep) : rerr + lstate :=
  resolve_cold_from p deps (max_dep_expansion, [], []).

(* ---- SYSTEM_CELL ----------------------------------------------------------- *)
Inductive centry := CCell | CGroup (subs : list N).    (* ResolvedDep::Cell / ::Group *)
Definition cache := list (dep * centry).
Definition dep_eqb (a b : dep) : bool := N.eqb (d_op a) (d_op b) && Bool.eqb (d_group a) (d_group b).
Fixpoint clookup (c : cache) (d : dep) : option centry :=
  match c with [] => None | (d', e) :: r => if dep_eqb d d' then Some e else clookup r d end.

(* [group_cost]: what a cached group costs; the code charges one slot per member *)
Definition resolve_dep_warm (group_cost : list N -> nat) (c : cache) (p : provider) (d : dep) (st : lstate) : rerr + lstate :=
  let '(slots, cells, groups) := st in
  match clookup c d with
  | Some CCell => if Nat.ltb slots 1 then inl EOverLimit else inr (slots - 1, cells ++ [d_op d], groups)
  | Some (CGroup subs) =>
    if Nat.ltb slots (group_cost subs) then inl EOverLimit
    else inr (slots - group_cost subs, cells ++ subs, groups ++ [d_op d])
  | None => resolve_dep p d st
  end.
Fixpoint resolve_warm_from (gc : list N -> nat) (c : cache) (p : provider) (deps : list dep) (st : lstate) : rerr + lstate :=
  match deps with
  | [] => inr st
  | d :: r => match resolve_dep_warm gc c p d st with inl e => inl e | inr st' => resolve_warm_from gc c p r st' end
  end.
Definition resolve_warm (c : cache) (p : provider) (deps : list dep) : rerr + lstate :=
  resolve_warm_from (@length N) c p deps (max_dep_expansion, [], []).

(* setup_system_cell_cache resolved every entry against the provider at start-up *)
Definition cache_consistent (c : cache) (p : provider) : Prop :=
  forall d e, clookup c d = Some e ->
    match e with
    | CCell => d_group d = false /\ exists dt, p (d_op d) = SLive dt
    | CGroup subs => d_group d = true /\ p (d_op d) = SLive (Some subs) /\ forall s, In s subs -> exists dt, p s = SLive dt
    end.

(* ---- cases from the harness -------------------------------------------------- *)
(* provider and cache as association lists; the outcome of resolve_transaction on
   the dependency side, cold (SYSTEM_CELL unset) and warm (set) *)
Inductive outcome := OOk (cells groups : list N) | OErr (code : N) (op : N).   (* 1 dead 2 unknown 3 invalid group 4 over limit *)
Definition outcome_of (r : rerr + lstate) : outcome :=
  match r with
  | inr (_, cells, groups) => OOk cells groups
  | inl (EDead o) => OErr 1 o | inl (EUnknown o) => OErr 2 o | inl (EInvalidGroup o) => OErr 3 o | inl EOverLimit => OErr 4 0
  end.
Fixpoint list_eqb_n (a b : list N) : bool :=
  match a, b with [], [] => true | x :: a', y :: b' => N.eqb x y && list_eqb_n a' b' | _, _ => false end.
Definition outcome_eqb (a b : outcome) : bool :=
  match a, b with
  | OOk c g, OOk c' g' => list_eqb_n c c' && list_eqb_n g g'
  | OErr k o, OErr k' o' => N.eqb k k' && N.eqb o o'
  | _, _ => false
  end.
(* out points that are not listed are live cells whose data is not an out-point vector *)
Fixpoint plookup (l : list (N * cstat)) (k : N) : cstat :=
  match l with [] => SLive None | (k', v) :: r => if N.eqb k k' then v else plookup r k end.

Record sccase := mkSC {
  sc_provider : list (N * cstat); sc_cache : cache; sc_deps : list dep;
  sc_cold : outcome; sc_warm : outcome }.
Definition check_sccase (c : sccase) : bool :=
  outcome_eqb (outcome_of (resolve_cold (plookup (sc_provider c)) (sc_deps c))) (sc_cold c) &&
  outcome_eqb (outcome_of (resolve_warm (sc_cache c) (plookup (sc_provider c)) (sc_deps c))) (sc_warm c).
