(* Tx/SysCacheProofs.v — with a SYSTEM_CELL map that is consistent with the
   provider, dep resolution answers exactly as without it: same resolved
   cells and groups in the same order, same error, same slot accounting. *)
From CKB Require Import Tx.SysCache.

Lemma resolve_all_live p subs : (forall s, In s subs -> exists dt, p s = SLive dt) -> resolve_all p subs = None.
Proof.
  induction subs as [|s r IH]; intros H; cbn [resolve_all]; [reflexivity|].
  unfold resolve_cell. destruct (H s (or_introl eq_refl)) as [dt ->].
  apply IH. intros x Hx. apply H. right. exact Hx.
Qed.

Lemma resolve_dep_warm_eq c p d st : cache_consistent c p ->
  resolve_dep_warm (@length N) c p d st = resolve_dep p d st.
Proof.
  intros HC. unfold resolve_dep_warm, resolve_dep. destruct st as [[slots cells] groups].
  destruct (clookup c d) as [[|subs]|] eqn:E; [| |reflexivity].
  - destruct (HC d CCell E) as [Hg [dt Hp]]. rewrite Hg. unfold resolve_cell. rewrite Hp. reflexivity.
  - destruct (HC d (CGroup subs) E) as [Hg [Hp Hs]]. rewrite Hg, Hp.
    rewrite (resolve_all_live p subs Hs). reflexivity.
Qed.

Theorem resolve_warm_from_eq c p deps : forall st, cache_consistent c p ->
  resolve_warm_from (@length N) c p deps st = resolve_cold_from p deps st.
Proof.
  induction deps as [|d r IH]; intros st HC; cbn [resolve_warm_from resolve_cold_from]; [reflexivity|].
  rewrite (resolve_dep_warm_eq c p d st HC).
  destruct (resolve_dep p d st) as [e|st']; [reflexivity|]. apply IH. exact HC.
Qed.

Theorem system_cell_cache_transparent c p deps : cache_consistent c p -> resolve_warm c p deps = resolve_cold p deps.
Proof. intros HC. apply resolve_warm_from_eq. exact HC. Qed.

(* the expansion limit is exactly what the loop enforces: a successful resolution
   never lists more than MAX_DEP_EXPANSION_LIMIT cells *)
Lemma resolve_dep_slots p d slots cells groups slots' cells' groups' :
  resolve_dep p d (slots, cells, groups) = inr (slots', cells', groups') ->
  slots' + length cells' = slots + length cells /\ slots' <= slots.
Proof.
  unfold resolve_dep. destruct (d_group d).
  - destruct (p (d_op d)) as [[subs|]| |]; try discriminate.
    destruct (Nat.ltb_spec slots (length subs)) as [L|L]; [discriminate|].
    destruct (resolve_all p subs); [discriminate|]. intros HH. injection HH as <- <- <-.
    rewrite app_length. lia.
  - destruct (Nat.ltb_spec slots 1) as [L|L]; [discriminate|].
    destruct (resolve_cell p (d_op d)); [discriminate|]. intros HH. injection HH as <- <- <-.
    rewrite app_length. cbn. lia.
Qed.

Theorem resolve_cold_within_limit p deps : forall slots cells groups slots' cells' groups',
  resolve_cold_from p deps (slots, cells, groups) = inr (slots', cells', groups') ->
  slots' + length cells' = slots + length cells.
Proof.
  induction deps as [|d r IH]; intros slots cells groups slots' cells' groups' H; cbn [resolve_cold_from] in H.
  - injection H as <- <- <-. reflexivity.
  - destruct (resolve_dep p d (slots, cells, groups)) as [e|[[s1 c1] g1]] eqn:E; [discriminate|].
    apply resolve_dep_slots in E as [E1 _]. apply IH in H. lia.
Qed.

Corollary resolved_deps_at_most_limit p deps slots' cells' groups' :
  resolve_cold p deps = inr (slots', cells', groups') -> length cells' <= max_dep_expansion.
Proof. unfold resolve_cold. intros H. apply resolve_cold_within_limit in H. cbn [length] in H. lia. Qed.

(* a cached group that costs one slot instead of one per member (the seeded change
   of this property) makes the cache visible: two members, 2047 other cells *)
Definition ex_provider : provider := fun op => if N.eqb op 1 then SLive (Some [2; 3]%N) else SLive None.
Definition ex_cache : cache := [(mkDep 1 true, CGroup [2; 3]%N)].
Definition ex_deps : list dep := mkDep 1 true :: map (fun i => mkDep (N.of_nat (10 + i)) false) (seq 0 2047).

Lemma ex_cache_consistent : cache_consistent ex_cache ex_provider.
Proof.
  intros d e H. unfold ex_cache in H. cbn [clookup] in H.
  destruct (dep_eqb d (mkDep 1 true)) eqn:E; [|discriminate]. injection H as <-.
  unfold dep_eqb in E. apply andb_true_iff in E as [E1 E2]. apply N.eqb_eq in E1. apply Bool.eqb_prop in E2.
  cbn in E1, E2. split; [exact E2|]. rewrite E1. split; [reflexivity|].
  intros s [<-|[<-|[]]]; eexists; reflexivity.
Qed.

Theorem group_cost_one_refuted :
  outcome_of (resolve_cold ex_provider ex_deps) = OErr 4 0 /\
  (exists cells groups, outcome_of (resolve_warm_from (fun _ => 1) ex_cache ex_provider ex_deps (max_dep_expansion, [], [])) = OOk cells groups /\ length cells = 2049) /\
  outcome_of (resolve_warm ex_cache ex_provider ex_deps) = OErr 4 0.
Proof.
  split; [vm_compute; reflexivity|]. split; [|vm_compute; reflexivity].
  eexists _, _. split; [vm_compute; reflexivity|]. vm_compute. reflexivity.
Qed.
