(* Tx/ResolveProofs.v — what resolve_transaction / resolve_block accept, as
   declarative statements about the transaction, the provider and the set of
   cells spent before. *)
From CKB Require Import Tx.Resolve.
From Coq Require Import Arith PeanoNat.
Local Open Scope N_scope.

Lemma op_eqb_eq a b : op_eqb a b = true <-> a = b.
Proof.
  destruct a as [a1 a2], b as [b1 b2]. unfold op_eqb. cbn [fst snd].
  rewrite andb_true_iff, !N.eqb_eq. split; [intros [-> ->]; reflexivity | intros [= -> ->]; split; reflexivity].
Qed.
Lemma op_mem_In o l : op_mem o l = true <-> In o l.
Proof.
  unfold op_mem. rewrite existsb_exists. split.
  - intros (x & Hin & E). apply op_eqb_eq in E. subst. exact Hin.
  - intros Hin. exists o. split; [exact Hin | apply op_eqb_eq; reflexivity].
Qed.
Lemma op_mem_false o l : op_mem o l = false <-> ~ In o l.
Proof. rewrite <- op_mem_In. destruct (op_mem o l); split; congruence. Qed.

(* a cell can be used: not spent before, live in the provider *)
Definition usable (seen : list outpoint) (p : provider) (o : outpoint) : Prop :=
  ~ In o seen /\ exists d, p o = Live d.

Lemma resolve_cell_ok seen p o d :
  resolve_cell seen p o = Ok d <-> ~ In o seen /\ p o = Live d.
Proof.
  unfold resolve_cell. destruct (op_mem o seen) eqn:M.
  - apply op_mem_In in M. split; [discriminate | tauto].
  - apply op_mem_false in M. destruct (p o); split; try discriminate; try (intros [_ ?]; discriminate).
    + intros [= ->]. tauto.
    + intros [_ [= ->]]. reflexivity.
Qed.
Lemma resolve_cell_usable seen p o :
  (exists d, resolve_cell seen p o = Ok d) <-> usable seen p o.
Proof.
  unfold usable. split.
  - intros (d & H). apply resolve_cell_ok in H. destruct H. split; [assumption | eauto].
  - intros (H & d & E). exists d. apply resolve_cell_ok. tauto.
Qed.
Lemma resolve_cell_cases seen p o : (exists d, resolve_cell seen p o = Ok d) \/ (exists e, resolve_cell seen p o = Err e).
Proof. destruct (resolve_cell seen p o); eauto. Qed.

(* ---- inputs ---------------------------------------------------------------- *)
Lemma resolve_inputs_ok seen p : forall ins cur r,
  resolve_inputs seen p cur ins = Ok r <->
  r = ins /\ NoDup ins /\ (forall o, In o ins -> ~ In o cur /\ usable seen p o).
Proof.
  induction ins as [|o rest IH]; intros cur r; cbn [resolve_inputs].
  - split.
    + intros [= <-]. split; [reflexivity|]. split; [constructor | intros ? []].
    + intros (-> & _). reflexivity.
  - destruct (op_mem o cur) eqn:M.
    { apply op_mem_In in M. split; [discriminate|]. intros (_ & _ & H). destruct (H o (or_introl eq_refl)). contradiction. }
    apply op_mem_false in M. unfold rbind at 1.
    destruct (resolve_cell seen p o) as [d|e] eqn:RC.
    + assert (U : usable seen p o) by (apply resolve_cell_usable; eauto).
      unfold rbind. destruct (resolve_inputs seen p (o :: cur) rest) as [r'|e] eqn:RI.
      * apply IH in RI. destruct RI as (-> & ND & Hall). split.
        -- intros [= <-]. split; [reflexivity|]. split.
           ++ constructor; [|exact ND]. intros Hin. destruct (Hall o Hin) as [Hn _]. apply Hn. left. reflexivity.
           ++ intros x [<-|Hx]; [tauto|]. destruct (Hall x Hx) as [Hn Hu]. split; [|exact Hu].
              intros Hc. apply Hn. right. exact Hc.
        -- intros (-> & _). reflexivity.
      * split; [discriminate|]. intros (-> & ND & Hall). exfalso.
        assert (X : resolve_inputs seen p (o :: cur) rest = Ok rest).
        { apply IH. split; [reflexivity|]. inversion ND; subst. split; [assumption|].
          intros x Hx. destruct (Hall x (or_intror Hx)) as [Hn Hu]. split; [|exact Hu].
          intros [<-|Hc]; [contradiction | contradiction]. }
        congruence.
    + split; [discriminate|]. intros (_ & _ & Hall). exfalso.
      destruct (Hall o (or_introl eq_refl)) as [_ U]. apply resolve_cell_usable in U. destruct U. congruence.
Qed.

Lemma resolve_cells_ok seen p : forall os,
  resolve_cells seen p os = Ok tt <-> Forall (usable seen p) os.
Proof.
  induction os as [|o rest IH]; cbn [resolve_cells].
  - split; [constructor | reflexivity].
  - unfold rbind. destruct (resolve_cell seen p o) eqn:RC.
    + rewrite IH. split.
      * intros H. constructor; [apply resolve_cell_usable; eauto | exact H].
      * intros H. inversion H. assumption.
    + split; [discriminate|]. intros H. inversion H as [|? ? U _]; subst.
      apply resolve_cell_usable in U. destruct U. congruence.
Qed.
Lemma resolve_cells_res seen p os : resolve_cells seen p os = Ok tt \/ exists e, resolve_cells seen p os = Err e.
Proof. destruct (resolve_cells seen p os) as [[]|]; eauto. Qed.

(* ---- cell deps --------------------------------------------------------------- *)
(* members of a dep group cell *)
Definition group_members (p : provider) (o : outpoint) : option (list outpoint) :=
  match p o with Live d => parse_group d | _ => None end.

Definition dep_ok (seen : list outpoint) (p : provider) (d : outpoint * bool) : Prop :=
  usable seen p (fst d) /\
  (snd d = true -> exists subs, group_members p (fst d) = Some subs /\ Forall (usable seen p) subs).

(* how many expansion slots a dep takes *)
Definition dep_size (p : provider) (d : outpoint * bool) : N :=
  if snd d then match group_members p (fst d) with Some subs => N.of_nat (length subs) | None => 0 end
  else 1.
Definition deps_size (p : provider) (deps : list (outpoint * bool)) : N :=
  fold_right (fun d acc => dep_size p d + acc) 0 deps.

Lemma resolve_deps_ok seen p : forall deps slots,
  (exists r, resolve_deps seen p slots deps = Ok r) <->
  Forall (dep_ok seen p) deps /\ deps_size p deps <= slots.
Proof.
  induction deps as [|[o g] rest IH]; intros slots; cbn [resolve_deps].
  - split; [intros _; split; [constructor | cbn; lia] | intros _; eauto].
  - change (deps_size p ((o, g) :: rest)) with (dep_size p (o, g) + deps_size p rest).
    destruct g.
    + (* dep group *)
      unfold rbind at 1. destruct (resolve_cell seen p o) as [d|e] eqn:RC.
      * apply resolve_cell_ok in RC. destruct RC as [Hns Hp].
        assert (GM : group_members p o = parse_group d) by (unfold group_members; rewrite Hp; reflexivity).
        change (dep_size p (o, true)) with (match group_members p o with Some subs => N.of_nat (length subs) | None => 0 end).
        rewrite GM.
        destruct (parse_group d) as [subs|] eqn:PG.
        -- destruct (N.ltb_spec slots (N.of_nat (length subs))) as [Hlt|Hge].
           { split; [intros (? & ?); discriminate | intros (_ & Hs); lia]. }
           unfold rbind at 1. destruct (resolve_cells_res seen p subs) as [RS|(e & RS)]; rewrite RS.
           ++ apply resolve_cells_ok in RS. unfold rbind.
              specialize (IH (slots - N.of_nat (length subs))).
              destruct (resolve_deps seen p (slots - N.of_nat (length subs)) rest) as [r|e] eqn:RD.
              ** assert (X : exists r0, Ok r = Ok r0) by eauto. apply IH in X. destruct X as [HF HS].
                 split; [intros _ | intros _; eauto]. split; [|lia].
                 constructor; [|exact HF]. split; cbn [fst snd].
                 --- split; [exact Hns | eauto].
                 --- intros _. exists subs. rewrite GM. split; [reflexivity | exact RS].
              ** split; [intros (? & ?); discriminate|]. intros (HF & HS). exfalso.
                 assert (X : exists r0, (Err e : res (list outpoint * list outpoint)) = Ok r0).
                 { apply IH. inversion HF; subst. split; [assumption | lia]. }
                 destruct X. discriminate.
           ++ split; [intros (? & ?); discriminate|]. intros (HF & _). exfalso.
              inversion HF as [|? ? [_ Hg] _]; subst. destruct (Hg eq_refl) as (subs' & E & Hall).
              cbn [fst] in E. rewrite GM in E. injection E as <-.
              apply resolve_cells_ok in Hall. congruence.
        -- split; [intros (? & ?); discriminate|]. intros (HF & _). exfalso.
           inversion HF as [|? ? [_ Hg] _]; subst. destruct (Hg eq_refl) as (subs' & E & _).
           cbn [fst] in E. rewrite GM in E. discriminate.
      * split; [intros (? & ?); discriminate|]. intros (HF & _). exfalso.
        inversion HF as [|? ? [U _] _]; subst. cbn [fst] in U. apply resolve_cell_usable in U. destruct U. congruence.
    + (* code dep *)
      change (dep_size p (o, false)) with 1.
      destruct (N.ltb_spec slots 1) as [Hlt|Hge].
      { split; [intros (? & ?); discriminate | intros (_ & Hs); lia]. }
      unfold rbind at 1. destruct (resolve_cell seen p o) as [d|e] eqn:RC.
      * unfold rbind. specialize (IH (slots - 1)).
        destruct (resolve_deps seen p (slots - 1) rest) as [r|e] eqn:RD.
        -- assert (X : exists r0, Ok r = Ok r0) by eauto. apply IH in X. destruct X as [HF HS].
           split; [intros _ | intros _; eauto]. split; [|lia].
           constructor; [|exact HF]. split; cbn [fst snd]; [apply resolve_cell_usable; eauto | discriminate].
        -- split; [intros (? & ?); discriminate|]. intros (HF & HS). exfalso.
           assert (X : exists r0, (Err e : res (list outpoint * list outpoint)) = Ok r0).
           { apply IH. inversion HF; subst. split; [assumption | lia]. }
           destruct X. discriminate.
      * split; [intros (? & ?); discriminate|]. intros (HF & _). exfalso.
        inversion HF as [|? ? [U _] _]; subst. cbn [fst] in U. apply resolve_cell_usable in U. destruct U. congruence.
Qed.

Lemma check_headers_ok hc : forall hs, check_headers hc hs = Ok tt <-> Forall (fun h => hc h = true) hs.
Proof.
  induction hs as [|h rest IH]; cbn [check_headers].
  - split; [constructor | reflexivity].
  - destruct (hc h) eqn:E.
    + rewrite IH. split; [intros; constructor; assumption | intros H; inversion H; assumption].
    + split; [discriminate | intros H; inversion H; congruence].
Qed.
Lemma check_headers_res hc hs : check_headers hc hs = Ok tt \/ exists e, check_headers hc hs = Err e.
Proof. destruct (check_headers hc hs) as [[]|]; eauto. Qed.

(* ---- one transaction ------------------------------------------------------ *)
(* the cells a transaction spends (a cellbase spends nothing) *)
Definition spent (t : tx) : list outpoint := if is_cellbase t then [] else t_inputs t.

Definition tx_ok (seen : list outpoint) (p : provider) (hc : N -> bool) (t : tx) : Prop :=
  NoDup (spent t) /\
  (forall o, In o (spent t) -> usable seen p o) /\
  Forall (dep_ok seen p) (t_deps t) /\
  deps_size p (t_deps t) <= MAX_DEP_EXPANSION_LIMIT /\
  Forall (fun h => hc h = true) (t_hdeps t).

Theorem resolve_tx_iff seen p hc t :
  (exists r, resolve_transaction seen p hc t = Ok r) <-> tx_ok seen p hc t.
Proof.
  unfold resolve_transaction, tx_ok, spent.
  set (ri := if is_cellbase t then Ok [] else resolve_inputs seen p [] (t_inputs t)).
  assert (RI : forall r, ri = Ok r <->
            r = (if is_cellbase t then [] else t_inputs t) /\
            NoDup (if is_cellbase t then [] else t_inputs t) /\
            (forall o, In o (if is_cellbase t then [] else t_inputs t) -> usable seen p o)).
  { intros r. subst ri. destruct (is_cellbase t).
    - split; [intros [= <-]; split; [reflexivity|]; split; [constructor | intros ? []] | intros (-> & _); reflexivity].
    - rewrite resolve_inputs_ok. split.
      + intros (-> & ND & H). split; [reflexivity|]. split; [exact ND|]. intros o Ho. apply H. exact Ho.
      + intros (-> & ND & H). split; [reflexivity|]. split; [exact ND|]. intros o Ho. split; [intros []|apply H; exact Ho]. }
  unfold rbind at 1. destruct ri as [ins|e].
  - destruct (proj1 (RI ins) eq_refl) as (-> & ND & HU).
    pose proof (resolve_deps_ok seen p (t_deps t) MAX_DEP_EXPANSION_LIMIT) as RD.
    unfold rbind at 1. destruct (resolve_deps seen p MAX_DEP_EXPANSION_LIMIT (t_deps t)) as [ds|e] eqn:ED.
    + assert (X : exists r0, Ok ds = Ok r0) by eauto. apply RD in X. destruct X as [HF HS].
      unfold rbind. destruct (check_headers_res hc (t_hdeps t)) as [CH|(e & CH)]; rewrite CH.
      * apply check_headers_ok in CH. split; [intros _; tauto | intros _; eauto].
      * split; [intros (? & ?); discriminate|]. intros (_ & _ & _ & _ & H). apply check_headers_ok in H. congruence.
    + split; [intros (? & ?); discriminate|]. intros (_ & _ & HF & HS & _). exfalso.
      assert (X : exists r0, (Err e : res (list outpoint * list outpoint)) = Ok r0) by (apply RD; tauto).
      destruct X. discriminate.
  - split; [intros (? & ?); discriminate|]. intros (ND & HU & _). exfalso.
    assert (X : (Err e : res (list outpoint)) = Ok (if is_cellbase t then [] else t_inputs t)) by (apply (RI _); tauto).
    discriminate.
Qed.

(* what a successful resolve returns: the inputs in order, and seen_inputs grows by exactly them *)
Theorem resolve_tx_result seen p hc t r seen' :
  resolve_transaction seen p hc t = Ok (r, seen') ->
  r_inputs r = spent t /\ seen' = spent t ++ seen.
Proof.
  unfold resolve_transaction, spent. unfold rbind at 1.
  destruct (is_cellbase t).
  - destruct (resolve_deps _ _ _ _); cbn [rbind]; [|discriminate].
    destruct (check_headers _ _); cbn [rbind]; [|discriminate]. intros [= <- <-]. split; reflexivity.
  - destruct (resolve_inputs seen p [] (t_inputs t)) as [ins|] eqn:E; [|discriminate].
    apply resolve_inputs_ok in E. destruct E as (-> & _).
    destruct (resolve_deps _ _ _ _); cbn [rbind]; [|discriminate].
    destruct (check_headers _ _); cbn [rbind]; [|discriminate]. intros [= <- <-]. split; reflexivity.
Qed.

(* ---- a list of transactions with an accumulating seen_inputs ------------------ *)
Fixpoint txs_ok (seen : list outpoint) (p : provider) (hc : N -> bool) (txs : list btx) : Prop :=
  match txs with
  | [] => True
  | t :: rest => tx_ok seen p hc (b_tx t) /\ txs_ok (spent (b_tx t) ++ seen) p hc rest
  end.

Lemma resolve_txs_iff p hc : forall txs seen,
  (exists rs, resolve_txs seen p hc txs = Ok rs) <-> txs_ok seen p hc txs.
Proof.
  induction txs as [|t rest IH]; intros seen; cbn [resolve_txs txs_ok].
  - split; [tauto | eauto].
  - unfold rbind at 1. destruct (resolve_transaction seen p hc (b_tx t)) as [[r seen']|e] eqn:RT.
    + pose proof (resolve_tx_result _ _ _ _ _ _ RT) as [_ ->].
      assert (TO : tx_ok seen p hc (b_tx t)) by (apply resolve_tx_iff; eauto).
      cbn [snd fst]. unfold rbind. specialize (IH (spent (b_tx t) ++ seen)).
      destruct (resolve_txs (spent (b_tx t) ++ seen) p hc rest) as [rs|e] eqn:RR.
      * split; [intros _; split; [exact TO | apply IH; eauto] | eauto].
      * split; [intros (? & ?); discriminate|]. intros (_ & H). apply IH in H. destruct H. discriminate.
    + split; [intros (? & ?); discriminate|]. intros (H & _). apply resolve_tx_iff in H. destruct H. congruence.
Qed.

Lemma NoDup_app_intro {A} (l1 l2 : list A) :
  NoDup l1 -> NoDup l2 -> (forall x, In x l1 -> In x l2 -> False) -> NoDup (l1 ++ l2).
Proof.
  induction l1 as [|a l1 IH]; cbn [app]; intros N1 N2 H; [exact N2|].
  inversion N1; subst. constructor.
  - intros Hin. apply in_app_or in Hin. destruct Hin as [Hin|Hin]; [contradiction|].
    apply (H a (or_introl eq_refl) Hin).
  - apply IH; [assumption | assumption |]. intros x Hx. apply H. right. exact Hx.
Qed.

(* all inputs spent by an accepted list are pairwise distinct and were not spent before *)
Lemma txs_ok_distinct p hc : forall txs seen,
  txs_ok seen p hc txs ->
  NoDup (flat_map (fun t => spent (b_tx t)) txs) /\
  (forall o, In o (flat_map (fun t => spent (b_tx t)) txs) -> ~ In o seen).
Proof.
  induction txs as [|t rest IH]; intros seen; cbn [txs_ok flat_map].
  - intros _. split; [constructor | intros ? []].
  - intros ((ND & HU & _) & Hrest). apply IH in Hrest. destruct Hrest as [NDr Hnr].
    split.
    + apply NoDup_app_intro; [exact ND | exact NDr |].
      intros o Ho Hor. apply (Hnr o Hor). apply in_or_app. left. exact Ho.
    + intros o Ho. apply in_app_or in Ho. destruct Ho as [Ho|Ho].
      * apply HU in Ho. destruct Ho. assumption.
      * intros Hs. apply (Hnr o Ho). apply in_or_app. right. exact Hs.
Qed.

(* ---- the block ----------------------------------------------------------------- *)
Definition refs (t : tx) : list outpoint := map fst (t_deps t) ++ t_inputs t.

(* no input and no direct cell dep refers to the transaction itself or a later one *)
Definition order_ok (b : block) : Prop :=
  forall i t o j, nth_error b i = Some t -> In o (refs (b_tx t)) -> tx_index b (fst o) = Some j -> (j < i)%nat.

Lemma first_out_of_order_none b idx os :
  first_out_of_order b idx os = None <-> forall o, In o os -> out_of_order b idx o = false.
Proof.
  induction os as [|o rest IH]; cbn [first_out_of_order].
  - split; [intros _ ? [] | reflexivity].
  - destruct (out_of_order b idx o) eqn:E.
    + split; [discriminate|]. intros H. rewrite (H o (or_introl eq_refl)) in E. discriminate.
    + rewrite IH. split.
      * intros H x [<-|Hx]; [exact E | apply H; exact Hx].
      * intros H x Hx. apply H. right. exact Hx.
Qed.

Lemma order_check_ok b : forall txs idx,
  order_check b idx txs = Ok tt <->
  (forall k t o, nth_error txs k = Some t -> In o (refs (b_tx t)) -> out_of_order b (idx + k) o = false).
Proof.
  induction txs as [|t rest IH]; intros idx; cbn [order_check].
  - split; [intros _ [|?] ? ? H; discriminate H | reflexivity].
  - destruct (first_out_of_order b idx (map fst (t_deps (b_tx t)))) as [o|] eqn:E1.
    { split; [discriminate|]. intros H. exfalso.
      assert (X : first_out_of_order b idx (map fst (t_deps (b_tx t))) = None).
      { apply first_out_of_order_none. intros x Hx. specialize (H O t x eq_refl). rewrite Nat.add_0_r in H.
        apply H. unfold refs. apply in_or_app. left. exact Hx. }
      congruence. }
    destruct (first_out_of_order b idx (t_inputs (b_tx t))) as [o|] eqn:E2.
    { split; [discriminate|]. intros H. exfalso.
      assert (X : first_out_of_order b idx (t_inputs (b_tx t)) = None).
      { apply first_out_of_order_none. intros x Hx. specialize (H O t x eq_refl). rewrite Nat.add_0_r in H.
        apply H. unfold refs. apply in_or_app. right. exact Hx. }
      congruence. }
    rewrite IH. rewrite first_out_of_order_none in E1, E2. split.
    + intros H [|k] t' o Hn Ho.
      * cbn in Hn. injection Hn as <-. rewrite Nat.add_0_r. unfold refs in Ho. apply in_app_or in Ho.
        destruct Ho; [apply E1 | apply E2]; assumption.
      * cbn in Hn. rewrite <- Nat.add_succ_comm. apply (H k t' o Hn Ho).
    + intros H k t' o Hn Ho. rewrite Nat.add_succ_comm. apply (H (S k) t' o Hn Ho).
Qed.

Lemma order_check_iff b : order_check b 0 b = Ok tt <-> order_ok b.
Proof.
  rewrite order_check_ok. unfold order_ok, out_of_order. split.
  - intros H i t o j Hn Ho Hj. specialize (H i t o Hn Ho). cbn [Nat.add] in H. rewrite Hj in H.
    apply Nat.leb_gt in H. exact H.
  - intros H k t o Hn Ho. cbn [Nat.add]. destruct (tx_index b (fst o)) as [j|] eqn:Hj; [|reflexivity].
    apply Nat.leb_gt. apply (H k t o j Hn Ho Hj).
Qed.
Lemma order_check_res b : order_check b 0 b = Ok tt \/ exists e, order_check b 0 b = Err e.
Proof. destruct (order_check b 0 b) as [[]|]; eauto. Qed.

(* resolve_block_transactions succeeds exactly when no transaction refers
   forward, and every transaction in turn is acceptable against the overlay of
   the block on the store with the inputs of the earlier transactions spent *)
Theorem resolve_block_iff_thm store hc b :
  (exists rs, resolve_block store hc b = Ok rs) <->
  order_ok b /\ txs_ok [] (overlay (block_cell b) store) hc b.
Proof.
  unfold resolve_block. unfold rbind at 1.
  destruct (order_check_res b) as [OC|(e & OC)]; rewrite OC.
  - rewrite resolve_txs_iff. apply order_check_iff in OC. tauto.
  - split; [intros (? & ?); discriminate|]. intros (H & _). apply order_check_iff in H. congruence.
Qed.

(* ... hence all inputs of the block are pairwise distinct ... *)
Theorem resolve_block_inputs_distinct store hc b rs :
  resolve_block store hc b = Ok rs -> NoDup (flat_map (fun t => spent (b_tx t)) b).
Proof.
  intros H. assert (X : exists rs, resolve_block store hc b = Ok rs) by eauto.
  apply resolve_block_iff_thm in X. destruct X as [_ X]. apply txs_ok_distinct in X. tauto.
Qed.

Lemma tx_index_from_bound b : forall i id j, tx_index_from b i id = Some j -> (i <= j < i + length b)%nat.
Proof.
  induction b as [|t rest IH]; intros i id j; cbn [tx_index_from length]; [discriminate|].
  destruct (tx_index_from rest (S i) id) eqn:E.
  - intros [= <-]. apply IH in E. lia.
  - destruct (b_id t =? id); [intros [= <-]; lia | discriminate].
Qed.

(* ... and a cell that an input or a direct cell dep of transaction i finds
   live is live in the store or an output of an EARLIER transaction of the block *)
Theorem overlay_live_earlier store b i t o d :
  order_ok b -> nth_error b i = Some t -> In o (refs (b_tx t)) ->
  overlay (block_cell b) store o = Live d ->
  (block_cell b o = Unknown /\ store o = Live d) \/
  (exists j tj, (j < i)%nat /\ nth_error b j = Some tj /\ tx_index b (fst o) = Some j /\
                nth_error (b_outs tj) (N.to_nat (snd o)) = Some d).
Proof.
  intros HO Hn Ho. unfold overlay. destruct (block_cell b o) as [d'| |] eqn:BC.
  - intros [= <-]. right. unfold block_cell in BC.
    destruct (tx_index b (fst o)) as [j|] eqn:TI; [|discriminate].
    destruct (nth_error b j) as [tj|] eqn:NJ; [|discriminate].
    destruct (nth_error (b_outs tj) (N.to_nat (snd o))) as [dd|] eqn:NO; [|discriminate].
    injection BC as <-. exists j, tj. split; [apply (HO i t o j Hn Ho TI)|]. tauto.
  - discriminate.
  - intros H. left. tauto.
Qed.

(* the finding: a member of a dep group is NOT covered by the order check.  A
   block [A; B] where A's dep group (a live store cell) lists an output of the
   LATER transaction B resolves, although A alone does not. *)
Definition ex_group : outpoint := (51, 0).
Definition ex_store : provider :=
  assoc_provider [((1, 0), Live DRaw); (ex_group, Live (DGroup [(101, 0)]))].
Definition ex_A : btx := mkBtx 100 (mkTx [(1, 0)] [(ex_group, true)] [] 0) [DRaw].
Definition ex_B : btx := mkBtx 101 (mkTx [null_outpoint] [] [] 1) [DRaw].

Theorem dep_group_member_later_refuted_thm :
  resolve_block ex_store (fun _ => true) [ex_A; ex_B]
    = Ok [mkRtx [(1, 0)] [(101, 0)] [ex_group]; mkRtx [] [] []] /\
  resolve_block ex_store (fun _ => true) [ex_A] = Err (EUnknown (101, 0)) /\
  tx_index [ex_A; ex_B] 101 = Some 1%nat.
Proof. vm_compute. repeat split; reflexivity. Qed.

(* non-vacuity: a block in which the second transaction spends an output of
   the first and a store cell *)
Definition ex_ok_block : block :=
  [mkBtx 100 (mkTx [null_outpoint] [] [] 1) [DRaw; DRaw];
   mkBtx 101 (mkTx [(100, 1); (1, 0)] [((100, 0), false)] [7] 0) [DRaw]].
Example ex_ok_block_resolves :
  order_ok ex_ok_block /\ txs_ok [] (overlay (block_cell ex_ok_block) ex_store) (fun _ => true) ex_ok_block /\
  resolve_block ex_store (fun _ => true) ex_ok_block
    = Ok [mkRtx [] [] []; mkRtx [(100, 1); (1, 0)] [(100, 0)] []].
Proof.
  assert (R : resolve_block ex_store (fun _ => true) ex_ok_block
              = Ok [mkRtx [] [] []; mkRtx [(100, 1); (1, 0)] [(100, 0)] []]) by (vm_compute; reflexivity).
  assert (X : exists rs, resolve_block ex_store (fun _ => true) ex_ok_block = Ok rs) by eauto.
  apply resolve_block_iff_thm in X. tauto.
Qed.
