(* Tx/RecheckProofs.v — ResolvedTransaction::check (Tx/Recheck.v) against a
   fresh resolve_transaction in the context in which the check runs. *)
From CKB Require Import Tx.Resolve Tx.ResolveProofs Tx.Recheck.
Local Open Scope N_scope.

(* an out point designates one cell for ever: where both contexts know the
   cell as live, its content is the same.  Dead / unknown may differ freely. *)
Definition immutable (pA pB : provider) : Prop :=
  forall o d d', pA o = Live d -> pB o = Live d' -> d = d'.

(* what the code relies on when SYSTEM_CELL is set: everything the map names is
   usable in the context at hand, and a cached group lists what the group
   cell's data says *)
Definition sys_ok (c : syscache) (seen : list outpoint) (p : provider) : Prop :=
  (forall o, sys_code c o = true -> usable seen p o) /\
  (forall g subs, sys_group c g = Some subs ->
     ~ In g seen /\ (exists d, p g = Live d /\ parse_group d = Some subs) /\ Forall (usable seen p) subs).

(* which out point an error may name, and why *)
Definition blamed (seen : list outpoint) (p : provider) (os : list outpoint) (e : rerr) : Prop :=
  match e with
  | EDead o => In o os /\ (In o seen \/ p o = Dead)
  | EUnknown o => In o os /\ ~ In o seen /\ p o = Unknown
  | _ => False
  end.

Lemma rbind_ok {A B} (r : res A) (f : A -> res B) b :
  rbind r f = Ok b -> exists a, r = Ok a /\ f a = Ok b.
Proof. destruct r; cbn [rbind]; [eauto | discriminate]. Qed.
Lemma rbind_err {A B} (r : res A) (f : A -> res B) e :
  rbind r f = Err e -> r = Err e \/ exists a, r = Ok a /\ f a = Err e.
Proof. destruct r; cbn [rbind]; [eauto | intros [= <-]; left; reflexivity]. Qed.

Ltac inv_bind H :=
  let a := fresh "a" in let E := fresh "E" in
  apply rbind_ok in H; destruct H as (a & E & H).

Lemma blamed_incl seen p os os' e : blamed seen p os e -> incl os os' -> blamed seen p os' e.
Proof.
  destruct e; cbn [blamed]; try tauto.
  - intros [H1 H2] I. split; [apply I; exact H1 | exact H2].
  - intros [H1 H2] I. split; [apply I; exact H1 | exact H2].
Qed.

(* ---- check_cell and its memo ---------------------------------------------------- *)
(* the memo only ever holds cells the provider reports live *)
Definition memo_ok (p : provider) (memo : list outpoint) : Prop :=
  Forall (fun o => exists d, p o = Live d) memo.

Lemma check_cell_ok seen p memo o m :
  memo_ok p memo -> check_cell seen p memo o = Ok m -> usable seen p o /\ memo_ok p m.
Proof.
  intros MO. unfold check_cell. destruct (op_mem o seen) eqn:S; [discriminate|].
  apply op_mem_false in S. destruct (op_mem o memo) eqn:M.
  - intros [= <-]. apply op_mem_In in M. split; [|exact MO].
    split; [exact S|]. unfold memo_ok in MO. rewrite Forall_forall in MO. apply MO. exact M.
  - destruct (p o) as [d| |] eqn:P; try discriminate. intros [= <-]. split.
    + split; [exact S | eauto].
    + constructor; [eauto | exact MO].
Qed.
Lemma check_cell_usable seen p memo o : usable seen p o -> exists m, check_cell seen p memo o = Ok m.
Proof.
  intros [S (d & P)]. unfold check_cell. apply op_mem_false in S. rewrite S.
  destruct (op_mem o memo); [eauto|]. rewrite P. eauto.
Qed.
Lemma check_cell_err seen p memo o e : check_cell seen p memo o = Err e -> blamed seen p [o] e.
Proof.
  unfold check_cell. destruct (op_mem o seen) eqn:S.
  - intros [= <-]. apply op_mem_In in S. cbn [blamed]. split; [left; reflexivity | left; exact S].
  - apply op_mem_false in S. destruct (op_mem o memo); [discriminate|].
    destruct (p o) eqn:P; [discriminate | |]; intros [= <-]; cbn [blamed].
    + split; [left; reflexivity | right; exact P].
    + split; [left; reflexivity | split; [exact S | exact P]].
Qed.
(* the memo is irrelevant: whatever it holds (of live cells), the verdict on a
   cell is that of the un-memoised closure *)
Lemma check_cell_memo_irrelevant seen p memo o :
  memo_ok p memo ->
  match check_cell seen p memo o, check_cell seen p [] o with
  | Ok _, Ok _ => True
  | Err e, Err e' => e = e'
  | _, _ => False
  end.
Proof.
  intros MO. unfold check_cell. destruct (op_mem o seen); [reflexivity|].
  cbn [op_mem existsb]. destruct (op_mem o memo) eqn:M.
  - apply op_mem_In in M. unfold memo_ok in MO. rewrite Forall_forall in MO.
    destruct (MO o M) as (d & ->). exact I.
  - destruct (p o); [exact I | reflexivity | reflexivity].
Qed.

Lemma check_list_ok seen p : forall os memo m,
  memo_ok p memo -> check_list seen p memo os = Ok m -> Forall (usable seen p) os /\ memo_ok p m.
Proof.
  induction os as [|o rest IH]; intros memo m MO; cbn [check_list].
  - intros [= <-]. split; [constructor | exact MO].
  - intros H. inv_bind H. destruct (check_cell_ok _ _ _ _ _ MO E) as [U MO'].
    destruct (IH _ _ MO' H) as [F MO'']. split; [constructor; assumption | exact MO''].
Qed.
Lemma check_list_usable seen p : forall os memo,
  Forall (usable seen p) os -> exists m, check_list seen p memo os = Ok m.
Proof.
  induction os as [|o rest IH]; intros memo F; cbn [check_list]; [eauto|].
  inversion F as [|? ? U F']; subst. destruct (check_cell_usable seen p memo o U) as (m & ->).
  cbn [rbind]. apply IH. exact F'.
Qed.
Lemma check_list_err seen p : forall os memo e, check_list seen p memo os = Err e -> blamed seen p os e.
Proof.
  induction os as [|o rest IH]; intros memo e; cbn [check_list]; [discriminate|].
  intros H. apply rbind_err in H. destruct H as [H|(m & _ & H)].
  - apply check_cell_err in H. apply (blamed_incl _ _ _ _ _ H). intros x [<-|[]]. left. reflexivity.
  - apply IH in H. apply (blamed_incl _ _ _ _ _ H). intros x Hx. right. exact Hx.
Qed.

(* ---- the two loops of the SYSTEM_CELL branch ---------------------------------- *)
(* resolved_system_deps only ever holds members of cached groups *)
Definition sd_ok (c : syscache) (sd : list outpoint) : Prop :=
  forall o, In o sd -> exists g subs, sys_group c g = Some subs /\ In o subs.

Lemma check_groups_sys_ok c seen p : sys_ok c seen p -> forall gs memo sd m sd',
  memo_ok p memo -> sd_ok c sd -> check_groups_sys c seen p memo sd gs = Ok (m, sd') ->
  Forall (usable seen p) gs /\ memo_ok p m /\ sd_ok c sd'.
Proof.
  intros [_ SG]. induction gs as [|g rest IH]; intros memo sd m sd' MO SD; cbn [check_groups_sys].
  - intros [= <- <-]. split; [constructor | split; assumption].
  - destruct (sys_group c g) as [subs|] eqn:G.
    + intros H. destruct (SG g subs G) as (NS & (d & P & _) & _).
      assert (SD' : sd_ok c (subs ++ sd)).
      { intros o Ho. apply in_app_or in Ho. destruct Ho as [Ho|Ho]; [exists g, subs; tauto | apply SD; exact Ho]. }
      destruct (IH _ _ _ _ MO SD' H) as (F & MO' & SD'').
      split; [constructor; [split; [exact NS | eauto] | exact F] | split; assumption].
    + intros H. inv_bind H. destruct (check_cell_ok _ _ _ _ _ MO E) as [U MO'].
      destruct (IH _ _ _ _ MO' SD H) as (F & MO'' & SD'').
      split; [constructor; assumption | split; assumption].
Qed.
Lemma check_groups_sys_usable c seen p : forall gs memo sd,
  Forall (usable seen p) gs -> exists ms, check_groups_sys c seen p memo sd gs = Ok ms.
Proof.
  induction gs as [|g rest IH]; intros memo sd F; cbn [check_groups_sys]; [eauto|].
  inversion F as [|? ? U F']; subst. destruct (sys_group c g); [apply IH; exact F'|].
  destruct (check_cell_usable seen p memo g U) as (m & ->). cbn [rbind]. apply IH. exact F'.
Qed.
Lemma check_groups_sys_err c seen p : forall gs memo sd e,
  check_groups_sys c seen p memo sd gs = Err e -> blamed seen p gs e.
Proof.
  induction gs as [|g rest IH]; intros memo sd e; cbn [check_groups_sys]; [discriminate|].
  assert (T : forall e0, blamed seen p rest e0 -> blamed seen p (g :: rest) e0).
  { intros e0 B. apply (blamed_incl _ _ _ _ _ B). intros x Hx. right. exact Hx. }
  destruct (sys_group c g).
  - intros H. apply T. apply IH in H. exact H.
  - intros H. apply rbind_err in H. destruct H as [H|(m & _ & H)].
    + apply check_cell_err in H. apply (blamed_incl _ _ _ _ _ H). intros x [<-|[]]. left. reflexivity.
    + apply T. apply IH in H. exact H.
Qed.

Lemma check_deps_sys_ok c seen p : sys_ok c seen p -> forall os memo sd m,
  memo_ok p memo -> sd_ok c sd -> check_deps_sys c seen p memo sd os = Ok m ->
  Forall (usable seen p) os /\ memo_ok p m.
Proof.
  intros [SC SG]. induction os as [|o rest IH]; intros memo sd m MO SD; cbn [check_deps_sys].
  - intros [= <-]. split; [constructor | exact MO].
  - destruct (sys_code c o || op_mem o sd) eqn:K.
    + intros H. destruct (IH _ _ _ MO SD H) as [F MO']. split; [|exact MO'].
      constructor; [|exact F]. apply orb_true_iff in K. destruct K as [K|K].
      * apply SC. exact K.
      * apply op_mem_In in K. destruct (SD o K) as (g & subs & G & Ho).
        destruct (SG g subs G) as (_ & _ & FU). rewrite Forall_forall in FU. apply FU. exact Ho.
    + intros H. inv_bind H. destruct (check_cell_ok _ _ _ _ _ MO E) as [U MO'].
      destruct (IH _ _ _ MO' SD H) as [F MO'']. split; [constructor; assumption | exact MO''].
Qed.
Lemma check_deps_sys_usable c seen p : forall os memo sd,
  Forall (usable seen p) os -> exists m, check_deps_sys c seen p memo sd os = Ok m.
Proof.
  induction os as [|o rest IH]; intros memo sd F; cbn [check_deps_sys]; [eauto|].
  inversion F as [|? ? U F']; subst. destruct (sys_code c o || op_mem o sd); [apply IH; exact F'|].
  destruct (check_cell_usable seen p memo o U) as (m & ->). cbn [rbind]. apply IH. exact F'.
Qed.
Lemma check_deps_sys_err c seen p : forall os memo sd e,
  check_deps_sys c seen p memo sd os = Err e -> blamed seen p os e.
Proof.
  induction os as [|o rest IH]; intros memo sd e; cbn [check_deps_sys]; [discriminate|].
  assert (T : forall e0, blamed seen p rest e0 -> blamed seen p (o :: rest) e0).
  { intros e0 B. apply (blamed_incl _ _ _ _ _ B). intros x Hx. right. exact Hx. }
  destruct (sys_code c o || op_mem o sd).
  - intros H. apply T. apply IH in H. exact H.
  - intros H. apply rbind_err in H. destruct H as [H|(m & _ & H)].
    + apply check_cell_err in H. apply (blamed_incl _ _ _ _ _ H). intros x [<-|[]]. left. reflexivity.
    + apply T. apply IH in H. exact H.
Qed.

(* ---- what a successful check means ------------------------------------------- *)
Definition recheck_cond (seen : list outpoint) (p : provider) (hc : N -> bool) (t : tx) (r : rtx) (s : list outpoint) : Prop :=
  Forall (usable seen p) (r_inputs r) /\ Forall (usable seen p) (r_deps r) /\
  Forall (usable seen p) (r_groups r) /\ check_headers hc (t_hdeps t) = Ok tt /\ s = r_inputs r ++ seen.

Lemma memo_ok_nil p : memo_ok p [].
Proof. constructor. Qed.
Lemma sd_ok_nil c : sd_ok c [].
Proof. intros ? []. Qed.

Lemma recheck_none_iff seen p hc t r s :
  recheck None seen p hc t r = Ok s <-> recheck_cond seen p hc t r s.
Proof.
  unfold recheck, recheck_cond. split.
  - intros H. inv_bind H. destruct (check_list_ok _ _ _ _ _ (memo_ok_nil p) E) as [F1 MO].
    inv_bind H. destruct (check_list_ok _ _ _ _ _ MO E0) as [F2 _]. apply Forall_app in F2.
    inv_bind H. destruct a1. injection H as <-. tauto.
  - intros (F1 & F2 & F3 & CH & ->).
    destruct (check_list_usable seen p (r_inputs r) [] F1) as (m & ->). cbn [rbind].
    assert (F : Forall (usable seen p) (r_deps r ++ r_groups r)) by (apply Forall_app; tauto).
    destruct (check_list_usable seen p _ m F) as (m' & ->). cbn [rbind].
    rewrite CH. reflexivity.
Qed.

Lemma recheck_sys_iff c seen p hc t r s : sys_ok c seen p ->
  (recheck (Some c) seen p hc t r = Ok s <-> recheck_cond seen p hc t r s).
Proof.
  intros SO. unfold recheck, recheck_cond. split.
  - intros H. inv_bind H. destruct (check_list_ok _ _ _ _ _ (memo_ok_nil p) E) as [F1 MO].
    inv_bind H. inv_bind E0. destruct a1 as [m1 sd1].
    destruct (check_groups_sys_ok _ _ _ SO _ _ _ _ _ MO (sd_ok_nil c) E1) as (F3 & MO1 & SD1).
    cbn [fst snd] in E0. destruct (check_deps_sys_ok _ _ _ SO _ _ _ _ MO1 SD1 E0) as [F2 _].
    inv_bind H. destruct a1. injection H as <-. tauto.
  - intros (F1 & F2 & F3 & CH & ->).
    destruct (check_list_usable seen p (r_inputs r) [] F1) as (m & ->). cbn [rbind].
    destruct (check_groups_sys_usable c seen p (r_groups r) m [] F3) as (ms & ->). cbn [rbind].
    destruct (check_deps_sys_usable c seen p (r_deps r) (fst ms) (snd ms) F2) as (m' & ->). cbn [rbind].
    rewrite CH. reflexivity.
Qed.

(* error blame, whatever the cache holds (no hypothesis) *)
Definition recheck_blame (seen : list outpoint) (p : provider) (hc : N -> bool) (t : tx) (r : rtx) (e : rerr) : Prop :=
  match e with
  | EDead o => In o (r_inputs r ++ r_deps r ++ r_groups r) /\ (In o seen \/ p o = Dead)
  | EUnknown o => In o (r_inputs r ++ r_deps r ++ r_groups r) /\ ~ In o seen /\ p o = Unknown
  | EInvalidHeader h => In h (t_hdeps t) /\ hc h = false
  | _ => False
  end.

Lemma blamed_recheck_blame seen p hc t r os e :
  blamed seen p os e -> incl os (r_inputs r ++ r_deps r ++ r_groups r) -> recheck_blame seen p hc t r e.
Proof.
  intros B I. apply (blamed_incl _ _ _ _ _ B) in I. destruct e; cbn [blamed recheck_blame] in *; tauto.
Qed.

Lemma check_headers_err hc : forall hs e, check_headers hc hs = Err e ->
  exists h, e = EInvalidHeader h /\ In h hs /\ hc h = false.
Proof.
  induction hs as [|h rest IH]; intros e; cbn [check_headers]; [discriminate|].
  destruct (hc h) eqn:E.
  - intros H. destruct (IH _ H) as (h' & -> & Hin & F). exists h'. split; [reflexivity|]. split; [right; exact Hin | exact F].
  - intros [= <-]. exists h. split; [reflexivity|]. split; [left; reflexivity | exact E].
Qed.

Theorem recheck_blame_thm sys seen p hc t r e :
  recheck sys seen p hc t r = Err e -> recheck_blame seen p hc t r e.
Proof.
  unfold recheck. intros H. apply rbind_err in H. destruct H as [H|(m & _ & H)].
  { apply check_list_err in H. apply (blamed_recheck_blame _ _ _ _ _ _ _ H).
    intros x Hx. apply in_or_app. left. exact Hx. }
  apply rbind_err in H. destruct H as [H|(u & _ & H)].
  { destruct sys as [c|].
    - apply rbind_err in H. destruct H as [H|(ms & _ & H)].
      + apply check_groups_sys_err in H. apply (blamed_recheck_blame _ _ _ _ _ _ _ H).
        intros x Hx. apply in_or_app. right. apply in_or_app. right. exact Hx.
      + apply check_deps_sys_err in H. apply (blamed_recheck_blame _ _ _ _ _ _ _ H).
        intros x Hx. apply in_or_app. right. apply in_or_app. left. exact Hx.
    - apply check_list_err in H. apply (blamed_recheck_blame _ _ _ _ _ _ _ H).
      intros x Hx. apply in_or_app. right. exact Hx. }
  apply rbind_err in H. destruct H as [H|(u' & _ & H)]; [|discriminate].
  apply check_headers_err in H. destruct H as (h & -> & Hin & F). cbn [recheck_blame]. tauto.
Qed.

(* ---- the dep loop in two contexts ---------------------------------------------- *)
Lemma resolve_deps_sys_usable c seen p : sys_ok c seen p -> forall deps slots ds,
  resolve_deps_sys c seen p slots deps = Ok ds ->
  Forall (usable seen p) (fst ds) /\ Forall (usable seen p) (snd ds).
Proof.
  intros [SC SG]. induction deps as [|[o g] rest IH]; intros slots ds; cbn [resolve_deps_sys].
  - intros [= <-]. split; constructor.
  - destruct g.
    + destruct (sys_group c o) as [subs|] eqn:G.
      * intros H. destruct (slots <? N.of_nat (length subs)); [discriminate|].
        inv_bind H. injection H as <-. cbn [fst snd]. destruct (IH _ _ E) as [F1 F2].
        destruct (SG o subs G) as (NS & (d & P & _) & FU).
        split; [apply Forall_app; split; assumption | constructor; [split; [exact NS | eauto] | exact F2]].
      * intros H. inv_bind H. destruct (parse_group a) as [subs|] eqn:PG; [|discriminate].
        destruct (slots <? N.of_nat (length subs)); [discriminate|].
        inv_bind H. inv_bind H. injection H as <-. cbn [fst snd]. destruct (IH _ _ E1) as [F1 F2].
        destruct a0. apply resolve_cells_ok in E0.
        split; [apply Forall_app; split; assumption | constructor; [apply resolve_cell_usable; eauto | exact F2]].
    + destruct (sys_code c o) eqn:K.
      * intros H. destruct (slots <? 1); [discriminate|].
        inv_bind H. injection H as <-. cbn [fst snd]. destruct (IH _ _ E) as [F1 F2].
        split; [constructor; [apply SC; exact K | exact F1] | exact F2].
      * intros H. destruct (slots <? 1); [discriminate|].
        inv_bind H. inv_bind H. injection H as <-. cbn [fst snd]. destruct (IH _ _ E0) as [F1 F2].
        split; [constructor; [apply resolve_cell_usable; eauto | exact F1] | exact F2].
Qed.

Section TwoContexts.
Variables (c : syscache) (seenA seenB : list outpoint) (pA pB : provider).
Hypothesis IMM : immutable pA pB.

Lemma resolve_cell_same o dA dB :
  resolve_cell seenA pA o = Ok dA -> resolve_cell seenB pB o = Ok dB -> dA = dB.
Proof.
  intros HA HB. apply resolve_cell_ok in HA. apply resolve_cell_ok in HB.
  destruct HA as [_ HA]. destruct HB as [_ HB]. exact (IMM o dA dB HA HB).
Qed.
Lemma resolve_cell_again o dA :
  resolve_cell seenA pA o = Ok dA -> usable seenB pB o -> resolve_cell seenB pB o = Ok dA.
Proof.
  intros HA [NS (dB & PB)]. apply resolve_cell_ok in HA. destruct HA as [_ HA].
  rewrite (IMM o dA dB HA PB). apply resolve_cell_ok. split; assumption.
Qed.

(* both succeed: the same expansion *)
Lemma resolve_deps_sys_same : forall deps slots dsA dsB,
  resolve_deps_sys c seenA pA slots deps = Ok dsA ->
  resolve_deps_sys c seenB pB slots deps = Ok dsB -> dsA = dsB.
Proof.
  induction deps as [|[o g] rest IH]; intros slots dsA dsB; cbn [resolve_deps_sys].
  - intros [= <-] [= <-]. reflexivity.
  - destruct g.
    + destruct (sys_group c o) as [subs|].
      * destruct (slots <? N.of_nat (length subs)); [discriminate|].
        intros HA HB. inv_bind HA. inv_bind HB. injection HA as <-. injection HB as <-.
        rewrite (IH _ _ _ E E0). reflexivity.
      * intros HA HB. inv_bind HA. inv_bind HB. rewrite <- (resolve_cell_same _ _ _ E E0) in HB.
        destruct (parse_group a) as [subs|]; [|discriminate].
        destruct (slots <? N.of_nat (length subs)); [discriminate|].
        inv_bind HA. inv_bind HA. inv_bind HB. inv_bind HB. injection HA as <-. injection HB as <-.
        rewrite (IH _ _ _ E2 E4). reflexivity.
    + destruct (sys_code c o).
      * destruct (slots <? 1); [discriminate|].
        intros HA HB. inv_bind HA. inv_bind HB. injection HA as <-. injection HB as <-.
        rewrite (IH _ _ _ E E0). reflexivity.
      * destruct (slots <? 1); [discriminate|].
        intros HA HB. inv_bind HA. inv_bind HA. inv_bind HB. inv_bind HB. injection HA as <-. injection HB as <-.
        rewrite (IH _ _ _ E0 E2). reflexivity.
Qed.

(* resolved in A, and everything it expanded to is usable in B: resolves in B, to the same *)
Lemma resolve_deps_sys_again : forall deps slots ds,
  resolve_deps_sys c seenA pA slots deps = Ok ds ->
  Forall (usable seenB pB) (fst ds) -> Forall (usable seenB pB) (snd ds) ->
  resolve_deps_sys c seenB pB slots deps = Ok ds.
Proof.
  induction deps as [|[o g] rest IH]; intros slots ds; cbn [resolve_deps_sys].
  - intros [= <-] _ _. reflexivity.
  - destruct g.
    + destruct (sys_group c o) as [subs|].
      * destruct (slots <? N.of_nat (length subs)); [discriminate|].
        intros HA. inv_bind HA. injection HA as <-. cbn [fst snd]. intros F1 F2.
        apply Forall_app in F1. destruct F1 as [_ F1]. inversion F2 as [|? ? _ F2']; subst.
        rewrite (IH _ _ E F1 F2'). reflexivity.
      * intros HA. inv_bind HA. destruct (parse_group a) as [subs|] eqn:PG; [|discriminate].
        destruct (slots <? N.of_nat (length subs)) eqn:SL; [discriminate|].
        inv_bind HA. inv_bind HA. injection HA as <-. cbn [fst snd]. intros F1 F2.
        apply Forall_app in F1. destruct F1 as [FS F1]. inversion F2 as [|? ? U F2']; subst.
        rewrite (resolve_cell_again _ _ E U). cbn [rbind]. rewrite PG, SL.
        apply resolve_cells_ok in FS. rewrite FS. cbn [rbind].
        rewrite (IH _ _ E1 F1 F2'). reflexivity.
    + destruct (sys_code c o).
      * destruct (slots <? 1); [discriminate|].
        intros HA. inv_bind HA. injection HA as <-. cbn [fst snd]. intros F1 F2.
        inversion F1 as [|? ? _ F1']; subst. rewrite (IH _ _ E F1' F2). reflexivity.
      * destruct (slots <? 1); [discriminate|].
        intros HA. inv_bind HA. inv_bind HA. injection HA as <-. cbn [fst snd]. intros F1 F2.
        inversion F1 as [|? ? U F1']; subst.
        rewrite (resolve_cell_again _ _ E U). cbn [rbind]. rewrite (IH _ _ E0 F1' F2). reflexivity.
Qed.
End TwoContexts.

(* the cache is transparent where everything it names is usable *)
Lemma resolve_deps_sys_transparent c seen p : sys_ok c seen p -> forall deps slots,
  resolve_deps_sys c seen p slots deps = resolve_deps seen p slots deps.
Proof.
  intros [SC SG]. induction deps as [|[o g] rest IH]; intros slots; cbn [resolve_deps_sys resolve_deps]; [reflexivity|].
  destruct g.
  - destruct (sys_group c o) as [subs|] eqn:G.
    + destruct (SG o subs G) as (NS & (d & P & PG) & FU).
      assert (RC : resolve_cell seen p o = Ok d) by (apply resolve_cell_ok; tauto).
      rewrite RC. cbn [rbind]. rewrite PG. apply resolve_cells_ok in FU. rewrite FU. cbn [rbind].
      rewrite IH. reflexivity.
    + destruct (resolve_cell seen p o); cbn [rbind]; [|reflexivity].
      destruct (parse_group a); [|reflexivity].
      destruct (slots <? N.of_nat (length l)); [reflexivity|].
      destruct (resolve_cells seen p l); cbn [rbind]; [|reflexivity]. rewrite IH. reflexivity.
  - destruct (sys_code c o) eqn:K.
    + destruct (slots <? 1); [reflexivity|].
      assert (U : usable seen p o) by (apply SC; exact K).
      apply resolve_cell_usable in U. destruct U as (d & ->). cbn [rbind]. rewrite IH. reflexivity.
    + destruct (slots <? 1); [reflexivity|].
      destruct (resolve_cell seen p o); cbn [rbind]; [|reflexivity]. rewrite IH. reflexivity.
Qed.

Theorem resolve_transaction_sys_transparent c seen p hc t : sys_ok c seen p ->
  resolve_transaction_sys c seen p hc t = resolve_transaction seen p hc t.
Proof.
  intros SO. unfold resolve_transaction_sys, resolve_transaction.
  rewrite (resolve_deps_sys_transparent c seen p SO). reflexivity.
Qed.

Lemma sys_ok_empty seen p : sys_ok sys_empty seen p.
Proof. split; [intros o H; discriminate H | intros g subs H; discriminate H]. Qed.

(* ---- one transaction ------------------------------------------------------------ *)
Definition inputs_part (seen : list outpoint) (p : provider) (t : tx) : res (list outpoint) :=
  if is_cellbase t then Ok [] else resolve_inputs seen p [] (t_inputs t).

Lemma inputs_part_ok seen p t ins :
  inputs_part seen p t = Ok ins <-> ins = spent t /\ NoDup (spent t) /\ Forall (usable seen p) (spent t).
Proof.
  unfold inputs_part, spent. destruct (is_cellbase t).
  - split; [intros [= <-]; split; [reflexivity | split; constructor] | intros (-> & _); reflexivity].
  - rewrite resolve_inputs_ok. rewrite Forall_forall. split.
    + intros (-> & ND & H). split; [reflexivity|]. split; [exact ND|]. intros o Ho. apply H. exact Ho.
    + intros (-> & ND & H). split; [reflexivity|]. split; [exact ND|]. intros o Ho. split; [intros [] | apply H; exact Ho].
Qed.

Lemma resolve_transaction_sys_inv c seen p hc t r s :
  resolve_transaction_sys c seen p hc t = Ok (r, s) ->
  inputs_part seen p t = Ok (r_inputs r) /\
  resolve_deps_sys c seen p MAX_DEP_EXPANSION_LIMIT (t_deps t) = Ok (r_deps r, r_groups r) /\
  check_headers hc (t_hdeps t) = Ok tt /\ s = r_inputs r ++ seen.
Proof.
  unfold resolve_transaction_sys. fold (inputs_part seen p t). intros H.
  inv_bind H. inv_bind H. inv_bind H. destruct a1. destruct a0 as [ds gs]. injection H as <- <-.
  cbn [r_inputs r_deps r_groups fst snd]. tauto.
Qed.
Lemma resolve_transaction_sys_intro c seen p hc t r :
  inputs_part seen p t = Ok (r_inputs r) ->
  resolve_deps_sys c seen p MAX_DEP_EXPANSION_LIMIT (t_deps t) = Ok (r_deps r, r_groups r) ->
  check_headers hc (t_hdeps t) = Ok tt ->
  resolve_transaction_sys c seen p hc t = Ok (r, r_inputs r ++ seen).
Proof.
  unfold resolve_transaction_sys. fold (inputs_part seen p t). intros -> -> ->.
  cbn [rbind fst snd]. destruct r. reflexivity.
Qed.

(* the heart: resolved (with the cache c) in A; in B, with cell contents
   immutable and what the cache names usable, "check's condition holds" is
   "a fresh cached resolution succeeds, with the same result" *)
Lemma recheck_cond_iff_fresh c seenA pA hcA seenB pB hcB t r sA :
  resolve_transaction_sys c seenA pA hcA t = Ok (r, sA) -> immutable pA pB -> sys_ok c seenB pB ->
  forall s, recheck_cond seenB pB hcB t r s <-> resolve_transaction_sys c seenB pB hcB t = Ok (r, s).
Proof.
  intros RA IMM SO s. apply resolve_transaction_sys_inv in RA. destruct RA as (IA & DA & _ & _).
  apply inputs_part_ok in IA. destruct IA as (RI & ND & _). unfold recheck_cond. split.
  - intros (F1 & F2 & F3 & CH & ->). apply resolve_transaction_sys_intro.
    + apply inputs_part_ok. rewrite RI in F1. split; [exact RI | split; assumption].
    + apply (resolve_deps_sys_again c seenA seenB pA pB IMM _ _ _ DA); assumption.
    + exact CH.
  - intros RB. apply resolve_transaction_sys_inv in RB. destruct RB as (IB & DB & CH & ->).
    apply inputs_part_ok in IB. destruct IB as (_ & _ & FI). rewrite <- RI in FI.
    destruct (resolve_deps_sys_usable c seenB pB SO _ _ _ DB) as [F2 F3]. cbn [fst snd] in F2, F3. tauto.
Qed.

Lemma fresh_same_rtx c seenA pA hcA seenB pB hcB t r sA r' s' :
  resolve_transaction_sys c seenA pA hcA t = Ok (r, sA) -> immutable pA pB ->
  resolve_transaction_sys c seenB pB hcB t = Ok (r', s') -> r' = r.
Proof.
  intros RA IMM RB. apply resolve_transaction_sys_inv in RA. destruct RA as (IA & DA & _ & _).
  apply resolve_transaction_sys_inv in RB. destruct RB as (IB & DB & _ & _).
  apply inputs_part_ok in IA. apply inputs_part_ok in IB. destruct IA as (IA & _). destruct IB as (IB & _).
  pose proof (resolve_deps_sys_same c seenA seenB pA pB IMM _ _ _ _ DA DB) as E. injection E as E1 E2.
  destruct r as [i1 d1 g1], r' as [i2 d2 g2]. cbn [r_inputs r_deps r_groups] in *. congruence.
Qed.

(* (b) SYSTEM_CELL set *)
Theorem recheck_agrees_cached_thm c seenA pA hcA seenB pB hcB t r sA :
  resolve_transaction_sys c seenA pA hcA t = Ok (r, sA) -> immutable pA pB -> sys_ok c seenB pB ->
  (forall s, recheck (Some c) seenB pB hcB t r = Ok s <-> resolve_transaction_sys c seenB pB hcB t = Ok (r, s)) /\
  (forall s, recheck (Some c) seenB pB hcB t r = Ok s <-> resolve_transaction seenB pB hcB t = Ok (r, s)) /\
  (forall r' s', resolve_transaction seenB pB hcB t = Ok (r', s') -> r' = r).
Proof.
  intros RA IMM SO.
  assert (X : forall s, recheck (Some c) seenB pB hcB t r = Ok s <-> resolve_transaction_sys c seenB pB hcB t = Ok (r, s)).
  { intros s. rewrite (recheck_sys_iff c seenB pB hcB t r s SO).
    apply (recheck_cond_iff_fresh c seenA pA hcA seenB pB hcB t r sA RA IMM SO). }
  split; [exact X|]. rewrite <- (resolve_transaction_sys_transparent c seenB pB hcB t SO).
  split; [exact X|]. intros r' s'. apply (fresh_same_rtx c seenA pA hcA seenB pB hcB t r sA r' s' RA IMM).
Qed.

(* (a) SYSTEM_CELL unset *)
Theorem recheck_agrees_uncached_thm seenA pA hcA seenB pB hcB t r sA :
  resolve_transaction seenA pA hcA t = Ok (r, sA) -> immutable pA pB ->
  (forall s, recheck None seenB pB hcB t r = Ok s <-> resolve_transaction seenB pB hcB t = Ok (r, s)) /\
  (forall r' s', resolve_transaction seenB pB hcB t = Ok (r', s') -> r' = r).
Proof.
  intros RA IMM.
  rewrite <- (resolve_transaction_sys_transparent sys_empty seenA pA hcA t (sys_ok_empty seenA pA)) in RA.
  rewrite <- (resolve_transaction_sys_transparent sys_empty seenB pB hcB t (sys_ok_empty seenB pB)).
  split.
  - intros s. rewrite recheck_none_iff.
    apply (recheck_cond_iff_fresh sys_empty seenA pA hcA seenB pB hcB t r sA RA IMM (sys_ok_empty seenB pB)).
  - intros r' s'. apply (fresh_same_rtx sys_empty seenA pA hcA seenB pB hcB t r sA r' s' RA IMM).
Qed.

(* the reading "succeeds iff a fresh resolution succeeds, and then with the same
   resolved transaction and the same new seen_inputs" *)
Lemma agree_reading (chk : res (list outpoint)) (fresh : res (rtx * list outpoint)) r :
  (forall s, chk = Ok s <-> fresh = Ok (r, s)) ->
  (forall r' s', fresh = Ok (r', s') -> r' = r) ->
  ((exists s, chk = Ok s) <-> (exists x, fresh = Ok x)) /\
  (forall s r' s', chk = Ok s -> fresh = Ok (r', s') -> r' = r /\ s' = s).
Proof.
  intros H U. split; [split|].
  - intros (s & E). apply H in E. eauto.
  - intros ([r' s'] & E). pose proof (U _ _ E) as ->. apply H in E. eauto.
  - intros s r' s' E F. apply H in E. rewrite E in F. injection F as <- <-. split; reflexivity.
Qed.

Theorem recheck_uncached_verdict seenA pA hcA seenB pB hcB t r sA :
  resolve_transaction seenA pA hcA t = Ok (r, sA) -> immutable pA pB ->
  ((exists s, recheck None seenB pB hcB t r = Ok s) <-> (exists x, resolve_transaction seenB pB hcB t = Ok x)) /\
  (forall s r' s', recheck None seenB pB hcB t r = Ok s -> resolve_transaction seenB pB hcB t = Ok (r', s') ->
                   r' = r /\ s' = s).
Proof.
  intros RA IMM. destruct (recheck_agrees_uncached_thm _ _ _ seenB pB hcB _ _ _ RA IMM) as [H U].
  apply agree_reading; assumption.
Qed.

Theorem recheck_cached_verdict c seenA pA hcA seenB pB hcB t r sA :
  resolve_transaction_sys c seenA pA hcA t = Ok (r, sA) -> immutable pA pB -> sys_ok c seenB pB ->
  ((exists s, recheck (Some c) seenB pB hcB t r = Ok s) <-> (exists x, resolve_transaction seenB pB hcB t = Ok x)) /\
  (forall s r' s', recheck (Some c) seenB pB hcB t r = Ok s -> resolve_transaction seenB pB hcB t = Ok (r', s') ->
                   r' = r /\ s' = s) /\
  resolve_transaction_sys c seenB pB hcB t = resolve_transaction seenB pB hcB t.
Proof.
  intros RA IMM SO. destruct (recheck_agrees_cached_thm _ _ _ _ seenB pB hcB _ _ _ RA IMM SO) as (_ & H & U).
  destruct (agree_reading _ _ _ H U) as [X Y]. split; [exact X|]. split; [exact Y|].
  apply resolve_transaction_sys_transparent. exact SO.
Qed.

(* the memo never matters: a check that starts from any memo of live cells
   accepts the same lists *)
Theorem check_list_memo_irrelevant seen p os memo :
  memo_ok p memo ->
  ((exists m, check_list seen p memo os = Ok m) <-> (exists m, check_list seen p [] os = Ok m)).
Proof.
  intros MO. split; intros (m & H).
  - apply check_list_ok in H; [|exact MO]. apply check_list_usable. tauto.
  - apply check_list_ok in H; [|apply memo_ok_nil]. apply check_list_usable. tauto.
Qed.

(* ---- concrete contexts ---------------------------------------------------------- *)
(* a genesis-shaped cache: (90,1) is a cached code cell, (91,0) and (91,1) are
   cached groups; (90,4) is a member of a cached group but NOT cached as code *)
Definition ex_sys : syscache :=
  mkSys [(90, 1); (90, 2); (90, 3)] [((91, 0), [(90, 1); (90, 3)]); ((91, 1), [(90, 4); (90, 3)])].
Definition ex_pA : provider :=
  assoc_provider [((90, 1), Live DRaw); ((90, 2), Live DRaw); ((90, 3), Live DRaw); ((90, 4), Live DRaw);
                  ((91, 0), Live (DGroup [(90, 1); (90, 3)])); ((91, 1), Live (DGroup [(90, 4); (90, 3)]));
                  ((1, 0), Live DRaw); ((2, 0), Live DRaw); ((3, 0), Live DRaw);
                  ((51, 0), Live (DGroup [(2, 0); (3, 0)]))].
(* the same context after [k] was consumed *)
Definition kill (k : outpoint) (p : provider) : provider := fun o => if op_eqb k o then Dead else p o.
Definition ex_tx : tx := mkTx [(1, 0)] [((91, 1), true); ((51, 0), true); ((90, 1), false)] [] 0.
Definition ex_rtx : rtx := mkRtx [(1, 0)] [(90, 4); (90, 3); (2, 0); (3, 0); (90, 1)] [(91, 1); (51, 0)].
Definition any_header : N -> bool := fun _ => true.

Lemma kill_immutable k p : immutable p (kill k p).
Proof.
  intros o d d' HA. unfold kill. destruct (op_eqb k o); [discriminate|]. rewrite HA. intros [= <-]. reflexivity.
Qed.

Lemma assoc_group_In l : forall o subs, assoc_group l o = Some subs -> In (o, subs) l.
Proof.
  induction l as [|[g s] rest IH]; intros o subs; cbn [assoc_group]; [discriminate|].
  destruct (op_eqb g o) eqn:E.
  - apply op_eqb_eq in E. subst. intros [= <-]. left. reflexivity.
  - intros H. right. apply IH. exact H.
Qed.

Lemma ex_sys_ok_pA : sys_ok ex_sys [] ex_pA.
Proof.
  split.
  - intros o H. apply op_mem_In in H. cbn [ex_sys sys_codes In] in H.
    destruct H as [<-|[<-|[<-|[]]]]; (split; [intros [] | eexists; vm_compute; reflexivity]).
  - intros g subs H. apply assoc_group_In in H. cbn [ex_sys sys_groups In] in H.
    destruct H as [[= <- <-]|[[= <- <-]|[]]].
    + split; [intros []|]. split; [eexists; split; vm_compute; reflexivity|].
      repeat constructor; try (intros []); eexists; vm_compute; reflexivity.
    + split; [intros []|]. split; [eexists; split; vm_compute; reflexivity|].
      repeat constructor; try (intros []); eexists; vm_compute; reflexivity.
Qed.

Lemma sys_ok_kill c p k :
  sys_ok c [] p -> sys_code c k = false ->
  (forall g subs, sys_group c g = Some subs -> g <> k /\ ~ In k subs) -> sys_ok c [] (kill k p).
Proof.
  intros [SC SG] NK NG.
  assert (KU : forall o, o <> k -> usable [] p o -> usable [] (kill k p) o).
  { intros o Ne [NS (d & P)]. split; [exact NS|]. exists d. unfold kill.
    destruct (op_eqb k o) eqn:E; [apply op_eqb_eq in E; congruence | exact P]. }
  split.
  - intros o H. apply KU; [intros ->; congruence | apply SC; exact H].
  - intros g subs H. destruct (SG g subs H) as (NS & (d & P & PG) & FU). destruct (NG g subs H) as [Ng Nm].
    split; [exact NS|]. split.
    + exists d. split; [|exact PG]. unfold kill. destruct (op_eqb k g) eqn:E; [apply op_eqb_eq in E; congruence | exact P].
    + rewrite Forall_forall in *. intros o Ho. apply KU; [intros ->; contradiction | apply FU; exact Ho].
Qed.

Lemma ex_sys_ok_kill_user k : In k [(1, 0); (2, 0); (3, 0); (51, 0)] -> sys_ok ex_sys [] (kill k ex_pA).
Proof.
  intros Hk. apply sys_ok_kill; [exact ex_sys_ok_pA | |].
  - cbn [In] in Hk. destruct Hk as [<-|[<-|[<-|[<-|[]]]]]; vm_compute; reflexivity.
  - intros g subs H. apply assoc_group_In in H. cbn [ex_sys sys_groups In] in H.
    cbn [In] in Hk.
    destruct H as [[= <- <-]|[[= <- <-]|[]]]; destruct Hk as [<-|[<-|[<-|[<-|[]]]]];
      (split; [discriminate | cbn [In]; intros H; repeat (destruct H as [H|H]; [discriminate H|]); exact H]).
Qed.

(* the hypotheses of the two theorems are met by non-trivial contexts: the
   transaction uses a cached group, a user group and a cached code cell; in B
   a member of the user group was consumed, and both check and the fresh
   resolution reject, blaming it; with nothing consumed both accept *)
Example recheck_agrees_nonvacuous :
  resolve_transaction_sys ex_sys [] ex_pA any_header ex_tx = Ok (ex_rtx, [(1, 0)]) /\
  resolve_transaction [] ex_pA any_header ex_tx = Ok (ex_rtx, [(1, 0)]) /\
  immutable ex_pA (kill (3, 0) ex_pA) /\ sys_ok ex_sys [] (kill (3, 0) ex_pA) /\
  recheck (Some ex_sys) [] (kill (3, 0) ex_pA) any_header ex_tx ex_rtx = Err (EDead (3, 0)) /\
  recheck None [] (kill (3, 0) ex_pA) any_header ex_tx ex_rtx = Err (EDead (3, 0)) /\
  resolve_transaction [] (kill (3, 0) ex_pA) any_header ex_tx = Err (EDead (3, 0)) /\
  immutable ex_pA ex_pA /\ sys_ok ex_sys [] ex_pA /\
  recheck (Some ex_sys) [] ex_pA any_header ex_tx ex_rtx = Ok [(1, 0)] /\
  recheck None [] ex_pA any_header ex_tx ex_rtx = Ok [(1, 0)].
Proof.
  split; [vm_compute; reflexivity|]. split; [vm_compute; reflexivity|].
  split; [apply kill_immutable|]. split; [apply ex_sys_ok_kill_user; cbn [In]; tauto|].
  split; [vm_compute; reflexivity|]. split; [vm_compute; reflexivity|]. split; [vm_compute; reflexivity|].
  split; [intros o d d' H1 H2; congruence|]. split; [exact ex_sys_ok_pA|].
  split; vm_compute; reflexivity.
Qed.

(* (d) the seeded variant: the SYSTEM_CELL branch that does not re-check a
   dep-group cell that is not a cached one *)
Fixpoint check_groups_seeded (c : syscache) (sd : list outpoint) (gs : list outpoint) : list outpoint :=
  match gs with
  | [] => sd
  | g :: rest =>
      match sys_group c g with
      | Some subs => check_groups_seeded c (subs ++ sd) rest
      | None => check_groups_seeded c sd rest
      end
  end.
Definition recheck_seeded (c : syscache) (seen : list outpoint) (p : provider) (hc : N -> bool)
                          (t : tx) (r : rtx) : res (list outpoint) :=
  m <-- check_list seen p [] (r_inputs r) ;;
  _ <-- check_deps_sys c seen p m (check_groups_seeded c [] (r_groups r)) (r_deps r) ;;
  _ <-- check_headers hc (t_hdeps t) ;;
  Ok (r_inputs r ++ seen).

(* the user's dep-group cell (51,0) was consumed between A and B; its members
   are still live: the variant accepts, a fresh resolution (and the code as it
   is) rejects, all hypotheses of the cached theorem holding *)
Theorem recheck_skips_user_group_refuted_thm :
  exists c seenA pA hcA seenB pB hcB t r sA,
    resolve_transaction_sys c seenA pA hcA t = Ok (r, sA) /\ immutable pA pB /\ sys_ok c seenB pB /\
    recheck_seeded c seenB pB hcB t r = Ok (r_inputs r ++ seenB) /\
    resolve_transaction seenB pB hcB t = Err (EDead (51, 0)) /\
    resolve_transaction_sys c seenB pB hcB t = Err (EDead (51, 0)) /\
    recheck (Some c) seenB pB hcB t r = Err (EDead (51, 0)).
Proof.
  exists ex_sys, [], ex_pA, any_header, [], (kill (51, 0) ex_pA), any_header, ex_tx, ex_rtx, [(1, 0)].
  split; [vm_compute; reflexivity|]. split; [apply kill_immutable|].
  split; [apply ex_sys_ok_kill_user; cbn [In]; tauto|].
  split; [vm_compute; reflexivity|]. split; [vm_compute; reflexivity|].
  split; vm_compute; reflexivity.
Qed.

(* outside the hypothesis (a cell the SYSTEM_CELL map names is consumed — on a
   real chain impossible, system cells cannot be spent) check, the cached fresh
   resolution and the uncached one fall apart pairwise:
   (1) a cached code cell dead in B: check and the cached resolution accept,
       the provider-based resolution rejects;
   (2) (90,4), member of a cached group but not itself a cached code cell, used
       also as a plain code dep and dead in B: check accepts (it skips every
       member of a cached group the transaction names), the cached fresh
       resolution rejects. *)
Definition ex_tx2 : tx := mkTx [(1, 0)] [((91, 1), true); ((90, 4), false)] [] 0.
Definition ex_rtx2 : rtx := mkRtx [(1, 0)] [(90, 4); (90, 3); (90, 4)] [(91, 1)].
Theorem recheck_without_system_cells_live_refuted_thm :
  (resolve_transaction_sys ex_sys [] ex_pA any_header ex_tx = Ok (ex_rtx, [(1, 0)]) /\
   recheck (Some ex_sys) [] (kill (90, 1) ex_pA) any_header ex_tx ex_rtx = Ok [(1, 0)] /\
   resolve_transaction_sys ex_sys [] (kill (90, 1) ex_pA) any_header ex_tx = Ok (ex_rtx, [(1, 0)]) /\
   resolve_transaction [] (kill (90, 1) ex_pA) any_header ex_tx = Err (EDead (90, 1))) /\
  (resolve_transaction_sys ex_sys [] ex_pA any_header ex_tx2 = Ok (ex_rtx2, [(1, 0)]) /\
   recheck (Some ex_sys) [] (kill (90, 4) ex_pA) any_header ex_tx2 ex_rtx2 = Ok [(1, 0)] /\
   resolve_transaction_sys ex_sys [] (kill (90, 4) ex_pA) any_header ex_tx2 = Err (EDead (90, 4))).
Proof. split; (split; [vm_compute; reflexivity|]); (split; [vm_compute; reflexivity|]); [split|]; vm_compute; reflexivity. Qed.
