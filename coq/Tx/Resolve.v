(* Tx/Resolve.v — executable model of util/types/src/core/cell.rs:
     resolve_transaction (seen_inputs, duplicate inputs, liveness, dep-group
     expansion with MAX_DEP_EXPANSION_LIMIT, header deps),
     BlockCellProvider (with its OutOfOrder check), OverlayCellProvider, and
     chain/src/verify.rs resolve_block_transactions.

   Hashes never reach the model: transactions and headers are numbered; an
   out-point is (tx id, output index).  A cell provider is a function
   out_point -> status (pure; this is why the per-call (out_point, eager_load)
   memo of the Rust code is not modelled: it only avoids asking again).
   The SYSTEM_CELL cache is not modelled (it is unset in the harness; C14).
   No proofs in this file (Tx/ResolveProofs.v). *)
From Coq Require Export List NArith Lia Bool.
From CKB Require Export gen.SinceParams.
Export ListNotations.
Local Open Scope N_scope.

Definition outpoint := (N * N)%type.
Definition op_eqb (a b : outpoint) : bool := (fst a =? fst b) && (snd a =? snd b).
Definition op_mem (o : outpoint) (l : list outpoint) : bool := existsb (op_eqb o) l.

(* OutPoint::null(): zero hash (id 0 is reserved for it), index u32::MAX *)
Definition null_outpoint : outpoint := (0, 4294967295).

(* what parse_dep_group_data sees in a cell's data *)
Inductive cdata :=
| DRaw                          (* empty, or not a molecule OutPointVec *)
| DGroup (l : list outpoint).   (* an OutPointVec *)

Definition parse_group (d : cdata) : option (list outpoint) :=
  match d with
  | DRaw => None
  | DGroup [] => None            (* "dep group is empty" *)
  | DGroup l => Some l
  end.

Inductive status := Live (d : cdata) | Dead | Unknown.
Definition provider := outpoint -> status.

Inductive rerr :=
| EDead (o : outpoint)
| EUnknown (o : outpoint)
| EInvalidDepGroup (o : outpoint)
| EOverMaxDepExpansionLimit
| EInvalidHeader (h : N)
| EOutOfOrder (o : outpoint).

Inductive res (A : Type) := Ok (a : A) | Err (e : rerr).
Arguments Ok {A} a.
Arguments Err {A} e.
Definition rbind {A B} (r : res A) (f : A -> res B) : res B :=
  match r with Ok a => f a | Err e => Err e end.
Notation "x <-- r ;; k" := (rbind r (fun x => k)) (at level 61, r at next level, right associativity).

Record tx := mkTx {
  t_inputs : list outpoint;
  t_deps : list (outpoint * bool);    (* cell deps; true = DepType::DepGroup *)
  t_hdeps : list N;                   (* header deps (header ids) *)
  t_nwit : N                          (* number of witnesses (is_cellbase looks at it) *)
}.

Definition is_cellbase (t : tx) : bool :=
  match t_inputs t with
  | [i] => (t_nwit t =? 1) && op_eqb i null_outpoint
  | _ => false
  end.

Record rtx := mkRtx {
  r_inputs : list outpoint;     (* resolved_inputs (their out-points) *)
  r_deps : list outpoint;       (* resolved_cell_deps, dep groups expanded *)
  r_groups : list outpoint      (* resolved_dep_groups *)
}.

(* the closure resolve_cell *)
Definition resolve_cell (seen : list outpoint) (p : provider) (o : outpoint) : res cdata :=
  if op_mem o seen then Err (EDead o)
  else match p o with
       | Dead => Err (EDead o)
       | Unknown => Err (EUnknown o)
       | Live d => Ok d
       end.

Fixpoint resolve_inputs (seen : list outpoint) (p : provider) (cur : list outpoint) (ins : list outpoint)
  : res (list outpoint) :=
  match ins with
  | [] => Ok []
  | o :: rest =>
      if op_mem o cur then Err (EDead o)
      else _ <-- resolve_cell seen p o ;;
           r <-- resolve_inputs seen p (o :: cur) rest ;;
           Ok (o :: r)
  end.

Fixpoint resolve_cells (seen : list outpoint) (p : provider) (os : list outpoint) : res unit :=
  match os with
  | [] => Ok tt
  | o :: rest => _ <-- resolve_cell seen p o ;; resolve_cells seen p rest
  end.

(* resolve_transaction_dep folded over the cell deps; [slots] = remaining_dep_slots *)
Fixpoint resolve_deps (seen : list outpoint) (p : provider) (slots : N) (deps : list (outpoint * bool))
  : res (list outpoint * list outpoint) :=
  match deps with
  | [] => Ok ([], [])
  | (o, true) :: rest =>
      d <-- resolve_cell seen p o ;;
      match parse_group d with
      | None => Err (EInvalidDepGroup o)
      | Some subs =>
          let n := N.of_nat (length subs) in
          if slots <? n then Err EOverMaxDepExpansionLimit
          else _ <-- resolve_cells seen p subs ;;
               r <-- resolve_deps seen p (slots - n) rest ;;
               Ok (subs ++ fst r, o :: snd r)
      end
  | (o, false) :: rest =>
      if slots <? 1 then Err EOverMaxDepExpansionLimit
      else _ <-- resolve_cell seen p o ;;
           r <-- resolve_deps seen p (slots - 1) rest ;;
           Ok (o :: fst r, snd r)
  end.

Fixpoint check_headers (hc : N -> bool) (hs : list N) : res unit :=
  match hs with
  | [] => Ok tt
  | h :: rest => if hc h then check_headers hc rest else Err (EInvalidHeader h)
  end.

(* resolve_transaction: the resolved transaction and the new seen_inputs *)
Definition resolve_transaction (seen : list outpoint) (p : provider) (hc : N -> bool) (t : tx)
  : res (rtx * list outpoint) :=
  ins <-- (if is_cellbase t then Ok [] else resolve_inputs seen p [] (t_inputs t)) ;;
  ds <-- resolve_deps seen p MAX_DEP_EXPANSION_LIMIT (t_deps t) ;;
  _ <-- check_headers hc (t_hdeps t) ;;
  Ok (mkRtx ins (fst ds) (snd ds), ins ++ seen).

(* ---- a block ------------------------------------------------------------- *)
Record btx := mkBtx {
  b_id : N;                  (* the transaction's hash, numbered *)
  b_tx : tx;
  b_outs : list cdata        (* one entry per output: what its data parses to *)
}.
Definition block := list btx.

(* output_indices: HashMap hash -> index; a later transaction with the same
   hash overwrites an earlier one *)
Fixpoint tx_index_from (b : block) (i : nat) (id : N) : option nat :=
  match b with
  | [] => None
  | t :: rest =>
      match tx_index_from rest (S i) id with
      | Some j => Some j
      | None => if b_id t =? id then Some i else None
      end
  end.
Definition tx_index (b : block) (id : N) : option nat := tx_index_from b 0 id.

(* BlockCellProvider::new: a transaction may only refer (inputs, cell deps)
   to transactions strictly before it *)
Definition out_of_order (b : block) (idx : nat) (o : outpoint) : bool :=
  match tx_index b (fst o) with
  | Some j => Nat.leb idx j
  | None => false
  end.
Fixpoint first_out_of_order (b : block) (idx : nat) (os : list outpoint) : option outpoint :=
  match os with
  | [] => None
  | o :: rest => if out_of_order b idx o then Some o else first_out_of_order b idx rest
  end.
Fixpoint order_check (b : block) (idx : nat) (txs : list btx) : res unit :=
  match txs with
  | [] => Ok tt
  | t :: rest =>
      match first_out_of_order b idx (map fst (t_deps (b_tx t))) with
      | Some o => Err (EOutOfOrder o)
      | None =>
        match first_out_of_order b idx (t_inputs (b_tx t)) with
        | Some o => Err (EOutOfOrder o)
        | None => order_check b (S idx) rest
        end
      end
  end.

(* BlockCellProvider::cell *)
Definition block_cell (b : block) : provider :=
  fun o => match tx_index b (fst o) with
           | Some i => match nth_error b i with
                       | Some t => match nth_error (b_outs t) (N.to_nat (snd o)) with
                                   | Some d => Live d
                                   | None => Unknown
                                   end
                       | None => Unknown
                       end
           | None => Unknown
           end.

(* OverlayCellProvider *)
Definition overlay (a b : provider) : provider :=
  fun o => match a o with Unknown => b o | s => s end.

Fixpoint resolve_txs (seen : list outpoint) (p : provider) (hc : N -> bool) (txs : list btx)
  : res (list rtx) :=
  match txs with
  | [] => Ok []
  | t :: rest =>
      r <-- resolve_transaction seen p hc (b_tx t) ;;
      rs <-- resolve_txs (snd r) p hc rest ;;
      Ok (fst r :: rs)
  end.

(* resolve_block_transactions *)
Definition resolve_block (store : provider) (hc : N -> bool) (b : block) : res (list rtx) :=
  _ <-- order_check b 0 b ;;
  resolve_txs [] (overlay (block_cell b) store) hc b.

(* a transaction sequence resolved one after the other against the same
   provider while seen_inputs accumulates (what the pool's block assembler and
   the harness's sequence stream do) *)
Fixpoint resolve_seq (seen : list outpoint) (p : provider) (hc : N -> bool) (txs : list tx)
  : list (res rtx) :=
  match txs with
  | [] => []
  | t :: rest =>
      match resolve_transaction seen p hc t with
      | Ok r => Ok (fst r) :: resolve_seq (snd r) p hc rest
      | Err e => Err e :: resolve_seq seen p hc rest
      end
  end.

(* providers as data, for generated cases *)
Definition assoc_provider (l : list (outpoint * status)) : provider :=
  fun o => match find (fun kv => op_eqb (fst kv) o) l with
           | Some kv => snd kv
           | None => Unknown
           end.
