(* Tx/CacheMaturityProofs.v — proofs about Tx/CacheMaturity.v (property C14): the
   cache theorems of Tx/CacheProofs.v instantiated for
   time_relative = maturity over inputs && maturity over cell deps && since,
   and the hit path that evaluates it only for selected transactions. *)
From CKB Require Import Tx.Cache Tx.CacheProofs Tx.CacheMaturity.

Section MaturityProofs.
  Variable tx : Type.
  Variable ctx : Type.
  Variable wtx_hash : tx -> N.
  Variable content : tx -> option completed.
  Variable since_ok : ctx -> tx -> bool.
  Variable maturity_inputs : ctx -> tx -> bool.
  Variable maturity_deps : ctx -> tx -> bool.
  Variable maxc : N.

  Notation tr_mat := (tr_mat tx ctx since_ok maturity_inputs maturity_deps).
  Notation vcache_ok := (vcache_ok tx wtx_hash content maxc).
  Notation verify_tx := (verify_tx tx ctx wtx_hash content tr_mat).
  Notation verify_full := (verify_full tx ctx content tr_mat).
  Notation verify_block := (verify_block tx ctx wtx_hash content tr_mat maxc).
  Notation vrun := (vrun tx ctx wtx_hash content tr_mat maxc).
  Notation vrun_ref := (vrun_ref tx ctx wtx_hash content tr_mat maxc).

  (* C14 with the three checks spelled out: an instance of vrun_transparent *)
  Theorem mat_history_transparent :
    (forall t1 t2, wtx_hash t1 = wtx_hash t2 -> content t1 = content t2) ->
    forall ops c,
      vcache_ok c -> Forall (vop_ok tx ctx maxc) ops -> vrun c ops = vrun_ref ops.
  Proof. exact (vrun_transparent tx ctx wtx_hash content tr_mat maxc). Qed.

  Lemma tr_mat_false : forall x t,
    maturity_inputs x t = false \/ maturity_deps x t = false \/ since_ok x t = false -> tr_mat x t = false.
  Proof.
    intros x t H. unfold CacheMaturity.tr_mat.
    destruct H as [H | [H | H]]; rewrite H.
    - reflexivity.
    - rewrite Bool.andb_false_r. reflexivity.
    - rewrite Bool.andb_false_r. reflexivity.
  Qed.

  (* whatever the cache holds (sound or not; hit or miss): an immature cellbase
     output among the inputs OR among the cell deps, or an unmet since, rejects
     the transaction and every block committing it — instances of
     contextual_always_rerun / block_with_immature_rejected *)
  Theorem mat_each_check_always_rerun : forall c x lim skip t,
    maturity_inputs x t = false \/ maturity_deps x t = false \/ since_ok x t = false ->
    verify_tx c x lim skip t = None /\ verify_full x lim skip t = None.
  Proof.
    intros c x lim skip t H. apply tr_mat_false in H.
    destruct (contextual_always_rerun tx ctx wtx_hash content tr_mat c lim skip t) as [A [B _]].
    split; [exact (A x H) | exact (B x H)].
  Qed.

  Theorem mat_block_with_immature_dep_rejected : forall c x skip txs t,
    In t txs -> maturity_deps x t = false -> fst (verify_block c x skip txs) = None.
  Proof.
    intros c x skip txs t I H.
    apply (block_with_immature_rejected tx ctx wtx_hash content tr_mat maxc c x skip txs t I).
    apply tr_mat_false. right. left. exact H.
  Qed.

  (* the two-branch scenario: verified in a block where everything is mature
     (accepted, entry cached), then committed where a cell dep is an immature
     cellbase output: rejected with that cache exactly as with none *)
  Theorem mat_mature_then_immature_dep : forall x1 x2 t e,
    tr_mat x1 t = true -> maturity_deps x2 t = false ->
    content t = Some e -> N.le (c_cycles e) maxc ->
    let c1 := snd (verify_block [] x1 false [t]) in
    fst (verify_block [] x1 false [t]) = Some [e] /\
    lookup c1 (wtx_hash t) = Some e /\
    fst (verify_block c1 x2 false [t]) = None /\
    fst (verify_block [] x2 false [t]) = None.
  Proof.
    intros x1 x2 t e T1 D2 Ct Le.
    assert (V : verify_tx [] x1 maxc false t = Some e).
    { unfold Cache.verify_tx, Cache.verify_full. simpl.
      rewrite T1, Ct. apply N.leb_le in Le. rewrite Le. reflexivity. }
    assert (S : N.leb (sum_cycles [e]) maxc = true).
    { simpl. apply N.leb_le. lia. }
    unfold Cache.verify_block at 1 2. simpl verify_txs. rewrite V. cbv zeta. rewrite S. simpl fst. simpl snd.
    split; [reflexivity|]. split.
    - simpl. rewrite N.eqb_refl. reflexivity.
    - split; apply (mat_block_with_immature_dep_rejected _ x2 false [t] t); auto; left; reflexivity.
  Qed.

  (* ---- the gated hit path ----------------------------------------------------- *)
  Variable has_constraint : tx -> bool.
  Notation verify_hit_g := (verify_hit_g tx ctx since_ok maturity_inputs maturity_deps has_constraint).
  Notation verify_tx_g := (verify_tx_g tx ctx wtx_hash content since_ok maturity_inputs maturity_deps has_constraint).
  Notation verify_txs_g := (verify_txs_g tx ctx wtx_hash content since_ok maturity_inputs maturity_deps maxc has_constraint).
  Notation verify_block_g := (verify_block_g tx ctx wtx_hash content since_ok maturity_inputs maturity_deps maxc has_constraint).
  Notation gstep := (gstep tx ctx wtx_hash content since_ok maturity_inputs maturity_deps maxc has_constraint).
  Notation grun := (grun tx ctx wtx_hash content since_ok maturity_inputs maturity_deps maxc has_constraint).
  Notation constraint_complete := (constraint_complete tx ctx since_ok maturity_inputs maturity_deps has_constraint).

  Lemma verify_tx_g_eq : constraint_complete -> forall c x lim skip t,
    verify_tx_g c x lim skip t = verify_tx c x lim skip t.
  Proof.
    intros C c x lim skip t. unfold CacheMaturity.verify_tx_g, Cache.verify_tx, CacheMaturity.verify_hit_g.
    destruct (lookup c (wtx_hash t)) as [e|]; [|reflexivity].
    destruct (has_constraint t) eqn:H; [reflexivity|].
    unfold Cache.verify_hit. rewrite (C t H x). reflexivity.
  Qed.

  Lemma verify_block_g_eq : constraint_complete -> forall c x skip txs,
    verify_block_g c x skip txs = verify_block c x skip txs.
  Proof.
    intros C c x skip txs. unfold CacheMaturity.verify_block_g, Cache.verify_block.
    assert (E : verify_txs_g c x skip txs = verify_txs tx ctx wtx_hash content tr_mat maxc c x skip txs).
    { induction txs as [|t txs IH]; [reflexivity|]. simpl. rewrite (verify_tx_g_eq C), IH. reflexivity. }
    rewrite E. reflexivity.
  Qed.

  (* selecting the transactions for which the checks are evaluated changes nothing
     exactly when the selection is complete ... *)
  Theorem gated_complete_is_cache_model : constraint_complete -> forall ops c, grun c ops = vrun c ops.
  Proof.
    intros C. induction ops as [|o ops IH]; intros c; [reflexivity|].
    simpl. destruct o as [x d a t | x skip txs | keep]; simpl.
    - destruct (submit tx ctx wtx_hash content tr_mat maxc c x d a t) as [r c']. rewrite IH. reflexivity.
    - rewrite (verify_block_g_eq C). destruct (verify_block c x skip txs) as [r c']. rewrite IH. reflexivity.
    - rewrite IH. reflexivity.
  Qed.

  Corollary gated_complete_transparent :
    (forall t1 t2, wtx_hash t1 = wtx_hash t2 -> content t1 = content t2) ->
    constraint_complete ->
    forall ops c, vcache_ok c -> Forall (vop_ok tx ctx maxc) ops -> grun c ops = vrun_ref ops.
  Proof.
    intros K C ops c H F. rewrite (gated_complete_is_cache_model C). exact (mat_history_transparent K ops c H F).
  Qed.
End MaturityProofs.

(* ---- the height instance ------------------------------------------------------ *)
Local Open Scope N_scope.
Lemma forallb_nil_or : forall (f : N -> bool) l, is_nil l = true -> forallb f l = true.
Proof. intros f l H. destruct l; [reflexivity | discriminate]. Qed.

(* looking at since, inputs AND cell deps is complete ... *)
Lemma h_constraint_all_complete : forall k,
  constraint_complete htx N h_since_ok (h_mat_in k) (h_mat_dep k) h_constraint_all.
Proof.
  intros k t H x. unfold h_constraint_all, h_constraint_inputs in H.
  apply Bool.orb_false_elim in H. destruct H as [H D].
  apply Bool.orb_false_elim in H. destruct H as [S I].
  apply Bool.negb_false_iff in S, I, D.
  unfold tr_mat, h_mat_in, h_mat_dep, h_since_ok.
  rewrite (forallb_nil_or _ _ I), (forallb_nil_or _ _ D).
  apply N.eqb_eq in S. rewrite S. simpl. apply N.leb_le. apply N.le_0_l.
Qed.

Theorem h_gated_all_transparent : forall k maxc,
  (forall t1 t2 : htx, h_wtx t1 = h_wtx t2 -> h_content t1 = h_content t2) ->
  forall ops c, vcache_ok htx h_wtx h_content maxc c -> Forall (vop_ok htx N maxc) ops ->
    h_grun h_constraint_all k maxc c ops = h_ref k maxc ops.
Proof.
  intros k maxc K ops c H F.
  exact (gated_complete_transparent htx N h_wtx h_content h_since_ok (h_mat_in k) (h_mat_dep k) maxc h_constraint_all
           K (h_constraint_all_complete k) ops c H F).
Qed.

(* ... looking at since and inputs only is not: T (no since, an ordinary input) lists
   the cellbase output of block 1 as a cell dep; cellbase maturity 3 blocks.  Branch A
   commits T at height 5 (mature: accepted, entry cached), branch B at height 2
   (immature).  The gated hit path answers from the cache; a node without the entry
   — and the real hit path — reject with CellbaseImmaturity(CellDeps). *)
Definition hT := mkH 7 (Some (mkC 537 1000)) 0 [] [1].
Definition hT_in := mkH 8 (Some (mkC 537 1000)) 0 [1] [].
Definition hT_both := mkH 9 (Some (mkC 537 1000)) 0 [1] [2].

Theorem gated_inputs_only_refuted :
  h_constraint_inputs hT = false /\
  exists ops,
    h_grun h_constraint_inputs 3 10000 [] ops = [OBlock (Some [mkC 537 1000]); OBlock (Some [mkC 537 1000])] /\
    h_ref 3 10000 ops = [OBlock (Some [mkC 537 1000]); OBlock None] /\
    h_run 3 10000 [] ops = h_ref 3 10000 ops /\
    h_grun h_constraint_inputs 3 10000 [] ops <> h_ref 3 10000 ops.
Proof.
  split; [reflexivity|].
  exists [VBlock 5 false [hT]; VBlock 2 false [hT]].
  vm_compute. repeat split. intros H. discriminate.
Qed.

(* the selection is not complete, concretely *)
Lemma h_constraint_inputs_incomplete :
  ~ constraint_complete htx N h_since_ok (h_mat_in 3) (h_mat_dep 3) h_constraint_inputs.
Proof. intros C. specialize (C hT eq_refl 2). vm_compute in C. discriminate. Qed.

(* non-vacuity: cellbase output as dep / as input / both (input of block 1, dep of
   block 2), maturity 3: heights 3 (all immature), 4 (block 1 mature, block 2 not), 5,
   everything evicted, again *)
Definition ex_mat_history : list (vop htx N) :=
  [ VBlock 5 false [hT]; VBlock 3 false [hT]; VBlock 4 false [hT_in; hT];
    VBlock 4 false [hT_both]; VBlock 5 false [hT_both]; VBlock 4 false [hT_both];
    VEvict (fun _ => false); VBlock 3 false [hT]; VBlock 4 false [hT_both]; VBlock 5 false [hT; hT_in; hT_both] ].

Lemma ex_mat_history_ok : Forall (vop_ok htx N 10000) ex_mat_history.
Proof. unfold ex_mat_history. repeat constructor. Qed.

Lemma ex_mat_history_outputs :
  h_run 3 10000 [] ex_mat_history =
  [ OBlock (Some [mkC 537 1000]); OBlock None; OBlock (Some [mkC 537 1000; mkC 537 1000]);
    OBlock None; OBlock (Some [mkC 537 1000]); OBlock None;
    ONone; OBlock None; OBlock None; OBlock (Some [mkC 537 1000; mkC 537 1000; mkC 537 1000]) ] /\
  h_ref 3 10000 ex_mat_history = h_run 3 10000 [] ex_mat_history /\
  h_grun h_constraint_all 3 10000 [] ex_mat_history = h_run 3 10000 [] ex_mat_history.
Proof. vm_compute. repeat split. Qed.

(* the checker of the correspondence cases on the two-branch history: a node with a
   cache, a node whose cache has capacity 0, a node pre-warmed with T's entry; and
   what the gated variant would have answered is NOT accepted by the checker *)
Definition mT_mature := mkMO 1 (Some (mkC 537 1000)) true true true.
Definition mT_dep_immature := mkMO 1 (Some (mkC 537 1000)) true true false.
Definition mO := mkMO 2 (Some (mkC 537 500)) true true true.

Lemma ex_mcase_checks :
  check_mcase (mkMCase 10000 None []
    [MVerify [[mO]] true [[mkC 537 500]]; MVerify [[mT_mature]] true [[mkC 537 1000]];
     MVerify [[]; [mT_dep_immature]; []] false []; MVerify [[]; []; []] true [[]; []; []]]) = true /\
  check_mcase (mkMCase 10000 (Some 0%nat) []
    [MVerify [[mO]] true [[mkC 537 500]]; MVerify [[mT_mature]] true [[mkC 537 1000]];
     MVerify [[]; [mT_dep_immature]; []] false []]) = true /\
  check_mcase (mkMCase 10000 None [(1%N, mkC 537 1000)]
    [MVerify [[mT_dep_immature]] false []; MForget; MVerify [[mT_mature]] true [[mkC 537 1000]]]) = true /\
  check_mcase (mkMCase 10000 None []
    [MVerify [[mT_mature]] true [[mkC 537 1000]];
     MVerify [[]; [mT_dep_immature]; []] true [[]; [mkC 537 1000]; []]]) = false.
Proof. vm_compute. repeat split. Qed.
