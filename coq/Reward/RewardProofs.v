(* Reward/RewardProofs.v — proofs about Reward/Reward.v: the fee split, and
   RewardCalculator::proposal_reward = the declarative first-proposer rule
   for every target height >= 2 (F4: false for the block at height 1). *)
From Coq Require Import Lia.
From CKB Require Import Arith.U Arith.UProofs Reward.Reward.
Arguments N.add : simpl never.
Arguments N.sub : simpl never.
Arguments N.mul : simpl never.
Arguments N.div : simpl never.

(* ---- fee split ------------------------------------------------------------------ *)
Lemma safe_mul_ratio_some x r v :
  safe_mul_ratio x r = Some v ->
  (v = x * r_numer r / r_denom r /\ x * r_numer r < W64 /\ r_denom r <> 0)%N.
Proof.
  unfold safe_mul_ratio. intros H. unbind H.
  apply mul64_some in E. apply div64_some in H. destruct E as [-> B], H as [-> D]. auto.
Qed.

Lemma safe_mul_ratio_ok x r :
  (x * r_numer r < W64 -> r_denom r <> 0 ->
   safe_mul_ratio x r = Some (x * r_numer r / r_denom r))%N.
Proof.
  intros B D. unfold safe_mul_ratio, mul64. rewrite chk_ok by exact B. cbn [bind].
  unfold div64. apply N.eqb_neq in D. now rewrite D.
Qed.

Lemma share_le_fee x r : (r_denom r <> 0 -> r_numer r <= r_denom r -> x * r_numer r / r_denom r <= x)%N.
Proof.
  intros D L. apply N.div_le_upper_bound; [exact D|]. rewrite N.mul_comm. apply N.mul_le_mono_r. exact L.
Qed.

(* whenever the split is computed, the two shares sum to the fee and the
   proposer's is floor(fee * numer / denom) *)
Theorem fee_split_sums_any r fee p m :
  fee_split r fee = Some (p, m) -> (p + m = fee /\ p = fee * r_numer r / r_denom r)%N.
Proof.
  unfold fee_split. intros H. unbind H. inversion H; subst; clear H.
  apply safe_mul_ratio_some in E. destruct E as (-> & _ & _).
  apply sub64_some in E0. destruct E0 as [-> L].
  set (q := (fee * r_numer r / r_denom r)%N) in *. clearbody q. split; [lia|reflexivity].
Qed.

(* it is computed (no overflow, no underflow) for every fee whose product with
   the numerator fits u64 — for 4/10 every fee below 2^62 *)
Theorem fee_split_sums r fee :
  (fee < W64 -> r_denom r <> 0 -> r_numer r <= r_denom r -> fee * r_numer r < W64 ->
   exists p m, fee_split r fee = Some (p, m) /\ p + m = fee /\
               p = fee * r_numer r / r_denom r /\ m < W64 /\ p < W64)%N.
Proof.
  intros F D L B.
  pose proof (share_le_fee fee r D L) as Hle.
  unfold fee_split. rewrite safe_mul_ratio_ok by assumption. cbn [bind].
  set (q := (fee * r_numer r / r_denom r)%N) in *. clearbody q.
  exists q, (fee - q)%N.
  unfold sub64. destruct (N.ltb_spec fee q); [lia|]. cbn [bind].
  repeat split; lia.
Qed.

(* the u64 product overflows for larger fees: fee_split is then an Err(Overflow) *)
Theorem fee_split_overflow_refuted :
  exists fee, (fee < W64)%N /\ fee_split (mkRatio 4 10) fee = None.
Proof. exists (2 ^ 62)%N. split; vm_compute; reflexivity. Qed.

Example fee_split_example : fee_split (mkRatio 4 10) 1006 = Some (402, 604)%N.
Proof. reflexivity. Qed.

(* ---- sets as lists ---------------------------------------------------------------- *)
Lemma mem_true x l : mem x l = true <-> In x l.
Proof.
  unfold mem. rewrite existsb_exists. split.
  - intros (y & Hy & E). apply N.eqb_eq in E. now subst.
  - intros H. exists x. split; auto. apply N.eqb_refl.
Qed.
Lemma mem_false x l : mem x l = false <-> ~ In x l.
Proof.
  rewrite <- mem_true. destruct (mem x l); split; intros H; congruence.
Qed.
Lemma mem_app x a b : mem x (a ++ b) = mem x a || mem x b.
Proof. unfold mem. apply existsb_app. Qed.
Lemma mem_remove_id x i l : mem x (remove_id i l) = mem x l && negb (N.eqb x i).
Proof.
  unfold remove_id, mem. induction l as [|y l IH]; cbn [filter existsb]; auto.
  destruct (N.eqb_spec i y) as [e|ne]; cbn [negb existsb].
  - subst y. rewrite IH. destruct (N.eqb_spec x i); cbn; auto.
    now rewrite andb_false_r.
  - rewrite IH. destruct (N.eqb_spec x y) as [e|ne2]; cbn; auto.
    subst y. destruct (N.eqb_spec x i); [congruence|]. reflexivity.
Qed.
Lemma is_empty_mem tp : is_empty tp = true -> forall x, mem x tp = false.
Proof. destruct tp; [reflexivity|discriminate]. Qed.

Lemma sum_shares_app r l1 l2 acc :
  sum_shares r (l1 ++ l2) acc = bind (sum_shares r l1 acc) (sum_shares r l2).
Proof.
  revert acc. induction l1 as [|f l1 IH]; intros acc; cbn; auto.
  destruct (safe_mul_ratio f r); cbn; auto. destruct (add64 acc n); cbn; auto.
Qed.

(* ---- one block of the walk --------------------------------------------------------- *)
Definition sel (P proposed : list N) (cs : list (N * N)) : list (N * N) :=
  filter (fun cm => mem (fst cm) P && negb (mem (fst cm) proposed)) cs.

Definition pass_post (r : ratio) (P proposed : list N) (cs : list (N * N)) (tp : list N)
           (reward : N) (res : option (list N * N)) : Prop :=
  match res with
  | Some (tp', rw) =>
    sum_shares r (map snd (sel P proposed cs)) reward = Some rw /\
    forall x, mem x tp' = mem x tp && negb (mem x (map fst cs))
  | None => sum_shares r (map snd (sel P proposed cs)) reward = None
  end.

Lemma sel_cons P proposed id fee cs :
  sel P proposed ((id, fee) :: cs) =
  if mem id P && negb (mem id proposed) then (id, fee) :: sel P proposed cs else sel P proposed cs.
Proof. reflexivity. Qed.

Lemma mem_cons_fst x id (fee : N) cs :
  mem x (map fst ((id, fee) :: cs)) = N.eqb x id || mem x (map fst cs).
Proof. reflexivity. Qed.

Lemma commit_pass_spec r P proposed cs : forall tp reward,
  NoDup (map fst cs) ->
  (forall id, In id (map fst cs) -> mem id tp = mem id P) ->
  pass_post r P proposed cs tp reward (commit_pass r proposed cs tp reward).
Proof.
  induction cs as [|[id fee] cs IH]; intros tp reward ND Hm.
  - cbn. split; [reflexivity|]. intros x. now rewrite andb_true_r.
  - cbn [map fst] in ND. inversion ND as [|? ? Hnot ND']; subst.
    assert (HmP : mem id tp = mem id P) by (apply Hm; left; reflexivity).
    assert (Hrest : forall tp1, (forall x, x <> id -> mem x tp1 = mem x tp) ->
                    forall id', In id' (map fst cs) -> mem id' tp1 = mem id' P).
    { intros tp1 H1 id' Hin. rewrite H1; [apply Hm; right; exact Hin|].
      intros e. subst. contradiction. }
    cbn [commit_pass]. unfold pass_post. rewrite sel_cons, <- HmP.
    destruct (mem id tp) eqn:Et; cbn [andb].
    + assert (H1 : forall x, x <> id -> mem x (remove_id id tp) = mem x tp).
      { intros x ne. rewrite mem_remove_id. apply N.eqb_neq in ne. rewrite ne. apply andb_true_r. }
      assert (Hfin : forall tp', (forall x, mem x tp' = mem x (remove_id id tp) && negb (mem x (map fst cs))) ->
                     forall x, mem x tp' = mem x tp && negb (mem x (map fst ((id, fee) :: cs)))).
      { intros tp' H x. rewrite H, mem_remove_id, mem_cons_fst, negb_orb, andb_assoc. reflexivity. }
      destruct (mem id proposed) eqn:Ep; cbn [negb].
      * specialize (IH (remove_id id tp) reward ND' (Hrest _ H1)).
        unfold pass_post in IH. destruct (commit_pass r proposed cs (remove_id id tp) reward) as [[tp' rw]|]; auto.
        destruct IH as [IH1 IH2]. split; auto.
      * cbn [map snd sum_shares].
        destruct (safe_mul_ratio fee r) as [share|]; cbn [bind]; [|reflexivity].
        destruct (add64 reward share) as [reward'|]; cbn [bind]; [|reflexivity].
        specialize (IH (remove_id id tp) reward' ND' (Hrest _ H1)).
        unfold pass_post in IH. destruct (commit_pass r proposed cs (remove_id id tp) reward') as [[tp' rw]|]; auto.
        destruct IH as [IH1 IH2]. split; auto.
    + specialize (IH tp reward ND' (Hrest tp (fun _ _ => eq_refl))).
      unfold pass_post in IH. destruct (commit_pass r proposed cs tp reward) as [[tp' rw]|]; auto.
      destruct IH as [IH1 IH2]. split; auto.
      intros x. rewrite IH2, mem_cons_fst, negb_orb.
      destruct (N.eqb_spec x id) as [e|ne]; cbn [negb andb]; auto.
      subst x. rewrite Et. reflexivity.
Qed.

Lemma block_pass_spec r P proposed cs tp reward :
  NoDup (map fst cs) ->
  (forall id, In id (map fst cs) -> mem id tp = mem id P) ->
  pass_post r P proposed cs tp reward (block_pass r proposed cs tp reward).
Proof.
  intros ND Hm. unfold block_pass. destruct (has_committed cs tp) eqn:Eh.
  - now apply commit_pass_spec.
  - unfold pass_post.
    assert (Hno : forall cm, In cm cs -> mem (fst cm) tp = false).
    { intros cm Hin. unfold has_committed in Eh.
      destruct (mem (fst cm) tp) eqn:E; auto.
      assert (existsb (fun c => mem (fst c) tp) cs = true) by (apply existsb_exists; eauto).
      congruence. }
    assert (Es : sel P proposed cs = []).
    { unfold sel. induction cs as [|cm cs IHc]; cbn; auto.
      rewrite <- (Hm (fst cm)) by (left; reflexivity).
      rewrite (Hno cm) by (left; reflexivity). cbn [andb].
      inversion ND; subst.
      apply IHc; auto.
      - intros id Hin. apply Hm. right. exact Hin.
      - unfold has_committed in *. cbn [existsb] in Eh. apply orb_false_iff in Eh. tauto.
      - intros c Hc. apply Hno. right. exact Hc. }
    rewrite Es. cbn. split; [reflexivity|].
    intros x. destruct (mem x (map fst cs)) eqn:E; cbn [negb]; [|now rewrite andb_true_r].
    rewrite andb_false_r. apply mem_true in E. apply in_map_iff in E. destruct E as (cm & <- & Hin).
    now apply Hno.
Qed.

(* ---- uniqueness of commits ---------------------------------------------------------- *)
Lemma NoDup_app_disjoint {A} (l1 l2 : list A) x : NoDup (l1 ++ l2) -> In x l1 -> In x l2 -> False.
Proof.
  induction l1 as [|a l1 IH]; cbn; intros ND H1 H2; [contradiction|].
  inversion ND; subst. destruct H1 as [->|H1].
  - apply H3. apply in_or_app. right. exact H2.
  - now apply IH.
Qed.

Lemma NoDup_app_l {A} (l1 l2 : list A) : NoDup (l1 ++ l2) -> NoDup l1.
Proof.
  induction l1 as [|a l1 IH]; cbn; intros ND; [constructor|].
  inversion ND; subst. constructor; auto. intros H. apply H1. apply in_or_app. now left.
Qed.
Lemma NoDup_app_r {A} (l1 l2 : list A) : NoDup (l1 ++ l2) -> NoDup l2.
Proof. induction l1 as [|a l1 IH]; cbn; intros ND; auto. inversion ND; auto. Qed.

Lemma commits_at_nodup ch c : commits_unique ch -> NoDup (map fst (commits_at ch c)).
Proof.
  unfold commits_unique, all_commit_ids, commits_at, block_at. revert c.
  induction ch as [|b ch IH]; intros c ND.
  - destruct c; cbn; constructor.
  - cbn [flat_map] in ND. destruct c; cbn [nth].
    + eapply NoDup_app_l. exact ND.
    + apply IH. eapply NoDup_app_r. exact ND.
Qed.

Lemma in_commits_in_all ch c x : In x (map fst (commits_at ch c)) -> In x (all_commit_ids ch).
Proof.
  unfold all_commit_ids, commits_at, block_at. revert c.
  induction ch as [|b ch IH]; intros c H.
  - destruct c; cbn in H; contradiction.
  - cbn [flat_map]. apply in_or_app. destruct c; cbn [nth] in H; [left; exact H|right; eauto].
Qed.

Lemma commits_disjoint ch c1 c2 x :
  commits_unique ch -> c1 < c2 ->
  In x (map fst (commits_at ch c1)) -> In x (map fst (commits_at ch c2)) -> False.
Proof.
  unfold commits_unique. revert c1 c2.
  induction ch as [|b ch IH]; intros c1 c2 ND Hlt H1 H2.
  - unfold commits_at, block_at in H1. destruct c1; cbn in H1; contradiction.
  - unfold all_commit_ids in ND. cbn [flat_map] in ND. fold (all_commit_ids ch) in ND.
    destruct c2 as [|c2]; [lia|].
    destruct c1 as [|c1].
    + unfold commits_at, block_at in H1, H2. cbn [nth] in H1, H2.
      eapply NoDup_app_disjoint; [exact ND|exact H1|].
      apply (in_commits_in_all ch c2). exact H2.
    + apply (IH c1 c2); auto; [eapply NoDup_app_r; exact ND|lia].
Qed.

(* ids committed at heights lo, lo+1, …, lo+n-1 *)
Definition committed_in (ch : rchain) (lo n : nat) : list N :=
  flat_map (fun c => map fst (commits_at ch c)) (seq lo n).

Lemma committed_in_spec ch lo n x :
  In x (committed_in ch lo n) <-> exists c, lo <= c < lo + n /\ In x (map fst (commits_at ch c)).
Proof.
  unfold committed_in. rewrite in_flat_map. split.
  - intros (c & Hc & H). apply in_seq in Hc. eauto.
  - intros (c & Hc & H). exists c. split; auto. apply in_seq. exact Hc.
Qed.

(* ---- the first-proposer rule, characterised ------------------------------------------ *)
Lemma find_seq_least (f : nat -> bool) n : forall a x,
  find f (seq a n) = Some x <->
  a <= x < a + n /\ f x = true /\ forall p, a <= p < x -> f p = false.
Proof.
  induction n as [|n IH]; intros a x; cbn [seq find].
  - split; [discriminate|]. intros (H & _). lia.
  - destruct (f a) eqn:Ea.
    + split.
      * intros H. inversion H; subst. repeat split; auto; try lia.
      * intros (Hr & Hx & Hmin). destruct (Nat.eq_dec x a) as [->|ne]; auto.
        rewrite (Hmin a) in Ea by lia. discriminate.
    + rewrite IH. split.
      * intros (Hr & Hx & Hmin). repeat split; auto; try lia.
        intros p Hp. destruct (Nat.eq_dec p a) as [->|ne]; auto. apply Hmin. lia.
      * intros (Hr & Hx & Hmin). assert (x <> a) by (intros ->; congruence).
        repeat split; auto; try lia. intros p Hp. apply Hmin. lia.
Qed.

Definition earlier_proposer (w : rwindow) (ch : rchain) (t c : nat) (id : N) : Prop :=
  exists p, Nat.max (c - rw_far w) 1 <= p < t /\ mem id (props_at ch p) = true.

Lemma pays_char w ch t c id :
  wf_window w -> 1 <= t -> t + rw_close w <= c <= t + rw_far w ->
  (pays w ch t c id = true <->
   mem id (props_at ch t) = true /\ ~ earlier_proposer w ch t c id).
Proof.
  intros [W1 W2] Ht Hc. unfold pays, first_proposer.
  set (f := fun p => covers w p c && mem id (props_at ch p)).
  split.
  - destruct (find f (seq 1 c)) as [p|] eqn:E; [|discriminate].
    intros Hp. apply Nat.eqb_eq in Hp. subst p.
    apply find_seq_least in E. destruct E as (Hr & Hf & Hmin).
    unfold f in Hf. apply andb_true_iff in Hf. destruct Hf as [_ Hf]. split; auto.
    intros (p & Hp & Hm). specialize (Hmin p ltac:(lia)). unfold f in Hmin.
    rewrite Hm, andb_true_r in Hmin. unfold covers in Hmin.
    apply andb_false_iff in Hmin. destruct Hmin as [H|H]; apply Nat.leb_gt in H; lia.
  - intros (Hm & Hno).
    assert (E : find f (seq 1 c) = Some t).
    { apply find_seq_least. repeat split; try lia.
      - unfold f, covers. rewrite Hm, andb_true_r. apply andb_true_iff.
        split; apply Nat.leb_le; lia.
      - intros p Hp. unfold f. destruct (covers w p c) eqn:Ec; cbn [andb]; auto.
        destruct (mem id (props_at ch p)) eqn:Em; auto. exfalso. apply Hno.
        exists p. split; auto. unfold covers in Ec. apply andb_true_iff in Ec.
        destruct Ec as [_ Ec]. apply Nat.leb_le in Ec. lia. }
    rewrite E. apply Nat.eqb_refl.
Qed.

(* the proposer share of a commit is paid to at most one block *)
Theorem proposer_paid_once w ch c id t1 t2 :
  pays w ch t1 c id = true -> pays w ch t2 c id = true -> t1 = t2.
Proof.
  unfold pays. destruct (first_proposer w ch c id); [|discriminate].
  intros H1 H2. apply Nat.eqb_eq in H1, H2. congruence.
Qed.

(* and only to a block that proposed the transaction inside a covering window *)
Theorem proposer_paid_is_proposer w ch c id t :
  pays w ch t c id = true ->
  1 <= t /\ covers w t c = true /\ mem id (props_at ch t) = true.
Proof.
  unfold pays, first_proposer. destruct (find _ _) as [p|] eqn:E; [|discriminate].
  intros H. apply Nat.eqb_eq in H. subst p. apply find_seq_least in E.
  destruct E as (Hr & Hf & _). apply andb_true_iff in Hf. intuition lia.
Qed.

(* ---- the walk = the rule -------------------------------------------------------------- *)
Lemma flat_map_nil {A B} (f : A -> list B) l : (forall x, In x l -> f x = []) -> flat_map f l = [].
Proof.
  induction l as [|a l IH]; cbn; intros H; auto.
  rewrite (H a) by (left; reflexivity). apply IH. intros x Hx. apply H. right. exact Hx.
Qed.

Lemma filter_nil {A} (f : A -> bool) l : (forall x, In x l -> f x = false) -> filter f l = [].
Proof.
  induction l as [|a l IH]; cbn; intros H; auto.
  rewrite (H a) by (left; reflexivity). apply IH. intros x Hx. apply H. right. exact Hx.
Qed.

Lemma rev_seq_S a m : rev (seq a (S m)) = (a + m) :: rev (seq a m).
Proof. rewrite seq_S, rev_app_distr. reflexivity. Qed.

Lemma bool_eq_iff (b1 b2 : bool) : (b1 = true <-> b2 = true) -> b1 = b2.
Proof.
  destruct b1, b2; intros [H1 H2]; auto.
  symmetry. apply H1. reflexivity.
Qed.

(* the block at height c, walked with a [proposed] set that is exact for c,
   pays exactly the fees the rule assigns to t *)
Lemma sel_is_paid w ch t c proposed :
  wf_window w -> 1 <= t -> t + rw_close w <= c <= t + rw_far w ->
  (forall x, mem x proposed = true <-> earlier_proposer w ch t c x) ->
  map snd (sel (props_at ch t) proposed (commits_at ch c)) = paid_at w ch t c.
Proof.
  intros W Ht Hc Hb. unfold paid_at, sel. f_equal. apply filter_ext. intros [id fee]. cbn [fst].
  symmetry. apply bool_eq_iff. rewrite (pays_char w ch t c id W Ht Hc).
  rewrite andb_true_iff, negb_true_iff. rewrite <- Hb.
  destruct (mem id proposed); intuition congruence.
Qed.

Lemma walk_spec w r ch t :
  wf_window w -> 2 <= t -> commits_unique ch ->
  forall fuel i proposed tp reward,
    t + rw_close w <= i <= t + rw_far w -> i <= fuel ->
    (forall x, mem x tp = mem x (props_at ch t)
                          && negb (mem x (committed_in ch i (t + rw_far w + 1 - i)))) ->
    (forall x, mem x proposed = true <-> earlier_proposer w ch t i x) ->
    reward_walk w r ch (t + rw_close w) fuel i proposed tp reward =
    sum_shares r (flat_map (paid_at w ch t) (rev (seq (t + rw_close w) (i - (t + rw_close w))))) reward.
Proof.
  intros W Ht U. pose proof W as [W1 W2].
  induction fuel as [|fuel IH]; intros i proposed tp reward Hi Hf Ha Hb; [lia|].
  cbn [reward_walk].
  destruct ((t + rw_close w <? i) && negb (is_empty tp)) eqn:Econt.
  - apply andb_true_iff in Econt. destruct Econt as [Hlt Hne]. apply Nat.ltb_lt in Hlt.
    set (c := i - 1).
    assert (Ec : i - (t + rw_close w) = S (c - (t + rw_close w))) by lia.
    rewrite Ec, rev_seq_S. replace (t + rw_close w + (c - (t + rw_close w))) with c by lia.
    cbn [flat_map]. rewrite sum_shares_app.
    set (proposed' := proposed ++ props_at ch (Nat.max (c - rw_far w) 1)).
    assert (Hb' : forall x, mem x proposed' = true <-> earlier_proposer w ch t c x).
    { intros x. unfold proposed'. rewrite mem_app, orb_true_iff, Hb. unfold earlier_proposer. split.
      - intros [(p & Hp & Hm)|Hm].
        + exists p. split; auto. lia.
        + exists (Nat.max (c - rw_far w) 1). split; auto. lia.
      - intros (p & Hp & Hm).
        destruct (le_lt_dec (Nat.max (i - rw_far w) 1) p) as [Hge|Hlt2].
        + left. exists p. split; auto. lia.
        + right. replace (Nat.max (c - rw_far w) 1) with p by lia. exact Hm. }
    assert (Hc : t + rw_close w <= c <= t + rw_far w) by lia.
    rewrite <- (sel_is_paid w ch t c proposed' W ltac:(lia) Hc Hb').
    assert (Hm : forall id, In id (map fst (commits_at ch c)) -> mem id tp = mem id (props_at ch t)).
    { intros id Hin. rewrite Ha.
      assert (E : mem id (committed_in ch i (t + rw_far w + 1 - i)) = false).
      { apply mem_false. intros H. apply committed_in_spec in H. destruct H as (c' & Hc' & Hin').
        apply (commits_disjoint ch c c' id U); auto. lia. }
      rewrite E. apply andb_true_r. }
    pose proof (block_pass_spec r (props_at ch t) proposed' (commits_at ch c) tp reward
                                (commits_at_nodup ch c U) Hm) as Hpost.
    unfold pass_post in Hpost.
    destruct (block_pass r proposed' (commits_at ch c) tp reward) as [[tp' rw]|]; cbn [bind fst snd].
    + destruct Hpost as [Hsum Htp']. rewrite Hsum. cbn [bind].
      replace (c - (t + rw_close w)) with (c - (t + rw_close w)) by reflexivity.
      apply IH; auto; try lia.
      intros x. rewrite Htp', Ha.
      replace (t + rw_far w + 1 - c) with (S (t + rw_far w + 1 - i)) by lia.
      unfold committed_in at 2. cbn [seq flat_map]. fold (committed_in ch (S c) (t + rw_far w + 1 - i)).
      replace (S c) with i by lia. rewrite mem_app, negb_orb.
      destruct (mem x (props_at ch t)), (mem x (map fst (commits_at ch c))),
        (mem x (committed_in ch i (t + rw_far w + 1 - i))); reflexivity.
    + rewrite Hpost. reflexivity.
  - (* the loop stops: nothing below is paid to t *)
    rewrite flat_map_nil; [reflexivity|].
    intros c Hc. apply in_rev, in_seq in Hc.
    apply andb_false_iff in Econt. destruct Econt as [Hstop|Hempty].
    + apply Nat.ltb_ge in Hstop. lia.
    + apply negb_false_iff in Hempty. pose proof (is_empty_mem tp Hempty) as Hnone.
      unfold paid_at.
      assert (E : filter (fun cm => pays w ch t c (fst cm)) (commits_at ch c) = []).
      { apply filter_nil. intros [id fee] Hin. cbn [fst].
        destruct (pays w ch t c id) eqn:Ep; auto. exfalso.
        apply (pays_char w ch t c id W ltac:(lia) ltac:(lia)) in Ep. destruct Ep as [HP _].
        specialize (Ha id). rewrite Hnone, HP in Ha. cbn [andb] in Ha.
        symmetry in Ha. apply negb_false_iff, mem_true, committed_in_spec in Ha.
        destruct Ha as (c' & Hc' & Hin').
        apply (commits_disjoint ch c c' id U); auto; [lia|].
        apply in_map_iff. exists (id, fee). split; auto. }
      rewrite E. reflexivity.
Qed.

(* RewardCalculator::proposal_reward(parent = t + w_far, target = t) pays t the
   proposer shares of exactly the committed transactions whose first proposer
   is t — same fees, same order, same overflow behaviour — for every chain
   and every target height t >= 2 *)
Theorem proposal_reward_eq_spec w r ch t :
  wf_window w -> 2 <= t -> commits_unique ch ->
  proposal_reward w r ch (t + rw_far w) t = proposer_part_spec w r ch t.
Proof.
  intros W Ht U. pose proof W as [W1 W2].
  unfold proposal_reward, proposer_part_spec, paid_fees.
  replace (Nat.max (t + rw_far w + 1 - rw_length w) (1 + rw_close w)) with (t + rw_close w)
    by (unfold rw_length; lia).
  replace (rw_length w) with (S (rw_far w - rw_close w)) by (unfold rw_length; lia).
  rewrite rev_seq_S. replace (t + rw_close w + (rw_far w - rw_close w)) with (t + rw_far w) by lia.
  cbn [flat_map]. rewrite sum_shares_app.
  set (T := t + rw_far w).
  assert (Hb : forall x, mem x [] = true <-> earlier_proposer w ch t T x).
  { intros x. split; [discriminate|]. intros (p & Hp & _). unfold T in Hp. lia. }
  rewrite <- (sel_is_paid w ch t T [] W ltac:(lia) ltac:(unfold T; lia) Hb).
  pose proof (block_pass_spec r (props_at ch t) [] (commits_at ch T) (props_at ch t) 0%N
                              (commits_at_nodup ch T U) (fun _ _ => eq_refl)) as Hpost.
  unfold pass_post in Hpost.
  destruct (block_pass r [] (commits_at ch T) (props_at ch t) 0%N) as [[tp' rw]|]; cbn [bind fst snd].
  - destruct Hpost as [Hsum Htp']. rewrite Hsum. cbn [bind].
    replace (rw_far w - rw_close w) with (T - (t + rw_close w)) by (unfold T; lia).
    apply walk_spec; auto; try (unfold T; lia).
    intros x. rewrite Htp'. replace (t + rw_far w + 1 - T) with 1 by (unfold T; lia).
    unfold committed_in. cbn [seq flat_map]. now rewrite app_nil_r.
  - rewrite Hpost. reflexivity.
Qed.

(* F4: for the block at height 1 the statement is false — block 1 proposes a
   transaction that is committed in block 4 (window (2,5), fee 1000): the rule
   gives 400, the walk 0 *)
Definition f4_chain : rchain :=
  [empty_block; mkRB [7%N] []; empty_block; empty_block; mkRB [] [(7%N, 1000%N)];
   empty_block; empty_block].
Theorem proposal_reward_t1_refuted :
  exists w r ch,
    wf_window w /\ commits_unique ch /\
    proposer_part_spec w r ch 1 = Some 400%N /\
    proposal_reward w r ch (1 + rw_far w) 1 = Some 0%N.
Proof.
  exists (mkRW 2 5), (mkRatio 4 10), f4_chain. repeat split.
  - cbn. lia.
  - cbn. lia.
  - unfold commits_unique. cbn. repeat constructor. intros [].
Qed.

(* the same pattern one block later is paid *)
Example proposal_reward_t2_example :
  proposal_reward (mkRW 2 5) (mkRatio 4 10) (empty_block :: f4_chain) (2 + 5) 2 = Some 400%N
  /\ commits_unique (empty_block :: f4_chain).
Proof. split; [reflexivity|]. unfold commits_unique. cbn. repeat constructor. intros []. Qed.

(* a richer chain: re-proposals, an expired proposal, two commits of one block *)
Definition ex_chain : rchain :=
  [empty_block;
   mkRB [1%N] [];                          (* 1 *)
   mkRB [1%N; 2%N; 3%N] [];                (* 2: re-proposes 1 *)
   mkRB [4%N] [];                          (* 3 *)
   mkRB [2%N] [];                          (* 4: re-proposes 2 *)
   mkRB [] [(1%N, 1000%N)];                (* 5: first proposer of 1 is block 1 *)
   mkRB [] [(3%N, 55%N); (4%N, 1006%N)];   (* 6: 3 -> block 2, 4 -> block 3 *)
   empty_block; empty_block;
   mkRB [] [(2%N, 999%N)]                  (* 9: block 2's window (<= 7) expired, first proposer is block 4 *)
  ].
Example proposal_reward_example :
  commits_unique ex_chain /\
  map (fun t => proposal_reward (mkRW 2 5) (mkRatio 4 10) ex_chain (t + 5) t) [2; 3; 4]
  = [Some 22%N; Some 402%N; Some 399%N].
Proof.
  split; [|reflexivity]. unfold commits_unique. cbn.
  repeat constructor; cbn; intuition discriminate.
Qed.
