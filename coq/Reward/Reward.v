(* Reward/Reward.v — executable model of util/reward-calculator/src/lib.rs
   (RewardCalculator::{txs_fees, proposal_reward}), of Capacity::safe_mul_ratio
   (util/occupied-capacity/core/src/units.rs) and the declarative
   specification of the proposer reward.  [None] = an Err(Overflow) of a
   CapacityResult or a panic.  No proofs here (Reward/RewardProofs.v). *)
From CKB Require Export Arith.U.
From Coq Require Export Arith Lia.

(* ---- Ratio, Capacity::safe_mul_ratio ------------------------------------- *)
Record ratio := mkRatio { r_numer : N; r_denom : N }.

(* self.0.checked_mul(ratio.numer()).and_then(|ret| ret.checked_div(ratio.denom()))
   — the product is a u64 product (NOT u128) *)
Definition safe_mul_ratio (x : N) (r : ratio) : option N :=
  m <- mul64 x (r_numer r) ;; div64 m (r_denom r).

(* one fee: proposer = tx_fee.safe_mul_ratio(ratio); miner = tx_fee.safe_sub(proposer) *)
Definition fee_split (r : ratio) (fee : N) : option (N * N) :=
  proposer <- safe_mul_ratio fee r ;; miner <- sub64 fee proposer ;; Some (proposer, miner).

(* RewardCalculator::txs_fees: try_fold over BlockExt.txs_fees *)
Fixpoint txs_fees_from (r : ratio) (acc : N) (fees : list N) : option N :=
  match fees with
  | [] => Some acc
  | f :: fs => pm <- fee_split r f ;; acc' <- add64 acc (snd pm) ;; txs_fees_from r acc' fs
  end.
Definition txs_fees (r : ratio) (fees : list N) : option N := txs_fees_from r 0%N fees.

(* ---- the chain as far as rewards are concerned --------------------------- *)
(* ids: ProposalShortIds numbered by the harness (a collision of short ids is
   an equality of ids, as in the code) *)
Record rblock := mkRB {
  rb_props : list N;         (* get_proposal_ids_by_hash: the block's proposals and its uncles' *)
  rb_commits : list (N * N)  (* committed_idx zipped with BlockExt.txs_fees: (short id, fee)
                                of the non-cellbase transactions, in block order *)
}.
Definition rchain := list rblock.   (* element h = main-chain block at height h; 0 = genesis *)
Definition empty_block := mkRB [] [].
Definition block_at (ch : rchain) (h : nat) : rblock := nth h ch empty_block.
Definition props_at (ch : rchain) (h : nat) : list N := rb_props (block_at ch h).
Definition commits_at (ch : rchain) (h : nat) : list (N * N) := rb_commits (block_at ch h).

(* ProposalWindow(closest, farthest); length() = self.1 - self.0 + 1 (panics
   for farthest < closest; the theorems assume closest <= farthest) *)
Record rwindow := mkRW { rw_close : nat; rw_far : nat }.
Definition rw_length (w : rwindow) : nat := rw_far w - rw_close w + 1.

(* HashSet<ProposalShortId> as a list: membership, remove (all copies) *)
Definition mem (x : N) (l : list N) : bool := existsb (N.eqb x) l.
Definition remove_id (x : N) (l : list N) : list N := filter (fun y => negb (N.eqb x y)) l.
Definition is_empty (l : list N) : bool := match l with [] => true | _ => false end.

(* the loop over committed_idx.zip(txs_fees) of one block:
     if target_proposals.remove(&id) && !proposed.contains(&id) { reward += fee * ratio }
   (the first block is walked with nothing in [proposed]); remove happens even
   when the id is in [proposed] *)
Fixpoint commit_pass (r : ratio) (proposed : list N) (commits : list (N * N))
         (tp : list N) (reward : N) : option (list N * N) :=
  match commits with
  | [] => Some (tp, reward)
  | (id, fee) :: cs =>
    if mem id tp then
      let tp' := remove_id id tp in
      if negb (mem id proposed) then
        share <- safe_mul_ratio fee r ;; reward' <- add64 reward share ;;
        commit_pass r proposed cs tp' reward'
      else commit_pass r proposed cs tp' reward
    else commit_pass r proposed cs tp reward
  end.

(* let has_committed = target_proposals.intersection(committed ids).next().is_some() *)
Definition has_committed (commits : list (N * N)) (tp : list N) : bool :=
  existsb (fun c => mem (fst c) tp) commits.
Definition block_pass (r : ratio) (proposed : list N) (commits : list (N * N))
           (tp : list N) (reward : N) : option (list N * N) :=
  if has_committed commits tp then commit_pass r proposed commits tp reward
  else Some (tp, reward).

(* while index.number() > competing_commit_start && !target_proposals.is_empty() { … } *)
Fixpoint reward_walk (w : rwindow) (r : ratio) (ch : rchain) (ccs : nat) (fuel : nat)
         (index : nat) (proposed tp : list N) (reward : N) : option N :=
  match fuel with
  | O => Some reward
  | S f =>
    if (ccs <? index) && negb (is_empty tp) then
      let index' := (index - 1) in                             (* the parent header *)
      let cps := Nat.max (index' - rw_far w) 1 in                  (* competing_proposal_start *)
      let proposed' := proposed ++ props_at ch cps in              (* proposed.extend(previous_ids) *)
      st <- block_pass r proposed' (commits_at ch index') tp reward ;;
      reward_walk w r ch ccs f index' proposed' (fst st) (snd st)
    else Some reward
  end.

(* fn proposal_reward(&self, parent, target): heights of parent and target *)
Definition proposal_reward (w : rwindow) (r : ratio) (ch : rchain) (parent target : nat)
  : option N :=
  let tp0 := props_at ch target in
  let block_number := (parent + 1) in
  let ccs := Nat.max (block_number - rw_length w) (1 + rw_close w) in   (* competing_commit_start *)
  st <- block_pass r [] (commits_at ch parent) tp0 0%N ;;
  reward_walk w r ch ccs parent parent [] (fst st) (snd st).

(* Consensus::finalize_target (for block_number <> 0) *)
Definition finalize_target (w : rwindow) (block_number : nat) : nat :=
  block_number - (rw_far w + 1).

(* ---- specification -------------------------------------------------------- *)
Definition wf_window (w : rwindow) : Prop := 1 <= rw_close w <= rw_far w.

(* a transaction proposed at height p may be committed at heights
   p + w_close ..= p + w_far *)
Definition covers (w : rwindow) (p c : nat) : bool :=
  (p + rw_close w <=? c) && (c <=? p + rw_far w).

(* the first proposer of the transaction [id] committed at height [c]: the
   least height p >= 1 whose window covers c and whose block (or one of its
   uncles) proposes id *)
Definition first_proposer (w : rwindow) (ch : rchain) (c : nat) (id : N) : option nat :=
  find (fun p => covers w p c && mem id (props_at ch p)) (seq 1 c).

Definition pays (w : rwindow) (ch : rchain) (t c : nat) (id : N) : bool :=
  match first_proposer w ch c id with Some p => Nat.eqb p t | None => false end.

(* fees whose proposer share goes to block t, heights t+w_far down to t+w_close,
   block order inside a height *)
Definition paid_at (w : rwindow) (ch : rchain) (t c : nat) : list N :=
  map snd (filter (fun cm => pays w ch t c (fst cm)) (commits_at ch c)).
Definition paid_fees (w : rwindow) (ch : rchain) (t : nat) : list N :=
  flat_map (paid_at w ch t) (rev (seq (t + rw_close w) (rw_length w))).

(* sum of proposer shares with the code's checked u64 arithmetic *)
Fixpoint sum_shares (r : ratio) (fees : list N) (acc : N) : option N :=
  match fees with
  | [] => Some acc
  | f :: fs => share <- safe_mul_ratio f r ;; acc' <- add64 acc share ;; sum_shares r fs acc'
  end.
Definition proposer_part_spec (w : rwindow) (r : ratio) (ch : rchain) (t : nat) : option N :=
  sum_shares r (paid_fees w ch t) 0%N.

(* every transaction is committed at most once on a chain *)
Definition all_commit_ids (ch : rchain) : list N :=
  flat_map (fun b => map fst (rb_commits b)) ch.
Definition commits_unique (ch : rchain) : Prop := NoDup (all_commit_ids ch).

(* F4: what the code pays to the block at height 1 — only the commits at the
   last height of its window *)
Definition paid_fees_t1 (w : rwindow) (ch : rchain) : list N := paid_at w ch 1 (1 + rw_far w).
