(* Reward/Dao.v — executable model of util/dao/src/lib.rs (DaoCalculator::
   {secondary_block_reward, dao_field_with_current_epoch, transaction_fee,
   calculate_maximum_withdraw}), util/dao/utils/src/lib.rs (pack_dao_data /
   extract_dao_data), RewardCalculator::block_reward_internal and the amount
   part of RewardVerifier.  [None] = Err(Overflow) / panic.  No proofs here
   (Reward/DaoProofs.v). *)
From CKB Require Export Arith.U Arith.EpochExt Reward.Reward.

(* ---- the 32-byte dao field -------------------------------------------------- *)
Record dao := mkDao { d_ar : N; d_c : N; d_s : N; d_u : N }.

(* LittleEndian::write_u64 / read_u64 *)
Fixpoint le_encode (k : nat) (x : N) : list N :=
  match k with O => [] | S k' => (x mod 256)%N :: le_encode k' (x / 256)%N end.
Fixpoint le_decode (bs : list N) : N :=
  match bs with [] => 0%N | b :: r => (b + 256 * le_decode r)%N end.

(* buf[0..8] = c, buf[8..16] = ar, buf[16..24] = s, buf[24..32] = u *)
Definition pack_dao (d : dao) : list N :=
  le_encode 8 (d_c d) ++ le_encode 8 (d_ar d) ++ le_encode 8 (d_s d) ++ le_encode 8 (d_u d).
Definition extract_dao (bs : list N) : dao :=
  mkDao (le_decode (firstn 8 (skipn 8 bs))) (le_decode (firstn 8 bs))
        (le_decode (firstn 8 (skipn 16 bs))) (le_decode (firstn 8 (skipn 24 bs))).

(* the byte ranges of c, ar, s, u *)
Definition dao_field_ranges : list (nat * nat) := [(0, 8); (8, 16); (16, 24); (24, 32)]%nat.
Definition read_range (bs : list N) (r : nat * nat) : N :=
  le_decode (firstn (snd r - fst r) (skipn (fst r) bs)).

Definition dao_eqb (a b : dao) : bool :=
  ((d_ar a =? d_ar b) && (d_c a =? d_c b) && (d_s a =? d_s b) && (d_u a =? d_u b))%N.

(* ---- u128 intermediates ------------------------------------------------------ *)
(* u128::from(a) * u128::from(b) / u128::from(c) for u64 a b c (the product
   cannot overflow u128; c = 0 panics), then u64::try_from *)
Definition mul_div_u64 (a b c : N) : option N :=
  if (c =? 0)%N then None else chk W64 (a * b / c)%N.

(* DaoCalculator::secondary_block_reward(target): 0 for the genesis block,
   otherwise target_g2 * parent_u / parent_c of the TARGET'S PARENT *)
Definition secondary_block_reward (sec : N) (e : epoch_ext) (target_number : N)
           (target_parent : dao) : option N :=
  if (target_number =? 0)%N then Some 0%N else
  g2 <- ee_secondary_block_issuance e target_number sec ;;
  mul_div_u64 g2 (d_u target_parent) (d_c target_parent).

(* DaoCalculator::dao_field_with_current_epoch; [added]/[freed]/[interest] are
   added_occupied_capacities, the freed occupied capacities of consumed
   inputs and withdrawed_interests of the block's transactions *)
Definition dao_step (sec : N) (e : epoch_ext) (parent : dao) (number : N)
           (added freed interest : N) : option dao :=
  g2 <- ee_secondary_block_issuance e number sec ;;
  br <- ee_block_reward e number ;;
  g <- add64 br g2 ;;
  miner <- mul_div_u64 g2 (d_u parent) (d_c parent) ;;
  nervosdao <- sub64 g2 miner ;;
  c' <- add64 (d_c parent) g ;;
  u1 <- add64 (d_u parent) added ;;
  u' <- sub64 u1 freed ;;
  s1 <- add64 (d_s parent) nervosdao ;;
  s' <- sub64 s1 interest ;;
  inc <- mul_div_u64 (d_ar parent) g2 (d_c parent) ;;
  ar' <- add64 (d_ar parent) inc ;;
  Some (mkDao ar' c' s' u').

(* ---- cells and transactions, as far as capacity is concerned ----------------- *)
(* a NervosDAO withdrawing input: the accumulated rates of the deposit and of
   the withdrawing header *)
Record withdraw_info := mkWd { wd_deposit_ar : N; wd_withdraw_ar : N }.

Record cell := mkCell {
  c_id : N;                    (* out point, numbered by the harness *)
  c_capacity : N;
  c_occupied : N;              (* modified_occupied_capacity (the satoshi cell at its ratio) *)
  c_withdraw : option withdraw_info
}.

(* DaoCalculator::calculate_maximum_withdraw; `as u64` truncates silently *)
Definition maximum_withdraw (capacity occupied deposit_ar withdraw_ar : N) : option N :=
  counted <- sub64 capacity occupied ;;
  if (deposit_ar =? 0)%N then None else
  let wc := (counted * withdraw_ar / deposit_ar)%N in
  add64 (wc mod W64)%N occupied.

Definition input_max_withdraw (c : cell) : option N :=
  match c_withdraw c with
  | Some wd => maximum_withdraw (c_capacity c) (c_occupied c) (wd_deposit_ar wd) (wd_withdraw_ar wd)
  | None => Some (c_capacity c)
  end.

Fixpoint sum64 {A} (f : A -> option N) (l : list A) (acc : N) : option N :=
  match l with
  | [] => Some acc
  | x :: l' => v <- f x ;; acc' <- add64 acc v ;; sum64 f l' acc'
  end.

Record tx := mkTx { tx_inputs : list cell; tx_outputs : list cell }.

Definition tx_maximum_withdraw (t : tx) : option N := sum64 input_max_withdraw (tx_inputs t) 0%N.
Definition tx_outputs_capacity (t : tx) : option N :=
  sum64 (fun c => Some (c_capacity c)) (tx_outputs t) 0%N.
Definition tx_inputs_capacity (t : tx) : option N :=
  sum64 (fun c => Some (c_capacity c)) (tx_inputs t) 0%N.

(* DaoCalculator::transaction_fee *)
Definition transaction_fee (t : tx) : option N :=
  mw <- tx_maximum_withdraw t ;; oc <- tx_outputs_capacity t ;; sub64 mw oc.

Definition all_inputs (txs : list tx) : list cell := flat_map tx_inputs txs.
Definition all_outputs (txs : list tx) : list cell := flat_map tx_outputs txs.

(* the three sums of dao_field_with_current_epoch (each a checked u64 sum; the
   order of the additions does not matter for the value nor for overflow) *)
Definition freed_occupied (txs : list tx) : option N :=
  sum64 (fun c => Some (c_occupied c)) (all_inputs txs) 0%N.
Definition added_occupied (txs : list tx) : option N :=
  sum64 (fun c => Some (c_occupied c)) (all_outputs txs) 0%N.
Definition withdrawed_interests (txs : list tx) : option N :=
  mw <- sum64 tx_maximum_withdraw txs 0%N ;;
  ic <- sum64 tx_inputs_capacity txs 0%N ;;
  sub64 mw ic.

(* dao_field: all transactions of the block, the cellbase included *)
Definition dao_field (sec : N) (e : epoch_ext) (parent : dao) (number : N) (txs : list tx)
  : option dao :=
  freed <- freed_occupied txs ;;
  added <- added_occupied txs ;;
  interest <- withdrawed_interests txs ;;
  dao_step sec e parent number added freed interest.

(* ---- the live-cell set ------------------------------------------------------- *)
Definition live_set := list cell.
Definition cell_in (i : N) (l : list cell) : bool := existsb (fun c => (c_id c =? i)%N) l.
Definition remove_cells (dead : list cell) (live : live_set) : live_set :=
  filter (fun c => negb (cell_in (c_id c) dead)) live.
(* attach: outputs become live, inputs die (outputs spent inside the same block too) *)
Definition apply_block (live : live_set) (txs : list tx) : live_set :=
  remove_cells (all_inputs txs) (live ++ all_outputs txs).
Definition occupied_of (l : list cell) : N := fold_right (fun c a => (c_occupied c + a)%N) 0%N l.
Definition capacity_of (l : list cell) : N := fold_right (fun c a => (c_capacity c + a)%N) 0%N l.

(* the dao fields along a chain: [blocks] = (epoch, transactions) of the blocks
   at heights h, h+1, ...; returns the last field and the live set *)
Fixpoint dao_run (sec : N) (parent : dao) (live : live_set) (h : N)
         (blocks : list (epoch_ext * list tx)) : option (dao * live_set) :=
  match blocks with
  | [] => Some (parent, live)
  | (e, txs) :: bs =>
    d <- dao_field sec e parent h txs ;; dao_run sec d (apply_block live txs) (h + 1)%N bs
  end.

(* primary + secondary issuance of these blocks, unbounded sum *)
Fixpoint issuance_run (sec : N) (h : N) (blocks : list (epoch_ext * list tx)) : option N :=
  match blocks with
  | [] => Some 0%N
  | (e, _) :: bs =>
    p <- ee_block_reward e h ;; g2 <- ee_secondary_block_issuance e h sec ;;
    rest <- issuance_run sec (h + 1)%N bs ;; Some (p + g2 + rest)%N
  end.

(* a block is applicable to a live set: cell ids are unique, every input is a
   live cell or an output of the block, no cell is spent twice *)
Definition cell_ids (l : list cell) : list N := map c_id l.
Definition block_applicable (live : live_set) (txs : list tx) : Prop :=
  NoDup (cell_ids (live ++ all_outputs txs)) /\
  NoDup (cell_ids (all_inputs txs)) /\
  incl (all_inputs txs) (live ++ all_outputs txs).
Fixpoint chain_applicable (live : live_set) (blocks : list (epoch_ext * list tx)) : Prop :=
  match blocks with
  | [] => True
  | (_, txs) :: bs => block_applicable live txs /\ chain_applicable (apply_block live txs) bs
  end.

(* ---- full blocks ---------------------------------------------------------------- *)
Record fblock := mkFB {
  fb_epoch : epoch_ext;        (* the epoch the block is in *)
  fb_dao : dao;                (* header.dao(), extracted *)
  fb_r : rblock;               (* proposals and (id, fee) of the committed transactions *)
  fb_txs : list tx             (* all transactions, the cellbase first *)
}.
Definition fchain := list fblock.
Definition empty_fblock :=
  mkFB (mkEpochExt 0 0 0 0 0 0 0) (mkDao 0 0 0 0) empty_block [].
Definition fblock_at (ch : fchain) (h : nat) : fblock := nth h ch empty_fblock.
Definition rchain_of (ch : fchain) : rchain := map fb_r ch.

Record consensus := mkCons {
  cs_window : rwindow;
  cs_ratio : ratio;            (* proposer_reward_ratio *)
  cs_secondary : N             (* secondary_epoch_reward *)
}.

Record block_reward := mkReward {
  br_total : N; br_primary : N; br_secondary : N; br_tx_fee : N; br_proposal : N }.

(* RewardCalculator::block_reward_internal(target, parent) *)
Definition block_reward_internal (cs : consensus) (ch : fchain) (parent target : nat)
  : option block_reward :=
  let tb := fblock_at ch target in
  fees <- txs_fees (cs_ratio cs) (map snd (rb_commits (fb_r tb))) ;;
  prop <- proposal_reward (cs_window cs) (cs_ratio cs) (rchain_of ch) parent target ;;
  primary <- ee_block_reward (fb_epoch tb) (N.of_nat target) ;;
  secondary <- secondary_block_reward (cs_secondary cs) (fb_epoch tb) (N.of_nat target)
                                      (fb_dao (fblock_at ch (target - 1))) ;;
  t1 <- add64 fees prop ;; t2 <- add64 t1 primary ;; total <- add64 t2 secondary ;;
  Some (mkReward total primary secondary fees prop).

(* RewardCalculator::block_reward_to_finalize(parent) *)
Definition block_reward_to_finalize (cs : consensus) (ch : fchain) (parent : nat)
  : option block_reward :=
  block_reward_internal cs ch parent (finalize_target (cs_window cs) (parent + 1)).

(* RewardVerifier::verify, the amount: [min_cell] is the capacity below which
   the reward cannot create the target's cell (is_lack_of_capacity) *)
Definition reward_verifier_ok (cs : consensus) (ch : fchain) (parent : nat) (min_cell : N)
           (cellbase_outputs : list N) : option bool :=
  rw <- block_reward_to_finalize cs ch parent ;;
  let no_target := (parent + 1 <=? rw_far (cs_window cs) + 1) in
  let insufficient := (br_total rw <? min_cell)%N in
  if no_target || insufficient then Some (is_empty cellbase_outputs)
  else
    oc <- sum64 (fun c => Some c) cellbase_outputs 0%N ;;
    Some (oc =? br_total rw)%N.

(* ---- declarative reward -------------------------------------------------------- *)
(* primary issuance + miner share of secondary issuance + committer shares +
   first-proposer shares, in unbounded arithmetic *)
Definition share_of (r : ratio) (fee : N) : N := (fee * r_numer r / r_denom r)%N.
Definition sumN (l : list N) : N := fold_right N.add 0%N l.
Definition reward_spec (cs : consensus) (ch : fchain) (t : nat) : option N :=
  let tb := fblock_at ch t in
  let r := cs_ratio cs in
  primary <- ee_block_reward (fb_epoch tb) (N.of_nat t) ;;
  g2 <- ee_secondary_block_issuance (fb_epoch tb) (N.of_nat t) (cs_secondary cs) ;;
  let pd := fb_dao (fblock_at ch (t - 1)) in
  if (d_c pd =? 0)%N then None else
  Some (primary + g2 * d_u pd / d_c pd
        + sumN (map (fun cm => snd cm - share_of r (snd cm)) (rb_commits (fb_r tb)))
        + sumN (map (share_of r) (paid_fees (cs_window cs) (rchain_of ch) t)))%N.

(* ---- cases written by the harness (hx-reward) ---------------------------------- *)
Definition option_dao_eqb (a : option dao) (b : dao) : bool :=
  match a with Some x => dao_eqb x b | None => false end.

Definition reward_eqb (a : option block_reward) (b : option block_reward) : bool :=
  match a, b with
  | Some x, Some y =>
    ((br_total x =? br_total y) && (br_primary x =? br_primary y)
     && (br_secondary x =? br_secondary y) && (br_tx_fee x =? br_tx_fee y)
     && (br_proposal x =? br_proposal y))%N
  | None, None => true
  | _, _ => false
  end.

Fixpoint list_N_eqb (a b : list N) : bool :=
  match a, b with
  | [], [] => true
  | x :: a', y :: b' => (x =? y)%N && list_N_eqb a' b'
  | _, _ => false
  end.

(* what the node reported for the block at height h (h >= 1) *)
Record observed := mkObs {
  ob_reward : option block_reward;   (* block_reward_to_finalize(parent of h) *)
  ob_cellbase : list N;              (* capacities of the cellbase outputs of block h *)
  ob_live_occupied : N               (* sum of occupied capacity over COLUMN_CELL after h *)
}.

Record rcase := mkRCase {
  rc_cons : consensus;
  rc_min_cell : N;
  rc_genesis_live : live_set;
  rc_chain : fchain;                 (* genesis first *)
  rc_obs : list observed             (* for heights 1, 2, … *)
}.

(* heights 1.. : dao field recomputed from the parent's, fees of the committed
   transactions recomputed from their cells, the reward recomputed, the
   cellbase accepted by the verifier's model, U = occupied capacity of the
   live set *)
Fixpoint check_from (cs : consensus) (min_cell : N) (ch : fchain) (h : nat)
         (blocks : list fblock) (obs : list observed) (parent_dao : dao) (live : live_set) : bool :=
  match blocks, obs with
  | [], [] => true
  | b :: bs, o :: os =>
    let live' := apply_block live (fb_txs b) in
    option_dao_eqb (dao_field (cs_secondary cs) (fb_epoch b) parent_dao (N.of_nat h) (fb_txs b)) (fb_dao b)
    && list_N_eqb (map (fun t => match transaction_fee t with Some f => f | None => W64 end) (tl (fb_txs b)))
                  (map snd (rb_commits (fb_r b)))
    && reward_eqb (block_reward_to_finalize cs ch (h - 1)) (ob_reward o)
    && match reward_verifier_ok cs ch (h - 1) min_cell (ob_cellbase o) with Some true => true | _ => false end
    && (d_u (fb_dao b) =? occupied_of live')%N
    && (ob_live_occupied o =? occupied_of live')%N
    && check_from cs min_cell ch (S h) bs os (fb_dao b) live'
  | _, _ => false
  end.

Definition check_rcase (c : rcase) : bool :=
  match rc_chain c with
  | [] => false
  | g :: bs =>
    (d_u (fb_dao g) =? occupied_of (rc_genesis_live c))%N
    && check_from (rc_cons c) (rc_min_cell c) (rc_chain c) 1 bs (rc_obs c) (fb_dao g) (rc_genesis_live c)
  end.

(* stand-alone arithmetic cases: (ratio numer, denom, fee, observed safe_mul_ratio) *)
Definition check_ratio (c : N * N * N * option N) : bool :=
  let '(n, d, fee, out) := c in option_N_eqb (safe_mul_ratio fee (mkRatio n d)) out.
(* (32 bytes, extracted ar c s u, re-packed bytes) *)
Definition check_pack (c : list N * (N * N * N * N) * list N) : bool :=
  let '(bs, (ar, cc, s, u), bs') := c in
  dao_eqb (extract_dao bs) (mkDao ar cc s u) && list_N_eqb (pack_dao (mkDao ar cc s u)) bs'.
(* (capacity, occupied, deposit ar, withdraw ar, observed calculate_maximum_withdraw) *)
Definition check_withdraw (c : N * N * N * N * option N) : bool :=
  let '(cap, occ, dar, war, out) := c in option_N_eqb (maximum_withdraw cap occ dar war) out.
