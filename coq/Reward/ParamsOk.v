(* Reward/ParamsOk.v — the constants extracted from /repo on this run
   (gen/ParamsC06.v) meet the side conditions of the C06 theorems. *)
From Coq Require Import Lia.
From CKB Require Import Arith.U Reward.Reward Reward.RewardProofs Reward.Dao gen.ParamsC06.

Lemma params_window_ok :
  wf_window tx_proposal_window /\
  rw_length tx_proposal_window = tx_proposal_window_length /\
  finalization_delay_length = rw_far tx_proposal_window + 1.
Proof. unfold wf_window. cbn. repeat split; lia. Qed.

Lemma params_ratio_ok :
  (r_denom proposer_reward_ratio <> 0 /\ r_numer proposer_reward_ratio <= r_denom proposer_reward_ratio /\
   r_numer proposer_reward_ratio * 2 ^ 62 <= W64)%N.
Proof. vm_compute. repeat split; discriminate. Qed.

(* with the extracted ratio every fee below 2^62 shannons (46 * 10^9 CKB) is
   split without overflow into two shares that sum to it *)
Theorem params_fee_split : forall fee, (fee < 2 ^ 62)%N ->
  exists p m, fee_split proposer_reward_ratio fee = Some (p, m) /\ (p + m = fee)%N /\
              p = (fee * r_numer proposer_reward_ratio / r_denom proposer_reward_ratio)%N.
Proof.
  intros fee H. destruct params_ratio_ok as (D & L & B).
  assert (W : (2 ^ 62 < W64)%N) by (vm_compute; reflexivity).
  destruct (fee_split_sums proposer_reward_ratio fee) as (p & m & E & S & P & _); try assumption; try lia.
  - assert (fee * r_numer proposer_reward_ratio <= 2 ^ 62 * r_numer proposer_reward_ratio)%N
      by (apply N.mul_le_mono_r; lia).
    destruct (N.eq_dec (r_numer proposer_reward_ratio) 0) as [e|ne].
    + rewrite e, N.mul_0_r. vm_compute; reflexivity.
    + assert (fee * r_numer proposer_reward_ratio < 2 ^ 62 * r_numer proposer_reward_ratio)%N
        by (apply N.mul_lt_mono_pos_r; lia).
      lia.
  - exists p, m. auto.
Qed.

Lemma params_issuance_ok :
  (default_secondary_epoch_reward < W64 /\ initial_primary_epoch_reward < W64 /\
   0 < default_genesis_accumulate_rate < W64)%N.
Proof. vm_compute. repeat split; reflexivity. Qed.

Lemma params_dao_layout_ok :
  dao_pack_ranges = dao_field_ranges /\ dao_extract_ranges = dao_field_ranges.
Proof. split; reflexivity. Qed.
