(* Reward/DaoProofs.v — proofs about Reward/Dao.v: byte layout of the dao
   field, the accumulation rule (C, AR, S, U), U = occupied capacity of the
   live-cell set along a chain, the withdrawal formula. *)
From Coq Require Import Lia.
From CKB Require Import Arith.U Arith.UProofs Arith.EpochExt Reward.Reward Reward.Dao.
Local Open Scope N_scope.
Arguments N.add : simpl never.
Arguments N.sub : simpl never.
Arguments N.mul : simpl never.
Arguments N.div : simpl never.
Arguments N.modulo : simpl never.
Arguments N.pow : simpl never.

(* ---- little-endian fields ---------------------------------------------------- *)
Lemma le_encode_length k x : length (le_encode k x) = k.
Proof. revert x. induction k; intros; cbn; auto. Qed.

Lemma le_decode_encode k x : le_decode (le_encode k x) = x mod 256 ^ N.of_nat k.
Proof.
  revert x. induction k; intros x.
  - cbn. now rewrite N.mod_1_r.
  - cbn [le_encode le_decode]. rewrite IHk.
    rewrite Nnat.Nat2N.inj_succ, N.pow_succ_r'.
    rewrite N.mod_mul_r by (try apply N.pow_nonzero; lia). lia.
Qed.

Lemma le_decode_encode_u64 x : x < W64 -> le_decode (le_encode 8 x) = x.
Proof.
  intros H. rewrite le_decode_encode. apply N.mod_small.
  change (256 ^ N.of_nat 8) with W64. exact H.
Qed.

Lemma le_encode_decode bs :
  Forall (fun b => b < 256) bs -> le_encode (length bs) (le_decode bs) = bs.
Proof.
  induction 1 as [|b bs Hb _ IH]; cbn [length le_encode le_decode]; auto.
  f_equal.
  - rewrite (N.mul_comm 256), N.mod_add by lia. now apply N.mod_small.
  - rewrite (N.mul_comm 256), N.div_add by lia.
    rewrite (N.div_small b 256) by assumption. rewrite N.add_0_l. exact IH.
Qed.

Definition dao_in_range (d : dao) : Prop :=
  d_ar d < W64 /\ d_c d < W64 /\ d_s d < W64 /\ d_u d < W64.

Lemma firstn_app_exact {A} (l1 l2 : list A) n : length l1 = n -> firstn n (l1 ++ l2) = l1.
Proof. intros <-. rewrite firstn_app, Nat.sub_diag, firstn_all. cbn. now rewrite app_nil_r. Qed.
Lemma skipn_app_exact {A} (l1 l2 : list A) n : length l1 = n -> skipn n (l1 ++ l2) = l2.
Proof. intros <-. rewrite skipn_app, Nat.sub_diag, skipn_all. reflexivity. Qed.

Lemma skipn_add {A} (l : list A) n m : skipn n (skipn m l) = skipn (m + n) l.
Proof. revert l. induction m; intros l; cbn; auto. destruct l; cbn; auto. now destruct n. Qed.

Lemma extract_of_app (C A S U : list N) :
  length C = 8%nat -> length A = 8%nat -> length S = 8%nat -> length U = 8%nat ->
  extract_dao (C ++ A ++ S ++ U) = mkDao (le_decode A) (le_decode C) (le_decode S) (le_decode U).
Proof.
  intros LC LA LS LU. unfold extract_dao.
  rewrite (firstn_app_exact C _ 8 LC).
  rewrite (skipn_app_exact C _ 8 LC), (firstn_app_exact A _ 8 LA).
  replace (skipn 16 (C ++ A ++ S ++ U)) with (S ++ U).
  2:{ change 16%nat with (8 + 8)%nat. rewrite <- skipn_add.
      now rewrite (skipn_app_exact C _ 8 LC), (skipn_app_exact A _ 8 LA). }
  replace (skipn 24 (C ++ A ++ S ++ U)) with U.
  2:{ change 24%nat with (8 + (8 + 8))%nat. rewrite <- skipn_add, <- skipn_add.
      now rewrite (skipn_app_exact C _ 8 LC), (skipn_app_exact A _ 8 LA), (skipn_app_exact S _ 8 LS). }
  rewrite (firstn_app_exact S _ 8 LS).
  replace (firstn 8 U) with U by (symmetry; rewrite <- LU; apply firstn_all).
  reflexivity.
Qed.

Theorem dao_pack_extract d : dao_in_range d -> extract_dao (pack_dao d) = d.
Proof.
  intros (Har & Hc & Hs & Hu). destruct d as [ar c s u]. cbn [d_ar d_c d_s d_u] in *.
  unfold pack_dao. cbn [d_ar d_c d_s d_u].
  rewrite extract_of_app by apply le_encode_length.
  now rewrite !le_decode_encode_u64.
Qed.

Lemma firstn_skipn_split {A} (l : list A) n m :
  length l = (n + m)%nat -> l = firstn n l ++ skipn n l /\ length (firstn n l) = n /\ length (skipn n l) = m.
Proof.
  intros H. split; [symmetry; apply firstn_skipn|]. split.
  - rewrite firstn_length. lia.
  - rewrite skipn_length. lia.
Qed.

Lemma Forall_firstn {A} (P : A -> Prop) n l : Forall P l -> Forall P (firstn n l).
Proof. revert l; induction n; intros l H; cbn; [constructor|]. destruct H; constructor; auto. Qed.
Lemma Forall_skipn {A} (P : A -> Prop) n l : Forall P l -> Forall P (skipn n l).
Proof. revert l; induction n; intros l H; cbn; auto. destruct H; auto. Qed.

Theorem dao_extract_pack bs :
  length bs = 32%nat -> Forall (fun b => b < 256) bs -> pack_dao (extract_dao bs) = bs.
Proof.
  intros L F. unfold pack_dao, extract_dao. cbn [d_ar d_c d_s d_u].
  assert (E : forall l, length l = 8%nat -> Forall (fun b => b < 256) l -> le_encode 8 (le_decode l) = l).
  { intros l Hl Hf. rewrite <- Hl at 1. now apply le_encode_decode. }
  rewrite !E; try (apply Forall_firstn; try apply Forall_skipn; assumption);
    try (rewrite firstn_length, ?skipn_length; lia).
  symmetry.
  rewrite <- (firstn_skipn 8 bs) at 1. f_equal.
  rewrite <- (firstn_skipn 8 (skipn 8 bs)) at 1. f_equal.
  rewrite skipn_add. change (8 + 8)%nat with 16%nat.
  rewrite <- (firstn_skipn 8 (skipn 16 bs)) at 1. f_equal.
  rewrite skipn_add. change (16 + 8)%nat with 24%nat.
  symmetry. apply firstn_all2. rewrite skipn_length. lia.
Qed.

(* pack_dao puts c, ar, s, u at the ranges [dao_field_ranges] *)
Theorem dao_pack_layout d : dao_in_range d ->
  map (read_range (pack_dao d)) dao_field_ranges = [d_c d; d_ar d; d_s d; d_u d].
Proof.
  intros H. pose proof (dao_pack_extract d H) as E.
  pose proof (f_equal d_c E) as Ec. pose proof (f_equal d_ar E) as Ea.
  pose proof (f_equal d_s E) as Es. pose proof (f_equal d_u E) as Eu.
  unfold extract_dao in Ec, Ea, Es, Eu. cbn [d_c d_ar d_s d_u] in Ec, Ea, Es, Eu.
  unfold dao_field_ranges, read_range. cbn [map fst snd].
  change (8 - 0)%nat with 8%nat. change (16 - 8)%nat with 8%nat.
  change (24 - 16)%nat with 8%nat. change (32 - 24)%nat with 8%nat.
  change (skipn 0 (pack_dao d)) with (pack_dao d).
  now rewrite Ec, Ea, Es, Eu.
Qed.

(* non-vacuity: the genesis field of a test chain *)
Example dao_pack_example :
  let d := mkDao 10000000000000000 3360000145238488200 35209330473 504120308900000000 in
  dao_in_range d /\ length (pack_dao d) = 32%nat /\ extract_dao (pack_dao d) = d.
Proof. vm_compute. repeat split; reflexivity. Qed.

(* ---- the accumulation rule ------------------------------------------------------- *)
Lemma mul_div_u64_some a b c r : mul_div_u64 a b c = Some r -> r = a * b / c /\ c <> 0 /\ r < W64.
Proof.
  unfold mul_div_u64. destruct (N.eqb_spec c 0); [discriminate|].
  intros H. apply chk_some in H. destruct H as [-> H]. auto.
Qed.

Definition dao_step_facts (sec : N) (e : epoch_ext) (parent : dao) (number added freed interest : N)
           (d : dao) (primary g2 : N) : Prop :=
  ee_block_reward e number = Some primary /\
  ee_secondary_block_issuance e number sec = Some g2 /\
  d_c parent <> 0 /\
  d_c d = d_c parent + primary + g2 /\
  d_u d + freed = d_u parent + added /\
  g2 * d_u parent / d_c parent <= g2 /\
  d_s d + interest = d_s parent + (g2 - g2 * d_u parent / d_c parent) /\
  d_ar d = d_ar parent + d_ar parent * g2 / d_c parent /\
  dao_in_range d /\ g2 < W64.

Lemma dao_step_inv sec e parent number added freed interest d :
  dao_step sec e parent number added freed interest = Some d ->
  exists primary g2, dao_step_facts sec e parent number added freed interest d primary g2.
Proof.
  unfold dao_step. intros H. unbind H. inversion H; subst; clear H.
  apply add64_some in E1. apply mul_div_u64_some in E2. apply sub64_some in E3.
  apply add64_some in E4. apply add64_some in E5. apply sub64_some in E6.
  apply add64_some in E7. apply sub64_some in E8. apply mul_div_u64_some in E9.
  apply add64_some in E10.
  destruct E1 as [-> B1], E2 as (-> & Cnz & B2), E3 as [-> B3], E4 as [-> B4], E5 as [-> B5],
    E6 as [-> B6], E7 as [-> B7], E8 as [-> B8], E9 as (-> & _ & B9), E10 as [-> B10].
  exists v0, v. unfold dao_step_facts, dao_in_range; cbn [d_ar d_c d_s d_u].
  repeat split; auto; lia.
Qed.

(* C grows by exactly the block's primary and secondary issuance *)
Theorem dao_C_is_issuance sec e parent number added freed interest d :
  dao_step sec e parent number added freed interest = Some d ->
  exists primary g2,
    ee_block_reward e number = Some primary /\
    ee_secondary_block_issuance e number sec = Some g2 /\
    d_c d = d_c parent + primary + g2.
Proof.
  intros H. destruct (dao_step_inv _ _ _ _ _ _ _ _ H) as (p & g & F).
  unfold dao_step_facts in F. exists p, g. tauto.
Qed.

Theorem dao_U_step sec e parent number added freed interest d :
  dao_step sec e parent number added freed interest = Some d ->
  freed <= d_u parent + added /\ d_u d = d_u parent + added - freed.
Proof.
  intros H. destruct (dao_step_inv _ _ _ _ _ _ _ _ H) as (p & g & F).
  unfold dao_step_facts in F. lia.
Qed.

(* the accumulated rate never decreases and grows by AR * g2 / C *)
Theorem dao_AR_monotone sec e parent number added freed interest d :
  dao_step sec e parent number added freed interest = Some d ->
  d_ar parent <= d_ar d /\
  exists g2, ee_secondary_block_issuance e number sec = Some g2 /\
             d_ar d = d_ar parent + d_ar parent * g2 / d_c parent.
Proof.
  intros H. destruct (dao_step_inv _ _ _ _ _ _ _ _ H) as (p & g & F).
  unfold dao_step_facts in F. destruct F as (_ & Hs & _ & _ & _ & _ & _ & Har & _).
  split; [rewrite Har; apply N.le_add_r|]. exists g. tauto.
Qed.

(* S: the secondary issuance that is not the miner's goes to the NervosDAO
   account, withdrawn interest leaves it *)
Theorem dao_S_accounts sec e parent number added freed interest d :
  dao_step sec e parent number added freed interest = Some d ->
  exists g2, ee_secondary_block_issuance e number sec = Some g2 /\
    g2 * d_u parent / d_c parent <= g2 /\
    d_s d + interest = d_s parent + (g2 - g2 * d_u parent / d_c parent).
Proof.
  intros H. destruct (dao_step_inv _ _ _ _ _ _ _ _ H) as (p & g & F).
  unfold dao_step_facts in F. exists g. tauto.
Qed.

(* the miner's share used by the reward (secondary_block_reward of the block
   itself) and the NervosDAO share add up to the secondary issuance *)
Theorem secondary_split sec e parent number added freed interest d :
  dao_step sec e parent number added freed interest = Some d -> number <> 0 ->
  exists g2 miner,
    ee_secondary_block_issuance e number sec = Some g2 /\
    secondary_block_reward sec e number parent = Some miner /\
    miner = g2 * d_u parent / d_c parent /\ miner <= g2.
Proof.
  intros H Hn. destruct (dao_step_inv _ _ _ _ _ _ _ _ H) as (p & g & F).
  unfold dao_step_facts in F. destruct F as (_ & Hs & Cnz & _ & _ & Hle & _ & _ & _ & Hg).
  exists g, (g * d_u parent / d_c parent). repeat split; auto.
  unfold secondary_block_reward. apply N.eqb_neq in Hn. rewrite Hn, Hs. cbn [bind].
  unfold mul_div_u64. apply N.eqb_neq in Cnz. rewrite Cnz.
  apply chk_ok. lia.
Qed.

(* ---- sums over cells -------------------------------------------------------------- *)
Lemma sum64_some_total {A} (f : A -> N) l acc r :
  sum64 (fun x => Some (f x)) l acc = Some r -> r = acc + fold_right (fun x a => f x + a) 0 l.
Proof.
  revert acc. induction l as [|x l IH]; intros acc H; cbn in *.
  - inversion H. lia.
  - unbind H. apply add64_some in E. destruct E as [-> _].
    apply IH in H. lia.
Qed.

Lemma occupied_of_app a b : occupied_of (a ++ b) = occupied_of a + occupied_of b.
Proof. unfold occupied_of. induction a; cbn [app fold_right]; [lia|]. rewrite IHa. lia. Qed.

Lemma freed_occupied_some txs r : freed_occupied txs = Some r -> r = occupied_of (all_inputs txs).
Proof. unfold freed_occupied. intros H. apply (sum64_some_total c_occupied) in H. exact H. Qed.
Lemma added_occupied_some txs r : added_occupied txs = Some r -> r = occupied_of (all_outputs txs).
Proof. unfold added_occupied. intros H. apply (sum64_some_total c_occupied) in H. exact H. Qed.

(* ---- U is the occupied capacity of the live set ---------------------------------- *)
Notation ids := cell_ids.

Lemma cell_in_true i l : cell_in i l = true <-> In i (ids l).
Proof.
  unfold cell_in, ids. rewrite existsb_exists, in_map_iff. split.
  - intros (c & Hc & E). apply N.eqb_eq in E. eauto.
  - intros (c & E & Hc). exists c. split; auto. now apply N.eqb_eq.
Qed.

Lemma occupied_remove_one d L :
  NoDup (ids L) -> In d L ->
  occupied_of (filter (fun c => negb (c_id c =? c_id d)) L) + c_occupied d = occupied_of L.
Proof.
  induction L as [|c L IH]; intros ND Hin; [destruct Hin|].
  cbn [ids map] in ND. inversion ND as [|? ? Hnot ND']; subst.
  cbn [filter]. destruct Hin as [->|Hin].
  - rewrite N.eqb_refl. cbn [negb occupied_of fold_right].
    assert (E : filter (fun c => negb (c_id c =? c_id d)) L = L).
    { clear -Hnot. induction L as [|x L IH]; cbn; auto.
      destruct (N.eqb_spec (c_id x) (c_id d)) as [e|ne].
      - exfalso. apply Hnot. cbn. left. auto.
      - cbn. f_equal. apply IH. intros H. apply Hnot. cbn. right. exact H. }
    rewrite E. unfold occupied_of. lia.
  - destruct (N.eqb_spec (c_id c) (c_id d)) as [e|ne].
    + exfalso. apply Hnot. rewrite e. unfold ids. apply in_map. exact Hin.
    + cbn [negb occupied_of fold_right]. specialize (IH ND' Hin).
      unfold occupied_of in *. lia.
Qed.

Lemma filter_ids_sub (f : cell -> bool) L x : In x (ids (filter f L)) -> In x (ids L).
Proof.
  unfold ids. rewrite !in_map_iff. intros (c & E & H). apply filter_In in H. exists c. tauto.
Qed.
Lemma filter_ids_nodup (f : cell -> bool) L : NoDup (ids L) -> NoDup (ids (filter f L)).
Proof.
  induction L as [|c L IH]; cbn; intros ND; [constructor|].
  inversion ND; subst. destruct (f c); cbn; auto.
  constructor; auto. intros H. apply H1. eapply filter_ids_sub. exact H.
Qed.

Lemma filter_filter_and {A} (f g : A -> bool) l :
  filter f (filter g l) = filter (fun x => g x && f x) l.
Proof. induction l as [|x l IH]; cbn; auto. destruct (g x); cbn; [destruct (f x)|]; now rewrite ?IH. Qed.

Lemma occupied_remove_cells D L :
  NoDup (ids L) -> NoDup (ids D) -> incl D L ->
  occupied_of (remove_cells D L) + occupied_of D = occupied_of L.
Proof.
  revert L. induction D as [|d D IH]; intros L NL ND Hin.
  - unfold remove_cells. cbn.
    replace (filter (fun _ : cell => true) L) with L.
    2:{ clear. induction L; cbn; auto. now f_equal. }
    lia.
  - cbn [ids map] in ND. inversion ND as [|? ? Hnot ND']; subst.
    assert (E : remove_cells (d :: D) L =
                remove_cells D (filter (fun c => negb (c_id c =? c_id d)) L)).
    { unfold remove_cells. rewrite filter_filter_and. apply filter_ext. intros c.
      unfold cell_in. cbn [existsb]. now rewrite negb_orb, (N.eqb_sym (c_id d) (c_id c)). }
    rewrite E.
    assert (Hd : In d L) by (apply Hin; left; reflexivity).
    pose proof (occupied_remove_one d L NL Hd) as R1.
    specialize (IH (filter (fun c => negb (c_id c =? c_id d)) L)).
    assert (IH' := IH (filter_ids_nodup _ L NL) ND').
    assert (Hincl : incl D (filter (fun c => negb (c_id c =? c_id d)) L)).
    { intros x Hx. apply filter_In. split; [apply Hin; right; exact Hx|].
      apply negb_true_iff. apply N.eqb_neq. intros e. apply Hnot. rewrite <- e.
      unfold ids. apply in_map. exact Hx. }
    specialize (IH' Hincl). cbn [occupied_of fold_right]. unfold occupied_of in *. lia.
Qed.

(* one block: U moves by occupied(outputs) - occupied(inputs), and stays the
   occupied capacity of the live-cell set *)
Theorem dao_U_tracks_occupied sec e parent number txs d live :
  dao_field sec e parent number txs = Some d ->
  block_applicable live txs ->
  d_u parent = occupied_of live ->
  d_u d = d_u parent + occupied_of (all_outputs txs) - occupied_of (all_inputs txs) /\
  d_u d = occupied_of (apply_block live txs).
Proof.
  unfold dao_field. intros H (NL & ND & Hin) HU. unbind H.
  apply freed_occupied_some in E. apply added_occupied_some in E0. subst v v0.
  apply dao_U_step in H. destruct H as [Hle ->]. split; [reflexivity|].
  unfold apply_block.
  pose proof (occupied_remove_cells _ _ NL ND Hin) as R.
  rewrite occupied_of_app in R. rewrite HU in *. lia.
Qed.

(* along a chain, from any state where U is the occupied capacity of the live
   set (the genesis block): U of every header is the occupied capacity of the
   live-cell set after that block *)
Theorem dao_U_is_live_occupied sec blocks : forall d0 live0 h d live,
  d_u d0 = occupied_of live0 ->
  chain_applicable live0 blocks ->
  dao_run sec d0 live0 h blocks = Some (d, live) ->
  d_u d = occupied_of live.
Proof.
  induction blocks as [|[e txs] bs IH]; intros d0 live0 h d live HU HA HR; cbn in HR.
  - inversion HR; subst. exact HU.
  - destruct HA as [HB HA]. unbind HR.
    pose proof (dao_U_tracks_occupied _ _ _ _ _ _ _ E HB HU) as [_ HU'].
    exact (IH _ _ _ _ _ HU' HA HR).
Qed.

(* C of the last header = C of the first + every block's primary and secondary issuance *)
Theorem dao_C_chain sec blocks : forall d0 live0 h d live,
  dao_run sec d0 live0 h blocks = Some (d, live) ->
  exists total, issuance_run sec h blocks = Some total /\ d_c d = d_c d0 + total.
Proof.
  induction blocks as [|[e txs] bs IH]; intros d0 live0 h d live HR; cbn in HR.
  - inversion HR; subst. exists 0. cbn. split; [reflexivity|lia].
  - unbind HR. unfold dao_field in E. unbind E.
    apply dao_C_is_issuance in E. destruct E as (p & g2 & Hp & Hg & HC).
    destruct (IH _ _ _ _ _ HR) as (rest & Hrest & HC').
    exists (p + g2 + rest). cbn [issuance_run]. rewrite Hp, Hg. cbn [bind]. rewrite Hrest. cbn [bind].
    split; [reflexivity|lia].
Qed.

(* AR never decreases along a chain *)
Theorem dao_AR_chain_monotone sec blocks : forall d0 live0 h d live,
  dao_run sec d0 live0 h blocks = Some (d, live) -> d_ar d0 <= d_ar d.
Proof.
  induction blocks as [|[e txs] bs IH]; intros d0 live0 h d live HR; cbn in HR.
  - inversion HR; subst. lia.
  - unbind HR. unfold dao_field in E. unbind E.
    apply dao_AR_monotone in E. destruct E as [Hle _].
    specialize (IH _ _ _ _ _ HR). lia.
Qed.

(* ---- withdrawals ------------------------------------------------------------------- *)
Theorem withdraw_formula cap occ dar war v :
  maximum_withdraw cap occ dar war = Some v ->
  (cap - occ) * war / dar < W64 ->
  occ <= cap /\ dar <> 0 /\ v = occ + (cap - occ) * war / dar.
Proof.
  unfold maximum_withdraw. intros H Hsmall. unbind H.
  apply sub64_some in E. destruct E as [-> Hle].
  destruct (N.eqb_spec dar 0) as [|Hd]; [discriminate|].
  apply add64_some in H. destruct H as [-> _].
  rewrite N.mod_small by exact Hsmall. repeat split; auto. lia.
Qed.

(* a withdrawal never pays less than the deposited capacity (AR is monotone) *)
Theorem withdraw_no_loss cap occ dar war v :
  maximum_withdraw cap occ dar war = Some v ->
  (cap - occ) * war / dar < W64 -> dar <= war -> cap <= v.
Proof.
  intros H Hs Hle. destruct (withdraw_formula _ _ _ _ _ H Hs) as (Hoc & Hd & ->).
  assert (cap - occ <= (cap - occ) * war / dar).
  { apply N.div_le_lower_bound; [exact Hd|]. rewrite N.mul_comm. apply N.mul_le_mono_l. exact Hle. }
  lia.
Qed.

(* the interest is exactly the floor of counted * (ARw - ARd) / ARd: only the
   capacity beyond the occupied part earns, and it earns the AR growth *)
Theorem withdraw_interest_exact cap occ dar war v :
  maximum_withdraw cap occ dar war = Some v ->
  (cap - occ) * war / dar < W64 -> dar <= war ->
  v = cap + (cap - occ) * (war - dar) / dar.
Proof.
  intros H Hs Hle. destruct (withdraw_formula _ _ _ _ _ H Hs) as (Hoc & Hd & ->).
  replace ((cap - occ) * war) with ((cap - occ) * dar + (cap - occ) * (war - dar)) by nia.
  rewrite N.div_add_l by exact Hd. lia.
Qed.

(* waiting never pays less: the withdrawal is monotone in the withdrawing AR *)
Theorem withdraw_monotone_in_ar cap occ dar war1 war2 v1 v2 :
  maximum_withdraw cap occ dar war1 = Some v1 ->
  maximum_withdraw cap occ dar war2 = Some v2 ->
  (cap - occ) * war2 / dar < W64 -> war1 <= war2 -> v1 <= v2.
Proof.
  intros H1 H2 Hs Hle.
  assert (Hdar : dar <> 0).
  { unfold maximum_withdraw in H1. unbind H1. destruct (N.eqb_spec dar 0); [discriminate|assumption]. }
  assert (Hq : (cap - occ) * war1 / dar <= (cap - occ) * war2 / dar).
  { apply N.div_le_mono; [exact Hdar|]. apply N.mul_le_mono_l. exact Hle. }
  destruct (withdraw_formula _ _ _ _ _ H1 ltac:(lia)) as (_ & _ & ->).
  destruct (withdraw_formula _ _ _ _ _ H2 Hs) as (_ & _ & ->). lia.
Qed.

(* a cell that is all occupied capacity earns nothing, whatever the ARs *)
Theorem withdraw_fully_occupied cap dar war v :
  maximum_withdraw cap cap dar war = Some v -> v = cap.
Proof.
  intros H. assert (Hs : (cap - cap) * war / dar < W64).
  { rewrite N.sub_diag, N.mul_0_l. replace (0 / dar) with 0 by (destruct dar; reflexivity).
    reflexivity. }
  destruct (withdraw_formula _ _ _ _ _ H Hs) as (_ & Hd & ->).
  rewrite N.sub_diag, N.mul_0_l, N.div_0_l by exact Hd. lia.
Qed.

(* the fee of a transaction: its inputs at their maximum withdraw pay for its
   outputs and the fee — nothing else leaves or enters *)
Theorem tx_fee_balance t f :
  transaction_fee t = Some f ->
  exists mw oc, tx_maximum_withdraw t = Some mw /\ tx_outputs_capacity t = Some oc /\ f + oc = mw.
Proof.
  unfold transaction_fee. intros H. unbind H. apply sub64_some in H. destruct H as [-> Hle].
  exists v, v0. repeat split; auto. lia.
Qed.

(* `as u64` in calculate_maximum_withdraw truncates: when counted * ARw / ARd
   does not fit u64 the result is not the formula (unreachable while AR stays
   below 2 * AR_deposit and capacities below 2^63) *)
Theorem withdraw_truncation_refuted :
  exists cap occ dar war v,
    maximum_withdraw cap occ dar war = Some v /\ v <> occ + (cap - occ) * war / dar.
Proof. exists (2 ^ 63), 0, 1, 2, 0. split; [vm_compute; reflexivity|]. vm_compute. discriminate. Qed.

(* non-vacuity: a deposit of 1000 CKB (occupied 102 bytes) between two
   accumulated rates *)
Example withdraw_example :
  maximum_withdraw 100000000000 10200000000 10000000000000000 10000616071298000 = Some 100005532320
  /\ (100000000000 - 10200000000) * 10000616071298000 / 10000000000000000 < W64.
Proof. vm_compute. split; reflexivity. Qed.

(* non-vacuity of the chain theorems: two blocks over a genesis with two live
   cells; the second block spends a genesis cell and an output of the first *)
Definition ex_epoch := mkEpochExt 0 1000 3 0 0 7 0.
Definition ex_live0 := [mkCell 0 500000000000 6100000000 None; mkCell 1 700000000000 6900000000 None].
Definition ex_d0 := mkDao 10000000000000000 100000000000000 1000000 13000000000.
Definition ex_blocks : list (epoch_ext * list tx) :=
  [ (ex_epoch, [mkTx [] [mkCell 2 0 0 None];
                mkTx [mkCell 0 500000000000 6100000000 None]
                     [mkCell 3 300000000000 6100000000 None; mkCell 4 199999999000 9900000000 None]]);
    (ex_epoch, [mkTx [] [mkCell 5 1003 6100000000 None];
                mkTx [mkCell 1 700000000000 6900000000 None; mkCell 3 300000000000 6100000000 None]
                     [mkCell 6 999999990000 6100000000 None]]) ].
Example dao_run_example :
  d_u ex_d0 = occupied_of ex_live0 /\ chain_applicable ex_live0 ex_blocks /\
  exists d live, dao_run 70000 ex_d0 ex_live0 1 ex_blocks = Some (d, live) /\ length live = 4%nat.
Proof.
  split; [reflexivity|]. split.
  - cbn [chain_applicable ex_blocks]. unfold block_applicable.
    repeat split;
      try (cbn; repeat constructor; cbn; intuition discriminate);
      try (intros a Ha; cbn in Ha |- *; repeat (destruct Ha as [<-|Ha]; [auto 12|]); destruct Ha).
  - eexists _, _. split; vm_compute; reflexivity.
Qed.
