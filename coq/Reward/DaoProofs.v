(* Reward/DaoProofs.v — proofs about Reward/Dao.v: byte layout of the dao
   field, the accumulation rule (C, AR, S, U), U = occupied capacity of the
   live-cell set along a chain, the withdrawal formula. *)
From Coq Require Import Lia.
From CKB Require Import Arith.U Arith.UProofs Arith.EpochExt Reward.Reward Reward.Dao.
Local Open Scope N_scope.
Arguments N.add : simpl never.
Arguments N.sub : simpl never.
Arguments N.mul : simpl never.
Arguments N.div : simpl never.
Arguments N.modulo : simpl never.
Arguments N.pow : simpl never.

(* ---- little-endian fields ---------------------------------------------------- *)
Lemma le_encode_length k x : length (le_encode k x) = k.
Proof. revert x. induction k; intros; cbn; auto. Qed.

Lemma le_decode_encode k x : le_decode (le_encode k x) = x mod 256 ^ N.of_nat k.
Proof.
  revert x. induction k; intros x.
  - cbn. now rewrite N.mod_1_r.
  - cbn [le_encode le_decode]. rewrite IHk.
    rewrite Nnat.Nat2N.inj_succ, N.pow_succ_r'.
    rewrite N.mod_mul_r by (try apply N.pow_nonzero; lia). lia.
Qed.

Lemma le_decode_encode_u64 x : x < W64 -> le_decode (le_encode 8 x) = x.
Proof.
  intros H. rewrite le_decode_encode. apply N.mod_small.
  change (256 ^ N.of_nat 8) with W64. exact H.
Qed.

Lemma le_encode_decode bs :
  Forall (fun b => b < 256) bs -> le_encode (length bs) (le_decode bs) = bs.
Proof.
  induction 1 as [|b bs Hb _ IH]; cbn [length le_encode le_decode]; auto.
  f_equal.
  - rewrite (N.mul_comm 256), N.mod_add by lia. now apply N.mod_small.
  - rewrite (N.mul_comm 256), N.div_add by lia.
    rewrite (N.div_small b 256) by assumption. rewrite N.add_0_l. exact IH.
Qed.

Definition dao_in_range (d : dao) : Prop :=
  d_ar d < W64 /\ d_c d < W64 /\ d_s d < W64 /\ d_u d < W64.

Lemma firstn_app_exact {A} (l1 l2 : list A) n : length l1 = n -> firstn n (l1 ++ l2) = l1.
Proof. intros <-. rewrite firstn_app, Nat.sub_diag, firstn_all. cbn. now rewrite app_nil_r. Qed.
Lemma skipn_app_exact {A} (l1 l2 : list A) n : length l1 = n -> skipn n (l1 ++ l2) = l2.
Proof. intros <-. rewrite skipn_app, Nat.sub_diag, skipn_all. reflexivity. Qed.

Lemma skipn_add {A} (l : list A) n m : skipn n (skipn m l) = skipn (m + n) l.
Proof. revert l. induction m; intros l; cbn; auto. destruct l; cbn; auto. now destruct n. Qed.

Lemma extract_of_app (C A S U : list N) :
  length C = 8%nat -> length A = 8%nat -> length S = 8%nat -> length U = 8%nat ->
  extract_dao (C ++ A ++ S ++ U) = mkDao (le_decode A) (le_decode C) (le_decode S) (le_decode U).
Proof.
  intros LC LA LS LU. unfold extract_dao.
  rewrite (firstn_app_exact C _ 8 LC).
  rewrite (skipn_app_exact C _ 8 LC), (firstn_app_exact A _ 8 LA).
  replace (skipn 16 (C ++ A ++ S ++ U)) with (S ++ U).
  2:{ change 16%nat with (8 + 8)%nat. rewrite <- skipn_add.
      now rewrite (skipn_app_exact C _ 8 LC), (skipn_app_exact A _ 8 LA). }
  replace (skipn 24 (C ++ A ++ S ++ U)) with U.
  2:{ change 24%nat with (8 + (8 + 8))%nat. rewrite <- skipn_add, <- skipn_add.
      now rewrite (skipn_app_exact C _ 8 LC), (skipn_app_exact A _ 8 LA), (skipn_app_exact S _ 8 LS). }
  rewrite (firstn_app_exact S _ 8 LS).
  replace (firstn 8 U) with U by (symmetry; rewrite <- LU; apply firstn_all).
  reflexivity.
Qed.

Theorem dao_pack_extract d : dao_in_range d -> extract_dao (pack_dao d) = d.
Proof.
  intros (Har & Hc & Hs & Hu). destruct d as [ar c s u]. cbn [d_ar d_c d_s d_u] in *.
  unfold pack_dao. cbn [d_ar d_c d_s d_u].
  rewrite extract_of_app by apply le_encode_length.
  now rewrite !le_decode_encode_u64.
Qed.

Lemma firstn_skipn_split {A} (l : list A) n m :
  length l = (n + m)%nat -> l = firstn n l ++ skipn n l /\ length (firstn n l) = n /\ length (skipn n l) = m.
Proof.
  intros H. split; [symmetry; apply firstn_skipn|]. split.
  - rewrite firstn_length. lia.
  - rewrite skipn_length. lia.
Qed.

Lemma Forall_firstn {A} (P : A -> Prop) n l : Forall P l -> Forall P (firstn n l).
Proof. revert l; induction n; intros l H; cbn; [constructor|]. destruct H; constructor; auto. Qed.
Lemma Forall_skipn {A} (P : A -> Prop) n l : Forall P l -> Forall P (skipn n l).
Proof. revert l; induction n; intros l H; cbn; auto. destruct H; auto. Qed.

Theorem dao_extract_pack bs :
  length bs = 32%nat -> Forall (fun b => b < 256) bs -> pack_dao (extract_dao bs) = bs.
Proof.
  intros L F. unfold pack_dao, extract_dao. cbn [d_ar d_c d_s d_u].
  assert (E : forall l, length l = 8%nat -> Forall (fun b => b < 256) l -> le_encode 8 (le_decode l) = l).
  { intros l Hl Hf. rewrite <- Hl at 1. now apply le_encode_decode. }
  rewrite !E; try (apply Forall_firstn; try apply Forall_skipn; assumption);
    try (rewrite firstn_length, ?skipn_length; lia).
  symmetry.
  rewrite <- (firstn_skipn 8 bs) at 1. f_equal.
  rewrite <- (firstn_skipn 8 (skipn 8 bs)) at 1. f_equal.
  rewrite skipn_add. change (8 + 8)%nat with 16%nat.
  rewrite <- (firstn_skipn 8 (skipn 16 bs)) at 1. f_equal.
  rewrite skipn_add. change (16 + 8)%nat with 24%nat.
  symmetry. apply firstn_all2. rewrite skipn_length. lia.
Qed.

(* non-vacuity: the genesis field of a test chain *)
Example dao_pack_example :
  let d := mkDao 10000000000000000 3360000145238488200 35209330473 504120308900000000 in
  dao_in_range d /\ length (pack_dao d) = 32%nat /\ extract_dao (pack_dao d) = d.
Proof. vm_compute. repeat split; reflexivity. Qed.

(* ---- the accumulation rule ------------------------------------------------------- *)
Lemma mul_div_u64_some a b c r : mul_div_u64 a b c = Some r -> r = a * b / c /\ c <> 0 /\ r < W64.
Proof.
  unfold mul_div_u64. destruct (N.eqb_spec c 0); [discriminate|].
  intros H. apply chk_some in H. destruct H as [-> H]. auto.
Qed.

Record dao_step_facts (sec : N) (e : epoch_ext) (parent : dao) (number added freed interest : N) (d : dao) : Prop := {
  dsf_primary : N; dsf_g2 : N;
  dsf_br : ee_block_reward e number = Some dsf_primary;
  dsf_sec : ee_secondary_block_issuance e number sec = Some dsf_g2;
  dsf_cnz : d_c parent <> 0;
  dsf_c : d_c d = d_c parent + dsf_primary + dsf_g2;
  dsf_u : d_u d + freed = d_u parent + added;
  dsf_miner_le : dsf_g2 * d_u parent / d_c parent <= dsf_g2;
  dsf_s : d_s d + interest = d_s parent + (dsf_g2 - dsf_g2 * d_u parent / d_c parent);
  dsf_ar : d_ar d = d_ar parent + d_ar parent * dsf_g2 / d_c parent;
  dsf_range : dao_in_range d
}.

Lemma dao_step_inv sec e parent number added freed interest d :
  dao_step sec e parent number added freed interest = Some d ->
  dao_step_facts sec e parent number added freed interest d.
Proof.
  unfold dao_step. intros H. unbind H. inversion H; subst; clear H.
  apply add64_some in E1. apply mul_div_u64_some in E2. apply sub64_some in E3.
  apply add64_some in E4. apply add64_some in E5. apply sub64_some in E6.
  apply add64_some in E7. apply sub64_some in E8. apply mul_div_u64_some in E9.
  apply add64_some in E10.
  destruct E1 as [-> B1], E2 as (-> & Cnz & B2), E3 as [-> B3], E4 as [-> B4], E5 as [-> B5],
    E6 as [-> B6], E7 as [-> B7], E8 as [-> B8], E9 as (-> & _ & B9), E10 as [-> B10].
  refine {| dsf_primary := v0; dsf_g2 := v |}; cbn [d_ar d_c d_s d_u]; auto; try lia.
  unfold dao_in_range; cbn [d_ar d_c d_s d_u]. repeat split; lia.
Qed.

(* C grows by exactly the block's primary and secondary issuance *)
Theorem dao_C_is_issuance sec e parent number added freed interest d :
  dao_step sec e parent number added freed interest = Some d ->
  exists primary g2,
    ee_block_reward e number = Some primary /\
    ee_secondary_block_issuance e number sec = Some g2 /\
    d_c d = d_c parent + primary + g2.
Proof. intros H. destruct (dao_step_inv _ _ _ _ _ _ _ _ H). eauto. Qed.

Theorem dao_U_step sec e parent number added freed interest d :
  dao_step sec e parent number added freed interest = Some d ->
  freed <= d_u parent + added /\ d_u d = d_u parent + added - freed.
Proof. intros H. destruct (dao_step_inv _ _ _ _ _ _ _ _ H). lia. Qed.

(* the accumulated rate never decreases and grows by AR * g2 / C *)
Theorem dao_AR_monotone sec e parent number added freed interest d :
  dao_step sec e parent number added freed interest = Some d ->
  d_ar parent <= d_ar d /\
  exists g2, ee_secondary_block_issuance e number sec = Some g2 /\
             d_ar d = d_ar parent + d_ar parent * g2 / d_c parent.
Proof. intros H. destruct (dao_step_inv _ _ _ _ _ _ _ _ H). split; [lia|eauto]. Qed.

(* S: the secondary issuance that is not the miner's goes to the NervosDAO
   account, withdrawn interest leaves it *)
Theorem dao_S_accounts sec e parent number added freed interest d :
  dao_step sec e parent number added freed interest = Some d ->
  exists g2, ee_secondary_block_issuance e number sec = Some g2 /\
    g2 * d_u parent / d_c parent <= g2 /\
    d_s d + interest = d_s parent + (g2 - g2 * d_u parent / d_c parent).
Proof. intros H. destruct (dao_step_inv _ _ _ _ _ _ _ _ H). eauto. Qed.

(* the miner's share used by the reward (secondary_block_reward of the block
   itself) and the NervosDAO share add up to the secondary issuance *)
Theorem secondary_split sec e parent number added freed interest d :
  dao_step sec e parent number added freed interest = Some d -> number <> 0 ->
  exists g2 miner,
    ee_secondary_block_issuance e number sec = Some g2 /\
    secondary_block_reward sec e number parent = Some miner /\
    miner = g2 * d_u parent / d_c parent /\ miner <= g2.
Proof.
  intros H Hn. pose proof (dao_step_inv _ _ _ _ _ _ _ _ H) as F. destruct F.
  exists dsf_g2, (dsf_g2 * d_u parent / d_c parent). repeat split; auto.
  unfold secondary_block_reward. apply N.eqb_neq in Hn. rewrite Hn, dsf_sec0. cbn [bind].
  unfold mul_div_u64. apply N.eqb_neq in dsf_cnz0. rewrite dsf_cnz0.
  apply chk_ok.
  assert (G : dsf_g2 < W64).
  { unfold dao_step in H. unbind H. rewrite dsf_sec0 in E. inversion E; subst.
    apply add64_some in E1. lia. }
  lia.
Qed.

(* ---- sums over cells -------------------------------------------------------------- *)
Lemma sum64_some_total {A} (f : A -> N) l acc r :
  sum64 (fun x => Some (f x)) l acc = Some r -> r = acc + fold_right (fun x a => f x + a) 0 l.
Proof.
  revert acc. induction l as [|x l IH]; intros acc H; cbn in *.
  - inversion H. lia.
  - unbind H. inversion E; subst. apply add64_some in E0. destruct E0 as [-> _].
    apply IH in H. lia.
Qed.

Lemma occupied_of_app a b : occupied_of (a ++ b) = occupied_of a + occupied_of b.
Proof. induction a; cbn; [lia|]. rewrite IHa. lia. Qed.

Lemma freed_occupied_some txs r : freed_occupied txs = Some r -> r = occupied_of (all_inputs txs).
Proof. unfold freed_occupied. intros H. apply (sum64_some_total c_occupied) in H. exact H. Qed.
Lemma added_occupied_some txs r : added_occupied txs = Some r -> r = occupied_of (all_outputs txs).
Proof. unfold added_occupied. intros H. apply (sum64_some_total c_occupied) in H. exact H. Qed.

(* ---- U is the occupied capacity of the live set ---------------------------------- *)
Definition ids (l : list cell) : list N := map c_id l.

(* the block is applicable to the live set: cell ids are unique, every input is
   a live cell or an output of the block, no cell is spent twice *)
Definition block_applicable (live : live_set) (txs : list tx) : Prop :=
  NoDup (ids (live ++ all_outputs txs)) /\
  NoDup (ids (all_inputs txs)) /\
  incl (all_inputs txs) (live ++ all_outputs txs).

Lemma cell_in_true i l : cell_in i l = true <-> In i (ids l).
Proof.
  unfold cell_in, ids. rewrite existsb_exists, in_map_iff. split.
  - intros (c & Hc & E). apply N.eqb_eq in E. eauto.
  - intros (c & E & Hc). exists c. split; auto. now apply N.eqb_eq.
Qed.

Lemma occupied_remove_one d L :
  NoDup (ids L) -> In d L ->
  occupied_of (filter (fun c => negb (c_id c =? c_id d)) L) + c_occupied d = occupied_of L.
Proof.
  induction L as [|c L IH]; intros ND Hin; [destruct Hin|].
  cbn [ids map] in ND. inversion ND as [|? ? Hnot ND']; subst.
  cbn [filter]. destruct Hin as [->|Hin].
  - rewrite N.eqb_refl. cbn [negb occupied_of fold_right].
    assert (E : filter (fun c => negb (c_id c =? c_id d)) L = L).
    { clear -Hnot. induction L as [|x L IH]; cbn; auto.
      destruct (N.eqb_spec (c_id x) (c_id d)) as [e|ne].
      - exfalso. apply Hnot. cbn. left. auto.
      - cbn. f_equal. apply IH. intros H. apply Hnot. cbn. right. exact H. }
    rewrite E. unfold occupied_of. lia.
  - destruct (N.eqb_spec (c_id c) (c_id d)) as [e|ne].
    + exfalso. apply Hnot. rewrite e. unfold ids. apply in_map. exact Hin.
    + cbn [negb occupied_of fold_right]. specialize (IH ND' Hin).
      unfold occupied_of in *. lia.
Qed.

Lemma filter_ids_sub (f : cell -> bool) L x : In x (ids (filter f L)) -> In x (ids L).
Proof.
  unfold ids. rewrite !in_map_iff. intros (c & E & H). apply filter_In in H. exists c. tauto.
Qed.
Lemma filter_ids_nodup (f : cell -> bool) L : NoDup (ids L) -> NoDup (ids (filter f L)).
Proof.
  induction L as [|c L IH]; cbn; intros ND; [constructor|].
  inversion ND; subst. destruct (f c); cbn; auto.
  constructor; auto. intros H. apply H1. eapply filter_ids_sub. exact H.
Qed.

Lemma filter_filter_and {A} (f g : A -> bool) l :
  filter f (filter g l) = filter (fun x => g x && f x) l.
Proof. induction l as [|x l IH]; cbn; auto. destruct (g x); cbn; [destruct (f x)|]; now rewrite ?IH. Qed.

Lemma occupied_remove_cells D L :
  NoDup (ids L) -> NoDup (ids D) -> incl D L ->
  occupied_of (remove_cells D L) + occupied_of D = occupied_of L.
Proof.
  revert L. induction D as [|d D IH]; intros L NL ND Hin.
  - unfold remove_cells. cbn.
    replace (filter (fun c => negb false) L) with L.
    2:{ clear. induction L; cbn; auto. now f_equal. }
    lia.
  - cbn [ids map] in ND. inversion ND as [|? ? Hnot ND']; subst.
    assert (E : remove_cells (d :: D) L =
                remove_cells D (filter (fun c => negb (c_id c =? c_id d)) L)).
    { unfold remove_cells. rewrite filter_filter_and. apply filter_ext. intros c.
      cbn [cell_in existsb]. now rewrite negb_orb. }
    rewrite E.
    assert (Hd : In d L) by (apply Hin; left; reflexivity).
    pose proof (occupied_remove_one d L NL Hd) as R1.
    specialize (IH (filter (fun c => negb (c_id c =? c_id d)) L)).
    assert (IH' := IH (filter_ids_nodup _ L NL) ND').
    assert (Hincl : incl D (filter (fun c => negb (c_id c =? c_id d)) L)).
    { intros x Hx. apply filter_In. split; [apply Hin; right; exact Hx|].
      apply negb_true_iff. apply N.eqb_neq. intros e. apply Hnot. rewrite <- e.
      unfold ids. apply in_map. exact Hx. }
    specialize (IH' Hincl). cbn [occupied_of fold_right]. unfold occupied_of in *. lia.
Qed.
