(* Reward/FinalizeProofs.v — the total reward computed by
   RewardCalculator::block_reward_internal is the declarative reward_spec
   (primary + miner share of secondary + committer shares + first-proposer
   shares), and a cellbase accepted by RewardVerifier's amount check creates
   exactly that. *)
From Coq Require Import Lia.
From CKB Require Import Arith.U Arith.UProofs Arith.EpochExt Reward.Reward Reward.RewardProofs
     Reward.Dao Reward.DaoProofs.
Arguments N.add : simpl never.
Arguments N.sub : simpl never.
Arguments N.mul : simpl never.
Arguments N.div : simpl never.
Local Open Scope N_scope.

Lemma sum_shares_some r l : forall acc v,
  sum_shares r l acc = Some v -> v = acc + sumN (map (share_of r) l).
Proof.
  induction l as [|f l IH]; intros acc v H; cbn [sum_shares map sumN fold_right] in *.
  - inversion H. lia.
  - unbind H. apply safe_mul_ratio_some in E. destruct E as (-> & _ & _).
    apply add64_some in E0. destruct E0 as [-> _]. apply IH in H. unfold share_of, sumN in *. lia.
Qed.

Lemma txs_fees_from_some r fees : forall acc v,
  txs_fees_from r acc fees = Some v ->
  v = acc + sumN (map (fun f => f - share_of r f) fees).
Proof.
  induction fees as [|f fees IH]; intros acc v H; cbn [txs_fees_from map sumN fold_right] in *.
  - inversion H. lia.
  - unbind H. destruct v0 as [p m]. apply fee_split_sums_any in E. destruct E as [Hs Hp].
    apply add64_some in E0. destruct E0 as [-> _]. cbn [snd] in H. apply IH in H.
    unfold share_of, sumN in *. rewrite <- Hp. lia.
Qed.

Lemma rchain_commits ch t :
  rb_commits (fb_r (fblock_at ch t)) = commits_at (rchain_of ch) t.
Proof.
  unfold commits_at, block_at, rchain_of, fblock_at.
  change empty_block with (fb_r empty_fblock). now rewrite map_nth.
Qed.

(* the reward of target t >= 2, whenever the calculator returns, is the rule *)
Theorem block_reward_eq_spec cs ch t rw :
  wf_window (cs_window cs) -> (2 <= t)%nat -> commits_unique (rchain_of ch) ->
  block_reward_internal cs ch (t + rw_far (cs_window cs)) t = Some rw ->
  reward_spec cs ch t = Some (br_total rw) /\
  br_total rw = br_primary rw + br_secondary rw + br_tx_fee rw + br_proposal rw.
Proof.
  intros W Ht U H. unfold block_reward_internal in H. unbind H. inversion H; subst; clear H.
  cbn [br_total br_primary br_secondary br_tx_fee br_proposal].
  rewrite (proposal_reward_eq_spec _ _ _ _ W Ht U) in E0.
  unfold proposer_part_spec in E0. apply sum_shares_some in E0.
  unfold txs_fees in E. apply txs_fees_from_some in E.
  unfold secondary_block_reward in E2.
  assert (Hn : (N.of_nat t =? 0) = false) by (apply N.eqb_neq; lia).
  rewrite Hn in E2. unbind E2. apply mul_div_u64_some in E2. destruct E2 as (-> & Cnz & _).
  apply add64_some in E3, E4, E5. destruct E3 as [-> _], E4 as [-> _], E5 as [-> _].
  unfold reward_spec. rewrite E1, E6. cbn [bind].
  apply N.eqb_neq in Cnz. rewrite Cnz.
  rewrite map_map in E. subst v v0.
  match goal with |- context [(?a * ?b / ?c)%N] => generalize (a * b / c)%N end.
  generalize (sumN (map (fun cm : N * N => snd cm - share_of (cs_ratio cs) (snd cm))
                        (rb_commits (fb_r (fblock_at ch t))))).
  generalize (sumN (map (share_of (cs_ratio cs)) (paid_fees (cs_window cs) (rchain_of ch) t))).
  intros a b c. split; [f_equal|]; lia.
Qed.

Lemma sum64_id_some l : forall acc v, sum64 (fun c => Some c) l acc = Some v -> v = acc + sumN l.
Proof.
  induction l as [|x l IH]; intros acc v H; cbn [sum64 sumN fold_right] in *.
  - inversion H. lia.
  - unbind H. inversion E; subst. apply add64_some in E0. destruct E0 as [-> _].
    apply IH in H. unfold sumN in *. lia.
Qed.

(* a block whose cellbase passes RewardVerifier's amount check creates exactly
   the reward of the block it finalises (t = its height - w_far - 1 >= 2), or
   nothing when that reward cannot create a cell *)
Theorem cellbase_eq_reward cs ch t min_cell outs :
  wf_window (cs_window cs) -> (2 <= t)%nat -> commits_unique (rchain_of ch) ->
  reward_verifier_ok cs ch (t + rw_far (cs_window cs)) min_cell outs = Some true ->
  exists total, reward_spec cs ch t = Some total /\
    ((min_cell <= total /\ sumN outs = total) \/ (total < min_cell /\ outs = [])).
Proof.
  intros W Ht U H. unfold reward_verifier_ok, block_reward_to_finalize in H.
  replace (finalize_target (cs_window cs) (t + rw_far (cs_window cs) + 1)) with t in H
    by (unfold finalize_target; lia).
  unbind H. destruct (block_reward_eq_spec cs ch t v W Ht U E) as [Hs _].
  exists (br_total v). split; auto.
  replace (t + rw_far (cs_window cs) + 1 <=? rw_far (cs_window cs) + 1)%nat with false in H
    by (symmetry; apply Nat.leb_gt; lia).
  cbn [orb] in H. destruct (N.ltb_spec (br_total v) min_cell) as [Hlt|Hge].
  - right. split; auto. inversion H. destruct outs; [reflexivity|discriminate].
  - left. split; auto. unbind H. inversion H. apply N.eqb_eq in H1.
    apply sum64_id_some in E0. lia.
Qed.

(* non-vacuity: the chain of Reward/RewardProofs.v's example with epochs and dao fields *)
Definition ex_cs := mkCons (mkRW 2 5) (mkRatio 4 10) 70000.
Definition ex_fchain : fchain :=
  map (fun b => mkFB (mkEpochExt 0 1000 3 0 0 20 0) (mkDao 10000000000000000 100000000000000 1000000 13000000000) b [])
      ex_chain.
Example cellbase_eq_reward_example :
  wf_window (cs_window ex_cs) /\ commits_unique (rchain_of ex_fchain) /\
  reward_verifier_ok ex_cs ex_fchain (2 + 5) 1000 [1023] = Some true /\
  reward_spec ex_cs ex_fchain 2 = Some 1023.
Proof.
  split; [unfold wf_window; cbn; lia|]. split.
  - unfold commits_unique. cbn. repeat constructor; cbn; intuition discriminate.
  - split; vm_compute; reflexivity.
Qed.
