(* Pool/Witness.v — concrete states and histories: non-vacuity examples and the
   witnesses of the findings F3, F8, F9, F10.  Definitions only; the facts about
   them are proved in Pool/PoolProofs.v by vm_compute. *)
From Coq Require Import List NArith Bool.
From CKB Require Import Pool.PoolMap Pool.Inv Pool.Check.
Import ListNotations.
Local Open Scope N_scope.

(* G <- P <- C, every tx spends output 0 of its parent *)
Definition wG := mkTx 1 [(0,1)] [] [] 1 100 10 1000 1.
Definition wP := mkTx 2 [(1,0)] [] [] 1 200 20 2000 2.
Definition wC := mkTx 3 [(2,0)] [] [] 1 300 30 3000 3.
Definition w_chain := [wG; wP; wC].

(* a diamond with a shared cell dep, a header dep and a conflicting spend:
   1 <- 2, 1 <- 3, {2,3} <- 4; 5 conflicts with 2; 6 cell-depends on (0,9) like 3 *)
Definition d1 := mkTx 1 [(0,1)] [] [] 2 100 1000 500 11.
Definition d2 := mkTx 2 [(1,0)] [(0,9)] [7] 1 150 2000 800 12.
Definition d3 := mkTx 3 [(1,1)] [(0,9)] [] 1 120 10 300 13.
Definition d4 := mkTx 4 [(2,0); (3,0)] [] [] 1 200 0 900 14.
Definition d5 := mkTx 5 [(1,0)] [] [] 1 100 5 5000 15.
Definition d6 := mkTx 6 [(0,2)] [(0,9); (4,0)] [] 1 90 7 100 16.
Definition w_diamond := [d1; d2; d3; d4; d5; d6].

Definition st_of (txs : list tx) (cs : list cop) : option pool := run_steps txs (empty_pool 125) cs.

(* a non-trivial reachable state: the diamond, fully pooled *)
Definition diamond_ops : list op :=
  [OAdd d1 Pending; OAdd d2 Pending; OAdd d3 Gap; OAdd d4 Proposed; OAdd d6 Pending; OSet 1 Proposed].
Definition diamond_state : option pool := run (empty_pool 125) diamond_ops.

(* F3: G, C pooled (C's parent P was on chain), then P is re-added *)
Definition f3_before : option pool := st_of w_chain [CAdd 1 0; CAdd 3 0].
Definition f3_after : option pool := st_of w_chain [CAdd 1 0; CAdd 3 0; CAdd 2 0].

(* F8 (repaired): G <- P <- C pooled, P removed with its descendants *)
Definition f8_before : option pool := st_of w_chain [CAdd 1 0; CAdd 2 0; CAdd 3 0].

(* F10: G <- P <- C pooled, plain remove_entry of P *)
Definition f10_after : option pool := st_of w_chain [CAdd 1 0; CAdd 2 0; CAdd 3 0; CRemove 2].

(* F9: P cell-depends on the chain cell (0,2), C spends P's output; the new tx T
   spends (0,2) and C's output, limit 2: P is evicted with C, C is still in
   `parents` *)
Definition nP := mkTx 1 [(0,1)] [(0,2)] [] 1 100 10 100 1.
Definition nC := mkTx 2 [(1,0)] [] [] 1 100 10 5000 2.
Definition nT := mkTx 3 [(2,0); (0,2)] [] [] 1 100 10 9000 3.
Definition f9_before : option pool := run (empty_pool 2) [OAdd nP Pending; OAdd nC Pending].
