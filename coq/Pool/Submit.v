(* Pool/Submit.v — C12, stage clause at the moment of insertion: the stage an entry
   gets when a verified transaction is inserted (tx-pool/src/process.rs pre_check /
   submit_entry / _submit_entry), at the membership/stage level of Pool/Reorg.v.
   pre_check runs under the pool's read lock and remembers the tip hash and the
   status (Fresh / Gap / Proposed = get_tx_status on the pool's snapshot of that
   moment); the scripts are verified with no lock held; submit_entry runs under the
   write lock with the snapshot the pool holds THEN: when its tip is not the
   remembered one, check_rtx resolves the transaction again and its result REPLACES
   the remembered status (`status = check_rtx(tx_pool, &snapshot, &entry.rtx)?`);
   _submit_entry inserts with add_pending / add_gap / add_proposed.  No proofs here. *)
From Coq Require Import List NArith Bool.
From CKB Require Import Pool.PoolMap Pool.Reorg.
Import ListNotations.
Local Open Scope N_scope.

(* the snapshot the pool holds: its tip hash and the chain as seen through it *)
Record snap := mkSnap { s_tip : N; s_chain : chain }.

(* pre_check -> (tip_hash, status) *)
Definition pre_check (s : snap) (t : tx) : N * status :=
  (s_tip s, status_of (c_view (s_chain s)) (tx_id t)).

Section Submit.
  Variable fits : lpool -> tx -> bool.            (* add_entry's ancestor limit, as in Reorg.v *)

  (* submit_entry(pre_resolve_tip, entry, status) against the pool's present snapshot `s` *)
  Definition submit_entry (pre : N * status) (s : snap) (p : lpool) (t : tx) : lpool :=
    if fst pre =? s_tip s then add_l fits p t (snd pre)
    else if resolvable (s_chain s) p t                       (* check_rtx .. ? : Err rejects the submission *)
         then add_l fits p t (status_of (c_view (s_chain s)) (tx_id t))
         else p.

  (* _process_tx: pre_check under `s_pre`, submit_entry under `s_now` *)
  Definition process_tx (s_pre s_now : snap) (p : lpool) (t : tx) : lpool :=
    submit_entry (pre_check s_pre t) s_now p t.

  (* the variant that keeps the remembered status (what the code must NOT do) — for the counterexample only *)
  Definition process_tx_stale (s_pre s_now : snap) (p : lpool) (t : tx) : lpool :=
    add_l fits p t (snd (pre_check s_pre t)).
End Submit.
