(* Pool/ListFacts.v — facts about the association lists and list-sets of Pool/PoolMap.v. *)
From Coq Require Import List NArith Bool Lia.
From CKB Require Import Pool.PoolMap Pool.Inv.
Import ListNotations.
Local Open Scope N_scope.

Lemma smem_In : forall x l, smem x l = true <-> In x l.
Proof.
  unfold smem. intros. rewrite existsb_exists. split.
  - intros [y [H1 H2]]. apply N.eqb_eq in H2. subst. auto.
  - intros. exists x. split; auto. apply N.eqb_refl.
Qed.
Lemma smem_false : forall x l, smem x l = false <-> ~ In x l.
Proof. intros. rewrite <- smem_In. destruct (smem x l); split; congruence. Qed.

Lemma sdedup_In : forall x l, In x (sdedup l) <-> In x l.
Proof.
  induction l; simpl; [tauto|].
  destruct (smem a l) eqn:E.
  - rewrite IHl. apply smem_In in E. split; [auto|]. intros [->|]; auto.
  - simpl. rewrite IHl. tauto.
Qed.
Lemma sdedup_NoDup : forall l, NoDup (sdedup l).
Proof.
  induction l; simpl; [constructor|].
  destruct (smem a l) eqn:E; auto. constructor; auto.
  rewrite sdedup_In. apply smem_false. auto.
Qed.

(* ---- N-keyed association lists ------------------------------------------- *)
Section NKeys.
  Context {V : Type}.
  Implicit Types (m : list (N * V)).

  Lemma aget_In_keys : forall k m v, aget N.eqb k m = Some v -> In k (map fst m).
  Proof.
    induction m as [|[k' v'] m]; simpl; [discriminate|]. intros v.
    destruct (N.eqb_spec k k'); [subst; auto|]. intros. right. eauto.
  Qed.
  Lemma aget_None_keys : forall k m, aget N.eqb k m = None <-> ~ In k (map fst m).
  Proof.
    induction m as [|[k' v'] m]; simpl; [tauto|].
    destruct (N.eqb_spec k k'); [subst; split; [discriminate|tauto]|].
    rewrite IHm. split; [intros H [E|E]; [congruence|auto]|tauto].
  Qed.
  Lemma amod_keys : forall k f m, map fst (amod N.eqb k f m) = map fst m.
  Proof. induction m as [|[k' v'] m]; simpl; [auto|]. destruct (k =? k'); simpl; congruence. Qed.
  Lemma amod_length : forall k f m, length (amod N.eqb k f m) = length m.
  Proof. induction m as [|[k' v'] m]; simpl; auto. Qed.
  Lemma aget_amod : forall k f m k', aget N.eqb k' (amod N.eqb k f m) =
    if k =? k' then option_map f (aget N.eqb k' m) else aget N.eqb k' m.
  Proof.
    induction m as [|[k0 v0] m]; simpl; intros; [destruct (k =? k'); auto|].
    destruct (N.eqb_spec k k0); subst; simpl.
    - destruct (N.eqb_spec k' k0); subst; [rewrite N.eqb_refl; auto|].
      rewrite IHm. auto.
    - destruct (N.eqb_spec k' k0); subst.
      + destruct (N.eqb_spec k k0); [contradiction|auto].
      + apply IHm.
  Qed.
  Lemma adel_keys : forall k m, map fst (adel N.eqb k m) = filter (fun x => negb (k =? x)) (map fst m).
  Proof. induction m as [|[k' v'] m]; simpl; [auto|]. destruct (k =? k'); simpl; congruence. Qed.
  Lemma aget_adel : forall k m k', aget N.eqb k' (adel N.eqb k m) = if k =? k' then None else aget N.eqb k' m.
  Proof.
    induction m as [|[k0 v0] m]; simpl; intros; [destruct (k =? k'); auto|].
    destruct (N.eqb_spec k k0); subst.
    - rewrite IHm. destruct (N.eqb_spec k0 k'); subst; [auto|].
      destruct (N.eqb_spec k' k0); [congruence|auto].
    - simpl. destruct (N.eqb_spec k' k0); subst.
      + destruct (N.eqb_spec k k0); [contradiction|auto].
      + apply IHm.
  Qed.
  Lemma adel_absent : forall k m, ~ In k (map fst m) -> adel N.eqb k m = m.
  Proof.
    induction m as [|[k' v'] m]; simpl; [auto|]. intros H.
    destruct (N.eqb_spec k k'); [subst; tauto|]. f_equal. apply IHm. tauto.
  Qed.
  Lemma NoDup_filter : forall (f : N -> bool) l, NoDup l -> NoDup (filter f l).
  Proof.
    induction 1; simpl; [constructor|]. destruct (f x); auto. constructor; auto.
    rewrite filter_In. tauto.
  Qed.
End NKeys.

(* folds of amod keep keys *)
Lemma fold_amod_keys : forall {V} (f : V -> V) ids (m : list (N * V)),
  map fst (fold_left (fun es id => amod N.eqb id f es) ids m) = map fst m.
Proof. induction ids; simpl; intros; [auto|]. rewrite IHids. apply amod_keys. Qed.
Lemma fold_amod_length : forall {V} (f : V -> V) ids (m : list (N * V)),
  length (fold_left (fun es id => amod N.eqb id f es) ids m) = length m.
Proof. induction ids; simpl; intros; [auto|]. rewrite IHids. apply amod_length. Qed.

(* ---- sums over entries ------------------------------------------------------ *)
Definition core_pres (f : entry -> entry) : Prop := forall e, e_tx (f e) = e_tx e /\ e_status (f e) = e_status e.
Definition core_fn (g : entry -> N) : Prop :=
  forall e e', e_tx e = e_tx e' -> e_status e = e_status e' -> g e = g e'.

Lemma sum_of_amod : forall g f k es, core_fn g -> core_pres f ->
  sum_of g (amod N.eqb k f es) = sum_of g es.
Proof.
  intros g f k es Hg Hf. induction es as [|[k' e] es]; simpl; [auto|].
  unfold sum_of in *. destruct (k =? k'); simpl; rewrite IHes; [|auto].
  f_equal. apply Hg; apply Hf.
Qed.
Lemma sum_of_fold_amod : forall g f ids es, core_fn g -> core_pres f ->
  sum_of g (fold_left (fun es id => amod N.eqb id f es) ids es) = sum_of g es.
Proof. induction ids; simpl; intros; [auto|]. rewrite IHids by auto. apply sum_of_amod; auto. Qed.
Lemma sum_of_adel : forall g k es e, NoDup (map fst es) -> aget N.eqb k es = Some e ->
  sum_of g es = g e + sum_of g (adel N.eqb k es).
Proof.
  induction es as [|[k' e'] es]; simpl; intros e ND H; [discriminate|].
  inversion ND; subst. unfold sum_of in *. simpl.
  destruct (N.eqb_spec k k').
  - subst. inversion H; subst. rewrite adel_absent by auto. auto.
  - simpl. rewrite (IHes e) by auto. lia.
Qed.
Lemma length_adel : forall {V} k (es : list (N * V)) e, NoDup (map fst es) -> aget N.eqb k es = Some e ->
  length es = S (length (adel N.eqb k es)).
Proof.
  induction es as [|[k' e'] es]; simpl; intros e ND H; [discriminate|].
  inversion ND; subst. destruct (N.eqb_spec k k').
  - subst. rewrite adel_absent by auto. auto.
  - simpl. f_equal. eapply IHes; eauto.
Qed.

Lemma count_partition : forall es,
  count_status Pending es + count_status Gap es + count_status Proposed es = N.of_nat (length es).
Proof.
  induction es as [|[k e] es]; [reflexivity|].
  unfold count_status, sum_of in *. cbn [fold_right snd length].
  rewrite Nat2N.inj_succ. destruct (e_status e); cbn [status_eqb]; lia.
Qed.

Lemma core_pres_weights : forall t,
  core_pres (add_ancestor_weight t) /\ core_pres (sub_ancestor_weight t) /\
  core_pres (add_descendant_weight t) /\ core_pres (sub_descendant_weight t).
Proof. intros. repeat split. Qed.
Lemma core_fn_size : core_fn (fun e => tx_size (e_tx e)).
Proof. intros e e' H _. now rewrite H. Qed.
Lemma core_fn_cycles : core_fn (fun e => tx_cycles (e_tx e)).
Proof. intros e e' H _. now rewrite H. Qed.
Lemma core_fn_status : forall s, core_fn (fun e => if status_eqb (e_status e) s then 1 else 0).
Proof. intros s e e' _ H. now rewrite H. Qed.
