(* Pool/Reorg.v — C12: the pool's reaction to a change of the main chain
   (tx-pool/src/process.rs update_tx_pool_for_reorg / _update_tx_pool_for_reorg /
   readd_detached_tx and the TxPool operations of pool.rs they call), transcribed
   in the order of the code, at the level the property speaks about: WHICH
   transactions are pooled and in WHICH stage.  The bookkeeping aggregates of
   the pool (ancestors_*, descendants_*, sort keys: property C11, Pool/PoolMap.v)
   enter only through two external decisions, which are Section variables:
     fits   — add_entry's ancestor-count test (ExceededMaximumAncestorsCount),
     victim — next_evict_entry of limit_size (evict-key order).
   Transactions, out-points and header ids are numbers as in Pool/PoolMap.v.
   Models the code that exists: the defects found for C12 are in (see
   ReorgProofs.v, the *_refuted lemmas).  No proofs here. *)
From Coq Require Import List NArith Bool.
From CKB Require Import Pool.PoolMap.
Import ListNotations.
Local Open Scope N_scope.

Definition lpool := list (tx * status).           (* insertion order *)
Definition lids (p : lpool) : list N := map (fun e => tx_id (fst e)) p.
Definition lpooled (p : lpool) (id : N) : bool := smem id (lids p).

Record view := mkView { v_gap : list N; v_set : list N }.
(* process.rs get_tx_status *)
Definition status_of (v : view) (id : N) : status :=
  if smem id (v_set v) then Proposed else if smem id (v_gap v) then Gap else Pending.

(* the new main chain as the pool sees it through its snapshot *)
Record chain := mkChain {
  c_live : outpoint -> bool;          (* live cell of the new chain *)
  c_main_header : N -> bool;          (* header on the new main chain *)
  c_view : view }.

Definition refs (t : tx) : list outpoint := tx_inputs t ++ tx_deps t.
Definition mem_pt (o : outpoint) (l : list outpoint) : bool := existsb (pt_eqb o) l.

(* ---- descendants: closure of "references an output of" inside the pool -------- *)
Definition refers_to (s : list N) (t : tx) : bool := existsb (fun o => smem (fst o) s) (refs t).
Definition desc_step (p : lpool) (s : list N) : list N :=
  s ++ map (fun e => tx_id (fst e)) (filter (fun e => refers_to s (fst e) && negb (smem (tx_id (fst e)) s)) p).
Fixpoint iter {A} (n : nat) (f : A -> A) (x : A) : A := match n with O => x | S k => iter k f (f x) end.
Definition descendants (p : lpool) (id : N) : list N := iter (length p) (desc_step p) [id].

Definition remove_set (p : lpool) (s : list N) : lpool := filter (fun e => negb (smem (tx_id (fst e)) s)) p.
(* PoolMap::remove_entry_and_descendants *)
Definition remove_with_desc (p : lpool) (id : N) : lpool := remove_set p (descendants p id).
Fixpoint remove_all_with_desc (p : lpool) (l : list N) : lpool :=
  match l with [] => p | id :: r => remove_all_with_desc (remove_with_desc p id) r end.

(* ---- pool.rs remove_committed_txs ------------------------------------------------ *)
(* PoolMap::resolve_conflict: pooled txs spending or depending on an input of the committed tx *)
Definition conflicts_on (p : lpool) (i : outpoint) : list N :=
  map (fun e => tx_id (fst e)) (filter (fun e => mem_pt i (refs (fst e))) p).
Fixpoint resolve_conflict_l (p : lpool) (is : list outpoint) : lpool :=
  match is with [] => p | i :: r => resolve_conflict_l (remove_all_with_desc p (conflicts_on p i)) r end.
(* TxPool::remove_committed_tx: remove_entry (the entry alone), then resolve_conflict *)
Definition commit_l (p : lpool) (t : tx) : lpool := resolve_conflict_l (remove_set p [tx_id t]) (tx_inputs t).
(* PoolMap::resolve_conflict_header_dep *)
Definition header_conflicts (p : lpool) (hs : list N) : list N :=
  map (fun e => tx_id (fst e)) (filter (fun e => existsb (fun h => smem h hs) (tx_hdeps (fst e))) p).
Definition remove_committed_txs (p : lpool) (attached : list tx) (detached_headers : list N) : lpool :=
  let p1 := fold_left commit_l attached p in
  match detached_headers with [] => p1 | _ => remove_all_with_desc p1 (header_conflicts p1 detached_headers) end.

Section Reorg.
  Variable fits : lpool -> tx -> bool.            (* add_entry's ancestor limit *)
  Variable victim : lpool -> option N.            (* limit_size's next_evict_entry *)
  Variable size_of : lpool -> N.                  (* total_tx_size *)

  (* add_pending / add_gap / add_proposed: Err(ExceededMaximumAncestorsCount) leaves the pool as it is *)
  Definition add_l (p : lpool) (t : tx) (st : status) : lpool :=
    if lpooled p (tx_id t) then p else if fits p t then p ++ [(t, st)] else p.

  (* ---- pool.rs remove_by_detached_proposal ---------------------------------------- *)
  Definition detach_one (p : lpool) (id : N) : lpool :=
    match find (fun e => tx_id (fst e) =? id) p with
    | None => p
    | Some (_, Pending) => p
    | Some _ =>
      let ds := descendants p id in
      let removed := filter (fun e => smem (tx_id (fst e)) ds) p in
      (* every removed entry is offered to add_pending; a failure is only logged *)
      fold_left (fun q e => add_l q (fst e) Pending) removed (remove_set p ds)
    end.
  Definition detach_proposals (p : lpool) (ids : list N) : lpool := fold_left detach_one ids p.

  (* ---- process.rs _update_tx_pool_for_reorg, the mine_mode block ------------------- *)
  Definition move_status (v : view) (e : tx * status) : tx * status :=
    let id := tx_id (fst e) in
    match snd e with
    | Gap => if smem id (v_set v) then (fst e, Proposed) else e
    | Pending => if smem id (v_set v) then (fst e, Proposed) else if smem id (v_gap v) then (fst e, Gap) else e
    | Proposed => e
    end.
  Definition status_moves (v : view) (p : lpool) : lpool := map (move_status v) p.

  (* ---- pool.rs remove_expired: the expired entries alone ------------------------------ *)
  Definition expire_l (p : lpool) (cutoff : N) : lpool := filter (fun e => negb (tx_ts (fst e) <? cutoff)) p.

  (* ---- pool.rs limit_size ----------------------------------------------------------------- *)
  Fixpoint limit_l (fuel : nat) (p : lpool) (max_size : N) : lpool :=
    if size_of p <=? max_size then p else
    match fuel with
    | O => p
    | S f => match victim p with
             | None => p
             | Some id => limit_l f (remove_with_desc p id) max_size
             end
    end.

  Definition update_for_reorg (mine : bool) (p : lpool) (attached : list tx) (detached_headers detached_props : list N)
             (v : view) (cutoff max_size : N) : lpool :=
    let p1 := remove_committed_txs p attached detached_headers in
    let p2 := detach_proposals p1 detached_props in
    let p3 := if mine then status_moves v p2 else p2 in
    let p4 := expire_l p3 cutoff in
    limit_l (length p4) p4 max_size.

  (* ---- process.rs readd_detached_tx ---------------------------------------------------------- *)
  Definition spent_in_pool (p : lpool) (o : outpoint) : bool := existsb (fun e => mem_pt o (tx_inputs (fst e))) p.
  Definition pool_output (p : lpool) (o : outpoint) : bool :=
    existsb (fun e => (tx_id (fst e) =? fst o) && (snd o <? tx_nout (fst e))) p.
  (* resolve_tx_from_pool(rbf = false): PoolCell over the snapshot *)
  Definition cell_ok (c : chain) (p : lpool) (o : outpoint) : bool :=
    negb (spent_in_pool p o) && (pool_output p o || c_live c o).
  Definition resolvable (c : chain) (p : lpool) (t : tx) : bool :=
    forallb (cell_ok c p) (refs t) && forallb (c_main_header c) (tx_hdeps t).
  (* check_tx_fee: fee >= min_fee_rate.fee(size) *)
  Definition fee_ok (min_fee_rate : N) (t : tx) : bool := min_fee_rate * tx_size t / 1000 <=? tx_fee t.
  Definition admissible (c : chain) (rate : N) (p : lpool) (t : tx) : bool := resolvable c p t && fee_ok rate t.
  Definition readd_one (c : chain) (rate : N) (p : lpool) (t : tx) : lpool :=
    if admissible c rate p t then add_l p t (status_of (c_view c) (tx_id t)) else p.
  Definition readd (c : chain) (rate : N) (p : lpool) (retain : list tx) : lpool := fold_left (readd_one c rate) retain p.

  (* TxPoolService::update_tx_pool_for_reorg *)
  Definition reorg (mine : bool) (c : chain) (rate : N) (p : lpool) (attached : list tx)
             (detached_headers detached_props : list N) (cutoff max_size : N) (retain : list tx) : lpool :=
    readd c rate (update_for_reorg mine p attached detached_headers detached_props (c_view c) cutoff max_size) retain.
End Reorg.

(* ---- the property as a predicate on a pool and a chain view -------------------------------- *)
Definition input_resolvable (c : chain) (p : lpool) (o : outpoint) : bool := pool_output p o || c_live c o.
Definition all_resolvable (c : chain) (p : lpool) : bool :=
  forallb (fun e => forallb (input_resolvable c p) (refs (fst e))) p.
Definition stages_match (v : view) (p : lpool) : bool :=
  forallb (fun e => status_eqb (snd e) (status_of v (tx_id (fst e)))) p.

(* ---- cases written by the harness ------------------------------------------------------------ *)
Record reorg_case := mkRC {
  rc_max_anc : N; rc_max_size : N; rc_min_fee_rate : N; rc_cutoff : N;
  rc_before : lpool;
  rc_attached : list tx;
  rc_detached_headers : list N;
  rc_detached_props : list N;
  rc_view : view;
  rc_retain : list tx;
  rc_live : list outpoint;
  rc_main_headers : list N;
  rc_after : list (N * N);       (* observed pool: (id, stage number), sorted *)
  rc_precise : bool }.

Definition st_num (s : status) : N := match s with Pending => 0 | Gap => 1 | Proposed => 2 end.
Definition pair_ltb (a b : N * N) : bool := (fst a <? fst b) || ((fst a =? fst b) && (snd a <? snd b)).
Fixpoint ins_pair (x : N * N) (l : list (N * N)) : list (N * N) :=
  match l with [] => [x] | y :: r => if pair_ltb x y then x :: l else y :: ins_pair x r end.
Definition sort_pairs (l : list (N * N)) : list (N * N) := fold_right ins_pair [] l.
Fixpoint pairs_eqb (a b : list (N * N)) : bool :=
  match a, b with
  | [], [] => true
  | x :: a', y :: b' => (fst x =? fst y) && (snd x =? snd y) && pairs_eqb a' b'
  | _, _ => false
  end.

(* the in-pool strict ancestors of a tx, over the tx graph *)
Definition parents_in (p : lpool) (t : tx) : list N := filter (fun id => lpooled p id) (map fst (refs t)).
Definition anc_step (p : lpool) (s : list N) : list N :=
  sdedup (s ++ flat_map (fun e => if smem (tx_id (fst e)) s then parents_in p (fst e) else []) p).
Definition ancestors_l (p : lpool) (t : tx) : list N := iter (length p) (anc_step p) (sdedup (parents_in p t)).
(* ancestors limit as add_entry applies it on consistent counts: ancestors + 1 <= max *)
Definition fits_count (max_anc : N) (p : lpool) (t : tx) : bool :=
  N.of_nat (length (ancestors_l p t)) + 1 <=? max_anc.
Definition total_size (p : lpool) : N := fold_right (fun e a => tx_size (fst e) + a) 0 p.

(* The model reproduces the observed pool exactly in the regime where the two
   external decisions are determined: nothing has to be evicted (limit_size idle). *)
Definition model_after (c : reorg_case) : lpool :=
  let ch := mkChain (fun o => mem_pt o (rc_live c)) (fun h => smem h (rc_main_headers c)) (rc_view c) in
  reorg (fits_count (rc_max_anc c)) (fun _ => None) total_size true ch (rc_min_fee_rate c) (rc_before c)
        (rc_attached c) (rc_detached_headers c) (rc_detached_props c) (rc_cutoff c) (rc_max_size c) (rc_retain c).
Definition check_reorg_case (c : reorg_case) : bool :=
  if negb (rc_precise c) then true else
  let m := model_after c in
  (* eviction regime (limit_size may act): predicate only *)
  if rc_max_size c <? total_size (rc_before c) + fold_right (fun t a => tx_size t + a) 0 (rc_retain c) then true
  else pairs_eqb (sort_pairs (map (fun e => (tx_id (fst e), st_num (snd e))) m)) (rc_after c).
