(* Pool/UnclesProofs.v — facts about Pool/Uncles.v (CandidateUncles) *)
From Coq Require Import List NArith Arith Bool Lia Sorted.
From CKB Require Import Pool.Uncles.
Import ListNotations.

Definition keys (m : list bucket) : list N := map fst m.
Definition SS (m : list bucket) : Prop := StronglySorted N.lt (keys m).
Definition getd (k : N) (m : list bucket) : list N := match map_get k m with Some s => s | None => [] end.

Lemma MPH_pos : 0 < MAX_PER_HEIGHT. Proof. unfold MAX_PER_HEIGHT. lia. Qed.
Lemma MCU_pos : 0 < MAX_CANDIDATE_UNCLES. Proof. unfold MAX_CANDIDATE_UNCLES. lia. Qed.

(* ---- the association list ---------------------------------------------------- *)
Lemma SS_cons_inv : forall k s r, SS ((k, s) :: r) -> SS r /\ Forall (N.lt k) (keys r).
Proof. intros k s r H. unfold SS in *. cbn [keys map fst] in H. apply StronglySorted_inv in H. exact H. Qed.

Lemma SS_cons : forall k s r, SS r -> Forall (N.lt k) (keys r) -> SS ((k, s) :: r).
Proof. intros. unfold SS. cbn [keys map fst]. constructor; assumption. Qed.

Lemma map_get_none_lt : forall k m, Forall (N.lt k) (keys m) -> map_get k m = None.
Proof.
  intros k m. induction m as [|[k' s] r IH]; intro H; cbn [map_get]; [reflexivity|].
  cbn [keys map fst] in H. inversion H as [|? ? Hk Hr]; subst.
  destruct (N.eqb_spec k' k); [lia|]. apply IH. exact Hr.
Qed.

Lemma Forall_lt_trans : forall a b l, (a < b)%N -> Forall (N.lt b) l -> Forall (N.lt a) l.
Proof. intros a b l Hab H. induction H; constructor; [lia|assumption]. Qed.

Lemma map_get_Some_In : forall k s m, map_get k m = Some s -> In (k, s) m.
Proof.
  intros k s m. induction m as [|[k' s'] r IH]; cbn [map_get]; [discriminate|].
  destruct (N.eqb_spec k' k) as [->|Hn]; intro H.
  - inversion H; subst. left. reflexivity.
  - right. apply IH. exact H.
Qed.

Lemma map_get_In : forall k s m, SS m -> In (k, s) m -> map_get k m = Some s.
Proof.
  intros k s m. induction m as [|[k' s'] r IH]; intros HS Hin; [destruct Hin|].
  apply SS_cons_inv in HS as [HSr Hlt]. cbn [map_get]. destruct Hin as [Heq|Hin].
  - inversion Heq; subst. rewrite N.eqb_refl. reflexivity.
  - destruct (N.eqb_spec k' k) as [->|Hn].
    + exfalso. rewrite Forall_forall in Hlt. specialize (Hlt k).
      assert (In k (keys r)) by (unfold keys; change k with (fst (k, s)); apply in_map; exact Hin).
      specialize (Hlt H). lia.
    + apply IH; assumption.
Qed.

Lemma map_get_put_same : forall k s m, map_get k (map_put k s m) = Some s.
Proof.
  intros k s m. induction m as [|[k' s'] r IH]; cbn [map_put map_get].
  - rewrite N.eqb_refl. reflexivity.
  - destruct (N.ltb_spec k k'); cbn [map_get]; [rewrite N.eqb_refl; reflexivity|].
    destruct (N.eqb_spec k k') as [->|Hn]; cbn [map_get]; [rewrite N.eqb_refl; reflexivity|].
    destruct (N.eqb_spec k' k); [congruence|]. exact IH.
Qed.

Lemma map_get_put_other : forall k k2 s m, k <> k2 -> map_get k2 (map_put k s m) = map_get k2 m.
Proof.
  intros k k2 s m Hn. induction m as [|[k' s'] r IH]; cbn [map_put map_get].
  - destruct (N.eqb_spec k k2); [contradiction|reflexivity].
  - destruct (N.ltb_spec k k'); cbn [map_get].
    + destruct (N.eqb_spec k k2); [contradiction|reflexivity].
    + destruct (N.eqb_spec k k') as [->|Hn2]; cbn [map_get].
      * destruct (N.eqb_spec k' k2); [contradiction|reflexivity].
      * rewrite IH. reflexivity.
Qed.

Lemma map_get_remove_other : forall k k2 m, k <> k2 -> map_get k2 (map_remove k m) = map_get k2 m.
Proof.
  intros k k2 m Hn. induction m as [|[k' s'] r IH]; cbn [map_remove map_get]; [reflexivity|].
  destruct (N.eqb_spec k' k) as [->|Hk]; cbn [map_get].
  - destruct (N.eqb_spec k k2); [contradiction|reflexivity].
  - rewrite IH. reflexivity.
Qed.

Lemma map_get_remove_same : forall k m, SS m -> map_get k (map_remove k m) = None.
Proof.
  intros k m. induction m as [|[k' s'] r IH]; intro HS; cbn [map_remove map_get]; [reflexivity|].
  apply SS_cons_inv in HS as [HSr Hlt].
  destruct (N.eqb_spec k' k) as [->|Hk]; cbn [map_get].
  - apply map_get_none_lt. exact Hlt.
  - destruct (N.eqb_spec k' k); [contradiction|]. apply IH. exact HSr.
Qed.

Lemma Forall_put : forall (P : bucket -> Prop) k s m, Forall P m -> P (k, s) -> Forall P (map_put k s m).
Proof.
  intros P k s m H Hk. induction H as [|[k' s'] r Hx Hr IH]; cbn [map_put]; [constructor; [exact Hk|constructor]|].
  destruct (N.ltb k k'); [constructor; [exact Hk|constructor; assumption]|].
  destruct (N.eqb k k'); constructor; assumption.
Qed.

Lemma Forall_remove : forall (P : bucket -> Prop) k m, Forall P m -> Forall P (map_remove k m).
Proof.
  intros P k m H. induction H as [|[k' s'] r Hx Hr IH]; cbn [map_remove]; [constructor|].
  destruct (N.eqb k' k); [exact Hr|constructor; assumption].
Qed.

Lemma keys_Forall : forall (P : N -> Prop) m, Forall P (keys m) <-> Forall (fun b : bucket => P (fst b)) m.
Proof.
  intros P m. unfold keys. induction m as [|b r IH]; cbn [map]; split; intro H; try constructor; inversion H; subst; try assumption; apply IH; assumption.
Qed.

Lemma SS_put : forall k s m, SS m -> SS (map_put k s m).
Proof.
  intros k s m. induction m as [|[k' s'] r IH]; intro HS; cbn [map_put].
  - apply SS_cons; [exact HS|constructor].
  - pose proof HS as HS0. apply SS_cons_inv in HS as [HSr Hlt].
    destruct (N.ltb_spec k k') as [Hlt1|Hge].
    + apply SS_cons; [exact HS0|]. cbn [keys map fst]. constructor; [exact Hlt1|].
      eapply Forall_lt_trans; eassumption.
    + destruct (N.eqb_spec k k') as [->|Hn].
      * apply SS_cons; assumption.
      * apply SS_cons; [apply IH; exact HSr|].
        apply keys_Forall. apply Forall_put; [apply keys_Forall; exact Hlt|]. cbn [fst]. lia.
Qed.

Lemma SS_remove : forall k m, SS m -> SS (map_remove k m).
Proof.
  intros k m. induction m as [|[k' s'] r IH]; intro HS; cbn [map_remove]; [exact HS|].
  apply SS_cons_inv in HS as [HSr Hlt].
  destruct (N.eqb k' k); [exact HSr|].
  apply SS_cons; [apply IH; exact HSr|].
  apply keys_Forall. apply Forall_remove. apply keys_Forall. exact Hlt.
Qed.

Lemma total_cons : forall k s r, total ((k, s) :: r) = length s + total r.
Proof. reflexivity. Qed.

Lemma getd_cons : forall k k' s r, getd k ((k', s) :: r) = if N.eqb k' k then s else getd k r.
Proof. intros. unfold getd. cbn [map_get]. destruct (N.eqb k' k); reflexivity. Qed.

Lemma getd_none_lt : forall k m, Forall (N.lt k) (keys m) -> getd k m = [].
Proof. intros. unfold getd. rewrite map_get_none_lt by assumption. reflexivity. Qed.

Lemma total_put : forall k s m, SS m -> total (map_put k s m) + length (getd k m) = total m + length s.
Proof.
  intros k s m. induction m as [|[k' s'] r IH]; intro HS.
  - cbn. lia.
  - apply SS_cons_inv in HS as [HSr Hlt]. cbn [map_put]. rewrite getd_cons.
    destruct (N.ltb_spec k k') as [Hlt1|Hge].
    + destruct (N.eqb_spec k' k); [lia|]. rewrite getd_none_lt by (eapply Forall_lt_trans; eassumption).
      rewrite !total_cons. cbn [length]. lia.
    + destruct (N.eqb_spec k k') as [->|Hn].
      * rewrite N.eqb_refl. rewrite !total_cons. lia.
      * destruct (N.eqb_spec k' k); [congruence|]. rewrite !total_cons. specialize (IH HSr). lia.
Qed.

Lemma total_remove : forall k m, total (map_remove k m) + length (getd k m) = total m.
Proof.
  intros k m. induction m as [|[k' s'] r IH].
  - reflexivity.
  - cbn [map_remove]. rewrite getd_cons. destruct (N.eqb k' k); rewrite !total_cons; lia.
Qed.

Lemma total_ge_get : forall k s m, map_get k m = Some s -> length s <= total m.
Proof.
  intros k s m H. pose proof (total_remove k m) as Ht. unfold getd in Ht. rewrite H in Ht. lia.
Qed.

Lemma map_put_same : forall k s m, SS m -> map_get k m = Some s -> map_put k s m = m.
Proof.
  intros k s m. induction m as [|[k' s'] r IH]; intros HS Hg; cbn [map_get] in Hg; [discriminate|].
  apply SS_cons_inv in HS as [HSr Hlt]. cbn [map_put].
  destruct (N.eqb_spec k' k) as [->|Hn].
  - inversion Hg; subst. rewrite N.ltb_irrefl, N.eqb_refl. reflexivity.
  - destruct (N.ltb_spec k k') as [Hlt1|Hge].
    + rewrite map_get_none_lt in Hg by (eapply Forall_lt_trans; eassumption). discriminate.
    + destruct (N.eqb_spec k k'); [congruence|]. rewrite IH by assumption. reflexivity.
Qed.

Lemma map_put_put : forall k s1 s2 m, map_put k s2 (map_put k s1 m) = map_put k s2 m.
Proof.
  intros k s1 s2 m. induction m as [|[k' s'] r IH]; cbn [map_put].
  - rewrite N.ltb_irrefl, N.eqb_refl. reflexivity.
  - destruct (N.ltb k k') eqn:Hlt; cbn [map_put].
    + rewrite N.ltb_irrefl, N.eqb_refl. reflexivity.
    + destruct (N.eqb k k') eqn:He; cbn [map_put].
      * rewrite N.ltb_irrefl, N.eqb_refl. reflexivity.
      * rewrite Hlt, He, IH. reflexivity.
Qed.

(* ---- the sets ------------------------------------------------------------------ *)
Lemma set_mem_In : forall id s, set_mem id s = true <-> In id s.
Proof.
  intros id s. unfold set_mem. rewrite existsb_exists. split.
  - intros [x [Hx He]]. apply N.eqb_eq in He. subst. exact Hx.
  - intro H. exists id. split; [exact H|apply N.eqb_refl].
Qed.

Lemma set_mem_false : forall id s, set_mem id s = false <-> ~ In id s.
Proof.
  intros id s. rewrite <- set_mem_In. destruct (set_mem id s); split; intro H; try reflexivity; try discriminate; try (intro; discriminate). exfalso. apply H. reflexivity.
Qed.

Lemma set_remove_In : forall x id s, In x (set_remove id s) <-> In x s /\ x <> id.
Proof.
  intros x id s. unfold set_remove. rewrite filter_In. split; intros [H1 H2]; split; try exact H1.
  - intro He. subst. rewrite N.eqb_refl in H2. discriminate.
  - destruct (N.eqb_spec id x); [congruence|reflexivity].
Qed.

Lemma set_remove_NoDup : forall id s, NoDup s -> NoDup (set_remove id s).
Proof. intros. unfold set_remove. apply NoDup_filter. assumption. Qed.

Lemma set_remove_notin : forall id s, ~ In id s -> set_remove id s = s.
Proof.
  intros id s. induction s as [|x r IH]; intro H; [reflexivity|].
  unfold set_remove in *. cbn [filter]. destruct (N.eqb_spec id x) as [->|Hn]; cbn [negb].
  - exfalso. apply H. left. reflexivity.
  - rewrite IH; [reflexivity|]. intro Hi. apply H. right. exact Hi.
Qed.

Lemma set_remove_length : forall id s, NoDup s -> In id s -> length s = S (length (set_remove id s)).
Proof.
  intros id s. induction s as [|x r IH]; intros Hnd Hin; [destruct Hin|].
  inversion Hnd as [|? ? Hx Hr]; subst.
  unfold set_remove in *. cbn [filter]. destruct (N.eqb_spec id x) as [->|Hn]; cbn [negb length].
  - fold (set_remove x r). rewrite set_remove_notin by exact Hx. reflexivity.
  - destruct Hin as [He|Hin]; [congruence|]. rewrite (IH Hr Hin). reflexivity.
Qed.

Lemma set_remove_length_le : forall id s, length (set_remove id s) <= length s.
Proof.
  intros id s. induction s as [|x r IH]; [apply Nat.le_refl|].
  unfold set_remove in *. cbn [filter]. destruct (negb (N.eqb id x)); cbn [length]; lia.
Qed.

Lemma set_is_empty_true : forall s, set_is_empty s = true <-> s = [].
Proof. intros [|x r]; cbn; split; intro H; try reflexivity; discriminate. Qed.

Lemma NoDup_snoc : forall (x : N) s, NoDup s -> ~ In x s -> NoDup (s ++ [x]).
Proof.
  intros x s H. induction H as [|y r Hy Hr IH]; intro Hx; cbn [app].
  - constructor; [intros []|constructor].
  - constructor.
    + intro Hin. apply in_app_or in Hin as [Hin|[He|[]]]; [contradiction|]. subst. apply Hx. left. reflexivity.
    + apply IH. intro Hi. apply Hx. right. exact Hi.
Qed.

(* ---- contains in terms of the map ----------------------------------------------- *)
Lemma contains_eq : forall c n i, contains c (n, i) = set_mem i (getd n (cu_map c)).
Proof. intros. unfold contains, getd. cbn [fst snd]. destruct (map_get n (cu_map c)); reflexivity. Qed.

Lemma Inv_bucket : forall c k s, Inv c -> map_get k (cu_map c) = Some s -> bucket_ok (k, s).
Proof.
  intros c k s HI Hg. apply map_get_Some_In in Hg. pose proof (inv_buckets c HI) as HF.
  rewrite Forall_forall in HF. apply HF. exact Hg.
Qed.

Lemma Inv_empty : Inv empty.
Proof. constructor; cbn; [constructor|constructor|reflexivity|apply Nat.le_0_l]. Qed.

(* ---- insert, first half ---------------------------------------------------------- *)
Lemma make_room_spec : forall c n, Inv c ->
  (cu_count c < MAX_CANDIDATE_UNCLES /\ evicts c n = false /\ make_room c n = RGo c) \/
  (MAX_CANDIDATE_UNCLES <= cu_count c /\ exists k b r, cu_map c = (k, b) :: r /\
     (((k < n)%N /\ evicts c n = true /\ length b <= cu_count c /\ b <> [] /\
       make_room c n = RGo (mkCU r (cu_count c - length b))) \/
      ((n <= k)%N /\ evicts c n = false /\ make_room c n = RRefuse))).
Proof.
  intros c n HI. unfold make_room, evicts, first_key.
  destruct (Nat.leb_spec MAX_CANDIDATE_UNCLES (cu_count c)) as [Hfull|Hroom].
  - right. split; [exact Hfull|].
    destruct (cu_map c) as [|[k b] r] eqn:Hm.
    + exfalso. pose proof (inv_count c HI) as Hc. rewrite Hm in Hc. cbn in Hc. pose proof MCU_pos. lia.
    + exists k, b, r. split; [reflexivity|]. cbn [map_get map_remove]. rewrite N.eqb_refl. cbn [andb].
      destruct (N.ltb_spec k n) as [Hlt|Hge].
      * left. pose proof (inv_count c HI) as Hc. rewrite Hm, total_cons in Hc.
        assert (Hb : bucket_ok (k, b)).
        { pose proof (inv_buckets c HI) as HF. rewrite Hm in HF. inversion HF; assumption. }
        destruct Hb as [Hne _]. cbn [snd] in Hne.
        destruct (Nat.leb_spec (length b) (cu_count c)); [|lia].
        repeat split; try assumption; reflexivity.
      * right. repeat split; assumption.
  - left. cbn [andb]. repeat split. exact Hroom.
Qed.

Lemma make_room_go : forall c n c1, Inv c -> make_room c n = RGo c1 ->
  Inv c1 /\ cu_count c1 < MAX_CANDIDATE_UNCLES /\ (forall v, contains c1 v = contains c v && negb (evicted c n v)).
Proof.
  intros c n c1 HI Hr. destruct (make_room_spec c n HI) as [[Hlt [Hev Hgo]]|[Hfull [k [b [r [Hm [[Hlt [Hev [Hle [Hne Hgo]]]]|[Hge [Hev Hgo]]]]]]]]];
    rewrite Hgo in Hr; inversion Hr; subst; clear Hr.
  - split; [exact HI|]. split; [exact Hlt|]. intro v. unfold evicted. rewrite Hev. cbn [andb negb]. rewrite andb_true_r. reflexivity.
  - pose proof (inv_keys c HI) as HS. pose proof (inv_buckets c HI) as HF. pose proof (inv_count c HI) as Hc. pose proof (inv_max c HI) as Hmax.
    fold (keys (cu_map c)) in HS. fold (SS (cu_map c)) in HS. rewrite Hm in HS, HF, Hc. rewrite total_cons in Hc.
    apply SS_cons_inv in HS as [HSr Hlt2]. inversion HF as [|? ? Hb HFr]; subst.
    assert (Hlb : 0 < length b) by (destruct b; [contradiction|cbn; lia]).
    split; [|split].
    + constructor; cbn [cu_map cu_count]; [exact HSr|exact HFr|lia|lia].
    + cbn [cu_count]. lia.
    + intros [vn vi]. rewrite !contains_eq. cbn [cu_map]. rewrite Hm, getd_cons.
      unfold evicted, first_key. rewrite Hev, Hm. cbn [andb fst].
      destruct (N.eqb_spec k vn) as [->|Hn].
      * rewrite N.eqb_refl. cbn [negb]. rewrite andb_false_r. rewrite getd_none_lt by exact Hlt2. reflexivity.
      * destruct (N.eqb_spec vn k); [congruence|]. cbn [negb]. rewrite andb_true_r. reflexivity.
Qed.

(* ---- insert, second half ----------------------------------------------------------- *)
Definition put_in (c1 : cu) (u : uncle) : cu * ires :=
  let number := fst u in
  let id := snd u in
  let set := match map_get number (cu_map c1) with Some s => s | None => [] end in
  let m1 := map_put number set (cu_map c1) in
  if Nat.ltb (length set) MAX_PER_HEIGHT then
    if set_mem id set then (mkCU m1 (cu_count c1), IFalse)
    else (mkCU (map_put number (set ++ [id]) m1) (S (cu_count c1)), ITrue)
  else (mkCU m1 (cu_count c1), IFalse).

Lemma insert_unfold : forall c u,
  insert c u = match make_room c (fst u) with RPanic => (c, IPanic) | RRefuse => (c, IFalse) | RGo c1 => put_in c1 u end.
Proof. reflexivity. Qed.

Lemma uncle_eqb_eq : forall a b, uncle_eqb a b = true <-> a = b.
Proof.
  intros [an ai] [bn bi]. unfold uncle_eqb. cbn [fst snd]. rewrite andb_true_iff, !N.eqb_eq. split.
  - intros [-> ->]. reflexivity.
  - intro H. inversion H. split; reflexivity.
Qed.

Lemma put_in_spec : forall c1 u, Inv c1 -> cu_count c1 < MAX_CANDIDATE_UNCLES ->
  Inv (fst (put_in c1 u)) /\
  (snd (put_in c1 u) = ITrue \/ snd (put_in c1 u) = IFalse /\ fst (put_in c1 u) = c1) /\
  (snd (put_in c1 u) = ITrue <-> contains c1 u = false /\ length (getd (fst u) (cu_map c1)) < MAX_PER_HEIGHT) /\
  (snd (put_in c1 u) = ITrue -> cu_count (fst (put_in c1 u)) = S (cu_count c1)) /\
  (forall v, contains (fst (put_in c1 u)) v = contains c1 v || (uncle_eqb v u && ires_eqb (snd (put_in c1 u)) ITrue)).
Proof.
  intros c1 [n id] HI Hlt. destruct c1 as [m cnt]. cbn [cu_count] in Hlt.
  pose proof (inv_keys _ HI) as HS. fold (keys m) in HS. cbn [cu_map] in HS. fold (keys m) in HS. fold (SS m) in HS.
  unfold put_in. cbn [fst snd cu_map cu_count]. rewrite contains_eq. cbn [cu_map]. fold (getd n m).
  assert (Hm1 : map_get n m = None /\ getd n m = [] \/ map_put n (getd n m) m = m /\ map_get n m = Some (getd n m)).
  { unfold getd. destruct (map_get n m) as [s|] eqn:Hg; [right|left]; split; try reflexivity. apply map_put_same; assumption. }
  assert (Hsame : snd (mkCU m cnt, IFalse) = ITrue \/ snd (mkCU m cnt, IFalse) = IFalse /\ fst (mkCU m cnt, IFalse) = mkCU m cnt)
    by (right; split; reflexivity).
  assert (Hcontains_same : forall v, contains (mkCU m cnt) v = contains (mkCU m cnt) v || (uncle_eqb v (n, id) && ires_eqb IFalse ITrue))
    by (intro v; cbn [ires_eqb]; rewrite andb_false_r, orb_false_r; reflexivity).
  destruct (Nat.ltb_spec (length (getd n m)) MAX_PER_HEIGHT) as [Hlen|Hlen].
  - destruct (set_mem id (getd n m)) eqn:Hmem.
    + (* duplicate *)
      destruct Hm1 as [[_ He]|[Hp _]]; [rewrite He in Hmem; discriminate|]. rewrite Hp. cbn [fst snd].
      split; [exact HI|]. split; [exact Hsame|]. split; [split; [discriminate|intros [? _]; discriminate]|].
      split; [discriminate|exact Hcontains_same].
    + (* stored *)
      rewrite map_put_put. cbn [fst snd].
      apply set_mem_false in Hmem.
      assert (Hbk : NoDup (getd n m) /\ length (getd n m) <= MAX_PER_HEIGHT).
      { destruct Hm1 as [[_ He]|[_ Hg]]; [rewrite He; split; [constructor|apply Nat.le_0_l]|].
        destruct (Inv_bucket _ _ _ HI Hg) as [_ [H1 H2]]. split; assumption. }
      split; [|split; [left; reflexivity|split; [split; [intros _; split; [reflexivity|exact Hlen]|reflexivity]|split; [reflexivity|]]]].
      * constructor; cbn [cu_map cu_count].
        -- apply SS_put. exact HS.
        -- apply Forall_put; [exact (inv_buckets _ HI)|]. unfold bucket_ok. cbn [snd]. split; [|split].
           ++ destruct (getd n m); discriminate.
           ++ apply NoDup_snoc; tauto.
           ++ rewrite app_length. cbn [length]. lia.
        -- pose proof (total_put n (getd n m ++ [id]) m HS) as Ht. rewrite app_length in Ht. cbn [length] in Ht.
           pose proof (inv_count _ HI) as Hc. cbn [cu_map cu_count] in Hc. lia.
        -- lia.
      * intros [vn vi]. rewrite !contains_eq. cbn [cu_map ires_eqb]. rewrite andb_true_r. unfold getd at 1.
        destruct (N.eqb_spec n vn) as [->|Hn].
        -- rewrite map_get_put_same. unfold uncle_eqb. cbn [fst snd]. rewrite N.eqb_refl. cbn [andb].
           unfold set_mem. rewrite existsb_app. cbn [existsb]. rewrite orb_false_r. reflexivity.
        -- rewrite map_get_put_other by exact Hn. fold (getd vn m). unfold uncle_eqb. cbn [fst snd].
           destruct (N.eqb_spec vn n); [congruence|]. cbn [andb]. rewrite orb_false_r. reflexivity.
  - (* bucket full *)
    destruct Hm1 as [[_ He]|[Hp _]]; [rewrite He in Hlen; cbn [length] in Hlen; pose proof MPH_pos; lia|]. rewrite Hp. cbn [fst snd].
    split; [exact HI|]. split; [exact Hsame|]. split; [split; [discriminate|intros [_ ?]; lia]|].
    split; [discriminate|exact Hcontains_same].
Qed.

(* ---- insert ---------------------------------------------------------------------------- *)
Theorem insert_inv : forall c u, Inv c -> Inv (fst (insert c u)).
Proof.
  intros c u HI. rewrite insert_unfold. destruct (make_room c (fst u)) as [c1| |] eqn:Hr; cbn [fst]; try exact HI.
  destruct (make_room_go c _ c1 HI Hr) as [HI1 [Hlt _]]. apply put_in_spec; assumption.
Qed.

Theorem insert_never_panics : forall c u, Inv c -> snd (insert c u) <> IPanic.
Proof.
  intros c u HI. rewrite insert_unfold. destruct (make_room c (fst u)) as [c1| |] eqn:Hr; cbn [snd]; try discriminate.
  - destruct (make_room_go c _ c1 HI Hr) as [HI1 [Hlt _]].
    destruct (put_in_spec c1 u HI1 Hlt) as [_ [[H|[H _]] _]]; rewrite H; discriminate.
  - exfalso. destruct (make_room_spec c (fst u) HI) as [[_ [_ H]]|[_ [k [b [r [_ [[_ [_ [_ [_ H]]]]|[_ [_ H]]]]]]]]]; congruence.
Qed.

(* membership after an insert, for every uncle v: what was there stays unless it was in the evicted
   lowest bucket; the new uncle is there when insert said true *)
Theorem insert_membership : forall c u v, Inv c ->
  contains (fst (insert c u)) v =
  (contains c v && negb (evicted c (fst u) v)) || (uncle_eqb v u && ires_eqb (snd (insert c u)) ITrue).
Proof.
  intros c u v HI. rewrite insert_unfold. destruct (make_room c (fst u)) as [c1| |] eqn:Hr.
  - destruct (make_room_go c _ c1 HI Hr) as [HI1 [Hlt Hc]].
    destruct (put_in_spec c1 u HI1 Hlt) as [_ [_ [_ [_ Hp]]]]. rewrite Hp, Hc. reflexivity.
  - cbn [fst snd ires_eqb]. rewrite andb_false_r, orb_false_r.
    destruct (make_room_spec c (fst u) HI) as [[_ [_ H]]|[_ [k [b [r [_ [[_ [_ [_ [_ H]]]]|[_ [Hev _]]]]]]]]]; try congruence.
    unfold evicted. rewrite Hev. cbn [andb negb]. rewrite andb_true_r. reflexivity.
  - exfalso. apply (insert_never_panics c u HI). rewrite insert_unfold, Hr. reflexivity.
Qed.

Theorem insert_true_contains : forall c u, Inv c -> snd (insert c u) = ITrue -> contains (fst (insert c u)) u = true.
Proof.
  intros c u HI Ht. rewrite insert_membership by exact HI. rewrite Ht. cbn [ires_eqb].
  assert (uncle_eqb u u = true) as -> by (apply uncle_eqb_eq; reflexivity). cbn [andb]. apply orb_true_r.
Qed.

Lemma evicted_spec : forall c n v, evicted c n v = true <->
  MAX_CANDIDATE_UNCLES <= cu_count c /\ exists k, first_key c = Some k /\ (k < n)%N /\ fst v = k.
Proof.
  intros c n v. unfold evicted, evicts. destruct (first_key c) as [k|].
  - rewrite !andb_true_iff, Nat.leb_le, N.ltb_lt, N.eqb_eq. split.
    + intros [[H1 H2] H3]. split; [exact H1|]. exists k. repeat split; assumption.
    + intros [H1 [k' [He [H2 H3]]]]. inversion He; subst. repeat split; assumption.
  - rewrite andb_false_r. split; [discriminate|]. intros [_ [k [He _]]]. discriminate.
Qed.

(* an insert takes a member away only by evicting the lowest bucket: the container is full and the new
   number is above the lowest one *)
Theorem insert_removes_only_evicted : forall c u v, Inv c ->
  contains c v = true -> contains (fst (insert c u)) v = false ->
  MAX_CANDIDATE_UNCLES <= cu_count c /\ exists k, first_key c = Some k /\ (k < fst u)%N /\ fst v = k.
Proof.
  intros c u v HI Hb Ha. rewrite insert_membership in Ha by exact HI. rewrite Hb in Ha.
  apply orb_false_iff in Ha as [Ha _]. cbn [andb] in Ha. apply negb_false_iff in Ha. apply evicted_spec. exact Ha.
Qed.

(* … and then the whole lowest bucket goes, whatever the insert answers *)
Theorem insert_evicts_lowest_bucket : forall c u v k, Inv c ->
  MAX_CANDIDATE_UNCLES <= cu_count c -> first_key c = Some k -> (k < fst u)%N -> fst v = k ->
  contains (fst (insert c u)) v = false.
Proof.
  intros c u v k HI Hfull Hk Hlt Hv. rewrite insert_membership by exact HI.
  assert (He : evicted c (fst u) v = true) by (apply evicted_spec; split; [exact Hfull|exists k; repeat split; assumption]).
  rewrite He. cbn [negb]. rewrite andb_false_r. cbn [orb].
  destruct (uncle_eqb v u) eqn:Hvu; [|reflexivity]. apply uncle_eqb_eq in Hvu. subst v. lia.
Qed.

(* when insert says true *)
Theorem insert_true_iff : forall c u, Inv c ->
  (snd (insert c u) = ITrue <->
   contains c u = false /\
   (cu_count c < MAX_CANDIDATE_UNCLES \/ exists k, first_key c = Some k /\ (k < fst u)%N) /\
   length (bucket_of c (fst u)) < MAX_PER_HEIGHT).
Proof.
  intros c u HI. change (bucket_of c (fst u)) with (getd (fst u) (cu_map c)). rewrite insert_unfold.
  destruct (make_room_spec c (fst u) HI) as [[Hlt [Hev Hgo]]|[Hfull [k [b [r [Hm [[Hlt [Hev [Hle [Hne Hgo]]]]|[Hge [Hev Hgo]]]]]]]]]; rewrite Hgo.
  - destruct (put_in_spec c u HI Hlt) as [_ [_ [Hiff _]]]. rewrite Hiff. split.
    + intros [H1 H2]. repeat split; try assumption. left. exact Hlt.
    + intros [H1 [_ H2]]. split; assumption.
  - assert (Hgo' : make_room c (fst u) = RGo (mkCU r (cu_count c - length b))) by exact Hgo.
    destruct (make_room_go c _ _ HI Hgo') as [HI1 [Hlt1 Hc]].
    destruct (put_in_spec _ u HI1 Hlt1) as [_ [_ [Hiff _]]]. rewrite Hiff. rewrite Hc. cbn [cu_map].
    assert (Hne2 : evicted c (fst u) u = false).
    { destruct (evicted c (fst u) u) eqn:E; [|reflexivity]. apply evicted_spec in E as [_ [k' [Hk' [Hl He]]]]. lia. }
    rewrite Hne2. cbn [negb]. rewrite andb_true_r.
    assert (Hg : getd (fst u) (cu_map c) = getd (fst u) r).
    { rewrite Hm, getd_cons. destruct (N.eqb_spec k (fst u)); [lia|reflexivity]. }
    rewrite Hg. split.
    + intros [H1 H2]. repeat split; try assumption. right. exists k. unfold first_key. rewrite Hm. split; [reflexivity|exact Hlt].
    + intros [H1 [_ H2]]. split; assumption.
  - cbn [snd]. split; [discriminate|]. intros [_ [[H|[k' [Hk' Hl]]] _]]; [lia|].
    unfold first_key in Hk'. rewrite Hm in Hk'. inversion Hk'; subst. lia.
Qed.

(* ---- remove_by_number -------------------------------------------------------------------- *)
Theorem remove_spec : forall c u, Inv c ->
  Inv (fst (remove_by_number c u)) /\
  snd (remove_by_number c u) <> IPanic /\
  (snd (remove_by_number c u) = ITrue <-> contains c u = true) /\
  contains (fst (remove_by_number c u)) u = false /\
  (forall v, v <> u -> contains (fst (remove_by_number c u)) v = contains c v) /\
  (snd (remove_by_number c u) = ITrue -> cu_count c = S (cu_count (fst (remove_by_number c u)))) /\
  (snd (remove_by_number c u) = IFalse -> fst (remove_by_number c u) = c).
Proof.
  intros c [n id] HI. unfold remove_by_number. cbn [fst snd].
  pose proof (inv_keys _ HI) as HS. fold (keys (cu_map c)) in HS. fold (SS (cu_map c)) in HS.
  assert (Hcu : contains c (n, id) = match map_get n (cu_map c) with Some s => set_mem id s | None => false end) by reflexivity.
  destruct (map_get n (cu_map c)) as [set|] eqn:Hg.
  2:{ cbn [fst snd]. rewrite Hcu. split; [exact HI|]. repeat split; try discriminate; auto. }
  destruct (set_mem id set) eqn:Hmem.
  2:{ cbn [fst snd]. rewrite Hcu. split; [exact HI|]. repeat split; try discriminate; auto. }
  apply set_mem_In in Hmem.
  destruct (Inv_bucket _ _ _ HI Hg) as [Hne [Hnd Hlen]]. cbn [snd] in Hne, Hnd, Hlen.
  pose proof (inv_count _ HI) as Hc. pose proof (inv_max _ HI) as Hmax.
  pose proof (total_ge_get _ _ _ Hg) as Hge.
  pose proof (set_remove_length id set Hnd Hmem) as Hsl.
  destruct (cu_count c) as [|cnt] eqn:Hcnt; [exfalso; lia|].
  assert (Hgd : getd n (cu_map c) = set) by (unfold getd; rewrite Hg; reflexivity).
  destruct (set_is_empty (set_remove id set)) eqn:Hemp; cbn [fst snd].
  - apply set_is_empty_true in Hemp.
    split; [|split; [discriminate|split; [split; [intros _; exact Hcu|reflexivity]|split; [|split; [|split; [reflexivity|discriminate]]]]]].
    + constructor; cbn [cu_map cu_count].
      * apply SS_remove. exact HS.
      * apply Forall_remove. exact (inv_buckets _ HI).
      * pose proof (total_remove n (cu_map c)) as Ht. rewrite Hgd in Ht. rewrite Hemp in Hsl. cbn [length] in Hsl. lia.
      * lia.
    + rewrite contains_eq. cbn [cu_map]. unfold getd. rewrite map_get_remove_same by exact HS. reflexivity.
    + intros [vn vi] Hv. rewrite !contains_eq. cbn [cu_map]. unfold getd.
      destruct (N.eqb_spec n vn) as [->|Hn].
      * rewrite map_get_remove_same by exact HS. rewrite Hg. symmetry. apply set_mem_false. intro Hi.
        assert (In vi (set_remove id set)) by (apply set_remove_In; split; [exact Hi|congruence]).
        rewrite Hemp in H. destruct H.
      * rewrite map_get_remove_other by exact Hn. reflexivity.
  - split; [|split; [discriminate|split; [split; [intros _; exact Hcu|reflexivity]|split; [|split; [|split; [reflexivity|discriminate]]]]]].
    + constructor; cbn [cu_map cu_count].
      * apply SS_put. exact HS.
      * apply Forall_put; [exact (inv_buckets _ HI)|]. unfold bucket_ok. cbn [snd]. split; [|split].
        -- intro He. rewrite He in Hemp. discriminate.
        -- apply set_remove_NoDup. exact Hnd.
        -- pose proof (set_remove_length_le id set). lia.
      * pose proof (total_put n (set_remove id set) (cu_map c) HS) as Ht. rewrite Hgd in Ht. lia.
      * lia.
    + rewrite contains_eq. cbn [cu_map]. unfold getd. rewrite map_get_put_same. apply set_mem_false.
      intro Hi. apply set_remove_In in Hi as [_ Hi]. congruence.
    + intros [vn vi] Hv. rewrite !contains_eq. cbn [cu_map]. unfold getd.
      destruct (N.eqb_spec n vn) as [->|Hn].
      * rewrite map_get_put_same, Hg.
        destruct (set_mem vi set) eqn:Hb.
        -- apply set_mem_In. apply set_remove_In. split; [apply set_mem_In; exact Hb|congruence].
        -- apply set_mem_false. intro Hi. apply set_remove_In in Hi as [Hi _]. apply set_mem_In in Hi. congruence.
      * rewrite map_get_put_other by exact Hn. reflexivity.
Qed.

Theorem remove_inv : forall c u, Inv c -> Inv (fst (remove_by_number c u)).
Proof. intros c u HI. apply remove_spec. exact HI. Qed.

Theorem remove_never_panics : forall c u, Inv c -> snd (remove_by_number c u) <> IPanic.
Proof. intros c u HI. apply remove_spec. exact HI. Qed.

Theorem remove_true_iff : forall c u, Inv c -> (snd (remove_by_number c u) = ITrue <-> contains c u = true).
Proof. intros c u HI. apply remove_spec. exact HI. Qed.

Theorem remove_membership : forall c u, Inv c ->
  contains (fst (remove_by_number c u)) u = false /\
  forall v, v <> u -> contains (fst (remove_by_number c u)) v = contains c v.
Proof. intros c u HI. destruct (remove_spec c u HI) as [_ [_ [_ [H1 [H2 _]]]]]. split; assumption. Qed.

Theorem remove_len : forall c u, Inv c ->
  (snd (remove_by_number c u) = ITrue -> len c = S (len (fst (remove_by_number c u)))) /\
  (snd (remove_by_number c u) = IFalse -> fst (remove_by_number c u) = c).
Proof. intros c u HI. destruct (remove_spec c u HI) as [_ [_ [_ [_ [_ [H1 H2]]]]]]. split; assumption. Qed.

(* ---- every reachable state ------------------------------------------------------------------ *)
Theorem step_inv : forall c o, Inv c -> Inv (fst (step c o)).
Proof. intros c [u|u] HI; cbn [step]; [apply insert_inv|apply remove_inv]; exact HI. Qed.

Theorem step_never_panics : forall c o, Inv c -> snd (step c o) <> IPanic.
Proof. intros c [u|u] HI; cbn [step]; [apply insert_never_panics|apply remove_never_panics]; exact HI. Qed.

Theorem run_inv : forall ops c, Inv c -> Inv (run c ops).
Proof.
  induction ops as [|o r IH]; intros c HI; [exact HI|].
  unfold run. cbn [fold_left]. apply IH. apply step_inv. exact HI.
Qed.

Theorem reachable_inv : forall ops, Inv (run empty ops).
Proof. intro ops. apply run_inv. exact Inv_empty. Qed.

Theorem reachable_never_panics : forall ops o, snd (step (run empty ops) o) <> IPanic.
Proof. intros ops o. apply step_never_panics. apply reachable_inv. Qed.

(* ---- values ----------------------------------------------------------------------------------- *)
Lemma In_values : forall c u, In u (values c) <-> exists s, In (fst u, s) (cu_map c) /\ In (snd u) s.
Proof.
  intros c [n i]. unfold values. rewrite in_flat_map. cbn [fst snd]. split.
  - intros [[k s] [Hb Hi]]. cbn [fst snd] in Hi. apply in_map_iff in Hi as [x [Hx Hi]]. inversion Hx; subst. exists s. split; assumption.
  - intros [s [Hb Hi]]. exists (n, s). split; [exact Hb|]. cbn [fst snd]. apply in_map. exact Hi.
Qed.

Theorem contains_iff_values : forall c u, Inv c -> (contains c u = true <-> In u (values c)).
Proof.
  intros c u HI. pose proof (inv_keys _ HI) as HS. fold (keys (cu_map c)) in HS. fold (SS (cu_map c)) in HS.
  rewrite In_values. unfold contains. split.
  - destruct (map_get (fst u) (cu_map c)) as [s|] eqn:Hg; [|discriminate]. intro Hm.
    exists s. split; [apply map_get_Some_In; exact Hg|apply set_mem_In; exact Hm].
  - intros [s [Hb Hi]]. rewrite (map_get_In _ _ _ HS Hb). apply set_mem_In. exact Hi.
Qed.

Lemma SSorted_app : forall (l1 l2 : list N), StronglySorted N.le l1 -> StronglySorted N.le l2 ->
  (forall x y, In x l1 -> In y l2 -> (x <= y)%N) -> StronglySorted N.le (l1 ++ l2).
Proof.
  intros l1 l2 H1 H2 H. induction H1 as [|x r Hr IH Hx]; cbn [app]; [exact H2|].
  constructor.
  - apply IH. intros a b Ha Hb. apply H; [right; exact Ha|exact Hb].
  - apply Forall_app. split; [exact Hx|]. apply Forall_forall. intros y Hy. apply H; [left; reflexivity|exact Hy].
Qed.

Lemma map_fst_pair : forall (k : N) (s : list N), map fst (map (pair k) s) = repeat k (length s).
Proof. intros k s. induction s as [|x r IH]; cbn [map length repeat fst]; [reflexivity|]. rewrite IH. reflexivity. Qed.

Lemma SSorted_repeat : forall (k : N) n, StronglySorted N.le (repeat k n).
Proof.
  intros k n. induction n as [|n IH]; cbn [repeat]; constructor; [exact IH|].
  apply Forall_forall. intros y Hy. apply repeat_spec in Hy. subst. apply N.le_refl.
Qed.

Lemma values_cons : forall k s r cnt cnt', values (mkCU ((k, s) :: r) cnt) = map (pair k) s ++ values (mkCU r cnt').
Proof. reflexivity. Qed.

Lemma values_fst_in_keys : forall m cnt x, In x (values (mkCU m cnt)) -> In (fst x) (keys m).
Proof.
  intros m cnt x H. apply In_values in H as [s [Hb _]]. cbn [cu_map] in Hb.
  unfold keys. change (fst x) with (fst (fst x, s)). apply in_map. exact Hb.
Qed.

Theorem values_ascending : forall c, Inv c -> StronglySorted N.le (map fst (values c)).
Proof.
  intros [m cnt] HI. pose proof (inv_keys _ HI) as HS. cbn [cu_map] in HS. fold (keys m) in HS. fold (SS m) in HS. clear HI.
  induction m as [|[k s] r IH]; [constructor|].
  apply SS_cons_inv in HS as [HSr Hlt]. change (values (mkCU ((k, s) :: r) cnt)) with (map (pair k) s ++ values (mkCU r cnt)). rewrite map_app, map_fst_pair.
  apply SSorted_app; [apply SSorted_repeat|apply IH; exact HSr|].
  intros x y Hx Hy. apply repeat_spec in Hx. subst x.
  apply in_map_iff in Hy as [v [Hv Hy]]. subst y. apply values_fst_in_keys in Hy.
  rewrite Forall_forall in Hlt. specialize (Hlt _ Hy). lia.
Qed.

Lemma values_length : forall c, length (values c) = total (cu_map c).
Proof.
  intros [m cnt]. cbn [cu_map]. induction m as [|[k s] r IH]; [reflexivity|].
  change (values (mkCU ((k, s) :: r) cnt)) with (map (pair k) s ++ values (mkCU r cnt)). rewrite app_length, map_length, total_cons. f_equal. exact IH.
Qed.

Theorem len_is_length_of_values : forall c, Inv c -> len c = length (values c).
Proof. intros c HI. rewrite values_length. exact (inv_count _ HI). Qed.

Lemma NoDup_app_disjoint : forall (A : Type) (l1 l2 : list A), NoDup l1 -> NoDup l2 ->
  (forall x, In x l1 -> ~ In x l2) -> NoDup (l1 ++ l2).
Proof.
  intros A l1 l2 H1 H2 H. induction H1 as [|x r Hx Hr IH]; cbn [app]; [exact H2|].
  constructor.
  - intro Hi. apply in_app_or in Hi as [Hi|Hi]; [contradiction|]. apply (H x); [left; reflexivity|exact Hi].
  - apply IH. intros y Hy. apply H. right. exact Hy.
Qed.

Lemma NoDup_map_pair : forall (k : N) (s : list N), NoDup s -> NoDup (map (pair k) s).
Proof.
  intros k s H. induction H as [|x r Hx Hr IH]; cbn [map]; constructor; [|exact IH].
  intro Hi. apply in_map_iff in Hi as [y [He Hy]]. inversion He; subst. contradiction.
Qed.

Theorem values_NoDup : forall c, Inv c -> NoDup (values c).
Proof.
  intros [m cnt] HI. pose proof (inv_keys _ HI) as HS. pose proof (inv_buckets _ HI) as HF.
  cbn [cu_map] in HS, HF. fold (keys m) in HS. fold (SS m) in HS. clear HI.
  induction m as [|[k s] r IH]; [constructor|].
  apply SS_cons_inv in HS as [HSr Hlt]. inversion HF as [|? ? Hb HFr]; subst. destruct Hb as [_ [Hnd _]]. cbn [snd] in Hnd.
  change (values (mkCU ((k, s) :: r) cnt)) with (map (pair k) s ++ values (mkCU r cnt)). apply NoDup_app_disjoint; [apply NoDup_map_pair; exact Hnd|apply IH; assumption|].
  intros x Hx Hy. apply in_map_iff in Hx as [i [Hx _]]. subst x. apply values_fst_in_keys in Hy. cbn [fst] in Hy.
  rewrite Forall_forall in Hlt. specialize (Hlt _ Hy). lia.
Qed.

(* ---- a full container ---------------------------------------------------------------------------- *)
(* heights 1..13, ten uncles each, in this order; the first 128 of these inserts fill the container:
   heights 1..12 complete, eight at height 13 *)
Definition grid_ops : list op :=
  flat_map (fun n => map (fun i => OIns (N.of_nat n, N.of_nat i)) (seq 0 10)) (seq 1 13).
Definition full : cu := run empty (firstn 128 grid_ops).

Example full_container :
  Inv full /\ len full = 128 /\ first_key full = Some 1%N /\ length (cu_map full) = 13 /\
  (* a higher number: the ten uncles of height 1 go, the new one is in *)
  snd (insert full (14, 0)%N) = ITrue /\ len (fst (insert full (14, 0)%N)) = 119 /\
  contains full (1, 3)%N = true /\ contains (fst (insert full (14, 0)%N)) (1, 3)%N = false /\
  contains (fst (insert full (14, 0)%N)) (2, 3)%N = true /\ contains (fst (insert full (14, 0)%N)) (14, 0)%N = true /\
  first_key (fst (insert full (14, 0)%N)) = Some 2%N /\
  (* the lowest number or below: refused, nothing changes *)
  insert full (1, 77)%N = (full, IFalse) /\ insert full (0, 77)%N = (full, IFalse) /\
  (* after a remove there is room again, also at the lowest height *)
  snd (remove_by_number full (1, 5)%N) = ITrue /\
  snd (insert (fst (remove_by_number full (1, 5)%N)) (1, 77)%N) = ITrue /\
  len (fst (insert (fst (remove_by_number full (1, 5)%N)) (1, 77)%N)) = 128 /\
  (* removing the last uncle of a height removes the bucket *)
  length (cu_map (run full (map (fun i => ORem (13, N.of_nat i)%N) (seq 0 8)))) = 12.
Proof. split; [apply reachable_inv|]. vm_compute. repeat split. Qed.

(* "an insert that answers false leaves the container as it was" is false: on a full container the
   lowest bucket is thrown away BEFORE the set insert is tried.  (2, 0) is already a candidate and
   height 2 is full: insert answers false — and the ten candidates of height 1 are gone; the same
   with a new uncle (2, 99) for the full height 2 *)
Theorem insert_false_unchanged_refuted :
  exists ops u v, let c := run empty ops in
    Inv c /\ snd (insert c u) = IFalse /\ contains c u = true /\
    contains c v = true /\ contains (fst (insert c u)) v = false /\
    len (fst (insert c u)) + 10 = len c /\
    snd (insert c (2, 99)%N) = IFalse /\ len (fst (insert c (2, 99)%N)) + 10 = len c.
Proof.
  exists (firstn 128 grid_ops), (2, 0)%N, (1, 3)%N. cbv zeta. split; [apply reachable_inv|]. vm_compute. repeat split.
Qed.
