(* Pool/Inv.v — the C11 invariant as boolean clauses over a pool state (model
   state or a state rebuilt from the implementation's dump), and the
   preconditions the callers of add_entry establish.  No proofs here. *)
From Coq Require Import List NArith Bool.
From CKB Require Import Pool.PoolMap.
Import ListNotations.
Local Open Scope N_scope.

Definition ids (p : pool) : list N := map fst (p_entries p).

Fixpoint nodupb {A} (eqb : A -> A -> bool) (l : list A) : bool :=
  match l with [] => true | x :: r => negb (existsb (eqb x) r) && nodupb eqb r end.
Definition subsetb (a b : list N) : bool := forallb (fun x => smem x b) a.
Definition set_eqb (a b : list N) : bool := subsetb a b && subsetb b a.

(* c spends or cell-depends on an output of p, or c spends a cell p cell-depends on *)
Definition tx_rel (tp tc : tx) : bool :=
  negb (tx_id tp =? tx_id tc) &&
  (existsb (fun o => fst o =? tx_id tp) (tx_inputs tc ++ tx_deps tc)
   || existsb (fun o => existsb (pt_eqb o) (tx_deps tp)) (tx_inputs tc)).

(* I0: the entries map is a map, keyed by the transaction's own id *)
Definition inv_keys (p : pool) : bool :=
  nodupb N.eqb (ids p) && forallb (fun kv => fst kv =? tx_id (e_tx (snd kv))) (p_entries p).

(* I1: edges.inputs is exactly the union of the entries' inputs; as it is a map
   this means no two pooled transactions spend the same cell *)
Definition inv_inputs (p : pool) : bool :=
  nodupb pt_eqb (map fst (p_inputs p))
  && forallb (fun oi => match get p (snd oi) with
                        | Some e => existsb (pt_eqb (fst oi)) (tx_inputs (e_tx e))
                        | None => false end) (p_inputs p)
  && forallb (fun kv => nodupb pt_eqb (tx_inputs (e_tx (snd kv)))
                        && forallb (fun o => match aget pt_eqb o (p_inputs p) with
                                             | Some id' => id' =? fst kv
                                             | None => false end) (tx_inputs (e_tx (snd kv))))
             (p_entries p).
Definition inv_deps (p : pool) : bool :=
  nodupb pt_eqb (map fst (p_deps p))
  && forallb (fun ol => negb (match snd ol with [] => true | _ => false end)
                        && nodupb N.eqb (snd ol)
                        && forallb (fun id => match get p id with
                                              | Some e => existsb (pt_eqb (fst ol)) (tx_deps (e_tx e))
                                              | None => false end) (snd ol)) (p_deps p)
  && forallb (fun kv => forallb (fun o => smem (fst kv) (deps_at p o)) (tx_deps (e_tx (snd kv)))) (p_entries p).
Definition inv_hdeps (p : pool) : bool :=
  nodupb N.eqb (map fst (p_hdeps p))
  && forallb (fun ih => match get p (fst ih) with
                        | Some e => match snd ih with [] => false | _ => true end
                                    && (if list_eq_dec N.eq_dec (tx_hdeps (e_tx e)) (snd ih) then true else false)
                        | None => false end) (p_hdeps p)
  && forallb (fun kv => match tx_hdeps (e_tx (snd kv)) with
                        | [] => true
                        | _ => match aget N.eqb (fst kv) (p_hdeps p) with Some _ => true | None => false end
                        end) (p_entries p).

(* I2: links <=> relation between pooled transactions, both directions *)
Definition inv_links (p : pool) : bool :=
  nodupb N.eqb (map fst (p_links p))
  && set_eqb (map fst (p_links p)) (ids p)
  && forallb (fun kv =>
       let id := fst kv in let t := e_tx (snd kv) in
       nodupb N.eqb (parents_of p id) && nodupb N.eqb (children_of p id)
       && set_eqb (parents_of p id)
                  (map fst (filter (fun kv' => tx_rel (e_tx (snd kv')) t) (p_entries p)))
       && set_eqb (children_of p id)
                  (map fst (filter (fun kv' => tx_rel t (e_tx (snd kv'))) (p_entries p))))
     (p_entries p).

(* I3: acyclic *)
Definition inv_acyclic (p : pool) : bool :=
  forallb (fun id => negb (smem id (calc_ancestors p id))) (ids p).

(* I4: aggregates = fold over the transitive closure (+ self) *)
Definition sum_agg (p : pool) (t : tx) (l : list N) : agg :=
  fold_right (fun id a => match get p id with
                          | Some e => let x := e_tx e in
                                      mkAgg (a_count a + 1) (a_size a + tx_size x) (a_cycles a + tx_cycles x) (a_fee a + tx_fee x)
                          | None => a end) (agg_self t) l.
Definition agg_eqb (a b : agg) : bool :=
  (a_count a =? a_count b) && (a_size a =? a_size b) && (a_cycles a =? a_cycles b) && (a_fee a =? a_fee b).
Definition inv_anc_of (p : pool) (kv : N * entry) : bool :=
  agg_eqb (e_anc (snd kv)) (sum_agg p (e_tx (snd kv)) (calc_ancestors p (fst kv))).
Definition inv_desc_of (p : pool) (kv : N * entry) : bool :=
  agg_eqb (e_desc (snd kv)) (sum_agg p (e_tx (snd kv)) (calc_descendants p (fst kv))).
Definition inv_aggs (p : pool) : bool :=
  forallb (fun kv => inv_anc_of p kv && inv_desc_of p kv) (p_entries p).

(* I5: totals and per-status counters = folds over the entries *)
Definition sum_of (f : entry -> N) (es : list (N * entry)) : N := fold_right (fun kv a => f (snd kv) + a) 0 es.
Definition count_status (s : status) (es : list (N * entry)) : N :=
  sum_of (fun e => if status_eqb (e_status e) s then 1 else 0) es.
Definition inv_counters (p : pool) : bool :=
  (p_total_size p =? sum_of (fun e => tx_size (e_tx e)) (p_entries p))
  && (p_total_cycles p =? sum_of (fun e => tx_cycles (e_tx e)) (p_entries p))
  && (p_pending p =? count_status Pending (p_entries p))
  && (p_gap p =? count_status Gap (p_entries p))
  && (p_proposed p =? count_status Proposed (p_entries p)).

(* I6: ancestor limit *)
Definition inv_limit (p : pool) : bool :=
  forallb (fun kv => a_count (e_anc (snd kv)) <=? p_max_anc p) (p_entries p).

(* the clauses that hold for every history *)
Definition pool_inv_core (p : pool) : bool :=
  inv_keys p && inv_inputs p && inv_deps p && inv_hdeps p && inv_links p && inv_acyclic p && inv_counters p.
(* all clauses *)
Definition pool_inv (p : pool) : bool := pool_inv_core p && inv_aggs p && inv_limit p.

(* ---- preconditions of add_entry established by its callers ------------------- *)
(* the universe of transactions an operation list talks about is consistent and
   rank-ordered: like real transactions, whose ids are hashes of their content *)
Definition tx_wf (t : tx) : bool :=
  nodupb pt_eqb (tx_inputs t) && nodupb pt_eqb (tx_deps t)
  && forallb (fun o => negb (existsb (pt_eqb o) (tx_inputs t))) (tx_deps t).

(* what resolve_tx + the conflict check of submit_entry guarantee when add_entry
   is reached: no input is spent in the pool, no cell dep is spent in the pool,
   every reference into a pooled tx names an existing output, and likewise for
   the references of pooled txs into the new one *)
Definition refs_valid_into (o : outpoint) (t : tx) : bool := negb (fst o =? tx_id t) || (snd o <? tx_nout t).
Definition add_pre (p : pool) (t : tx) : bool :=
  tx_wf t
  && forallb (fun o => match aget pt_eqb o (p_inputs p) with Some _ => false | None => true end)
             (tx_inputs t ++ tx_deps t)
  && forallb (fun kv => let x := e_tx (snd kv) in
                        forallb (fun o => refs_valid_into o x) (tx_inputs t ++ tx_deps t)
                        && forallb (fun o => refs_valid_into o t) (tx_inputs x ++ tx_deps x))
             (p_entries p).

(* the class of finding F3: the transaction being added already has pooled children *)
Definition has_pooled_children (p : pool) (t : tx) : bool :=
  negb (pooled p (tx_id t)) && existsb (fun kv => tx_rel t (e_tx (snd kv))) (p_entries p).
