(* Pool/SubmitProofs.v — proofs about Pool/Submit.v *)
From Coq Require Import List NArith Bool.
From CKB Require Import Pool.PoolMap Pool.Reorg Pool.ReorgProofs Pool.Submit.
Import ListNotations.
Local Open Scope N_scope.

Lemma status_eqb_refl : forall s, status_eqb s s = true.
Proof. destruct s; reflexivity. Qed.

Lemma add_l_cases : forall fits p t st, add_l fits p t st = p \/ add_l fits p t st = p ++ [(t, st)].
Proof.
  intros fits p t st. unfold add_l.
  destruct (lpooled p (tx_id t)); [left; reflexivity|].
  destruct (fits p t); [right|left]; reflexivity.
Qed.

Lemma stages_match_add : forall fits v p t,
  stages_match v p = true -> stages_match v (add_l fits p t (status_of v (tx_id t))) = true.
Proof.
  intros fits v p t H.
  destruct (add_l_cases fits p t (status_of v (tx_id t))) as [E|E]; rewrite E; [exact H|].
  unfold stages_match in *. rewrite forallb_app, H. cbn. rewrite status_eqb_refl. reflexivity.
Qed.

(* a snapshot is determined by its tip hash *)
Definition snaps_coherent (a b : snap) : Prop := s_tip a = s_tip b -> c_view (s_chain a) = c_view (s_chain b).

(* if the stages of the pool match the window of the tip the pool is at, they still do after a submission is
   inserted under that tip — whatever tip the pre-check saw *)
Lemma submit_keeps_stages : forall fits s_pre s_now p t,
  snaps_coherent s_pre s_now ->
  stages_match (c_view (s_chain s_now)) p = true ->
  stages_match (c_view (s_chain s_now)) (process_tx fits s_pre s_now p t) = true.
Proof.
  intros fits s_pre s_now p t Hc H. unfold process_tx, submit_entry, pre_check. cbn [fst snd].
  destruct (s_tip s_pre =? s_tip s_now) eqn:E.
  - apply N.eqb_eq in E. rewrite (Hc E). apply stages_match_add. exact H.
  - destruct (resolvable (s_chain s_now) p t); [apply stages_match_add|]; exact H.
Qed.

(* the entry a submission adds is in the stage the window of the PRESENT tip gives its id *)
Lemma submit_stage_of_new_entry : forall fits s_pre s_now p t e,
  snaps_coherent s_pre s_now ->
  In e (process_tx fits s_pre s_now p t) -> ~ In e p ->
  e = (t, status_of (c_view (s_chain s_now)) (tx_id t)).
Proof.
  intros fits s_pre s_now p t e Hc Hin Hn. unfold process_tx, submit_entry, pre_check in Hin. cbn [fst snd] in Hin.
  assert (A : forall st, In e (add_l fits p t st) -> e = (t, st)).
  { intros st Hi. destruct (add_l_cases fits p t st) as [E|E]; rewrite E in Hi; [contradiction|].
    apply in_app_or in Hi. destruct Hi as [Hi|[Hi|[]]]; [contradiction|symmetry; exact Hi]. }
  destruct (s_tip s_pre =? s_tip s_now) eqn:E.
  - apply N.eqb_eq in E. rewrite <- (Hc E). apply A. exact Hin.
  - destruct (resolvable (s_chain s_now) p t); [apply A; exact Hin|contradiction].
Qed.

(* ---- a concrete straddling submission: tx 7 spends the live cell (0,0); the window of tip 10 holds id 7 in
   its proposed set, the window of tip 11 (w_far passed) does not *)
Definition ex_t7 : tx := mkTx 7 [(0, 0)] [] [] 1 200 500 1000 0.
Definition ex_live (o : outpoint) : bool := pt_eqb o (0, 0).
Definition ex_s10 : snap := mkSnap 10 (mkChain ex_live (fun _ => true) (mkView [] [7])).
Definition ex_s11 : snap := mkSnap 11 (mkChain ex_live (fun _ => true) (mkView [] [])).

Lemma ex_straddle :
  snaps_coherent ex_s10 ex_s11 /\
  snd (pre_check ex_s10 ex_t7) = Proposed /\
  process_tx no_limit ex_s10 ex_s11 [] ex_t7 = [(ex_t7, Pending)] /\
  stages_match (c_view (s_chain ex_s11)) (process_tx no_limit ex_s10 ex_s11 [] ex_t7) = true.
Proof. split; [intro H; discriminate H|]. vm_compute. auto. Qed.

(* keeping the status of the pre-check instead breaks the stage clause on the same input *)
Lemma stale_status_breaks :
  stages_match (c_view (s_chain ex_s11)) [] = true /\
  stages_match (c_view (s_chain ex_s11)) (process_tx_stale no_limit ex_s10 ex_s11 [] ex_t7) = false.
Proof. vm_compute. auto. Qed.
