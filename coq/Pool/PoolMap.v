(* Pool/PoolMap.v — executable model of tx-pool/src/component/{pool_map,links,
   edges,entry,sort_key}.rs and of the PoolMap-level parts of pool.rs
   (limit_size, remove_expired, remove_by_detached_proposal, check_rbf).
   Models the code that exists (finding F3 included).  No proofs here; they are
   in Pool/PoolProofs.v.

   Transactions are abstract: ids, out-points (txid, index) and header hashes
   are numbers (the harness numbers them in creation order; txid 0 stands for
   the one transaction that is on chain).  Hash maps / hash sets are
   association lists / duplicate-free lists; iteration order never matters for
   the results compared (sets are compared sorted).  A Rust panic
   (`expect("inconsistent pool")`, a failed `assert!`, counter underflow) and a
   violated precondition of `add_entry` (an input already spent in the pool:
   callers check that under the same lock) are `None`. *)
From Coq Require Import List NArith Bool.
Import ListNotations.
Local Open Scope N_scope.

Definition outpoint := (N * N)%type.
Definition pt_eqb (a b : outpoint) : bool := (fst a =? fst b) && (snd a =? snd b).

Record tx := mkTx {
  tx_id : N; tx_inputs : list outpoint; tx_deps : list outpoint; tx_hdeps : list N;
  tx_nout : N; tx_size : N; tx_cycles : N; tx_fee : N; tx_ts : N }.

Inductive status := Pending | Gap | Proposed.
Definition status_eqb (a b : status) : bool :=
  match a, b with Pending, Pending | Gap, Gap | Proposed, Proposed => true | _, _ => false end.

(* count, size, cycles, fee *)
Record agg := mkAgg { a_count : N; a_size : N; a_cycles : N; a_fee : N }.
Record entry := mkEntry { e_tx : tx; e_status : status; e_anc : agg; e_desc : agg }.
Record links := mkLinks { l_parents : list N; l_children : list N }.

Record pool := mkPool {
  p_entries : list (N * entry);
  p_inputs : list (outpoint * N);          (* edges.inputs *)
  p_deps : list (outpoint * list N);       (* edges.deps *)
  p_hdeps : list (N * list N);             (* edges.header_deps *)
  p_links : list (N * links);
  p_max_anc : N;
  p_total_size : N; p_total_cycles : N;
  p_pending : N; p_gap : N; p_proposed : N }.

Definition empty_pool (max_anc : N) : pool := mkPool [] [] [] [] [] max_anc 0 0 0 0 0.

(* ---- association lists and list-sets ----------------------------------- *)
Section AList.
  Context {K V : Type} (eqb : K -> K -> bool).
  Fixpoint aget (k : K) (m : list (K * V)) : option V :=
    match m with [] => None | (k', v) :: m' => if eqb k k' then Some v else aget k m' end.
  Fixpoint adel (k : K) (m : list (K * V)) : list (K * V) :=
    match m with [] => [] | (k', v) :: m' => if eqb k k' then adel k m' else (k', v) :: adel k m' end.
  Definition aset (k : K) (v : V) (m : list (K * V)) : list (K * V) := (k, v) :: adel k m.
  (* in-place modification of an existing key; no-op when absent *)
  Fixpoint amod (k : K) (f : V -> V) (m : list (K * V)) : list (K * V) :=
    match m with [] => [] | (k', v) :: m' => (if eqb k k' then (k', f v) else (k', v)) :: amod k f m' end.
End AList.

Definition smem (x : N) (l : list N) : bool := existsb (N.eqb x) l.
Definition sadd (x : N) (l : list N) : list N := if smem x l then l else x :: l.
Definition sdel (x : N) (l : list N) : list N := filter (fun y => negb (x =? y)) l.
Fixpoint sdedup (l : list N) : list N :=
  match l with [] => [] | x :: r => if smem x r then sdedup r else x :: sdedup r end.
Definition sunion (a b : list N) : list N := sdedup (a ++ b).

(* ---- saturating arithmetic, entry weights ------------------------------ *)
Definition U64MAX : N := 18446744073709551615.
Definition sat_add (a b : N) : N := N.min (a + b) U64MAX.
Definition sat_sub (a b : N) : N := a - b.          (* N subtraction stops at 0 *)
Definition sat_mul (a b : N) : N := N.min (a * b) U64MAX.

Definition agg_self (t : tx) : agg := mkAgg 1 (tx_size t) (tx_cycles t) (tx_fee t).
Definition agg_add (a : agg) (t : tx) : agg :=
  mkAgg (sat_add (a_count a) 1) (sat_add (a_size a) (tx_size t))
        (sat_add (a_cycles a) (tx_cycles t)) (sat_add (a_fee a) (tx_fee t)).
Definition agg_sub (a : agg) (t : tx) : agg :=
  mkAgg (sat_sub (a_count a) 1) (sat_sub (a_size a) (tx_size t))
        (sat_sub (a_cycles a) (tx_cycles t)) (sat_sub (a_fee a) (tx_fee t)).

Definition add_ancestor_weight (t : tx) (e : entry) : entry :=
  mkEntry (e_tx e) (e_status e) (agg_add (e_anc e) t) (e_desc e).
Definition sub_ancestor_weight (t : tx) (e : entry) : entry :=
  mkEntry (e_tx e) (e_status e) (agg_sub (e_anc e) t) (e_desc e).
Definition add_descendant_weight (t : tx) (e : entry) : entry :=
  mkEntry (e_tx e) (e_status e) (e_anc e) (agg_add (e_desc e) t).
Definition sub_descendant_weight (t : tx) (e : entry) : entry :=
  mkEntry (e_tx e) (e_status e) (e_anc e) (agg_sub (e_desc e) t).
(* TxEntry::new / reset_statistic_state *)
Definition fresh_entry (t : tx) (st : status) : entry := mkEntry t st (agg_self t) (agg_self t).

(* get_transaction_weight: max(size, (cycles as f64 * 0.000_170_571_4) as u64);
   exact for the cycle counts used (the product is a multiple of 1e-10) *)
Definition weight (size cycles : N) : N := N.max size (cycles * 1705714 / 10000000000).
(* FeeRate::calculate *)
Definition fee_rate (fee w : N) : N := if w =? 0 then 0 else sat_mul fee 1000 / w.
(* EvictKey: (fee_rate, descendants_count, timestamp), compared in that order *)
Definition evict_key (e : entry) : N * N * N :=
  let t := e_tx e in
  (N.max (fee_rate (a_fee (e_desc e)) (weight (a_size (e_desc e)) (a_cycles (e_desc e))))
         (fee_rate (tx_fee t) (weight (tx_size t) (tx_cycles t))),
   a_count (e_desc e), tx_ts t).
Definition key_ltb (a b : N * N * N) : bool :=
  let '(a1, a2, a3) := a in let '(b1, b2, b3) := b in
  (a1 <? b1) || ((a1 =? b1) && ((a2 <? b2) || ((a2 =? b2) && (a3 <? b3)))).

(* ---- setters ----------------------------------------------------------- *)
Definition set_entries (p : pool) (x : list (N * entry)) : pool :=
  mkPool x (p_inputs p) (p_deps p) (p_hdeps p) (p_links p) (p_max_anc p)
         (p_total_size p) (p_total_cycles p) (p_pending p) (p_gap p) (p_proposed p).
Definition set_links (p : pool) (x : list (N * links)) : pool :=
  mkPool (p_entries p) (p_inputs p) (p_deps p) (p_hdeps p) x (p_max_anc p)
         (p_total_size p) (p_total_cycles p) (p_pending p) (p_gap p) (p_proposed p).
Definition set_edges (p : pool) (i : list (outpoint * N)) (d : list (outpoint * list N)) (h : list (N * list N)) : pool :=
  mkPool (p_entries p) i d h (p_links p) (p_max_anc p)
         (p_total_size p) (p_total_cycles p) (p_pending p) (p_gap p) (p_proposed p).
Definition set_counters (p : pool) (ts tc pe ga pr : N) : pool :=
  mkPool (p_entries p) (p_inputs p) (p_deps p) (p_hdeps p) (p_links p) (p_max_anc p) ts tc pe ga pr.

Definition get (p : pool) (id : N) : option entry := aget N.eqb id (p_entries p).
Definition pooled (p : pool) (id : N) : bool := match get p id with Some _ => true | None => false end.
Definition links_has (p : pool) (id : N) : bool :=
  match aget N.eqb id (p_links p) with Some _ => true | None => false end.
Definition parents_of (p : pool) (id : N) : list N :=
  match aget N.eqb id (p_links p) with Some l => l_parents l | None => [] end.
Definition children_of (p : pool) (id : N) : list N :=
  match aget N.eqb id (p_links p) with Some l => l_children l | None => [] end.
Definition deps_at (p : pool) (o : outpoint) : list N :=
  match aget pt_eqb o (p_deps p) with Some l => l | None => [] end.
Definition input_at (p : pool) (o : outpoint) : list N :=
  match aget pt_eqb o (p_inputs p) with Some id => [id] | None => [] end.

(* ---- links.rs: calc_relation_ids as a fuelled work-list closure --------- *)
Fixpoint closure (fuel : nat) (next : N -> list N) (stage acc : list N) : list N :=
  match fuel with
  | O => acc
  | S f => match stage with
           | [] => acc
           | x :: rest => if smem x acc then closure f next rest acc
                          else closure f next (next x ++ rest) (x :: acc)
           end
  end.
Definition total_degree (l : list (N * links)) : nat :=
  fold_right (fun kv n => (length (l_parents (snd kv)) + length (l_children (snd kv)) + n)%nat) O l.
Definition closure_fuel (p : pool) (stage : list N) : nat := S (length stage + total_degree (p_links p)).
Definition calc_relation_ids (p : pool) (next : N -> list N) (stage : list N) : list N :=
  closure (closure_fuel p stage) next stage [].
Definition calc_ancestors (p : pool) (id : N) : list N :=
  calc_relation_ids p (parents_of p) (parents_of p id).
Definition calc_descendants (p : pool) (id : N) : list N :=
  calc_relation_ids p (children_of p) (children_of p id).

(* ---- counters ----------------------------------------------------------- *)
Definition dec (x : N) : option N := if x =? 0 then None else Some (x - 1).
Definition count_of (p : pool) (s : status) : N :=
  match s with Pending => p_pending p | Gap => p_gap p | Proposed => p_proposed p end.
Definition set_count (p : pool) (s : status) (v : N) : pool :=
  match s with
  | Pending => set_counters p (p_total_size p) (p_total_cycles p) v (p_gap p) (p_proposed p)
  | Gap => set_counters p (p_total_size p) (p_total_cycles p) (p_pending p) v (p_proposed p)
  | Proposed => set_counters p (p_total_size p) (p_total_cycles p) (p_pending p) (p_gap p) v
  end.
(* track_entry_statics: `-= 1`, `+= 1`, then assert_eq!(sum, entries.len()) *)
Definition track (p : pool) (rm add : option status) : option pool :=
  match (match rm with
         | Some s => match dec (count_of p s) with Some v => Some (set_count p s v) | None => None end
         | None => Some p end) with
  | None => None
  | Some p1 =>
    let p2 := match add with Some s => set_count p1 s (count_of p1 s + 1) | None => p1 end in
    if p_pending p2 + p_gap p2 + p_proposed p2 =? N.of_nat (length (p_entries p2)) then Some p2 else None
  end.
(* update_stat_for_add_tx / _remove_tx: checked ops with their fall-backs *)
Definition stat_add (p : pool) (t : tx) : pool :=
  let s := p_total_size p + tx_size t in let c := p_total_cycles p + tx_cycles t in
  set_counters p (if s <=? U64MAX then s else p_total_size p) (if c <=? U64MAX then c else p_total_cycles p)
               (p_pending p) (p_gap p) (p_proposed p).
Definition stat_sub (p : pool) (t : tx) : pool :=
  set_counters p (p_total_size p - tx_size t) (p_total_cycles p - tx_cycles t) (p_pending p) (p_gap p) (p_proposed p).

(* ---- index-key updates --------------------------------------------------- *)
Definition mod_entries (p : pool) (ids : list N) (f : entry -> entry) : pool :=
  set_entries p (fold_left (fun es id => amod N.eqb id f es) ids (p_entries p)).
(* update_ancestors_index_key / update_descendants_index_key; add = true for EntryOp::Add *)
Definition update_ancestors_index_key (p : pool) (t : tx) (add : bool) : pool :=
  mod_entries p (calc_ancestors p (tx_id t))
              (if add then add_descendant_weight t else sub_descendant_weight t).
Definition update_descendants_index_key (p : pool) (t : tx) (add : bool) : pool :=
  mod_entries p (calc_descendants p (tx_id t))
              (if add then add_ancestor_weight t else sub_ancestor_weight t).

(* ---- links ---------------------------------------------------------------- *)
Definition link_add_child (ls : list (N * links)) (id child : N) :=
  amod N.eqb id (fun l => mkLinks (l_parents l) (sadd child (l_children l))) ls.
Definition link_add_parent (ls : list (N * links)) (id parent : N) :=
  amod N.eqb id (fun l => mkLinks (sadd parent (l_parents l)) (l_children l)) ls.
Definition link_remove_child (ls : list (N * links)) (id child : N) :=
  amod N.eqb id (fun l => mkLinks (l_parents l) (sdel child (l_children l))) ls.
Definition link_remove_parent (ls : list (N * links)) (id parent : N) :=
  amod N.eqb id (fun l => mkLinks (sdel parent (l_parents l)) (l_children l)) ls.

Definition remove_entry_links (p : pool) (id : N) : pool :=
  let ls := p_links p in
  let ls := fold_left (fun ls par => link_remove_child ls par id) (parents_of p id) ls in
  let ls := fold_left (fun ls ch => link_remove_parent ls ch id) (children_of p id) ls in
  set_links p (adel N.eqb id ls).

(* ---- edges ---------------------------------------------------------------- *)
Definition delete_txid_by_dep (ds : list (outpoint * list N)) (o : outpoint) (id : N) :=
  match aget pt_eqb o ds with
  | None => ds
  | Some ids => let ids' := sdel id ids in
                match ids' with [] => adel pt_eqb o ds | _ => amod pt_eqb o (fun _ => ids') ds end
  end.
Definition insert_dep (ds : list (outpoint * list N)) (o : outpoint) (id : N) :=
  match aget pt_eqb o ds with
  | None => (o, [id]) :: ds
  | Some _ => amod pt_eqb o (sadd id) ds
  end.
Definition remove_entry_edges (p : pool) (t : tx) : pool :=
  set_edges p (fold_left (fun m i => adel pt_eqb i m) (tx_inputs t) (p_inputs p))
              (fold_left (fun m d => delete_txid_by_dep m d (tx_id t)) (tx_deps t) (p_deps p))
              (adel N.eqb (tx_id t) (p_hdeps p)).
(* record_entry_edges; None = insert_input found the cell already spent *)
Fixpoint insert_inputs (m : list (outpoint * N)) (is : list outpoint) (id : N) : option (list (outpoint * N)) :=
  match is with
  | [] => Some m
  | i :: r => match aget pt_eqb i m with
              | Some _ => None
              | None => insert_inputs ((i, id) :: m) r id
              end
  end.
Definition record_entry_edges (p : pool) (t : tx) : option pool :=
  match insert_inputs (p_inputs p) (tx_inputs t) (tx_id t) with
  | None => None
  | Some ins =>
    Some (set_edges p ins
            (fold_left (fun m d => insert_dep m d (tx_id t)) (tx_deps t) (p_deps p))
            (match tx_hdeps t with [] => p_hdeps p | hs => aset N.eqb (tx_id t) hs (p_hdeps p) end))
  end.

(* ---- remove_entry, remove_entry_and_descendants --------------------------- *)
Definition remove_entry (p : pool) (id : N) : option pool :=
  match get p id with
  | None => Some p
  | Some e =>
    let t := e_tx e in
    let p := set_entries p (adel N.eqb id (p_entries p)) in
    let p := update_ancestors_index_key p t false in
    let p := update_descendants_index_key p t false in
    let p := remove_entry_edges p t in
    let p := remove_entry_links p id in
    match track p (Some (e_status e)) None with
    | None => None
    | Some p => Some (stat_sub p t)
    end
  end.

Fixpoint remove_entries (p : pool) (ids : list N) : option pool :=
  match ids with
  | [] => Some p
  | id :: r => match remove_entry p id with None => None | Some p' => remove_entries p' r end
  end.

(* the remaining ancestors lose every removed entry as a descendant (added by the
   fix: commit for finding F8; before it this loop did not exist) *)
Definition uncredit_ancestors (p : pool) (removed : list N) : pool :=
  fold_left (fun p x => match get p x with
                        | Some e => update_ancestors_index_key p (e_tx e) false
                        | None => p end) removed p.
Definition remove_entry_and_descendants (p : pool) (id : N) : option pool :=
  let removed := id :: calc_descendants p id in
  let p := uncredit_ancestors p removed in
  let p := fold_left remove_entry_links removed p in
  remove_entries p removed.
(* as it was before the fix *)
Definition remove_entry_and_descendants_old (p : pool) (id : N) : option pool :=
  let removed := id :: calc_descendants p id in
  let p := fold_left remove_entry_links removed p in
  remove_entries p removed.

Fixpoint remove_all_with_descendants (p : pool) (ids : list N) : option pool :=
  match ids with
  | [] => Some p
  | id :: r => match remove_entry_and_descendants p id with
               | None => None
               | Some p' => remove_all_with_descendants p' r
               end
  end.

(* ---- resolve_conflict (by the inputs a committed tx spends) ---------------- *)
Fixpoint resolve_conflict_inputs (p : pool) (is : list outpoint) : option pool :=
  match is with
  | [] => Some p
  | i :: r =>
    let owner := input_at p i in
    let p1 := set_edges p (adel pt_eqb i (p_inputs p)) (p_deps p) (p_hdeps p) in   (* edges.remove_input *)
    match remove_all_with_descendants p1 owner with
    | None => None
    | Some p2 =>
      let users := deps_at p2 i in
      let p3 := set_edges p2 (p_inputs p2) (adel pt_eqb i (p_deps p2)) (p_hdeps p2) in  (* edges.remove_deps *)
      match remove_all_with_descendants p3 users with
      | None => None
      | Some p4 => resolve_conflict_inputs p4 r
      end
    end
  end.
Definition resolve_conflict (p : pool) (t : tx) : option pool := resolve_conflict_inputs p (tx_inputs t).

(* TxPool::remove_committed_tx *)
Definition commit_tx (p : pool) (t : tx) : option pool :=
  match remove_entry p (tx_id t) with None => None | Some p' => resolve_conflict p' t end.

(* resolve_conflict_header_dep *)
Definition resolve_conflict_header_dep (p : pool) (hs : list N) : option pool :=
  let ids := map fst (filter (fun kv => existsb (fun h => smem h hs) (snd kv)) (p_hdeps p)) in
  remove_all_with_descendants p ids.

(* ---- add_entry -------------------------------------------------------------- *)
(* get_tx_ancenstors: (parents, cell_ref_parents) *)
Definition tx_cell_ref_parents (p : pool) (t : tx) : list N :=
  sdedup (flat_map (deps_at p) (tx_inputs t)).
Definition tx_parents (p : pool) (t : tx) : list N :=
  sdedup (flat_map (fun i => deps_at p i ++ (if links_has p (fst i) then [fst i] else [])) (tx_inputs t)
          ++ flat_map (fun d => if links_has p (fst d) then [fst d] else []) (tx_deps t)).

Fixpoint add_ancestor_weights (p : pool) (a : agg) (ancs : list N) : option agg :=
  match ancs with
  | [] => Some a
  | x :: r => match get p x with
              | None => None                       (* get_by_id_checked: "inconsistent pool" *)
              | Some ex => add_ancestor_weights p (agg_add a (e_tx ex)) r
              end
  end.
(* _record_ancestors: returns the pool with the links recorded and the entry's ancestor aggregate *)
Definition record_ancestors (p : pool) (t : tx) (ancestors parents : list N) : option (pool * agg) :=
  match add_ancestor_weights p (agg_self t) ancestors with
  | None => None
  | Some a =>
    let ls := fold_left (fun ls par => link_add_child ls par (tx_id t)) parents (p_links p) in
    Some (set_links p (aset N.eqb (tx_id t) (mkLinks parents []) ls), a)
  end.

(* entries ordered by evict key (ascending): insertion sort *)
Fixpoint ins_by_key (x : N * N * N * N) (l : list (N * N * N * N)) : list (N * N * N * N) :=
  match l with
  | [] => [x]
  | y :: r => if key_ltb (fst x) (fst y) then x :: l else y :: ins_by_key x r
  end.
Definition ids_by_evict_key (p : pool) (keep : N -> entry -> bool) : list N :=
  map snd (fold_right ins_by_key []
             (map (fun kv => (evict_key (snd kv), fst kv))
                  (filter (fun kv => keep (fst kv) (snd kv)) (p_entries p)))).

Fixpoint evict_loop (p : pool) (cands : list N) (count : N) (parents : list N) : option (pool * list N) :=
  match cands with
  | [] => Some (p, parents)
  | c :: r => if count <=? p_max_anc p then Some (p, parents)
              else match remove_entry_and_descendants p c with
                   | None => None
                   | Some p' => evict_loop p' r (count - 1) (sdel c parents)
                   end
  end.

Inductive anc_result := AncOk (p : pool) (a : agg) | AncLimit | AncPanic.
Definition check_and_record_ancestors (p : pool) (t : tx) : anc_result :=
  let parents := tx_parents p t in
  let cell_ref := tx_cell_ref_parents p t in
  let ancestors := calc_relation_ids p (parents_of p) parents in
  let count := N.of_nat (length ancestors) + 1 in
  if count <=? p_max_anc p then
    match record_ancestors p t ancestors parents with Some (p', a) => AncOk p' a | None => AncPanic end
  else if count - N.of_nat (length cell_ref) <=? p_max_anc p then
    let cands := ids_by_evict_key p (fun id _ => smem id cell_ref) in
    match evict_loop p cands count parents with
    | None => AncPanic
    | Some (p1, parents1) =>
      let ancestors1 := calc_relation_ids p1 (parents_of p1) parents1 in
      if N.of_nat (length ancestors1) <? p_max_anc p1 then
        match record_ancestors p1 t ancestors1 parents1 with Some (p', a) => AncOk p' a | None => AncPanic end
      else AncPanic
    end
  else AncLimit.

Fixpoint nrange (n : nat) : list N :=
  match n with O => [] | S k => nrange k ++ [N.of_nat k] end.
Definition output_pts (t : tx) : list outpoint := map (fun k => (tx_id t, k)) (nrange (N.to_nat (tx_nout t))).

(* record_entry_descendants, as it is: pooled children get the new entry as an
   ancestor, the new entry's ancestors get the new entry as a descendant — and
   nothing else (finding F3) *)
Definition record_entry_descendants (p : pool) (t : tx) : pool :=
  let id := tx_id t in
  let children := sdedup (flat_map (fun o => deps_at p o ++ input_at p o) (output_pts t)) in
  let p1 :=
    match children with
    | [] => p
    | _ =>
      let ls := fold_left (fun ls ch => link_add_parent ls ch id) children (p_links p) in
      let ls := amod N.eqb id (fun l => mkLinks (l_parents l) (sunion (l_children l) children)) ls in
      update_descendants_index_key (set_links p ls) t true
    end in
  update_ancestors_index_key p1 t true.

(* result codes of add_entry: 0 inserted, 1 already pooled, 2 ExceededMaximumAncestorsCount *)
Definition add_entry (p : pool) (t : tx) (st : status) : option (pool * N) :=
  if pooled p (tx_id t) then Some (p, 1) else
  match check_and_record_ancestors p t with
  | AncPanic => None
  | AncLimit => Some (p, 2)
  | AncOk p1 a =>
    match record_entry_edges p1 t with
    | None => None
    | Some p2 =>
      let e := mkEntry t st a (agg_self t) in
      let p3 := set_entries p2 ((tx_id t, e) :: p_entries p2) in
      let p4 := record_entry_descendants p3 t in
      match track p4 None (Some st) with
      | None => None
      | Some p5 => Some (stat_add p5 t, 0)
      end
    end
  end.

(* ---- set_entry ---------------------------------------------------------------- *)
Definition set_entry (p : pool) (id : N) (st : status) : option pool :=
  match get p id with
  | None => None                                            (* expect("inconsistent pool") *)
  | Some e =>
    track (set_entries p (amod N.eqb id (fun e => mkEntry (e_tx e) st (e_anc e) (e_desc e)) (p_entries p)))
          (Some (e_status e)) (Some st)
  end.

(* ---- pool.rs: limit_size, remove_expired, remove_by_detached_proposal ----------- *)
Definition next_evict_entry (p : pool) (s : status) : option N :=
  hd_error (ids_by_evict_key p (fun _ e => status_eqb (e_status e) s)).
Definition next_evict (p : pool) : option N :=
  match next_evict_entry p Pending with
  | Some x => Some x
  | None => match next_evict_entry p Gap with Some x => Some x | None => next_evict_entry p Proposed end
  end.
Fixpoint limit_size_loop (fuel : nat) (p : pool) (max_size : N) : option pool :=
  if p_total_size p <=? max_size then Some p else
  match fuel with
  | O => None                                               (* would spin for ever *)
  | S f => match next_evict p with
           | None => None
           | Some id => match remove_entry_and_descendants p id with
                        | None => None
                        | Some p' => limit_size_loop f p' max_size
                        end
           end
  end.
Definition limit_size (p : pool) (max_size : N) : option pool :=
  limit_size_loop (S (length (p_entries p))) p max_size.

Definition expired_ids (p : pool) (cutoff : N) : list N :=
  map fst (filter (fun kv => tx_ts (e_tx (snd kv)) <? cutoff) (p_entries p)).
Definition remove_expired (p : pool) (cutoff : N) : option pool := remove_entries p (expired_ids p cutoff).

Fixpoint ins_by_count (x : N * N * entry) (l : list (N * N * entry)) : list (N * N * entry) :=
  match l with
  | [] => [x]
  | y :: r => let '(cx, ix, _) := x in let '(cy, iy, _) := y in
              if (cx <? cy) || ((cx =? cy) && (ix <? iy)) then x :: l else y :: ins_by_count x r
  end.
Fixpoint readd_pending (p : pool) (es : list (N * N * entry)) : option pool :=
  match es with
  | [] => Some p
  | (_, _, e) :: r => match add_entry p (e_tx e) Pending with
                      | None => None
                      | Some (p', _) => readd_pending p' r
                      end
  end.
Definition remove_by_detached_proposal (p : pool) (id : N) : option pool :=
  match get p id with
  | None => Some p
  | Some e =>
    match e_status e with
    | Pending => Some p
    | _ =>
      let removed := id :: calc_descendants p id in
      let es := fold_right (fun x acc => match get p x with
                                         | Some ex => ins_by_count (a_count (e_anc ex), x, ex) acc
                                         | None => acc end) [] removed in
      match remove_entry_and_descendants p id with
      | None => None
      | Some p' => readd_pending p' es
      end
    end
  end.

(* ---- pool.rs: check_rbf -------------------------------------------------------- *)
(* find_conflict_tx *)
Definition find_conflict_tx (p : pool) (t : tx) : list N := sdedup (flat_map (input_at p) (tx_inputs t)).
Definition MAX_REPLACEMENT_CANDIDATES : N := 100.
Definition fee_of (p : pool) (id : N) : N := match get p id with Some e => tx_fee (e_tx e) | None => 0 end.
Definition sum_fees (p : pool) (ids : list N) : N := fold_right (fun id acc => fee_of p id + acc) 0 ids.
(* calculate_min_replace_fee: Σ fee over the distinct replaced txs + min_rbf_rate.fee(size);
   None = Capacity overflow *)
Definition min_replace_fee (p : pool) (replaced : list N) (size rate : N) : option N :=
  let extra := sat_mul rate size / 1000 in
  let s := sum_fees p (sdedup replaced) + extra in
  if s <=? U64MAX then Some s else None.

(* the set of replaced txs: the conflicts and all their descendants *)
Definition replaced_set (p : pool) (conflicts : list N) : list N :=
  sdedup (conflicts ++ flat_map (calc_descendants p) conflicts).

(* Some conflicts = admitted (empty: no conflict at all); None = RBFRejected.
   `on_chain` = snapshot.transaction_exists *)
Definition check_rbf (p : pool) (on_chain : N -> bool) (t : tx) (rate : N) : option (list N) :=
  let conflicts := find_conflict_tx p t in
  match conflicts with
  | [] => Some []
  | _ =>
    let conflict_inputs := flat_map (fun c => match get p c with Some e => tx_inputs (e_tx e) | None => [] end) conflicts in
    (* rule 2 *)
    if existsb (fun pt => negb (existsb (pt_eqb pt) conflict_inputs) && negb (on_chain (fst pt))) (tx_inputs t)
    then None else
    (* rule 5 *)
    let descs := flat_map (calc_descendants p) conflicts in
    if MAX_REPLACEMENT_CANDIDATES <? N.of_nat (length descs + length conflicts) then None else
    (* (the ancestors of a tx that is not pooled are empty: that test never rejects) *)
    if existsb (fun pt => smem (fst pt) descs) (tx_inputs t) then None else
    let all := replaced_set p conflicts in
    if existsb (fun pt => smem (fst pt) all) (tx_deps t) then None else
    (* rules 3, 4 *)
    match min_replace_fee p all (tx_size t) rate with
    | None => None
    | Some m => if tx_fee t <? m then None else Some conflicts
    end
  end.

(* ---- operations and runs --------------------------------------------------------- *)
Inductive op :=
| OAdd (t : tx) (st : status)
| ORemove (id : N)
| ORemoveDesc (id : N)
| OCommit (t : tx)
| OHeader (hs : list N)
| OSet (id : N) (st : status)
| OLimit (max_size : N)
| OExpire (cutoff : N)
| ODetach (id : N).

Definition step (p : pool) (o : op) : option pool :=
  match o with
  | OAdd t st => match add_entry p t st with Some (p', _) => Some p' | None => None end
  | ORemove id => remove_entry p id
  | ORemoveDesc id => remove_entry_and_descendants p id
  | OCommit t => commit_tx p t
  | OHeader hs => resolve_conflict_header_dep p hs
  | OSet id st => set_entry p id st
  | OLimit m => limit_size p m
  | OExpire c => remove_expired p c
  | ODetach id => remove_by_detached_proposal p id
  end.

Fixpoint run (p : pool) (ops : list op) : option pool :=
  match ops with
  | [] => Some p
  | o :: r => match step p o with None => None | Some p' => run p' r end
  end.
