(* Pool/EdgeProofs.v — edges.inputs (clause I1): what add_entry's edge recording
   and remove_entry's edge removal do to the map cell -> spending tx. *)
From Coq Require Import List NArith Bool Lia.
From CKB Require Import Pool.PoolMap Pool.Inv Pool.ListFacts.
Import ListNotations.
Local Open Scope N_scope.

Lemma pt_eqb_eq : forall a b, pt_eqb a b = true <-> a = b.
Proof.
  intros [a1 a2] [b1 b2]. unfold pt_eqb. simpl. rewrite andb_true_iff, !N.eqb_eq.
  split; [intros [-> ->]; auto|inversion 1; auto].
Qed.
Lemma pt_eqb_refl : forall a, pt_eqb a a = true.
Proof. intros. apply pt_eqb_eq. auto. Qed.
Lemma pt_eqb_sym : forall a b, pt_eqb a b = pt_eqb b a.
Proof.
  intros. destruct (pt_eqb a b) eqn:E; destruct (pt_eqb b a) eqn:F; auto.
  - apply pt_eqb_eq in E. subst. rewrite pt_eqb_refl in F. discriminate.
  - apply pt_eqb_eq in F. subst. rewrite pt_eqb_refl in E. discriminate.
Qed.

Lemma insert_inputs_spec : forall is m id m', insert_inputs m is id = Some m' ->
  (forall i, In i is -> aget pt_eqb i m = None) /\
  (forall o, aget pt_eqb o m' = if existsb (pt_eqb o) is then Some id else aget pt_eqb o m).
Proof.
  induction is as [|i r IH]; simpl; intros m id m' H.
  - inversion H; subst. split; [tauto|auto].
  - destruct (aget pt_eqb i m) eqn:G; [discriminate|].
    destruct (IH _ _ _ H) as [A B]. split.
    + intros j [<-|Hj]; [auto|]. specialize (A j Hj). simpl in A.
      destruct (pt_eqb j i); [discriminate|auto].
    + intros o. rewrite B. simpl. destruct (pt_eqb o i); simpl; destruct (existsb (pt_eqb o) r); auto.
Qed.

(* add_entry's edge recording refuses a tx that spends a cell some pooled tx
   already spends, and otherwise maps exactly the new tx's inputs to it *)
Theorem record_edges_inputs : forall p t p', record_entry_edges p t = Some p' ->
  (forall i, In i (tx_inputs t) -> aget pt_eqb i (p_inputs p) = None) /\
  (forall o, aget pt_eqb o (p_inputs p') =
             if existsb (pt_eqb o) (tx_inputs t) then Some (tx_id t) else aget pt_eqb o (p_inputs p)).
Proof.
  intros p t p' H. unfold record_entry_edges in H.
  destruct (insert_inputs (p_inputs p) (tx_inputs t) (tx_id t)) as [m|] eqn:E; [|discriminate].
  inversion H; subst. simpl. eapply insert_inputs_spec; eauto.
Qed.
Theorem record_edges_refuses_double_spend : forall p t i id,
  In i (tx_inputs t) -> aget pt_eqb i (p_inputs p) = Some id -> record_entry_edges p t = None.
Proof.
  intros p t i id Hi G. destruct (record_entry_edges p t) eqn:E; [|auto].
  destruct (record_edges_inputs _ _ _ E) as [A _]. rewrite (A i Hi) in G. discriminate.
Qed.

Lemma aget_adel_pt : forall {V} k (m : list (outpoint * V)) o,
  aget pt_eqb o (adel pt_eqb k m) = if pt_eqb k o then None else aget pt_eqb o m.
Proof.
  induction m as [|[k0 v0] m]; simpl; intros; [destruct (pt_eqb k o); auto|].
  destruct (pt_eqb k k0) eqn:E1.
  - apply pt_eqb_eq in E1. subst k0. rewrite IHm. rewrite (pt_eqb_sym o k). destruct (pt_eqb k o); auto.
  - simpl. destruct (pt_eqb o k0) eqn:E2.
    + apply pt_eqb_eq in E2. subst k0. rewrite E1. auto.
    + apply IHm.
Qed.
(* remove_entry's edge removal deletes exactly the removed tx's inputs *)
Theorem remove_edges_inputs : forall p t o,
  aget pt_eqb o (p_inputs (remove_entry_edges p t)) =
  if existsb (pt_eqb o) (tx_inputs t) then None else aget pt_eqb o (p_inputs p).
Proof.
  intros p t o. unfold remove_entry_edges. simpl. generalize (p_inputs p).
  induction (tx_inputs t) as [|i r IH]; simpl; intros m; [auto|].
  rewrite IH. rewrite aget_adel_pt. rewrite (pt_eqb_sym i o).
  destruct (pt_eqb o i); simpl; destruct (existsb (pt_eqb o) r); auto.
Qed.
