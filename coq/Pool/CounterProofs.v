(* Pool/CounterProofs.v — the entries map stays a map and the totals / per-status
   counters stay equal to folds over the entries (clause I5), for every operation. *)
From Coq Require Import List NArith Bool Lia.
From CKB Require Import Pool.PoolMap Pool.Inv Pool.ListFacts.
Import ListNotations.
Local Open Scope N_scope.

Record CI (p : pool) : Prop := mkCI {
  ci_nodup : NoDup (ids p);
  ci_size : p_total_size p = sum_of (fun e => tx_size (e_tx e)) (p_entries p);
  ci_cycles : p_total_cycles p = sum_of (fun e => tx_cycles (e_tx e)) (p_entries p);
  ci_pending : p_pending p = count_status Pending (p_entries p);
  ci_gap : p_gap p = count_status Gap (p_entries p);
  ci_proposed : p_proposed p = count_status Proposed (p_entries p) }.

(* p' differs from p only in aggregates, links or edges *)
Definition same_meas (es es' : list (N * entry)) : Prop :=
  map fst es' = map fst es /\ forall g, core_fn g -> sum_of g es' = sum_of g es.
Definition same_counters (p p' : pool) : Prop :=
  p_total_size p' = p_total_size p /\ p_total_cycles p' = p_total_cycles p /\
  p_pending p' = p_pending p /\ p_gap p' = p_gap p /\ p_proposed p' = p_proposed p /\
  p_max_anc p' = p_max_anc p.
Definition EM (p p' : pool) : Prop := same_meas (p_entries p) (p_entries p') /\ same_counters p p'.

Lemma EM_refl : forall p, EM p p.
Proof. intros. repeat split. Qed.
Lemma EM_trans : forall a b c, EM a b -> EM b c -> EM a c.
Proof.
  intros a b c [[K1 S1] C1] [[K2 S2] C2]. split; [split|].
  - congruence.
  - intros g Hg. rewrite S2, S1; auto.
  - unfold same_counters in *. intuition congruence.
Qed.
Lemma EM_CI : forall p p', EM p p' -> CI p -> CI p'.
Proof.
  intros p p' [[K S] C] H. destruct H. unfold same_counters in C. destruct C as (C1&C2&C3&C4&C5&_).
  constructor.
  - unfold ids in *. rewrite K. auto.
  - rewrite C1, S; auto using core_fn_size.
  - rewrite C2, S; auto using core_fn_cycles.
  - rewrite C3. unfold count_status. rewrite S; auto using core_fn_status.
  - rewrite C4. unfold count_status. rewrite S; auto using core_fn_status.
  - rewrite C5. unfold count_status. rewrite S; auto using core_fn_status.
Qed.
Lemma EM_ids : forall p p', EM p p' -> ids p' = ids p.
Proof. intros p p' [[K _] _]. exact K. Qed.
Lemma EM_total : forall p p', EM p p' -> p_total_size p' = p_total_size p /\ p_total_cycles p' = p_total_cycles p.
Proof. intros p p' [_ C]. unfold same_counters in C. tauto. Qed.

Lemma EM_mod_entries : forall p l f, core_pres f -> EM p (mod_entries p l f).
Proof.
  intros. split; [split|repeat split]; simpl.
  - apply fold_amod_keys.
  - intros. apply sum_of_fold_amod; auto.
Qed.
Lemma EM_set_links : forall p x, EM p (set_links p x).
Proof. intros. repeat split. Qed.
Lemma EM_set_edges : forall p a b c, EM p (set_edges p a b c).
Proof. intros. repeat split. Qed.
Lemma EM_update_anc : forall p t b, EM p (update_ancestors_index_key p t b).
Proof. intros. apply EM_mod_entries. destruct b; apply core_pres_weights. Qed.
Lemma EM_update_desc : forall p t b, EM p (update_descendants_index_key p t b).
Proof. intros. apply EM_mod_entries. destruct b; apply core_pres_weights. Qed.
Lemma EM_remove_links : forall p id, EM p (remove_entry_links p id).
Proof. intros. apply EM_set_links. Qed.
Lemma EM_fold_remove_links : forall l p, EM p (fold_left remove_entry_links l p).
Proof. induction l; simpl; intros; [apply EM_refl|]. eapply EM_trans; [apply EM_remove_links|apply IHl]. Qed.
Lemma EM_uncredit : forall l p, EM p (uncredit_ancestors p l).
Proof.
  unfold uncredit_ancestors. induction l; simpl; intros; [apply EM_refl|].
  eapply EM_trans; [|apply IHl]. destruct (get p a); [apply EM_update_anc|apply EM_refl].
Qed.

(* ---- track ---------------------------------------------------------------- *)
Definition ind (a b : status) : N := if status_eqb a b then 1 else 0.
Lemma track_spec : forall q rm add q',
  track q rm add = Some q' ->
  p_entries q' = p_entries q /\ p_total_size q' = p_total_size q /\ p_total_cycles q' = p_total_cycles q /\
  p_max_anc q' = p_max_anc q /\
  (forall s, count_of q' s + match rm with Some r => ind r s | None => 0 end
             = count_of q s + match add with Some a => ind a s | None => 0 end) /\
  p_pending q' + p_gap q' + p_proposed q' = N.of_nat (length (p_entries q')).
Proof.
  intros q rm add q' H. unfold track in H.
  destruct rm as [r|].
  - destruct (dec (count_of q r)) as [v|] eqn:D; [|discriminate].
    unfold dec in D. destruct (N.eqb_spec (count_of q r) 0); [discriminate|]. inversion D; subst v; clear D.
    match type of H with (if ?c then _ else _) = _ => destruct c eqn:A; [|discriminate] end.
    inversion H; subst q'; clear H. apply N.eqb_eq in A.
    destruct r, add as [[]|]; cbn in *; (repeat split; auto; try (intros []; cbn; lia)).
  - match type of H with (if ?c then _ else _) = _ => destruct c eqn:A; [|discriminate] end.
    inversion H; subst q'; clear H. apply N.eqb_eq in A.
    destruct add as [[]|]; cbn in *; (repeat split; auto; try (intros []; cbn; lia)).
Qed.

Lemma filter_absent : forall k (l : list N), ~ In k l -> filter (fun x => negb (k =? x)) l = l.
Proof.
  induction l; simpl; intros; [auto|]. destruct (N.eqb_spec k a); [subst; tauto|]. simpl. f_equal. tauto.
Qed.

(* ---- remove_entry ---------------------------------------------------------- *)
Lemma remove_entry_CI : forall p id p', CI p -> remove_entry p id = Some p' ->
  CI p' /\ ids p' = filter (fun x => negb (id =? x)) (ids p) /\ p_max_anc p' = p_max_anc p /\
  p_total_size p' <= p_total_size p /\ p_total_cycles p' <= p_total_cycles p.
Proof.
  intros p id p' HCI H. unfold remove_entry in H.
  destruct (get p id) as [e|] eqn:G.
  2:{ inversion H; subst. split; [auto|]. split; [|repeat split; lia].
      symmetry. apply filter_absent. unfold get in G. apply aget_None_keys in G. exact G. }
  set (p0 := set_entries p (adel N.eqb id (p_entries p))) in *.
  set (q := remove_entry_links (remove_entry_edges (update_descendants_index_key (update_ancestors_index_key p0 (e_tx e) false) (e_tx e) false) (e_tx e)) id) in *.
  assert (E : EM p0 q).
  { unfold q. eapply EM_trans; [apply EM_update_anc|]. eapply EM_trans; [apply EM_update_desc|].
    eapply EM_trans; [apply EM_set_edges|]. apply EM_remove_links. }
  destruct (track q (Some (e_status e)) None) as [q2|] eqn:T; [|discriminate].
  inversion H; subst p'; clear H.
  apply track_spec in T. destruct T as (T1&T2&T3&T4&T5&T6).
  destruct E as [[K S] C]. unfold same_counters in C. destruct C as (C1&C2&C3&C4&C5&C6).
  destruct HCI as [ND HS HC HP HG HPr]. unfold get in G.
  pose proof (sum_of_adel (fun e => tx_size (e_tx e)) id _ e ND G) as A1.
  pose proof (sum_of_adel (fun e => tx_cycles (e_tx e)) id _ e ND G) as A2.
  pose proof (sum_of_adel (fun x => ind (e_status x) Pending) id _ e ND G) as A3.
  pose proof (sum_of_adel (fun x => ind (e_status x) Gap) id _ e ND G) as A4.
  pose proof (sum_of_adel (fun x => ind (e_status x) Proposed) id _ e ND G) as A5.
  pose proof (T5 Pending) as B3. pose proof (T5 Gap) as B4. pose proof (T5 Proposed) as B5.
  cbn [count_of] in B3, B4, B5.
  assert (X3 : sum_of (fun x => ind (e_status x) Pending) (p_entries q) = count_status Pending (adel N.eqb id (p_entries p))).
  { unfold count_status, ind. apply S. apply core_fn_status. }
  assert (X4 : sum_of (fun x => ind (e_status x) Gap) (p_entries q) = count_status Gap (adel N.eqb id (p_entries p))).
  { unfold count_status, ind. apply S. apply core_fn_status. }
  assert (X5 : sum_of (fun x => ind (e_status x) Proposed) (p_entries q) = count_status Proposed (adel N.eqb id (p_entries p))).
  { unfold count_status, ind. apply S. apply core_fn_status. }
  pose proof (S _ core_fn_size) as X1. pose proof (S _ core_fn_cycles) as X2.
  cbn [p0 set_entries p_entries p_total_size p_total_cycles p_pending p_gap p_proposed p_max_anc] in *.
  unfold count_status in *.
  split; [|split; [|split; [|split]]].
  - unfold ind in *.
    constructor; unfold ids, count_status; cbn [stat_sub set_counters p_entries p_total_size p_total_cycles p_pending p_gap p_proposed]; rewrite T1.
    + rewrite K. rewrite adel_keys. apply NoDup_filter. exact ND.
    + lia.
    + lia.
    + lia.
    + lia.
    + lia.
  - unfold ids. cbn [stat_sub set_counters p_entries]. rewrite T1, K. apply adel_keys.
  - cbn. congruence.
  - cbn. lia.
  - cbn. lia.
Qed.
