(* Pool/CounterProofs.v — the entries map stays a map and the totals / per-status
   counters stay equal to folds over the entries (clause I5), for every operation. *)
From Coq Require Import List NArith Bool Lia.
From CKB Require Import Pool.PoolMap Pool.Inv Pool.ListFacts.
Import ListNotations.
Local Open Scope N_scope.

Record CI (p : pool) : Prop := mkCI {
  ci_nodup : NoDup (ids p);
  ci_size : p_total_size p = sum_of (fun e => tx_size (e_tx e)) (p_entries p);
  ci_cycles : p_total_cycles p = sum_of (fun e => tx_cycles (e_tx e)) (p_entries p);
  ci_pending : p_pending p = count_status Pending (p_entries p);
  ci_gap : p_gap p = count_status Gap (p_entries p);
  ci_proposed : p_proposed p = count_status Proposed (p_entries p) }.

(* p' differs from p only in aggregates, links or edges *)
Definition same_meas (es es' : list (N * entry)) : Prop :=
  map fst es' = map fst es /\ forall g, core_fn g -> sum_of g es' = sum_of g es.
Definition same_counters (p p' : pool) : Prop :=
  p_total_size p' = p_total_size p /\ p_total_cycles p' = p_total_cycles p /\
  p_pending p' = p_pending p /\ p_gap p' = p_gap p /\ p_proposed p' = p_proposed p /\
  p_max_anc p' = p_max_anc p.
Definition EM (p p' : pool) : Prop := same_meas (p_entries p) (p_entries p') /\ same_counters p p'.

Lemma EM_refl : forall p, EM p p.
Proof. intros. repeat split. Qed.
Lemma EM_trans : forall a b c, EM a b -> EM b c -> EM a c.
Proof.
  intros a b c [[K1 S1] C1] [[K2 S2] C2]. split; [split|].
  - congruence.
  - intros g Hg. rewrite S2, S1; auto.
  - unfold same_counters in *. intuition congruence.
Qed.
Lemma EM_CI : forall p p', EM p p' -> CI p -> CI p'.
Proof.
  intros p p' [[K S] C] H. destruct H. unfold same_counters in C. destruct C as (C1&C2&C3&C4&C5&_).
  constructor.
  - unfold ids in *. rewrite K. auto.
  - rewrite C1, S; auto using core_fn_size.
  - rewrite C2, S; auto using core_fn_cycles.
  - rewrite C3. unfold count_status. rewrite S; auto using core_fn_status.
  - rewrite C4. unfold count_status. rewrite S; auto using core_fn_status.
  - rewrite C5. unfold count_status. rewrite S; auto using core_fn_status.
Qed.
Lemma EM_ids : forall p p', EM p p' -> ids p' = ids p.
Proof. intros p p' [[K _] _]. exact K. Qed.
Lemma EM_total : forall p p', EM p p' -> p_total_size p' = p_total_size p /\ p_total_cycles p' = p_total_cycles p.
Proof. intros p p' [_ C]. unfold same_counters in C. tauto. Qed.

Lemma EM_mod_entries : forall p l f, core_pres f -> EM p (mod_entries p l f).
Proof.
  intros. split; [split|repeat split]; simpl.
  - apply fold_amod_keys.
  - intros. apply sum_of_fold_amod; auto.
Qed.
Lemma EM_set_links : forall p x, EM p (set_links p x).
Proof. intros. repeat split. Qed.
Lemma EM_set_edges : forall p a b c, EM p (set_edges p a b c).
Proof. intros. repeat split. Qed.
Lemma EM_update_anc : forall p t b, EM p (update_ancestors_index_key p t b).
Proof. intros. apply EM_mod_entries. destruct b; apply core_pres_weights. Qed.
Lemma EM_update_desc : forall p t b, EM p (update_descendants_index_key p t b).
Proof. intros. apply EM_mod_entries. destruct b; apply core_pres_weights. Qed.
Lemma EM_remove_links : forall p id, EM p (remove_entry_links p id).
Proof. intros. apply EM_set_links. Qed.
Lemma EM_fold_remove_links : forall l p, EM p (fold_left remove_entry_links l p).
Proof. induction l; simpl; intros; [apply EM_refl|]. eapply EM_trans; [apply EM_remove_links|apply IHl]. Qed.
Lemma EM_uncredit : forall l p, EM p (uncredit_ancestors p l).
Proof.
  unfold uncredit_ancestors. induction l; simpl; intros; [apply EM_refl|].
  eapply EM_trans; [|apply IHl]. destruct (get p a); [apply EM_update_anc|apply EM_refl].
Qed.

(* ---- track ---------------------------------------------------------------- *)
Definition ind (a b : status) : N := if status_eqb a b then 1 else 0.
Lemma track_spec : forall q rm add q',
  track q rm add = Some q' ->
  p_entries q' = p_entries q /\ p_total_size q' = p_total_size q /\ p_total_cycles q' = p_total_cycles q /\
  p_max_anc q' = p_max_anc q /\
  (forall s, count_of q' s + match rm with Some r => ind r s | None => 0 end
             = count_of q s + match add with Some a => ind a s | None => 0 end) /\
  p_pending q' + p_gap q' + p_proposed q' = N.of_nat (length (p_entries q')).
Proof.
  intros q rm add q' H. unfold track in H.
  destruct rm as [r|].
  - destruct (dec (count_of q r)) as [v|] eqn:D; [|discriminate].
    unfold dec in D. destruct (N.eqb_spec (count_of q r) 0); [discriminate|]. inversion D; subst v; clear D.
    match type of H with (if ?c then _ else _) = _ => destruct c eqn:A; [|discriminate] end.
    inversion H; subst q'; clear H. apply N.eqb_eq in A.
    destruct r, add as [[]|]; cbn in *; (repeat split; auto; try (intros []; cbn; lia)).
  - match type of H with (if ?c then _ else _) = _ => destruct c eqn:A; [|discriminate] end.
    inversion H; subst q'; clear H. apply N.eqb_eq in A.
    destruct add as [[]|]; cbn in *; (repeat split; auto; try (intros []; cbn; lia)).
Qed.

Lemma filter_absent : forall k (l : list N), ~ In k l -> filter (fun x => negb (k =? x)) l = l.
Proof.
  induction l; simpl; intros; [auto|]. destruct (N.eqb_spec k a); [subst; tauto|]. simpl. f_equal. tauto.
Qed.

(* ---- remove_entry ---------------------------------------------------------- *)
Lemma remove_entry_CI : forall p id p', CI p -> remove_entry p id = Some p' ->
  CI p' /\ ids p' = filter (fun x => negb (id =? x)) (ids p) /\ p_max_anc p' = p_max_anc p /\
  p_total_size p' <= p_total_size p /\ p_total_cycles p' <= p_total_cycles p.
Proof.
  intros p id p' HCI H. unfold remove_entry in H.
  destruct (get p id) as [e|] eqn:G.
  2:{ inversion H; subst. split; [auto|]. split; [|repeat split; lia].
      symmetry. apply filter_absent. unfold get in G. apply aget_None_keys in G. exact G. }
  set (p0 := set_entries p (adel N.eqb id (p_entries p))) in *.
  set (q := remove_entry_links (remove_entry_edges (update_descendants_index_key (update_ancestors_index_key p0 (e_tx e) false) (e_tx e) false) (e_tx e)) id) in *.
  assert (E : EM p0 q).
  { unfold q. eapply EM_trans; [apply EM_update_anc|]. eapply EM_trans; [apply EM_update_desc|].
    eapply EM_trans; [apply EM_set_edges|]. apply EM_remove_links. }
  destruct (track q (Some (e_status e)) None) as [q2|] eqn:T; [|discriminate].
  inversion H; subst p'; clear H.
  apply track_spec in T. destruct T as (T1&T2&T3&T4&T5&T6).
  destruct E as [[K S] C]. unfold same_counters in C. destruct C as (C1&C2&C3&C4&C5&C6).
  destruct HCI as [ND HS HC HP HG HPr]. unfold get in G.
  pose proof (sum_of_adel (fun e => tx_size (e_tx e)) id _ e ND G) as A1.
  pose proof (sum_of_adel (fun e => tx_cycles (e_tx e)) id _ e ND G) as A2.
  pose proof (sum_of_adel (fun x => ind (e_status x) Pending) id _ e ND G) as A3.
  pose proof (sum_of_adel (fun x => ind (e_status x) Gap) id _ e ND G) as A4.
  pose proof (sum_of_adel (fun x => ind (e_status x) Proposed) id _ e ND G) as A5.
  pose proof (T5 Pending) as B3. pose proof (T5 Gap) as B4. pose proof (T5 Proposed) as B5.
  cbn [count_of] in B3, B4, B5.
  assert (X3 : sum_of (fun x => ind (e_status x) Pending) (p_entries q) = count_status Pending (adel N.eqb id (p_entries p))).
  { unfold count_status, ind. apply S. apply core_fn_status. }
  assert (X4 : sum_of (fun x => ind (e_status x) Gap) (p_entries q) = count_status Gap (adel N.eqb id (p_entries p))).
  { unfold count_status, ind. apply S. apply core_fn_status. }
  assert (X5 : sum_of (fun x => ind (e_status x) Proposed) (p_entries q) = count_status Proposed (adel N.eqb id (p_entries p))).
  { unfold count_status, ind. apply S. apply core_fn_status. }
  pose proof (S _ core_fn_size) as X1. pose proof (S _ core_fn_cycles) as X2.
  cbn [p0 set_entries p_entries p_total_size p_total_cycles p_pending p_gap p_proposed p_max_anc] in *.
  unfold count_status in *.
  split; [|split; [|split; [|split]]].
  - unfold ind in *.
    constructor; unfold ids, count_status; cbn [stat_sub set_counters p_entries p_total_size p_total_cycles p_pending p_gap p_proposed]; rewrite T1.
    + rewrite K. rewrite adel_keys. apply NoDup_filter. exact ND.
    + lia.
    + lia.
    + lia.
    + lia.
    + lia.
  - unfold ids. cbn [stat_sub set_counters p_entries]. rewrite T1, K. apply adel_keys.
  - cbn. congruence.
  - cbn. lia.
  - cbn. lia.
Qed.

(* ---- operations that only remove ------------------------------------------- *)
Definition Shrinks (p p' : pool) : Prop :=
  CI p' /\ incl (ids p') (ids p) /\ p_max_anc p' = p_max_anc p /\
  p_total_size p' <= p_total_size p /\ p_total_cycles p' <= p_total_cycles p.
Lemma Shrinks_refl : forall p, CI p -> Shrinks p p.
Proof. intros. split; [assumption|]. split; [apply incl_refl|]. repeat split; lia. Qed.
Lemma Shrinks_trans : forall a b c, Shrinks a b -> Shrinks b c -> Shrinks a c.
Proof.
  intros a b c (H1&H2&H3&H4&H5) (G1&G2&G3&G4&G5). split; [exact G1|].
  split; [eapply incl_tran; eauto|]. repeat split; try lia; congruence.
Qed.
Lemma EM_Shrinks : forall p p', CI p -> EM p p' -> Shrinks p p'.
Proof.
  intros p p' H E. pose proof (EM_ids _ _ E) as I. pose proof (EM_total _ _ E) as [T1 T2].
  destruct E as [M C]. unfold same_counters in C.
  split; [eapply EM_CI; eauto; split; auto|].
  split; [rewrite I; apply incl_refl|]. repeat split; try lia; tauto.
Qed.
Lemma remove_entry_Shrinks : forall p id p', CI p -> remove_entry p id = Some p' -> Shrinks p p'.
Proof.
  intros p id p' H R. destruct (remove_entry_CI _ _ _ H R) as (A&B&C&D&E).
  split; [exact A|]. split; [|repeat split; auto]. rewrite B. intros x Hx. apply filter_In in Hx. tauto.
Qed.
Lemma remove_entry_gone : forall p id p', CI p -> remove_entry p id = Some p' -> ~ In id (ids p').
Proof.
  intros p id p' H R. destruct (remove_entry_CI _ _ _ H R) as (_&B&_). rewrite B.
  rewrite filter_In. rewrite N.eqb_refl. simpl. intros [_ X]. discriminate.
Qed.
Lemma remove_entries_Shrinks : forall l p p', CI p -> remove_entries p l = Some p' -> Shrinks p p'.
Proof.
  induction l; simpl; intros p p' H R.
  - inversion R; subst. apply Shrinks_refl; auto.
  - destruct (remove_entry p a) as [p1|] eqn:E; [|discriminate].
    pose proof (remove_entry_Shrinks _ _ _ H E) as S1.
    eapply Shrinks_trans; [exact S1|]. apply IHl; auto. apply S1.
Qed.
Lemma remove_entries_gone : forall l p p' x, CI p -> remove_entries p l = Some p' -> In x l -> ~ In x (ids p').
Proof.
  induction l; simpl; intros p p' x H R Hx; [tauto|].
  destruct (remove_entry p a) as [p1|] eqn:E; [|discriminate].
  pose proof (remove_entry_Shrinks _ _ _ H E) as S1.
  destruct Hx as [->|Hx].
  - pose proof (remove_entry_gone _ _ _ H E) as G.
    pose proof (remove_entries_Shrinks _ _ _ (proj1 S1) R) as (_&I&_). intro. apply G. apply I. auto.
  - eapply (IHl p1); [apply S1|exact R|exact Hx].
Qed.
Lemma red_Shrinks : forall p id p', CI p -> remove_entry_and_descendants p id = Some p' -> Shrinks p p'.
Proof.
  intros p id p' H R. unfold remove_entry_and_descendants in R.
  set (l := id :: calc_descendants p id) in *.
  assert (E : EM p (fold_left remove_entry_links l (uncredit_ancestors p l))).
  { eapply EM_trans; [apply EM_uncredit|apply EM_fold_remove_links]. }
  pose proof (EM_Shrinks _ _ H E) as S1.
  eapply Shrinks_trans; [exact S1|]. eapply remove_entries_Shrinks; eauto. apply S1.
Qed.
(* the entry and every descendant are gone afterwards *)
Lemma red_gone : forall p id p' x, CI p -> remove_entry_and_descendants p id = Some p' ->
  (x = id \/ In x (calc_descendants p id)) -> ~ In x (ids p').
Proof.
  intros p id p' x H R Hx. unfold remove_entry_and_descendants in R.
  set (l := id :: calc_descendants p id) in *.
  assert (E : EM p (fold_left remove_entry_links l (uncredit_ancestors p l))).
  { eapply EM_trans; [apply EM_uncredit|apply EM_fold_remove_links]. }
  eapply remove_entries_gone; [|exact R|].
  - eapply EM_CI; eauto.
  - unfold l. simpl. destruct Hx; auto.
Qed.
Lemma rawd_Shrinks : forall l p p', CI p -> remove_all_with_descendants p l = Some p' -> Shrinks p p'.
Proof.
  induction l; simpl; intros p p' H R.
  - inversion R; subst. apply Shrinks_refl; auto.
  - destruct (remove_entry_and_descendants p a) as [p1|] eqn:E; [|discriminate].
    pose proof (red_Shrinks _ _ _ H E) as S1.
    eapply Shrinks_trans; [exact S1|]. apply IHl; auto. apply S1.
Qed.
Lemma resolve_conflict_inputs_Shrinks : forall l p p', CI p -> resolve_conflict_inputs p l = Some p' -> Shrinks p p'.
Proof.
  induction l; simpl; intros p p' H R.
  - inversion R; subst. apply Shrinks_refl; auto.
  - match type of R with match ?x with _ => _ end = _ => destruct x as [p2|] eqn:E1; [|discriminate] end.
    match type of R with match ?x with _ => _ end = _ => destruct x as [p4|] eqn:E2; [|discriminate] end.
    pose proof (EM_Shrinks _ _ H (EM_set_edges p (adel pt_eqb a (p_inputs p)) (p_deps p) (p_hdeps p))) as S0.
    pose proof (rawd_Shrinks _ _ _ (proj1 S0) E1) as S1.
    pose proof (EM_Shrinks _ _ (proj1 S1) (EM_set_edges p2 (p_inputs p2) (adel pt_eqb a (p_deps p2)) (p_hdeps p2))) as S2.
    pose proof (rawd_Shrinks _ _ _ (proj1 S2) E2) as S3.
    eapply Shrinks_trans; [exact S0|]. eapply Shrinks_trans; [exact S1|].
    eapply Shrinks_trans; [exact S2|]. eapply Shrinks_trans; [exact S3|].
    apply IHl; auto. apply S3.
Qed.
Lemma commit_Shrinks : forall p t p', CI p -> commit_tx p t = Some p' -> Shrinks p p'.
Proof.
  intros p t p' H R. unfold commit_tx in R.
  destruct (remove_entry p (tx_id t)) as [p1|] eqn:E; [|discriminate].
  pose proof (remove_entry_Shrinks _ _ _ H E) as S1.
  eapply Shrinks_trans; [exact S1|]. eapply resolve_conflict_inputs_Shrinks; eauto. apply S1.
Qed.
Lemma limit_loop_Shrinks : forall fuel p m p', CI p -> limit_size_loop fuel p m = Some p' ->
  Shrinks p p' /\ p_total_size p' <= m.
Proof.
  induction fuel; simpl; intros p m p' H R.
  - destruct (N.leb_spec (p_total_size p) m); [|discriminate]. inversion R; subst.
    split; [apply Shrinks_refl; auto|auto].
  - destruct (N.leb_spec (p_total_size p) m).
    + inversion R; subst. split; [apply Shrinks_refl; auto|auto].
    + destruct (next_evict p) as [id|]; [|discriminate].
      destruct (remove_entry_and_descendants p id) as [p1|] eqn:E; [|discriminate].
      pose proof (red_Shrinks _ _ _ H E) as S1.
      destruct (IHfuel _ _ _ (proj1 S1) R) as [S2 L]. split; auto. eapply Shrinks_trans; eauto.
Qed.

(* ---- set_entry -------------------------------------------------------------- *)
Lemma adel_amod : forall {V} k (f : V -> V) m, adel N.eqb k (amod N.eqb k f m) = adel N.eqb k m.
Proof.
  induction m as [|[k' v] m]; simpl; [auto|].
  destruct (k =? k') eqn:E; simpl; rewrite E; [exact IHm|]. f_equal. exact IHm.
Qed.

Lemma set_entry_CI : forall p id st p', CI p -> set_entry p id st = Some p' ->
  CI p' /\ ids p' = ids p /\ p_max_anc p' = p_max_anc p /\
  p_total_size p' = p_total_size p /\ p_total_cycles p' = p_total_cycles p.
Proof.
  intros p id st p' HCI H. unfold set_entry in H.
  destruct (get p id) as [e|] eqn:G; [|discriminate]. unfold get in G.
  set (f := fun e0 : entry => mkEntry (e_tx e0) st (e_anc e0) (e_desc e0)) in *.
  set (es' := amod N.eqb id f (p_entries p)) in *.
  apply track_spec in H. destruct H as (T1&T2&T3&T4&T5&T6).
  destruct HCI as [ND HS HC HP HG HPr].
  assert (K : map fst es' = map fst (p_entries p)) by apply amod_keys.
  assert (ND' : NoDup (map fst es')) by (rewrite K; exact ND).
  assert (G' : aget N.eqb id es' = Some (f e)).
  { unfold es'. rewrite aget_amod, N.eqb_refl, G. reflexivity. }
  assert (D : adel N.eqb id es' = adel N.eqb id (p_entries p)) by apply adel_amod.
  pose proof (fun g => sum_of_adel g id _ e ND G) as A.
  pose proof (fun g => sum_of_adel g id _ (f e) ND' G') as A'.
  pose proof (T5 Pending) as B3. pose proof (T5 Gap) as B4. pose proof (T5 Proposed) as B5.
  cbn [count_of set_entries p_pending p_gap p_proposed p_entries p_total_size p_total_cycles p_max_anc] in *.
  unfold count_status in *.
  pose proof (A (fun e => tx_size (e_tx e))) as a1. pose proof (A' (fun e => tx_size (e_tx e))) as a1'.
  pose proof (A (fun e => tx_cycles (e_tx e))) as a2. pose proof (A' (fun e => tx_cycles (e_tx e))) as a2'.
  pose proof (A (fun e => if status_eqb (e_status e) Pending then 1 else 0)) as a3.
  pose proof (A' (fun e => if status_eqb (e_status e) Pending then 1 else 0)) as a3'.
  pose proof (A (fun e => if status_eqb (e_status e) Gap then 1 else 0)) as a4.
  pose proof (A' (fun e => if status_eqb (e_status e) Gap then 1 else 0)) as a4'.
  pose proof (A (fun e => if status_eqb (e_status e) Proposed then 1 else 0)) as a5.
  pose proof (A' (fun e => if status_eqb (e_status e) Proposed then 1 else 0)) as a5'.
  rewrite D in *. unfold ind in *. cbn [f e_tx e_status] in *.
  split; [|repeat split; auto].
  - constructor; unfold ids, count_status; rewrite T1; auto; try lia.
  - unfold ids. rewrite T1. exact K.
Qed.

(* ---- add_entry ---------------------------------------------------------------- *)
Lemma sum_of_cons : forall g k e es, sum_of g ((k, e) :: es) = g e + sum_of g es.
Proof. reflexivity. Qed.
Lemma evict_loop_Shrinks : forall cands p count parents p1 parents1, CI p ->
  evict_loop p cands count parents = Some (p1, parents1) -> Shrinks p p1.
Proof.
  induction cands; simpl; intros p count parents p1 parents1 H R.
  - inversion R; subst. apply Shrinks_refl; auto.
  - destruct (count <=? p_max_anc p).
    + inversion R; subst. apply Shrinks_refl; auto.
    + destruct (remove_entry_and_descendants p a) as [p2|] eqn:E; [|discriminate].
      pose proof (red_Shrinks _ _ _ H E) as S1.
      eapply Shrinks_trans; [exact S1|]. eapply IHcands; eauto. apply S1.
Qed.
Lemma record_ancestors_EM : forall p t anc par p' a, record_ancestors p t anc par = Some (p', a) -> EM p p'.
Proof.
  intros p t anc par p' a H. unfold record_ancestors in H.
  destruct (add_ancestor_weights p (agg_self t) anc); [|discriminate]. inversion H; subst. apply EM_set_links.
Qed.
Lemma check_anc_Shrinks : forall p t p1 a, CI p -> check_and_record_ancestors p t = AncOk p1 a -> Shrinks p p1.
Proof.
  intros p t p1 a H R. unfold check_and_record_ancestors in R.
  match type of R with (if ?c then _ else _) = _ => destruct c end.
  - match type of R with match ?x with _ => _ end = _ => destruct x as [[p' a']|] eqn:E; [|discriminate] end.
    inversion R; subst. apply EM_Shrinks; auto. eapply record_ancestors_EM; eauto.
  - match type of R with (if ?c then _ else _) = _ => destruct c; [|discriminate] end.
    match type of R with match ?x with _ => _ end = _ => destruct x as [[p2 par2]|] eqn:E; [|discriminate] end.
    match type of R with (if ?c then _ else _) = _ => destruct c; [|discriminate] end.
    match type of R with match ?x with _ => _ end = _ => destruct x as [[p' a']|] eqn:E2; [|discriminate] end.
    inversion R; subst.
    pose proof (evict_loop_Shrinks _ _ _ _ _ _ H E) as S1.
    eapply Shrinks_trans; [exact S1|]. apply EM_Shrinks; [apply S1|]. eapply record_ancestors_EM; eauto.
Qed.
Lemma EM_record_desc : forall p t, EM p (record_entry_descendants p t).
Proof.
  intros. unfold record_entry_descendants.
  destruct (sdedup _); (eapply EM_trans; [|apply EM_update_anc]); [apply EM_refl|].
  eapply EM_trans; [apply EM_set_links|apply EM_update_desc].
Qed.

Lemma add_entry_CI : forall p t st p' code, CI p ->
  p_total_size p + tx_size t <= U64MAX -> p_total_cycles p + tx_cycles t <= U64MAX ->
  add_entry p t st = Some (p', code) ->
  CI p' /\ p_max_anc p' = p_max_anc p /\ incl (ids p') (tx_id t :: ids p).
Proof.
  intros p t st p' code HCI Hs Hc H. unfold add_entry in H.
  destruct (pooled p (tx_id t)) eqn:PO.
  { inversion H; subst. split; [exact HCI|]. split; [reflexivity|apply incl_tl, incl_refl]. }
  destruct (check_and_record_ancestors p t) as [p1 a| |] eqn:AN; [| |discriminate].
  2:{ inversion H; subst. split; [exact HCI|]. split; [reflexivity|apply incl_tl, incl_refl]. }
  pose proof (check_anc_Shrinks _ _ _ _ HCI AN) as (C1&I1&M1&Z1&Y1).
  destruct (record_entry_edges p1 t) as [p2|] eqn:RE; [|discriminate].
  assert (E2 : EM p1 p2).
  { unfold record_entry_edges in RE. destruct (insert_inputs _ _ _); [|discriminate]. inversion RE; subst. apply EM_set_edges. }
  set (e := mkEntry t st a (agg_self t)) in *.
  set (p3 := set_entries p2 ((tx_id t, e) :: p_entries p2)) in *.
  pose proof (EM_record_desc p3 t) as E4.
  destruct (track (record_entry_descendants p3 t) None (Some st)) as [p5|] eqn:T; [|discriminate].
  inversion H; subst p' code; clear H.
  apply track_spec in T. destruct T as (T1&T2&T3&T4&T5&T6).
  assert (NI : ~ In (tx_id t) (ids p2)).
  { rewrite (EM_ids _ _ E2). intro X. apply I1 in X. unfold pooled, get in PO.
    destruct (aget N.eqb (tx_id t) (p_entries p)) eqn:G; [discriminate|]. apply aget_None_keys in G. auto. }
  destruct E4 as [[K4 S4] C4]. unfold same_counters in C4. destruct C4 as (c1&c2&c3&c4&c5&c6).
  destruct E2 as [[K2 S2] C2]. unfold same_counters in C2. destruct C2 as (d1&d2&d3&d4&d5&d6).
  destruct C1 as [ND HS HC HP HG HPr].
  pose proof (T5 Pending) as B3. pose proof (T5 Gap) as B4. pose proof (T5 Proposed) as B5.
  pose proof (S4 _ core_fn_size) as X1. pose proof (S4 _ core_fn_cycles) as X2.
  pose proof (S4 _ (core_fn_status Pending)) as X3. pose proof (S4 _ (core_fn_status Gap)) as X4.
  pose proof (S4 _ (core_fn_status Proposed)) as X5.
  pose proof (S2 _ core_fn_size) as W1. pose proof (S2 _ core_fn_cycles) as W2.
  pose proof (S2 _ (core_fn_status Pending)) as W3. pose proof (S2 _ (core_fn_status Gap)) as W4.
  pose proof (S2 _ (core_fn_status Proposed)) as W5.
  unfold count_status, ind in *.
  cbn [p3 set_entries p_entries p_total_size p_total_cycles p_pending p_gap p_proposed p_max_anc count_of] in *.
  rewrite sum_of_cons in X1, X2, X3, X4, X5. cbn [e e_tx e_status] in X1, X2, X3, X4, X5.
  split; [|split].
  - constructor; unfold ids, count_status, stat_add;
      cbn [set_counters p_entries p_total_size p_total_cycles p_pending p_gap p_proposed]; rewrite ?T1.
    + rewrite K4. simpl. constructor; [exact NI|]. unfold ids in K2. rewrite K2. exact ND.
    + destruct (N.leb_spec (p_total_size p5 + tx_size t) U64MAX); lia.
    + destruct (N.leb_spec (p_total_cycles p5 + tx_cycles t) U64MAX); lia.
    + lia.
    + lia.
    + lia.
  - unfold stat_add. cbn. congruence.
  - unfold stat_add, ids. cbn [set_counters p_entries]. rewrite T1, K4. simpl.
    apply incl_cons; [left; auto|]. apply incl_tl. unfold ids in *. rewrite K2. exact I1.
Qed.

(* ---- every operation ------------------------------------------------------------ *)
(* no saturation of the two totals when a tx is added; remove_by_detached_proposal
   (which re-inserts what it removed) is not covered by this theorem *)
Definition small_op (p : pool) (o : op) : Prop :=
  match o with
  | OAdd t _ => p_total_size p + tx_size t <= U64MAX /\ p_total_cycles p + tx_cycles t <= U64MAX
  | ODetach _ => False
  | _ => True
  end.

Theorem counters_step : forall p o p', CI p -> small_op p o -> step p o = Some p' ->
  CI p' /\ p_max_anc p' = p_max_anc p.
Proof.
  intros p o p' H S R. destruct o; simpl in *.
  - destruct (add_entry p t st) as [[q c]|] eqn:E; [|discriminate]. inversion R; subst.
    destruct S as [S1 S2]. destruct (add_entry_CI _ _ _ _ _ H S1 S2 E) as (A&B&_). auto.
  - destruct (remove_entry_Shrinks _ _ _ H R) as (A&_&B&_). auto.
  - destruct (red_Shrinks _ _ _ H R) as (A&_&B&_). auto.
  - destruct (commit_Shrinks _ _ _ H R) as (A&_&B&_). auto.
  - destruct (rawd_Shrinks _ _ _ H R) as (A&_&B&_). auto.
  - destruct (set_entry_CI _ _ _ _ H R) as (A&_&B&_). auto.
  - destruct (limit_loop_Shrinks _ _ _ _ H R) as ((A&_&B&_)&_). auto.
  - destruct (remove_entries_Shrinks _ _ _ H R) as (A&_&B&_). auto.
  - tauto.
Qed.

Fixpoint run_small (p : pool) (ops : list op) : Prop :=
  match ops with
  | [] => True
  | o :: r => small_op p o /\ match step p o with Some p' => run_small p' r | None => True end
  end.

Lemma CI_empty : forall m, CI (empty_pool m).
Proof. intros. constructor; try reflexivity. constructor. Qed.

Theorem counters_reachable : forall ops p p', CI p -> run_small p ops -> run p ops = Some p' ->
  CI p' /\ p_max_anc p' = p_max_anc p.
Proof.
  induction ops; simpl; intros p p' H S R.
  - inversion R; subst. auto.
  - destruct S as [S1 S2]. destruct (step p a) as [q|] eqn:E; [|discriminate].
    destruct (counters_step _ _ _ H S1 E) as [A B].
    destruct (IHops _ _ A S2 R) as [C D]. split; auto. congruence.
Qed.

(* limit_size really gets the pool below the limit *)
Theorem limit_size_bound : forall p m p', CI p -> limit_size p m = Some p' -> p_total_size p' <= m.
Proof. intros p m p' H R. eapply limit_loop_Shrinks; eauto. Qed.

(* ---- the boolean clauses --------------------------------------------------------- *)
Lemma nodupb_NoDup : forall l, nodupb N.eqb l = true <-> NoDup l.
Proof.
  induction l; simpl.
  - split; [constructor|auto].
  - rewrite andb_true_iff, negb_true_iff, IHl. fold (smem a l). rewrite smem_false.
    split; [intros [A B]; constructor; auto|inversion 1; auto].
Qed.
Definition counters_ok (p : pool) : bool := nodupb N.eqb (ids p) && inv_counters p.
Lemma counters_ok_CI : forall p, counters_ok p = true <-> CI p.
Proof.
  intros. unfold counters_ok, inv_counters. rewrite !andb_true_iff, !N.eqb_eq, nodupb_NoDup.
  split; [intros (A&(((B&C)&D)&E)&F); constructor; auto|intros []; tauto].
Qed.

(* ---- replacement (process_rbf): the conflicting txs are gone ---------------------- *)
Lemma rawd_gone : forall l p p' x, CI p -> remove_all_with_descendants p l = Some p' -> In x l -> ~ In x (ids p').
Proof.
  induction l; simpl; intros p p' x H R Hx; [tauto|].
  destruct (remove_entry_and_descendants p a) as [p1|] eqn:E; [|discriminate].
  pose proof (red_Shrinks _ _ _ H E) as S1.
  destruct Hx as [->|Hx].
  - pose proof (red_gone _ _ _ x H E (or_introl eq_refl)) as G.
    pose proof (rawd_Shrinks _ _ _ (proj1 S1) R) as (_&I&_). intro. apply G. apply I. auto.
  - eapply (IHl p1); [apply S1|exact R|exact Hx].
Qed.
