(* Pool/ReorgProofs.v — C12: what the transcribed reorg update guarantees for every
   pool, every notification and every chain view, and the witnesses of the clauses
   it does not guarantee. *)
From Coq Require Import List NArith Bool Lia.
From CKB Require Import Pool.PoolMap Pool.ListFacts Pool.Reorg.
Import ListNotations.
Local Open Scope N_scope.

Definition txs (p : lpool) : list tx := map fst p.
Definition tsub (p q : lpool) : Prop := forall t, In t (txs p) -> In t (txs q).
Definition esub (p q : lpool) : Prop := forall e, In e p -> In e q.

Lemma esub_tsub : forall p q, esub p q -> tsub p q.
Proof. intros p q H t Ht. unfold txs in *. apply in_map_iff in Ht as (e & <- & He). apply in_map. auto. Qed.
Lemma tsub_refl : forall p, tsub p p. Proof. intros p t H. exact H. Qed.
Lemma tsub_trans : forall a b c, tsub a b -> tsub b c -> tsub a c.
Proof. intros a b c H1 H2 t Ht. auto. Qed.
Lemma esub_trans : forall a b c, esub a b -> esub b c -> esub a c.
Proof. intros a b c H1 H2 t Ht. auto. Qed.

Lemma lids_txs : forall p x, In x (lids p) <-> exists t, In t (txs p) /\ tx_id t = x.
Proof.
  intros p x. unfold lids, txs. rewrite in_map_iff. split.
  - intros (e & <- & He). exists (fst e). split; [apply in_map; auto|reflexivity].
  - intros (t & Ht & <-). apply in_map_iff in Ht as (e & <- & He). exists e. auto.
Qed.
Lemma tsub_ids : forall p q x, tsub p q -> In x (lids p) -> In x (lids q).
Proof. intros p q x H Hx. apply lids_txs in Hx as (t & Ht & E). apply lids_txs. exists t. auto. Qed.

(* ---- removals ------------------------------------------------------------------- *)
Lemma remove_set_esub : forall p s, esub (remove_set p s) p.
Proof. intros p s e H. apply filter_In in H. tauto. Qed.
Lemma remove_set_gone : forall p s x, In x s -> ~ In x (lids (remove_set p s)).
Proof.
  intros p s x Hx H. unfold lids in H. apply in_map_iff in H as (e & <- & He).
  apply filter_In in He as (_ & He). apply negb_true_iff in He. apply smem_false in He. auto.
Qed.
Lemma desc_step_incl : forall p s x, In x s -> In x (desc_step p s).
Proof. intros. unfold desc_step. apply in_or_app. auto. Qed.
Lemma iter_incl : forall p n s x, In x s -> In x (iter n (desc_step p) s).
Proof. induction n; simpl; intros; auto. apply IHn, desc_step_incl. exact H. Qed.
Lemma self_descendant : forall p id, In id (descendants p id).
Proof. intros. unfold descendants. apply iter_incl. left. reflexivity. Qed.
Lemma rwd_esub : forall p id, esub (remove_with_desc p id) p.
Proof. intros. apply remove_set_esub. Qed.
Lemma rwd_gone : forall p id, ~ In id (lids (remove_with_desc p id)).
Proof. intros. apply remove_set_gone, self_descendant. Qed.
Lemma rawd_esub : forall l p, esub (remove_all_with_desc p l) p.
Proof.
  induction l; simpl; intros p e H; auto. apply IHl in H. eapply rwd_esub; eauto.
Qed.
Lemma rawd_gone_l : forall l p x, In x l -> ~ In x (lids (remove_all_with_desc p l)).
Proof.
  induction l; simpl; intros p x Hx H; [contradiction|]. destruct Hx as [->|Hx].
  - eapply (rwd_gone p x). eapply tsub_ids; [|exact H]. apply esub_tsub, rawd_esub.
  - eapply IHl; eauto.
Qed.
Lemma resolve_conflict_esub : forall is p, esub (resolve_conflict_l p is) p.
Proof.
  induction is; simpl; intros p e H; auto. apply IHis in H. eapply rawd_esub; eauto.
Qed.
Lemma commit_esub : forall p t, esub (commit_l p t) p.
Proof. intros p t e H. unfold commit_l in H. apply resolve_conflict_esub in H. eapply remove_set_esub; eauto. Qed.
Lemma commit_gone : forall p t, ~ In (tx_id t) (lids (commit_l p t)).
Proof.
  intros p t H. eapply (remove_set_gone p [tx_id t] (tx_id t)); [left; reflexivity|].
  eapply tsub_ids; [|exact H]. apply esub_tsub, resolve_conflict_esub.
Qed.
Lemma fold_commit_esub : forall l p, esub (fold_left commit_l l p) p.
Proof. induction l; simpl; intros p e H; auto. apply IHl in H. eapply commit_esub; eauto. Qed.
Lemma fold_commit_gone : forall l p t, In t l -> ~ In (tx_id t) (lids (fold_left commit_l l p)).
Proof.
  induction l; simpl; intros p t Ht H; [contradiction|]. destruct Ht as [->|Ht].
  - eapply (commit_gone p t). eapply tsub_ids; [|exact H]. apply esub_tsub, fold_commit_esub.
  - eapply IHl; eauto.
Qed.
Lemma remove_committed_esub : forall p a dh, esub (remove_committed_txs p a dh) p.
Proof.
  intros p a dh e H. unfold remove_committed_txs in H. destruct dh.
  - eapply fold_commit_esub; eauto.
  - apply rawd_esub in H. eapply fold_commit_esub; eauto.
Qed.

Section WithOracles.
  Variable fits : lpool -> tx -> bool.
  Variable victim : lpool -> option N.
  Variable size_of : lpool -> N.

  Lemma add_l_cases : forall p t st e, In e (add_l fits p t st) -> In e p \/ e = (t, st).
  Proof.
    intros p t st e H. unfold add_l in H. destruct (lpooled p (tx_id t)); auto.
    destruct (fits p t); auto. apply in_app_or in H as [H|[H|[]]]; auto.
  Qed.
  Lemma add_l_keeps : forall p t st e, In e p -> In e (add_l fits p t st).
  Proof.
    intros p t st e H. unfold add_l. destruct (lpooled p (tx_id t)); auto.
    destruct (fits p t); auto. apply in_or_app. auto.
  Qed.

  (* remove_by_detached_proposal keeps no transaction that was not pooled *)
  Lemma fold_add_tsub : forall (removed : lpool) q base,
    tsub q base -> (forall e, In e removed -> In (fst e) (txs base)) ->
    tsub (fold_left (fun q (e : tx * status) => add_l fits q (fst e) Pending) removed q) base.
  Proof.
    induction removed; simpl; intros q base Hq Hr; auto. apply IHremoved.
    - intros t Ht. unfold txs in Ht. apply in_map_iff in Ht as (e & <- & He).
      apply add_l_cases in He as [He| ->]; [apply Hq, in_map; exact He|]. simpl. apply Hr. left. reflexivity.
    - intros e He. apply Hr. right. exact He.
  Qed.
  Lemma detach_one_tsub : forall p id, tsub (detach_one fits p id) p.
  Proof.
    intros p id. unfold detach_one. destruct (find _ p) as [[t [| |]]|]; try apply tsub_refl.
    - apply fold_add_tsub; [apply esub_tsub, remove_set_esub|].
      intros e He. apply filter_In in He as [He _]. apply in_map. exact He.
    - apply fold_add_tsub; [apply esub_tsub, remove_set_esub|].
      intros e He. apply filter_In in He as [He _]. apply in_map. exact He.
  Qed.
  Lemma detach_tsub : forall l p, tsub (detach_proposals fits p l) p.
  Proof.
    induction l; simpl; intros p; [apply tsub_refl|]. unfold detach_proposals in *. simpl.
    eapply tsub_trans; [apply IHl|apply detach_one_tsub].
  Qed.
  Lemma status_moves_txs : forall v p, txs (status_moves v p) = txs p.
  Proof.
    intros v p. unfold txs, status_moves. rewrite map_map. apply map_ext.
    intros [t s]. unfold move_status. simpl. destruct s; repeat (destruct (smem _ _)); reflexivity.
  Qed.
  Lemma expire_esub : forall p c, esub (expire_l p c) p.
  Proof. intros p c e H. apply filter_In in H. tauto. Qed.
  Lemma limit_esub : forall fuel p m, esub (limit_l victim size_of fuel p m) p.
  Proof.
    induction fuel; simpl; intros p m e H.
    - destruct (size_of p <=? m); exact H.
    - destruct (size_of p <=? m); [exact H|]. destruct (victim p); [|exact H].
      apply IHfuel in H. eapply rwd_esub; eauto.
  Qed.

  Lemma update_tsub : forall mine p a dh dp v cutoff m,
    tsub (update_for_reorg fits victim size_of mine p a dh dp v cutoff m) (remove_committed_txs p a dh).
  Proof.
    intros. unfold update_for_reorg.
    eapply tsub_trans; [apply esub_tsub, limit_esub|].
    eapply tsub_trans; [apply esub_tsub, expire_esub|].
    destruct mine.
    - intros t Ht. rewrite status_moves_txs in Ht. eapply detach_tsub; eauto.
    - apply detach_tsub.
  Qed.

  Lemma readd_one_cases : forall c rate p t e, In e (readd_one fits c rate p t) ->
    In e p \/ (e = (t, status_of (c_view c) (tx_id t)) /\ admissible c rate p t = true).
  Proof.
    intros c rate p t e H. unfold readd_one in H. destruct (admissible c rate p t) eqn:A; auto.
    apply add_l_cases in H as [H|H]; auto.
  Qed.
  (* what readd adds passed the header check of resolve_transaction *)
  Lemma readd_headers : forall c rate l p e, In e (readd fits c rate p l) ->
    In e p \/ (In (fst e) l /\ snd e = status_of (c_view c) (tx_id (fst e)) /\ forallb (c_main_header c) (tx_hdeps (fst e)) = true).
  Proof.
    induction l; simpl; intros p e H; auto. unfold readd in *. simpl in H. apply IHl in H as [H|(A & B & C)].
    - apply readd_one_cases in H as [H|[-> Adm]]; auto. right. simpl. split; [auto|]. split; [reflexivity|].
      unfold admissible, resolvable in Adm. apply andb_true_iff in Adm as [Adm _]. apply andb_true_iff in Adm. tauto.
    - right. auto.
  Qed.
  Lemma readd_keeps : forall c rate l p e, In e p -> In e (readd fits c rate p l).
  Proof.
    induction l; simpl; intros p e H; auto. unfold readd in *. simpl. apply IHl.
    unfold readd_one. destruct (admissible c rate p a); auto. apply add_l_keeps. exact H.
  Qed.

  (* ============ C12, clause 1: nothing committed on the new chain stays pooled ============ *)
  Theorem no_committed : forall mine c rate p attached dh dp cutoff m retain t,
    In t attached ->
    (forall r, In r retain -> tx_id r <> tx_id t) ->
    ~ In (tx_id t) (lids (reorg fits victim size_of mine c rate p attached dh dp cutoff m retain)).
  Proof.
    intros mine c rate p attached dh dp cutoff m retain t Ht Hr H. unfold reorg in H.
    unfold lids in H. apply in_map_iff in H as (e & E & He).
    apply readd_headers in He as [He|(A & _)].
    - assert (In (tx_id t) (lids (remove_committed_txs p attached dh))) as G.
      { eapply tsub_ids; [apply update_tsub|]. unfold lids. apply in_map_iff. exists e. split; eauto. }
      unfold remove_committed_txs in G. destruct dh.
      + eapply fold_commit_gone; eauto.
      + eapply fold_commit_gone; eauto. eapply tsub_ids; [apply esub_tsub, rawd_esub|exact G].
    - eapply Hr; eauto.
  Qed.

  (* ============ C12, clause 3: no pooled tx depends on a detached header ============ *)
  Definition hclean (hs : list N) (t : tx) : Prop := forall h, In h (tx_hdeps t) -> ~ In h hs.
  Theorem no_detached_header : forall mine c rate p attached dh dp cutoff m retain e,
    (forall h, In h dh -> c_main_header c h = false) ->
    In e (reorg fits victim size_of mine c rate p attached dh dp cutoff m retain) ->
    hclean dh (fst e).
  Proof.
    intros mine c rate p attached dh dp cutoff m retain e Hdh He h Hh Hin. unfold reorg in He.
    apply readd_headers in He as [He|(_ & _ & F)].
    - assert (In (fst e) (txs (remove_committed_txs p attached dh))) as G.
      { eapply update_tsub. unfold txs. apply in_map. exact He. }
      unfold remove_committed_txs in G. destruct dh as [|h0 dh']; [contradiction|].
      set (p1 := fold_left commit_l attached p) in *. set (hs := h0 :: dh') in *.
      unfold txs in G. apply in_map_iff in G as (e1 & E1 & G).
      assert (In (tx_id (fst e1)) (header_conflicts p1 hs)) as C.
      { unfold header_conflicts. apply in_map_iff. exists e1. split; [reflexivity|]. apply filter_In. split.
        - eapply rawd_esub; eauto.
        - apply existsb_exists. exists h. split; [rewrite E1; exact Hh|]. apply smem_In. exact Hin. }
      eapply rawd_gone_l; [exact C|]. unfold lids. apply in_map_iff. exists e1. split; [reflexivity|exact G].
    - rewrite forallb_forall in F. specialize (F _ Hh). rewrite (Hdh _ Hin) in F. discriminate.
  Qed.

  (* ============ C12, clause 5 (stage), the part that holds ============ *)
  Definition stage_sound (v : view) (e : tx * status) : Prop :=
    (In (tx_id (fst e)) (v_set v) -> snd e = Proposed) /\
    (snd e = Pending -> status_of v (tx_id (fst e)) = Pending).
  Lemma move_status_sound : forall v e, stage_sound v (move_status v e).
  Proof.
    intros v [t s]. unfold move_status, stage_sound, status_of. simpl.
    destruct s; simpl.
    - destruct (smem (tx_id t) (v_set v)) eqn:S; simpl.
      + split; auto. discriminate.
      + destruct (smem (tx_id t) (v_gap v)) eqn:G; simpl; rewrite ?S, ?G; split; auto; try discriminate;
          intro H; apply smem_In in H; congruence.
    - destruct (smem (tx_id t) (v_set v)) eqn:S; simpl; split; auto; try discriminate.
      intro H. apply smem_In in H. congruence.
    - split; auto. discriminate.
  Qed.
  Lemma status_of_sound : forall v t, stage_sound v (t, status_of v (tx_id t)).
  Proof.
    intros v t. unfold stage_sound, status_of. simpl. destruct (smem (tx_id t) (v_set v)) eqn:S.
    - split; auto.
    - split; [intro H; apply smem_In in H; congruence|]. destruct (smem (tx_id t) (v_gap v)); auto.
  Qed.
  Theorem stage_sound_after : forall c rate p attached dh dp cutoff m retain e,
    In e (reorg fits victim size_of true c rate p attached dh dp cutoff m retain) ->
    stage_sound (c_view c) e.
  Proof.
    intros c rate p attached dh dp cutoff m retain e He. unfold reorg in He.
    apply readd_headers in He as [He|(_ & S & _)].
    - unfold update_for_reorg in He. apply limit_esub in He. apply expire_esub in He.
      unfold status_moves in He. apply in_map_iff in He as (e0 & <- & _). apply move_status_sound.
    - destruct e as [t s]. simpl in S. subst s. apply status_of_sound.
  Qed.

  (* ============ C12, clause 4: a detached tx that is admissible at its turn is pooled again ============ *)
  Theorem readmitted : forall c rate p l1 r l2,
    let p1 := readd fits c rate p l1 in
    admissible c rate p1 r = true -> fits p1 r = true ->
    In (tx_id r) (lids (readd fits c rate p (l1 ++ r :: l2))).
  Proof.
    intros c rate p l1 r l2 p1 A F. unfold readd. rewrite fold_left_app. simpl. fold (readd fits c rate p l1). fold p1.
    fold (readd fits c rate (readd_one fits c rate p1 r) l2).
    assert (In (tx_id r) (lids (readd_one fits c rate p1 r))) as G.
    { unfold readd_one. rewrite A. unfold add_l. destruct (lpooled p1 (tx_id r)) eqn:L.
      - apply smem_In. exact L.
      - rewrite F. unfold lids. rewrite map_app. apply in_or_app. right. left. reflexivity. }
    unfold lids in *. apply in_map_iff in G as (e & E & He). apply in_map_iff. exists e. split; [exact E|].
    apply readd_keeps. exact He.
  Qed.
End WithOracles.

(* ---- witnesses: clauses the transcribed code does not guarantee --------------------- *)
Definition no_limit (_ : lpool) (_ : tx) : bool := true.
Definition no_victim (_ : lpool) : option N := None.
Definition chain0 (live : list outpoint) (v : view) : chain := mkChain (fun o => mem_pt o live) (fun _ => true) v.
Definition tx1 (id : N) (ins : list outpoint) (ts : N) : tx := mkTx id ins [] [] 2 300 537 1000 ts.

(* F6: the parent expires, its young child stays with an input that is neither on chain nor pooled *)
Definition f6_before : lpool := [(tx1 1 [(0, 0)] 10, Pending); (tx1 2 [(1, 0)] 500, Pending)].
Lemma inputs_resolvable_refuted_expiry :
  exists c p cutoff,
    all_resolvable c p = true /\
    all_resolvable c (reorg no_limit no_victim total_size true c 1000 p [] [] [] cutoff 100000 []) = false.
Proof. exists (chain0 [(0, 0)] (mkView [] [])), f6_before, 100. vm_compute. auto. Qed.

(* F11: T (committed on the abandoned branch only) cannot come back because its conflict X was
   committed on the new branch; C, pooled child of T, stays *)
Lemma inputs_resolvable_refuted_lost_parent :
  exists c p attached retain,
    all_resolvable (chain0 [(0, 0); (5, 0)] (mkView [] [])) p = true /\
    all_resolvable c (reorg no_limit no_victim total_size true c 1000 p attached [7] [] 0 100000 retain) = false.
Proof.
  exists (chain0 [(6, 0)] (mkView [] [])), [(tx1 9 [(5, 0)] 10, Pending)], [tx1 6 [(0, 0)] 5], [tx1 5 [(0, 0)] 5].
  vm_compute. auto.
Qed.

(* F12: remove_by_detached_proposal cannot re-add B (ancestor limit) but re-adds its child C *)
Definition fits_not (bad : N) (_ : lpool) (t : tx) : bool := negb (tx_id t =? bad).
Lemma inputs_resolvable_refuted_detach :
  exists c p dp,
    all_resolvable c p = true /\
    all_resolvable c (reorg (fits_not 2) no_victim total_size true c 1000 p [] [] dp 0 100000 []) = false.
Proof.
  exists (chain0 [(0, 0)] (mkView [] [])),
         [(tx1 1 [(0, 0)] 10, Proposed); (tx1 2 [(1, 0)] 10, Proposed); (tx1 3 [(2, 0)] 10, Proposed)], [1].
  vm_compute. auto.
Qed.

(* the stage clause: an entry in Gap whose proposal is no longer in the window (it left from the
   gap, so it is not among the detached ids, which are taken from the proposed set) stays in Gap *)
Lemma stage_matches_window_refuted :
  exists c p, stages_match (mkView [1] []) p = true /\
    stages_match (c_view c) (reorg no_limit no_victim total_size true c 1000 p [] [] [] 0 100000 []) = false.
Proof. exists (chain0 [(0, 0)] (mkView [] [])), [(tx1 1 [(0, 0)] 10, Gap)]. vm_compute. auto. Qed.

(* non-vacuity: a reorg in which every clause can be observed *)
Definition ex_before : lpool :=
  [(tx1 1 [(0, 0)] 10, Proposed); (tx1 2 [(1, 0)] 10, Pending); (tx1 3 [(0, 1)] 10, Pending);
   (mkTx 4 [(0, 2)] [] [77] 1 300 537 1000 10, Pending)].
Definition ex_chain : chain := chain0 [(0, 1); (0, 2); (0, 3); (1, 0); (1, 1)] (mkView [3] [2; 8]).
Example ex_reorg :
  let p' := reorg no_limit no_victim total_size true ex_chain 1000 ex_before [tx1 1 [(0, 0)] 10] [77] [1] 0 100000 [tx1 8 [(0, 3)] 5] in
  map (fun e => (tx_id (fst e), st_num (snd e))) p' = [(2, 2); (3, 1); (8, 2)] /\ all_resolvable ex_chain p' = true.
Proof. vm_compute. auto. Qed.
