(* Pool/PoolProofs.v — proofs about the pool model (Pool/PoolMap.v, Pool/Inv.v). *)
From Coq Require Import List NArith Bool Lia.
From CKB Require Import Pool.PoolMap Pool.Inv Pool.Check Pool.Witness Pool.ListFacts Pool.CounterProofs.
Import ListNotations.
Local Open Scope N_scope.

Ltac wit_go := repeat (split; [vm_compute; reflexivity | ]); vm_compute; reflexivity.
Ltac wit1 := eexists; wit_go.
Ltac wit2 := do 2 eexists; wit_go.

Lemma inv_init : forall m, pool_inv (empty_pool m) = true.
Proof. reflexivity. Qed.

(* ---- witnesses (finite facts, by computation) ------------------------------ *)
Lemma diamond_state_inv : exists p, diamond_state = Some p /\ pool_inv p = true /\ length (p_entries p) = 5%nat.
Proof. wit1. Qed.

(* F3: the state before is fine, add_pre holds, the tx has pooled children, and
   the aggregate clause is false afterwards *)
Lemma add_with_children_refuted :
  exists p p', f3_before = Some p /\ pool_inv p = true /\ add_pre p wP = true
               /\ has_pooled_children p wP = true
               /\ add_entry p wP Pending = Some (p', 0) /\ pool_inv_core p' = true /\ inv_aggs p' = false.
Proof. wit2. Qed.

(* F8: before the repair the remaining ancestor kept the removed subtree in its
   descendants aggregate; the repaired function keeps the invariant on the witness *)
Lemma remove_with_descendants_old_refuted :
  exists p p', f8_before = Some p /\ pool_inv p = true
               /\ remove_entry_and_descendants_old p 2 = Some p' /\ inv_aggs p' = false.
Proof. wit2. Qed.
Lemma remove_with_descendants_fixed_on_witness :
  exists p p', f8_before = Some p /\ remove_entry_and_descendants p 2 = Some p' /\ pool_inv p' = true.
Proof. wit2. Qed.

(* F10: plain remove_entry of an inner node *)
Lemma remove_inner_refuted :
  exists p p', f8_before = Some p /\ pool_inv p = true
               /\ remove_entry p 2 = Some p' /\ pool_inv_core p' = true /\ inv_aggs p' = false.
Proof. wit2. Qed.

(* F9: add_entry panics on a consistent pool although the callers' preconditions hold *)
Lemma add_evict_panic_refuted :
  exists p, f9_before = Some p /\ pool_inv p = true /\ add_pre p nT = true /\ add_entry p nT Pending = None.
Proof. wit1. Qed.

(* non-vacuity of the hypotheses of counters_step / counters_reachable: the diamond
   history never saturates, and its final state satisfies the counter clause *)
Lemma diamond_small : run_small (empty_pool 125) diamond_ops.
Proof. vm_compute. repeat split; try (intro; discriminate). Qed.
Lemma diamond_counters : exists p, diamond_state = Some p /\ counters_ok p = true.
Proof. wit1. Qed.
