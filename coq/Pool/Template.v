(* Pool/Template.v — C13: the block assembler's running size bookkeeping
   (tx-pool/src/block_assembler/mod.rs: TemplateSize::calc_total_by_*, update_blank /
   update_full / update_uncles / update_proposals / update_transactions with their
   guards) and TxSelector::txs_to_commit's package selection
   (tx-pool/src/component/tx_selector.rs).  No proofs here.

   Sizes: `base` is basic_block_size without uncles and proposals (header, cellbase,
   extension, the table overheads); an uncle adds UNCLE bytes, a proposal PROPOSAL
   bytes (serialized_size_without_uncle_proposals does not count uncles' proposals);
   a transaction its serialized_size_in_block.  usize saturating arithmetic is
   written as saturating. *)
From Coq Require Import List NArith Bool.
From CKB Require Import Pool.PoolMap Pool.Reorg.
Import ListNotations.
Local Open Scope N_scope.

Definition UNCLE : N := 228.        (* UncleBlock::serialized_size_in_block *)
Definition PROPOSAL : N := 10.      (* ProposalShortId::serialized_size *)

Record tsize := mkTS { ts_txs : N; ts_proposals : N; ts_uncles : N; ts_total : N }.
Definition calc_total_by (old new total : N) : N :=
  if old <? new then sat_add total (new - old) else total - (old - new).      (* saturating_sub *)
Definition calc_total_by_proposals (s : tsize) (n : N) : N := calc_total_by (ts_proposals s) n (ts_total s).
Definition calc_total_by_uncles (s : tsize) (n : N) : N := calc_total_by (ts_uncles s) n (ts_total s).
Definition calc_total_by_txs (s : tsize) (n : N) : N := calc_total_by (ts_txs s) n (ts_total s).

Definition sumN (l : list N) : N := fold_right N.add 0 l.

(* what package_txs hands back under a size limit, by sizes: every package it takes fits
   into what is left (the selector below is the detailed model); calc_dao may then drop any
   of them (mask) *)
Fixpoint take_fit (limit : N) (cands : list N) : list N :=
  match cands with
  | [] => []
  | c :: r => if c <=? limit then c :: take_fit (limit - c) r else take_fit limit r
  end.
Fixpoint mask_filter (l : list N) (m : list bool) : list N :=
  match l, m with
  | x :: l', false :: m' => mask_filter l' m'
  | x :: l', _ :: m' => x :: mask_filter l' m'
  | _, [] => l
  | [], _ => []
  end.

(* CurrentTemplate: the template's parts and its TemplateSize *)
Record tstate := mkT { t_base : N; t_nuncles : N; t_nprops : N; t_txs : list N; t_size : tsize }.
Definition real_size (s : tstate) : N := t_base s + UNCLE * t_nuncles s + PROPOSAL * t_nprops s + sumN (t_txs s).

Inductive tup :=
| UBlank (base nuncles : N)                          (* new tip: update_blank *)
| UFull (nprops : N) (cands : list N) (mask : list bool)  (* after the pool's reorg update: update_full *)
| UUncles (n : N)                                    (* a new candidate uncle: update_uncles *)
| UProposals (n : N)                                 (* a new pending tx: update_proposals *)
| UTxs (cands : list N) (mask : list bool).          (* a new proposed tx: update_transactions *)

Definition tstep (max max_uncles : N) (s : tstate) (u : tup) : tstate :=
  match u with
  | UBlank base n =>
    mkT base n 0 [] (mkTS 0 0 (UNCLE * n) (base + UNCLE * n))
  | UFull np cands mask =>
    let basic := t_base s + UNCLE * t_nuncles s + PROPOSAL * np in
    if max <? basic then s                                         (* BlockAssemblerError::Overflow: nothing stored *)
    else
      let txs := mask_filter (take_fit (max - basic) cands) mask in
      mkT (t_base s) (t_nuncles s) np txs (mkTS (sumN txs) (PROPOSAL * np) (ts_uncles (t_size s)) (basic + sumN txs))
  | UUncles n =>
    if t_nuncles s <? max_uncles then
      let remain := max - ts_total (t_size s) in
      if UNCLE <? remain then
        let nu := UNCLE * n in
        let nt := calc_total_by_uncles (t_size s) nu in
        if nt <? max then
          mkT (t_base s) n (t_nprops s) (t_txs s) (mkTS (ts_txs (t_size s)) (ts_proposals (t_size s)) nu nt)
        else s
      else s
    else s
  | UProposals n =>
    let np := PROPOSAL * n in
    let nt := calc_total_by_proposals (t_size s) np in
    if nt <? max then
      mkT (t_base s) (t_nuncles s) n (t_txs s) (mkTS (ts_txs (t_size s)) np (ts_uncles (t_size s)) nt)
    else s
  | UTxs cands mask =>
    let basic := t_base s + UNCLE * t_nuncles s + PROPOSAL * t_nprops s in
    if max <? basic then s
    else
      let txs := mask_filter (take_fit (max - basic) cands) mask in
      let nt := calc_total_by_txs (t_size s) (sumN txs) in
      mkT (t_base s) (t_nuncles s) (t_nprops s) txs (mkTS (sumN txs) (ts_proposals (t_size s)) (ts_uncles (t_size s)) nt)
  end.
Definition trun (max max_uncles : N) (s : tstate) (us : list tup) : tstate := fold_left (tstep max max_uncles) us s.

(* the bookkeeping describes the template, and the template fits *)
Definition tinv (max : N) (s : tstate) : Prop :=
  ts_total (t_size s) = real_size s /\ ts_txs (t_size s) = sumN (t_txs s) /\
  ts_proposals (t_size s) = PROPOSAL * t_nprops s /\ ts_uncles (t_size s) = UNCLE * t_nuncles s /\
  real_size s <= max.
(* update_blank has no guard of its own: its cellbase and uncles must fit, as they do for any consensus *)
Definition blank_ok (max : N) (u : tup) : Prop :=
  match u with UBlank base n => base + UNCLE * n <= max | _ => True end.

(* ---- TxSelector::txs_to_commit ----------------------------------------------------- *)
Section Selector.
  Variable ancs : N -> list N.          (* calc_ancestors: the in-pool strict ancestors (links closure) *)
  Variable key : N -> N.                (* stored ancestors_count *)
  Variable proposed : N -> bool.        (* has_proposed *)
  Variable size cycles : N -> N.        (* the entry's own size / cycles *)
  Variable anc_size anc_cycles : N -> N.  (* stored ancestors_size / ancestors_cycles *)

  Fixpoint ins_key (x : N) (l : list N) : list N :=
    match l with [] => [x] | y :: r => if key x <=? key y then x :: l else y :: ins_key x r end.
  Definition sort_key (l : list N) : list N := fold_right ins_key [] l.
  Definition sumf (f : N -> N) (l : list N) : N := fold_right (fun x a => f x + a) 0 l.

  Definition unfetched (fetched : list N) (id : N) : list N := filter (fun a => negb (smem a fetched)) (sdedup (ancs id)).
  Definition fetched_ancs (fetched : list N) (id : N) : list N := filter (fun a => smem a fetched) (sdedup (ancs id)).
  (* ancestors sorted by ancestors_count, then the tx itself *)
  Definition pkg (fetched : list N) (id : N) : list N := sort_key (unfetched fetched id) ++ [id].
  (* the entry as `modified_entries` holds it: sub_ancestor_weight for every ancestor already in the block *)
  Definition est (f_anc f : N -> N) (fetched : list N) (id : N) : N := f_anc id - sumf f (fetched_ancs fetched id).

  Record sel := mkSel { s_list : list N; s_size : N; s_cycles : N }.
  Definition sel_step (size_limit cycles_limit : N) (st : sel) (id : N) : sel :=
    if smem id (s_list st) then st else
    if negb (proposed id) then st else
    if (size_limit <? s_size st + est anc_size size (s_list st) id)
       || (cycles_limit <? s_cycles st + est anc_cycles cycles (s_list st) id) then st else
    if negb (forallb proposed (ancs id)) then st else
    let pk := pkg (s_list st) id in
    mkSel (s_list st ++ pk) (s_size st + sumf size pk) (s_cycles st + sumf cycles pk).
  (* `cands`: the ids in the order the loop considers them (by score, from the proposed iterator
     and from modified_entries; the order does not matter for what is proved) *)
  Definition select (size_limit cycles_limit : N) (cands : list N) : sel :=
    fold_left (sel_step size_limit cycles_limit) cands (mkSel [] 0 0).

  (* parents first: every ancestor of an element is in `seen` or earlier in the list *)
  Fixpoint ord (seen : list N) (l : list N) : Prop :=
    match l with [] => True | x :: r => incl (ancs x) seen /\ ord (x :: seen) r end.
End Selector.

(* ---- observations written by the harness ------------------------------------------------ *)
Record size_obs := mkSizeObs { so_max : N; so_total : N; so_txs : N; so_props : N; so_uncles : N; so_real : N }.
(* TemplateSize seen beside the template it belongs to: total is the serialized size, parts add up, it fits *)
Definition check_size_obs (o : size_obs) : bool :=
  (so_total o =? so_real o) && (so_total o <=? so_max o) && (so_txs o + so_props o + so_uncles o <=? so_total o).

Record sel_obs := mkSelObs { sl_pool : lpool; sl_selected : list N; sl_size_limit : N; sl_cycles_limit : N }.
Definition find_tx (p : lpool) (id : N) : option (tx * status) := find (fun e => tx_id (fst e) =? id) p.
Fixpoint ordb (p : lpool) (seen : list N) (l : list N) : bool :=
  match l with
  | [] => true
  | x :: r => match find_tx p x with
              | None => false
              | Some e => forallb (fun a => smem a seen) (ancestors_l p (fst e)) && ordb p (x :: seen) r
              end
  end.
(* the raw selection of the real TxSelector: parents first and ancestor-closed (ordb), only proposed
   entries, no duplicates, within the limits *)
Definition check_sel_obs (o : sel_obs) : bool :=
  let p := sl_pool o in
  ordb p [] (sl_selected o)
  && forallb (fun id => match find_tx p id with Some (_, Proposed) => true | _ => false end) (sl_selected o)
  && (N.of_nat (length (sdedup (sl_selected o))) =? N.of_nat (length (sl_selected o)))
  && (fold_right (fun id a => match find_tx p id with Some e => tx_size (fst e) + a | None => a end) 0 (sl_selected o) <=? sl_size_limit o)
  && (fold_right (fun id a => match find_tx p id with Some e => tx_cycles (fst e) + a | None => a end) 0 (sl_selected o) <=? sl_cycles_limit o).
