(* Pool/Check.v — the cases the correspondence harness (hx-pool) writes: a set
   of transactions, a list of primitive pool steps and, after every step, the
   complete state the real PoolMap was in.  The checker re-runs the steps on the
   model and compares the whole state (entries with aggregates, links, edges,
   counters; sets sorted).  No proofs here. *)
From Coq Require Import List NArith Bool.
From CKB Require Import Pool.PoolMap Pool.Inv.
Import ListNotations.
Local Open Scope N_scope.

Record dump := mkDump {
  d_entries : list (N * N * list N);       (* id, status 0/1/2, [anc count,size,cycles,fee; desc ...] *)
  d_links : list (N * list N * list N);    (* id, parents, children *)
  d_inputs : list (outpoint * N);
  d_deps : list (outpoint * list N);
  d_hdeps : list (N * list N);
  d_counters : list N }.                   (* total size, total cycles, pending, gap, proposed *)

Inductive cop :=
| CAdd (id st : N) | CRemove (id : N) | CRemoveDesc (id : N) | CCommit (id : N) | CHeader (hs : list N)
| CSet (id st : N) | CLimit (m : N) | CExpire (c : N) (order : list N) | CDetach (id : N) | CRbf (id rate : N).

Record hist_case := mkHist {
  hc_max_anc : N;
  hc_txs : list tx;
  hc_steps : list (cop * list N * option dump) }.

(* ---- sorting ------------------------------------------------------------ *)
Section Sort.
  Context {A : Type} (ltb : A -> A -> bool).
  Fixpoint ins (x : A) (l : list A) : list A :=
    match l with [] => [x] | y :: r => if ltb x y then x :: l else y :: ins x r end.
  Definition isort (l : list A) : list A := fold_right ins [] l.
End Sort.
Definition pt_ltb (a b : outpoint) : bool := (fst a <? fst b) || ((fst a =? fst b) && (snd a <? snd b)).
Definition sortN := isort N.ltb.

Definition st_num (s : status) : N := match s with Pending => 0 | Gap => 1 | Proposed => 2 end.
Definition num_st (n : N) : status := match n with 0 => Pending | 1 => Gap | _ => Proposed end.
Definition agg_list (a : agg) : list N := [a_count a; a_size a; a_cycles a; a_fee a].

Definition dump_of_pool (p : pool) : dump :=
  mkDump
    (isort (fun a b => fst (fst a) <? fst (fst b))
           (map (fun kv => (fst kv, st_num (e_status (snd kv)), agg_list (e_anc (snd kv)) ++ agg_list (e_desc (snd kv)))) (p_entries p)))
    (isort (fun a b => fst (fst a) <? fst (fst b))
           (map (fun kv => (fst kv, sortN (l_parents (snd kv)), sortN (l_children (snd kv)))) (p_links p)))
    (isort (fun a b => pt_ltb (fst a) (fst b)) (p_inputs p))
    (isort (fun a b => pt_ltb (fst a) (fst b)) (map (fun kv => (fst kv, sortN (snd kv))) (p_deps p)))
    (isort (fun a b => fst a <? fst b) (p_hdeps p))
    [p_total_size p; p_total_cycles p; p_pending p; p_gap p; p_proposed p].

(* ---- equality ----------------------------------------------------------- *)
Fixpoint list_eqb {A} (eqb : A -> A -> bool) (a b : list A) : bool :=
  match a, b with
  | [], [] => true
  | x :: a', y :: b' => eqb x y && list_eqb eqb a' b'
  | _, _ => false
  end.
Definition lN_eqb := list_eqb N.eqb.
Definition dump_eqb (a b : dump) : bool :=
  list_eqb (fun x y => (fst (fst x) =? fst (fst y)) && (snd (fst x) =? snd (fst y)) && lN_eqb (snd x) (snd y)) (d_entries a) (d_entries b)
  && list_eqb (fun x y => (fst (fst x) =? fst (fst y)) && lN_eqb (snd (fst x)) (snd (fst y)) && lN_eqb (snd x) (snd y)) (d_links a) (d_links b)
  && list_eqb (fun x y => pt_eqb (fst x) (fst y) && (snd x =? snd y)) (d_inputs a) (d_inputs b)
  && list_eqb (fun x y => pt_eqb (fst x) (fst y) && lN_eqb (snd x) (snd y)) (d_deps a) (d_deps b)
  && list_eqb (fun x y => (fst x =? fst y) && lN_eqb (snd x) (snd y)) (d_hdeps a) (d_hdeps b)
  && lN_eqb (d_counters a) (d_counters b).

(* ---- running a case ------------------------------------------------------ *)
Definition tx_by_id (txs : list tx) (id : N) : option tx := find (fun t => tx_id t =? id) txs.
Definition on_chain (id : N) : bool := id =? 0.

(* model answer to a step: None = the model says panic / precondition violated *)
Definition cstep (txs : list tx) (p : pool) (c : cop) : option (pool * list N) :=
  match c with
  | CAdd id st => match tx_by_id txs id with
                  | Some t => match add_entry p t (num_st st) with Some (p', code) => Some (p', [code]) | None => None end
                  | None => None end
  | CRemove id => option_map (fun p' => (p', [])) (remove_entry p id)
  | CRemoveDesc id => option_map (fun p' => (p', [])) (remove_entry_and_descendants p id)
  | CCommit id => match tx_by_id txs id with
                  | Some t => option_map (fun p' => (p', [])) (commit_tx p t)
                  | None => None end
  | CHeader hs => option_map (fun p' => (p', [])) (resolve_conflict_header_dep p hs)
  | CSet id st => option_map (fun p' => (p', [])) (set_entry p id (num_st st))
  | CLimit m => option_map (fun p' => (p', [])) (limit_size p m)
  (* remove_expired walks the entries in the container's iteration order, which the
     harness reports; the model checks that these are exactly the expired entries *)
  | CExpire c order => if set_eqb order (expired_ids p c)
                       then option_map (fun p' => (p', [])) (remove_entries p order) else None
  | CDetach id => option_map (fun p' => (p', [])) (remove_by_detached_proposal p id)
  | CRbf id rate => match tx_by_id txs id with
                    | Some t => Some (p, match check_rbf p on_chain t rate with
                                         | None => [0]
                                         | Some cs => 1 :: sortN cs end)
                    | None => None end
  end.

Fixpoint check_steps (txs : list tx) (p : pool) (steps : list (cop * list N * option dump)) : bool :=
  match steps with
  | [] => true
  | (c, res, obs) :: r =>
    match cstep txs p c, obs with
    | None, None => true                       (* both stop here *)
    | Some (p', res'), Some d =>
      lN_eqb res res' && dump_eqb (dump_of_pool p') d && check_steps txs p' r
    | _, _ => false
    end
  end.

Definition check_hist (c : hist_case) : bool :=
  check_steps (hc_txs c) (empty_pool (hc_max_anc c)) (hc_steps c).

(* the model states along a case (for examples and debugging) *)
Fixpoint run_steps (txs : list tx) (p : pool) (cs : list cop) : option pool :=
  match cs with
  | [] => Some p
  | c :: r => match cstep txs p c with None => None | Some (p', _) => run_steps txs p' r end
  end.
