(* Pool/TemplateProofs.v — C13: the size bookkeeping describes the template after any
   sequence of updates; the selector's list is ancestor-closed, parents-first and within
   the limits when the pool's aggregates are the sums they stand for (C11's I4) — and is
   not when they are stale (C11 finding F3). *)
From Coq Require Import List NArith Bool Lia.
From CKB Require Import Pool.PoolMap Pool.ListFacts Pool.Reorg Pool.Template.
Import ListNotations.
Local Open Scope N_scope.

(* ---- size bookkeeping -------------------------------------------------------------- *)
Lemma take_fit_le : forall cands limit, sumN (take_fit limit cands) <= limit.
Proof.
  induction cands; intros limit; cbn [take_fit sumN fold_right]; [lia|].
  destruct (N.leb_spec a limit).
  - cbn [sumN fold_right]. specialize (IHcands (limit - a)). unfold sumN in *. lia.
  - apply IHcands.
Qed.
Lemma mask_le : forall l m, sumN (mask_filter l m) <= sumN l.
Proof.
  induction l; intros m; destruct m as [|[|] m]; cbn [mask_filter sumN fold_right]; try lia.
  - specialize (IHl m). unfold sumN in *. lia.
  - specialize (IHl m). unfold sumN in *. lia.
Qed.

Ltac dl := repeat match goal with
  | |- context [N.ltb ?a ?b] => destruct (N.ltb_spec a b)
  | |- context [N.leb ?a ?b] => destruct (N.leb_spec a b)
  end.

Lemma tstep_inv : forall max mu s u, max <= U64MAX -> tinv max s -> blank_ok max u -> tinv max (tstep max mu s u).
Proof.
  intros max mu s u HM I B. destruct s as [base nu np txs [a b c d]].
  unfold tinv, real_size in I. cbn [t_base t_nuncles t_nprops t_txs t_size ts_txs ts_proposals ts_uncles ts_total] in I.
  destruct I as (I1 & I2 & I3 & I4 & I5).
  destruct u as [base' n|np' cands mask|n|n|cands mask]; unfold tstep;
    cbn [t_base t_nuncles t_nprops t_txs t_size ts_txs ts_proposals ts_uncles ts_total].
  - unfold tinv, real_size, blank_ok in *. cbn [t_base t_nuncles t_nprops t_txs t_size ts_txs ts_proposals ts_uncles ts_total sumN fold_right]. lia.
  - destruct (N.ltb_spec max (base + UNCLE * nu + PROPOSAL * np')).
    + unfold tinv, real_size. cbn [t_base t_nuncles t_nprops t_txs t_size ts_txs ts_proposals ts_uncles ts_total]. lia.
    + pose proof (mask_le (take_fit (max - (base + UNCLE * nu + PROPOSAL * np')) cands) mask) as M.
      pose proof (take_fit_le cands (max - (base + UNCLE * nu + PROPOSAL * np'))) as T.
      set (x := sumN (mask_filter _ mask)) in *.
      unfold tinv, real_size. cbn [t_base t_nuncles t_nprops t_txs t_size ts_txs ts_proposals ts_uncles ts_total]. fold x. lia.
  - unfold calc_total_by_uncles, calc_total_by, sat_add. cbn [ts_uncles ts_total].
    dl; unfold tinv, real_size; cbn [t_base t_nuncles t_nprops t_txs t_size ts_txs ts_proposals ts_uncles ts_total]; try lia.
  - unfold calc_total_by_proposals, calc_total_by, sat_add. cbn [ts_proposals ts_total].
    dl; unfold tinv, real_size; cbn [t_base t_nuncles t_nprops t_txs t_size ts_txs ts_proposals ts_uncles ts_total]; try lia.
  - destruct (N.ltb_spec max (base + UNCLE * nu + PROPOSAL * np)).
    + unfold tinv, real_size. cbn [t_base t_nuncles t_nprops t_txs t_size ts_txs ts_proposals ts_uncles ts_total]. lia.
    + pose proof (mask_le (take_fit (max - (base + UNCLE * nu + PROPOSAL * np)) cands) mask) as M.
      pose proof (take_fit_le cands (max - (base + UNCLE * nu + PROPOSAL * np))) as T.
      set (x := sumN (mask_filter _ mask)) in *.
      unfold calc_total_by_txs, calc_total_by, sat_add. cbn [ts_txs ts_total].
      dl; unfold tinv, real_size; cbn [t_base t_nuncles t_nprops t_txs t_size ts_txs ts_proposals ts_uncles ts_total]; fold x; lia.
Qed.

Theorem size_accounting : forall max mu us base n,
  max <= U64MAX -> base + UNCLE * n <= max -> Forall (blank_ok max) us ->
  tinv max (trun max mu (tstep max mu (mkT 0 0 0 [] (mkTS 0 0 0 0)) (UBlank base n)) us).
Proof.
  intros max mu us base n HM HB HF.
  assert (tinv max (tstep max mu (mkT 0 0 0 [] (mkTS 0 0 0 0)) (UBlank base n))) as I0.
  { unfold tstep, tinv, real_size. cbn [t_base t_nuncles t_nprops t_txs t_size ts_txs ts_proposals ts_uncles ts_total sumN fold_right]. lia. }
  revert I0. generalize (tstep max mu (mkT 0 0 0 [] (mkTS 0 0 0 0)) (UBlank base n)).
  induction HF; intros s I; cbn [trun fold_left]; [exact I|].
  apply IHHF. apply tstep_inv; auto.
Qed.

(* a run that exercises every path, the limit binding *)
Example size_run :
  let s := trun 2000 2 (tstep 2000 2 (mkT 0 0 0 [] (mkTS 0 0 0 0)) (UBlank 600 1))
             [UFull 3 [500; 700; 300] [true; true; true]; UUncles 2; UProposals 40; UProposals 5; UTxs [900; 400; 100] [true; false; true]] in
  t_size s = mkTS 400 50 456 1506 /\ real_size s = 1506.
Proof. vm_compute. auto. Qed.

(* ---- the selector -------------------------------------------------------------------- *)
Section SelectorProofs.
  Variable ancs : N -> list N.
  Variable key : N -> N.
  Variable proposed : N -> bool.
  Variable size cycles anc_size anc_cycles : N -> N.
  Notation sort_key := (sort_key key).
  Notation pkg := (pkg ancs key).
  Notation sel_step := (sel_step ancs key proposed size cycles anc_size anc_cycles).
  Notation select := (select ancs key proposed size cycles anc_size anc_cycles).
  Notation ord := (ord ancs).

  Lemma ins_key_In : forall x l y, In y (ins_key key x l) <-> y = x \/ In y l.
  Proof.
    induction l; intros y; cbn [ins_key]; [simpl; intuition (subst; auto)|].
    destruct (key x <=? key a); simpl; [intuition (subst; auto)|]. rewrite IHl. intuition (subst; auto).
  Qed.
  Lemma sort_key_In : forall l y, In y (sort_key l) <-> In y l.
  Proof.
    induction l; intros y; cbn [Template.sort_key fold_right]; [tauto|].
    rewrite ins_key_In. fold (sort_key l). rewrite IHl. simpl. intuition (subst; auto).
  Qed.
  Fixpoint sortedk (l : list N) : Prop :=
    match l with [] => True | x :: r => (forall y, In y r -> key x <= key y) /\ sortedk r end.
  Lemma ins_key_sorted : forall x l, sortedk l -> sortedk (ins_key key x l).
  Proof.
    induction l; intros S; cbn [ins_key].
    - simpl. split; [intros y []|exact I].
    - destruct S as [S1 S2]. destruct (N.leb_spec (key x) (key a)).
      + split; [|split; assumption]. intros y [<-|Hy]; [exact H|]. specialize (S1 _ Hy). lia.
      + split; [|apply IHl; exact S2]. intros y Hy. apply ins_key_In in Hy as [->|Hy]; [lia|auto].
  Qed.
  Lemma sort_key_sorted : forall l, sortedk (sort_key l).
  Proof. induction l; cbn [Template.sort_key fold_right]; [exact I|]. apply ins_key_sorted. exact IHl. Qed.
  Lemma ins_key_sum : forall f x l, sumf f (ins_key key x l) = f x + sumf f l.
  Proof.
    induction l; cbn [ins_key]; [reflexivity|]. destruct (key x <=? key a); [reflexivity|].
    change (sumf f (a :: ins_key key x l)) with (f a + sumf f (ins_key key x l)).
    change (sumf f (a :: l)) with (f a + sumf f l). rewrite IHl. lia.
  Qed.
  Lemma sort_key_sum : forall f l, sumf f (sort_key l) = sumf f l.
  Proof.
    induction l; cbn [Template.sort_key fold_right]; [reflexivity|]. rewrite ins_key_sum. fold (sort_key l).
    rewrite IHl. reflexivity.
  Qed.
  Lemma sumf_cons : forall f (a : N) l, sumf f (a :: l) = f a + sumf f l.
  Proof. reflexivity. Qed.
  Lemma sumf_app : forall f a b, sumf f (a ++ b) = sumf f a + sumf f b.
  Proof. induction a; intros b; cbn [app]; [reflexivity|]. rewrite !sumf_cons, IHa. lia. Qed.
  Lemma sumf_partition : forall f (g : N -> bool) l,
    sumf f l = sumf f (filter g l) + sumf f (filter (fun a => negb (g a)) l).
  Proof.
    induction l; cbn [filter]; [reflexivity|].
    destruct (g a); cbn [negb]; rewrite !sumf_cons; lia.
  Qed.

  Lemma ord_weaken : forall l s s', incl s s' -> ord s l -> ord s' l.
  Proof.
    induction l; intros s s' H O; cbn [Template.ord] in *; [exact I|]. destruct O as [O1 O2]. split.
    - eapply incl_tran; eauto.
    - eapply IHl; [|exact O2]. intros x [<-|Hx]; [left; reflexivity|right; auto].
  Qed.
  Lemma ord_app : forall l1 l2 s, ord s l1 -> ord (l1 ++ s) l2 -> ord s (l1 ++ l2).
  Proof.
    induction l1; intros l2 s O1 O2; cbn [app Template.ord] in *; [exact O2|]. destruct O1 as [A B]. split; [exact A|].
    apply IHl1; [exact B|]. eapply ord_weaken; [|exact O2].
    intros x Hx. destruct Hx as [<-|Hx].
    - apply in_or_app. right. left. reflexivity.
    - apply in_app_or in Hx as [Hx|Hx]; apply in_or_app; [left; exact Hx|right; right; exact Hx].
  Qed.

  Hypothesis H_trans : forall a b, In a (ancs b) -> incl (ancs a) (ancs b).
  Hypothesis H_key : forall a b, In a (ancs b) -> key a < key b.

  (* a key-sorted list whose ancestors lie in s or in the list itself is parents-first *)
  Lemma sorted_ord : forall l s, sortedk l -> (forall x, In x l -> incl (ancs x) (l ++ s)) -> ord s l.
  Proof.
    induction l; intros s S C; cbn [Template.ord]; [exact I|]. destruct S as [S1 S2]. split.
    - intros y Hy. pose proof (C a (or_introl eq_refl) y Hy) as Hin. apply in_app_or in Hin as [[<-|Hin]|Hin]; auto.
      + specialize (H_key _ _ Hy). lia.
      + specialize (S1 _ Hin). specialize (H_key _ _ Hy). lia.
    - apply IHl; [exact S2|]. intros x Hx y Hy. pose proof (C x (or_intror Hx) y Hy) as Hin.
      apply in_app_or in Hin as [[<-|Hin]|Hin].
      + apply in_or_app. right. left. reflexivity.
      + apply in_or_app. left. exact Hin.
      + apply in_or_app. right. right. exact Hin.
  Qed.

  Lemma unfetched_In : forall f id a, In a (unfetched ancs f id) <-> In a (ancs id) /\ ~ In a f.
  Proof.
    intros. unfold unfetched. rewrite filter_In, sdedup_In, negb_true_iff. rewrite smem_false. tauto.
  Qed.

  Lemma pkg_ord : forall f id, ord f (pkg f id).
  Proof.
    intros f id. unfold Template.pkg. apply ord_app.
    - apply sorted_ord; [apply sort_key_sorted|]. intros x Hx y Hy.
      apply sort_key_In, unfetched_In in Hx as [Hx _].
      pose proof (H_trans _ _ Hx _ Hy) as Hy'.
      destruct (in_dec N.eq_dec y f) as [Hf|Hf].
      + apply in_or_app. right. exact Hf.
      + apply in_or_app. left. apply sort_key_In, unfetched_In. auto.
    - cbn [Template.ord]. split; [|exact I]. intros y Hy.
      destruct (in_dec N.eq_dec y f) as [Hf|Hf].
      + apply in_or_app. right. exact Hf.
      + apply in_or_app. left. apply sort_key_In, unfetched_In. auto.
  Qed.

  (* ============ parents first and closed under in-pool ancestors ============ *)
  Lemma ord_rev_seen : forall l s, ord s l -> forall x, In x l -> forall a, In a (ancs x) -> In a (l ++ s).
  Proof.
    induction l as [|h l IHl]; intros s O x Hx a Ha; [contradiction|]. cbn [Template.ord] in O. destruct O as [O1 O2].
    destruct Hx as [<-|Hx].
    - apply in_or_app. right. apply O1. exact Ha.
    - specialize (IHl _ O2 _ Hx _ Ha). apply in_app_or in IHl as [H|[<-|H]].
      + right. apply in_or_app. left. exact H.
      + left. reflexivity.
      + right. apply in_or_app. right. exact H.
  Qed.

  Lemma sel_step_ord : forall sl cl st id, ord [] (s_list st) -> ord [] (s_list (sel_step sl cl st id)).
  Proof.
    intros sl cl st id O. unfold Template.sel_step.
    destruct (smem id (s_list st)); [exact O|]. destruct (negb (proposed id)); [exact O|].
    destruct (_ || _); [exact O|]. destruct (negb (forallb proposed (ancs id))); [exact O|].
    cbn [s_list]. apply ord_app; [exact O|]. rewrite app_nil_r. apply pkg_ord.
  Qed.
  Theorem select_ordered : forall sl cl cands, ord [] (s_list (select sl cl cands)).
  Proof.
    intros sl cl cands. unfold Template.select.
    assert (ord [] (s_list (mkSel [] 0 0))) as O0 by exact I. revert O0. generalize (mkSel [] 0 0).
    induction cands; intros st O; cbn [fold_left]; [exact O|]. apply IHcands, sel_step_ord, O.
  Qed.
  Theorem select_closed : forall sl cl cands x a,
    In x (s_list (select sl cl cands)) -> In a (ancs x) -> In a (s_list (select sl cl cands)).
  Proof.
    intros sl cl cands x a Hx Ha. pose proof (ord_rev_seen _ _ (select_ordered sl cl cands) _ Hx _ Ha) as H.
    rewrite app_nil_r in H. exact H.
  Qed.

  (* ============ within the limits, when the stored aggregates are the sums (C11, I4) ============ *)
  Hypothesis H_size : forall id, anc_size id = size id + sumf size (sdedup (ancs id)).
  Hypothesis H_cycles : forall id, anc_cycles id = cycles id + sumf cycles (sdedup (ancs id)).

  Lemma est_is_pkg : forall f_anc f fetched id,
    f_anc id = f id + sumf f (sdedup (ancs id)) ->
    est ancs f_anc f fetched id = sumf f (pkg fetched id).
  Proof.
    intros f_anc f fetched id H. unfold est, Template.pkg, fetched_ancs. rewrite sumf_app, sort_key_sum.
    unfold unfetched. rewrite H. rewrite (sumf_partition f (fun a => smem a fetched) (sdedup (ancs id))).
    cbn [sumf fold_right]. lia.
  Qed.
  Lemma sel_step_limits : forall sl cl st id,
    s_size st <= sl /\ s_cycles st <= cl /\ s_size st = sumf size (s_list st) /\ s_cycles st = sumf cycles (s_list st) ->
    let st' := sel_step sl cl st id in
    s_size st' <= sl /\ s_cycles st' <= cl /\ s_size st' = sumf size (s_list st') /\ s_cycles st' = sumf cycles (s_list st').
  Proof.
    intros sl cl st id (A & B & C & D). unfold Template.sel_step.
    destruct (smem id (s_list st)); [auto|]. destruct (negb (proposed id)); [auto|].
    rewrite (est_is_pkg anc_size size _ _ (H_size id)), (est_is_pkg anc_cycles cycles _ _ (H_cycles id)).
    destruct (N.ltb_spec sl (s_size st + sumf size (pkg (s_list st) id)));
      destruct (N.ltb_spec cl (s_cycles st + sumf cycles (pkg (s_list st) id))); cbn [orb]; auto.
    destruct (negb (forallb proposed (ancs id))); [auto|].
    cbn [s_list s_size s_cycles]. rewrite !sumf_app. repeat split; lia.
  Qed.
  Theorem select_within_limits : forall sl cl cands,
    let r := select sl cl cands in
    sumf size (s_list r) <= sl /\ sumf cycles (s_list r) <= cl /\ s_size r = sumf size (s_list r) /\ s_cycles r = sumf cycles (s_list r).
  Proof.
    intros sl cl cands. unfold Template.select.
    assert (s_size (mkSel [] 0 0) <= sl /\ s_cycles (mkSel [] 0 0) <= cl /\ s_size (mkSel [] 0 0) = sumf size (s_list (mkSel [] 0 0))
            /\ s_cycles (mkSel [] 0 0) = sumf cycles (s_list (mkSel [] 0 0))) as I0.
    { cbn. repeat split; lia. }
    revert I0. generalize (mkSel [] 0 0). induction cands; intros st I; cbn [fold_left].
    - destruct I as (A & B & C & D). cbv zeta. rewrite <- C, <- D. auto.
    - apply IHcands. apply sel_step_limits. exact I.
  Qed.
End SelectorProofs.

(* ---- with stale aggregates (C11 finding F3: a re-added parent is not credited to its pooled
   child) the selector overruns the limit it was given -------------------------------------- *)
Definition f3_ancs (id : N) : list N := match id with 2 => [1] | _ => [] end.
Definition f3_size (_ : N) : N := 600.
Definition f3_anc_size (id : N) : N := 600.      (* the child's ancestors_size was never credited with the parent *)
Lemma select_limit_stale_refuted :
  exists cands, 1000 < sumf f3_size (s_list (select f3_ancs (fun id => id) (fun _ => true) f3_size (fun _ => 0) f3_anc_size (fun _ => 0) 1000 1000 cands)).
Proof. exists [2]. vm_compute. reflexivity. Qed.

(* non-vacuity of the hypotheses: a diamond 1 <- 2, 1 <- 3, {2,3} <- 4 *)
Definition d_ancs (id : N) : list N := match id with 2 => [1] | 3 => [1] | 4 => [2; 3; 1] | _ => [] end.
Definition d_key (id : N) : N := match id with 1 => 1 | 2 => 2 | 3 => 2 | 4 => 4 | _ => 1 end.
Definition d_size (id : N) : N := 100 * id.
Definition d_anc_size (id : N) : N := match id with 1 => 100 | 2 => 300 | 3 => 400 | 4 => 1000 | _ => 100 * id end.
Example diamond_select :
  s_list (select d_ancs d_key (fun _ => true) d_size (fun _ => 1) d_anc_size (fun id => N.of_nat (length (d_ancs id)) + 1) 900 10 [3; 4; 2])
  = [1; 3; 2].
Proof. vm_compute. reflexivity. Qed.
Example diamond_hyps :
  (forall a b, In a (d_ancs b) -> incl (d_ancs a) (d_ancs b)) /\ (forall a b, In a (d_ancs b) -> d_key a < d_key b).
Proof.
  split; intros a b H; destruct b as [|[[|[]|]|[|[]|]|]]; simpl in H; try contradiction;
    repeat (destruct H as [<-|H]; [vm_compute; try reflexivity; intros x Hx; simpl in *; tauto|]); try contradiction.
Qed.
