(* Pool/Uncles.v — tx-pool/src/block_assembler/candidate_uncles.rs: CandidateUncles, the container
   the block assembler keeps the candidate uncles in (BlockAssembler::candidate_uncles; filled by
   the chain's new-uncle notifications, emptied by prepare_uncles / update_uncles).

     struct CandidateUncles { map: BTreeMap<BlockNumber, HashSet<UncleBlockView>>, count: usize }

   An uncle is (number, id); id stands for the block hash (one number per id).  The BTreeMap is
   a list of buckets (number, ids) with ascending numbers; a HashSet is a list of ids (its
   iteration order is not observable: values() is compared per height as a sorted list).
   MAX_CANDIDATE_UNCLES / MAX_PER_HEIGHT are the #[cfg(not(test))] values.
   A panic of the Rust code (`.expect("length checked")` on an empty map, `count -= …` below
   zero: the release profile has overflow checks on) is the explicit result IPanic.
   No proofs in this file. *)
From Coq Require Export List NArith Arith Bool Sorted.
Export ListNotations.

Definition uncle := (N * N)%type.                       (* header().number(), hash *)
Definition bucket := (N * list N)%type.
Record cu := mkCU { cu_map : list bucket; cu_count : nat }.

Definition MAX_CANDIDATE_UNCLES : nat := 128.
Definition MAX_PER_HEIGHT : nat := 10.

Definition empty : cu := mkCU [] 0.                       (* CandidateUncles::new *)

(* ---- BTreeMap<BlockNumber, _> as an association list ------------------------ *)
Fixpoint map_get (k : N) (m : list bucket) : option (list N) :=
  match m with
  | [] => None
  | (k', s) :: r => if N.eqb k' k then Some s else map_get k r
  end.
Fixpoint map_remove (k : N) (m : list bucket) : list bucket :=
  match m with
  | [] => []
  | (k', s) :: r => if N.eqb k' k then r else (k', s) :: map_remove k r
  end.
(* insert-or-replace at the key's place in the order *)
Fixpoint map_put (k : N) (s : list N) (m : list bucket) : list bucket :=
  match m with
  | [] => [(k, s)]
  | (k', s') :: r =>
    if N.ltb k k' then (k, s) :: m
    else if N.eqb k k' then (k, s) :: r
    else (k', s') :: map_put k s r
  end.

(* ---- HashSet<UncleBlockView> as a list of ids -------------------------------- *)
Definition set_mem (id : N) (s : list N) : bool := existsb (N.eqb id) s.
Definition set_remove (id : N) (s : list N) : list N := filter (fun x => negb (N.eqb id x)) s.
Definition set_is_empty (s : list N) : bool := match s with [] => true | _ => false end.

Inductive ires := ITrue | IFalse | IPanic.
Definition ires_eqb (a b : ires) : bool :=
  match a, b with ITrue, ITrue | IFalse, IFalse | IPanic, IPanic => true | _, _ => false end.

(* the first half of insert: `if self.count >= MAX_CANDIDATE_UNCLES { … }` *)
Inductive room := RGo (c : cu) | RRefuse | RPanic.
Definition make_room (c : cu) (number : N) : room :=
  if Nat.leb MAX_CANDIDATE_UNCLES (cu_count c) then
    match cu_map c with
    | [] => RPanic                                         (* keys().next().expect("length checked") *)
    | (first_key, _) :: _ =>
      if N.ltb first_key number then
        match map_get first_key (cu_map c) with            (* if let Some(set) = self.map.remove(&first_key) *)
        | Some set =>
          if Nat.leb (length set) (cu_count c)
          then RGo (mkCU (map_remove first_key (cu_map c)) (cu_count c - length set))
          else RPanic                                      (* self.count -= set.len() *)
        | None => RGo c
        end
      else RRefuse                                         (* return false *)
    end
  else RGo c.

Definition insert (c : cu) (u : uncle) : cu * ires :=
  let number := fst u in
  let id := snd u in
  match make_room c number with
  | RPanic => (c, IPanic)
  | RRefuse => (c, IFalse)
  | RGo c1 =>
    (* let set = self.map.entry(number).or_default(): an absent bucket is stored empty *)
    let set := match map_get number (cu_map c1) with Some s => s | None => [] end in
    let m1 := map_put number set (cu_map c1) in
    if Nat.ltb (length set) MAX_PER_HEIGHT then
      if set_mem id set then (mkCU m1 (cu_count c1), IFalse)                      (* set.insert(uncle) = false *)
      else (mkCU (map_put number (set ++ [id]) m1) (S (cu_count c1)), ITrue)
    else (mkCU m1 (cu_count c1), IFalse)
  end.

Definition remove_by_number (c : cu) (u : uncle) : cu * ires :=
  let number := fst u in
  let id := snd u in
  match map_get number (cu_map c) with                     (* if let Entry::Occupied(mut entry) *)
  | Some set =>
    if set_mem id set then                                 (* set.remove(uncle) *)
      match cu_count c with
      | O => (c, IPanic)                                   (* self.count -= 1 *)
      | S n =>
        let set' := set_remove id set in
        if set_is_empty set' then (mkCU (map_remove number (cu_map c)) n, ITrue)   (* entry.remove() *)
        else (mkCU (map_put number set' (cu_map c)) n, ITrue)
      end
    else (c, IFalse)
  | None => (c, IFalse)
  end.

Definition contains (c : cu) (u : uncle) : bool :=
  match map_get (fst u) (cu_map c) with Some s => set_mem (snd u) s | None => false end.

Definition len (c : cu) : nat := cu_count c.
(* the ids stored for a number (empty: no bucket) *)
Definition bucket_of (c : cu) (number : N) : list N :=
  match map_get number (cu_map c) with Some s => s | None => [] end.

(* self.map.values().flat_map(HashSet::iter): bucket after bucket; the order inside a bucket is
   the list's (the HashSet's is unspecified) *)
Definition values (c : cu) : list uncle :=
  flat_map (fun b : bucket => map (pair (fst b)) (snd b)) (cu_map c).

(* ---- histories --------------------------------------------------------------- *)
Inductive op := OIns (u : uncle) | ORem (u : uncle).
Definition step (c : cu) (o : op) : cu * ires :=
  match o with OIns u => insert c u | ORem u => remove_by_number c u end.
Definition run (c : cu) (ops : list op) : cu := fold_left (fun c o => fst (step c o)) ops c.

(* ---- vocabulary of the theorems ---------------------------------------------- *)
Definition total (m : list bucket) : nat := list_sum (map (fun b : bucket => length (snd b)) m).
Definition bucket_ok (b : bucket) : Prop :=
  snd b <> [] /\ NoDup (snd b) /\ length (snd b) <= MAX_PER_HEIGHT.
Record Inv (c : cu) : Prop := mkInv {
  inv_keys : StronglySorted N.lt (map fst (cu_map c));    (* the BTreeMap: one bucket per number, ascending *)
  inv_buckets : Forall bucket_ok (cu_map c);
  inv_count : cu_count c = total (cu_map c);
  inv_max : cu_count c <= MAX_CANDIDATE_UNCLES }.

Definition first_key (c : cu) : option N := match cu_map c with [] => None | (k, _) :: _ => Some k end.
(* insert of an uncle of this number throws the lowest bucket away *)
Definition evicts (c : cu) (number : N) : bool :=
  Nat.leb MAX_CANDIDATE_UNCLES (cu_count c) &&
  match first_key c with Some k => N.ltb k number | None => false end.
(* … and v is in that bucket *)
Definition evicted (c : cu) (number : N) (v : uncle) : bool :=
  evicts c number && match first_key c with Some k => N.eqb (fst v) k | None => false end.
Definition uncle_eqb (a b : uncle) : bool := N.eqb (fst a) (fst b) && N.eqb (snd a) (snd b).

(* ---- cases from the harness -------------------------------------------------- *)
Fixpoint ins_sorted (x : N) (l : list N) : list N :=
  match l with
  | [] => [x]
  | y :: r => if N.leb x y then x :: l else y :: ins_sorted x r
  end.
Definition sortN (l : list N) : list N := fold_right ins_sorted [] l.
Definition values_by_height (c : cu) : list bucket := map (fun b : bucket => (fst b, sortN (snd b))) (cu_map c).

Fixpoint listN_eqb (a b : list N) : bool :=
  match a, b with
  | [], [] => true
  | x :: a', y :: b' => N.eqb x y && listN_eqb a' b'
  | _, _ => false
  end.
Fixpoint buckets_eqb (a b : list bucket) : bool :=
  match a, b with
  | [], [] => true
  | (k, s) :: a', (k', s') :: b' => N.eqb k k' && listN_eqb s s' && buckets_eqb a' b'
  | _, _ => false
  end.

(* one operation on the real container and what it answered afterwards: the returned bool
   (IPanic: the call unwound), len(), contains() of some probes, and — when taken — values()
   cut into its runs of equal numbers, the ids of a run sorted *)
Inductive oper := Ins (number id : N) | Rem (number id : N).
Inductive probe := Pr (number id : N) (answer : bool).
Record ans := An { a_op : oper; a_ret : ires; a_len : N; a_probes : list probe; a_values : option (list bucket) }.
Record ucase := mkU { u_steps : list ans; u_final_values : list bucket }.

Definition op_of (o : oper) : op := match o with Ins n i => OIns (n, i) | Rem n i => ORem (n, i) end.
Definition check_ans (c' : cu) (r : ires) (a : ans) : bool :=
  ires_eqb r (a_ret a)
  && N.eqb (N.of_nat (len c')) (a_len a)
  && forallb (fun p => match p with Pr n i b => Bool.eqb (contains c' (n, i)) b end) (a_probes a)
  && match a_values a with None => true | Some v => buckets_eqb (values_by_height c') v end.
Fixpoint replay (c : cu) (l : list ans) : bool * cu :=
  match l with
  | [] => (true, c)
  | a :: r =>
    let (c', res) := step c (op_of (a_op a)) in
    if check_ans c' res a then replay c' r else (false, c')
  end.
Definition check_ucase (k : ucase) : bool :=
  let (ok, c) := replay empty (u_steps k) in
  ok && buckets_eqb (values_by_height c) (u_final_values k).
