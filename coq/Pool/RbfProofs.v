(* Pool/RbfProofs.v — the arithmetic of check_rbf (pool.rs) on the model. *)
From Coq Require Import List NArith Bool Lia.
From CKB Require Import Pool.PoolMap Pool.Inv Pool.ListFacts Pool.CounterProofs.
Import ListNotations.
Local Open Scope N_scope.

Lemma sdedup_id : forall l, NoDup l -> sdedup l = l.
Proof.
  induction 1; simpl; [auto|]. apply smem_false in H. rewrite H. congruence.
Qed.

(* the conflicts are exactly the pooled txs that spend an input of the new tx *)
Lemma find_conflict_spec : forall p t c,
  In c (find_conflict_tx p t) <-> exists i, In i (tx_inputs t) /\ aget pt_eqb i (p_inputs p) = Some c.
Proof.
  intros. unfold find_conflict_tx. rewrite sdedup_In, in_flat_map. unfold input_at.
  split; intros [i [Hi H]]; exists i; split; auto.
  - destruct (aget pt_eqb i (p_inputs p)); simpl in H; [destruct H as [->|[]]; auto|tauto].
  - rewrite H. simpl. auto.
Qed.

(* a replacement is admitted only if it pays the fees of everything it replaces
   (the conflicting txs and all their descendants, each once) plus the
   min_rbf_rate increment for its own size, and replaces at most 100 txs *)
Theorem rbf_rule : forall p oc t rate cs, check_rbf p oc t rate = Some cs -> cs <> [] ->
  cs = find_conflict_tx p t /\
  sum_fees p (replaced_set p cs) + sat_mul rate (tx_size t) / 1000 <= tx_fee t /\
  sum_fees p (replaced_set p cs) + sat_mul rate (tx_size t) / 1000 <= U64MAX /\
  N.of_nat (length (flat_map (calc_descendants p) cs) + length cs) <= MAX_REPLACEMENT_CANDIDATES.
Proof.
  intros p oc t rate cs H NE. unfold check_rbf in H.
  destruct (find_conflict_tx p t) as [|c0 cr] eqn:F.
  { inversion H; subst. contradiction. }
  match type of H with (if ?c then _ else _) = _ => destruct c; [discriminate|] end.
  match type of H with (if ?c then _ else _) = _ => destruct c eqn:R5; [discriminate|] end.
  match type of H with (if ?c then _ else _) = _ => destruct c; [discriminate|] end.
  match type of H with (if ?c then _ else _) = _ => destruct c; [discriminate|] end.
  unfold min_replace_fee in H.
  rewrite (sdedup_id (replaced_set p (c0 :: cr))) in H by apply sdedup_NoDup.
  match type of H with match (if ?c then _ else _) with _ => _ end = _ => destruct c eqn:OV; [|discriminate] end.
  match type of H with (if ?c then _ else _) = _ => destruct c eqn:FE; [discriminate|] end.
  inversion H; subst cs. apply N.ltb_ge in FE. apply N.leb_le in OV. apply N.ltb_ge in R5.
  repeat split; auto.
Qed.

(* process_rbf removes every conflicting tx (with its descendants): none of them is
   pooled when the replacement is inserted *)
Theorem rbf_conflicts_gone : forall p cs p' c, CI p ->
  remove_all_with_descendants p cs = Some p' -> In c cs -> pooled p' c = false.
Proof.
  intros p cs p' c H R Hc. pose proof (rawd_gone _ _ _ _ H R Hc) as G.
  unfold pooled, get. destruct (aget N.eqb c (p_entries p')) eqn:E; [|auto].
  exfalso. apply G. eapply aget_In_keys; eauto.
Qed.
