(* Freezer/CursorProofs.v — with the repaired Head::write the cursor is
   irrelevant: histories with reads anywhere refine the abstract list exactly
   as histories without; with the code as it was, a read between two appends
   corrupts a frozen item. *)
From CKB Require Import Freezer.Files Freezer.Machine Freezer.Repair Freezer.MachineProofs Freezer.Cursor.

Lemma write_at_end (file x : list N) : write_at (length file) file x = file ++ x.
Proof.
  unfold write_at. rewrite firstn_all, Nat.sub_diag. cbn [repeat app].
  rewrite skipn_all2 by lia. rewrite app_nil_r. reflexivity.
Qed.

(* on a clean state the repaired append is Files.v's append *)
Lemma append_c_fixed max cs x xs : Clean (c_st cs) xs ->
  c_st (append_c true max cs x) = append max (c_st cs) x.
Proof.
  intros HC. unfold append_c.
  destruct (Nat.ltb max (hbytes (c_st cs) + length x)) eqn:E; cbn [c_st]; [reflexivity|].
  unfold append. rewrite E.
  pose proof (cl_open _ _ HC) as Ho. pose proof (cl_len _ _ HC) as Hl.
  rewrite Ho. rewrite <- Hl. rewrite write_at_end. reflexivity.
Qed.

Lemma read_c_st cs i : c_st (read_c cs i) = c_st cs.
Proof.
  unfold read_c. destruct (Nat.ltb i 1 || Nat.leb (number (c_st cs)) i); [reflexivity|].
  destruct (get_bounds (c_st cs) i) as [[[a b] f]|]; [|reflexivity].
  destruct (Nat.eqb f (hopen (c_st cs))); reflexivity.
Qed.

Lemma cstep_refines max cs xs o : Clean (c_st cs) xs ->
  exists cs' xs', cstep true max cs o = Some cs' /\ Clean (c_st cs') xs' /\
    match o with CO o' => spec_step xs o' xs' | CRead _ => xs' = xs end.
Proof.
  intros HC. destruct o as [o'|i].
  - destruct (step_refines max (c_st cs) xs o' HC) as (s' & xs' & Hs & HC' & Hsp).
    destruct o' as [x|j| |ib c]; cbn [cstep].
    + cbn [step] in Hs. injection Hs as <-.
      exists (append_c true max cs x), xs'. split; [reflexivity|]. split; [|exact Hsp].
      rewrite (append_c_fixed max cs x xs HC). exact HC'.
    + rewrite Hs. eexists _, xs'. split; [reflexivity|]. split; [exact HC'|exact Hsp].
    + rewrite Hs. eexists _, xs'. split; [reflexivity|]. split; [exact HC'|exact Hsp].
    + rewrite Hs. eexists _, xs'. split; [reflexivity|]. split; [exact HC'|exact Hsp].
  - exists (read_c cs i), xs. split; [reflexivity|]. split; [|reflexivity].
    rewrite read_c_st. exact HC.
Qed.

(* Any history of appends, truncations, re-opens, crashes AND reads of any
   items at any points refines the abstract list exactly like the history
   without its reads: retrieving never changes what the freezer holds. *)
Theorem crun_refines max ops : forall cs xs,
  Clean (c_st cs) xs ->
  exists cs' xs', crun true max cs ops = Some cs' /\ Clean (c_st cs') xs' /\ spec_run xs (strip ops) xs'.
Proof.
  induction ops as [|o ops IH]; intros cs xs HC; cbn [crun strip].
  - exists cs, xs. split; [reflexivity|]. split; [exact HC|constructor].
  - destruct (cstep_refines max cs xs o HC) as (cs1 & xs1 & Hs & HC1 & Hsp). rewrite Hs.
    destruct (IH cs1 xs1 HC1) as (cs2 & xs2 & Hr & HC2 & Hsp2).
    exists cs2, xs2. split; [exact Hr|]. split; [exact HC2|].
    destruct o as [o'|i]; cbn [strip]; [econstructor; eassumption|subst xs1; exact Hsp2].
Qed.

(* and it is the very state of the history without reads *)
Theorem crun_is_run max ops : forall cs xs,
  Clean (c_st cs) xs ->
  option_map c_st (crun true max cs ops) = run max (c_st cs) (strip ops).
Proof.
  induction ops as [|o ops IH]; intros cs xs HC; cbn [crun strip run]; [reflexivity|].
  destruct (cstep_refines max cs xs o HC) as (cs1 & xs1 & Hs & HC1 & _). rewrite Hs.
  destruct o as [o'|i].
  - cbn [run]. assert (Hst : step max (c_st cs) o' = Some (c_st cs1)).
    { destruct o' as [x|j| |ib c]; cbn [cstep] in Hs.
      - injection Hs as <-. cbn [step]. rewrite (append_c_fixed max cs x xs HC). reflexivity.
      - destruct (step max (c_st cs) (OTruncate j)); [injection Hs as <-; reflexivity|discriminate].
      - destruct (step max (c_st cs) OReopen); [injection Hs as <-; reflexivity|discriminate].
      - destruct (step max (c_st cs) (OCrash ib c)); [injection Hs as <-; reflexivity|discriminate]. }
    rewrite Hst. apply (IH cs1 xs1 HC1).
  - cbn [cstep] in Hs. injection Hs as <-. rewrite <- (read_c_st cs i). apply (IH _ xs1).
    rewrite read_c_st. rewrite read_c_st in HC1. exact HC1.
Qed.

(* The code as it was: three appends into one file, a read of the first item
   in between, and the second item is overwritten (F12). *)
Definition f12_ops : list cop :=
  [CO (OAppend [1; 1; 1; 1]%N); CO (OAppend [2; 2; 2; 2]%N); CRead 1; CO (OAppend [3; 3; 3; 3]%N)].

Theorem cursor_old_refuted :
  exists cs, crun false 100 cfresh f12_ops = Some cs /\
             retrieve (c_st cs) 2 <> Some (Some [2; 2; 2; 2]%N) /\
             number (c_st cs) = 4.
Proof. eexists. split; [vm_compute; reflexivity|]. split; [vm_compute; discriminate|reflexivity]. Qed.

Theorem cursor_fixed_on_witness :
  exists cs, crun true 100 cfresh f12_ops = Some cs /\
             map (retrieve (c_st cs)) [1; 2; 3] = [Some (Some [1; 1; 1; 1]%N); Some (Some [2; 2; 2; 2]%N); Some (Some [3; 3; 3; 3]%N)].
Proof. eexists. split; vm_compute; reflexivity. Qed.
