(* Freezer/Freeze.v — executable model of the freeze pass:
     shared/src/shared.rs  freeze (threshold), wipe_out_frozen_data
     freezer/src/freezer.rs freeze (append main-chain blocks in height order, sync)
     store/src/store.rs    get_block / get_transaction_with_info switch to the
                           freezer below freezer.number()
   The freezer itself is the abstract list of C09 (a crash leaves a prefix that
   contains at least the synced items).  No proofs here. *)
From Coq Require Export List NArith Arith Bool Lia.
Export ListNotations.

Record fstore := mkFS {
  kv : nat -> option N;     (* block bodies in the key-value store, by main-chain height *)
  fz : list N;              (* frozen blocks: item i (0-based) is the block at height i+1 *)
  synced : nat              (* how many frozen items are durable (last sync_all) *)
}.

Definition fnumber (s : fstore) : nat := S (length (fz s)).     (* Freezer::number() *)

(* ChainStore::get_block by main-chain height *)
Definition read (s : fstore) (h : nat) : option N :=
  if Nat.ltb 0 h && Nat.ltb h (fnumber s) then nth_error (fz s) (h - 1) else kv s h.

Inductive fstep :=
| SAppend             (* freezer.freeze: append the block at height number() taken from the store *)
| SSync               (* sync_all at the end of Freezer::freeze *)
| SWipe               (* wipe_out_frozen_data: delete the bodies of the frozen (synced) heights *)
| SCrash (k : nat).   (* crash + re-open: the freezer keeps its first max(k, synced) items (at most all) *)

Definition step (s : fstore) (o : fstep) : fstore :=
  match o with
  | SAppend => match kv s (fnumber s) with
               | Some b => mkFS (kv s) (fz s ++ [b]) (synced s)
               | None => s          (* block missing: the pass stops *)
               end
  | SSync => mkFS (kv s) (fz s) (length (fz s))
  | SWipe => mkFS (fun h => if Nat.ltb 0 h && Nat.leb h (synced s) then None else kv s h) (fz s) (synced s)
  | SCrash k => let keep := Nat.min (length (fz s)) (Nat.max k (synced s)) in
                mkFS (kv s) (firstn keep (fz s)) (synced s)
  end.
Definition frun (s : fstore) (ops : list fstep) : fstore := fold_left step ops s.

(* Shared::freeze: the first height NOT frozen after a pass *)
Definition threshold (frozen limit_number max_limit : N) : N := N.min limit_number (frozen + max_limit)%N.
Definition frozen_after (frozen limit_number max_limit : N) : N := N.max frozen (threshold frozen limit_number max_limit).

(* observations of the harness: (freezer number before, number of the last
   block of epoch current-2 [0 = not applicable], freezer number after) *)
Record fzcase := mkFzCase { fzc_obs : list (N * N * N) }.
Definition max_freeze_limit : N := 30000.
Definition check_fzcase (c : fzcase) : bool :=
  forallb (fun '(a, l, b) =>
             N.leb a b &&
             (if N.eqb l 0 then true else N.eqb b (frozen_after a l max_freeze_limit)))
          (fzc_obs c).
