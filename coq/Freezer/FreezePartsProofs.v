(* Freezer/FreezePartsProofs.v — every getter the property lists answers the
   same for every main-chain block at every point of any sequence of freeze
   passes (appends, sync, the two wipe-out batches, crashes anywhere), and the
   only rows ever deleted belong to durably frozen main-chain blocks or to
   side-chain blocks stored under a frozen number. *)
From CKB Require Import Freezer.Freeze Freezer.FreezeProofs Freezer.FreezeParts.

Lemma blk_eta b : mkBlk (b_id b) (b_hdr b) (b_body b) (b_uncles b) (b_props b) (b_ext b) = b.
Proof. destruct b; reflexivity. Qed.

Section Parts.
Variable main : nat -> blk.     (* the main chain: height -> block *)
Variable tip : nat.
Hypothesis main_inj : forall h h', 0 < h <= tip -> 0 < h' <= tip -> b_id (main h) = b_id (main h') -> h = h'.
Hypothesis main_cellbase : forall h, 0 < h <= tip -> b_body (main h) <> [].

Definition rows_present (s : pstore) (b : blk) : Prop :=
  p_body s (b_id b) = b_body b /\ p_uncles s (b_id b) = Some (b_uncles b) /\
  p_props s (b_id b) = Some (b_props b) /\ p_ext s (b_id b) = b_ext b.
Definition rows_absent (s : pstore) (id : N) : Prop :=
  p_body s id = [] /\ p_uncles s id = None /\ p_props s id = None /\ p_ext s id = None.

Record PInv (s : pstore) : Prop := mkPInv {
  pi_index : forall h, 0 < h <= tip -> p_index s h = Some (b_id (main h));
  pi_above : forall h, tip < h -> p_index s h = None;
  pi_hdr : forall h, 0 < h <= tip -> p_hdr s (b_id (main h)) = Some (h, b_hdr (main h));
  pi_fz : forall i b, nth_error (p_fz s) i = Some b -> b = main (S i);
  pi_len : length (p_fz s) <= tip;
  pi_sync : p_synced s <= length (p_fz s);
  pi_rows : forall h, 0 < h <= tip ->
            rows_present s (main h) \/ (h <= p_synced s /\ rows_absent s (b_id (main h)));
  pi_ret : forall n id, In (n, id) (p_ret s) -> 0 < n <= length (p_fz s) /\ id = b_id (main n);
  pi_ok : p_ok s = true -> forall n id, In (n, id) (p_ret s) -> n <= p_synced s;
  pi_nh : forall n id h, p_numhash s n id = true -> 0 < h <= tip -> id = b_id (main h) -> n = h
}.

Lemma fz_nth s h : PInv s -> 0 < h <= length (p_fz s) -> nth_error (p_fz s) (h - 1) = Some (main h).
Proof.
  intros I Hh. destruct (nth_error (p_fz s) (h - 1)) as [b|] eqn:E.
  - rewrite (pi_fz s I _ _ E). f_equal. f_equal. lia.
  - apply nth_error_None in E. lia.
Qed.

(* ---- what the invariant means for every getter --------------------------- *)
Lemma frozen_block_spec s h : PInv s -> 0 < h <= tip ->
  get_frozen_block s (b_id (main h)) = if Nat.ltb h (pnumber s) then Some (main h) else None.
Proof.
  intros I Hh. unfold get_frozen_block, frozen_at. rewrite (pi_hdr s I h Hh).
  destruct (Nat.ltb_spec 0 h) as [_|?]; [|lia]. cbn [andb].
  destruct (Nat.ltb_spec h (pnumber s)) as [L|L]; [|reflexivity].
  rewrite (fz_nth s h I) by (unfold pnumber in L; lia). cbn [same_id]. rewrite N.eqb_refl. reflexivity.
Qed.

Lemma absent_frozen s h : PInv s -> 0 < h <= tip -> h <= p_synced s -> Nat.ltb h (pnumber s) = true.
Proof. intros I Hh Hs. apply Nat.ltb_lt. unfold pnumber. pose proof (pi_sync s I). lia. Qed.

Theorem getters_spec s h : PInv s -> 0 < h <= tip ->
  let id := b_id (main h) in
  get_header s id = Some (b_hdr (main h)) /\
  get_body s id = b_body (main h) /\
  get_txs_hashes s id = b_body (main h) /\
  get_cellbase s id = hd_error (b_body (main h)) /\
  get_uncles s id = Some (b_uncles (main h)) /\
  get_props s id = Some (b_props (main h)) /\
  get_ext s id = b_ext (main h) /\
  get_block s id = Some (main h) /\
  get_packed_block s id = Some (main h).
Proof.
  intros I Hh id. subst id.
  pose proof (frozen_block_spec s h I Hh) as Hf.
  pose proof (pi_hdr s I h Hh) as Hhd.
  pose proof (main_cellbase h Hh) as Hcb.
  assert (Hbody : get_body s (b_id (main h)) = b_body (main h)).
  { unfold get_body. destruct (pi_rows s I h Hh) as [(Hb & _)|(Hs & Hb & _)].
    - rewrite Hb. destruct (b_body (main h)); [contradiction|reflexivity].
    - rewrite Hb, Hf, (absent_frozen s h I Hh Hs). reflexivity. }
  assert (Hunc : get_uncles s (b_id (main h)) = Some (b_uncles (main h))).
  { unfold get_uncles. destruct (pi_rows s I h Hh) as [(_ & Hu & _)|(Hs & _ & Hu & _)].
    - rewrite Hu. reflexivity.
    - rewrite Hu, Hf, (absent_frozen s h I Hh Hs). reflexivity. }
  assert (Hpr : get_props s (b_id (main h)) = Some (b_props (main h))).
  { unfold get_props. destruct (pi_rows s I h Hh) as [(_ & _ & Hp & _)|(Hs & _ & _ & Hp & _)].
    - rewrite Hp. reflexivity.
    - rewrite Hp, Hf, (absent_frozen s h I Hh Hs). reflexivity. }
  assert (Hex : get_ext s (b_id (main h)) = b_ext (main h)).
  { unfold get_ext. destruct (pi_rows s I h Hh) as [(_ & _ & _ & He)|(Hs & _ & _ & _ & He)].
    - rewrite He, Hf. destruct (b_ext (main h)) eqn:Ee; [reflexivity|]. cbn [orelse].
      destruct (Nat.ltb h (pnumber s)); [exact Ee|reflexivity].
    - rewrite He, Hf, (absent_frozen s h I Hh Hs). reflexivity. }
  repeat match goal with |- _ /\ _ => split end.
  - unfold get_header. rewrite Hhd. reflexivity.
  - exact Hbody.
  - exact Hbody.
  - unfold get_cellbase. destruct (pi_rows s I h Hh) as [(Hb & _)|(Hs & Hb & _)].
    + rewrite Hb. destruct (b_body (main h)); [contradiction|reflexivity].
    + rewrite Hb, Hf, (absent_frozen s h I Hh Hs). reflexivity.
  - exact Hunc.
  - exact Hpr.
  - exact Hex.
  - unfold get_block. rewrite Hhd.
    destruct (Nat.ltb_spec 0 h) as [_|?]; [|lia]. cbn [andb].
    destruct (Nat.ltb_spec h (pnumber s)) as [L|L].
    + rewrite (fz_nth s h I) by (unfold pnumber in L; lia). rewrite N.eqb_refl. reflexivity.
    + unfold assemble. rewrite Hunc, Hpr, Hbody, Hex. f_equal. apply blk_eta.
  - unfold get_packed_block. rewrite Hf.
    destruct (Nat.ltb_spec h (pnumber s)) as [L|L]; [reflexivity|].
    rewrite Hhd, Hunc, Hpr, Hex.
    destruct (pi_rows s I h Hh) as [(Hb & _)|(Hs & _)].
    + rewrite Hb. f_equal. apply blk_eta.
    + pose proof (pi_sync s I). unfold pnumber in L. lia.
Qed.


(* ---- side-chain blocks ------------------------------------------------------ *)
(* a stored block that is not on the main chain (a sibling at any height, frozen or not) *)
Definition side_stored (s : pstore) (n : nat) (sb : blk) : Prop :=
  p_hdr s (b_id sb) = Some (n, b_hdr sb) /\ rows_present s sb.
Definition not_main (id : N) : Prop := forall h, 0 < h <= tip -> id <> b_id (main h).

Lemma side_not_frozen s n sb : PInv s -> not_main (b_id sb) -> p_hdr s (b_id sb) = Some (n, b_hdr sb) ->
  get_frozen_block s (b_id sb) = None.
Proof.
  intros I Hnm Hh. unfold get_frozen_block, frozen_at. rewrite Hh.
  destruct (Nat.ltb 0 n && Nat.ltb n (pnumber s)); [|reflexivity].
  destruct (nth_error (p_fz s) (n - 1)) as [b|] eqn:E; [|reflexivity]. cbn [same_id].
  pose proof (pi_fz s I _ _ E) as ->.
  assert (Hl : n - 1 < length (p_fz s)) by (apply nth_error_Some; rewrite E; discriminate).
  pose proof (pi_len s I).
  destruct (N.eqb_spec (b_id (main (S (n - 1)))) (b_id sb)) as [Eq|]; [|reflexivity].
  exfalso. apply (Hnm (S (n - 1))); [lia|]. symmetry. exact Eq.
Qed.

(* every getter answers a stored side-chain block with that block's own parts, wherever the freezer's
   number stands: the block the freezer holds at the same height is another block *)
Theorem side_getters_spec s n sb : PInv s -> not_main (b_id sb) -> b_body sb <> [] -> side_stored s n sb ->
  let id := b_id sb in
  get_header s id = Some (b_hdr sb) /\
  get_body s id = b_body sb /\
  get_cellbase s id = hd_error (b_body sb) /\
  get_uncles s id = Some (b_uncles sb) /\
  get_props s id = Some (b_props sb) /\
  get_ext s id = b_ext sb /\
  get_block s id = Some sb /\
  get_packed_block s id = Some sb.
Proof.
  intros I Hnm Hcb (Hh & Hb & Hu & Hp & He) id. subst id.
  pose proof (side_not_frozen s n sb I Hnm Hh) as Hf.
  assert (Hbody : get_body s (b_id sb) = b_body sb).
  { unfold get_body. rewrite Hb. destruct (b_body sb); [contradiction|reflexivity]. }
  assert (Hunc : get_uncles s (b_id sb) = Some (b_uncles sb)) by (unfold get_uncles; rewrite Hu; reflexivity).
  assert (Hpr : get_props s (b_id sb) = Some (b_props sb)) by (unfold get_props; rewrite Hp; reflexivity).
  assert (Hex : get_ext s (b_id sb) = b_ext sb).
  { unfold get_ext. rewrite He, Hf. destruct (b_ext sb); reflexivity. }
  assert (Hasm : assemble s (b_id sb) (b_hdr sb) = Some sb).
  { unfold assemble. rewrite Hunc, Hpr, Hbody, Hex. f_equal. apply blk_eta. }
  repeat match goal with |- _ /\ _ => split end.
  - unfold get_header. rewrite Hh. reflexivity.
  - exact Hbody.
  - unfold get_cellbase. rewrite Hb. destruct (b_body sb); [contradiction|reflexivity].
  - exact Hunc.
  - exact Hpr.
  - exact Hex.
  - unfold get_block. rewrite Hh.
    destruct (Nat.ltb 0 n && Nat.ltb n (pnumber s)) eqn:Cond; [|exact Hasm].
    destruct (nth_error (p_fz s) (n - 1)) as [b|] eqn:E.
    + pose proof (pi_fz s I _ _ E) as ->.
      assert (Hl : n - 1 < length (p_fz s)) by (apply nth_error_Some; rewrite E; discriminate).
      pose proof (pi_len s I).
      destruct (N.eqb_spec (b_id (main (S (n - 1)))) (b_id sb)) as [Eq|]; [|exact Hasm].
      exfalso. apply (Hnm (S (n - 1))); [lia|]. symmetry. exact Eq.
    + (* the freezer has no item at a number below its own: impossible *)
      exfalso. apply nth_error_None in E.
      apply andb_true_iff in Cond as [C0 C1]. apply Nat.ltb_lt in C0. apply Nat.ltb_lt in C1.
      unfold pnumber in C1. lia.
  - unfold get_packed_block. rewrite Hf, Hh, Hunc, Hpr, Hex, Hb. f_equal. apply blk_eta.
Qed.

(* ---- preservation --------------------------------------------------------- *)
Lemma del_other {A} (f : N -> option A) id i : i <> id -> del f id i = f i.
Proof. intros H. unfold del. destruct (N.eqb_spec i id); [contradiction|reflexivity]. Qed.
Lemma del_same {A} (f : N -> option A) id : del f id id = None.
Proof. unfold del. rewrite N.eqb_refl. reflexivity. Qed.
Lemma del_body_other f id i : i <> id -> del_body f id i = f i.
Proof. intros H. unfold del_body. destruct (N.eqb_spec i id); [contradiction|reflexivity]. Qed.
Lemma del_body_same f id : del_body f id id = [].
Proof. unfold del_body. rewrite N.eqb_refl. reflexivity. Qed.
Lemma del_nh_true f n id m i : del_nh f n id m i = true -> f m i = true.
Proof. unfold del_nh. destruct (Nat.eqb m n && N.eqb i id); [discriminate|auto]. Qed.

(* deleting the parts of a durably frozen main-chain block *)
Lemma delete_body_main_inv s n : PInv s -> 0 < n <= tip -> n <= p_synced s ->
  PInv (delete_block_body s n (b_id (main n))).
Proof.
  intros I Hn Hs. destruct I as [Hi Ha Hh Hf Hl Hsy Hr Hre Hok Hnh].
  split; cbn [delete_block_body p_index p_hdr p_body p_uncles p_props p_ext p_numhash p_fz p_synced p_ret p_ok]; try assumption.
  - intros h Hh'. destruct (Nat.eq_dec h n) as [->|Hne].
    + right. split; [exact Hs|]. unfold rows_absent. cbn.
      rewrite del_body_same, !del_same. auto.
    + assert (Hid : b_id (main h) <> b_id (main n)) by (intros E; apply Hne; apply main_inj; assumption).
      destruct (Hr h Hh') as [(A & B & C & D)|(S1 & A & B & C & D)]; [left|right; split; [exact S1|]];
        unfold rows_present, rows_absent; cbn; rewrite del_body_other, !del_other by exact Hid; auto.
  - intros m id h Hm. apply Hnh. apply del_nh_true in Hm. exact Hm.
Qed.

(* deleting a block that is not on the main chain *)
Lemma delete_side_inv s n id : PInv s -> (forall h, 0 < h <= tip -> id <> b_id (main h)) ->
  PInv (delete_block s n id).
Proof.
  intros I Hside. destruct I as [Hi Ha Hh Hf Hl Hsy Hr Hre Hok Hnh].
  split; cbn [delete_block delete_block_body p_index p_hdr p_body p_uncles p_props p_ext p_numhash p_fz p_synced p_ret p_ok]; try assumption.
  - intros h Hh'. rewrite del_other by (intros E; apply (Hside h Hh'); symmetry; exact E). apply Hh; exact Hh'.
  - intros h Hh'. assert (Hid : b_id (main h) <> id) by (intros E; apply (Hside h Hh'); symmetry; exact E).
    destruct (Hr h Hh') as [(A & B & C & D)|(S1 & A & B & C & D)]; [left|right; split; [exact S1|]];
      unfold rows_present, rows_absent; cbn; rewrite del_body_other, !del_other by exact Hid; auto.
  - intros m i h Hm. apply Hnh. apply del_nh_true in Hm. exact Hm.
Qed.

Lemma delete_body_fields s n id :
  p_ret (delete_block_body s n id) = p_ret s /\ p_ok (delete_block_body s n id) = p_ok s /\
  p_synced (delete_block_body s n id) = p_synced s /\ p_fz (delete_block_body s n id) = p_fz s.
Proof. repeat split. Qed.

Lemma wipe_main_fold l : forall s,
  PInv s -> (forall n id, In (n, id) l -> 0 < n <= tip /\ n <= p_synced s /\ id = b_id (main n)) ->
  PInv (fold_left (fun st r => delete_block_body st (fst r) (snd r)) l s).
Proof.
  induction l as [|[n id] l IH]; intros s I Hl; cbn [fold_left]; [exact I|].
  destruct (Hl n id (or_introl eq_refl)) as (H1 & H2 & ->). cbn [fst snd].
  apply IH.
  - apply delete_body_main_inv; assumption.
  - intros m i Hm. cbn [delete_block_body p_synced]. apply Hl. right. exact Hm.
Qed.

Lemma side_ok_not_main s n id : PInv s -> side_ok s (n, id) = true -> forall h, 0 < h <= tip -> id <> b_id (main h).
Proof.
  intros I Hso h Hh E. unfold side_ok in Hso. apply andb_true_iff in Hso as [Hnh Hex].
  apply existsb_exists in Hex as ([m i] & Hin & Hc). cbn [fst snd] in Hc.
  apply andb_true_iff in Hc as [Hm Hne]. apply Nat.eqb_eq in Hm. subst m.
  destruct (pi_ret s I _ _ Hin) as [Hn ->].
  pose proof (pi_nh s I n id h Hnh Hh E) as ->.
  rewrite E, N.eqb_refl in Hne. discriminate.
Qed.

Lemma wipe_side_fold (s0 : pstore) l : forall s,
  PInv s -> (forall e, side_ok s0 e = true -> forall h, 0 < h <= tip -> snd e <> b_id (main h)) ->
  PInv (fold_left (fun st e => if side_ok s0 e then delete_block st (fst e) (snd e) else st) l s).
Proof.
  induction l as [|e l IH]; intros s I Hs0; cbn [fold_left]; [exact I|].
  apply IH; [|exact Hs0].
  destruct (side_ok s0 e) eqn:E; [|exact I].
  apply delete_side_inv; [exact I|]. apply Hs0. exact E.
Qed.

Lemma pstep_inv s o : PInv s -> PInv (pstep_run s o).
Proof.
  intros I. destruct o as [| | | |side|k]; cbn [pstep_run].
  - (* begin *)
    destruct I as [Hi Ha Hh Hf Hl Hsy Hr Hre Hok Hnh].
    split; cbn [p_index p_hdr p_body p_uncles p_props p_ext p_numhash p_fz p_synced p_ret p_ok]; try assumption.
    + intros n id [].
    + intros _ n id [].
  - (* append *)
    destruct (p_ok s) eqn:Eok; [exact I|].
    destruct (p_index s (pnumber s)) as [id|] eqn:Ei; [|exact I].
    destruct (get_unfrozen_block s id) as [b|] eqn:Eb; [|exact I].
    destruct (Nat.le_gt_cases (pnumber s) tip) as [Hle|Hgt];
      [|rewrite (pi_above s I _ Hgt) in Ei; discriminate].
    assert (Hn : 0 < pnumber s <= tip) by (unfold pnumber in *; lia).
    rewrite (pi_index s I _ Hn) in Ei. injection Ei as <-.
    assert (Hb : b = main (pnumber s)).
    { unfold get_unfrozen_block in Eb. rewrite (pi_hdr s I _ Hn) in Eb.
      destruct (pi_rows s I _ Hn) as [(A & B & C & D)|(S1 & _)].
      - rewrite A, B, C, D in Eb. injection Eb as <-. apply blk_eta.
      - pose proof (pi_sync s I). unfold pnumber in S1. lia. }
    subst b. destruct I as [Hi Ha Hh Hf Hl Hsy Hr Hre Hok Hnh].
    split; cbn [p_index p_hdr p_body p_uncles p_props p_ext p_numhash p_fz p_synced p_ret p_ok]; try assumption.
    + intros i b Hi'. destruct (Nat.lt_ge_cases i (length (p_fz s))) as [L|L].
      * rewrite nth_error_app1 in Hi' by exact L. apply Hf. exact Hi'.
      * rewrite nth_error_app2 in Hi' by exact L.
        destruct (i - length (p_fz s)) as [|j] eqn:Ej; cbn in Hi'; [|destruct j; discriminate].
        injection Hi' as <-. f_equal. unfold pnumber. lia.
    + rewrite app_length. cbn. unfold pnumber in Hn. lia.
    + rewrite app_length. lia.
    + intros n id [E|Hin].
      * injection E as <- <-. rewrite app_length. cbn. unfold pnumber. split; [lia|reflexivity].
      * destruct (Hre n id Hin) as [H1 H2]. rewrite app_length. split; [lia|exact H2].
    + discriminate.
  - (* sync *)
    destruct I as [Hi Ha Hh Hf Hl Hsy Hr Hre Hok Hnh].
    split; cbn [p_index p_hdr p_body p_uncles p_props p_ext p_numhash p_fz p_synced p_ret p_ok]; try assumption; try lia.
    + intros h Hh'. destruct (Hr h Hh') as [P|(S1 & A)]; [left; exact P|right; split; [lia|exact A]].
    + intros _ n id Hin. apply Hre in Hin. lia.
  - (* wipe, first batch *)
    destruct (p_ok s) eqn:Eok; [|exact I].
    apply wipe_main_fold; [exact I|].
    intros n id Hin. destruct (pi_ret s I n id Hin) as [H1 H2].
    pose proof (pi_ok s I Eok n id Hin). pose proof (pi_len s I). repeat split; try lia; try exact H2.
  - (* wipe, second batch *)
    destruct (p_ok s) eqn:Eok; [|exact I].
    apply wipe_side_fold; [exact I|].
    intros [n id] Hso. cbn [snd]. apply (side_ok_not_main s n id I Hso).
  - (* crash *)
    destruct I as [Hi Ha Hh Hf Hl Hsy Hr Hre Hok Hnh].
    split; cbn [p_index p_hdr p_body p_uncles p_props p_ext p_numhash p_fz p_synced p_ret p_ok]; try assumption.
    + intros i b Hi'.
      assert (Hlt : i < Nat.min (length (p_fz s)) (Nat.max k (p_synced s))).
      { assert (Hn : nth_error (firstn (Nat.min (length (p_fz s)) (Nat.max k (p_synced s))) (p_fz s)) i <> None) by congruence.
        apply nth_error_Some in Hn. rewrite firstn_length in Hn. lia. }
      apply Hf. rewrite <- Hi'. symmetry. apply nth_error_firstn_lt. exact Hlt.
    + rewrite firstn_length. lia.
    + rewrite firstn_length. lia.
    + intros n id [].
    + intros _ n id [].
Qed.

Lemma prun_inv ops : forall s, PInv s -> PInv (prun s ops).
Proof.
  unfold prun. induction ops as [|o ops IH]; intros s H; cbn [fold_left]; [exact H|].
  apply IH. apply pstep_inv. exact H.
Qed.

(* a store in which nothing has been frozen yet: every main-chain block has its
   rows, the NUMBER_HASH rows of main-chain blocks sit under their own number *)
Definition pinitial (s : pstore) : Prop :=
  p_fz s = [] /\ p_synced s = 0 /\ p_ret s = [] /\ p_ok s = false /\
  (forall h, 0 < h <= tip -> p_index s h = Some (b_id (main h)) /\ p_hdr s (b_id (main h)) = Some (h, b_hdr (main h)) /\
                              rows_present s (main h)) /\
  (forall h, tip < h -> p_index s h = None) /\
  (forall n id h, p_numhash s n id = true -> 0 < h <= tip -> id = b_id (main h) -> n = h).

Lemma pinitial_inv s : pinitial s -> PInv s.
Proof.
  intros (Hf & Hs & Hr & Ho & Hm & Ha & Hn). split.
  - intros h Hh. apply (Hm h Hh).
  - exact Ha.
  - intros h Hh. apply (Hm h Hh).
  - rewrite Hf. intros i b H. destruct i; discriminate.
  - rewrite Hf. cbn. lia.
  - rewrite Hs. lia.
  - intros h Hh. left. apply (Hm h Hh).
  - rewrite Hr. intros n id [].
  - rewrite Hr. intros _ n id [].
  - exact Hn.
Qed.

Theorem parts_read_invariant s ops h : pinitial s -> 0 < h <= tip ->
  let s' := prun s ops in let id := b_id (main h) in
  get_header s' id = Some (b_hdr (main h)) /\
  get_body s' id = b_body (main h) /\
  get_txs_hashes s' id = b_body (main h) /\
  get_cellbase s' id = hd_error (b_body (main h)) /\
  get_uncles s' id = Some (b_uncles (main h)) /\
  get_props s' id = Some (b_props (main h)) /\
  get_ext s' id = b_ext (main h) /\
  get_block s' id = Some (main h) /\
  get_packed_block s' id = Some (main h).
Proof.
  intros Hi Hh. apply getters_spec; [|exact Hh]. apply prun_inv. apply pinitial_inv. exact Hi.
Qed.


(* ---- side-chain blocks through the passes ------------------------------------ *)
(* a stored side-chain block stays stored with all its rows, or is removed as a whole (header too) *)
Definition side_state (s : pstore) (n : nat) (sb : blk) : Prop :=
  side_stored s n sb \/ p_hdr s (b_id sb) = None.

Lemma delete_body_side s m id n sb : b_id sb <> id -> side_state s n sb -> side_state (delete_block_body s m id) n sb.
Proof.
  intros Hne [(Hh & Hb & Hu & Hp & He)|Hg]; [left|right; exact Hg].
  split; [exact Hh|]. unfold rows_present. cbn [delete_block_body p_body p_uncles p_props p_ext].
  rewrite del_body_other, !del_other by exact Hne. auto.
Qed.

Lemma delete_block_side s m id n sb : side_state s n sb -> side_state (delete_block s m id) n sb.
Proof.
  intros H. destruct (N.eq_dec (b_id sb) id) as [E|Hne].
  - right. cbn [delete_block p_hdr]. subst id. apply del_same.
  - destruct H as [(Hh & Hb & Hu & Hp & He)|Hg].
    + left. split.
      * cbn [delete_block p_hdr delete_block_body]. rewrite del_other by exact Hne. exact Hh.
      * unfold rows_present. cbn [delete_block delete_block_body p_body p_uncles p_props p_ext].
        rewrite del_body_other, !del_other by exact Hne. auto.
    + right. cbn [delete_block p_hdr delete_block_body]. rewrite del_other by exact Hne. exact Hg.
Qed.

Lemma wipe_main_side n sb l : forall s,
  (forall r, In r l -> b_id sb <> snd r) -> side_state s n sb ->
  side_state (fold_left (fun st r => delete_block_body st (fst r) (snd r)) l s) n sb.
Proof.
  induction l as [|r l IH]; intros s Hl H; cbn [fold_left]; [exact H|].
  apply IH; [intros r' Hr'; apply Hl; right; exact Hr'|].
  apply delete_body_side; [apply Hl; left; reflexivity|exact H].
Qed.

Lemma wipe_side_side (s0 : pstore) n sb l : forall s,
  side_state s n sb ->
  side_state (fold_left (fun st e => if side_ok s0 e then delete_block st (fst e) (snd e) else st) l s) n sb.
Proof.
  induction l as [|e l IH]; intros s H; cbn [fold_left]; [exact H|].
  apply IH. destruct (side_ok s0 e); [apply delete_block_side; exact H|exact H].
Qed.

Lemma pstep_side s o n sb : PInv s -> not_main (b_id sb) -> side_state s n sb -> side_state (pstep_run s o) n sb.
Proof.
  intros I Hnm H. destruct o as [| | | |side|k]; cbn [pstep_run].
  - exact H.
  - destruct (p_ok s); [exact H|]. destruct (p_index s (pnumber s)); [|exact H].
    destruct (get_unfrozen_block s n0); exact H.
  - exact H.
  - destruct (p_ok s); [|exact H]. apply wipe_main_side; [|exact H].
    intros [m id] Hin. cbn [snd]. destruct (pi_ret s I m id Hin) as [Hm ->].
    pose proof (pi_len s I). apply Hnm. lia.
  - destruct (p_ok s); [|exact H]. apply wipe_side_side. exact H.
  - exact H.
Qed.

Lemma prun_side ops n sb : forall s, PInv s -> not_main (b_id sb) -> side_state s n sb -> side_state (prun s ops) n sb.
Proof.
  unfold prun. induction ops as [|o ops IH]; intros s I Hnm H; cbn [fold_left]; [exact H|].
  apply IH; [apply pstep_inv; exact I|exact Hnm|apply pstep_side; assumption].
Qed.

(* C10 for side-chain blocks: at every point of any sequence of passes and crashes a side-chain block
   that was stored is either removed as a whole or every getter still answers it with its own parts —
   never with the main-chain block the freezer holds at the same height *)
Theorem side_read_invariant s ops n sb : pinitial s -> not_main (b_id sb) -> b_body sb <> [] -> side_stored s n sb ->
  let s' := prun s ops in let id := b_id sb in
  get_header s' id = None \/
  (get_header s' id = Some (b_hdr sb) /\
   get_body s' id = b_body sb /\
   get_cellbase s' id = hd_error (b_body sb) /\
   get_uncles s' id = Some (b_uncles sb) /\
   get_props s' id = Some (b_props sb) /\
   get_ext s' id = b_ext sb /\
   get_block s' id = Some sb /\
   get_packed_block s' id = Some sb).
Proof.
  intros Hi Hnm Hcb Hst s' id. subst s' id.
  pose proof (prun_inv ops s (pinitial_inv s Hi)) as I.
  destruct (prun_side ops n sb s (pinitial_inv s Hi) Hnm (or_introl Hst)) as [Hs|Hg].
  - right. exact (side_getters_spec (prun s ops) n sb I Hnm Hcb Hs).
  - left. unfold get_header. rewrite Hg. reflexivity.
Qed.

(* ---- what is removed ------------------------------------------------------- *)
Lemma fold_body_uncles l : forall s id,
  p_uncles (fold_left (fun st r => delete_block_body st (fst r) (snd r)) l s) id = None ->
  p_uncles s id = None \/ In id (map snd l).
Proof.
  induction l as [|[n i] l IH]; intros s id H; cbn [fold_left] in H; [left; exact H|].
  apply IH in H as [H|H]; [|right; right; exact H].
  cbn [fst snd delete_block_body p_uncles] in H. unfold del in H.
  destruct (N.eqb_spec id i) as [E|E]; [subst i; right; left; reflexivity|left; exact H].
Qed.

Lemma fold_side_uncles s0 l : forall s id,
  p_uncles (fold_left (fun st e => if side_ok s0 e then delete_block st (fst e) (snd e) else st) l s) id = None ->
  p_uncles s id = None \/ exists n, side_ok s0 (n, id) = true.
Proof.
  induction l as [|[n i] l IH]; intros s id H; cbn [fold_left] in H; [left; exact H|].
  apply IH in H as [H|H]; [|right; exact H].
  destruct (side_ok s0 (n, i)) eqn:E; [|left; exact H].
  cbn [fst snd delete_block delete_block_body p_uncles] in H. unfold del in H.
  destruct (N.eqb_spec id i) as [E'|E']; [subst i; right; exists n; exact E|left; exact H].
Qed.

(* Every stored block has an uncles row; whenever a step removes one, the block
   is either a main-chain block that is durably in the freezer (and still reads
   the same, by the theorem above) or a block that is not on the main chain and
   is stored under a number this pass has frozen. *)
Theorem only_frozen_or_side_removed s o id : PInv s ->
  p_uncles s id <> None -> p_uncles (pstep_run s o) id = None ->
  (exists h, 0 < h <= p_synced s /\ id = b_id (main h) /\ nth_error (p_fz s) (h - 1) = Some (main h)) \/
  ((forall h, 0 < h <= tip -> id <> b_id (main h)) /\
   exists n, p_numhash s n id = true /\ In n (map fst (p_ret s)) /\ n <= p_synced s).
Proof.
  intros I Hsome Hnone. destruct o as [| | | |side|k]; cbn [pstep_run] in Hnone;
    try (cbn [p_uncles] in Hnone; contradiction).
  - destruct (p_ok s); [contradiction|].
    destruct (p_index s (pnumber s)); [|contradiction].
    destruct (get_unfrozen_block s n); cbn [p_uncles] in Hnone; contradiction.
  - destruct (p_ok s) eqn:Eok; [|contradiction].
    apply fold_body_uncles in Hnone as [H|H]; [contradiction|].
    apply in_map_iff in H as ([n i] & <- & Hin). cbn [snd].
    destruct (pi_ret s I n i Hin) as [Hn ->]. pose proof (pi_ok s I Eok n _ Hin) as Hs.
    left. exists n. split; [lia|]. split; [reflexivity|]. apply fz_nth; [exact I|lia].
  - destruct (p_ok s) eqn:Eok; [|contradiction].
    apply fold_side_uncles in Hnone as [H|(n & Hso)]; [contradiction|].
    right. split; [exact (side_ok_not_main s n id I Hso)|].
    unfold side_ok in Hso. apply andb_true_iff in Hso as [Hnh Hex].
    apply existsb_exists in Hex as ([m i] & Hin & Hc). cbn [fst snd] in Hc.
    apply andb_true_iff in Hc as [Hm _]. apply Nat.eqb_eq in Hm. subst m.
    exists n. split; [exact Hnh|]. split.
    + apply in_map_iff. exists (n, i). split; [reflexivity|exact Hin].
    + exact (pi_ok s I Eok n i Hin).
Qed.

(* headers of main-chain blocks are never removed *)
Theorem main_headers_stay s ops h : pinitial s -> 0 < h <= tip ->
  p_hdr (prun s ops) (b_id (main h)) = Some (h, b_hdr (main h)).
Proof. intros Hi Hh. apply pi_hdr; [|exact Hh]. apply prun_inv. apply pinitial_inv. exact Hi. Qed.
End Parts.

(* ---- an executable example, and the getters before the repair --------------- *)
Definition ex_main (h : nat) : blk :=
  mkBlk (N.of_nat (100 + h)) (N.of_nat (200 + h)) [N.of_nat (300 + h); N.of_nat (400 + h)] (N.of_nat (500 + h)) (N.of_nat (600 + h))
        (if Nat.even h then Some (N.of_nat (700 + h)) else None).
Definition ex_side : blk := mkBlk 999 888 [777%N] 666 555 None.      (* a sibling of the block at height 2 *)
Definition ex_s0 : pstore :=
  let stored id := if N.eqb id 999 then Some (2, ex_side)
                   else if N.leb 101 id && N.leb id 105 then Some (N.to_nat id - 100, ex_main (N.to_nat id - 100)) else None in
  mkPS (fun h => if Nat.leb 1 h && Nat.leb h 5 then Some (b_id (ex_main h)) else None)
       (fun id => option_map (fun e => (fst e, b_hdr (snd e))) (stored id))
       (fun id => match stored id with Some e => b_body (snd e) | None => [] end)
       (fun id => option_map (fun e => b_uncles (snd e)) (stored id))
       (fun id => option_map (fun e => b_props (snd e)) (stored id))
       (fun id => match stored id with Some e => b_ext (snd e) | None => None end)
       (fun n id => match stored id with Some e => Nat.eqb (fst e) n | None => false end)
       [] 0 [] false.
Definition ex_ops : list pstep :=
  [PBegin; PAppend; PAppend; PCrash 1; PBegin; PAppend; PAppend; PSync; PWipeMain; PCrash 0;
   PBegin; PAppend; PSync; PWipeMain; PWipeSide [(2, 999%N); (4, 104%N)]].

Lemma ex_parts :
  let s := prun ex_s0 ex_ops in
  map (fun h => get_block s (b_id (ex_main h))) [1; 2; 3; 4; 5] = map (fun h => Some (ex_main h)) [1; 2; 3; 4; 5] /\
  map (fun h => get_uncles s (b_id (ex_main h))) [1; 2; 3; 4; 5] = map (fun h => Some (b_uncles (ex_main h))) [1; 2; 3; 4; 5] /\
  map (fun h => get_ext s (b_id (ex_main h))) [1; 2; 3; 4; 5] = map (fun h => b_ext (ex_main h)) [1; 2; 3; 4; 5] /\
  length (p_fz s) = 4 /\ map (fun h => p_uncles s (b_id (ex_main h))) [1; 2; 3; 4; 5] = [Some 501%N; None; None; None; Some 505%N] /\
  p_hdr s 999 = Some (2, 888%N).
Proof. vm_compute. repeat split. Qed.

(* the second pass (heights 2 and 3) deletes the stored sibling of block 2 *)
Lemma ex_parts_side :
  let s := prun ex_s0 [PBegin; PAppend; PAppend; PAppend; PSync; PWipeMain; PWipeSide [(2, 999%N); (4, 104%N)]] in
  p_hdr s 999 = None /\ p_uncles s 999 = None /\
  map (fun h => get_block s (b_id (ex_main h))) [1; 2; 3; 4; 5] = map (fun h => Some (ex_main h)) [1; 2; 3; 4; 5].
Proof. vm_compute. repeat split. Qed.

(* with the getters as they were before the repair 71875e4 the statement is false *)
Lemma parts_old_refuted :
  let s := prun ex_s0 [PBegin; PAppend; PAppend; PSync; PWipeMain] in
  get_uncles_old s (b_id (ex_main 1)) <> Some (b_uncles (ex_main 1)) /\
  get_body_old s (b_id (ex_main 1)) <> b_body (ex_main 1) /\
  get_props_old s (b_id (ex_main 2)) <> Some (b_props (ex_main 2)) /\
  get_ext_old s (b_id (ex_main 2)) <> b_ext (ex_main 2).
Proof. vm_compute. repeat split; discriminate. Qed.

Lemma ex_pinitial : pinitial ex_main 5 ex_s0.
Proof.
  unfold pinitial. repeat split; try reflexivity.
  - destruct H as [H1 H2]. do 6 (destruct h as [|h]; [try lia; try reflexivity|]). lia.
  - destruct H as [H1 H2]. do 6 (destruct h as [|h]; [try lia; try reflexivity|]). lia.
  - destruct H as [H1 H2]. do 6 (destruct h as [|h]; [try lia; try reflexivity|]). lia.
  - destruct H as [H1 H2]. do 6 (destruct h as [|h]; [try lia; try reflexivity|]). lia.
  - destruct H as [H1 H2]. do 6 (destruct h as [|h]; [try lia; try reflexivity|]). lia.
  - destruct H as [H1 H2]. do 6 (destruct h as [|h]; [try lia; try reflexivity|]). lia.
  - intros h Hh. do 6 (destruct h as [|h]; [try lia|]). reflexivity.
  - intros n id h Hnh Hh ->. destruct Hh as [H1 H2].
    do 6 (destruct h as [|h]; [try lia; cbn in Hnh; apply Nat.eqb_eq in Hnh; symmetry; exact Hnh|]). lia.
Qed.

(* a crash between the first and the second wipe-out batch leaves the sibling of block 2 stored for good
   (the next pass looks only under the numbers it froze itself, ex_parts above); it still reads as itself *)
Lemma ex_side_after_crash :
  let s := prun ex_s0 ex_ops in
  p_hdr s 999 = Some (2, 888%N) /\ length (p_fz s) = 4 /\
  get_block s 999 = Some ex_side /\ get_packed_block s 999 = Some ex_side /\ get_ext s 999 = None /\
  get_uncles s 999 = Some 666%N.
Proof. vm_compute. repeat split. Qed.

(* with the freezer consulted by number alone (get_block / get_frozen_block before the repair) the
   same reads answer with main-chain block 2 *)
Lemma bynum_refuted :
  let s := prun ex_s0 ex_ops in
  get_block_bynum s 999 = Some (ex_main 2) /\ get_block_bynum s 999 <> Some ex_side /\
  get_frozen_block_bynum s 999 = Some (ex_main 2) /\
  (* the extension fallback of a side-chain block without extension picks up block 2's *)
  orelse (p_ext s 999) (match get_frozen_block_bynum s 999 with Some b => b_ext b | None => None end) = Some 702%N.
Proof. vm_compute. repeat split. discriminate. Qed.

Lemma ex_side_stored : side_stored ex_s0 2 ex_side /\ not_main ex_main 5 (b_id ex_side) /\ b_body ex_side <> [].
Proof.
  repeat split; try reflexivity.
  - intros h [H1 H2]. do 6 (destruct h as [|h]; [try lia; cbn; discriminate|]). lia.
  - discriminate.
Qed.
