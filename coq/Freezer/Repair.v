(* Freezer/Repair.v — representation invariant of the freezer files and the
   proofs that append / truncate / retrieve / reopen / crash-repair refine an
   abstract list of items. *)
From CKB Require Import Freezer.Files Freezer.Machine.

(* ---------- slices ------------------------------------------------------ *)
Lemma slice_firstn (l : list N) a b n : b <= n -> slice (firstn n l) a b = slice l a b.
Proof.
  intros Hb. unfold slice. rewrite skipn_firstn_comm, firstn_firstn.
  f_equal. lia.
Qed.

Lemma slice_app_l (l x : list N) a b : b <= length l -> slice (l ++ x) a b = slice l a b.
Proof.
  intros Hb. rewrite <- (slice_firstn (l ++ x) a b (length l)) by exact Hb.
  rewrite firstn_app, Nat.sub_diag, firstn_all. cbn [firstn]. rewrite app_nil_r. reflexivity.
Qed.

Lemma slice_app_new (l x : list N) : slice (l ++ x) (length l) (length l + length x) = x.
Proof.
  unfold slice. rewrite skipn_app, skipn_all, Nat.sub_diag. cbn [skipn app].
  replace (length l + length x - length l) with (length x) by lia. apply firstn_all.
Qed.

Lemma slice_0 (l : list N) b : slice l 0 b = firstn b l.
Proof. unfold slice. rewrite Nat.sub_0_r. reflexivity. Qed.

Lemma slice_eq_of_firstn (l l' : list N) a b :
  firstn b l = firstn b l' -> slice l a b = slice l' a b.
Proof.
  intros H. rewrite <- (slice_firstn l a b b), <- (slice_firstn l' a b b) by lia.
  rewrite H. reflexivity.
Qed.

Lemma firstn_le_eq (l l' : list N) a b :
  a <= b -> firstn b l = firstn b l' -> firstn a l = firstn a l'.
Proof.
  intros Hab H. replace a with (Nat.min a b) by lia.
  rewrite <- !firstn_firstn. rewrite H. reflexivity.
Qed.

Lemma upd_same f v fs : upd f v fs f = v.
Proof. unfold upd. rewrite Nat.eqb_refl. reflexivity. Qed.
Lemma upd_other f g v fs : g <> f -> upd f v fs g = fs g.
Proof. unfold upd. intros H. destruct (Nat.eqb_spec g f); [contradiction|reflexivity]. Qed.

(* ---------- representation invariant ------------------------------------ *)
(* [Rep fs r xs]: the index [r] (newest entry first, sentinel last) over the
   data files [fs] stores the items [xs] (newest first).  A file that is no
   longer the newest entry's file is exactly as long as its last entry says
   (closed files are exact); junk may exist in files above the newest id. *)
Inductive Rep (fs : files_t) : list entry -> list (list N) -> Prop :=
| Rep_nil : Rep fs [sentinel] []
| Rep_same e p r x xs :
    Rep fs (p :: r) xs -> fid e = fid p -> off e = off p + length x ->
    slice (fs (fid e)) (off p) (off e) = x -> off e <= length (fs (fid e)) ->
    Rep fs (e :: p :: r) (x :: xs)
| Rep_next e p r x xs :
    Rep fs (p :: r) xs -> fid e = S (fid p) -> off e = length x ->
    length (fs (fid p)) = off p ->
    slice (fs (fid e)) 0 (off e) = x -> off e <= length (fs (fid e)) ->
    Rep fs (e :: p :: r) (x :: xs).

Definition top (r : list entry) : entry := hd sentinel r.

Lemma Rep_nonempty fs r xs : Rep fs r xs -> r <> [].
Proof. intros H; inversion H; discriminate. Qed.

Lemma Rep_length fs r xs : Rep fs r xs -> length r = S (length xs).
Proof. induction 1; cbn [length] in *; lia. Qed.

Lemma Rep_top_le fs r xs : Rep fs r xs -> off (top r) <= length (fs (fid (top r))).
Proof. intros H; inversion H; subst; cbn; lia. Qed.

Lemma Rep_ext fs fs' r xs :
  Rep fs r xs ->
  (forall f, f < fid (top r) -> fs' f = fs f) ->
  firstn (off (top r)) (fs' (fid (top r))) = firstn (off (top r)) (fs (fid (top r))) ->
  off (top r) <= length (fs' (fid (top r))) ->
  Rep fs' r xs.
Proof.
  induction 1 as [| e p r x xs HR IH Hf Ho Hs Hl | e p r x xs HR IH Hf Ho Hc Hs Hl];
    cbn [top hd] in *; intros Hlow Hpre Hlen.
  - constructor.
  - assert (Hop : off p <= off e) by lia.
    apply Rep_same; try assumption.
    + apply IH.
      * intros f Hlt. apply Hlow. lia.
      * rewrite <- Hf. eapply firstn_le_eq; eassumption.
      * rewrite <- Hf. lia.
    + rewrite <- Hs. apply slice_eq_of_firstn. exact Hpre.
  - assert (Hp : fs' (fid p) = fs (fid p)) by (apply Hlow; lia).
    apply Rep_next; try assumption.
    + apply IH.
      * intros f Hlt. apply Hlow. lia.
      * rewrite Hp. reflexivity.
      * rewrite Hp. lia.
    + rewrite Hp. exact Hc.
    + rewrite <- Hs. apply slice_eq_of_firstn. exact Hpre.
Qed.

(* file ids never increase going back in the index *)
Lemma Rep_fid_le fs r xs : Rep fs r xs -> forall e, In e r -> fid e <= fid (top r).
Proof.
  induction 1 as [| e p r x xs HR IH Hf Ho Hs Hl | e p r x xs HR IH Hf Ho Hc Hs Hl];
    cbn [top hd] in *; intros e0 Hin.
  - destruct Hin as [<-|[]]. lia.
  - destruct Hin as [<-|Hin]; [lia|]. specialize (IH _ Hin). lia.
  - destruct Hin as [<-|Hin]; [lia|]. specialize (IH _ Hin). lia.
Qed.

(* a suffix of the index represents the corresponding suffix of the items *)
Lemma Rep_skipn fs r xs m :
  Rep fs r xs -> m < length r -> Rep fs (skipn m r) (skipn m xs).
Proof.
  intros H; revert m.
  induction H as [| e p r x xs HR IH Hf Ho Hs Hl | e p r x xs HR IH Hf Ho Hc Hs Hl];
    intros m Hm.
  - destruct m; cbn in *; [constructor|lia].
  - destruct m as [|m]; [cbn; eapply Rep_same; eassumption|].
    cbn [skipn]. apply IH. cbn [length] in *. lia.
  - destruct m as [|m]; [cbn; eapply Rep_next; eassumption|].
    cbn [skipn]. apply IH. cbn [length] in *. lia.
Qed.

(* ---------- clean states ------------------------------------------------ *)
Record Clean (s : st) (xs : list (list N)) : Prop := mkClean {
  cl_rep   : Rep (files s) (ridx s) xs;
  cl_hid   : hid s = fid (top (ridx s));
  cl_open  : hopen s = hid s;
  cl_bytes : hbytes s = off (top (ridx s));
  cl_len   : length (files s (hid s)) = hbytes s
}.

Definition fresh_files : files_t := fun _ => [].

Lemma build_fresh : exists s, build [] fresh_files = Some s /\ Clean s [].
Proof.
  eexists. split; [reflexivity|]. constructor; cbn; try reflexivity. constructor.
Qed.

(* ---------- append ------------------------------------------------------ *)
Lemma append_clean max s xs x : Clean s xs -> Clean (append max s x) (x :: xs).
Proof.
  intros [HR Hh Ho Hb Hl]. unfold append. rewrite Ho.
  pose proof (Rep_nonempty _ _ _ HR) as Hne.
  destruct (ridx s) as [|p r] eqn:Er; [contradiction|]. cbn [top hd] in *.
  destruct (Nat.ltb max (hbytes s + length x)) eqn:Eroll.
  - (* rollover *)
    constructor; cbn [ridx files hid hopen hbytes top hd fid off]; try reflexivity.
    + apply Rep_next; cbn [fid off].
      * apply (Rep_ext (files s)); [exact HR | | | ]; cbn [top hd].
        -- intros f Hf. rewrite upd_other by lia. rewrite upd_other by lia. reflexivity.
        -- rewrite upd_other by lia. rewrite upd_other by lia. reflexivity.
        -- rewrite upd_other by lia. rewrite upd_other by lia. rewrite <- Hh, Hl. lia.
      * congruence.
      * lia.
      * rewrite upd_other by lia. rewrite upd_other by lia. congruence.
      * rewrite !upd_same. cbn [app]. rewrite slice_0. rewrite Nat.add_0_l. apply firstn_all.
      * rewrite !upd_same. cbn. lia.
    + rewrite !upd_same. cbn. lia.
  - (* same file *)
    constructor; cbn [ridx files hid hopen hbytes top hd fid off]; try reflexivity.
    + apply Rep_same; cbn [fid off].
      * apply (Rep_ext (files s)); [exact HR | | | ]; cbn [top hd].
        -- intros f Hf. rewrite upd_other by lia. reflexivity.
        -- rewrite <- Hh, upd_same. rewrite firstn_app.
           replace (off p - length (files s (hid s))) with 0 by lia.
           cbn [firstn]. rewrite app_nil_r. reflexivity.
        -- rewrite <- Hh, upd_same, app_length. lia.
      * exact Hh.
      * lia.
      * rewrite upd_same. rewrite Hb. replace (off p) with (length (files s (hid s))) by lia.
        apply slice_app_new.
      * rewrite upd_same, app_length. lia.
    + rewrite upd_same, app_length. lia.
Qed.

(* ---------- retrieve ---------------------------------------------------- *)
Lemma entry_at_cons r e i : i < length r -> entry_at (e :: r) i = entry_at r i.
Proof.
  intros Hi. unfold entry_at. cbn [rev]. rewrite nth_error_app1; [reflexivity|].
  rewrite rev_length. exact Hi.
Qed.

Lemma entry_at_top r e : entry_at (e :: r) (length r) = Some e.
Proof.
  unfold entry_at. cbn [rev]. rewrite nth_error_app2 by (rewrite rev_length; lia).
  rewrite rev_length, Nat.sub_diag. reflexivity.
Qed.

(* the i-th item counted from the oldest (1-based) *)
Definition item_at (xs : list (list N)) (i : nat) : option (list N) :=
  nth_error (rev xs) (i - 1).

Lemma item_at_cons xs x i : 1 <= i <= length xs -> item_at (x :: xs) i = item_at xs i.
Proof.
  intros Hi. unfold item_at. cbn [rev]. rewrite nth_error_app1; [reflexivity|].
  rewrite rev_length. lia.
Qed.

Lemma item_at_top xs x : item_at (x :: xs) (S (length xs)) = Some x.
Proof.
  unfold item_at. cbn [rev]. rewrite nth_error_app2 by (rewrite rev_length; lia).
  rewrite rev_length. replace (S (length xs) - 1 - length xs) with 0 by lia. reflexivity.
Qed.

(* what get_bounds + the read computes, as a function of index and files only *)
Definition read_item (fs : files_t) (r : list entry) (i : nat) : option (option (list N)) :=
  retrieve (mkSt r fs 0 0 0) i.

Lemma retrieve_read_item s i : retrieve s i = read_item (files s) (ridx s) i.
Proof. reflexivity. Qed.

Lemma Rep_read fs r xs :
  Rep fs r xs -> forall i, 1 <= i <= length xs ->
  exists x, item_at xs i = Some x /\ read_item fs r i = Some (Some x).
Proof.
  induction 1 as [| e p r x xs HR IH Hf Ho Hs Hl | e p r x xs HR IH Hf Ho Hc Hs Hl];
    intros i Hi; cbn [length] in Hi.
  - lia.
  - pose proof (Rep_length _ _ _ HR) as HL. cbn [length] in HL.
    destruct (Nat.eq_dec i (S (length xs))) as [->|Hne].
    + exists x. split; [apply item_at_top|].
      unfold read_item, retrieve, number, get_bounds. cbn [ridx files length].
      destruct (Nat.ltb_spec (S (length xs)) 1); [lia|].
      destruct (Nat.leb_spec (S (S (length r))) (S (length xs))); [lia|].
      replace (S (length xs)) with (length (p :: r)) by (cbn [length]; lia).
      rewrite entry_at_top.
      destruct (Nat.eqb_spec (length (p :: r)) 1) as [E1|E1].
      * (* first item: p is the sentinel position *)
        cbn [length] in E1. assert (r = []) by (destruct r; [reflexivity|cbn in E1; lia]). subst r.
        assert (Hp0 : off p = 0) by (inversion HR; reflexivity).
        destruct (Nat.leb_spec (off e) (length (fs (fid e)))); [|lia].
        rewrite <- Hs, Hp0. reflexivity.
      * replace (length (p :: r) - 1) with (length r) by (cbn [length]; lia).
        rewrite entry_at_cons by (cbn [length]; lia). rewrite entry_at_top.
        destruct (Nat.eqb_spec (fid p) (fid e)); [|congruence].
        destruct (Nat.leb_spec (off e) (length (fs (fid e)))); [|lia].
        rewrite Hs. reflexivity.
    + destruct (IH i ltac:(lia)) as [y [Hy Hr]].
      exists y. split; [rewrite item_at_cons by lia; exact Hy|].
      revert Hr. unfold read_item, retrieve, number, get_bounds. cbn [ridx files length].
      destruct (Nat.ltb_spec i 1); [lia|].
      destruct (Nat.leb_spec (S (length r)) i); [lia|].
      destruct (Nat.leb_spec (S (S (length r))) i); [lia|].
      rewrite (entry_at_cons (p :: r) e i) by (cbn [length]; lia).
      destruct (Nat.eqb_spec i 1); [tauto|].
      rewrite (entry_at_cons (p :: r) e (i - 1)) by (cbn [length]; lia). tauto.
  - pose proof (Rep_length _ _ _ HR) as HL. cbn [length] in HL.
    destruct (Nat.eq_dec i (S (length xs))) as [->|Hne].
    + exists x. split; [apply item_at_top|].
      unfold read_item, retrieve, number, get_bounds. cbn [ridx files length].
      destruct (Nat.ltb_spec (S (length xs)) 1); [lia|].
      destruct (Nat.leb_spec (S (S (length r))) (S (length xs))); [lia|].
      replace (S (length xs)) with (length (p :: r)) by (cbn [length]; lia).
      rewrite entry_at_top.
      destruct (Nat.eqb_spec (length (p :: r)) 1) as [E1|E1].
      * destruct (Nat.leb_spec (off e) (length (fs (fid e)))); [|lia].
        rewrite <- Hs. reflexivity.
      * replace (length (p :: r) - 1) with (length r) by (cbn [length]; lia).
        rewrite entry_at_cons by (cbn [length]; lia). rewrite entry_at_top.
        destruct (Nat.eqb_spec (fid p) (fid e)); [lia|].
        destruct (Nat.leb_spec (off e) (length (fs (fid e)))); [|lia].
        rewrite Hs. reflexivity.
    + destruct (IH i ltac:(lia)) as [y [Hy Hr]].
      exists y. split; [rewrite item_at_cons by lia; exact Hy|].
      revert Hr. unfold read_item, retrieve, number, get_bounds. cbn [ridx files length].
      destruct (Nat.ltb_spec i 1); [lia|].
      destruct (Nat.leb_spec (S (length r)) i); [lia|].
      destruct (Nat.leb_spec (S (S (length r))) i); [lia|].
      rewrite (entry_at_cons (p :: r) e i) by (cbn [length]; lia).
      destruct (Nat.eqb_spec i 1); [tauto|].
      rewrite (entry_at_cons (p :: r) e (i - 1)) by (cbn [length]; lia). tauto.
Qed.

Lemma retrieve_clean s xs i :
  Clean s xs ->
  (1 <= i <= length xs ->
     exists x, item_at xs i = Some x /\ retrieve s i = Some (Some x)) /\
  (i < 1 \/ length xs < i -> retrieve s i = Some None).
Proof.
  intros HC. split.
  - intros Hi. rewrite retrieve_read_item. eapply Rep_read; [apply HC|exact Hi].
  - intros Hi. pose proof (Rep_length _ _ _ (cl_rep _ _ HC)) as HL.
    unfold retrieve, number. rewrite HL.
    destruct (Nat.ltb_spec i 1); [reflexivity|].
    destruct (Nat.leb_spec (S (length xs)) i); [reflexivity|lia].
Qed.

Lemma number_clean s xs : Clean s xs -> number s = S (length xs).
Proof. intros HC. unfold number. eapply Rep_length. apply HC. Qed.

(* ---------- truncate ---------------------------------------------------- *)
Lemma truncate_clean s xs item :
  Clean s xs -> Clean (truncate s item) (truncate_spec xs item).
Proof.
  intros HC. pose proof HC as [HR Hh Ho Hb Hl].
  pose proof (Rep_length _ _ _ HR) as HL.
  unfold truncate, truncate_spec, number. rewrite HL.
  destruct (orb (Nat.ltb item 1) (Nat.leb (S (length xs)) (item + 1))) eqn:Eg; [exact HC|].
  apply orb_false_iff in Eg. destruct Eg as [E1 E2].
  apply Nat.ltb_ge in E1. apply Nat.leb_gt in E2.
  set (m := S (length xs) - (item + 1)).
  assert (Hm : m < length (ridx s)) by (unfold m; lia).
  assert (Hm' : length xs - item = m) by (unfold m; lia). rewrite Hm'.
  pose proof (Rep_skipn _ _ _ m HR Hm) as HRm.
  destruct (skipn m (ridx s)) as [|ne r'] eqn:Er.
  { exfalso. exact (Rep_nonempty _ _ _ HRm eq_refl). }
  assert (Hin : In ne (ridx s)).
  { rewrite <- (firstn_skipn m (ridx s)), Er. apply in_or_app. right. left. reflexivity. }
  pose proof (Rep_fid_le _ _ _ HR _ Hin) as Hle.
  pose proof (Rep_top_le _ _ _ HRm) as Htl. cbn [top hd] in Htl.
  set (moved := negb (Nat.eqb (fid ne) (hid s))).
  assert (Hho : (if moved then fid ne else hopen s) = fid ne).
  { unfold moved. destruct (Nat.eqb_spec (fid ne) (hid s)); cbn; congruence. }
  assert (Hhh : (if moved then fid ne else hid s) = fid ne).
  { unfold moved. destruct (Nat.eqb_spec (fid ne) (hid s)); cbn; congruence. }
  fold moved. rewrite Hho, Hhh.
  constructor; cbn [ridx files hid hopen hbytes top hd]; try reflexivity.
  - apply (Rep_ext (files s)); [exact HRm| | |]; cbn [top hd].
    + intros f Hf. rewrite upd_other by lia. reflexivity.
    + rewrite upd_same, firstn_firstn. f_equal. lia.
    + rewrite upd_same, firstn_length. lia.
  - rewrite upd_same, firstn_length. lia.
Qed.

(* ---------- build: the repair loop -------------------------------------- *)
(* Disk after a crash: the index keeps a suffix [hi :: rst] of its entries,
   every data file below [F] (the id of the newest file before the crash) is
   intact and file [F] is cut to its first [c] bytes.  The loop then drops
   only entries whose data is not all there (file F, offset beyond c), ends
   in a clean state and never fails. *)
Lemma repair_ok fs fs' F c :
  (forall f, f < F -> fs' f = fs f) -> fs' F = firstn c (fs F) ->
  forall rst hi ys,
  Rep fs (hi :: rst) ys -> fid hi <= F ->
  exists fs'' r'' m,
    repair true fs' (fid hi) (length (fs' (fid hi))) hi rst
      = Some (fs'', r'', fid (top r''), off (top r'')) /\
    m <= length rst /\ r'' = skipn m (hi :: rst) /\
    Rep fs'' r'' (skipn m ys) /\
    length (fs'' (fid (top r''))) = off (top r'') /\
    (forall e, In e (firstn m (hi :: rst)) -> fid e = F /\ c < off e) /\
    (forall f, f < fid (top r'') -> fs'' f = fs f).
Proof.
  intros HltF HcutF.
  induction rst as [|ni rst IH]; intros hi ys HR HF.
  - (* only the sentinel is left *)
    inversion HR; subst. cbn [repair fid off sentinel].
    destruct (Nat.eqb_spec 0 (length (fs' 0))) as [E|E].
    + exists fs', [sentinel], 0. cbn [top hd skipn firstn fid off sentinel length].
      split; [rewrite <- E; reflexivity|]. split; [lia|]. split; [reflexivity|].
      split; [constructor|]. split; [symmetry; exact E|]. split; [intros e []|].
      intros f Hf; lia.
    + destruct (Nat.ltb_spec 0 (length (fs' 0))) as [L|L]; [|lia].
      exists (upd 0 (firstn 0 (fs' 0)) fs'), [sentinel], 0.
      cbn [top hd skipn firstn fid off sentinel length].
      split; [reflexivity|]. split; [lia|]. split; [reflexivity|].
      split; [constructor|]. split; [rewrite upd_same; reflexivity|]. split; [intros e []|].
      intros f Hf; lia.
  - cbn [repair].
    assert (Hpre : fid hi < F -> fs' (fid hi) = fs (fid hi)).
    { intros Hlt. apply HltF. exact Hlt. }
    assert (Hcut : fid hi = F -> fs' (fid hi) = firstn c (fs F)).
    { intros ->. exact HcutF. }
    pose proof (Rep_top_le _ _ _ HR) as Htl. cbn [top hd] in Htl.
    assert (Hfirst : off hi <= length (fs' (fid hi)) ->
              firstn (off hi) (fs' (fid hi)) = firstn (off hi) (fs (fid hi))).
    { intros Hle. destruct (Nat.eq_dec (fid hi) F) as [EF|NF].
      - rewrite (Hcut EF), EF, firstn_firstn. f_equal.
        rewrite (Hcut EF), firstn_length in Hle. lia.
      - rewrite Hpre by lia. reflexivity. }
    assert (Hlow : forall f, f < fid hi -> fs' f = fs f).
    { intros f Hf. apply HltF. lia. }
    destruct (Nat.eqb_spec (off hi) (length (fs' (fid hi)))) as [E|E].
    { exists fs', (hi :: ni :: rst), 0. cbn [top hd skipn firstn].
      split; [rewrite E; reflexivity|]. split; [lia|]. split; [reflexivity|].
      split; [apply (Rep_ext fs); cbn [top hd]; [assumption|assumption|apply Hfirst; lia|lia]|].
      split; [symmetry; exact E|]. split; [intros e []|]. exact Hlow. }
    destruct (Nat.ltb_spec (off hi) (length (fs' (fid hi)))) as [L|L].
    { exists (upd (fid hi) (firstn (off hi) (fs' (fid hi))) fs'), (hi :: ni :: rst), 0.
      cbn [top hd skipn firstn].
      split; [reflexivity|]. split; [lia|]. split; [reflexivity|].
      split.
      { apply (Rep_ext fs); cbn [top hd]; [exact HR| | |].
        * intros f Hf. rewrite upd_other by lia. apply Hlow; exact Hf.
        * rewrite upd_same, firstn_firstn, Nat.min_id. apply Hfirst; lia.
        * rewrite upd_same, firstn_length. lia. }
      split; [rewrite upd_same, firstn_length; lia|]. split; [intros e []|].
      intros f Hf. rewrite upd_other by lia. apply Hlow; exact Hf. }
    (* dangling index entry: its data is not all there *)
    assert (Hgt : length (fs' (fid hi)) < off hi) by lia.
    assert (EF : fid hi = F).
    { destruct (Nat.eq_dec (fid hi) F); [assumption|]. rewrite Hpre in Hgt by lia. lia. }
    assert (Hc : c < off hi).
    { rewrite (Hcut EF), firstn_length in Hgt. rewrite EF in Htl. lia. }
    subst F.
    inversion HR as [| e p r x xs HR' Hf Ho Hs Hl | e p r x xs HR' Hf Ho Hcl Hs Hl]; subst.
    + (* same file *)
      rewrite <- Hf, Nat.eqb_refl.
      assert (HF' : fid ni <= fid hi) by lia.
      destruct (IH ni xs HR' HF') as (fs'' & r'' & m & Hrun & Hm & Hr & HRep & Hlen & Hdrop & Hlow2).
      exists fs'', r'', (S m).
      split; [rewrite Hf; exact Hrun|].
      split; [cbn [length]; lia|]. split; [exact Hr|]. split; [exact HRep|].
      split; [exact Hlen|]. split; [|exact Hlow2].
      intros e0 He. cbn [firstn] in He. destruct He as [<-|He]; [split; [reflexivity|lia]|].
      apply Hdrop. exact He.
    + (* slipped back into the previous file *)
      destruct (Nat.eqb_spec (fid ni) (fid hi)) as [Eq|Ne]; [lia|].
      assert (HF' : fid ni <= fid hi) by lia.
      destruct (IH ni xs HR' HF') as (fs'' & r'' & m & Hrun & Hm & Hr & HRep & Hlen & Hdrop & Hlow2).
      exists fs'', r'', (S m).
      split; [exact Hrun|].
      split; [cbn [length]; lia|]. split; [exact Hr|]. split; [exact HRep|].
      split; [exact Hlen|]. split; [|exact Hlow2].
      intros e0 He. cbn [firstn] in He. destruct He as [<-|He]; [split; [reflexivity|lia]|].
      apply Hdrop. exact He.
Qed.

Lemma skipn_skipn_add {A} (l : list A) a b : skipn b (skipn a l) = skipn (a + b) l.
Proof.
  revert l; induction a as [|a IH]; intros l; [reflexivity|].
  destruct l as [|y l]; [rewrite !skipn_nil; reflexivity|]. cbn [skipn Nat.add]. apply IH.
Qed.

Lemma cut_index_skipn k r : cut_index k r = skipn (length r - k) r.
Proof. reflexivity. Qed.

(* re-opening on a disk [fs'] that differs from the clean one only in its
   newest data file, which kept its first [c] bytes, and whose index kept its
   first [k] entries *)
Theorem build_after_cut s xs fs' k c :
  Clean s xs -> 1 <= k ->
  (forall f, f < hid s -> fs' f = files s f) ->
  fs' (hid s) = firstn c (files s (hid s)) ->
  exists s' m,
    build (cut_index k (ridx s)) fs' = Some s' /\
    Clean s' (skipn m xs) /\
    length (ridx s) - k <= m <= length xs /\
    (* only entries whose data did not fully survive are dropped by the repair *)
    (forall e, In e (firstn (m - (length (ridx s) - k)) (cut_index k (ridx s))) ->
               fid e = hid s /\ c < off e) /\
    ridx s' = skipn (m - (length (ridx s) - k)) (cut_index k (ridx s)).
Proof.
  intros HC Hk Hlt Hcut. pose proof HC as [HR Hh Ho Hb Hl].
  pose proof (Rep_length _ _ _ HR) as HL.
  set (j := length (ridx s) - k).
  assert (Hj : j < length (ridx s)) by (unfold j; lia).
  pose proof (Rep_skipn _ _ _ j HR Hj) as HRj.
  unfold build, build_gen. rewrite cut_index_skipn. fold j.
  destruct (skipn j (ridx s)) as [|hi rst] eqn:Er.
  { exfalso. exact (Rep_nonempty _ _ _ HRj eq_refl). }
  cbn [open_index].
  assert (Hin : In hi (ridx s)).
  { rewrite <- (firstn_skipn j (ridx s)), Er. apply in_or_app. right. left. reflexivity. }
  pose proof (Rep_fid_le _ _ _ HR _ Hin) as Hle. rewrite <- Hh in Hle.
  destruct (repair_ok (files s) fs' (hid s) c Hlt Hcut rst hi (skipn j xs) HRj Hle)
    as (fs'' & r'' & m & Hrun & Hm & Hr & HRep & Hlen & Hdrop & Hlow).
  rewrite Hrun.
  pose proof (Rep_nonempty _ _ _ HRep) as Hne.
  destruct r'' as [|h' r2]; [contradiction|].
  assert (Hlen_s : length (hi :: rst) = length (ridx s) - j).
  { rewrite <- Er, skipn_length. reflexivity. }
  exists (mkSt (h' :: r2) fs'' (fid h') (fid (top (h' :: r2))) (off (top (h' :: r2)))), (j + m).
  cbn [top hd] in *. split; [reflexivity|]. split; [|split].
  - rewrite <- skipn_skipn_add. constructor; cbn [ridx files hid hopen hbytes top hd]; try reflexivity.
    + exact HRep.
    + exact Hlen.
  - cbn [length] in Hlen_s. lia.
  - replace (j + m - j) with m by lia. split; [exact Hdrop|].
    cbn [ridx]. exact Hr.
Qed.

(* the crash relation of the property: cut the index and the newest file *)
Theorem build_after_crash s xs k c :
  Clean s xs -> 1 <= k ->
  exists s' m,
    build (cut_index k (ridx s)) (cut_file (hid s) c (files s)) = Some s' /\
    Clean s' (skipn m xs) /\
    length (ridx s) - k <= m <= length xs /\
    (forall e, In e (firstn (m - (length (ridx s) - k)) (cut_index k (ridx s))) ->
               fid e = hid s /\ c < off e) /\
    ridx s' = skipn (m - (length (ridx s) - k)) (cut_index k (ridx s)).
Proof.
  intros HC Hk. apply build_after_cut; try assumption.
  - intros f Hf. unfold cut_file. rewrite upd_other by lia. reflexivity.
  - unfold cut_file. apply upd_same.
Qed.

(* entries in the newest file never lie beyond the newest entry *)
Lemma Rep_off_le fs r xs : Rep fs r xs ->
  forall e, In e r -> fid e = fid (top r) -> off e <= off (top r).
Proof.
  induction 1 as [| e p r x xs HR IH Hf Ho Hs Hl | e p r x xs HR IH Hf Ho Hc Hs Hl];
    cbn [top hd] in *; intros e0 Hin He.
  - destruct Hin as [<-|[]]. lia.
  - destruct Hin as [<-|Hin]; [lia|]. specialize (IH _ Hin). lia.
  - destruct Hin as [<-|Hin]; [lia|].
    pose proof (Rep_fid_le _ _ _ HR _ Hin) as Hle. cbn [top hd] in Hle. lia.
Qed.

(* every entry that survived the index cut and whose data survived the data
   cut is still there after the repair: the number of items after re-opening
   is at least the number of items whose data and index entry were both
   fully written *)
Corollary build_after_crash_keeps s xs k c s' :
  Clean s xs -> 1 <= k ->
  build (cut_index k (ridx s)) (cut_file (hid s) c (files s)) = Some s' ->
  forall e, In e (cut_index k (ridx s)) -> (fid e < hid s \/ off e <= c) -> In e (ridx s').
Proof.
  intros HC Hk Hb e Hin Hdata.
  destruct (build_after_crash s xs k c HC Hk) as (s2 & m & Hb2 & _ & _ & Hdrop & Hr).
  rewrite Hb in Hb2. injection Hb2 as <-.
  rewrite Hr. set (d := m - (length (ridx s) - k)) in *.
  rewrite <- (firstn_skipn d (cut_index k (ridx s))) in Hin.
  apply in_app_or in Hin. destruct Hin as [Hin|Hin]; [|exact Hin].
  destruct (Hdrop _ Hin) as [H1 H2]. lia.
Qed.

(* re-opening a cleanly closed freezer loses nothing *)
Theorem build_clean s xs :
  Clean s xs -> exists s', build (ridx s) (files s) = Some s' /\ Clean s' xs.
Proof.
  intros HC. pose proof HC as [HR Hh Ho Hb Hl].
  pose proof (Rep_length _ _ _ HR) as HL.
  destruct (build_after_cut s xs (files s) (length (ridx s)) (length (files s (hid s))) HC)
    as (s' & m & Hb' & HC' & Hm & Hdrop & Hr).
  - lia.
  - reflexivity.
  - symmetry. apply firstn_all.
  - assert (Hci : cut_index (length (ridx s)) (ridx s) = ridx s).
    { unfold cut_index. rewrite Nat.sub_diag. reflexivity. }
    rewrite Hci in *. rewrite Nat.sub_diag, Nat.sub_0_r in *.
    assert (m = 0).
    { destruct m as [|m]; [reflexivity|]. exfalso.
      destruct (ridx s) as [|e r] eqn:Er; [cbn in HL; lia|].
      destruct (Hdrop e (or_introl eq_refl)) as [H1 H2].
      pose proof (Rep_off_le _ _ _ HR e (or_introl eq_refl)) as H3. cbn [top hd] in *.
      specialize (H3 eq_refl). lia. }
    subst m. exists s'. split; [exact Hb'|exact HC'].
Qed.
