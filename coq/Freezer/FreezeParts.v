(* Freezer/FreezeParts.v — the freeze pass at the granularity of the store's
   columns and of every getter the property lists:
     store/src/store.rs       get_block, get_frozen_block, get_block_header, get_block_body,
                              get_block_txs_hashes, get_cellbase, get_block_uncles,
                              get_block_proposal_txs_ids, get_block_extension, get_unfrozen_block
     store/src/write_batch.rs delete_block_body (uncles, extension, proposals, NUMBER_HASH row, body rows;
                              the header stays), delete_block (header too)
     shared/src/shared.rs     freeze (get_unfrozen_block by COLUMN_INDEX), wipe_out_frozen_data
                              (first the frozen main-chain blocks' parts in one synced batch, then the
                              side-chain blocks found under the same numbers in COLUMN_NUMBER_HASH)
     freezer/src/freezer.rs   freeze (append in height order, `ret` = what this pass appended, sync_all)
   Blocks and their parts are opaque digests (N); a block id is its hash.
   Freeze.v is the coarser model with one value per height.  No proofs here. *)
From Coq Require Export List NArith Arith Bool Lia.
Export ListNotations.

Record blk := mkBlk {
  b_id : N;               (* block hash *)
  b_hdr : N;              (* header *)
  b_body : list N;        (* transactions, cellbase first *)
  b_uncles : N; b_props : N;
  b_ext : option N        (* extension field, absent before rfc0031 / present with the MMR root *)
}.

Record pstore := mkPS {
  p_index : nat -> option N;        (* COLUMN_INDEX: number -> hash of the main chain *)
  p_hdr : N -> option (nat * N);    (* COLUMN_BLOCK_HEADER: hash -> (number, header) *)
  p_body : N -> list N;             (* COLUMN_BLOCK_BODY rows under the hash prefix ([] when none) *)
  p_uncles : N -> option N;         (* COLUMN_BLOCK_UNCLE *)
  p_props : N -> option N;          (* COLUMN_BLOCK_PROPOSAL_IDS *)
  p_ext : N -> option N;            (* COLUMN_BLOCK_EXTENSION *)
  p_numhash : nat -> N -> bool;     (* COLUMN_NUMBER_HASH: row (number, hash) present *)
  p_fz : list blk;                  (* freezer items: item i is the block of height i+1 *)
  p_synced : nat;                   (* items durable since the last sync_all *)
  p_ret : list (nat * N);           (* `ret` of the running Freezer::freeze: (number, hash) appended by this pass *)
  p_ok : bool                       (* Freezer::freeze returned Ok (its sync_all succeeded) *)
}.

Definition pnumber (s : pstore) : nat := S (length (p_fz s)).          (* Freezer::number() *)

(* ---- getters (store.rs) -------------------------------------------------- *)
Definition get_header (s : pstore) (id : N) : option N := option_map snd (p_hdr s id).

(* the freezer's item under the header's number, when below Freezer::number(): the freezer is indexed by
   number only *)
Definition frozen_at (s : pstore) (id : N) : option blk :=
  match p_hdr s id with
  | Some (n, _) => if Nat.ltb 0 n && Nat.ltb n (pnumber s) then nth_error (p_fz s) (n - 1) else None
  | None => None
  end.
Definition same_id (id : N) (ob : option blk) : option blk :=
  match ob with Some b => if N.eqb (b_id b) id then Some b else None | None => None end.
(* get_frozen_block: that item, when it is the block asked for (its header hash is the key) *)
Definition get_frozen_block (s : pstore) (id : N) : option blk := same_id id (frozen_at s id).
(* as it was before the repair: whatever block the freezer holds at that number *)
Definition get_frozen_block_bynum := frozen_at.

Definition orelse {A} (a b : option A) : option A := match a with Some _ => a | None => b end.

Definition get_body (s : pstore) (id : N) : list N :=
  match p_body s id with
  | [] => match get_frozen_block s id with Some b => b_body b | None => [] end
  | l => l
  end.
Definition get_txs_hashes := get_body.     (* the same rows, hashes instead of views *)
Definition get_cellbase (s : pstore) (id : N) : option N :=
  (* get_cellbase reads the row (hash, 0) and falls back to the frozen block *)
  match p_body s id with
  | c :: _ => Some c
  | [] => match get_frozen_block s id with Some b => hd_error (b_body b) | None => None end
  end.
Definition get_uncles (s : pstore) (id : N) : option N :=
  orelse (p_uncles s id) (option_map b_uncles (get_frozen_block s id)).
Definition get_props (s : pstore) (id : N) : option N :=
  orelse (p_props s id) (option_map b_props (get_frozen_block s id)).
Definition get_ext (s : pstore) (id : N) : option N :=
  orelse (p_ext s id) (match get_frozen_block s id with Some b => b_ext b | None => None end).

(* the getters as they were before the repair 71875e4: key-value store only *)
Definition get_body_old (s : pstore) (id : N) : list N := p_body s id.
Definition get_uncles_old (s : pstore) (id : N) : option N := p_uncles s id.
Definition get_props_old (s : pstore) (id : N) : option N := p_props s id.
Definition get_ext_old (s : pstore) (id : N) : option N := p_ext s id.

(* get_unfrozen_block: from the key-value store only; [None] also stands for the
   `expect("block uncles must be stored")` panics *)
Definition get_unfrozen_block (s : pstore) (id : N) : option blk :=
  match p_hdr s id, p_uncles s id, p_props s id with
  | Some (_, h), Some u, Some p => Some (mkBlk id h (p_body s id) u p (p_ext s id))
  | _, _, _ => None
  end.

(* get_block: the freezer's block below Freezer::number() when it is the block asked for, else
   assembled from the part getters (a side-chain block at a frozen height is still in the key-value store) *)
Definition assemble (s : pstore) (id h : N) : option blk :=
  match get_uncles s id, get_props s id with
  | Some u, Some p => Some (mkBlk id h (get_body s id) u p (get_ext s id))
  | _, _ => None
  end.
Definition get_block (s : pstore) (id : N) : option blk :=
  match p_hdr s id with
  | None => None
  | Some (n, h) =>
    if Nat.ltb 0 n && Nat.ltb n (pnumber s) then
      match nth_error (p_fz s) (n - 1) with
      | None => None
      | Some b => if N.eqb (b_id b) id then Some b else assemble s id h
      end
    else assemble s id h
  end.
(* as it was before the repair: the freezer's block at the header's number, whatever its hash *)
Definition get_block_bynum (s : pstore) (id : N) : option blk :=
  match p_hdr s id with
  | None => None
  | Some (n, h) =>
    if Nat.ltb 0 n && Nat.ltb n (pnumber s) then nth_error (p_fz s) (n - 1) else assemble s id h
  end.
(* get_packed_block: the frozen block if there is one, else assembled (body rows read directly) *)
Definition get_packed_block (s : pstore) (id : N) : option blk :=
  match get_frozen_block s id with
  | Some b => Some b
  | None => match p_hdr s id, get_uncles s id, get_props s id with
            | Some (_, h), Some u, Some p => Some (mkBlk id h (p_body s id) u p (get_ext s id))
            | _, _, _ => None
            end
  end.

(* ---- steps ----------------------------------------------------------------- *)
Definition del {A} (f : N -> option A) (id : N) : N -> option A := fun i => if N.eqb i id then None else f i.
Definition del_body (f : N -> list N) (id : N) : N -> list N := fun i => if N.eqb i id then [] else f i.
Definition del_nh (f : nat -> N -> bool) (n : nat) (id : N) : nat -> N -> bool :=
  fun m i => if Nat.eqb m n && N.eqb i id then false else f m i.

(* WriteBatch::delete_block_body *)
Definition delete_block_body (s : pstore) (n : nat) (id : N) : pstore :=
  mkPS (p_index s) (p_hdr s) (del_body (p_body s) id) (del (p_uncles s) id) (del (p_props s) id) (del (p_ext s) id)
       (del_nh (p_numhash s) n id) (p_fz s) (p_synced s) (p_ret s) (p_ok s).
(* WriteBatch::delete_block *)
Definition delete_block (s : pstore) (n : nat) (id : N) : pstore :=
  let s' := delete_block_body s n id in
  mkPS (p_index s') (del (p_hdr s') id) (p_body s') (p_uncles s') (p_props s') (p_ext s')
       (p_numhash s') (p_fz s') (p_synced s') (p_ret s') (p_ok s').

Inductive pstep :=
| PBegin                      (* Shared::freeze starts a pass: ret = {} *)
| PAppend                     (* one iteration of Freezer::freeze's loop *)
| PSync                       (* its final sync_all; freeze returns Ok(ret) *)
| PWipeMain                   (* wipe_out_frozen_data, first (synced) batch: delete_block_body of every block in ret *)
| PWipeSide (side : list (nat * N))
                              (* second batch: delete_block of the rows found in NUMBER_HASH under ret's numbers
                                 with another hash; [side] is what the pass's snapshot listed *)
| PCrash (k : nat).           (* crash + re-open: the freezer keeps its first max(k, synced) items; ret is gone *)

Definition side_ok (s : pstore) (e : nat * N) : bool :=
  let '(n, id) := e in
  p_numhash s n id &&
  existsb (fun r => Nat.eqb (fst r) n && negb (N.eqb (snd r) id)) (p_ret s).

Definition pstep_run (s : pstore) (o : pstep) : pstore :=
  match o with
  | PBegin => mkPS (p_index s) (p_hdr s) (p_body s) (p_uncles s) (p_props s) (p_ext s) (p_numhash s) (p_fz s) (p_synced s) [] false
  | PAppend =>
    if p_ok s then s else
    match p_index s (pnumber s) with
    | Some id => match get_unfrozen_block s id with
                 | Some b => mkPS (p_index s) (p_hdr s) (p_body s) (p_uncles s) (p_props s) (p_ext s) (p_numhash s)
                                  (p_fz s ++ [b]) (p_synced s) ((pnumber s, id) :: p_ret s) false
                 | None => s
                 end
    | None => s
    end
  | PSync => mkPS (p_index s) (p_hdr s) (p_body s) (p_uncles s) (p_props s) (p_ext s) (p_numhash s) (p_fz s) (length (p_fz s)) (p_ret s) true
  | PWipeMain =>
    if p_ok s then fold_left (fun st r => delete_block_body st (fst r) (snd r)) (p_ret s) s else s
  | PWipeSide side =>
    if p_ok s then fold_left (fun st e => if side_ok s e then delete_block st (fst e) (snd e) else st) side s else s
  | PCrash k =>
    let keep := Nat.min (length (p_fz s)) (Nat.max k (p_synced s)) in
    mkPS (p_index s) (p_hdr s) (p_body s) (p_uncles s) (p_props s) (p_ext s) (p_numhash s) (firstn keep (p_fz s)) (p_synced s) [] false
  end.
Definition prun (s : pstore) (ops : list pstep) : pstore := fold_left pstep_run ops s.

(* ---- cases from the harness ------------------------------------------------ *)
(* One observation of a real node: the main chain (heights 1..tip) with the parts
   as the blocks were built, Freezer::number(), which rows of each main-chain
   block are still in the key-value store, and every getter's answer. *)
Fixpoint alookup {A} (l : list (N * A)) (k : N) : option A :=
  match l with [] => None | (k', v) :: l' => if N.eqb k k' then Some v else alookup l' k end.

Record pobs := mkPObs {
  po_header : option N; po_body : list N; po_cellbase : option N;
  po_uncles : option N; po_props : option N; po_ext : option N;
  po_block : option (N * list N * N * N * option N);     (* header, body, uncles, proposals, extension of get_block *)
  po_packed : option (N * list N * N * N * option N)     (* the same of get_packed_block *)
}.
Record pcase := mkPCase {
  pc_main : list blk;               (* heights 1.. *)
  pc_frozen : nat;                  (* Freezer::number() - 1 *)
  pc_rows : list bool;              (* per main-chain block: its part rows are in the key-value store *)
  pc_obs : list pobs;               (* per main-chain block *)
  pc_side : list (nat * blk);       (* side-chain blocks whose header row is still stored, with their heights *)
  pc_side_obs : list pobs           (* per such block *)
}.

Definition state_of (c : pcase) : pstore :=
  let numbered := combine (seq 1 (length (pc_main c))) (combine (pc_main c) (pc_rows c))
                  ++ map (fun e => (fst e, (snd e, true))) (pc_side c) in
  let rows := filter (fun e => snd (snd e)) numbered in
  mkPS (fun n => option_map b_id (nth_error (pc_main c) (n - 1)))
       (alookup (map (fun e => (b_id (fst (snd e)), (fst e, b_hdr (fst (snd e))))) numbered))
       (fun id => match alookup (map (fun e => (b_id (fst (snd e)), b_body (fst (snd e)))) rows) id with Some l => l | None => [] end)
       (alookup (map (fun e => (b_id (fst (snd e)), b_uncles (fst (snd e)))) rows))
       (alookup (map (fun e => (b_id (fst (snd e)), b_props (fst (snd e)))) rows))
       (fun id => match alookup (map (fun e => (b_id (fst (snd e)), b_ext (fst (snd e)))) rows) id with Some x => x | None => None end)
       (fun _ _ => false)
       (firstn (pc_frozen c) (pc_main c)) (pc_frozen c) [] false.

Definition opt_eqb {A B} (eq : A -> B -> bool) (a : option A) (b : option B) : bool :=
  match a, b with Some x, Some y => eq x y | None, None => true | _, _ => false end.
Fixpoint list_eqb_n (a b : list N) : bool :=
  match a, b with [] , [] => true | x :: a', y :: b' => N.eqb x y && list_eqb_n a' b' | _, _ => false end.

Definition blk_eqb (b : blk) (t : N * list N * N * N * option N) : bool :=
  let '(h, body, u, p, e) := t in
  N.eqb (b_hdr b) h && list_eqb_n (b_body b) body && N.eqb (b_uncles b) u && N.eqb (b_props b) p && opt_eqb N.eqb (b_ext b) e.

Definition obs_eqb (s : pstore) (id : N) (o : pobs) : bool :=
  opt_eqb N.eqb (get_header s id) (po_header o) &&
  list_eqb_n (get_body s id) (po_body o) &&
  opt_eqb N.eqb (get_cellbase s id) (po_cellbase o) &&
  opt_eqb N.eqb (get_uncles s id) (po_uncles o) &&
  opt_eqb N.eqb (get_props s id) (po_props o) &&
  opt_eqb N.eqb (get_ext s id) (po_ext o) &&
  opt_eqb blk_eqb (get_block s id) (po_block o) &&
  opt_eqb blk_eqb (get_packed_block s id) (po_packed o).

Definition check_pcase (c : pcase) : bool :=
  Nat.eqb (length (pc_obs c)) (length (pc_main c)) && Nat.eqb (length (pc_rows c)) (length (pc_main c)) &&
  forallb (fun e => obs_eqb (state_of c) (b_id (fst e)) (snd e)) (combine (pc_main c) (pc_obs c)) &&
  Nat.eqb (length (pc_side_obs c)) (length (pc_side c)) &&
  forallb (fun e => obs_eqb (state_of c) (b_id (snd (fst e))) (snd e)) (combine (pc_side c) (pc_side_obs c)).
