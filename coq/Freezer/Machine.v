(* Freezer/Machine.v — the freezer as a state machine over operation lists,
   its abstract specification (a list of items) and the observation functions
   the correspondence check evaluates.  Executable; proofs are in
   Freezer/MachineProofs.v. *)
From CKB Require Import Freezer.Files.

Inductive op :=
| OAppend (x : list N)
| OTruncate (i : nat)
| OReopen
| OCrash (ib c : nat).   (* crash: index file cut to [ib] bytes, newest data file to [c] bytes; then re-open *)

(* number of whole entries in an index file of [ib] bytes; the sentinel was
   written and synced when the freezer was created and is never cut *)
Definition entries_of_bytes (ib : nat) : nat := Nat.max 1 (ib / 12).

Definition step (max : nat) (s : st) (o : op) : option st :=
  match o with
  | OAppend x => Some (append max s x)
  | OTruncate i => Some (truncate s i)
  | OReopen => build (ridx s) (files s)
  | OCrash ib c => build (cut_index (entries_of_bytes ib) (ridx s)) (cut_file (hid s) c (files s))
  end.

Fixpoint run (max : nat) (s : st) (ops : list op) : option st :=
  match ops with
  | [] => Some s
  | o :: ops' => match step max s o with
                 | None => None
                 | Some s' => run max s' ops'
                 end
  end.

Definition fresh : st := mkSt [sentinel] (fun _ => []) 0 0 0.

(* ---- abstract specification: items, newest first ----------------------- *)
Definition truncate_spec (xs : list (list N)) (item : nat) : list (list N) :=
  if orb (Nat.ltb item 1) (Nat.leb (S (length xs)) (item + 1)) then xs
  else skipn (length xs - item) xs.

(* a crash may lose a suffix of the items (in time order), nothing else *)
Inductive spec_step : list (list N) -> op -> list (list N) -> Prop :=
| SAppend xs x : spec_step xs (OAppend x) (x :: xs)
| STruncate xs i : spec_step xs (OTruncate i) (truncate_spec xs i)
| SReopen xs : spec_step xs OReopen xs
| SCrash xs ib c m : m <= length xs -> spec_step xs (OCrash ib c) (skipn m xs).

Inductive spec_run : list (list N) -> list op -> list (list N) -> Prop :=
| SRnil xs : spec_run xs [] xs
| SRcons xs o xs' ops xs'' : spec_step xs o xs' -> spec_run xs' ops xs'' ->
                             spec_run xs (o :: ops) xs''.

(* ---- observations ------------------------------------------------------ *)
Definition item_obs := option (option (list N)).
Definition obs := (nat * list item_obs)%type.        (* number(), retrieve 1..number-1 *)
Definition observe (s : st) : obs := (number s, dump s).

Fixpoint run_obs (max : nat) (s : st) (ops : list op) : list (option obs) :=
  match ops with
  | [] => []
  | o :: ops' => match step max s o with
                 | None => [None]
                 | Some s' => Some (observe s') :: run_obs max s' ops'
                 end
  end.

(* decidable comparison of observations *)
Fixpoint list_eqb {A} (eqb : A -> A -> bool) (a b : list A) : bool :=
  match a, b with
  | [], [] => true
  | x :: a', y :: b' => eqb x y && list_eqb eqb a' b'
  | _, _ => false
  end.
Definition option_eqb {A} (eqb : A -> A -> bool) (a b : option A) : bool :=
  match a, b with
  | None, None => true
  | Some x, Some y => eqb x y
  | _, _ => false
  end.
Definition item_obs_eqb : item_obs -> item_obs -> bool :=
  option_eqb (option_eqb (list_eqb N.eqb)).
Definition obs_eqb (a b : obs) : bool :=
  Nat.eqb (fst a) (fst b) && list_eqb item_obs_eqb (snd a) (snd b).

(* ---- cases as written by the harness ----------------------------------- *)
(* a history with the implementation's observation after every operation *)
Record hist_case := mkHist { hc_max : nat; hc_ops : list op; hc_obs : list (option obs) }.
Definition check_hist (c : hist_case) : bool :=
  list_eqb (option_eqb obs_eqb) (run_obs (hc_max c) fresh (hc_ops c)) (hc_obs c).

(* a history prefix followed by a sweep of crash cuts; after each cut the
   implementation re-opened, was observed, appended [probe] and was observed
   again *)
Record sweep_case := mkSweep {
  sc_max : nat; sc_prefix : list op; sc_probe : list N;
  sc_cuts : list (nat * nat * list (option obs)) }.
Definition check_sweep (c : sweep_case) : bool :=
  match run (sc_max c) fresh (sc_prefix c) with
  | None => false
  | Some s =>
    forallb (fun '(ib, cc, o) =>
               list_eqb (option_eqb obs_eqb)
                        (run_obs (sc_max c) s [OCrash ib cc; OAppend (sc_probe c)]) o)
            (sc_cuts c)
  end.

Fixpoint bad_indices {A} (chk : A -> bool) (i : N) (l : list A) : list N :=
  match l with
  | [] => []
  | c :: l' => (if chk c then [] else [i]) ++ bad_indices chk (N.succ i) l'
  end.
