(* Freezer/FreezeProofs.v — every main-chain block reads the same at every
   point of the freeze / wipe-out sequence and after a crash at any point. *)
From CKB Require Import Freezer.Freeze.

Lemma nth_error_firstn_lt {A} : forall (l : list A) n i, i < n -> nth_error (firstn n l) i = nth_error l i.
Proof.
  induction l as [|a l IH]; intros n i H; [rewrite firstn_nil; reflexivity|].
  destruct n as [|n]; [lia|]. cbn [firstn]. destruct i as [|i]; [reflexivity|]. cbn [nth_error]. apply IH. lia.
Qed.

Section Freeze.
Variable main : nat -> N.      (* the main chain: height -> block *)
Variable tip : nat.

Record FInv (s : fstore) : Prop := mkFInv {
  fi_fz : forall i b, nth_error (fz s) i = Some b -> b = main (S i);
  fi_kv : forall h, synced s < h -> h <= tip -> kv s h = Some (main h);
  fi_sync : synced s <= length (fz s);
  fi_len : length (fz s) <= tip;
  fi_above : forall h, tip < h -> kv s h = None     (* nothing above the tip is on the main chain *)
}.

Lemma step_inv s o : FInv s -> FInv (step s o).
Proof.
  intros [Hfz Hkv Hs Hl Ha]. destruct o as [| | |k]; cbn [step].
  - (* append *)
    destruct (kv s (fnumber s)) as [b|] eqn:E; [|split; assumption].
    unfold fnumber in E.
    destruct (Nat.le_gt_cases (S (length (fz s))) tip) as [Hle|Hgt].
    + rewrite (Hkv (S (length (fz s))) ltac:(lia) Hle) in E. injection E as <-.
      split; cbn [fz kv synced].
      * intros i b Hi. destruct (Nat.lt_ge_cases i (length (fz s))) as [L|L].
        -- rewrite nth_error_app1 in Hi by exact L. apply Hfz. exact Hi.
        -- rewrite nth_error_app2 in Hi by exact L.
           destruct (i - length (fz s)) as [|j] eqn:Ej; cbn in Hi; [|destruct j; discriminate].
           injection Hi as <-. f_equal. lia.
      * exact Hkv.
      * rewrite app_length. cbn. lia.
      * rewrite app_length. cbn. lia.
      * exact Ha.
    + rewrite (Ha _ Hgt) in E. discriminate.
  - split; cbn [fz kv synced]; try assumption; try lia.
    intros h Hh Ht. apply Hkv; lia.
  - split; cbn [fz kv synced]; try assumption.
    + intros h Hh Ht. destruct (Nat.ltb_spec 0 h); [|lia]. destruct (Nat.leb_spec h (synced s)); [lia|].
      cbn. apply Hkv; assumption.
    + intros h Hh. destruct (Nat.ltb 0 h && Nat.leb h (synced s)); [reflexivity|apply Ha; exact Hh].
  - split; cbn [fz kv synced]; try assumption.
    + intros i b Hi.
      assert (Hlt : i < Nat.min (length (fz s)) (Nat.max k (synced s))).
      { assert (Hn : nth_error (firstn (Nat.min (length (fz s)) (Nat.max k (synced s))) (fz s)) i <> None) by congruence.
        apply nth_error_Some in Hn. rewrite firstn_length in Hn. lia. }
      apply Hfz. rewrite <- Hi. symmetry. apply nth_error_firstn_lt. exact Hlt.
    + rewrite firstn_length. lia.
    + rewrite firstn_length. lia.
Qed.

Lemma frun_inv ops : forall s, FInv s -> FInv (frun s ops).
Proof.
  unfold frun. induction ops as [|o ops IH]; intros s H; cbn [fold_left]; [exact H|].
  apply IH. apply step_inv. exact H.
Qed.

(* what the invariant means for readers *)
Lemma inv_read s h : FInv s -> 0 < h <= tip -> read s h = Some (main h).
Proof.
  intros [Hfz Hkv Hs Hl Ha] Hh. unfold read, fnumber.
  destruct (Nat.ltb_spec 0 h); [|lia]. cbn [andb].
  destruct (Nat.ltb_spec h (S (length (fz s)))) as [L|L].
  - destruct (nth_error (fz s) (h - 1)) as [b|] eqn:E.
    + rewrite (Hfz _ _ E). f_equal. f_equal. lia.
    + apply nth_error_None in E. lia.
  - apply Hkv; lia.
Qed.

Definition initial (s : fstore) : Prop :=
  fz s = [] /\ synced s = 0 /\ (forall h, 0 < h <= tip -> kv s h = Some (main h)) /\ (forall h, tip < h -> kv s h = None).

Lemma initial_inv s : initial s -> FInv s.
Proof.
  intros (Hf & Hs & Hk & Ha). split.
  - rewrite Hf. intros i b H. destruct i; discriminate.
  - intros h H1 H2. apply Hk. lia.
  - rewrite Hs. lia.
  - rewrite Hf. cbn. lia.
  - exact Ha.
Qed.

(* Every main-chain block reads the same before, at every intermediate point
   of, and after any number of freeze passes — appends, syncs, wipe-outs in any
   order the code can produce — and after a crash at any point (the freezer
   then holds any prefix that contains the synced items). *)
Theorem reads_invariant s ops h :
  initial s -> 0 < h <= tip -> read (frun s ops) h = Some (main h).
Proof. intros Hi Hh. apply inv_read; [apply frun_inv; apply initial_inv; exact Hi|exact Hh]. Qed.

(* the wipe-out only ever deletes bodies of blocks that are durably frozen *)
Theorem wipe_only_frozen s h :
  FInv s -> kv s h <> None -> kv (step s SWipe) h = None -> 0 < h <= synced s /\ nth_error (fz s) (h - 1) = Some (main h).
Proof.
  intros [Hfz Hkv Hs Hl Ha] Hsome Hnone. cbn [step kv] in Hnone.
  destruct (Nat.ltb_spec 0 h) as [H0|H0]; cbn [andb] in Hnone; [|contradiction].
  destruct (Nat.leb_spec h (synced s)) as [H1|H1]; [|contradiction].
  split; [lia|]. destruct (nth_error (fz s) (h - 1)) as [b|] eqn:E.
  - rewrite (Hfz _ _ E). f_equal. f_equal. lia.
  - apply nth_error_None in E. lia.
Qed.
End Freeze.

(* the threshold arithmetic of Shared::freeze *)
Lemma frozen_after_bounds frozen limit maxl :
  (frozen <= frozen_after frozen limit maxl)%N /\
  (frozen_after frozen limit maxl <= N.max frozen limit)%N /\
  (frozen_after frozen limit maxl <= frozen + maxl)%N.
Proof. unfold frozen_after, threshold. lia. Qed.

Lemma ex_freeze :
  let main := fun h => N.of_nat (100 + h) in
  let s0 := mkFS (fun h => if Nat.leb 1 h && Nat.leb h 5 then Some (main h) else None) [] 0 in
  initial main 5 s0 /\
  map (read (frun s0 [SAppend; SAppend; SCrash 1; SAppend; SSync; SWipe; SAppend; SCrash 0; SAppend; SSync; SWipe])) [1; 2; 3; 4; 5]
  = [Some 101%N; Some 102%N; Some 103%N; Some 104%N; Some 105%N].
Proof.
  cbv zeta. split; [|vm_compute; reflexivity].
  unfold initial. cbn [fz synced kv]. repeat split; try reflexivity.
  - intros h Hh. destruct (Nat.leb_spec 1 h); [|lia]. destruct (Nat.leb_spec h 5); [|lia]. reflexivity.
  - intros h Hh. destruct (Nat.leb_spec 1 h); cbn [andb]; [|reflexivity]. destruct (Nat.leb_spec h 5); [lia|reflexivity].
Qed.
