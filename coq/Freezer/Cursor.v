(* Freezer/Cursor.v — the head file's cursor.
   freezer/src/freezer_files.rs keeps the head data file open through ONE file
   description: `preopen` and `open_file` put `file.try_clone()` (a dup of the
   same description, sharing its cursor) into the `files` cache that `retrieve`
   reads through, and `retrieve` positions that cursor with seek + read_exact.
   `Head::write` writes at the cursor.  Files.v's [append] writes at the end of
   the head file; this file makes the cursor explicit and says where a write
   lands:
     [fixd = false]  at the cursor (the code as it was),
     [fixd = true]   at head.bytes (the repaired Head::write seeks there first).
   No proofs in this file. *)
From CKB Require Export Freezer.Files Freezer.Machine.

Record cst := mkC { c_st : st; c_cur : nat }.

Inductive cop :=
| CO (o : op)          (* the operations of Machine.v *)
| CRead (i : nat).     (* retrieve(i) *)

(* pwrite of [x] at offset [pos] (a hole reads as zeros) *)
Definition write_at (pos : nat) (file x : list N) : list N :=
  firstn pos file ++ repeat 0%N (pos - length file) ++ x ++ skipn (pos + length x) file.

Definition append_c (fixd : bool) (max : nat) (cs : cst) (x : list N) : cst :=
  let s := c_st cs in
  let roll := Nat.ltb max (hbytes s + length x) in
  if roll then
    (* open_truncated: a new description, cursor 0 *)
    mkC (append max s x) (length x)
  else
    let pos := if fixd then hbytes s else c_cur cs in
    let fs' := upd (hopen s) (write_at pos (files s (hopen s)) x) (files s) in
    mkC (mkSt (mkE (hid s) (hbytes s + length x) :: ridx s) fs' (hid s) (hopen s) (hbytes s + length x))
        (pos + length x).

(* retrieve leaves the shared cursor behind the bytes it read when the item
   lives in the file the head handle points to *)
Definition read_c (cs : cst) (i : nat) : cst :=
  let s := c_st cs in
  if Nat.ltb i 1 || Nat.leb (number s) i then cs
  else match get_bounds s i with
       | Some (a, b, f) =>
         if Nat.eqb f (hopen s)
         then mkC s (if Nat.leb b (length (files s f)) then b else length (files s f))
         else cs
       | None => cs
       end.

Definition cstep (fixd : bool) (max : nat) (cs : cst) (o : cop) : option cst :=
  match o with
  | CRead i => Some (read_c cs i)
  | CO (OAppend x) => Some (append_c fixd max cs x)
  | CO o' => (* truncate_file and open_append both leave the cursor at the end *)
    match step max (c_st cs) o' with
    | Some s' => Some (mkC s' (length (files s' (hopen s'))))
    | None => None
    end
  end.

Fixpoint crun (fixd : bool) (max : nat) (cs : cst) (ops : list cop) : option cst :=
  match ops with
  | [] => Some cs
  | o :: ops' => match cstep fixd max cs o with
                 | None => None
                 | Some cs' => crun fixd max cs' ops'
                 end
  end.

Definition cfresh : cst := mkC fresh 0.

(* the operations of Machine.v that a history with reads contains *)
Fixpoint strip (ops : list cop) : list op :=
  match ops with
  | [] => []
  | CO o :: r => o :: strip r
  | CRead _ :: r => strip r
  end.

(* observation after every operation, as in Machine.v *)
Fixpoint crun_obs (fixd : bool) (max : nat) (cs : cst) (ops : list cop) : list (option obs) :=
  match ops with
  | [] => []
  | o :: ops' => match cstep fixd max cs o with
                 | None => [None]
                 | Some cs' => Some (observe (c_st cs')) :: crun_obs fixd max cs' ops'
                 end
  end.

Record chist_case := mkCHist { ch_max : nat; ch_ops : list cop; ch_obs : list (option obs) }.
Definition check_chist (c : chist_case) : bool :=
  list_eqb (option_eqb obs_eqb) (crun_obs true (ch_max c) cfresh (ch_ops c)) (ch_obs c).
