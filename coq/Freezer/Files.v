(* Freezer/Files.v — executable model of freezer/src/freezer_files.rs.

   Disk = index file (list of 12-byte entries, kept here at entry level and
   REVERSED: newest entry first, the sentinel entry last) + data files
   blkNNNNNN (a function from file id to its bytes; a file that does not exist
   reads as [], which is what open_append's create(true) produces).

   The byte-level index codec (IndexEntry::encode/decode and the
   "multiple of 12" trimming of open_index) is in Freezer/IndexCodec.v.

   No proofs in this file: it must keep running when a proof breaks. *)
From Coq Require Export List Arith NArith Lia Bool.
Export ListNotations.

Record entry := mkE { fid : nat; off : nat }.

Definition files_t := nat -> list N.

Definition upd (f : nat) (v : list N) (fs : files_t) : files_t :=
  fun g => if Nat.eqb g f then v else fs g.

(* state of an open FreezerFiles value together with the disk under it *)
Record st := mkSt {
  ridx   : list entry;   (* index file, newest first, sentinel last *)
  files  : files_t;      (* data files *)
  hid    : nat;          (* head_id *)
  hopen  : nat;          (* id of the file the head handle really points to *)
  hbytes : nat           (* head.bytes *)
}.

Definition sentinel := mkE 0 0.

(* number() = index_size / 12 *)
Definition number (s : st) : nat := length (ridx s).

(* ---- FreezerFilesBuilder::build ---------------------------------------- *)

(* The repair loop.  [fixd = true] is the loop as repaired by the fix: commit
   (re-open new_index.file_id when slipping back into an earlier file);
   [fixd = false] is the loop as it was (re-opens head_index.file_id).
   Structural recursion on the remaining index entries: every iteration that
   does not finish drops one entry.  [None] = the index ran out (the Rust code
   computes index_size - 12 below zero there). *)
Fixpoint repair (fixd : bool) (fs : files_t) (open_fid hsize : nat)
         (hindex : entry) (rest : list entry)
  : option (files_t * list entry * nat * nat) :=
  let expect := off hindex in
  if Nat.eqb expect hsize then Some (fs, hindex :: rest, open_fid, hsize)
  else if Nat.ltb expect hsize then
    Some (upd open_fid (firstn expect (fs open_fid)) fs, hindex :: rest, open_fid, expect)
  else match rest with
       | [] => None
       | ni :: rest' =>
         let f := if Nat.eqb (fid ni) (fid hindex) then open_fid
                  else if fixd then fid ni else fid hindex in
         let sz := if Nat.eqb (fid ni) (fid hindex) then hsize else length (fs f) in
         repair fixd fs f sz ni rest'
       end.

(* open_index: an empty index gets the sentinel written *)
Definition open_index (r : list entry) : list entry :=
  match r with [] => [sentinel] | _ => r end.

Definition build_gen (fixd : bool) (r : list entry) (fs : files_t) : option st :=
  match open_index r with
  | [] => None
  | h :: rest =>
    match repair fixd fs (fid h) (length (fs (fid h))) h rest with
    | None => None
    | Some (fs', r', o, sz) =>
      match r' with
      | [] => None
      | h' :: _ => Some (mkSt r' fs' (fid h') o sz)
      end
    end
  end.

Definition build := build_gen true.
Definition build_old := build_gen false.

(* ---- append ------------------------------------------------------------ *)
(* [max] = max_file_size.  Data is written at the end of the head file:
   Head::write seeks to head.bytes first (since the repair 524040d; before it
   the write went to the cursor, which retrieve moves — Freezer/Cursor.v makes
   the cursor explicit and proves it irrelevant for the repaired code). *)
Definition append (max : nat) (s : st) (x : list N) : st :=
  let roll := Nat.ltb max (hbytes s + length x) in
  let h  := if roll then S (hid s) else hid s in
  let ho := if roll then S (hid s) else hopen s in
  let hb := if roll then 0 else hbytes s in
  let fs := if roll then upd (S (hid s)) [] (files s) else files s in
  let fs' := upd ho (fs ho ++ x) fs in
  mkSt (mkE h (hb + length x) :: ridx s) fs' h ho (hb + length x).

(* ---- retrieve ---------------------------------------------------------- *)
Definition slice (l : list N) (a b : nat) : list N := firstn (b - a) (skipn a l).

(* entry number i counted from the sentinel (= position i in the index file) *)
Definition entry_at (r : list entry) (i : nat) : option entry :=
  nth_error (rev r) i.

Definition get_bounds (s : st) (item : nat) : option (nat * nat * nat) :=
  match entry_at (ridx s) item with
  | None => None
  | Some e =>
    if Nat.eqb item 1 then Some (0, off e, fid e)
    else match entry_at (ridx s) (item - 1) with
         | None => None
         | Some p => if Nat.eqb (fid p) (fid e) then Some (off p, off e, fid e)
                     else Some (0, off e, fid e)
         end
  end.

(* Ok(None) is [Some None]; an I/O error (read_exact past the end of the data
   file) is [None] *)
Definition retrieve (s : st) (item : nat) : option (option (list N)) :=
  if Nat.ltb item 1 then Some None
  else if Nat.leb (number s) item then Some None
  else match get_bounds s item with
       | None => Some None
       | Some (a, b, f) =>
         if Nat.leb b (length (files s f)) then Some (Some (slice (files s f) a b))
         else None
       end.

(* ---- truncate ---------------------------------------------------------- *)
Definition truncate (s : st) (item : nat) : st :=
  if orb (Nat.ltb item 1) (Nat.leb (number s) (item + 1)) then s
  else
    let r := skipn (number s - (item + 1)) (ridx s) in
    match r with
    | [] => s
    | ne :: _ =>
      let moved := negb (Nat.eqb (fid ne) (hid s)) in
      let ho := if moved then fid ne else hopen s in
      let h := if moved then fid ne else hid s in
      mkSt r (upd ho (firstn (off ne) (files s ho)) (files s)) h ho (off ne)
    end.

(* ---- crash cuts (applied to the closed files) --------------------------- *)
(* keep the first [k] index entries (sentinel included) *)
Definition cut_index (k : nat) (r : list entry) : list entry :=
  skipn (length r - k) r.
Definition cut_file (f len : nat) (fs : files_t) : files_t :=
  upd f (firstn len (fs f)) fs.

(* the abstract content: all items, oldest first *)
Fixpoint all_items_from (s : st) (n : nat) (k : nat) : list (option (option (list N))) :=
  match k with
  | 0 => []
  | S k' => retrieve s n :: all_items_from s (S n) k'
  end.
Definition dump (s : st) : list (option (option (list N))) :=
  all_items_from s 1 (number s - 1).
