(* Freezer/MachineProofs.v — every history of appends, truncations, re-opens
   and crashes refines the abstract list. *)
From CKB Require Import Freezer.Files Freezer.Machine Freezer.Repair.

Lemma fresh_clean : Clean fresh [].
Proof. constructor; cbn; try reflexivity. constructor. Qed.

Lemma entries_of_bytes_pos ib : 1 <= entries_of_bytes ib.
Proof. unfold entries_of_bytes. lia. Qed.

Lemma step_refines max s xs o :
  Clean s xs -> exists s' xs', step max s o = Some s' /\ Clean s' xs' /\ spec_step xs o xs'.
Proof.
  intros HC. destruct o as [x|i| |ib c]; cbn [step].
  - exists (append max s x), (x :: xs). split; [reflexivity|]. split; [|constructor].
    apply append_clean; exact HC.
  - exists (truncate s i), (truncate_spec xs i). split; [reflexivity|]. split; [|constructor].
    apply truncate_clean; exact HC.
  - destruct (build_clean s xs HC) as (s' & Hb & HC'). exists s', xs.
    split; [exact Hb|]. split; [exact HC'|constructor].
  - destruct (build_after_crash s xs (entries_of_bytes ib) c HC (entries_of_bytes_pos ib))
      as (s' & m & Hb & HC' & Hm & _).
    exists s', (skipn m xs). split; [exact Hb|]. split; [exact HC'|]. constructor. lia.
Qed.

Theorem run_refines max ops : forall s xs,
  Clean s xs -> exists s' xs', run max s ops = Some s' /\ Clean s' xs' /\ spec_run xs ops xs'.
Proof.
  induction ops as [|o ops IH]; intros s xs HC; cbn [run].
  - exists s, xs. split; [reflexivity|]. split; [exact HC|constructor].
  - destruct (step_refines max s xs o HC) as (s1 & xs1 & Hs & HC1 & Hsp). rewrite Hs.
    destruct (IH s1 xs1 HC1) as (s2 & xs2 & Hr & HC2 & Hsp2).
    exists s2, xs2. split; [exact Hr|]. split; [exact HC2|]. econstructor; eassumption.
Qed.

(* what a clean state answers: number and byte-exact items *)
Theorem clean_answers s xs :
  Clean s xs ->
  number s = S (length xs) /\
  (forall i, 1 <= i <= length xs ->
     exists x, item_at xs i = Some x /\ retrieve s i = Some (Some x)) /\
  (forall i, i < 1 \/ length xs < i -> retrieve s i = Some None).
Proof.
  intros HC. split; [apply number_clean; exact HC|]. split.
  - intros i Hi. apply (retrieve_clean s xs i HC). exact Hi.
  - intros i Hi. apply (retrieve_clean s xs i HC). exact Hi.
Qed.

(* the abstract runs only ever lose a suffix (in time) at a crash: the result
   of any history is a list whose every item was appended by the history or
   present initially *)
Lemma skipn_incl {A} m (l : list A) : incl (skipn m l) l.
Proof.
  revert l; induction m as [|m IH]; intros l; [apply incl_refl|].
  destruct l as [|a l]; [apply incl_refl|]. cbn [skipn]. apply incl_tl. apply IH.
Qed.

(* ---- F1: the loop as it was before the fix ------------------------------ *)
(* max_file_size 50, four 15-byte items: the 4th rolls over into file 1.
   Crash: file 1 cut to 0 bytes, index complete.  Items 1..3 are fully
   written, the repaired loop keeps them, the old loop keeps nothing. *)
Definition f1_item (b : N) : list N := repeat b 15.
Definition f1_ops : list op :=
  [OAppend (f1_item 1); OAppend (f1_item 2); OAppend (f1_item 3); OAppend (f1_item 4)].
Definition f1_state : st :=
  match run 50 fresh f1_ops with Some s => s | None => fresh end.

Lemma f1_state_clean : Clean f1_state [f1_item 4; f1_item 3; f1_item 2; f1_item 1].
Proof.
  unfold f1_state, f1_ops. cbn [run step].
  repeat apply append_clean. apply fresh_clean.
Qed.

Theorem build_old_refuted :
  exists s', build_old (cut_index 5 (ridx f1_state)) (cut_file (hid f1_state) 0 (files f1_state)) = Some s'
             /\ number s' = 1.
Proof. eexists. split; [vm_compute; reflexivity|reflexivity]. Qed.

Theorem build_fixed_on_f1 :
  exists s', build (cut_index 5 (ridx f1_state)) (cut_file (hid f1_state) 0 (files f1_state)) = Some s'
             /\ number s' = 4
             /\ dump s' = [Some (Some (f1_item 1)); Some (Some (f1_item 2)); Some (Some (f1_item 3))].
Proof. eexists. split; [vm_compute; reflexivity|]. split; reflexivity. Qed.
