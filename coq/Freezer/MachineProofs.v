(* Freezer/MachineProofs.v — every history of appends, truncations, re-opens
   and crashes refines the abstract list. *)
From CKB Require Import Freezer.Files Freezer.Machine Freezer.Repair.

Lemma fresh_clean : Clean fresh [].
Proof. constructor; cbn; try reflexivity. constructor. Qed.

Lemma entries_of_bytes_pos ib : 1 <= entries_of_bytes ib.
Proof. unfold entries_of_bytes. lia. Qed.

Lemma step_refines max s xs o :
  Clean s xs -> exists s' xs', step max s o = Some s' /\ Clean s' xs' /\ spec_step xs o xs'.
Proof.
  intros HC. destruct o as [x|i| |ib c]; cbn [step].
  - exists (append max s x), (x :: xs). split; [reflexivity|]. split; [|constructor].
    apply append_clean; exact HC.
  - exists (truncate s i), (truncate_spec xs i). split; [reflexivity|]. split; [|constructor].
    apply truncate_clean; exact HC.
  - destruct (build_clean s xs HC) as (s' & Hb & HC'). exists s', xs.
    split; [exact Hb|]. split; [exact HC'|constructor].
  - destruct (build_after_crash s xs (entries_of_bytes ib) c HC (entries_of_bytes_pos ib))
      as (s' & m & Hb & HC' & Hm & _).
    exists s', (skipn m xs). split; [exact Hb|]. split; [exact HC'|]. constructor. lia.
Qed.

Theorem run_refines max ops : forall s xs,
  Clean s xs -> exists s' xs', run max s ops = Some s' /\ Clean s' xs' /\ spec_run xs ops xs'.
Proof.
  induction ops as [|o ops IH]; intros s xs HC; cbn [run].
  - exists s, xs. split; [reflexivity|]. split; [exact HC|constructor].
  - destruct (step_refines max s xs o HC) as (s1 & xs1 & Hs & HC1 & Hsp). rewrite Hs.
    destruct (IH s1 xs1 HC1) as (s2 & xs2 & Hr & HC2 & Hsp2).
    exists s2, xs2. split; [exact Hr|]. split; [exact HC2|]. econstructor; eassumption.
Qed.

(* what a clean state answers: number and byte-exact items *)
Theorem clean_answers s xs :
  Clean s xs ->
  number s = S (length xs) /\
  (forall i, 1 <= i <= length xs ->
     exists x, item_at xs i = Some x /\ retrieve s i = Some (Some x)) /\
  (forall i, i < 1 \/ length xs < i -> retrieve s i = Some None).
Proof.
  intros HC. split; [apply number_clean; exact HC|]. split.
  - intros i Hi. apply (retrieve_clean s xs i HC). exact Hi.
  - intros i Hi. apply (retrieve_clean s xs i HC). exact Hi.
Qed.

(* the abstract runs only ever lose a suffix (in time) at a crash: the result
   of any history is a list whose every item was appended by the history or
   present initially *)
Lemma skipn_incl {A} m (l : list A) : incl (skipn m l) l.
Proof.
  revert l; induction m as [|m IH]; intros l; [apply incl_refl|].
  destruct l as [|a l]; [apply incl_refl|]. cbn [skipn]. apply incl_tl. apply IH.
Qed.

(* No history invents, reorders or corrupts an item: what the list holds after
   any appends, truncations, re-opens and crashes is (newest first) items this
   history appended, in front of an oldest part [skipn m] of the initial list,
   unchanged and in order. *)
Lemma skipn_skipn' {A} a b (l : list A) : skipn a (skipn b l) = skipn (a + b) l.
Proof.
  revert l; induction b as [|b IH]; intros l; [rewrite Nat.add_0_r; reflexivity|].
  rewrite Nat.add_succ_r. destruct l as [|y l]; [rewrite !skipn_nil; reflexivity|].
  cbn [skipn]. apply IH.
Qed.

Lemma spec_step_shape xs o xs1 :
  spec_step xs o xs1 ->
  exists new m, xs1 = new ++ skipn m xs /\ (forall x, In x new -> o = OAppend x).
Proof.
  intros H. destruct H as [xs x|xs i|xs|xs ib c m Hm].
  - exists [x], 0. split; [reflexivity|]. intros y [<-|[]]. reflexivity.
  - exists [], (if orb (Nat.ltb i 1) (Nat.leb (S (length xs)) (i + 1)) then 0 else length xs - i).
    split; [|intros x []]. unfold truncate_spec.
    destruct (orb (Nat.ltb i 1) (Nat.leb (S (length xs)) (i + 1))); reflexivity.
  - exists [], 0. split; [reflexivity|intros x []].
  - exists [], m. split; [reflexivity|intros x []].
Qed.

Theorem spec_run_shape xs ops xs' :
  spec_run xs ops xs' ->
  exists new m, xs' = new ++ skipn m xs /\ (forall x, In x new -> In (OAppend x) ops).
Proof.
  intros H. induction H as [xs|xs o xs1 ops xs2 Hs Hr IH].
  - exists [], 0. split; [reflexivity|intros x []].
  - destruct IH as (new2 & m2 & -> & Hn2).
    destruct (spec_step_shape xs o xs1 Hs) as (new1 & m1 & -> & Hn1).
    destruct (Nat.le_gt_cases m2 (length new1)) as [Hle|Hgt].
    + exists (new2 ++ skipn m2 new1), m1. split.
      * rewrite skipn_app. replace (m2 - length new1) with 0 by lia. cbn [skipn].
        rewrite app_assoc. reflexivity.
      * intros x Hx. apply in_app_or in Hx as [Hx|Hx]; [right; apply Hn2; exact Hx|].
        left. apply Hn1. apply (skipn_incl m2 new1). exact Hx.
    + exists new2, ((m2 - length new1) + m1). split.
      * rewrite skipn_app, skipn_all2 by lia. cbn [app]. rewrite skipn_skipn'. reflexivity.
      * intros x Hx. right. apply Hn2. exact Hx.
Qed.

(* the machine, from any clean state: every history runs, ends clean, and the
   list it represents has that shape *)
Theorem run_keeps_items max ops s xs :
  Clean s xs ->
  exists s' new m, run max s ops = Some s' /\ Clean s' (new ++ skipn m xs) /\
                   (forall x, In x new -> In (OAppend x) ops).
Proof.
  intros HC. destruct (run_refines max ops s xs HC) as (s' & xs' & Hr & HC' & Hsp).
  destruct (spec_run_shape xs ops xs' Hsp) as (new & m & -> & Hn).
  exists s', new, m. split; [exact Hr|]. split; [exact HC'|exact Hn].
Qed.

(* ---- F1: the loop as it was before the fix ------------------------------ *)
(* max_file_size 50, four 15-byte items: the 4th rolls over into file 1.
   Crash: file 1 cut to 0 bytes, index complete.  Items 1..3 are fully
   written, the repaired loop keeps them, the old loop keeps nothing. *)
Definition f1_item (b : N) : list N := repeat b 15.
Definition f1_ops : list op :=
  [OAppend (f1_item 1); OAppend (f1_item 2); OAppend (f1_item 3); OAppend (f1_item 4)].
Definition f1_state : st :=
  match run 50 fresh f1_ops with Some s => s | None => fresh end.

Lemma f1_state_clean : Clean f1_state [f1_item 4; f1_item 3; f1_item 2; f1_item 1].
Proof.
  unfold f1_state, f1_ops. cbn [run step].
  repeat apply append_clean. apply fresh_clean.
Qed.

Theorem build_old_refuted :
  exists s', build_old (cut_index 5 (ridx f1_state)) (cut_file (hid f1_state) 0 (files f1_state)) = Some s'
             /\ number s' = 1.
Proof. eexists. split; [vm_compute; reflexivity|reflexivity]. Qed.

Theorem build_fixed_on_f1 :
  exists s', build (cut_index 5 (ridx f1_state)) (cut_file (hid f1_state) 0 (files f1_state)) = Some s'
             /\ number s' = 4
             /\ dump s' = [Some (Some (f1_item 1)); Some (Some (f1_item 2)); Some (Some (f1_item 3))].
Proof. eexists. split; [vm_compute; reflexivity|]. split; reflexivity. Qed.
