(* Freezer/IndexCodec.v — the 12-byte index entry (u32 file id, u64 offset,
   little endian) and the parsing of an index file into whole entries. *)
From Coq Require Import List NArith Lia Arith.
Import ListNotations.
Local Open Scope N_scope.

Fixpoint le_bytes (n : nat) (v : N) : list N :=
  match n with
  | O => []
  | S n' => (v mod 256) :: le_bytes n' (v / 256)
  end.

Fixpoint le_val (bs : list N) : N :=
  match bs with
  | [] => 0
  | b :: bs' => b + 256 * le_val bs'
  end.

Lemma le_bytes_length n v : length (le_bytes n v) = n.
Proof. revert v; induction n as [|n IH]; intros v; cbn [le_bytes length]; [reflexivity|]. rewrite IH. reflexivity. Qed.

Lemma le_roundtrip n : forall v, v < 256 ^ N.of_nat n -> le_val (le_bytes n v) = v.
Proof.
  induction n as [|n IH]; intros v Hv.
  - cbn in *. lia.
  - cbn [le_bytes le_val]. rewrite IH.
    + pose proof (N.div_mod v 256 ltac:(lia)). lia.
    + rewrite Nat2N.inj_succ, N.pow_succ_r' in Hv.
      apply N.div_lt_upper_bound; lia.
Qed.

Lemma le_bytes_range n : forall v b, In b (le_bytes n v) -> b < 256.
Proof.
  induction n as [|n IH]; intros v b Hin; cbn [le_bytes] in Hin; [destruct Hin|].
  destruct Hin as [<-|Hin]; [apply N.mod_lt; lia|]. eapply IH; exact Hin.
Qed.

Lemma firstn_app_exact {A} n (a b : list A) : length a = n -> firstn n (a ++ b) = a.
Proof. intros <-. rewrite firstn_app, Nat.sub_diag, firstn_all. cbn [firstn]. apply app_nil_r. Qed.
Lemma skipn_app_exact {A} n (a b : list A) : length a = n -> skipn n (a ++ b) = b.
Proof. intros <-. rewrite skipn_app, Nat.sub_diag, skipn_all. reflexivity. Qed.

Definition encode_entry (e : N * N) : list N := le_bytes 4 (fst e) ++ le_bytes 8 (snd e).
Definition decode_entry (raw : list N) : N * N := (le_val (firstn 4 raw), le_val (skipn 4 raw)).

Definition entry_in_range (e : N * N) : Prop := fst e < 2 ^ 32 /\ snd e < 2 ^ 64.

Lemma encode_entry_length e : length (encode_entry e) = 12%nat.
Proof. unfold encode_entry. rewrite app_length, !le_bytes_length. reflexivity. Qed.

Theorem index_entry_roundtrip e : entry_in_range e -> decode_entry (encode_entry e) = e.
Proof.
  intros [Hf Ho]. unfold decode_entry, encode_entry.
  rewrite firstn_app_exact, skipn_app_exact by apply le_bytes_length.
  rewrite !le_roundtrip; [destruct e; reflexivity| |]; cbn; assumption.
Qed.

(* open_index drops a partial trailing entry; build reads whole entries *)
Fixpoint parse_index (fuel : nat) (bs : list N) : list (N * N) :=
  match fuel with
  | O => []
  | S f => if Nat.ltb (length bs) 12 then []
           else decode_entry (firstn 12 bs) :: parse_index f (skipn 12 bs)
  end.

Theorem parse_index_concat es : forall junk,
  Forall entry_in_range es -> (length junk < 12)%nat ->
  parse_index (S (length es)) (concat (map encode_entry es) ++ junk) = es.
Proof.
  induction es as [|e es IH]; intros junk Hr Hj.
  - cbn [map concat app length parse_index]. destruct (Nat.ltb_spec (length junk) 12); [reflexivity|lia].
  - inversion Hr as [|? ? He Hes]; subst.
    cbn [map concat length]. rewrite <- app_assoc.
    change (parse_index (S (S (length es))) ?l) with
      (if Nat.ltb (length l) 12 then []
       else decode_entry (firstn 12 l) :: parse_index (S (length es)) (skipn 12 l)).
    rewrite app_length, encode_entry_length.
    destruct (Nat.ltb_spec (12 + length (concat (map encode_entry es) ++ junk)) 12); [lia|].
    rewrite firstn_app_exact, skipn_app_exact by apply encode_entry_length.
    rewrite index_entry_roundtrip by exact He. f_equal. apply IH; assumption.
Qed.
