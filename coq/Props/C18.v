(* Props/C18.v — the theorems that decide property C18.  Statements only. *)
From CKB Require Import Indexer.Indexer Indexer.Query Indexer.Canon Indexer.SameAnswers
  Indexer.ScriptMatch Indexer.Paging Indexer.QueryProofs Indexer.IndexerExamples
  Indexer.IndexerInv Indexer.IndexerProofs Indexer.InvEquiv.
From Coq Require Import Permutation Sorted.


(* ======================================================================== *)
(* indexer_eq_filter.  [ops] is any sequence of appends and rollbacks that
   follows a valid chain through reorganisations (ops_ok: every appended block
   is a consistent continuation of the current main chain — inputs spend cells
   live at that point, created in earlier blocks or earlier in the same block,
   tx ids fresh; the genesis block is never rolled back; rollbacks stay within
   the retention).  [canon_store ch] is the reference store holding exactly the
   rows of the replayed chain (next theorem).  EVERY query — tip, live cells /
   transactions by script, get_cells, get_cells_capacity, get_transactions
   ungrouped and grouped, any search mode, filter, order, limit, cursor —
   answers on the indexer's store as it does on the replay of the main chain. *)
Theorem c18_indexer_eq_filter : forall keep interval ops s,
  ops_ok keep interval ix_empty ops = true -> irun keep interval ix_empty ops = Some s ->
  forall q, run_query (ix_store s) q = run_query (canon_store (ix_chain s)) q.
Proof. exact indexer_eq_filter_all. Qed.

(* what the reference store holds: the tip of the chain, and in the script
   tables exactly the rows of the live cells / of the transaction history *)
Theorem c18_canon_store_is_replay : forall ch,
  tip (canon_store ch) = chain_tip ch /\
  (forall lock, cell_rows lock (canon_store ch) = spec_cell_rows lock ch) /\
  (forall lock, tx_rows lock (canon_store ch) = spec_tx_rows lock ch).
Proof. intros ch. exact (conj (canon_tip ch) (conj (fun l => canon_cell_rows l ch) (fun l => canon_tx_rows l ch))). Qed.

(* the same, spelled out for the rows and for the script scans of indexer.rs *)
Theorem c18_indexer_eq_filter_rows : forall keep interval ops s,
  ops_ok keep interval ix_empty ops = true -> irun keep interval ix_empty ops = Some s ->
  tip (ix_store s) = chain_tip (ix_chain s) /\
  (forall lock, Permutation (cell_rows lock (ix_store s)) (spec_cell_rows lock (ix_chain s))) /\
  (forall lock, Permutation (tx_rows lock (ix_store s)) (spec_tx_rows lock (ix_chain s))) /\
  (forall op, get (ix_store s) (KOutPoint op) =
     match lookup_cell (live (ix_chain s)) op with
     | Some c => Some (VCell (lc_bn c) (lc_txi c) (lc_out c))
     | None => None end).
Proof. exact indexer_eq_filter_rows. Qed.

Theorem c18_indexer_eq_filter_scans : forall keep interval ops s,
  ops_ok keep interval ix_empty ops = true -> irun keep interval ix_empty ops = Some s ->
  tip (ix_store s) = chain_tip (ix_chain s) /\
  (forall lock p, live_cells_by_script (ix_store s) lock p = spec_live_cells_by_script (ix_chain s) lock p) /\
  (forall lock p, transactions_by_script (ix_store s) lock p = spec_transactions_by_script (ix_chain s) lock p).
Proof. exact indexer_eq_filter. Qed.

(* a valid append never hits one of the code's expect()s *)
Theorem c18_valid_append_never_panics : forall keep interval ops s b,
  ops_ok keep interval ix_empty ops = true -> irun keep interval ix_empty ops = Some s ->
  block_ok (ix_chain s) b = true -> append_panics (ix_store s) b = false.
Proof. intros keep interval ops s b H1 H2. exact (valid_append_never_panics s b (inv_reachable keep interval ops s H1 H2)). Qed.

(* rollback_inverts_append: in any reachable state, appending a valid block
   and rolling it back (within the retention: op_ok) restores the answer to
   every query.  (ConsumedOutPoint rows stay behind by design; no query reads
   them.) *)
Theorem c18_rollback_inverts_append : forall keep interval ops s b s1 s2,
  ops_ok keep interval ix_empty ops = true -> irun keep interval ix_empty ops = Some s ->
  block_ok (ix_chain s) b = true ->
  istep keep interval s (OAppend b) = Some s1 -> op_ok s1 ORollback = true ->
  istep keep interval s1 ORollback = Some s2 ->
  forall q, run_query (ix_store s2) q = run_query (ix_store s) q.
Proof. intros keep interval ops s b s1 s2 H1 H2. exact (rollback_inverts_append_all keep interval s b s1 s2 (inv_reachable keep interval ops s H1 H2)). Qed.

(* same_block_create_spend: a cell created by t1 and spent by a later t2 of the
   same block B of the main chain is in no live-cell answer *)
Theorem c18_same_block_create_spend : forall keep interval ops s chp B rest pre1 t1 mid t2 post oi,
  ops_ok keep interval ix_empty ops = true -> irun keep interval ix_empty ops = Some s ->
  ix_chain s = chp ++ B :: rest ->
  b_txs B = pre1 ++ t1 :: mid ++ t2 :: post ->
  (oi < length (t_outputs t1))%nat ->
  In (t_id t1, N.of_nat oi) (t_inputs t2) ->
  get (ix_store s) (KOutPoint (t_id t1, N.of_nat oi)) = None /\
  (forall lock p, ~ In (t_id t1, N.of_nat oi) (live_cells_by_script (ix_store s) lock p)) /\
  (forall c, In c (live (ix_chain s)) -> lc_op c <> (t_id t1, N.of_nat oi)).
Proof. exact same_block_create_spend. Qed.

(* prune touches no live row, and not the tip *)
Theorem c18_prune_keeps_live : forall st keep,
  (forall lock, cell_rows lock (prune st keep) = cell_rows lock st) /\
  (forall lock, tx_rows lock (prune st keep) = tx_rows lock st) /\
  (forall k, live_key k = true -> get (prune st keep) k = get st k) /\
  (forall op, get (prune st keep) (KOutPoint op) = get st (KOutPoint op)).
Proof. exact prune_keeps_live. Qed.
Theorem c18_prune_keeps_tip : forall keep interval ops s keep',
  ops_ok keep interval ix_empty ops = true -> irun keep interval ix_empty ops = Some s ->
  tip (prune (ix_store s) keep') = tip (ix_store s).
Proof. intros keep interval ops s keep' H1 H2. exact (prune_keeps_tip s keep' (inv_reachable keep interval ops s H1 H2)). Qed.

(* ======================================================================== *)
(* the query layer *)
(* Every answer of the query layer — tip, live cells / transactions by script,
   get_cells, get_cells_capacity, get_transactions (ungrouped and grouped), for
   every search mode, filter, order, limit and cursor — is a function of the
   live rows only: two stores with the same tip, the same rows in the four
   script-indexed tables (as sets) and the same OutPoint / TxLockScript /
   TxTypeScript point reads answer every query identically. *)
Theorem c18_same_answers : forall st st',
  live_equiv st st' -> rows_inj st -> forall q, run_query st q = run_query st' q.
Proof. exact same_answers. Qed.

(* answers are listed in key order *)
Theorem c18_scan_sorted : forall lock p st,
  StronglySorted (fun x y => lex_leb (crow_key x) (crow_key y) = true) (scan_cells lock p st) /\
  StronglySorted (fun x y => lex_leb (trow_key x) (trow_key y) = true) (scan_txs lock p st).
Proof. intros lock p st. exact (conj (sort_by_sorted crow_key _) (sort_by_sorted trow_key _)). Qed.

(* exact mode selects exactly the rows of the searched script *)
Theorem c18_exact_mode_cell_rows : forall p r,
  (is_prefix p (crow_key r) = true /\ length (crow_key r) = length p + 16) <-> cr_s r = p.
Proof. exact exact_mode_cell_rows. Qed.
Theorem c18_exact_mode_tx_rows : forall p r,
  (is_prefix p (trow_key r) = true /\ length (trow_key r) = length p + 17) <-> tr_s r = p.
Proof. exact exact_mode_tx_rows. Qed.

(* prefix mode selects the rows whose script starts with the searched bytes —
   for every row whose script is not shorter than the searched bytes *)
Theorem c18_prefix_mode_cell_rows : forall p r,
  length p <= length (cr_s r) -> is_prefix p (crow_key r) = is_prefix p (cr_s r).
Proof. exact prefix_mode_cell_rows. Qed.
Theorem c18_prefix_mode_tx_rows : forall p r,
  length p <= length (tr_s r) -> is_prefix p (trow_key r) = is_prefix p (tr_s r).
Proof. exact prefix_mode_tx_rows. Qed.

(* Known class (rows with a SHORTER script): in prefix mode the searched bytes
   are compared with the KEY (script ++ block number ++ tx index ++ output
   index), so a search whose bytes continue past a shorter script into that
   script's block-number bytes returns that script's cells.  Witness on a valid
   one-block chain. *)
Theorem c18_prefix_search_refuted :
  exists (ops : list iop) (s : istate) (p : script) (op : outpoint) (c : lcell),
    ops_ok 10 1000 ix_empty ops = true /\ irun 10 1000 ix_empty ops = Some s /\
    In op (live_cells_by_script (ix_store s) true p) /\
    lookup_cell (live (ix_chain s)) op = Some c /\
    is_prefix p (o_lock (lc_out c)) = false.
Proof. exact prefix_search_refuted. Qed.

(* limits: a page holds the first [limit] elements of the filtered row sequence *)
Theorem c18_transactions_page : forall st q,
  fst (get_transactions st q) =
  map (fun r => (tr_tx r, tr_bn r, tr_txi r, tr_ioi r, tr_out r))
      (firstn (sq_limit q)
         (filter (txs_keep st q)
            (iter_rows trow_key (tx_rows (sq_lock q) st) (sq_script q) (sq_desc q) (sq_after q)))).
Proof. exact get_transactions_objects. Qed.
Theorem c18_cells_page : forall st q cap rows full,
  collect_cells st q cap (S (length rows)) rows = Some full ->
  forall lim, collect_cells st q cap lim rows = Some (firstn lim full).
Proof. exact collect_cells_firstn. Qed.

(* the defect repaired by fix b7a7b39: get_cells_capacity counted cells whose
   script length equals the upper bound of script_len_range; get_cells did not *)
Theorem c18_capacity_old_refuted :
  get_cells (ix_store w_state) w_capq = Some ([], []) /\
  get_cells_capacity_old (ix_store w_state) w_capq = Some (Some (100, 0, 1))%N.
Proof. exact capacity_old_refuted. Qed.

(* non-vacuity: a two-branch history (in-block create-and-spend, scripts sharing
   a prefix, a type script, prune firing, two rollbacks) meets the hypotheses *)
Theorem c18_example_ops_ok : ops_ok 3 2 ix_empty example_ops = true.
Proof. exact example_ops_ok. Qed.
Theorem c18_example_nontrivial :
  exists s, irun 3 2 ix_empty example_ops = Some s
    /\ live_cells_by_script (ix_store s) true sA = [(3, 1); (5, 0); (8, 0); (22, 0); (23, 0); (24, 0)]%N
    /\ live_cells_by_script (ix_store s) false tT = [(3, 1)]%N
    /\ ix_floor s = 3%N.
Proof. exact example_nontrivial. Qed.

(* the hypotheses of c18_rollback_inverts_append and c18_same_block_create_spend are met *)
Theorem c18_example_rollback_hyps :
  exists s s1 s2, irun 3 2 ix_empty (firstn 6 example_ops) = Some s
    /\ ops_ok 3 2 ix_empty (firstn 6 example_ops) = true
    /\ block_ok (ix_chain s) ex_b6 = true
    /\ istep 3 2 s (OAppend ex_b6) = Some s1
    /\ op_ok s1 ORollback = true
    /\ istep 3 2 s1 ORollback = Some s2
    /\ length (ix_store s1) <> length (ix_store s2).
Proof. exact example_rollback_hyps. Qed.
Theorem c18_example_same_block_hyps :
  exists s, irun 3 2 ix_empty example_ops = Some s
    /\ ix_chain s = [ex_b0] ++ ex_b1 :: [ex_b2; ex_b3; ex_b4; ex_c5; ex_c6; ex_c7]
    /\ b_txs ex_b1 = [cb 2 sC] ++ mkTx 3 [(1, 0)]%N [mkOut sB None 500 []; mkOut sA (Some tT) 400 []]
                      :: [] ++ mkTx 4 [(3, 0)]%N [mkOut sC None 450 []] :: []
    /\ In (3, N.of_nat 0)%N (t_inputs (mkTx 4 [(3, 0)]%N [mkOut sC None 450 []])).
Proof. exact example_same_block_hyps. Qed.
Theorem c18_example_prune_fires :
  exists s6 s7, irun 3 2 ix_empty (firstn 6 example_ops) = Some s6
    /\ irun 3 2 ix_empty (firstn 7 example_ops) = Some s7
    /\ length (ix_store s6) = 62 /\ length (ix_store s7) = 59.
Proof. exact example_prune_fires. Qed.

Redirect "out/C18.c18_indexer_eq_filter" Print Assumptions c18_indexer_eq_filter.
Redirect "out/C18.c18_canon_store_is_replay" Print Assumptions c18_canon_store_is_replay.
Redirect "out/C18.c18_indexer_eq_filter_rows" Print Assumptions c18_indexer_eq_filter_rows.
Redirect "out/C18.c18_indexer_eq_filter_scans" Print Assumptions c18_indexer_eq_filter_scans.
Redirect "out/C18.c18_valid_append_never_panics" Print Assumptions c18_valid_append_never_panics.
Redirect "out/C18.c18_rollback_inverts_append" Print Assumptions c18_rollback_inverts_append.
Redirect "out/C18.c18_same_block_create_spend" Print Assumptions c18_same_block_create_spend.
Redirect "out/C18.c18_prune_keeps_live" Print Assumptions c18_prune_keeps_live.
Redirect "out/C18.c18_prune_keeps_tip" Print Assumptions c18_prune_keeps_tip.
Redirect "out/C18.c18_example_rollback_hyps" Print Assumptions c18_example_rollback_hyps.
Redirect "out/C18.c18_example_same_block_hyps" Print Assumptions c18_example_same_block_hyps.
Redirect "out/C18.c18_example_prune_fires" Print Assumptions c18_example_prune_fires.
Redirect "out/C18.c18_same_answers" Print Assumptions c18_same_answers.
Redirect "out/C18.c18_scan_sorted" Print Assumptions c18_scan_sorted.
Redirect "out/C18.c18_exact_mode_cell_rows" Print Assumptions c18_exact_mode_cell_rows.
Redirect "out/C18.c18_exact_mode_tx_rows" Print Assumptions c18_exact_mode_tx_rows.
Redirect "out/C18.c18_prefix_mode_cell_rows" Print Assumptions c18_prefix_mode_cell_rows.
Redirect "out/C18.c18_prefix_mode_tx_rows" Print Assumptions c18_prefix_mode_tx_rows.
Redirect "out/C18.c18_prefix_search_refuted" Print Assumptions c18_prefix_search_refuted.
Redirect "out/C18.c18_transactions_page" Print Assumptions c18_transactions_page.
Redirect "out/C18.c18_cells_page" Print Assumptions c18_cells_page.
Redirect "out/C18.c18_capacity_old_refuted" Print Assumptions c18_capacity_old_refuted.
Redirect "out/C18.c18_example_ops_ok" Print Assumptions c18_example_ops_ok.
Redirect "out/C18.c18_example_nontrivial" Print Assumptions c18_example_nontrivial.
