(* Props/C18.v — the theorems that decide property C18.  Statements only. *)
From CKB Require Import Indexer.Indexer Indexer.Query Indexer.QueryProofs.

(* Known class: in prefix mode the searched bytes are compared with the KEY
   (script ++ block number ++ tx index ++ output index), so a search whose
   bytes continue past a shorter script into that script's block-number bytes
   returns that script's cells.  Witness on a valid one-block chain. *)
Theorem c18_prefix_search_refuted :
  exists (ops : list iop) (s : istate) (p : script) (op : outpoint) (c : lcell),
    ops_ok 10 1000 ix_empty ops = true /\ irun 10 1000 ix_empty ops = Some s /\
    In op (live_cells_by_script (ix_store s) true p) /\
    lookup_cell (live (ix_chain s)) op = Some c /\
    is_prefix p (o_lock (lc_out c)) = false.
Proof. exact prefix_search_refuted. Qed.

Redirect "out/C18.c18_prefix_search_refuted" Print Assumptions c18_prefix_search_refuted.
