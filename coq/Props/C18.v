(* Props/C18.v — the theorems that decide property C18.  Statements only. *)
From CKB Require Import Indexer.Indexer Indexer.Query Indexer.Canon Indexer.SameAnswers
  Indexer.ScriptMatch Indexer.Paging Indexer.QueryProofs Indexer.IndexerExamples
  Indexer.IndexerInv Indexer.IndexerProofs Indexer.InvEquiv Indexer.Rich Indexer.RichProofs
  Indexer.RichPaging Indexer.RichPagingProofs.
From Coq Require Import Permutation Sorted.


(* ======================================================================== *)
(* indexer_eq_filter.  [ops] is any sequence of appends and rollbacks that
   follows a valid chain through reorganisations (ops_ok: every appended block
   is a consistent continuation of the current main chain — inputs spend cells
   live at that point, created in earlier blocks or earlier in the same block,
   tx ids fresh; the genesis block is never rolled back; rollbacks stay within
   the retention).  [canon_store ch] is the reference store holding exactly the
   rows of the replayed chain (next theorem).  EVERY query — tip, live cells /
   transactions by script, get_cells, get_cells_capacity, get_transactions
   ungrouped and grouped, any search mode, filter, order, limit, cursor —
   answers on the indexer's store as it does on the replay of the main chain. *)
Theorem c18_indexer_eq_filter : forall keep interval ops s,
  ops_ok keep interval ix_empty ops = true -> irun keep interval ix_empty ops = Some s ->
  forall q, run_query (ix_store s) q = run_query (canon_store (ix_chain s)) q.
Proof. exact indexer_eq_filter_all. Qed.

(* what the reference store holds: the tip of the chain, and in the script
   tables exactly the rows of the live cells / of the transaction history *)
Theorem c18_canon_store_is_replay : forall ch,
  tip (canon_store ch) = chain_tip ch /\
  (forall lock, cell_rows lock (canon_store ch) = spec_cell_rows lock ch) /\
  (forall lock, tx_rows lock (canon_store ch) = spec_tx_rows lock ch).
Proof. intros ch. exact (conj (canon_tip ch) (conj (fun l => canon_cell_rows l ch) (fun l => canon_tx_rows l ch))). Qed.

(* the same, spelled out for the rows and for the script scans of indexer.rs *)
Theorem c18_indexer_eq_filter_rows : forall keep interval ops s,
  ops_ok keep interval ix_empty ops = true -> irun keep interval ix_empty ops = Some s ->
  tip (ix_store s) = chain_tip (ix_chain s) /\
  (forall lock, Permutation (cell_rows lock (ix_store s)) (spec_cell_rows lock (ix_chain s))) /\
  (forall lock, Permutation (tx_rows lock (ix_store s)) (spec_tx_rows lock (ix_chain s))) /\
  (forall op, get (ix_store s) (KOutPoint op) =
     match lookup_cell (live (ix_chain s)) op with
     | Some c => Some (VCell (lc_bn c) (lc_txi c) (lc_out c))
     | None => None end).
Proof. exact indexer_eq_filter_rows. Qed.

Theorem c18_indexer_eq_filter_scans : forall keep interval ops s,
  ops_ok keep interval ix_empty ops = true -> irun keep interval ix_empty ops = Some s ->
  tip (ix_store s) = chain_tip (ix_chain s) /\
  (forall lock p, live_cells_by_script (ix_store s) lock p = spec_live_cells_by_script (ix_chain s) lock p) /\
  (forall lock p, transactions_by_script (ix_store s) lock p = spec_transactions_by_script (ix_chain s) lock p).
Proof. exact indexer_eq_filter. Qed.

(* a valid append never hits one of the code's expect()s *)
Theorem c18_valid_append_never_panics : forall keep interval ops s b,
  ops_ok keep interval ix_empty ops = true -> irun keep interval ix_empty ops = Some s ->
  block_ok (ix_chain s) b = true -> append_panics (ix_store s) b = false.
Proof. intros keep interval ops s b H1 H2. exact (valid_append_never_panics s b (inv_reachable keep interval ops s H1 H2)). Qed.

(* rollback_inverts_append: in any reachable state, appending a valid block
   and rolling it back (within the retention: op_ok) restores the answer to
   every query.  (ConsumedOutPoint rows stay behind by design; no query reads
   them.) *)
Theorem c18_rollback_inverts_append : forall keep interval ops s b s1 s2,
  ops_ok keep interval ix_empty ops = true -> irun keep interval ix_empty ops = Some s ->
  block_ok (ix_chain s) b = true ->
  istep keep interval s (OAppend b) = Some s1 -> op_ok s1 ORollback = true ->
  istep keep interval s1 ORollback = Some s2 ->
  forall q, run_query (ix_store s2) q = run_query (ix_store s) q.
Proof. intros keep interval ops s b s1 s2 H1 H2. exact (rollback_inverts_append_all keep interval s b s1 s2 (inv_reachable keep interval ops s H1 H2)). Qed.

(* same_block_create_spend: a cell created by t1 and spent by a later t2 of the
   same block B of the main chain is in no live-cell answer *)
Theorem c18_same_block_create_spend : forall keep interval ops s chp B rest pre1 t1 mid t2 post oi,
  ops_ok keep interval ix_empty ops = true -> irun keep interval ix_empty ops = Some s ->
  ix_chain s = chp ++ B :: rest ->
  b_txs B = pre1 ++ t1 :: mid ++ t2 :: post ->
  (oi < length (t_outputs t1))%nat ->
  In (t_id t1, N.of_nat oi) (t_inputs t2) ->
  get (ix_store s) (KOutPoint (t_id t1, N.of_nat oi)) = None /\
  (forall lock p, ~ In (t_id t1, N.of_nat oi) (live_cells_by_script (ix_store s) lock p)) /\
  (forall c, In c (live (ix_chain s)) -> lc_op c <> (t_id t1, N.of_nat oi)).
Proof. exact same_block_create_spend. Qed.

(* prune touches no live row, and not the tip *)
Theorem c18_prune_keeps_live : forall st keep,
  (forall lock, cell_rows lock (prune st keep) = cell_rows lock st) /\
  (forall lock, tx_rows lock (prune st keep) = tx_rows lock st) /\
  (forall k, live_key k = true -> get (prune st keep) k = get st k) /\
  (forall op, get (prune st keep) (KOutPoint op) = get st (KOutPoint op)).
Proof. exact prune_keeps_live. Qed.
Theorem c18_prune_keeps_tip : forall keep interval ops s keep',
  ops_ok keep interval ix_empty ops = true -> irun keep interval ix_empty ops = Some s ->
  tip (prune (ix_store s) keep') = tip (ix_store s).
Proof. intros keep interval ops s keep' H1 H2. exact (prune_keeps_tip s keep' (inv_reachable keep interval ops s H1 H2)). Qed.

(* ======================================================================== *)
(* the query layer *)
(* Every answer of the query layer — tip, live cells / transactions by script,
   get_cells, get_cells_capacity, get_transactions (ungrouped and grouped), for
   every search mode, filter, order, limit and cursor — is a function of the
   live rows only: two stores with the same tip, the same rows in the four
   script-indexed tables (as sets) and the same OutPoint / TxLockScript /
   TxTypeScript point reads answer every query identically. *)
Theorem c18_same_answers : forall st st',
  live_equiv st st' -> rows_inj st -> forall q, run_query st q = run_query st' q.
Proof. exact same_answers. Qed.

(* answers are listed in key order *)
Theorem c18_scan_sorted : forall lock p st,
  StronglySorted (fun x y => lex_leb (crow_key x) (crow_key y) = true) (scan_cells lock p st) /\
  StronglySorted (fun x y => lex_leb (trow_key x) (trow_key y) = true) (scan_txs lock p st).
Proof. intros lock p st. exact (conj (sort_by_sorted crow_key _) (sort_by_sorted trow_key _)). Qed.

(* exact mode selects exactly the rows of the searched script *)
Theorem c18_exact_mode_cell_rows : forall p r,
  (is_prefix p (crow_key r) = true /\ length (crow_key r) = length p + 16) <-> cr_s r = p.
Proof. exact exact_mode_cell_rows. Qed.
Theorem c18_exact_mode_tx_rows : forall p r,
  (is_prefix p (trow_key r) = true /\ length (trow_key r) = length p + 17) <-> tr_s r = p.
Proof. exact exact_mode_tx_rows. Qed.

(* prefix mode selects the rows whose script starts with the searched bytes —
   for every row whose script is not shorter than the searched bytes *)
Theorem c18_prefix_mode_cell_rows : forall p r,
  length p <= length (cr_s r) -> is_prefix p (crow_key r) = is_prefix p (cr_s r).
Proof. exact prefix_mode_cell_rows. Qed.
Theorem c18_prefix_mode_tx_rows : forall p r,
  length p <= length (tr_s r) -> is_prefix p (trow_key r) = is_prefix p (tr_s r).
Proof. exact prefix_mode_tx_rows. Qed.

(* Known class (rows with a SHORTER script): in prefix mode the searched bytes
   are compared with the KEY (script ++ block number ++ tx index ++ output
   index), so a search whose bytes continue past a shorter script into that
   script's block-number bytes returns that script's cells.  Witness on a valid
   one-block chain. *)
Theorem c18_prefix_search_refuted :
  exists (ops : list iop) (s : istate) (p : script) (op : outpoint) (c : lcell),
    ops_ok 10 1000 ix_empty ops = true /\ irun 10 1000 ix_empty ops = Some s /\
    In op (live_cells_by_script (ix_store s) true p) /\
    lookup_cell (live (ix_chain s)) op = Some c /\
    is_prefix p (o_lock (lc_out c)) = false.
Proof. exact prefix_search_refuted. Qed.

(* limits: a page holds the first [limit] elements of the filtered row sequence *)
Theorem c18_transactions_page : forall st q,
  fst (get_transactions st q) =
  map (fun r => (tr_tx r, tr_bn r, tr_txi r, tr_ioi r, tr_out r))
      (firstn (sq_limit q)
         (filter (txs_keep st q)
            (iter_rows trow_key (tx_rows (sq_lock q) st) (sq_script q) (sq_desc q) (sq_after q)))).
Proof. exact get_transactions_objects. Qed.
Theorem c18_cells_page : forall st q cap rows full,
  collect_cells st q cap (S (length rows)) rows = Some full ->
  forall lim, collect_cells st q cap lim rows = Some (firstn lim full).
Proof. exact collect_cells_firstn. Qed.

(* the defect repaired by fix b7a7b39: get_cells_capacity counted cells whose
   script length equals the upper bound of script_len_range; get_cells did not *)
Theorem c18_capacity_old_refuted :
  get_cells (ix_store w_state) w_capq = Some ([], []) /\
  get_cells_capacity_old (ix_store w_state) w_capq = Some (Some (100, 0, 1))%N.
Proof. exact capacity_old_refuted. Qed.

(* non-vacuity: a two-branch history (in-block create-and-spend, scripts sharing
   a prefix, a type script, prune firing, two rollbacks) meets the hypotheses *)
Theorem c18_example_ops_ok : ops_ok 3 2 ix_empty example_ops = true.
Proof. exact example_ops_ok. Qed.
Theorem c18_example_nontrivial :
  exists s, irun 3 2 ix_empty example_ops = Some s
    /\ live_cells_by_script (ix_store s) true sA = [(3, 1); (5, 0); (8, 0); (22, 0); (23, 0); (24, 0)]%N
    /\ live_cells_by_script (ix_store s) false tT = [(3, 1)]%N
    /\ ix_floor s = 3%N.
Proof. exact example_nontrivial. Qed.

(* the hypotheses of c18_rollback_inverts_append and c18_same_block_create_spend are met *)
Theorem c18_example_rollback_hyps :
  exists s s1 s2, irun 3 2 ix_empty (firstn 6 example_ops) = Some s
    /\ ops_ok 3 2 ix_empty (firstn 6 example_ops) = true
    /\ block_ok (ix_chain s) ex_b6 = true
    /\ istep 3 2 s (OAppend ex_b6) = Some s1
    /\ op_ok s1 ORollback = true
    /\ istep 3 2 s1 ORollback = Some s2
    /\ length (ix_store s1) <> length (ix_store s2).
Proof. exact example_rollback_hyps. Qed.
Theorem c18_example_same_block_hyps :
  exists s, irun 3 2 ix_empty example_ops = Some s
    /\ ix_chain s = [ex_b0] ++ ex_b1 :: [ex_b2; ex_b3; ex_b4; ex_c5; ex_c6; ex_c7]
    /\ b_txs ex_b1 = [cb 2 sC] ++ mkTx 3 [(1, 0)]%N [mkOut sB None 500 []; mkOut sA (Some tT) 400 []]
                      :: [] ++ mkTx 4 [(3, 0)]%N [mkOut sC None 450 []] :: []
    /\ In (3, N.of_nat 0)%N (t_inputs (mkTx 4 [(3, 0)]%N [mkOut sC None 450 []])).
Proof. exact example_same_block_hyps. Qed.
Theorem c18_example_prune_fires :
  exists s6 s7, irun 3 2 ix_empty (firstn 6 example_ops) = Some s6
    /\ irun 3 2 ix_empty (firstn 7 example_ops) = Some s7
    /\ length (ix_store s6) = 62 /\ length (ix_store s7) = 59.
Proof. exact example_prune_fires. Qed.

(* ======================================================================== *)
(* the rich indexer (util/rich-indexer, SQL).  Its rows carry script IDS; the
   scripts live in the table `script`, a row of which is inserted on first use
   and deleted by rollback when no remaining output references its id as lock
   OR type script (reference counting); every query joins the output rows with
   that table.  [ops] is any sequence of appends and rollbacks following a valid
   chain through reorganisations of any depth (rops_ok: every appended block is
   a consistent continuation; any block may be rolled back, down to the empty
   index).  [all_cells ch] is the chain's cell history: every output created on
   the main chain with where it was created and where, if at all, it was consumed. *)

(* rich_eq_filter: every answer — tip, get_cells (any search mode incl.
   partial, filter, order, limit), get_cells_capacity, get_transactions (every
   row of the list) — is the same query put directly to the cell history of the
   main chain *)
Theorem c18_rich_eq_filter : forall ops s,
  rops_ok rs_empty ops = true -> rrun rs_empty ops = Some s ->
  forall q, rich_run (rs_db s) q = spec_run (rs_chain s) q.
Proof. exact rich_eq_filter_all. Qed.

(* the table kept by reference counting: in every reachable state the block
   rows are the main chain, the ids of `script` are unique, and every output row
   read through the table (ids replaced by the scripts they are the keys of) is
   the corresponding cell of the chain's history — no id dangles *)
Theorem c18_rich_rows_resolve : forall ops s,
  rops_ok rs_empty ops = true -> rrun rs_empty ops = Some s ->
  d_blocks (rs_db s) = map (fun b => (b_num b, b_id b)) (rs_chain s) /\
  NoDup (map fst (d_scripts (rs_db s))) /\
  Res (d_scripts (rs_db s)) (d_cells (rs_db s)) (all_cells (rs_chain s)).
Proof. exact rich_rows_resolve. Qed.

(* what the cell history is, in the terms of the first part of this file: its
   unconsumed cells are the live-cell set of the main chain (same order), its
   rows (one per script where a cell was created, one where it was consumed) are
   the transaction history of the main chain *)
Theorem c18_rich_cell_history : forall ops s,
  rops_ok rs_empty ops = true -> rrun rs_empty ops = Some s ->
  a_view (all_cells (rs_chain s)) = live (rs_chain s) /\
  Permutation (a_rows (all_cells (rs_chain s))) (txs (rs_chain s)).
Proof. exact rich_cell_history. Qed.

(* hence: tip, get_cells and get_cells_capacity are the direct filter over the
   live-cell set of the main chain, in chain order … *)
Theorem c18_rich_cells_eq_live_filter : forall ops s,
  rops_ok rs_empty ops = true -> rrun rs_empty ops = Some s ->
  rtip (rs_db s) = chain_tip (rs_chain s) /\
  forall q, rich_get_cells (rs_db s) q = q_cells (live_joined (live (rs_chain s)) q) q /\
            rich_get_capacity (rs_db s) q = q_capacity (live_joined (live (rs_chain s)) q) (chain_tip (rs_chain s)) q.
Proof. exact rich_cells_eq_live_filter. Qed.

(* … and the transaction list of a search by script (any mode, block_range) is
   the direct filter over the transaction history of the main chain, listed by
   (block number, tx index, input before output, io index).  (With one of the
   rich indexer's cell filters — data, capacity, other script — the list is the
   filter over the cell history: c18_rich_eq_filter.) *)
Theorem c18_rich_txs_eq_history : forall ops s,
  rops_ok rs_empty ops = true -> rrun rs_empty ops = Some s ->
  forall q, no_cell_filter (rq_f q) = true ->
    Permutation (q_tx_rows (joined (rs_db s) q) q) (history_rows (rs_chain s) q) /\
    rich_get_txs (rs_db s) q = sort_by row_key (q_tx_rows (joined (rs_db s) q) q).
Proof. exact rich_txs_eq_history. Qed.

(* rolling back the last appended block restores every answer *)
Theorem c18_rich_rollback_inverts_append : forall ops s b s1 s2,
  rops_ok rs_empty ops = true -> rrun rs_empty ops = Some s ->
  block_ok (rs_chain s) b = true ->
  rstep s (OAppend b) = Some s1 -> rstep s1 ORollback = Some s2 ->
  rs_chain s2 = rs_chain s /\ forall q, rich_run (rs_db s2) q = rich_run (rs_db s) q.
Proof. exact rich_rollback_inverts_append_all. Qed.

(* a valid append is never refused (no missing output row, no second `input`
   row for one output) *)
Theorem c18_rich_valid_append_succeeds : forall ops s b,
  rops_ok rs_empty ops = true -> rrun rs_empty ops = Some s ->
  block_ok (rs_chain s) b = true -> exists s1, rstep s (OAppend b) = Some s1.
Proof. exact rich_valid_append_succeeds. Qed.

(* pagination of the ungrouped transaction list (limit + cursor walked to the
   end): a client that follows last_cursor until a page is shorter than the
   limit receives exactly the ordered answer, every row once — for every
   ordered answer and every limit > 0, under the cursor rule of fix 9118212
   (the offset continues from the incoming cursor) … *)
Theorem c18_rich_walk_complete : forall (X : Type) (rows : list (N * X)) limit,
  id_sorted rows -> (0 < limit)%nat -> walk FixedRule rows (S (length rows)) None limit = rows.
Proof. intros X rows limit. exact (walk_fixed_complete rows limit). Qed.
(* … and not under the rule before the fix (offset counted from zero on every
   page): one transaction with two rows and limit 1 — the second row is repeated
   for ever and the next transaction is never reached *)
Theorem c18_rich_walk_old_refuted :
  id_sorted w_rows /\ walk OldRule w_rows (S (length w_rows)) None 1 = [(1, 10); (1, 11); (1, 11); (1, 11)]%N
  /\ walk OldRule w_rows (S (length w_rows)) None 1 <> w_rows
  /\ forall fuel, ~ In (2, 12)%N (walk OldRule w_rows fuel None 1).
Proof. exact walk_old_refuted. Qed.

(* Refuted with a witness: the garbage collection that counts lock references
   only (script_exists_in_output never looking at its second query).  Rolling
   back block 1 of a valid 2-block history deletes the row of a type script
   that a live cell of block 0 carries: get_cells / get_transactions /
   get_cells_capacity by that type script answer [] / [] / null, get_cells by the
   cell's lock shows it without a type script. *)
Theorem c18_rich_gc_ignoring_type_refs_refuted :
  exists (ops : list iop) (s : rstate) (c : lcell),
    rops_ok_gen GcLockOnly rs_empty ops = true /\ rrun_gen GcLockOnly rs_empty ops = Some s /\
    In c (live (rs_chain s)) /\ o_type (lc_out c) = Some w_token /\
    rich_run (rs_db s) (RQCells w_q_token) = RACells [] /\
    rich_run (rs_db s) (RQTxs w_q_token) = RATxs [] /\
    rich_run (rs_db s) (RQCap w_q_token) = RACap None /\
    rich_run (rs_db s) (RQCells w_q_alice) = RACells [(1, 0, 0, 0, 1000, Some w_alice, None, [1])]%N /\
    spec_run (rs_chain s) (RQCells w_q_token) = RACells [(1, 0, 0, 0, 1000, Some w_alice, Some w_token, [1])]%N.
Proof. exact rich_gc_ignoring_type_refs_refuted. Qed.

(* non-vacuity: a history with a reorganisation, a cell created and consumed in
   one block, a type script shared across blocks and never used as a lock *)
Theorem c18_rich_example_ops_ok : rops_ok rs_empty w_ops = true.
Proof. exact rich_example_ops_ok. Qed.
Theorem c18_rich_example_nontrivial :
  exists s, rrun rs_empty w_ops = Some s
    /\ rich_run (rs_db s) (RQCells w_q_token) =
         RACells [(6, 0, 1, 1, 1000, Some w_bob, Some w_token, [1]); (3, 0, 2, 1, 2000, Some w_bob, Some w_token, [2])]%N
    /\ rich_run (rs_db s) (RQTxs w_q_token) =
         RATxs [(1, 0, 0, 0, true); (6, 1, 1, 0, false); (6, 1, 1, 0, true); (3, 2, 1, 0, true)]%N
    /\ rich_run (rs_db s) (RQCap w_q_token) = RACap (Some (3000, 2, 202))%N
    /\ rich_run (rs_db s) (RQCells w_q_bobs) = RACells [(3, 0, 2, 1, 2000, Some w_bob, Some w_token, [2])]%N
    /\ length (d_scripts (rs_db s)) = 5%nat.
Proof. exact rich_example_nontrivial. Qed.
(* the hypotheses of c18_rich_rollback_inverts_append are met, by a block that
   brings new scripts and shares a type script with an older live cell *)
Theorem c18_rich_example_rollback_hyps :
  exists s s1 s2, rrun rs_empty [OAppend w_b0] = Some s
    /\ rops_ok rs_empty [OAppend w_b0] = true
    /\ block_ok (rs_chain s) w_b1 = true
    /\ rstep s (OAppend w_b1) = Some s1 /\ rstep s1 ORollback = Some s2
    /\ length (d_scripts (rs_db s)) = 3%nat /\ length (d_scripts (rs_db s1)) = 5%nat
    /\ rs_db s2 = rs_db s.
Proof. exact rich_example_rollback_hyps. Qed.

Redirect "out/C18.c18_indexer_eq_filter" Print Assumptions c18_indexer_eq_filter.
Redirect "out/C18.c18_canon_store_is_replay" Print Assumptions c18_canon_store_is_replay.
Redirect "out/C18.c18_indexer_eq_filter_rows" Print Assumptions c18_indexer_eq_filter_rows.
Redirect "out/C18.c18_indexer_eq_filter_scans" Print Assumptions c18_indexer_eq_filter_scans.
Redirect "out/C18.c18_valid_append_never_panics" Print Assumptions c18_valid_append_never_panics.
Redirect "out/C18.c18_rollback_inverts_append" Print Assumptions c18_rollback_inverts_append.
Redirect "out/C18.c18_same_block_create_spend" Print Assumptions c18_same_block_create_spend.
Redirect "out/C18.c18_prune_keeps_live" Print Assumptions c18_prune_keeps_live.
Redirect "out/C18.c18_prune_keeps_tip" Print Assumptions c18_prune_keeps_tip.
Redirect "out/C18.c18_example_rollback_hyps" Print Assumptions c18_example_rollback_hyps.
Redirect "out/C18.c18_example_same_block_hyps" Print Assumptions c18_example_same_block_hyps.
Redirect "out/C18.c18_example_prune_fires" Print Assumptions c18_example_prune_fires.
Redirect "out/C18.c18_same_answers" Print Assumptions c18_same_answers.
Redirect "out/C18.c18_scan_sorted" Print Assumptions c18_scan_sorted.
Redirect "out/C18.c18_exact_mode_cell_rows" Print Assumptions c18_exact_mode_cell_rows.
Redirect "out/C18.c18_exact_mode_tx_rows" Print Assumptions c18_exact_mode_tx_rows.
Redirect "out/C18.c18_prefix_mode_cell_rows" Print Assumptions c18_prefix_mode_cell_rows.
Redirect "out/C18.c18_prefix_mode_tx_rows" Print Assumptions c18_prefix_mode_tx_rows.
Redirect "out/C18.c18_prefix_search_refuted" Print Assumptions c18_prefix_search_refuted.
Redirect "out/C18.c18_transactions_page" Print Assumptions c18_transactions_page.
Redirect "out/C18.c18_cells_page" Print Assumptions c18_cells_page.
Redirect "out/C18.c18_capacity_old_refuted" Print Assumptions c18_capacity_old_refuted.
Redirect "out/C18.c18_example_ops_ok" Print Assumptions c18_example_ops_ok.
Redirect "out/C18.c18_example_nontrivial" Print Assumptions c18_example_nontrivial.
Redirect "out/C18.c18_rich_eq_filter" Print Assumptions c18_rich_eq_filter.
Redirect "out/C18.c18_rich_rows_resolve" Print Assumptions c18_rich_rows_resolve.
Redirect "out/C18.c18_rich_cell_history" Print Assumptions c18_rich_cell_history.
Redirect "out/C18.c18_rich_cells_eq_live_filter" Print Assumptions c18_rich_cells_eq_live_filter.
Redirect "out/C18.c18_rich_txs_eq_history" Print Assumptions c18_rich_txs_eq_history.
Redirect "out/C18.c18_rich_rollback_inverts_append" Print Assumptions c18_rich_rollback_inverts_append.
Redirect "out/C18.c18_rich_valid_append_succeeds" Print Assumptions c18_rich_valid_append_succeeds.
Redirect "out/C18.c18_rich_gc_ignoring_type_refs_refuted" Print Assumptions c18_rich_gc_ignoring_type_refs_refuted.
Redirect "out/C18.c18_rich_example_ops_ok" Print Assumptions c18_rich_example_ops_ok.
Redirect "out/C18.c18_rich_example_nontrivial" Print Assumptions c18_rich_example_nontrivial.
Redirect "out/C18.c18_rich_example_rollback_hyps" Print Assumptions c18_rich_example_rollback_hyps.
Redirect "out/C18.c18_rich_walk_complete" Print Assumptions c18_rich_walk_complete.
Redirect "out/C18.c18_rich_walk_old_refuted" Print Assumptions c18_rich_walk_old_refuted.
