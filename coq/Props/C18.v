(* Props/C18.v — the theorems that decide property C18.  Statements only. *)
From CKB Require Import Indexer.Indexer Indexer.Query Indexer.Canon Indexer.SameAnswers
  Indexer.ScriptMatch Indexer.Paging Indexer.QueryProofs Indexer.IndexerExamples.
From Coq Require Import Permutation Sorted.

(* Every answer of the query layer — tip, live cells / transactions by script,
   get_cells, get_cells_capacity, get_transactions (ungrouped and grouped), for
   every search mode, filter, order, limit and cursor — is a function of the
   live rows only: two stores with the same tip, the same rows in the four
   script-indexed tables (as sets) and the same OutPoint / TxLockScript /
   TxTypeScript point reads answer every query identically. *)
Theorem c18_same_answers : forall st st',
  live_equiv st st' -> rows_inj st -> forall q, run_query st q = run_query st' q.
Proof. exact same_answers. Qed.

(* answers are listed in key order *)
Theorem c18_scan_sorted : forall lock p st,
  StronglySorted (fun x y => lex_leb (crow_key x) (crow_key y) = true) (scan_cells lock p st) /\
  StronglySorted (fun x y => lex_leb (trow_key x) (trow_key y) = true) (scan_txs lock p st).
Proof. intros lock p st. exact (conj (sort_by_sorted crow_key _) (sort_by_sorted trow_key _)). Qed.

(* exact mode selects exactly the rows of the searched script *)
Theorem c18_exact_mode_cell_rows : forall p r,
  (is_prefix p (crow_key r) = true /\ length (crow_key r) = length p + 16) <-> cr_s r = p.
Proof. exact exact_mode_cell_rows. Qed.
Theorem c18_exact_mode_tx_rows : forall p r,
  (is_prefix p (trow_key r) = true /\ length (trow_key r) = length p + 17) <-> tr_s r = p.
Proof. exact exact_mode_tx_rows. Qed.

(* prefix mode selects the rows whose script starts with the searched bytes —
   for every row whose script is not shorter than the searched bytes *)
Theorem c18_prefix_mode_cell_rows : forall p r,
  length p <= length (cr_s r) -> is_prefix p (crow_key r) = is_prefix p (cr_s r).
Proof. exact prefix_mode_cell_rows. Qed.
Theorem c18_prefix_mode_tx_rows : forall p r,
  length p <= length (tr_s r) -> is_prefix p (trow_key r) = is_prefix p (tr_s r).
Proof. exact prefix_mode_tx_rows. Qed.

(* Known class (rows with a SHORTER script): in prefix mode the searched bytes
   are compared with the KEY (script ++ block number ++ tx index ++ output
   index), so a search whose bytes continue past a shorter script into that
   script's block-number bytes returns that script's cells.  Witness on a valid
   one-block chain. *)
Theorem c18_prefix_search_refuted :
  exists (ops : list iop) (s : istate) (p : script) (op : outpoint) (c : lcell),
    ops_ok 10 1000 ix_empty ops = true /\ irun 10 1000 ix_empty ops = Some s /\
    In op (live_cells_by_script (ix_store s) true p) /\
    lookup_cell (live (ix_chain s)) op = Some c /\
    is_prefix p (o_lock (lc_out c)) = false.
Proof. exact prefix_search_refuted. Qed.

(* limits: a page holds the first [limit] elements of the filtered row sequence *)
Theorem c18_transactions_page : forall st q,
  fst (get_transactions st q) =
  map (fun r => (tr_tx r, tr_bn r, tr_txi r, tr_ioi r, tr_out r))
      (firstn (sq_limit q)
         (filter (txs_keep st q)
            (iter_rows trow_key (tx_rows (sq_lock q) st) (sq_script q) (sq_desc q) (sq_after q)))).
Proof. exact get_transactions_objects. Qed.
Theorem c18_cells_page : forall st q cap rows full,
  collect_cells st q cap (S (length rows)) rows = Some full ->
  forall lim, collect_cells st q cap lim rows = Some (firstn lim full).
Proof. exact collect_cells_firstn. Qed.

(* the defect repaired by fix b7a7b39: get_cells_capacity counted cells whose
   script length equals the upper bound of script_len_range; get_cells did not *)
Theorem c18_capacity_old_refuted :
  get_cells (ix_store w_state) w_capq = Some ([], []) /\
  get_cells_capacity_old (ix_store w_state) w_capq = Some (Some (100, 0, 1))%N.
Proof. exact capacity_old_refuted. Qed.

(* non-vacuity: a two-branch history (in-block create-and-spend, scripts sharing
   a prefix, a type script, prune firing, two rollbacks) meets the hypotheses *)
Theorem c18_example_ops_ok : ops_ok 3 2 ix_empty example_ops = true.
Proof. exact example_ops_ok. Qed.
Theorem c18_example_nontrivial :
  exists s, irun 3 2 ix_empty example_ops = Some s
    /\ live_cells_by_script (ix_store s) true sA = [(3, 1); (5, 0); (8, 0); (22, 0); (23, 0); (24, 0)]%N
    /\ live_cells_by_script (ix_store s) false tT = [(3, 1)]%N
    /\ ix_floor s = 3%N.
Proof. exact example_nontrivial. Qed.

Redirect "out/C18.c18_same_answers" Print Assumptions c18_same_answers.
Redirect "out/C18.c18_scan_sorted" Print Assumptions c18_scan_sorted.
Redirect "out/C18.c18_exact_mode_cell_rows" Print Assumptions c18_exact_mode_cell_rows.
Redirect "out/C18.c18_exact_mode_tx_rows" Print Assumptions c18_exact_mode_tx_rows.
Redirect "out/C18.c18_prefix_mode_cell_rows" Print Assumptions c18_prefix_mode_cell_rows.
Redirect "out/C18.c18_prefix_mode_tx_rows" Print Assumptions c18_prefix_mode_tx_rows.
Redirect "out/C18.c18_prefix_search_refuted" Print Assumptions c18_prefix_search_refuted.
Redirect "out/C18.c18_transactions_page" Print Assumptions c18_transactions_page.
Redirect "out/C18.c18_cells_page" Print Assumptions c18_cells_page.
Redirect "out/C18.c18_capacity_old_refuted" Print Assumptions c18_capacity_old_refuted.
Redirect "out/C18.c18_example_ops_ok" Print Assumptions c18_example_ops_ok.
Redirect "out/C18.c18_example_nontrivial" Print Assumptions c18_example_nontrivial.
