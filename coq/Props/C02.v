(* Props/C02.v — the theorems that decide property C02.  Statements only. *)
From CKB Require Import Chain.Store Chain.StoreProofs Chain.StoreExamples Chain.EpochRecord Chain.EpochRecordProofs Chain.EpochIndex Chain.EpochIndexProofs.

(* Detaching a block (detach_block, then detach_block_cell) is the exact
   inverse of attaching it, on every column: live cells, transaction
   locations, number<->hash index, included uncles. *)
Theorem c02_detach_inverse : forall s b, WF s -> valid_on s b -> seqv (detach (attach s b) b) s.
Proof. exact detach_attach. Qed.

(* After a reorganisation of any depth — rollback of the detached blocks,
   newest first, then attaching the new branch (which may be empty: a
   truncation; may re-commit transactions of the detached branch; may spend
   cells the detached branch had spent) — the columns equal a replay of the
   new main chain from genesis. *)
Theorem c02_reorg_is_replay : forall common detached attached,
  valid_chain empty_store (common ++ detached) ->
  seqv (reorg (replay (common ++ detached)) detached attached) (replay (common ++ attached)).
Proof. exact reorg_is_replay. Qed.

(* replay states are well-formed: every live cell's creating transaction is
   indexed at the location the cell entry records *)
Theorem c02_replay_wf : forall bs s, WF s -> valid_chain s bs -> WF (fold_left attach bs s).
Proof. exact attach_all_WF. Qed.

(* the maintenance functions depend on the columns only through their contents *)
Theorem c02_attach_ext : forall s s' b, seqv s s' -> seqv (attach s b) (attach s' b).
Proof. exact attach_ext. Qed.
Theorem c02_detach_ext : forall s s' b, seqv s s' -> seqv (detach s b) (detach s' b).
Proof. exact detach_ext. Qed.

(* non-vacuity *)
Theorem c02_example_valid : valid_chain empty_store ([g0] ++ [b1; b2]).
Proof. exact ex_chain_valid. Qed.
Theorem c02_example_reorg :
  let s := reorg (replay ([g0] ++ [b1; b2])) [b1; b2] [c1] in
  cells s (2%N, 0%nat) = None /\ cells s (2%N, 1%nat) = Some (mkCM 0 1) /\
  cells s (11%N, 0%nat) = Some (mkCM 3 1) /\ cells s (12%N, 0%nat) = None /\
  txinfo s 11%N = Some (mkTL 3 1) /\ txinfo s 12%N = None /\ num2id s 1%nat = Some 3%N /\ num2id s 2%nat = None /\
  uncles s 2%N = true.
Proof. exact ex_reorg_result. Qed.

(* The stored current-epoch record (what a restart loads as the snapshot's epoch): after any history of
   extensions — through any number of attached blocks, verified before (re-attached above a truncated
   tip, a branch returned to) or not — and reorganisations, the record written by verify_block's rule
   `new_epoch || has_detached || tip's epoch number != the block's` is the epoch of the tip block. *)
Theorem c02_epoch_record_follows_tip : forall es, record_ok (erun code_rule einit es).
Proof. exact record_follows_tip. Qed.

(* F17 (repaired by 8b241df): without the number comparison an extension whose attached part crosses
   the first block of an epoch and ends on a later block of it leaves the record one epoch behind *)
Theorem c02_epoch_record_old_rule_refuted :
  let s := erun old_rule einit [EExtend [true; false]] in
  tip_eid s = 1 /\ record s = 0 /\ record s <> tip_eid s.
Proof. exact old_rule_refuted. Qed.

Theorem c02_epoch_record_example :
  let s := erun code_rule einit [EExtend [false; false]; EExtend [true; false]; EReorg [false]; EExtend [false; true]] in
  record s = tip_eid s /\ tip_enum s = 2.
Proof. exact code_rule_example. Qed.

(* The epoch-by-number index (get_epoch_index: RPC get_epoch_by_number, the freezer's threshold): after
   any sequence of attaches, detaches (reorganisations, truncations) and verifications of side-branch
   blocks — where each attached block that opens an epoch is the only one of the main chain to open
   that epoch — the row of every number is the epoch record of the main-chain block that opens that
   epoch, and there is no row where the main chain has no such block. *)
Theorem c02_epoch_index_follows_main_chain : forall ops g,
  ops_ok false (xinit g) ops ->
  let s := xrun false (xinit g) ops in
  forall n, ilookup (x_index s) n = main_epoch (x_main s) n.
Proof. exact epoch_index_follows_main_chain. Qed.

(* F20 (repaired by 427fd10): with the row also written when a side-branch block that opens an epoch is
   verified, the index designates the side branch's epoch *)
Theorem c02_epoch_index_side_writes_refuted :
  let ops := [XAttach ex_a; XSideVerified ex_side] in
  ops_ok true (xinit ex_g) ops /\
  ilookup (x_index (xrun true (xinit ex_g) ops)) 1 = Some 21 /\
  main_epoch (x_main (xrun true (xinit ex_g) ops)) 1 = Some 11 /\
  ilookup (x_index (xrun false (xinit ex_g) ops)) 1 = Some 11.
Proof. exact side_writes_refuted. Qed.

Theorem c02_epoch_index_example :
  let ops := [XAttach ex_a; XSideVerified ex_side; XDetach; XAttach ex_side; XDetach] in
  ops_ok false (xinit ex_g) ops /\
  ilookup (x_index (xrun false (xinit ex_g) (firstn 4 ops))) 1 = Some 21 /\
  ilookup (x_index (xrun false (xinit ex_g) ops)) 1 = None /\
  ilookup (x_index (xrun false (xinit ex_g) ops)) 0 = Some 10.
Proof. exact epoch_index_example. Qed.

Redirect "out/C02.c02_detach_inverse" Print Assumptions c02_detach_inverse.
Redirect "out/C02.c02_reorg_is_replay" Print Assumptions c02_reorg_is_replay.
Redirect "out/C02.c02_replay_wf" Print Assumptions c02_replay_wf.
Redirect "out/C02.c02_attach_ext" Print Assumptions c02_attach_ext.
Redirect "out/C02.c02_detach_ext" Print Assumptions c02_detach_ext.
Redirect "out/C02.c02_example_valid" Print Assumptions c02_example_valid.
Redirect "out/C02.c02_example_reorg" Print Assumptions c02_example_reorg.
Redirect "out/C02.c02_epoch_record_follows_tip" Print Assumptions c02_epoch_record_follows_tip.
Redirect "out/C02.c02_epoch_record_old_rule_refuted" Print Assumptions c02_epoch_record_old_rule_refuted.
Redirect "out/C02.c02_epoch_record_example" Print Assumptions c02_epoch_record_example.
Redirect "out/C02.c02_epoch_index_follows_main_chain" Print Assumptions c02_epoch_index_follows_main_chain.
Redirect "out/C02.c02_epoch_index_side_writes_refuted" Print Assumptions c02_epoch_index_side_writes_refuted.
Redirect "out/C02.c02_epoch_index_example" Print Assumptions c02_epoch_index_example.
