(* Props/C09.v — the theorems that decide property C09.  Statements only;
   every proof is [exact <lemma>].  Do not weaken: tools/audit.py pins the
   hash of this file's statements. *)
From CKB Require Import Freezer.Files Freezer.Machine Freezer.Repair Freezer.MachineProofs Freezer.IndexCodec Freezer.Cursor Freezer.CursorProofs.

(* Any history of appends, truncations, re-opens and crashes (index cut to any
   byte length that keeps the sentinel, newest data file cut to any length)
   runs without error and ends in a clean state that represents a list
   obtained from the abstract specification: appends add, truncations keep
   the oldest items, a re-open changes nothing, a crash loses at most a
   suffix (in time) of the items. *)
Theorem c09_refines_list : forall max ops s xs,
  Clean s xs -> exists s' xs', run max s ops = Some s' /\ Clean s' xs' /\ spec_run xs ops xs'.
Proof. intros max ops. exact (run_refines max ops). Qed.

(* No history invents, reorders or corrupts an item: after any appends,
   truncations, re-opens and crashes the list is (newest first) items this
   history appended in front of an oldest part of the initial list, unchanged
   and in order; the machine runs every such history and ends clean on it. *)
Theorem c09_spec_run_shape : forall xs ops xs',
  spec_run xs ops xs' ->
  exists new m, xs' = new ++ skipn m xs /\ (forall x, In x new -> In (OAppend x) ops).
Proof. exact spec_run_shape. Qed.

Theorem c09_run_keeps_items : forall max ops s xs,
  Clean s xs ->
  exists s' new m, run max s ops = Some s' /\ Clean s' (new ++ skipn m xs) /\
                   (forall x, In x new -> In (OAppend x) ops).
Proof. exact run_keeps_items. Qed.

Theorem c09_fresh_clean : Clean fresh [].
Proof. exact fresh_clean. Qed.

(* A clean state answers number() and retrieve(i) byte-for-byte like the list. *)
Theorem c09_clean_answers : forall s xs,
  Clean s xs ->
  number s = S (length xs) /\
  (forall i, 1 <= i <= length xs ->
     exists x, item_at xs i = Some x /\ retrieve s i = Some (Some x)) /\
  (forall i, i < 1 \/ length xs < i -> retrieve s i = Some None).
Proof. exact clean_answers. Qed.

(* Crash repair: re-opening succeeds, yields a prefix (in time) of the items,
   and drops only index entries whose data did not fully survive. *)
Theorem c09_repair_prefix : forall s xs k c,
  Clean s xs -> 1 <= k ->
  exists s' m,
    build (cut_index k (ridx s)) (cut_file (hid s) c (files s)) = Some s' /\
    Clean s' (skipn m xs) /\
    length (ridx s) - k <= m <= length xs /\
    (forall e, In e (firstn (m - (length (ridx s) - k)) (cut_index k (ridx s))) ->
               fid e = hid s /\ c < off e) /\
    ridx s' = skipn (m - (length (ridx s) - k)) (cut_index k (ridx s)).
Proof. exact build_after_crash. Qed.

(* n is at least the number of items whose data and index entry were both
   fully written: every such entry is still in the index after the repair. *)
Theorem c09_repair_keeps_written : forall s xs k c s',
  Clean s xs -> 1 <= k ->
  build (cut_index k (ridx s)) (cut_file (hid s) c (files s)) = Some s' ->
  forall e, In e (cut_index k (ridx s)) -> (fid e < hid s \/ off e <= c) -> In e (ridx s').
Proof. exact build_after_crash_keeps. Qed.

Theorem c09_reopen_identity : forall s xs,
  Clean s xs -> exists s', build (ridx s) (files s) = Some s' /\ Clean s' xs.
Proof. exact build_clean. Qed.

(* the byte layout of the index *)
Theorem c09_index_entry_roundtrip : forall e, entry_in_range e -> decode_entry (encode_entry e) = e.
Proof. exact index_entry_roundtrip. Qed.

Theorem c09_parse_index : forall es junk,
  Forall entry_in_range es -> (length junk < 12)%nat ->
  parse_index (S (length es)) (concat (map encode_entry es) ++ junk) = es.
Proof. exact parse_index_concat. Qed.

(* non-vacuity: a concrete clean state with a rollover *)
Theorem c09_example_clean : Clean f1_state [f1_item 4; f1_item 3; f1_item 2; f1_item 1].
Proof. exact f1_state_clean. Qed.

(* F1: the repair loop as it was before the fix loses every item on the
   witness; the repaired loop keeps the three fully written ones. *)
Theorem c09_build_old_refuted :
  exists s', build_old (cut_index 5 (ridx f1_state)) (cut_file (hid f1_state) 0 (files f1_state)) = Some s'
             /\ number s' = 1.
Proof. exact build_old_refuted. Qed.

Theorem c09_build_fixed_on_witness :
  exists s', build (cut_index 5 (ridx f1_state)) (cut_file (hid f1_state) 0 (files f1_state)) = Some s'
             /\ number s' = 4
             /\ dump s' = [Some (Some (f1_item 1)); Some (Some (f1_item 2)); Some (Some (f1_item 3))].
Proof. exact build_fixed_on_f1. Qed.

(* Reads do not disturb the freezer: a history with retrieve(i) calls of any
   items at any points (each leaves the cursor that the head file's write
   handle shares behind the item it read) refines the abstract list exactly
   like the history without them, and reaches the very same state. *)
Theorem c09_reads_refine : forall max ops cs xs,
  Clean (c_st cs) xs ->
  exists cs' xs', crun true max cs ops = Some cs' /\ Clean (c_st cs') xs' /\ spec_run xs (strip ops) xs'.
Proof. intros max ops. exact (crun_refines max ops). Qed.

Theorem c09_reads_same_state : forall max ops cs xs,
  Clean (c_st cs) xs ->
  option_map c_st (crun true max cs ops) = run max (c_st cs) (strip ops).
Proof. intros max ops. exact (crun_is_run max ops). Qed.

(* F12: with Head::write as it was (writing at the shared cursor) a read
   between two appends makes the later append overwrite a frozen item *)
Theorem c09_cursor_old_refuted :
  exists cs, crun false 100 cfresh f12_ops = Some cs /\
             retrieve (c_st cs) 2 <> Some (Some [2; 2; 2; 2]%N) /\
             number (c_st cs) = 4.
Proof. exact cursor_old_refuted. Qed.

Theorem c09_cursor_fixed_on_witness :
  exists cs, crun true 100 cfresh f12_ops = Some cs /\
             map (retrieve (c_st cs)) [1; 2; 3] = [Some (Some [1; 1; 1; 1]%N); Some (Some [2; 2; 2; 2]%N); Some (Some [3; 3; 3; 3]%N)].
Proof. exact cursor_fixed_on_witness. Qed.

Redirect "out/C09.c09_refines_list" Print Assumptions c09_refines_list.
Redirect "out/C09.c09_spec_run_shape" Print Assumptions c09_spec_run_shape.
Redirect "out/C09.c09_run_keeps_items" Print Assumptions c09_run_keeps_items.
Redirect "out/C09.c09_fresh_clean" Print Assumptions c09_fresh_clean.
Redirect "out/C09.c09_clean_answers" Print Assumptions c09_clean_answers.
Redirect "out/C09.c09_repair_prefix" Print Assumptions c09_repair_prefix.
Redirect "out/C09.c09_repair_keeps_written" Print Assumptions c09_repair_keeps_written.
Redirect "out/C09.c09_reopen_identity" Print Assumptions c09_reopen_identity.
Redirect "out/C09.c09_index_entry_roundtrip" Print Assumptions c09_index_entry_roundtrip.
Redirect "out/C09.c09_parse_index" Print Assumptions c09_parse_index.
Redirect "out/C09.c09_example_clean" Print Assumptions c09_example_clean.
Redirect "out/C09.c09_build_old_refuted" Print Assumptions c09_build_old_refuted.
Redirect "out/C09.c09_build_fixed_on_witness" Print Assumptions c09_build_fixed_on_witness.
Redirect "out/C09.c09_reads_refine" Print Assumptions c09_reads_refine.
Redirect "out/C09.c09_reads_same_state" Print Assumptions c09_reads_same_state.
Redirect "out/C09.c09_cursor_old_refuted" Print Assumptions c09_cursor_old_refuted.
Redirect "out/C09.c09_cursor_fixed_on_witness" Print Assumptions c09_cursor_fixed_on_witness.
