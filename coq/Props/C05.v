(* Props/C05.v — the theorems that decide property C05 (script verdict and
   cycle count do not depend on how execution is chunked).  Statements only;
   every proof is [exact <lemma>].  Do not weaken: tools/vcheck.py pins the
   hash of this file's statements.

   M is any script-group machine (Section variables of Script/Chunk.v,
   bundled), Sp its intrinsic behaviour; [Behaved M Sp] is H1-H3 of the design
   (determinism, chunk additivity, schedule-independent failure) and
   [Progressive M Sp] says a limit of at least [atom g] advances group g.
   tx_cost = cycles of the uninterrupted run (to success or to the failure),
   tx_total <= U64_MAX is the no-overflow side condition (sum over all groups). *)
From Coq Require Import List NArith.
From CKB Require Import Script.Chunk Script.ChunkSpec Script.ChunkProofs Script.Toy Script.ToyProofs.
Import ListNotations.
Local Open Scope N_scope.

(* every chain resumable_verify(l0), resume_from_state(.., l) for l in ls, of
   any chunk sizes, either is still suspended (in a state from which the rest
   of this theorem applies again) or has ended with exactly the answer of
   verify(max) for any budget max >= cost: same success with the same total
   cycles, or the same failure of the same group *)
Theorem c05_chunked_eq_whole : forall (M : machine) (Sp : mspec M), Behaved M Sp ->
  forall tx l0 ls max,
    l0 <= U64_MAX -> Forall (fun l => l <= U64_MAX) ls -> tx_total M Sp tx <= U64_MAX -> tx_cost M Sp tx <= max ->
    match run_chunks_m M tx l0 ls with
    | ROk (VSuspended ts) => Good M Sp tx ts
    | r => r = lift_result M (verify_m M tx max)
    end.
Proof. exact chunked_eq_whole. Qed.

(* the same from any captured state: one more chunk keeps the invariant or ends with the uninterrupted answer *)
Theorem c05_resume_preserves : forall (M : machine) (Sp : mspec M), Behaved M Sp ->
  forall tx ts limit,
    limit <= U64_MAX -> tx_total M Sp tx <= U64_MAX -> Good M Sp tx ts ->
    ChunkOK M Sp tx (resume_from_state_m M tx ts limit).
Proof. exact resume_from_state_ok. Qed.

(* a budget below the uninterrupted cost never succeeds and reports the cycle limit *)
Theorem c05_budget_below_cost_fails : forall (M : machine) (Sp : mspec M), Behaved M Sp ->
  forall tx max,
    tx_total M Sp tx <= U64_MAX -> max < tx_cost M Sp tx ->
    exists k n, verify_m M tx max = RErr (Some k) (ExceededMaximumCycles n) /\ n <= max.
Proof. exact verify_below_cost. Qed.

(* a budget of at least the cost behaves exactly like the unlimited run *)
Theorem c05_budget_at_least_cost_eq_unlimited : forall (M : machine) (Sp : mspec M), Behaved M Sp ->
  forall tx max,
    tx_total M Sp tx <= U64_MAX -> tx_cost M Sp tx <= max ->
    verify_m M tx max = verify_m M tx U64_MAX.
Proof. exact verify_budget_eq_unlimited. Qed.

Theorem c05_unlimited_is_the_walk : forall (M : machine) (Sp : mspec M), Behaved M Sp ->
  forall tx, tx_total M Sp tx <= U64_MAX -> verify_m M tx U64_MAX = tx_result M Sp tx.
Proof. exact verify_unlimited. Qed.

(* termination: with every limit at least the largest atomic step of the
   transaction (1 000 000 for a TYPE_ID group), tx_total + #groups chunks are
   enough for the run to end, with the uninterrupted answer *)
Theorem c05_progress : forall (M : machine) (Sp : mspec M), Behaved M Sp -> Progressive M Sp ->
  forall tx l0 ls,
    l0 <= U64_MAX -> Forall (fun l => tx_atom M Sp tx <= l <= U64_MAX) ls -> tx_total M Sp tx <= U64_MAX ->
    tx_total M Sp tx + N.of_nat (length tx) <= N.of_nat (length ls) ->
    run_chunks_m M tx l0 ls = lift_result M (tx_result M Sp tx).
Proof. exact progress. Qed.

(* complete(state, max) with max >= cost answers like the unlimited run *)
Theorem c05_complete_budget_at_least_cost : forall (M : machine) (Sp : mspec M), Behaved M Sp ->
  forall tx ts max,
    max <= U64_MAX -> tx_total M Sp tx <= U64_MAX -> Good M Sp tx ts -> tx_cost M Sp tx <= max ->
    complete_m M tx ts max = tx_result M Sp tx.
Proof. exact complete_at_least_cost. Qed.

(* complete below the cost: PARTIAL. Shown: it reports the limit when the
   suspended group has not consumed anything yet, and whenever it succeeds the
   total is the true one and cost <= max + cycles already consumed by the
   suspended group.  Not shown, because false of the code:
   max < cost => failure (c05_complete_budget_refuted). *)
Theorem c05_complete_budget_below_cost_partial : forall (M : machine) (Sp : mspec M), Behaved M Sp ->
  forall tx ts max,
    max <= U64_MAX -> tx_total M Sp tx <= U64_MAX -> Good M Sp tx ts ->
    ts_progress M Sp tx ts = 0 -> max < tx_cost M Sp tx ->
    exists k, complete_m M tx ts max = RErr (Some k) (ExceededMaximumCycles max).
Proof. exact complete_below_cost_fresh. Qed.

Theorem c05_complete_success_bound_partial : forall (M : machine) (Sp : mspec M), Behaved M Sp ->
  forall tx ts max c,
    tx_total M Sp tx <= U64_MAX -> Good M Sp tx ts -> complete_m M tx ts max = ROk c ->
    tx_result M Sp tx = ROk c /\ c = tx_cost M Sp tx /\ c <= max + ts_progress M Sp tx ts.
Proof. exact complete_ok_bound. Qed.

Theorem c05_complete_budget_refuted :
  exists tx ts max,
    run_chunks_m toy tx 3 [] = ROk (VSuspended ts) /\
    max < tx_cost toy toy_spec tx /\
    complete_m toy tx ts max = ROk (tx_cost toy toy_spec tx).
Proof. exact complete_budget_refuted. Qed.

(* pause/resume signals, any timing: with a budget >= cost the answer is the unlimited one *)
Theorem c05_signal_budget_at_least_cost : forall (M : machine) (Sp : mspec M), Behaved M Sp ->
  forall tx limit pauses,
    tx_total M Sp tx <= U64_MAX -> tx_cost M Sp tx <= limit ->
    signal_m M tx limit pauses = tx_result M Sp tx.
Proof. exact signal_at_least_cost. Qed.

(* ... but below the cost a Suspend/Resume lets the run succeed: every Resume
   restarts the group's budget (false of the code: limit < cost => failure) *)
Theorem c05_signal_budget_refuted :
  exists tx limit pauses,
    limit < tx_cost toy toy_spec tx /\
    signal_m toy tx limit pauses = ROk (tx_cost toy toy_spec tx) /\
    verify_m toy tx limit = RErr (Some 0%nat) (ExceededMaximumCycles limit).
Proof. exact signal_budget_refuted. Qed.

(* the hypotheses are satisfiable: the step-list machine of Script/Toy.v meets them *)
Theorem toy_satisfies_H : Behaved toy toy_spec /\ Progressive toy toy_spec.
Proof. exact (conj toy_behaved toy_progressive). Qed.

(* non-vacuity: a three-group transaction (script, TYPE_ID, script) of the toy
   machine, whole and in chunks *)
Theorem c05_example_whole : verify_m toy tx3 U64_MAX = ROk 1000015.
Proof. exact toy_whole. Qed.
Theorem c05_example_chunked : run_chunks_m toy tx3 5 [5; 999999; 1000000; 2; 100] = ROk (VCompleted 1000015).
Proof. exact toy_chunked. Qed.
Theorem c05_example_failure :
  verify_m toy [g34; gbad; g25] U64_MAX = RErr (Some 1%nat) (ScriptFailure 9) /\
  run_chunks_m toy [g34; gbad; g25] 4 [4; 6] = RErr (Some 1%nat) (ScriptFailure 9) /\
  verify_m toy [g34; gbad; g25] 12 = RErr (Some 1%nat) (ExceededMaximumCycles 5).
Proof. exact toy_failure_same_under_chunks. Qed.
Theorem c05_example_side_conditions : tx_total toy toy_spec tx3 <= U64_MAX /\ tx_cost toy toy_spec tx3 = 1000015.
Proof. exact toy_total_small. Qed.

Redirect "out/C05.c05_chunked_eq_whole" Print Assumptions c05_chunked_eq_whole.
Redirect "out/C05.c05_resume_preserves" Print Assumptions c05_resume_preserves.
Redirect "out/C05.c05_budget_below_cost_fails" Print Assumptions c05_budget_below_cost_fails.
Redirect "out/C05.c05_budget_at_least_cost_eq_unlimited" Print Assumptions c05_budget_at_least_cost_eq_unlimited.
Redirect "out/C05.c05_unlimited_is_the_walk" Print Assumptions c05_unlimited_is_the_walk.
Redirect "out/C05.c05_progress" Print Assumptions c05_progress.
Redirect "out/C05.c05_complete_budget_at_least_cost" Print Assumptions c05_complete_budget_at_least_cost.
Redirect "out/C05.c05_complete_budget_below_cost_partial" Print Assumptions c05_complete_budget_below_cost_partial.
Redirect "out/C05.c05_complete_success_bound_partial" Print Assumptions c05_complete_success_bound_partial.
Redirect "out/C05.c05_complete_budget_refuted" Print Assumptions c05_complete_budget_refuted.
Redirect "out/C05.c05_signal_budget_at_least_cost" Print Assumptions c05_signal_budget_at_least_cost.
Redirect "out/C05.c05_signal_budget_refuted" Print Assumptions c05_signal_budget_refuted.
Redirect "out/C05.toy_satisfies_H" Print Assumptions toy_satisfies_H.
Redirect "out/C05.c05_example_whole" Print Assumptions c05_example_whole.
Redirect "out/C05.c05_example_chunked" Print Assumptions c05_example_chunked.
Redirect "out/C05.c05_example_failure" Print Assumptions c05_example_failure.
Redirect "out/C05.c05_example_side_conditions" Print Assumptions c05_example_side_conditions.
